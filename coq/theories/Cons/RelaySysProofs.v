(** Invariants of the turnstone queue with changing tables (Cons/RelaySys.v), over every history. *)
From Coq Require Import String List ZArith Bool Lia Sorting.Sorted.
From Paloma Require Import Base.Dec Base.DecProofs Evm.Assign Evm.AssignProofs Evm.AssignOv Evm.AssignOvProofs
     Cons.Fees Cons.FeesProofs Cons.Relay Cons.RelayProofs Cons.RelayCapProofs Cons.RelaySys.
From Paloma Require Gen.C14.
Import ListNotations.
Open Scope Z_scope.

(** ---- tie to the source: who enqueues, and the retry rules ---- *)
Example enqueue_sites_are :
  Gen.C14.enqueue_sites =
  [ "x/evm/keeper/keeper.go:CheckExternalBalancesForChain ; ConsensusGetValidatorBalances ; chainReferenceID ; types.ValidatorBalancesAttestation ; - ; assignee<-- ; remote<-- ; opts:RequireSignatures=false,PublicAccessData";
    "x/evm/keeper/keeper.go:ScheduleReferenceBlockForChain ; ConsensusGetReferenceBlock ; chainReferenceID ; types.ReferenceBlockAttestation ; - ; assignee<-- ; remote<-- ; opts:RequireSignatures=false,PublicAccessData";
    "x/evm/keeper/keeper.go:SendValsetMsgForChain ; types.ConsensusTurnstoneMessage ; xchain.ReferenceID(chainInfo.GetChainReferenceID()) ; types.Message ; types.Message_UpdateValset ; assignee<-via PublishValsetToChain: pick#0(chain.GetChainReferenceID(), nil) guarded | via justInTimeValsetUpdate: pick#0(chain.GetChainReferenceID(), nil) guarded ; remote<-via PublishValsetToChain: pick#1(chain.GetChainReferenceID(), nil) guarded | via justInTimeValsetUpdate: pick#1(chain.GetChainReferenceID(), nil) guarded ; opts:RequireGasEstimation=true,RequireSignatures=true";
    "x/evm/keeper/smart_contract_deployment.go:AddSmartContractExecutionToConsensus ; types.ConsensusTurnstoneMessage ; chainReferenceID ; types.Message ; types.Message_SubmitLogicCall ; assignee<-pick#0(chainReferenceID, requirements) guarded ; remote<-pick#1(chainReferenceID, requirements) guarded ; opts:RequireGasEstimation=true,RequireSignatures=true";
    "x/evm/keeper/smart_contract_deployment.go:AddUploadSmartContractToConsensus ; types.ConsensusTurnstoneMessage ; chainReferenceID ; types.Message ; types.Message_UploadSmartContract ; assignee<-pick#0(chainReferenceID, nil) guarded ; remote<-pick#1(chainReferenceID, nil) guarded ; opts:nil";
    "x/evm/keeper/smart_contract_deployment.go:scheduleCompassHandover ; types.ConsensusTurnstoneMessage ; chainReferenceID ; types.Message ; types.Message_CompassHandover ; assignee<-pick#0(chainReferenceID, nil) guarded ; remote<-pick#1(chainReferenceID, nil) guarded ; opts:RequireGasEstimation=true,RequireSignatures=true";
    "x/evm/keeper/treasury.go:CollectJobFundEvents ; ConsensusCollectFundEvents ; ci.GetChainReferenceID() ; types.CollectFunds ; - ; assignee<-- ; remote<-- ; opts:nil";
    "x/evm/keeper/user_smart_contract.go:AddUploadUserSmartContractToConsensus ; types.ConsensusTurnstoneMessage ; chainReferenceID ; types.Message ; types.Message_UploadUserSmartContract ; assignee<-pick#0(chainReferenceID, nil) guarded ; remote<-pick#1(chainReferenceID, nil) guarded ; opts:RequireGasEstimation=true,RequireSignatures=true" ]%string.
Proof. reflexivity. Qed.

Example direct_queue_puts_are :
  Gen.C14.direct_queue_puts =
  [ "x/consensus/keeper/concensus_keeper.go:PutMessageInQueue ; opts=opts";
    "x/consensus/keeper/estimate.go:checkAndProcessEstimatedFeePayer ; replace msg.GetId()" ]%string.
Proof. reflexivity. Qed.

Example retry_rules_are :
  Gen.C14.retry_rules =
  [ "submitLogicCallAttester: attemptRetry ; if slc.Retries < cMaxSubmitLogicCallRetries ; slc.Retries++, slc.Fees = nil ; AddSmartContractExecutionToConsensus";
    "uploadSmartContractAttester: attemptRetry ; if contract.Retries >= cMaxSubmitLogicCallRetries ; contract.Retries++ ; AddUploadSmartContractToConsensus";
    "uploadUserSmartContractAttester: attemptRetry ; if a.action.Retries >= cMaxSubmitLogicCallRetries ; a.action.Retries++, a.action.Fees = nil ; AddUploadUserSmartContractToConsensus";
    "updateValsetAttester: no-retry";
    "compassHandoverAttester: no-retry" ]%string.
Proof. reflexivity. Qed.
Example max_retries_is : max_retries = 2. Proof. reflexivity. Qed.
(** the score cache of msgAssigner never persists (value receiver): every pick ranks afresh, as [pick] does *)
Example pick_receiver_is_value : Gen.C14.msg_assigner_pick_receiver = "value"%string. Proof. reflexivity. Qed.

(** Everything the keepers reachable from an assignment hold OUTSIDE the store (struct fields, package
    variables), reviewed: collaborators, codecs, store handles (KVStoreWrapper = prefix + codec, no
    data), constants, the listener / registry slices filled once at app construction, and
    msgAssigner.scores - a memo that never persists (value receiver, pick_receiver_is_value).  None of it
    can carry table data from a discarded store branch into a later assignment; a new entry (for
    instance a per-block memo of the relayer-fee table) is unreviewed and breaks this pin. *)
Definition reviewed_memory_state : list string :=
  ["x/consensus/keeper:Keeper.cdc codec.Codec";
    "x/consensus/keeper:Keeper.consensusChecker *libcons.ConsensusChecker";
    "x/consensus/keeper:Keeper.evmKeeper types.EvmKeeper";
    "x/consensus/keeper:Keeper.feeProvider FeeProvider";
    "x/consensus/keeper:Keeper.ider keeperutil.IDGenerator";
    "x/consensus/keeper:Keeper.onMessageAttestedListeners []metrixtypes.OnConsensusMessageAttestedListener";
    "x/consensus/keeper:Keeper.paramstore paramtypes.Subspace";
    "x/consensus/keeper:Keeper.registry *registry";
    "x/consensus/keeper:Keeper.storeKey store.KVStoreService";
    "x/consensus/keeper:Keeper.valset types.ValsetKeeper";
    "x/consensus/keeper:msgServer.(embedded) Keeper";
    "x/consensus/keeper:registry.slice []consensus.SupportsConsensusQueue";
    "x/consensus/keeper:var decPrecisionDivisor";
    "x/consensus/keeper:var defaultResponseMessageCount";
    "x/evm/keeper:Keeper.AddressCodec address.Codec";
    "x/evm/keeper:Keeper.ConsensusKeeper types.ConsensusKeeper";
    "x/evm/keeper:Keeper.SchedulerKeeper types.SchedulerKeeper";
    "x/evm/keeper:Keeper.Skyway types.SkywayKeeper";
    "x/evm/keeper:Keeper.Valset types.ValsetKeeper";
    "x/evm/keeper:Keeper.authority string";
    "x/evm/keeper:Keeper.cdc codec.BinaryCodec";
    "x/evm/keeper:Keeper.consensusChecker *libcons.ConsensusChecker";
    "x/evm/keeper:Keeper.ider keeperutil.IDGenerator";
    "x/evm/keeper:Keeper.msgAssigner types.MsgAssigner";
    "x/evm/keeper:Keeper.msgSender types.MsgSender";
    "x/evm/keeper:Keeper.onMessageAttestedListeners []metrixtypes.OnConsensusMessageAttestedListener";
    "x/evm/keeper:Keeper.storeKey corestore.KVStoreService";
    "x/evm/keeper:msgAssigner.ValsetKeeper types.ValsetKeeper";
    "x/evm/keeper:msgAssigner.logProvider func(ctx context.Context) liblog.Logr";
    "x/evm/keeper:msgAssigner.metrixKeeper types.MetrixKeeper";
    "x/evm/keeper:msgAssigner.scores scoreSnapshot";
    "x/evm/keeper:msgAssigner.treasuryKeeper types.TreasuryKeeper";
    "x/evm/keeper:msgSender.ConsensusKeeper types.ConsensusKeeper";
    "x/evm/keeper:msgSender.cdc codec.BinaryCodec";
    "x/evm/keeper:msgServer.(embedded) Keeper";
    "x/evm/keeper:var SupportedConsensusQueues";
    "x/evm/keeper:var contractDeployedEvent";
    "x/evm/keeper:var lastSmartContractKey";
    "x/evm/keeper:var xchainType";
    "x/metrix/keeper:Keeper.AddressCodec address.Codec";
    "x/metrix/keeper:Keeper.cdc codec.BinaryCodec";
    "x/metrix/keeper:Keeper.history keeperutil.KVStoreWrapper[*types.ValidatorHistory]";
    "x/metrix/keeper:Keeper.messageNonceCache keeperutil.KVStoreWrapper[*types.HistoricRelayData]";
    "x/metrix/keeper:Keeper.metrics keeperutil.KVStoreWrapper[*types.ValidatorMetrics]";
    "x/metrix/keeper:Keeper.paramstore paramtypes.Subspace";
    "x/metrix/keeper:Keeper.slashing types.SlashingKeeper";
    "x/metrix/keeper:Keeper.staking types.StakingKeeper";
    "x/metrix/keeper:msgServer.(embedded) Keeper";
    "x/treasury/keeper:Keeper.Chains []xchain.FundCollecter";
    "x/treasury/keeper:Keeper.KeeperUtil keeperutil.KeeperUtilI[*types.Fees]";
    "x/treasury/keeper:Keeper.Store types.TreasuryStore";
    "x/treasury/keeper:Keeper.account types.AccountKeeper";
    "x/treasury/keeper:Keeper.bank types.BankKeeper";
    "x/treasury/keeper:Keeper.cdc codec.BinaryCodec";
    "x/treasury/keeper:Keeper.evm types.EvmKeeper";
    "x/treasury/keeper:Keeper.paramstore paramtypes.Subspace";
    "x/treasury/keeper:Keeper.relayerFees keeperutil.KVStoreWrapper[*types.RelayerFeeSetting]";
    "x/treasury/keeper:msgServer.(embedded) Keeper";
    "x/treasury/keeper:var maxRelayerFeeMultiplicator"]%string.
Lemma memory_state_is_reviewed : Gen.C14.memory_state = reviewed_memory_state.
Proof. reflexivity. Qed.

(** Every production call that puts a message into a turnstone queue takes Assignee and
    AssigneeRemoteAddress from results 0 and 1 of one PickValidatorForMessage call whose error is
    returned before the put; every other queue's payload is written without an assignee. *)
Definition site_ok (s : string * bool * bool * bool * bool) : bool :=
  let '(_, turnstone, from_pick, guarded, no_assignee) := s in
  if turnstone then from_pick && guarded else no_assignee.

Lemma every_enqueue_site_ok : forallb site_ok Gen.C14.enqueue_site_facts = true.
Proof. reflexivity. Qed.

Lemma enqueue_sites_all_decided :
  List.length Gen.C14.enqueue_site_facts = List.length Gen.C14.enqueue_sites /\
  List.length (filter (fun s => let '(_, t, _, _, _) := s in t) Gen.C14.enqueue_site_facts) = 5%nat.
Proof. split; reflexivity. Qed.

(** ---- what a step of the queue life-cycle keeps of a message ---- *)
Definition same_core (m m' : qmsg) : Prop :=
  mid m = mid m' /\ mkind m = mkind m' /\ massignee m = massignee m' /\ mreq m = mreq m'.

Lemma same_core_refl m : same_core m m.
Proof. unfold same_core; auto. Qed.

Lemma same_core_trans a b c : same_core a b -> same_core b c -> same_core a c.
Proof. unfold same_core. intros (?&?&?&?) (?&?&?&?). repeat split; congruence. Qed.

Lemma elect_core c m : same_core m (elect c m).
Proof.
  unfold elect. destruct (negb (mreq m)); [apply same_core_refl|]. destruct (mgas m); [|apply same_core_refl].
  destruct (0 <? mest m); [apply same_core_refl|]. destruct (_ =? 0); [apply same_core_refl|].
  destruct (match mkind m with KForeign => true | _ => false end); [apply same_core_refl|].
  destruct (is_fee_payer (mkind m)); [|unfold same_core; simpl; auto].
  destruct (fee_settings c (massignee m)) as [[[rf cf] sf]|]; [|apply same_core_refl].
  destruct (fees_for rf cf sf _); [unfold same_core; simpl; auto | apply same_core_refl].
Qed.

Lemma upd_core id (f : qmsg -> qmsg) q m' :
  (forall m, same_core m (f m)) -> In m' (upd id f q) -> exists m, In m q /\ same_core m m'.
Proof.
  intros Hf H. unfold upd in H. apply in_map_iff in H as (m & <- & Hm). exists m. split; auto.
  destruct (mid m =? id); [apply Hf | apply same_core_refl].
Qed.

Definition fresh_msg (id : Z) (k : kind) (a : Z) (req pad : bool) : qmsg :=
  {| mid := id; mkind := k; massignee := a; mreq := req; mgas := None; mest := 0; mpad := pad; merr := false; mfees := None |}.

Lemma step_trace c s o m' :
  In m' (queue (step c s o)) ->
  (exists m, In m (queue s) /\ same_core m m') \/
  (exists k a req pad, o = OpPut k a req pad /\ m' = fresh_msg (next_id s + 1) k a req pad).
Proof.
  destruct o as [k a req pad|id g| |id|id|id]; simpl; intros H.
  - apply in_app_or in H as [H|[<-|[]]]; [left; exists m'; split; [auto | apply same_core_refl]|].
    right. exists k, a, req, pad. split; reflexivity.
  - left. apply upd_core in H; auto. intros m. destruct (mreq m); [|apply same_core_refl].
    destruct (mgas m); [apply same_core_refl | unfold same_core; simpl; auto].
  - left. apply in_map_iff in H as (m & <- & Hm). exists m. split; auto. apply elect_core.
  - left. apply upd_core in H; auto. intros m. destruct (mpad m); [apply same_core_refl | unfold same_core; simpl; auto].
  - left. apply upd_core in H; auto. intros m. destruct (merr m || mpad m); [apply same_core_refl | unfold same_core; simpl; auto].
  - left. apply filter_In in H as [H _]. exists m'. split; [auto | apply same_core_refl].
Qed.

Definition is_put (o : op) : bool := match o with OpPut _ _ _ _ => true | _ => false end.

Lemma step_next c s o : next_id (step c s o) = if is_put o then next_id s + 1 else next_id s.
Proof. destruct o; reflexivity. Qed.

Lemma sorted_unique q a b : sorted q -> In a q -> In b q -> mid a = mid b -> a = b.
Proof.
  induction q as [|x r IH]; simpl; intros Hs Ha Hb E; [tauto|].
  apply sorted_cons_inv in Hs as [Hs Hgt].
  destruct Ha as [<-|Ha]; destruct Hb as [<-|Hb]; auto.
  - specialize (Hgt _ Hb). lia.
  - specialize (Hgt _ Ha). lia.
Qed.

(** ---- meta look-up ---- *)
Lemma meta_of_put k retries turn v remote s id :
  meta_of (put_assigned k retries turn v remote s) id =
  if next_id (sy_q s) + 1 =? id
  then Some {| me_kind := k; me_retries := retries; me_turn := turn; me_remote := remote |}
  else meta_of s id.
Proof. unfold meta_of, put_assigned. simpl. destruct (next_id (sy_q s) + 1 =? id); reflexivity. Qed.

Lemma put_assigned_queue k retries turn v remote s :
  queue (sy_q (put_assigned k retries turn v remote s)) =
  queue (sy_q s) ++ [fresh_msg (next_id (sy_q s) + 1) (kind_of k) v (needs_estimate k) false] /\
  next_id (sy_q (put_assigned k retries turn v remote s)) = next_id (sy_q s) + 1 /\
  sy_tables (put_assigned k retries turn v remote s) = sy_tables s.
Proof. unfold put_assigned. simpl. auto. Qed.

(** ---- the invariant ---- *)
Definition msg_ok (B : Z -> meta -> Prop) (s : sys) (m : qmsg) : Prop :=
  exists me, meta_of s (mid m) = Some me /\ mkind m = kind_of (me_kind me) /\
             mreq m = needs_estimate (me_kind me) /\ 0 <= me_retries me <= max_retries /\
             B (massignee m) me.

Definition sinv (B : Z -> meta -> Prop) (s : sys) : Prop :=
  wf (sy_q s) /\ (forall m, In m (queue (sy_q s)) -> msg_ok B s m).

Lemma msg_ok_core B s s' m m' :
  same_core m m' -> (forall id, meta_of s' id = meta_of s id) -> msg_ok B s m -> msg_ok B s' m'.
Proof.
  intros (E1 & E2 & E3 & E4) Hm (me & H1 & H2 & H3 & H4 & H5). exists me.
  rewrite Hm, <- E1, <- E2, <- E3, <- E4. auto.
Qed.

Lemma sinv_weaken (B B' : Z -> meta -> Prop) s :
  (forall v me, B v me -> B' v me) -> sinv B s -> sinv B' s.
Proof.
  intros HB [Hw Hm]. split; auto. intros m Hin. destruct (Hm m Hin) as (me & ? & ? & ? & ? & ?).
  exists me. repeat split; auto; tauto.
Qed.

Lemma qstep_sinv B s o : is_put o = false -> sinv B s -> sinv B (qstep s o).
Proof.
  intros Ho [Hw Hm]. split.
  - unfold qstep, with_q; simpl. apply step_wf; auto.
  - intros m' Hin. unfold qstep, with_q in Hin; simpl in Hin.
    apply step_trace in Hin as [(m & Hin & Hc)|(k & a & req & pad & -> & _)]; [|discriminate].
    eapply msg_ok_core; eauto.
Qed.

Lemma delete_ids_wf q ids :
  wf q -> wf {| next_id := next_id q; queue := filter (fun m => negb (existsb (Z.eqb (mid m)) ids)) (queue q) |}.
Proof.
  intros [Hs Hb]. split; simpl.
  - apply sorted_filter; auto.
  - intros m Hm. apply filter_In in Hm as [Hm _]. auto.
Qed.

Lemma delete_ids_sinv B s ids : sinv B s -> sinv B (delete_ids s ids).
Proof.
  intros [Hw Hm]. split.
  - unfold delete_ids, with_q; simpl. apply delete_ids_wf; auto.
  - intros m Hin. unfold delete_ids, with_q in Hin; simpl in Hin. apply filter_In in Hin as [Hin _].
    eapply msg_ok_core; [apply same_core_refl | | apply Hm; auto]. reflexivity.
Qed.

Lemma put_assigned_sinv B k retries turn v remote s :
  sinv B s -> 0 <= retries <= max_retries ->
  B v {| me_kind := k; me_retries := retries; me_turn := turn; me_remote := remote |} ->
  sinv B (put_assigned k retries turn v remote s).
Proof.
  intros [Hw Hm] Hr HB. destruct (put_assigned_queue k retries turn v remote s) as (Eq & En & _).
  split.
  - unfold put_assigned. apply step_wf; auto.
  - intros m Hin. rewrite Eq in Hin. apply in_app_or in Hin as [Hin|[<-|[]]].
    + destruct (Hm m Hin) as (me & H1 & H2 & H3 & H4 & H5). exists me. rewrite meta_of_put.
      destruct Hw as [_ Hb]. specialize (Hb _ Hin).
      destruct (next_id (sy_q s) + 1 =? mid m) eqn:E; [apply Z.eqb_eq in E; lia|]. auto.
    + exists {| me_kind := k; me_retries := retries; me_turn := turn; me_remote := remote |}.
      rewrite meta_of_put. simpl. rewrite Z.eqb_refl. repeat split; auto; lia.
Qed.

Lemma do_request_sinv B ch k retries turn ts s :
  sinv B s -> 0 <= retries <= max_retries ->
  (forall v remote, pick_now ch (sy_tables s) k ts = Picked v remote ->
                    B v {| me_kind := k; me_retries := retries; me_turn := turn; me_remote := remote |}) ->
  sinv B (do_request ch k retries turn ts s).
Proof.
  intros Hi Hr HB. unfold do_request.
  destruct (pick_now ch (sy_tables s) k ts) as [v remote| |] eqn:EP; auto.
  specialize (HB v remote eq_refl).
  destruct k as [sd mv| | | |vid]; try (apply put_assigned_sinv; auto).
  destruct (valset_scan _ _ _ _ _) as [del put].
  destruct put; [apply put_assigned_sinv; auto|]; apply delete_ids_sinv; auto.
Qed.

(** ---- histories ---- *)
Lemma srun_snoc ch ops o : srun ch (ops ++ [o]) = sstep ch (srun ch ops) o.
Proof. unfold srun. rewrite fold_left_app. reflexivity. Qed.

Definition born (ch : Z) (ops : list sop) (v : Z) (me : meta) : Prop :=
  exists pre post ts, ops = pre ++ post /\
    pick_now ch (sy_tables (srun ch pre)) (me_kind me) ts = Picked v (me_remote me).

Lemma born_mono ch ops o v me : born ch ops v me -> born ch (ops ++ [o]) v me.
Proof. intros (pre & post & ts & -> & H). exists pre, (post ++ [o]), ts. rewrite app_assoc. auto. Qed.

Lemma born_now ch ops o k retries turn ts v remote :
  pick_now ch (sy_tables (srun ch ops)) k ts = Picked v remote ->
  born ch (ops ++ [o]) v {| me_kind := k; me_retries := retries; me_turn := turn; me_remote := remote |}.
Proof. intros H. exists ops, [o], ts. auto. Qed.

Lemma max_retries_nonneg : 0 <= max_retries. Proof. discriminate. Qed.

Lemma qstep_tables s o : sy_tables (qstep s o) = sy_tables s.
Proof. reflexivity. Qed.

Lemma srun_sinv ch ops : sinv (born ch ops) (srun ch ops).
Proof.
  induction ops as [|o ops IH] using rev_ind.
  - split; [split; simpl; [constructor | tauto] | simpl; tauto].
  - rewrite srun_snoc.
    assert (IH' : sinv (born ch (ops ++ [o])) (srun ch ops)).
    { eapply sinv_weaken; [|exact IH]. intros v me. apply born_mono. }
    clear IH. set (s := srun ch ops) in *. pose proof max_retries_nonneg.
    destruct o as [t|k turn ts|id g| |id|id|id|id ts]; simpl.
    + destruct IH' as [Hw Hm]. split; [exact Hw | exact Hm].
    + apply do_request_sinv; auto; [lia|]. intros v remote HP. eapply born_now; eauto.
    + apply qstep_sinv; auto.
    + apply qstep_sinv; auto.
    + apply qstep_sinv; auto.
    + apply qstep_sinv; auto.
    + apply qstep_sinv; auto.
    + destruct (find (fun m => mid m =? id) (queue (sy_q s))) as [m0|] eqn:EF; auto.
      destruct (meta_of s id) as [me|] eqn:EM; auto.
      assert (Hs1 : sinv (born ch (ops ++ [SAttestError id ts])) (qstep s (OpDelete id))) by (apply qstep_sinv; auto).
      destruct (retryable (me_kind me) && (me_retries me <? max_retries)) eqn:ER; auto.
      destruct (pick_now ch (sy_tables s) (me_kind me) ts) eqn:EPK; auto.
      all: apply andb_true_iff in ER as [_ ER]; apply Z.ltb_lt in ER.
      all: apply find_some in EF as [Hin0 E0]; apply Z.eqb_eq in E0.
      all: destruct IH' as [_ Hm]; destruct (Hm m0 Hin0) as (me' & H1 & _ & _ & H4 & _).
      all: rewrite E0, EM in H1; inversion H1; subst me'.
      all: apply do_request_sinv; auto; [lia|]; intros v' remote' HP; rewrite qstep_tables in HP; eapply born_now; eauto.
Qed.

(** ---- 1. every queued message was assigned by a pick on the tables of some earlier moment ---- *)
Lemma sys_assignee_eligible ch ops m :
  In m (queue (sy_q (srun ch ops))) ->
  exists me pre post,
    meta_of (srun ch ops) (mid m) = Some me /\ mkind m = kind_of (me_kind me) /\
    0 <= me_retries me <= max_retries /\
    ops = pre ++ post /\
    let t := sy_tables (srun ch pre) in
    let v := massignee m in
    has_metrics (tb_metrics t) v /\ has_fee (tb_fees t) v /\
    (exists e, In e (tb_snap t) /\ v_addr e = v /\ account e ch = Some (me_remote me)) /\
    (exists e', In e' (tb_snap t) /\ v_addr e' = v /\ account e' ch <> None /\
                (mev_required (req_flag (me_kind me)) = true -> carries_trait e' ch trait_mev)).
Proof.
  intros Hin. destruct (srun_sinv ch ops) as [_ Hm].
  destruct (Hm m Hin) as (me & H1 & H2 & _ & H4 & (pre & post & ts & E & HP)).
  exists me, pre, post. repeat split; auto; try lia.
  all: unfold pick_now in HP; apply pick_ov_picked in HP; apply assignee_eligible_any_snapshot in HP; tauto.
Qed.

(** ---- 2. the assignee of a message never changes; ids are never reused ---- *)
Lemma do_request_trace ch k retries turn ts s :
  next_id (sy_q s) <= next_id (sy_q (do_request ch k retries turn ts s)) /\
  sy_tables (do_request ch k retries turn ts s) = sy_tables s /\
  forall m', In m' (queue (sy_q (do_request ch k retries turn ts s))) ->
             In m' (queue (sy_q s)) \/
             exists v, m' = fresh_msg (next_id (sy_q s) + 1) (kind_of k) v (needs_estimate k) false.
Proof.
  unfold do_request. destruct (pick_now ch (sy_tables s) k ts) as [v remote| |]; try (split; [lia | split; auto]).
  assert (Hput : forall s0, next_id (sy_q s0) = next_id (sy_q s) -> sy_tables s0 = sy_tables s ->
            (forall m, In m (queue (sy_q s0)) -> In m (queue (sy_q s))) ->
            next_id (sy_q s) <= next_id (sy_q (put_assigned k retries turn v remote s0)) /\
            sy_tables (put_assigned k retries turn v remote s0) = sy_tables s /\
            forall m', In m' (queue (sy_q (put_assigned k retries turn v remote s0))) ->
                       In m' (queue (sy_q s)) \/
                       exists v, m' = fresh_msg (next_id (sy_q s) + 1) (kind_of k) v (needs_estimate k) false).
  { intros s0 En Et Hsub. destruct (put_assigned_queue k retries turn v remote s0) as (Eq & En' & Et').
    rewrite En', Et', Eq. split; [lia | split; auto]. intros m' H. apply in_app_or in H as [H|[<-|[]]]; auto.
    right. exists v. rewrite En. reflexivity. }
  destruct k as [sd mv| | | |vid]; try (apply Hput; auto).
  destruct (valset_scan _ _ _ _ _) as [del put].
  assert (Hsub : forall m, In m (queue (sy_q (delete_ids s del))) -> In m (queue (sy_q s))).
  { intros m H. unfold delete_ids, with_q in H; simpl in H. apply filter_In in H as [H _]. auto. }
  destruct put; [apply Hput; auto|]. split; [simpl; lia | split; auto].
Qed.

Lemma sstep_trace ch s o :
  next_id (sy_q s) <= next_id (sy_q (sstep ch s o)) /\
  forall m', In m' (queue (sy_q (sstep ch s o))) ->
             (exists m, In m (queue (sy_q s)) /\ same_core m m') \/ next_id (sy_q s) < mid m'.
Proof.
  assert (Hq : forall o', is_put o' = false ->
            next_id (sy_q s) <= next_id (sy_q (qstep s o')) /\
            forall m', In m' (queue (sy_q (qstep s o'))) ->
                       (exists m, In m (queue (sy_q s)) /\ same_core m m') \/ next_id (sy_q s) < mid m').
  { intros o' Ho. unfold qstep, with_q; simpl. rewrite step_next, Ho. split; [lia|].
    intros m' H. apply step_trace in H as [H|(k & a & req & pad & -> & _)]; [auto | discriminate]. }
  destruct o as [t|k turn ts|id g| |id|id|id|id ts]; cbn [sstep]; try (apply Hq; reflexivity).
  - simpl. split; [lia|]. intros m' H. left. exists m'. split; [auto | apply same_core_refl].
  - destruct (do_request_trace ch k 0 (turn_for (sy_tables s) k turn) ts s) as (Hn & _ & Hm). split; auto.
    intros m' H. apply Hm in H as [H|(v & ->)]; [|right; simpl; lia]. left. exists m'. split; [auto | apply same_core_refl].
  - destruct (find _ _); [|split; [lia | intros m' H; left; exists m'; split; [auto | apply same_core_refl]]].
    destruct (meta_of s id) as [me|]; [|split; [lia | intros m' H; left; exists m'; split; [auto | apply same_core_refl]]].
    destruct (Hq (OpDelete id) eq_refl) as [Hn1 Hm1].
    destruct (retryable (me_kind me) && (me_retries me <? max_retries)); [|split; auto].
    destruct (do_request_trace ch (me_kind me) (me_retries me + 1) (me_turn me) ts (qstep s (OpDelete id))) as (Hn & _ & Hm).
    destruct (pick_now ch (sy_tables s) (me_kind me) ts);
      [| |split; [lia | intros m' H; left; exists m'; split; [auto | apply same_core_refl]]].
    all: split; [lia|]; intros m' H; apply Hm in H as [H|(v' & ->)]; [apply Hm1 in H; auto | right; simpl in *; lia].
Qed.

Lemma srun_app ch ops1 ops2 : srun ch (ops1 ++ ops2) = fold_left (sstep ch) ops2 (srun ch ops1).
Proof. unfold srun. apply fold_left_app. Qed.

Lemma sys_trace ch ops1 ops2 :
  next_id (sy_q (srun ch ops1)) <= next_id (sy_q (srun ch (ops1 ++ ops2))) /\
  forall m2, In m2 (queue (sy_q (srun ch (ops1 ++ ops2)))) -> mid m2 <= next_id (sy_q (srun ch ops1)) ->
             exists m1, In m1 (queue (sy_q (srun ch ops1))) /\ same_core m1 m2.
Proof.
  induction ops2 as [|o ops2 IH] using rev_ind.
  - rewrite app_nil_r. split; [lia|]. intros m2 H _. exists m2. split; [auto | apply same_core_refl].
  - rewrite app_assoc, srun_snoc. destruct IH as [Hn Hm].
    destruct (sstep_trace ch (srun ch (ops1 ++ ops2)) o) as [Hn' Hm']. split; [lia|].
    intros m2 H Hle. apply Hm' in H as [(m & Hin & Hc)|Hnew]; [|lia].
    destruct (Hm m Hin) as (m1 & Hin1 & Hc1); [destruct Hc as (E & _); lia|].
    exists m1. split; auto. eapply same_core_trans; eauto.
Qed.

Lemma sys_assignee_fixed ch ops1 ops2 m1 m2 :
  In m1 (queue (sy_q (srun ch ops1))) -> In m2 (queue (sy_q (srun ch (ops1 ++ ops2)))) ->
  mid m1 = mid m2 -> massignee m1 = massignee m2 /\ mkind m1 = mkind m2.
Proof.
  intros H1 H2 E. destruct (srun_sinv ch ops1) as [[Hs Hb] _].
  destruct (sys_trace ch ops1 ops2) as [_ Hm].
  destruct (Hm m2 H2) as (m1' & Hin' & (E1 & E2 & E3 & _)); [rewrite <- E; auto|].
  assert (m1' = m1) by (eapply sorted_unique; eauto; congruence). subst m1'. auto.
Qed.

(** the record written next to the assignee (remote address, kind, retries, turnstone id) is permanent too *)
Lemma do_request_meta ch k retries turn ts s id :
  id <= next_id (sy_q s) -> meta_of (do_request ch k retries turn ts s) id = meta_of s id.
Proof.
  intros Hle. unfold do_request. destruct (pick_now ch (sy_tables s) k ts) as [v remote| |]; auto.
  assert (Hput : forall s0, next_id (sy_q s0) = next_id (sy_q s) -> meta_of s0 id = meta_of s id ->
            meta_of (put_assigned k retries turn v remote s0) id = meta_of s id).
  { intros s0 En Em. rewrite meta_of_put, En.
    destruct (next_id (sy_q s) + 1 =? id) eqn:E; [apply Z.eqb_eq in E; lia | exact Em]. }
  destruct k as [sd mv| | | |vid]; try (apply Hput; reflexivity).
  destruct (valset_scan _ _ _ _ _) as [del put]. destruct put; [apply Hput; reflexivity | reflexivity].
Qed.

Lemma sstep_meta ch s o id : id <= next_id (sy_q s) -> meta_of (sstep ch s o) id = meta_of s id.
Proof.
  intros Hle. destruct o as [t|k turn ts|i g| |i|i|i|i ts]; cbn [sstep]; try reflexivity.
  - apply do_request_meta; auto.
  - destruct (find _ _); [|reflexivity]. destruct (meta_of s i) as [me|]; [|reflexivity].
    destruct (retryable (me_kind me) && (me_retries me <? max_retries)); [|reflexivity].
    destruct (pick_now ch (sy_tables s) (me_kind me) ts); try reflexivity;
      (rewrite do_request_meta; [reflexivity | simpl; exact Hle]).
Qed.

Lemma sys_meta_fixed ch ops1 ops2 id :
  id <= next_id (sy_q (srun ch ops1)) -> meta_of (srun ch (ops1 ++ ops2)) id = meta_of (srun ch ops1) id.
Proof.
  intros Hle. induction ops2 as [|o ops2 IH] using rev_ind; [rewrite app_nil_r; reflexivity|].
  rewrite app_assoc, srun_snoc. rewrite sstep_meta; [exact IH|].
  destruct (sys_trace ch ops1 ops2) as [Hn _]. lia.
Qed.

Lemma sys_record_fixed ch ops1 ops2 m1 m2 :
  In m1 (queue (sy_q (srun ch ops1))) -> In m2 (queue (sy_q (srun ch (ops1 ++ ops2)))) -> mid m1 = mid m2 ->
  massignee m1 = massignee m2 /\ mkind m1 = mkind m2 /\
  meta_of (srun ch (ops1 ++ ops2)) (mid m2) = meta_of (srun ch ops1) (mid m1).
Proof.
  intros H1 H2 E. destruct (sys_assignee_fixed ch ops1 ops2 m1 m2 H1 H2 E) as [Ea Ek]. repeat split; auto.
  rewrite <- E. apply sys_meta_fixed. destruct (srun_sinv ch ops1) as [[_ Hb] _]. auto.
Qed.

(** ---- 3. the offer reads the queue only ---- *)
Lemma sys_sorted ch ops : sorted (queue (sy_q (srun ch ops))).
Proof. destruct (srun_sinv ch ops) as [[Hs _] _]. exact Hs. Qed.

Lemma sys_offer_exact ch ops v m a :
  let q := queue (sy_q (srun ch ops)) in
  mkind m = KEvm a ->
  (In m (for_relaying q v) <->
   relayable q v m a /\ (length (older_than m (relay_candidates q v)) < Z.to_nat response_cap)%nat).
Proof. intros q. apply relay_offer_exact_sorted. apply sys_sorted. Qed.

Lemma sys_offer_only_to_first_assignee ch ops1 ops2 m1 m2 v a :
  In m1 (queue (sy_q (srun ch ops1))) ->
  In m2 (for_relaying (queue (sy_q (srun ch (ops1 ++ ops2)))) v) -> mkind m2 = KEvm a ->
  mid m1 = mid m2 -> massignee m1 = v.
Proof.
  intros H1 H2 K E.
  destruct (relay_offer_sound_sorted _ v m2 a (sys_sorted ch (ops1 ++ ops2)) H2 K) as (Hin & Ha & _).
  destruct (sys_assignee_fixed ch ops1 ops2 m1 m2 H1 Hin E) as [Ea _]. congruence.
Qed.

(** ---- 4. retry after an error proof: the SAME enqueueing caller, a fresh pick on the tables of that
    moment, a fresh id, no estimate and no fees carried over, Retries + 1; nothing if the pick fails ---- *)
Lemma find_mid_some q id m : In m q -> mid m = id -> exists m0, find (fun x => mid x =? id) q = Some m0.
Proof.
  induction q as [|a r IH]; simpl; intros H E; [tauto|].
  destruct H as [->|H]; [rewrite E, Z.eqb_refl; eauto|]. destruct (mid a =? id); eauto.
Qed.

Lemma retryable_not_valset k : retryable k = true -> forall vid, k <> QValset vid.
Proof. intros H vid ->. discriminate. Qed.

Lemma do_request_put ch k retries turn ts s v remote :
  (forall vid, k <> QValset vid) -> pick_now ch (sy_tables s) k ts = Picked v remote ->
  do_request ch k retries turn ts s = put_assigned k retries turn v remote s.
Proof. intros Hk HP. unfold do_request. rewrite HP. destruct k; auto. exfalso. eapply Hk; eauto. Qed.

Lemma do_request_fail ch k retries turn ts s :
  (forall v remote, pick_now ch (sy_tables s) k ts <> Picked v remote) -> do_request ch k retries turn ts s = s.
Proof. intros H. unfold do_request. destruct (pick_now ch (sy_tables s) k ts) eqn:E; auto. exfalso. eapply H; eauto. Qed.

Lemma sys_retry ch ops id ts m me :
  let s := srun ch ops in
  let s' := srun ch (ops ++ [SAttestError id ts]) in
  In m (queue (sy_q s)) -> mid m = id -> meta_of s id = Some me ->
  retryable (me_kind me) = true -> me_retries me < max_retries ->
  (forall v remote, pick_now ch (sy_tables s) (me_kind me) ts = Picked v remote ->
     queue (sy_q s') = filter (fun x => negb (mid x =? id)) (queue (sy_q s)) ++
                       [fresh_msg (next_id (sy_q s) + 1) (kind_of (me_kind me)) v (needs_estimate (me_kind me)) false] /\
     meta_of s' (next_id (sy_q s) + 1) =
       Some {| me_kind := me_kind me; me_retries := me_retries me + 1; me_turn := me_turn me; me_remote := remote |}) /\
  (forall c, pick_now ch (sy_tables s) (me_kind me) ts = PickErr c ->
     queue (sy_q s') = filter (fun x => negb (mid x =? id)) (queue (sy_q s))) /\
  (pick_now ch (sy_tables s) (me_kind me) ts = PickPanic -> s' = s) /\
  (pick_now ch (sy_tables s) (me_kind me) ts <> PickPanic -> forall x, In x (queue (sy_q s')) -> mid x <> id).
Proof.
  intros s s' Hin E EM HR HL. unfold s'. rewrite srun_snoc. fold s. cbn [sstep].
  destruct (find_mid_some _ _ _ Hin E) as (m0 & EF). rewrite EF, EM.
  assert (ER : retryable (me_kind me) && (me_retries me <? max_retries) = true).
  { rewrite HR. apply Z.ltb_lt in HL. rewrite HL. reflexivity. }
  rewrite ER.
  destruct (srun_sinv ch ops) as [[_ Hb] _]. fold s in Hb. specialize (Hb _ Hin).
  set (s1 := qstep s (OpDelete id)).
  assert (Q1 : queue (sy_q s1) = filter (fun x => negb (mid x =? id)) (queue (sy_q s))) by reflexivity.
  assert (N1 : next_id (sy_q s1) = next_id (sy_q s)) by reflexivity.
  assert (T1 : sy_tables s1 = sy_tables s) by reflexivity.
  assert (Hne : forall x, In x (filter (fun x => negb (mid x =? id)) (queue (sy_q s))) -> mid x <> id).
  { intros x Hx. apply filter_In in Hx as [_ Hx]. apply negb_true_iff in Hx. apply Z.eqb_neq in Hx. exact Hx. }
  assert (HP1 : forall v remote, pick_now ch (sy_tables s) (me_kind me) ts = Picked v remote ->
     queue (sy_q (do_request ch (me_kind me) (me_retries me + 1) (me_turn me) ts s1)) =
       filter (fun x => negb (mid x =? id)) (queue (sy_q s)) ++
       [fresh_msg (next_id (sy_q s) + 1) (kind_of (me_kind me)) v (needs_estimate (me_kind me)) false] /\
     meta_of (do_request ch (me_kind me) (me_retries me + 1) (me_turn me) ts s1) (next_id (sy_q s) + 1) =
       Some {| me_kind := me_kind me; me_retries := me_retries me + 1; me_turn := me_turn me; me_remote := remote |}).
  { intros v remote HP. rewrite <- T1 in HP.
    rewrite (do_request_put _ _ _ _ _ _ v remote (retryable_not_valset _ HR) HP).
    destruct (put_assigned_queue (me_kind me) (me_retries me + 1) (me_turn me) v remote s1) as (Eq & _ & _).
    rewrite Eq, Q1, N1. split; [reflexivity|]. rewrite meta_of_put, N1, Z.eqb_refl. reflexivity. }
  assert (HP2 : forall c, pick_now ch (sy_tables s) (me_kind me) ts = PickErr c ->
     do_request ch (me_kind me) (me_retries me + 1) (me_turn me) ts s1 = s1).
  { intros c HPc. apply do_request_fail. rewrite T1, HPc. intros v remote. discriminate. }
  destruct (pick_now ch (sy_tables s) (me_kind me) ts) as [v0 r0|c0|] eqn:EPK.
  - destruct (HP1 v0 r0 eq_refl) as [Eq Em]. split; [|split; [|split]].
    + intros v1 r1 HV. inversion HV; subst. split; [exact Eq | exact Em].
    + discriminate.
    + discriminate.
    + intros _ x Hx. rewrite Eq in Hx. apply in_app_or in Hx as [Hx|[<-|[]]]; [auto|]. cbn [mid fresh_msg]. lia.
  - rewrite (HP2 c0 eq_refl). split; [|split; [|split]].
    + discriminate.
    + intros c _. exact Q1.
    + discriminate.
    + intros _ x Hx. rewrite Q1 in Hx. auto.
  - split; [|split; [|split]]; try discriminate; [reflexivity | intros H; contradiction].
Qed.

Lemma sys_retry_exhausted ch ops id ts m me :
  let s := srun ch ops in
  let s' := srun ch (ops ++ [SAttestError id ts]) in
  In m (queue (sy_q s)) -> mid m = id -> meta_of s id = Some me ->
  retryable (me_kind me) = false \/ max_retries <= me_retries me ->
  queue (sy_q s') = filter (fun x => negb (mid x =? id)) (queue (sy_q s)) /\ next_id (sy_q s') = next_id (sy_q s).
Proof.
  intros s s' Hin E EM HR. unfold s'. rewrite srun_snoc. fold s. cbn [sstep].
  destruct (find_mid_some _ _ _ Hin E) as (m0 & EF). rewrite EF, EM.
  assert (ER : retryable (me_kind me) && (me_retries me <? max_retries) = false).
  { destruct HR as [->|HR]; [reflexivity|]. apply andb_false_iff. right. apply Z.ltb_ge. exact HR. }
  rewrite ER. split; reflexivity.
Qed.

(** ---- 5. fees: whatever a queued message carries was computed at its election from the multiplier
    on record THEN for ITS assignee (tables of some earlier moment of the history) ---- *)
Lemma elect_fees_ex c c' m : fees_inv c' m -> fees_inv c' (elect c m) \/ fees_inv c (elect c m).
Proof.
  intros H. unfold elect. destruct (negb (mreq m)); auto. destruct (mgas m) as [g|]; auto.
  destruct (0 <? mest m); auto. destruct (g =? 0); auto.
  destruct (match mkind m with KForeign => true | _ => false end); auto.
  destruct (is_fee_payer (mkind m)) eqn:FP.
  - unfold fee_settings. destruct (relayer_multiplier c (massignee m)) as [rf|] eqn:ER; auto.
    destruct ((rf =? 0) || (cfg_community c =? 0) || (cfg_security c =? 0)); auto.
    destruct (fees_for rf (cfg_community c) (cfg_security c) g) as [f|] eqn:EF; auto.
    right. unfold fees_inv. simpl. split; auto. exists rf. auto.
  - left. unfold fees_inv in *. simpl. destruct (mfees m) as [f|]; auto. destruct H as [H _]. congruence.
Qed.

Definition fees_some (P : config -> Prop) (m : qmsg) : Prop := exists c, P c /\ fees_inv c m.

Lemma upd_fees_some (P : config -> Prop) id (f : qmsg -> qmsg) q :
  (forall c m, fees_inv c m -> fees_inv c (f m)) ->
  (forall m, In m q -> fees_some P m) -> forall m, In m (upd id f q) -> fees_some P m.
Proof.
  intros Hf Hq m Hm. unfold upd in Hm. apply in_map_iff in Hm as (m0 & <- & H0).
  destruct (Hq m0 H0) as (c & Pc & Hc). exists c. split; auto. destruct (mid m0 =? id); auto.
Qed.

Lemma step_fees_some (P : config -> Prop) c s o :
  P c -> (forall m, In m (queue s) -> fees_some P m) -> forall m, In m (queue (step c s o)) -> fees_some P m.
Proof.
  intros Pc H. destruct o as [k a req pad|id g| |id|id|id]; simpl.
  - intros m Hm. apply in_app_or in Hm as [Hm|[<-|[]]]; auto. exists c. split; auto. unfold fees_inv; simpl; auto.
  - apply upd_fees_some; auto. intros c0 m Hm. destruct (mreq m); auto. destruct (mgas m); auto.
  - intros m Hm. apply in_map_iff in Hm as (m0 & <- & H0). destruct (H m0 H0) as (c' & Pc' & Hc').
    destruct (elect_fees_ex c c' m0 Hc'); [exists c' | exists c]; auto.
  - apply upd_fees_some; auto. intros c0 m Hm. destruct (mpad m); auto.
  - apply upd_fees_some; auto. intros c0 m Hm. destruct (merr m || mpad m); auto.
  - intros m Hm. apply filter_In in Hm as [Hm _]. auto.
Qed.

Definition cfg_past (ch : Z) (ops : list sop) (c : config) : Prop :=
  exists pre post, ops = pre ++ post /\ c = cfg_of (sy_tables (srun ch pre)).

Lemma cfg_past_mono ch ops o c : cfg_past ch ops c -> cfg_past ch (ops ++ [o]) c.
Proof. intros (pre & post & -> & E). exists pre, (post ++ [o]). rewrite app_assoc. auto. Qed.

Lemma cfg_past_now ch ops o : cfg_past ch (ops ++ [o]) (cfg_of (sy_tables (srun ch ops))).
Proof. exists ops, [o]. auto. Qed.

Lemma do_request_fees_some (P : config -> Prop) ch k retries turn ts s :
  P (cfg_of (sy_tables s)) -> (forall m, In m (queue (sy_q s)) -> fees_some P m) ->
  forall m, In m (queue (sy_q (do_request ch k retries turn ts s))) -> fees_some P m.
Proof.
  intros Pc H m Hm. destruct (do_request_trace ch k retries turn ts s) as (_ & _ & Ht).
  apply Ht in Hm as [Hm|(v & ->)]; auto. exists (cfg_of (sy_tables s)). split; auto. unfold fees_inv; simpl; auto.
Qed.

Lemma sys_fees_some ch ops : forall m, In m (queue (sy_q (srun ch ops))) -> fees_some (cfg_past ch ops) m.
Proof.
  induction ops as [|o ops IH] using rev_ind; [simpl; tauto|].
  rewrite srun_snoc.
  assert (IH' : forall m, In m (queue (sy_q (srun ch ops))) -> fees_some (cfg_past ch (ops ++ [o])) m).
  { intros m Hm. destruct (IH m Hm) as (c & Pc & Hc). exists c. split; auto. apply cfg_past_mono; auto. }
  clear IH. pose proof (cfg_past_now ch ops o) as Pnow. set (s := srun ch ops) in *.
  assert (Hq : forall o', forall m, In m (queue (sy_q (qstep s o'))) -> fees_some (cfg_past ch (ops ++ [o])) m).
  { intros o'. unfold qstep, with_q; simpl. apply step_fees_some; auto. }
  destruct o as [t|k turn ts|id g| |id|id|id|id ts]; cbn [sstep]; try apply Hq.
  - exact IH'.
  - apply do_request_fees_some; auto.
  - destruct (find _ _); auto. destruct (meta_of s id) as [me|]; auto.
    destruct (retryable (me_kind me) && (me_retries me <? max_retries)); [|apply Hq].
    destruct (pick_now ch (sy_tables s) (me_kind me) ts); [| |exact IH'];
      (apply do_request_fees_some; [exact Pnow | apply Hq]).
Qed.

Lemma sys_queued_fees_are_ceilings ch ops m f :
  In m (queue (sy_q (srun ch ops))) -> mfees m = Some f ->
  exists pre post rf, ops = pre ++ post /\
    let t := sy_tables (srun ch pre) in
    fee_lookup (tb_fees t) (massignee m) = Some rf /\
    is_ceiling (rf * mest m) (fee_relayer f) /\
    is_ceiling (tb_community t * fee_relayer f) (fee_community f) /\
    is_ceiling (tb_security t * fee_relayer f) (fee_security f).
Proof.
  intros Hin Hf. destruct (sys_fees_some ch ops m Hin) as (c & (pre & post & E & ->) & H).
  unfold fees_inv in H. rewrite Hf in H. destruct H as (_ & rf & Hr & HF).
  exists pre, post, rf. split; auto. apply fees_for_ceilings in HF. simpl in HF.
  split; [exact Hr | tauto].
Qed.

(** ---- non-vacuity, and what happens to a message whose assignee leaves the snapshot ---- *)
Definition ex_t : tables :=
  {| tb_snap := ex_sn; tb_metrics := ex_ms; tb_fees := ex_fs; tb_weights := ex_w;
     tb_community := 30000000000000000; tb_security := 10000000000000000; tb_turnstone := 7 |}.
(** validator 0 is gone from the snapshot (jailed, unbonded, ...) *)
Definition ex_t_departed : tables :=
  {| tb_snap := tl ex_sn; tb_metrics := ex_ms; tb_fees := ex_fs; tb_weights := ex_w;
     tb_community := 30000000000000000; tb_security := 10000000000000000; tb_turnstone := 7 |}.

Definition dep_ops : list sop :=
  [ SSetTables ex_t; SRequest (QLogicCall (Some 7) false) 7 1700000000;   (* assigned to 0, remote 10 *)
    SSetTables ex_t_departed; SSubmit 1 21000; SEndBlock ].

(** The message stays assigned to, and is offered to, validator 0 although it is no longer in the
    current snapshot; nobody else is ever offered it (sys_offer_only_to_first_assignee). *)
Example departed_assignee_still_offered :
  let s := srun 1 dep_ops in
  map mid (for_relaying (queue (sy_q s)) 0) = [1] /\
  map (fun v => map mid (for_relaying (queue (sy_q s)) v)) [1; 2; 3] = [[]; []; []] /\
  ~ in_snapshot (tb_snap (sy_tables s)) 0.
Proof.
  split; [vm_compute; reflexivity|]. split; [vm_compute; reflexivity|].
  intros (e & Hin & E). simpl in Hin. destruct Hin as [<-|[<-|[<-|[]]]]; discriminate.
Qed.

Lemma offer_outlives_eligibility_witness :
  exists ch ops v m,
    In m (for_relaying (queue (sy_q (srun ch ops))) v) /\ massignee m = v /\
    ~ in_snapshot (tb_snap (sy_tables (srun ch ops))) v.
Proof.
  exists 1, dep_ops, 0.
  destruct departed_assignee_still_offered as (H1 & _ & H3).
  destruct (for_relaying (queue (sy_q (srun 1 dep_ops))) 0) as [|m r] eqn:E; [discriminate H1|].
  exists m. split; [left; reflexivity|]. split; [|exact H3].
  assert (Hin : In m (for_relaying (queue (sy_q (srun 1 dep_ops))) 0)) by (rewrite E; left; reflexivity).
  revert Hin. vm_compute. intros [<-|[]]. reflexivity.
Qed.

(** ... and a new request at that moment goes to somebody else. *)
Example departed_assignee_not_picked_again :
  map (fun m => (mid m, massignee m)) (queue (sy_q (srun 1 (dep_ops ++ [SRequest (QLogicCall (Some 8) false) 7 1700000000]))))
  = [(1, 0); (2, 1)].
Proof. vm_compute. reflexivity. Qed.

(** retry: the error proof on message 1 (assigned to 0, fees 21000 = 1.0 x 21000 attached) re-enqueues it as
    message 2 for validator 1 — picked on the tables of that moment — without estimate or fees;
    after its own election it carries validator 1's price (2.0 x 21000). *)
Definition retry_ops : list sop := dep_ops ++ [SAttestError 1 1700000000].
Example retry_example :
  map (fun m => (mid m, massignee m, mest m, mfees m)) (queue (sy_q (srun 1 retry_ops))) = [(2, 1, 0, None)] /\
  meta_of (srun 1 retry_ops) 2 = Some {| me_kind := QLogicCall (Some 7) false; me_retries := 1; me_turn := 7; me_remote := 11 |} /\
  map (fun m => (mid m, massignee m, mest m, mfees m)) (queue (sy_q (srun 1 (retry_ops ++ [SSubmit 2 21000; SEndBlock]))))
  = [(2, 1, 21000, Some {| fee_relayer := 42000; fee_community := 1260; fee_security := 420 |})].
Proof. vm_compute. repeat split. Qed.
Example retry_stops_after_two :
  map mid (queue (sy_q (srun 1 (retry_ops ++ [SAttestError 2 1700000000])))) = [3] /\
  map mid (queue (sy_q (srun 1 (retry_ops ++ [SAttestError 2 1700000000; SAttestError 3 1700000000])))) = [].
Proof. vm_compute. split; reflexivity. Qed.

(** a second valset update replaces the first; one with the same id is not queued twice; a compass
    upload (no turnstone id) ahead of it in the queue makes the send return without queueing *)
Example valset_replaces :
  map mid (queue (sy_q (srun 1 [SSetTables ex_t; SRequest (QValset 5) 0 3; SRequest (QValset 6) 0 3; SRequest (QValset 6) 0 3]))) = [2] /\
  map mid (queue (sy_q (srun 1 [SSetTables ex_t; SRequest QCompassUpload 0 3; SRequest (QValset 5) 0 3]))) = [1].
Proof. vm_compute. split; reflexivity. Qed.
