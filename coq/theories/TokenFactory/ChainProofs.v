(** C16, second round — proofs about Chain.v: the raw msg server and atomicity at delivery level,
    the wasm bindings, the creation fee and the params, extended histories, the creator index and
    the genesis round trip. *)
From Coq Require Import List ZArith Bool String Ascii Lia.
From Paloma Require Import TokenFactory.Ledger TokenFactory.LedgerProofs TokenFactory.Denom
  TokenFactory.DenomProofs TokenFactory.Factory TokenFactory.FactoryProofs TokenFactory.Chain.
Import ListNotations.
Open Scope Z_scope.

(** ---- the dirty ledger primitives project onto the atomic ones ---- *)

Lemma project_mint_coins l m d x : project (raw_mint_coins l m d x) = mint_coins l m d x.
Proof.
  unfold raw_mint_coins, mint_coins, bind. destruct (add_bal l m d x) as [l1|e]; [|reflexivity].
  destruct (supply l1 d + x <=? max_int); reflexivity.
Qed.
Lemma project_burn_coins l m d x : project (raw_burn_coins l m d x) = burn_coins l m d x.
Proof.
  unfold raw_burn_coins, burn_coins, bind. destruct (sub_bal l m d x) as [l1|e]; [|reflexivity].
  destruct (0 <=? supply l1 d - x); reflexivity.
Qed.
Lemma project_send l f t d x : project (raw_send l f t d x) = send l f t d x.
Proof.
  unfold raw_send, send, bind. destruct (sub_bal l f d x) as [l1|e]; [|reflexivity].
  destruct (add_bal l1 t d x); reflexivity.
Qed.
Lemma project_sub_coins cs : forall l a, project (raw_sub_coins l a cs) = sub_coins l a cs.
Proof.
  induction cs as [|[d x] r IH]; intros l a; [reflexivity|]. simpl. unfold bind.
  destruct (sub_bal l a d x) as [l1|e]; [apply IH|reflexivity].
Qed.
Lemma project_add_coins cs : forall l a, project (raw_add_coins l a cs) = add_coins l a cs.
Proof.
  induction cs as [|[d x] r IH]; intros l a; [reflexivity|]. simpl. unfold bind.
  destruct (add_bal l a d x) as [l1|e]; [apply IH|reflexivity].
Qed.
Lemma project_send_coins l f t cs : project (raw_send_coins l f t cs) = send_coins l f t cs.
Proof.
  unfold raw_send_coins, send_coins, bind. rewrite <- project_sub_coins.
  destruct (raw_sub_coins l f cs) as [l1 [e|]]; [reflexivity|]. simpl. apply project_add_coins.
Qed.

(** ---- exact effect of a multi-coin send (the creation fee) ---- *)

Lemma sub_coins_bal cs : forall l a l', sub_coins l a cs = Ok l' ->
  forall a' d', bal l' a' d' = bal l a' d' - (if a' =? a then amt_of cs d' else 0).
Proof.
  induction cs as [|[d0 x0] r IH]; simpl; intros l a l' H a' d'.
  - inversion H. destruct (a' =? a); lia.
  - unfold bind in H. destruct (sub_bal l a d0 x0) as [l1|] eqn:E1; [|discriminate].
    apply sub_bal_spec in E1 as (B1 & _ & _). rewrite (IH _ _ _ H), B1. unfold bdelta, bkey_eqb. simpl.
    destruct (a' =? a); simpl; [|lia]. destruct (String.eqb d' d0); lia.
Qed.
Lemma add_coins_bal cs : forall l a l', add_coins l a cs = Ok l' ->
  forall a' d', bal l' a' d' = bal l a' d' + (if a' =? a then amt_of cs d' else 0).
Proof.
  induction cs as [|[d0 x0] r IH]; simpl; intros l a l' H a' d'.
  - inversion H. destruct (a' =? a); lia.
  - unfold bind in H. destruct (add_bal l a d0 x0) as [l1|] eqn:E1; [|discriminate].
    apply add_bal_spec in E1 as (B1 & _). rewrite (IH _ _ _ H), B1. unfold bdelta, bkey_eqb. simpl.
    destruct (a' =? a); simpl; [|lia]. destruct (String.eqb d' d0); lia.
Qed.
Lemma send_coins_bal l f t cs l' : send_coins l f t cs = Ok l' ->
  forall a' d', bal l' a' d' = bal l a' d' - (if a' =? f then amt_of cs d' else 0)
                                          + (if a' =? t then amt_of cs d' else 0).
Proof.
  unfold send_coins, bind. destruct (sub_coins l f cs) as [l1|] eqn:E1; [|discriminate].
  intros E2 a' d'. rewrite (add_coins_bal _ _ _ _ E2), (sub_coins_bal _ _ _ _ E1). reflexivity.
Qed.

Lemma pool_add_spec cs : forall p d,
  match mget String.eqb (pool_add p cs) d with Some v => v | None => 0 end =
  match mget String.eqb p d with Some v => v | None => 0 end + amt_of cs d.
Proof.
  induction cs as [|[d0 x0] r IH]; intros p d; simpl; [lia|].
  rewrite IH, (mget_mset String.eqb String.eqb_eq).
  destruct (String.eqb d d0) eqn:E; [|lia]. apply String.eqb_eq in E; subst d0. lia.
Qed.

Lemma pair_eqb_eq a b : pair_eqb a b = true <-> a = b.
Proof.
  unfold pair_eqb. destruct a as [a1 a2], b as [b1 b2]. simpl. rewrite andb_true_iff, !String.eqb_eq.
  split; [intros [-> ->]; reflexivity|intros H; inversion H; auto].
Qed.
Lemma idx_mem_in i k : idx_mem i k = true <-> In k i.
Proof.
  unfold idx_mem. rewrite existsb_exists. split.
  - intros (x & Hx & E). apply pair_eqb_eq in E. subst. exact Hx.
  - intros H. exists k. split; [exact H|]. now apply pair_eqb_eq.
Qed.
Lemma idx_add_in i cr d k : In k (idx_add i cr d) <-> In k i \/ k = (cr, d).
Proof.
  unfold idx_add. destruct (idx_mem i (cr, d)) eqn:E.
  - apply idx_mem_in in E. split; [auto|]. intros [H|H]; [assumption|subst; assumption].
  - rewrite in_app_iff. simpl. split.
    + intros [H|[H|H]]; [auto|auto|contradiction].
    + intros [H|H]; [auto|subst; auto].
Qed.

(** ---- with_fee ---- *)
Lemma addr_of_with_fee c f : addr_of (with_fee c f) = addr_of c. Proof. reflexivity. Qed.
Lemma fee_with_fee c f : fee (with_fee c f) = f. Proof. reflexivity. Qed.

(** ---- A. the raw msg server ---- *)
Section RawFacts.
  Variable c : cfg.
  Hypothesis addr_of_empty : addr_of c EmptyString = None.

  Lemma lift_project s r : lift s (project r) =
    match r with (l, None) => Ok (with_led s l) | (_, Some e) => Err e end.
  Proof. destruct r as [l [e|]]; reflexivity. Qed.

  (** The handler of Factory.v is the raw msg server with the failures' leftovers dropped —
      for every message that passes ValidateBasic. *)
  Lemma handler_is_raw s m : validate_basic c m = true ->
    handler c s m = match raw c s m with (s', Ok r) => Ok (s', r) | (_, Err e) => Err e end.
  Proof.
    intros VB. destruct m as [cr sub|cr d x|cr d x|cr d na|cr d ok tag]; simpl.
    - unfold create_denom. destruct (has_supply (led s) sub); [reflexivity|].
      unfold bind. destruct (get_token_denom cr sub) as [d|e]; [|reflexivity].
      destruct (meta_of s d); [reflexivity|]. destruct (addr_of c cr) as [a|]; [|reflexivity].
      destruct (fee c) as [|f0 fr]; [reflexivity|].
      rewrite <- project_send_coins, lift_project.
      destruct (raw_send_coins (led s) a (mod_distr c) (f0 :: fr)) as [l1 [e|]]; reflexivity.
    - destruct (meta_of s d); [|reflexivity]. destruct (String.eqb cr (admin_str s d)); [|reflexivity].
      unfold mint_to. destruct (deconstruct (addr_of c) d); [|reflexivity].
      assert (Hx : (x <? 0) = false).
      { unfold validate_basic in VB. apply andb_true_iff in VB as [_ VB].
        apply valid_amount_pos in VB as (Hx & _). apply Z.ltb_ge. lia. }
      rewrite Hx. unfold bind. rewrite <- project_mint_coins.
      destruct (raw_mint_coins (led s) (mod_tf c) d x) as [l1 [e|]]; [reflexivity|]. simpl.
      destruct (addr_of c cr) as [a|]; [|reflexivity]. unfold send_to_acct.
      destruct (blocked c a); [reflexivity|]. rewrite <- project_send, lift_project.
      destruct (raw_send l1 (mod_tf c) a d x) as [l2 [e|]]; reflexivity.
    - destruct (String.eqb cr (admin_str s d)); [|reflexivity].
      unfold burn_from. destruct (deconstruct (addr_of c) d); [|reflexivity].
      destruct (addr_of c cr) as [a|]; [|reflexivity].
      assert (Hx : (x <? 0) = false).
      { unfold validate_basic in VB. apply andb_true_iff in VB as [_ VB].
        apply valid_amount_pos in VB as (Hx & _). apply Z.ltb_ge. lia. }
      rewrite Hx. unfold bind. rewrite <- project_send.
      destruct (raw_send (led s) a (mod_tf c) d x) as [l1 [e|]]; [reflexivity|]. simpl.
      rewrite <- project_burn_coins.
      destruct (raw_burn_coins l1 (mod_tf c) d x) as [l2 [e|]]; reflexivity.
    - destruct (String.eqb cr (admin_str s d)); [|reflexivity].
      destruct (String.eqb na EmptyString || valid_addr c na); reflexivity.
    - destruct ok; [|reflexivity]. destruct (String.eqb cr (admin_str s d)); reflexivity.
  Qed.

  (** Atomicity at delivery level: a delivered message is ValidateBasic, then the raw handler,
      whose writes are kept only when it returns nil. *)
  Theorem deliver_is_commit_on_success s m : deliver c s m = deliver_raw c s m.
  Proof.
    unfold deliver, deliver_raw. destruct (validate_basic c m) eqn:VB; [|reflexivity].
    rewrite (handler_is_raw _ _ VB). destruct (raw c s m) as [s' [r|e]]; reflexivity.
  Qed.

  (** A failed raw call never leaves a changed admin record or changed metadata behind. *)
  Theorem raw_failure_keeps_control s m s' e :
    raw c s m = (s', Err e) -> metas s' = metas s /\ admins s' = admins s.
  Proof.
    destruct m as [cr sub|cr d x|cr d x|cr d na|cr d ok tag]; simpl.
    - destruct (has_supply (led s) sub); [intros H; inversion H; auto|].
      destruct (get_token_denom cr sub) as [d|e0]; [|intros H; inversion H; auto].
      destruct (meta_of s d); [intros H; inversion H; auto|].
      destruct (addr_of c cr) as [a|]; [|intros H; inversion H; auto].
      destruct (match fee c with [] => (led s, None) | _ => _ end) as [l1 [e1|]];
        intros H; inversion H; auto.
    - destruct (meta_of s d); [|intros H; inversion H; auto].
      destruct (String.eqb cr (admin_str s d)); [|intros H; inversion H; auto].
      destruct (deconstruct (addr_of c) d); [|intros H; inversion H; auto].
      destruct (x <? 0); [intros H; inversion H; auto|].
      destruct (raw_mint_coins (led s) (mod_tf c) d x) as [l1 [e1|]]; [intros H; inversion H; auto|].
      destruct (addr_of c cr) as [a|]; [|intros H; inversion H; auto].
      destruct (blocked c a); [intros H; inversion H; auto|].
      destruct (raw_send l1 (mod_tf c) a d x) as [l2 [e2|]]; intros H; inversion H; auto.
    - destruct (String.eqb cr (admin_str s d)); [|intros H; inversion H; auto].
      destruct (deconstruct (addr_of c) d); [|intros H; inversion H; auto].
      destruct (addr_of c cr) as [a|]; [|intros H; inversion H; auto].
      destruct (x <? 0); [intros H; inversion H; auto|].
      destruct (raw_send (led s) a (mod_tf c) d x) as [l1 [e1|]]; [intros H; inversion H; auto|].
      destruct (raw_burn_coins l1 (mod_tf c) d x) as [l2 [e2|]]; intros H; inversion H; auto.
    - destruct (String.eqb cr (admin_str s d)); [|intros H; inversion H; auto].
      destruct (String.eqb na EmptyString || valid_addr c na); intros H; inversion H; auto.
    - destruct ok; [|intros H; inversion H; auto].
      destruct (String.eqb cr (admin_str s d)); intros H; inversion H; auto.
  Qed.

  (** The raw handler on its own: a privileged call goes through exactly when the creator STRING
      equals the stored admin string; with a non-empty creator that is the stored admin… *)
  Theorem raw_admin_string_match s m s' r d :
    raw c s m = (s', Ok r) -> privileged m = Some d ->
    sender m = admin_str s d /\ (sender m <> EmptyString -> admin_rec s d = Some (sender m)).
  Proof.
    intros H P.
    assert (E : String.eqb (sender m) (admin_str s d) = true).
    { destruct m as [cr sub|cr d0 x|cr d0 x|cr d0 na|cr d0 ok tag]; simpl in P; try discriminate;
        injection P as ->; simpl in H |- *.
      - destruct (meta_of s d); [|discriminate]. destruct (String.eqb cr (admin_str s d)); [reflexivity|discriminate].
      - destruct (String.eqb cr (admin_str s d)); [reflexivity|discriminate].
      - destruct (String.eqb cr (admin_str s d)); [reflexivity|discriminate].
      - destruct ok; [|discriminate]. destruct (String.eqb cr (admin_str s d)); [reflexivity|discriminate]. }
    apply String.eqb_eq in E. split; [exact E|]. intros N. unfold admin_str in E.
    destruct (admin_rec s d) as [a|]; [subst a; reflexivity|contradiction].
  Qed.

  (** What a failed raw Mint leaves behind (panics aside): nothing, or — when the recipient does not
      parse or is a blocked address — exactly the minted coins on the module account and in the
      supply.  (At delivery level this is rolled back: [deliver_is_commit_on_success].) *)
  Theorem raw_mint_failure s cr d x s' e :
    raw c s (MMint cr d x) = (s', Err e) -> e <> EPanic -> 0 <= bal (led s) (mod_tf c) d ->
    s' = s \/
    ((e = EAddr \/ e = EBlocked) /\ metas s' = metas s /\ admins s' = admins s /\
     (forall a' d', bal (led s') a' d' = bal (led s) a' d' + bdelta (mod_tf c) d a' d' x) /\
     (forall d', supply (led s') d' = supply (led s) d' + sdelta d d' x)).
  Proof.
    simpl. intros H NP NN.
    destruct (meta_of s d); [|inversion H; auto].
    destruct (String.eqb cr (admin_str s d)); [|inversion H; auto].
    destruct (deconstruct (addr_of c) d); [|inversion H; auto].
    destruct (x <? 0); [inversion H; auto|].
    destruct (raw_mint_coins (led s) (mod_tf c) d x) as [l1 [e1|]] eqn:M.
    - (* MintCoins itself failed: only by a panic (overflow) *)
      inversion H; subst. unfold raw_mint_coins in M.
      destruct (add_bal (led s) (mod_tf c) d x) as [l0|e0] eqn:A.
      + destruct (supply l0 d + x <=? max_int); inversion M; subst. contradiction.
      + unfold add_bal in A. destruct (bal (led s) (mod_tf c) d + x <=? max_int); inversion A; subst.
        inversion M; subst. contradiction.
    - assert (MS : mint_coins (led s) (mod_tf c) d x = Ok l1) by (rewrite <- project_mint_coins, M; reflexivity).
      apply mint_coins_spec in MS as [B1 S1].
      destruct (addr_of c cr) as [a|].
      + destruct (blocked c a).
        * inversion H; subst. right. repeat split; auto.
        * destruct (raw_send l1 (mod_tf c) a d x) as [l2 [e2|]] eqn:SD; [|discriminate].
          inversion H; subst. exfalso. unfold raw_send in SD.
          destruct (sub_bal l1 (mod_tf c) d x) as [l3|e3] eqn:SB.
          -- destruct (add_bal l3 a d x) as [l4|e4] eqn:AB; [discriminate|].
             unfold add_bal in AB. destruct (bal l3 a d + x <=? max_int); inversion AB; subst.
             inversion SD; subst. contradiction.
          -- unfold sub_bal in SB. destruct (x <=? bal l1 (mod_tf c) d) eqn:LE; [discriminate|].
             apply Z.leb_gt in LE. rewrite B1, bdelta_same in LE. lia.
      + inversion H; subst. right. repeat split; auto.
  Qed.
End RawFacts.

(** ---- the creation fee, exactly ---- *)
Lemma create_fee_spec c s cr sub s' d :
  deliver c s (MCreate cr sub) = (s', Ok d) ->
  exists a, addr_of c cr = Some a /\
    (forall a' d', bal (led s') a' d' = bal (led s) a' d' - (if a' =? a then amt_of (fee c) d' else 0)
                                                      + (if a' =? mod_distr c then amt_of (fee c) d' else 0)) /\
    (forall d', supply (led s') d' = supply (led s) d').
Proof.
  intros D. apply deliver_ok in D as [_ H]. simpl in H. unfold create_denom in H.
  destruct (has_supply (led s) sub); [discriminate|].
  unfold bind in H. destruct (get_token_denom cr sub) as [d0|]; [|discriminate].
  destruct (meta_of s d0); [discriminate|].
  destruct (addr_of c cr) as [a|]; [|discriminate]. exists a. split; [reflexivity|].
  match type of H with match lift s ?F with _ => _ end = _ => destruct (lift s F) as [s1|] eqn:L; [|discriminate] end.
  inversion H; subst s' d0; clear H. apply lift_ok in L as [l1 [L ->]]. simpl.
  destruct (fee c) as [|f0 fr].
  - inversion L; subst. split; [|reflexivity]. intros a' d'. simpl. destruct (a' =? a), (a' =? mod_distr c); lia.
  - split; [apply (send_coins_bal _ _ _ _ _ L)|]. intros d'. eapply send_coins_supply; eauto.
Qed.

(** ---- B. the wasm bindings, C. fee and params ---- *)

Definition wprivileged (w : wmsg) : option denom :=
  match w with
  | WCreate _ _ => None
  | WMint d _ _ | WBurn d _ _ | WChangeAdmin d _ | WSetMeta d _ _ _ => Some d
  end.

Section ChainFacts.
  Variable c : cfg.
  Variable str_of : acct -> string.
  Variable authority : string.
  Hypothesis addr_of_empty : addr_of c EmptyString = None.
  (** String() of an account parses back to that account *)
  Hypothesis str_of_parses : forall a, addr_of c (str_of a) = Some a.

  Let cfg_at := cfg_at c.
  Let perform := perform c str_of.

  Lemma empty_at xs : addr_of (cfg_at xs) EmptyString = None.
  Proof. exact addr_of_empty. Qed.

  Lemma str_of_nonempty a : str_of a <> EmptyString.
  Proof. intros E. pose proof (str_of_parses a) as P. rewrite E, addr_of_empty in P. discriminate. Qed.

  Lemma perform_err xs ct w xs' e : perform xs ct w = (xs', Err e) -> xs' = xs.
  Proof.
    unfold perform, Chain.perform. destruct w as [sub md|d x to|d x from|d na|d base valid tag].
    - destruct (deliver _ (st xs) (MCreate (str_of ct) sub)) as [s1 [d|e1]]; [|intros H; inversion H; reflexivity].
      destruct md as [[[b v] t]|]; [|discriminate].
      destruct (perform_set_meta s1 (str_of ct) d b v t); [discriminate|intros H; inversion H; reflexivity].
    - destruct (addr_of c to) as [rc|]; [|intros H; inversion H; reflexivity].
      destruct (deliver _ (st xs) (MMint (str_of ct) d x)) as [s1 [r|e1]]; [|intros H; inversion H; reflexivity].
      destruct (send (led s1) ct rc d x); [discriminate|intros H; inversion H; reflexivity].
    - destruct (negb (String.eqb from EmptyString) && negb (String.eqb from (str_of ct))); [intros H; inversion H; reflexivity|].
      destruct (deliver _ (st xs) (MBurn (str_of ct) d x)) as [s1 [r|e1]]; [discriminate|intros H; inversion H; reflexivity].
    - destruct (addr_of c na) as [a|]; [|intros H; inversion H; reflexivity].
      destruct (deliver _ (st xs) (MChangeAdmin (str_of ct) d (str_of a))) as [s1 [r|e1]]; [discriminate|intros H; inversion H; reflexivity].
    - destruct (perform_set_meta (st xs) (str_of ct) d base valid tag); [discriminate|intros H; inversion H; reflexivity].
  Qed.

  Lemma perform_set_meta_ok s cs d base valid tag s' :
    perform_set_meta s cs d base valid tag = Ok s' ->
    admin_str s d = cs /\ (base = EmptyString \/ base = d) /\ valid = true /\ s' = set_meta s d tag.
  Proof.
    unfold perform_set_meta. destruct (String.eqb (admin_str s d) cs) eqn:E; [|discriminate]. simpl.
    apply String.eqb_eq in E.
    destruct (String.eqb base EmptyString) eqn:E1; simpl.
    - destruct valid; [|discriminate]. intros H; inversion H. apply String.eqb_eq in E1. auto.
    - destruct (String.eqb base d) eqn:E2; simpl; [|discriminate].
      destruct valid; [|discriminate]. intros H; inversion H. apply String.eqb_eq in E2. auto.
  Qed.

  (** Only the admin: a binding call that acts on [d] goes through only for the contract whose
      address string is the stored admin of [d]. *)
  Theorem wasm_only_admin xs ct w xs' r d :
    perform xs ct w = (xs', Ok r) -> wprivileged w = Some d ->
    admin_rec (st xs) d = Some (str_of ct).
  Proof.
    unfold perform, Chain.perform. intros H P.
    destruct w as [sub md|d0 x to|d0 x from|d0 na|d0 base valid tag]; simpl in P; try discriminate;
      injection P as ->.
    - destruct (addr_of c to) as [rc|]; [|discriminate].
      destruct (deliver _ (st xs) (MMint (str_of ct) d x)) as [s1 [r1|e1]] eqn:D; [|discriminate].
      exact (proj1 (only_admin_step _ (empty_at xs) _ _ _ _ d D eq_refl)).
    - destruct (negb (String.eqb from EmptyString) && negb (String.eqb from (str_of ct))); [discriminate|].
      destruct (deliver _ (st xs) (MBurn (str_of ct) d x)) as [s1 [r1|e1]] eqn:D; [|discriminate].
      exact (proj1 (only_admin_step _ (empty_at xs) _ _ _ _ d D eq_refl)).
    - destruct (addr_of c na) as [a|]; [|discriminate].
      destruct (deliver _ (st xs) (MChangeAdmin (str_of ct) d (str_of a))) as [s1 [r1|e1]] eqn:D; [|discriminate].
      exact (proj1 (only_admin_step _ (empty_at xs) _ _ _ _ d D eq_refl)).
    - destruct (perform_set_meta (st xs) (str_of ct) d base valid tag) as [s1|] eqn:M; [|discriminate].
      apply perform_set_meta_ok in M as (E & _). unfold admin_str in E.
      destruct (admin_rec (st xs) d) as [a|]; [subst a; reflexivity|].
      exfalso. exact (str_of_nonempty ct (eq_sym E)).
  Qed.

  (** MintTokens through the binding = the factory mint (which credits the admin contract and
      nobody else) followed by a bank send of exactly those coins out of the contract's OWN balance.
      Net effect: supply +x, [mint_to_address] +x, every other balance of every denom — the admin's
      too, unless it is the recipient — unchanged: nobody is debited. *)
  Theorem wasm_mint_effect xs ct d x to xs' r :
    perform xs ct (WMint d x to) = (xs', Ok r) ->
    exists rc s1,
      addr_of c to = Some rc /\ admin_rec (st xs) d = Some (str_of ct) /\ 0 < x /\
      (* the two halves *)
      deliver (cfg_at xs) (st xs) (MMint (str_of ct) d x) = (s1, Ok EmptyString) /\
      step_out (cfg_at xs) s1 (OXSend ct rc d x) = (st xs', Ok EmptyString) /\
      (* the net effect *)
      (forall a' d', bal (led (st xs')) a' d' = bal (led (st xs)) a' d' + bdelta rc d a' d' x) /\
      (forall d', supply (led (st xs')) d' = supply (led (st xs)) d' + sdelta d d' x) /\
      metas (st xs') = metas (st xs) /\ admins (st xs') = admins (st xs) /\
      params xs' = params xs /\ index xs' = index xs /\ pool xs' = pool xs.
  Proof.
    unfold perform, Chain.perform. intros H.
    destruct (addr_of c to) as [rc|]; [|discriminate].
    destruct (deliver _ (st xs) (MMint (str_of ct) d x)) as [s1 [r1|e1]] eqn:D; [|discriminate].
    destruct (send (led s1) ct rc d x) as [l2|] eqn:S; [|discriminate].
    inversion H; subst xs' r; clear H. exists rc, s1.
    destruct (mint_spec _ (empty_at xs) _ _ _ _ _ _ D) as (a & Ha & Hadm & _ & _ & Hx & _ & B & SS & M & A).
    change (addr_of (cfg_at xs) (str_of ct)) with (addr_of c (str_of ct)) in Ha.
    rewrite str_of_parses in Ha. injection Ha as <-.
    assert (r1 = EmptyString) as ->.
    { apply deliver_ok in D as [_ HH]. simpl in HH. destruct (meta_of (st xs) d); [|discriminate].
      destruct (String.eqb (str_of ct) (admin_str (st xs) d)); [|discriminate].
      unfold bind in HH. destruct (mint_to _ (st xs) d x (str_of ct)); inversion HH; reflexivity. }
    pose proof (send_spec _ _ _ _ _ _ S) as (B2 & S2 & _).
    split; [reflexivity|]. split; [exact Hadm|]. split; [exact Hx|]. split; [reflexivity|]. split.
    { cbn [step_out]. assert (Hx0 : (0 <=? x) = true) by (apply Z.leb_le; lia). rewrite Hx0, S. reflexivity. }
    simpl. repeat split; try assumption.
    - intros a' d'. rewrite B2, B. lia.
    - intros d'. rewrite S2, SS. reflexivity.
  Qed.

  (** BurnTokens through the binding burns from the contract's own balance only. *)
  Theorem wasm_burn_effect xs ct d x from xs' r :
    perform xs ct (WBurn d x from) = (xs', Ok r) ->
    (from = EmptyString \/ from = str_of ct) /\ admin_rec (st xs) d = Some (str_of ct) /\
    0 < x <= bal (led (st xs)) ct d /\
    (forall a' d', bal (led (st xs')) a' d' = bal (led (st xs)) a' d' - bdelta ct d a' d' x) /\
    (forall d', supply (led (st xs')) d' = supply (led (st xs)) d' - sdelta d d' x) /\
    metas (st xs') = metas (st xs) /\ admins (st xs') = admins (st xs) /\
    params xs' = params xs /\ index xs' = index xs /\ pool xs' = pool xs.
  Proof.
    unfold perform, Chain.perform. intros H.
    destruct (negb (String.eqb from EmptyString) && negb (String.eqb from (str_of ct))) eqn:F; [discriminate|].
    destruct (deliver _ (st xs) (MBurn (str_of ct) d x)) as [s1 [r1|e1]] eqn:D; [|discriminate].
    inversion H; subst xs' r; clear H.
    destruct (burn_spec _ (empty_at xs) _ _ _ _ _ _ D) as (a & Ha & Hadm & _ & Hx & Hle & B & SS & M & A).
    change (addr_of (cfg_at xs) (str_of ct)) with (addr_of c (str_of ct)) in Ha.
    rewrite str_of_parses in Ha. injection Ha as <-.
    split.
    { apply andb_false_iff in F as [F|F]; apply negb_false_iff, String.eqb_eq in F; auto. }
    simpl. repeat split; try assumption; lia.
  Qed.

  (** CreateDenom through the binding: inside the contract's own namespace, fresh, the contract is
      the admin, the index lists it, the fee in force is paid by the contract. *)
  Theorem wasm_create_effect xs ct sub md xs' d :
    perform xs ct (WCreate sub md) = (xs', Ok d) ->
    d = construct (str_of ct) sub /\ meta_of (st xs) d = None /\
    admin_rec (st xs') d = Some (str_of ct) /\ meta_of (st xs') d <> None /\
    In (str_of ct, d) (index xs') /\
    (forall a' d', bal (led (st xs')) a' d' = bal (led (st xs)) a' d'
        - (if a' =? ct then amt_of (params xs) d' else 0)
        + (if a' =? mod_distr c then amt_of (params xs) d' else 0)) /\
    (forall d', supply (led (st xs')) d' = supply (led (st xs)) d') /\
    (forall d', pool_of xs' d' = pool_of xs d' + amt_of (params xs) d') /\
    params xs' = params xs /\
    (forall d', d' <> d -> admin_rec (st xs') d' = admin_rec (st xs) d' /\ meta_of (st xs') d' = meta_of (st xs) d') /\
    deconstruct (addr_of c) d = Some (ct, sub) /\ index xs' = idx_add (index xs) (str_of ct) d.
  Proof.
    unfold perform, Chain.perform. intros H.
    destruct (deliver _ (st xs) (MCreate (str_of ct) sub)) as [s1 [d1|e1]] eqn:D; [|discriminate].
    destruct (create_in_own_namespace _ _ _ _ _ _ D) as (Hd & _ & (a0 & Ha0 & Hdec) & Hm & Hm1 & Ha1).
    change (addr_of (Chain.cfg_at c xs) (str_of ct)) with (addr_of c (str_of ct)) in Ha0.
    rewrite str_of_parses in Ha0. injection Ha0 as <-.
    change (addr_of (Chain.cfg_at c xs)) with (addr_of c) in Hdec.
    destruct (create_fee_spec _ _ _ _ _ _ D) as (a & Ha & B & S).
    destruct (create_spec _ _ _ _ _ _ D) as (_ & _ & _ & _ & _ & _ & _ & _ & _ & MM & AA).
    change (addr_of (Chain.cfg_at c xs) (str_of ct)) with (addr_of c (str_of ct)) in Ha.
    rewrite str_of_parses in Ha. injection Ha as <-.
    assert (Idx : forall i, In (str_of ct, d1) (idx_add i (str_of ct) d1)) by (intros i; apply idx_add_in; auto).
    assert (Common : forall s2, led s2 = led s1 -> admin_rec s2 d1 = Some (str_of ct) -> meta_of s2 d1 <> None ->
              (forall d', d' <> d1 -> admin_rec s2 d' = admin_rec s1 d' /\ meta_of s2 d' = meta_of s1 d') ->
              xs' = after_create xs s2 (str_of ct) d1 -> d = d1 ->
              d = construct (str_of ct) sub /\ meta_of (st xs) d = None /\
              admin_rec (st xs') d = Some (str_of ct) /\ meta_of (st xs') d <> None /\
              In (str_of ct, d) (index xs') /\
              (forall a' d', bal (led (st xs')) a' d' = bal (led (st xs)) a' d'
                  - (if a' =? ct then amt_of (params xs) d' else 0)
                  + (if a' =? mod_distr c then amt_of (params xs) d' else 0)) /\
              (forall d', supply (led (st xs')) d' = supply (led (st xs)) d') /\
              (forall d', pool_of xs' d' = pool_of xs d' + amt_of (params xs) d') /\
              params xs' = params xs /\
              (forall d', d' <> d -> admin_rec (st xs') d' = admin_rec (st xs) d' /\ meta_of (st xs') d' = meta_of (st xs) d') /\
              deconstruct (addr_of c) d = Some (ct, sub) /\ index xs' = idx_add (index xs) (str_of ct) d).
    { intros s2 L A2 M2 O2 -> ->. simpl. rewrite L.
      split; [exact Hd|]. split; [exact Hm|]. split; [exact A2|]. split; [exact M2|]. split; [apply Idx|].
      split; [exact B|]. split; [exact S|]. split; [intros d'; apply pool_add_spec|]. split; [reflexivity|].
      split; [|split; [exact Hdec|reflexivity]].
      intros d' N. destruct (O2 d' N) as [O3 O4]. rewrite O3, O4, MM, AA.
      destruct (String.eqb d' d1) eqn:E; [apply String.eqb_eq in E; contradiction|auto]. }
    destruct md as [[[b v] t]|].
    - destruct (perform_set_meta s1 (str_of ct) d1 b v t) as [s2|] eqn:PM; [|discriminate].
      injection H as E1 E2. apply perform_set_meta_ok in PM as (_ & _ & _ & E3). subst s2.
      apply (Common (set_meta s1 d1 t)); auto.
      + rewrite meta_of_set_meta, String.eqb_refl. discriminate.
      + intros d' N. rewrite meta_of_set_meta. split; [reflexivity|].
        destruct (String.eqb d' d1) eqn:E; [apply String.eqb_eq in E; contradiction|reflexivity].
    - injection H as E1 E2. apply (Common s1); auto. rewrite Hm1. discriminate.
  Qed.

  (** A create delivered as a message: the fee IN FORCE (the params at that moment) moves from the
      creator to the distribution module account and is booked in the community pool; nothing is
      minted or burned; the params are untouched. *)
  Theorem create_charges_fee_in_force xs cr sub xs' d :
    xstep_out c str_of authority xs (XBase (OMsg (MCreate cr sub))) = (xs', Ok d) ->
    exists a, addr_of c cr = Some a /\
      (forall a' d', bal (led (st xs')) a' d' = bal (led (st xs)) a' d'
          - (if a' =? a then amt_of (params xs) d' else 0)
          + (if a' =? mod_distr c then amt_of (params xs) d' else 0)) /\
      (forall d', supply (led (st xs')) d' = supply (led (st xs)) d') /\
      (forall d', pool_of xs' d' = pool_of xs d' + amt_of (params xs) d') /\
      params xs' = params xs /\ In (cr, d) (index xs').
  Proof.
    cbn [xstep_out]. destruct (deliver (Chain.cfg_at c xs) (st xs) (MCreate cr sub)) as [s1 [d1|e1]] eqn:D; [|discriminate].
    intros H; inversion H; subst xs' d1; clear H.
    destruct (create_fee_spec _ _ _ _ _ _ D) as (a & Ha & B & S). exists a.
    split; [exact Ha|]. split; [exact B|]. split; [exact S|]. split; [intros d'; apply pool_add_spec|].
    split; [reflexivity|]. simpl. apply idx_add_in. auto.
  Qed.

  (** A refused create (delivered or through the binding) charges nothing. *)
  Theorem refused_create_charges_nothing xs cr sub xs' e :
    xstep_out c str_of authority xs (XBase (OMsg (MCreate cr sub))) = (xs', Err e) -> xs' = xs.
  Proof.
    cbn [xstep_out]. destruct (deliver (Chain.cfg_at c xs) (st xs) (MCreate cr sub)) as [s1 [d1|e1]]; [discriminate|].
    intros H; inversion H; reflexivity.
  Qed.

  (** Params: only the authority, only with valid coins, and nothing else moves. *)
  Theorem params_only_authority xs a cr f v xs' r :
    xstep_out c str_of authority xs (XParams a cr f v) = (xs', Ok r) ->
    a = authority /\ cr = authority /\ v = true /\ (exists acc, addr_of c authority = Some acc) /\
    params xs' = f /\ st xs' = st xs /\ index xs' = index xs /\ pool xs' = pool xs.
  Proof.
    cbn [xstep_out]. unfold update_params.
    destruct (valid_addr c cr && String.eqb a cr && v) eqn:E; [|discriminate].
    destruct (String.eqb a authority) eqn:E2; [|discriminate]. intros H; inversion H; subst; clear H.
    apply andb_true_iff in E as [E Ev]. apply andb_true_iff in E as [Ea Ec].
    apply String.eqb_eq in E2, Ec. subst. repeat split; auto.
    unfold valid_addr in Ea. destruct (addr_of c authority); [eauto|discriminate].
  Qed.
End ChainFacts.

(** ---- genesis import: what the fold does ---- *)
Section Import.
  Variable c : cfg.
  Variable str_of : acct -> string.

  Let import_one := import_one c str_of.

  Lemma import_none gs : fold_left import_one gs None = None.
  Proof. induction gs as [|g r IH]; [reflexivity|exact IH]. Qed.

  Lemma import_one_some s idx g s' idx' :
    import_one (Some (s, idx)) g = Some (s', idx') ->
    exists a sub, deconstruct (addr_of c) (fst g) = Some (a, sub) /\ valid_addr c (str_of a) = true /\
      (snd g = EmptyString \/ valid_addr c (snd g) = true) /\
      s' = set_admin (set_admin (set_meta s (fst g) 0) (fst g) (str_of a)) (fst g) (snd g) /\
      idx' = idx_add idx (str_of a) (fst g).
  Proof.
    unfold import_one, Chain.import_one. destruct g as [d adm]. simpl.
    destruct (deconstruct (addr_of c) d) as [[a sub]|]; [|discriminate].
    destruct (valid_addr c (str_of a)) eqn:V; [|discriminate].
    destruct (String.eqb adm EmptyString || valid_addr c adm) eqn:E; [|discriminate].
    intros H; inversion H; subst. exists a, sub. repeat split; auto.
    apply orb_true_iff in E as [E|E]; [left; now apply String.eqb_eq|right; exact E].
  Qed.

  (** the result of importing [gs] on top of (s, idx), when every entry's admin is [f] of its denom *)
  Lemma import_spec (f : denom -> string) gs : forall s idx s' idx',
    (forall g, In g gs -> snd g = f (fst g)) ->
    fold_left import_one gs (Some (s, idx)) = Some (s', idx') ->
    led s' = led s /\
    (forall d, In d (map fst gs) -> meta_of s' d = Some 0 /\ admin_rec s' d = Some (f d)) /\
    (forall d, ~ In d (map fst gs) -> meta_of s' d = meta_of s d /\ admin_rec s' d = admin_rec s d) /\
    (forall k, In k idx' <-> In k idx \/
        exists g a sub, In g gs /\ deconstruct (addr_of c) (fst g) = Some (a, sub) /\ k = (str_of a, fst g)).
  Proof.
    induction gs as [|g r IH]; intros s idx s' idx' F H.
    - simpl in H. inversion H; subst. repeat split; try contradiction; auto.
      intros [K|(g & _ & _ & [] & _)]. exact K.
    - change (fold_left import_one (g :: r) (Some (s, idx)))
        with (fold_left import_one r (import_one (Some (s, idx)) g)) in H.
      destruct (import_one (Some (s, idx)) g) as [[s1 idx1]|] eqn:E;
        [|rewrite import_none in H; discriminate].
      apply import_one_some in E as (a & sub & Hd & _ & _ & -> & ->).
      destruct (IH _ _ _ _ (fun g0 Hg => F g0 (or_intror Hg)) H) as (L & In1 & Out1 & Ix). clear IH.
      split; [rewrite L; reflexivity|]. split; [|split].
      + intros d Hin. destruct (in_dec string_dec d (map fst r)) as [I|N]; [apply In1, I|].
        destruct (Out1 d N) as [M A]. rewrite M, A. simpl in Hin. destruct Hin as [<-|I]; [|contradiction].
        rewrite meta_of_set_admin, meta_of_set_admin, meta_of_set_meta, String.eqb_refl.
        rewrite admin_rec_set_admin, String.eqb_refl, (F g (or_introl eq_refl)). auto.
      + intros d N. simpl in N. assert (N1 : ~ In d (map fst r)) by tauto. assert (N2 : fst g <> d) by tauto.
        destruct (Out1 d N1) as [M A]. rewrite M, A.
        rewrite meta_of_set_admin, meta_of_set_admin, meta_of_set_meta.
        rewrite !admin_rec_set_admin, admin_rec_set_meta.
        destruct (String.eqb d (fst g)) eqn:E; [apply String.eqb_eq in E; subst; contradiction|auto].
      + intros k. rewrite Ix, idx_add_in. split.
        * intros [[K|K]|(g0 & a0 & sub0 & Hg & D0 & K)]; [auto| |].
          -- right. exists g, a, sub. split; [left; reflexivity|auto].
          -- right. exists g0, a0, sub0. split; [right; exact Hg|auto].
        * intros [K|(g0 & a0 & sub0 & [<-|Hg] & D0 & K)]; [auto| |].
          -- left. right. rewrite Hd in D0. inversion D0; subst. reflexivity.
          -- right. exists g0, a0, sub0. auto.
  Qed.
End Import.

(** ---- D. extended histories ---- *)
Section XHist.
  Variable c : cfg.
  Variable str_of : acct -> string.
  Variable authority : string.
  Hypothesis addr_of_empty : addr_of c EmptyString = None.
  Hypothesis str_of_parses : forall a, addr_of c (str_of a) = Some a.

  Let cfg_at := cfg_at c.
  Let xstep_out := xstep_out c str_of authority.
  Let xstep := xstep c str_of authority.
  Let xrun := xrun c str_of authority.
  Let xsucceeded := xsucceeded c str_of authority.
  Let perform := perform c str_of.

  Lemma xrun_cons o ops xs : xrun (o :: ops) xs = xrun ops (xstep xs o).
  Proof. reflexivity. Qed.

  Lemma step_out_err c0 s o s' e : step_out c0 s o = (s', Err e) -> s' = s.
  Proof.
    destruct o as [m|f t d x|t d x|f d x]; cbn [step_out].
    - apply deliver_err.
    - destruct (if 0 <=? x then send (led s) f t d x else Err EValidate); intros H; inversion H; reflexivity.
    - destruct (xmint (led s) t d x); intros H; inversion H; reflexivity.
    - destruct (xburn (led s) f d x); intros H; inversion H; reflexivity.
  Qed.

  (** a base op in the extended chain is the first-round step under the fee in force *)
  Lemma xstep_base xs o :
    st (xstep xs (XBase o)) = step (cfg_at xs) (st xs) o /\
    snd (xstep_out xs (XBase o)) = snd (step_out (cfg_at xs) (st xs) o) /\
    params (xstep xs (XBase o)) = params xs.
  Proof.
    unfold xstep, Chain.xstep, xstep_out, step, cfg_at.
    destruct o as [m|f t d x|t d x|f d x].
    - destruct m as [cr sub|cr d x|cr d x|cr d na|cr d ok tag]; cbn [Chain.xstep_out step_out].
      + destruct (deliver (Chain.cfg_at c xs) (st xs) (MCreate cr sub)) as [s1 [d|e]] eqn:D; cbn [fst snd].
        * simpl. repeat split.
        * apply deliver_err in D. subst. repeat split.
      + destruct (deliver (Chain.cfg_at c xs) (st xs) (MMint cr d x)); cbn [fst snd]; repeat split.
      + destruct (deliver (Chain.cfg_at c xs) (st xs) (MBurn cr d x)); cbn [fst snd]; repeat split.
      + destruct (deliver (Chain.cfg_at c xs) (st xs) (MChangeAdmin cr d na)); cbn [fst snd]; repeat split.
      + destruct (deliver (Chain.cfg_at c xs) (st xs) (MSetMeta cr d ok tag)); cbn [fst snd]; repeat split.
    - cbn [Chain.xstep_out]. destruct (step_out (Chain.cfg_at c xs) (st xs) (OXSend f t d x)); cbn [fst snd]; repeat split.
    - cbn [Chain.xstep_out]. destruct (step_out (Chain.cfg_at c xs) (st xs) (OXMint t d x)); cbn [fst snd]; repeat split.
    - cbn [Chain.xstep_out]. destruct (step_out (Chain.cfg_at c xs) (st xs) (OXBurn f d x)); cbn [fst snd]; repeat split.
  Qed.

  Lemma import_all_led s gs s' idx' : import_all c str_of s gs = Some (s', idx') -> led s' = led s.
  Proof.
    unfold import_all. revert s. generalize (@nil (string * denom)).
    induction gs as [|g r IH]; intros idx s H.
    - inversion H; reflexivity.
    - change (fold_left (import_one c str_of) (g :: r) (Some (s, idx)))
        with (fold_left (import_one c str_of) r (import_one c str_of (Some (s, idx)) g)) in H.
      destruct (import_one c str_of (Some (s, idx)) g) as [[s1 idx1]|] eqn:E;
        [|rewrite (import_none c str_of) in H; discriminate].
      apply import_one_some in E as (a & sub & _ & _ & _ & -> & _). rewrite (IH _ _ H). reflexivity.
  Qed.

  Lemma genesis_led xs : led (st (fst (genesis_roundtrip c str_of xs))) = led (st xs).
  Proof.
    unfold genesis_roundtrip. destruct (import_all c str_of (wiped (st xs)) (export xs)) as [[s' idx']|] eqn:E; [|reflexivity].
    simpl. rewrite (import_all_led _ _ _ _ E). reflexivity.
  Qed.

  (** supply, one extended step: honest ops only — a failed raw mint leaves coins behind *)
  Lemma xsupply_step xs o d : honest o ->
    supply (led (st (xstep xs o))) d =
    supply (led (st xs)) d + xminted c str_of authority d xs o - xburned c str_of authority d xs o
                           + xext c d xs o.
  Proof.
    intros Hh. destruct o as [o|m|ct w|a cr f v|]; [| contradiction | | |].
    - destruct (xstep_base xs o) as (E1 & E2 & _). rewrite E1.
      rewrite (supply_step _ (addr_of_empty : addr_of (cfg_at xs) EmptyString = None)).
      assert (Es : Chain.xsucceeded c str_of authority xs (XBase o) = succeeded (cfg_at xs) (st xs) o).
      { unfold Chain.xsucceeded, succeeded. fold xstep_out. rewrite E2. reflexivity. }
      unfold xext, cfg_at in *. destruct o as [m|? ? ? ?|? ? ?|? ? ?]; cbn [xminted xburned minted_by burned_by]; try lia.
      destruct m; cbn [xminted xburned minted_by burned_by]; try rewrite Es; lia.
    - unfold xstep, Chain.xstep, xminted, xburned, xext, Chain.xsucceeded. cbn [Chain.xstep_out].
      destruct (Chain.perform c str_of xs ct w) as [xs' [r|e]] eqn:P; cbn [fst snd is_ok].
      + destruct w as [sub md|d0 x to|d0 x from|d0 na|d0 base valid tag].
        * destruct (wasm_create_effect _ _ str_of_parses _ _ _ _ _ _ P) as (_ & _ & _ & _ & _ & _ & S & _).
          rewrite S. lia.
        * destruct (wasm_mint_effect _ _ addr_of_empty str_of_parses _ _ _ _ _ _ _ P) as (rc & s1 & _ & _ & _ & _ & _ & _ & S & _).
          rewrite S. unfold sdelta. rewrite andb_true_r. lia.
        * destruct (wasm_burn_effect _ _ addr_of_empty str_of_parses _ _ _ _ _ _ _ P) as (_ & _ & _ & _ & S & _).
          rewrite S. unfold sdelta. rewrite andb_true_r. lia.
        * unfold Chain.perform in P. destruct (addr_of c na) as [a|]; [|discriminate].
          destruct (deliver _ (st xs) (MChangeAdmin (str_of ct) d0 (str_of a))) as [s1 [r1|e1]] eqn:D; [|discriminate].
          inversion P; subst. destruct (change_admin_spec _ addr_of_empty _ _ _ _ _ _ D) as (_ & _ & ->). simpl. lia.
        * unfold Chain.perform in P. destruct (perform_set_meta (st xs) (str_of ct) d0 base valid tag) as [s1|] eqn:M; [|discriminate].
          inversion P; subst. apply perform_set_meta_ok in M as (_ & _ & _ & ->). simpl. lia.
      + apply (perform_err c str_of) in P. subst xs'.
        destruct w; rewrite ?andb_false_r; lia.
    - unfold xstep, Chain.xstep, xminted, xburned, xext. cbn [Chain.xstep_out]. unfold update_params.
      destruct (valid_addr c cr && String.eqb a cr && v); [|simpl; lia].
      destruct (String.eqb a authority); simpl; lia.
    - unfold xstep, Chain.xstep, xminted, xburned, xext. cbn [Chain.xstep_out]. rewrite genesis_led. lia.
  Qed.

  (** supply = mints - burns over every honest extended history: messages, contracts through the
      bindings, fee changes, genesis round trips, other modules as explicit deltas *)
  Theorem xsupply_accounting ops : forall xs d, Forall honest ops ->
    supply (led (st (xrun ops xs))) d =
    supply (led (st xs)) d + xtotal c str_of authority (xminted c str_of authority d) ops xs
                           - xtotal c str_of authority (xburned c str_of authority d) ops xs
                           + xtotal c str_of authority (xext c d) ops xs.
  Proof.
    induction ops as [|o r IH]; intros xs d F; [simpl; lia|].
    inversion F as [|? ? Ho Fr]; subst. rewrite xrun_cons, (IH _ _ Fr), (xsupply_step _ _ _ Ho).
    simpl. fold xstep. lia.
  Qed.
End XHist.

(** ---- uniqueness, only-admin and the index invariant over extended histories ---- *)

Ltac raw_cases H :=
  repeat match type of H with
         | context [match ?x with _ => _ end] => destruct x eqn:?
         | context [if ?x then _ else _] => destruct x eqn:?
         end.

Section XHist2.
  Variable c : cfg.
  Variable str_of : acct -> string.
  Variable authority : string.
  Hypothesis addr_of_empty : addr_of c EmptyString = None.
  Hypothesis str_of_parses : forall a, addr_of c (str_of a) = Some a.

  Let cfg_at := cfg_at c.
  Let xstep_out := xstep_out c str_of authority.
  Let xstep := xstep c str_of authority.
  Let xrun := xrun c str_of authority.
  Let xcreated := xcreated c str_of authority.

  Lemma raw_meta_monotone c0 s m s' r d :
    raw c0 s m = (s', r) -> meta_of s d <> None -> meta_of s' d <> None.
  Proof.
    intros H M. destruct r as [r|e].
    2:{ apply raw_failure_keeps_control in H as [E _]. unfold meta_of. rewrite E. exact M. }
    destruct m as [cr sub|cr d0 x|cr d0 x|cr d0 na|cr d0 ok tag]; simpl in H; raw_cases H;
      try discriminate; inversion H; subst; clear H;
      rewrite ?meta_of_set_admin, ?meta_of_set_meta, ?meta_of_with_led;
      try (destruct (String.eqb d _)); try assumption; discriminate.
  Qed.

  Lemma genesis_spec xs xs' r :
    genesis_roundtrip c str_of xs = (xs', Ok r) ->
    led (st xs') = led (st xs) /\ params xs' = params xs /\ pool xs' = pool xs /\
    (forall d, In d (map snd (index xs)) ->
       meta_of (st xs') d = Some 0 /\ admin_rec (st xs') d = Some (admin_str (st xs) d)) /\
    (forall d, ~ In d (map snd (index xs)) ->
       meta_of (st xs') d = meta_of (st xs) d /\ admin_rec (st xs') d = None) /\
    (forall k, In k (index xs') <->
       exists cr a sub, In (cr, snd k) (index xs) /\ deconstruct (addr_of c) (snd k) = Some (a, sub) /\
                        fst k = str_of a).
  Proof.
    unfold genesis_roundtrip. destruct (import_all c str_of (wiped (st xs)) (export xs)) as [[s' idx']|] eqn:E; [|discriminate].
    intros H; inversion H; subst; clear H. simpl.
    unfold import_all in E.
    assert (F : forall g, In g (export xs) -> snd g = admin_str (st xs) (fst g)).
    { intros g Hg. unfold export in Hg. apply in_map_iff in Hg as (p & <- & _). reflexivity. }
    destruct (import_spec c str_of (admin_str (st xs)) _ _ _ _ _ F E) as (L & In1 & Out1 & Ix).
    assert (Em : map fst (export xs) = map snd (index xs)).
    { unfold export. rewrite map_map. reflexivity. }
    rewrite Em in In1, Out1.
    split; [exact L|]. split; [reflexivity|]. split; [reflexivity|]. split; [exact In1|]. split.
    - intros d N. destruct (Out1 d N) as [M A]. split; [exact M|]. rewrite A. reflexivity.
    - intros k. rewrite Ix. split.
      + intros [[]|(g & a & sub & Hg & D & ->)]. unfold export in Hg. apply in_map_iff in Hg as ([cr d0] & <- & Hp).
        simpl in *. exists cr, a, sub. auto.
      + intros (cr & a & sub & Hp & D & E1). right.
        exists (snd k, admin_str (st xs) (snd k)), a, sub. split; [|split; [exact D|]].
        * unfold export. apply in_map_iff. exists (cr, snd k). auto.
        * destruct k as [k1 k2]. simpl in *. subst. reflexivity.
  Qed.

  Lemma xmeta_monotone xs o d :
    meta_of (st xs) d <> None -> meta_of (st (xstep xs o)) d <> None.
  Proof.
    intros M. destruct o as [o|m|ct w|a cr f v|].
    - destruct (xstep_base c str_of authority xs o) as (E1 & _). fold xstep in E1. rewrite E1.
      apply (meta_monotone_step (cfg_at xs)); [exact addr_of_empty|exact M].
    - unfold xstep, Chain.xstep. cbn [Chain.xstep_out].
      destruct (raw (Chain.cfg_at c xs) (st xs) m) as [s' r] eqn:R.
      pose proof (raw_meta_monotone _ _ _ _ _ d R M) as M'.
      destruct r as [r|e]; destruct m; exact M'.
    - unfold xstep, Chain.xstep. cbn [Chain.xstep_out].
      destruct (Chain.perform c str_of xs ct w) as [xs' [r|e]] eqn:P; cbn [fst].
      2:{ apply perform_err in P. subst. exact M. }
      destruct w as [sub md|d0 x to|d0 x from|d0 na|d0 base valid tag].
      + destruct (wasm_create_effect _ _ str_of_parses _ _ _ _ _ _ P) as (_ & _ & _ & M1 & _ & _ & _ & _ & _ & O & _).
        destruct (string_dec d r) as [->|N]; [exact M1|]. rewrite (proj2 (O d N)). exact M.
      + destruct (wasm_mint_effect _ _ addr_of_empty str_of_parses _ _ _ _ _ _ _ P) as (rc & s1 & _ & _ & _ & _ & _ & _ & _ & E & _).
        unfold meta_of. rewrite E. exact M.
      + destruct (wasm_burn_effect _ _ addr_of_empty str_of_parses _ _ _ _ _ _ _ P) as (_ & _ & _ & _ & _ & E & _).
        unfold meta_of. rewrite E. exact M.
      + unfold Chain.perform in P. destruct (addr_of c na) as [a|]; [|discriminate].
        destruct (deliver _ (st xs) (MChangeAdmin (str_of ct) d0 (str_of a))) as [s1 [r1|e1]] eqn:D; [|discriminate].
        inversion P; subst. destruct (change_admin_spec _ addr_of_empty _ _ _ _ _ _ D) as (_ & _ & ->). exact M.
      + unfold Chain.perform in P. destruct (perform_set_meta (st xs) (str_of ct) d0 base valid tag) as [s1|] eqn:PM; [|discriminate].
        inversion P; subst. apply perform_set_meta_ok in PM as (_ & _ & _ & ->). simpl.
        rewrite meta_of_set_meta. destruct (String.eqb d d0); [discriminate|exact M].
    - unfold xstep, Chain.xstep. cbn [Chain.xstep_out]. unfold update_params.
      destruct (valid_addr c cr && String.eqb a cr && v); [|exact M].
      destruct (String.eqb a authority); exact M.
    - unfold xstep, Chain.xstep. cbn [Chain.xstep_out].
      destruct (genesis_roundtrip c str_of xs) as [xs' [r|e]] eqn:G; cbn [fst].
      + destruct (genesis_spec _ _ _ G) as (_ & _ & _ & In1 & Out1 & _).
        destruct (in_dec string_dec d (map snd (index xs))) as [I|N].
        * rewrite (proj1 (In1 d I)). discriminate.
        * rewrite (proj1 (Out1 d N)). exact M.
      + unfold genesis_roundtrip in G. destruct (import_all c str_of (wiped (st xs)) (export xs)) as [[? ?]|]; inversion G; subst. exact M.
  Qed.

  (** a successful create of any kind (message, raw call, binding) returns a denom that had no bank
      metadata and has it afterwards *)
  Lemma xcreate_fresh xs o xs' d :
    is_create o = true -> xstep_out xs o = (xs', Ok d) ->
    meta_of (st xs) d = None /\ meta_of (st xs') d <> None.
  Proof.
    intros C H. destruct o as [o|m|ct w|? ? ? ?|]; try discriminate.
    - destruct o as [m|? ? ? ?|? ? ?|? ? ?]; try discriminate. destruct m as [cr sub|? ? ?|? ? ?|? ? ?|? ? ? ?]; try discriminate.
      unfold xstep_out in H. cbn [Chain.xstep_out] in H.
      destruct (deliver (Chain.cfg_at c xs) (st xs) (MCreate cr sub)) as [s1 [d1|e1]] eqn:D; [|discriminate].
      inversion H; subst. destruct (create_in_own_namespace _ _ _ _ _ _ D) as (_ & _ & _ & M0 & M1 & _).
      simpl. rewrite M1. split; [exact M0|discriminate].
    - destruct m as [cr sub|? ? ?|? ? ?|? ? ?|? ? ? ?]; try discriminate.
      unfold xstep_out in H. cbn [Chain.xstep_out] in H.
      destruct (raw (Chain.cfg_at c xs) (st xs) (MCreate cr sub)) as [s1 [d1|e1]] eqn:R; [|discriminate].
      inversion H; subst. simpl in R. raw_cases R; try discriminate. inversion R; subst. simpl.
      rewrite meta_of_set_admin, meta_of_set_meta, String.eqb_refl. split; [assumption|discriminate].
    - destruct w as [sub md|? ? ?|? ? ?|? ?|? ? ? ?]; try discriminate.
      unfold xstep_out in H. cbn [Chain.xstep_out] in H.
      destruct (wasm_create_effect _ _ str_of_parses _ _ _ _ _ _ H) as (_ & M0 & _ & M1 & _). auto.
  Qed.

  Lemma xcreated_cons o ops xs :
    xcreated (o :: ops) xs =
    match is_create o, snd (xstep_out xs o) with
    | true, Ok d => d :: xcreated ops (xstep xs o)
    | _, _ => xcreated ops (xstep xs o)
    end.
  Proof. reflexivity. Qed.

  Lemma xcreated_fresh ops : forall xs d, In d (xcreated ops xs) -> meta_of (st xs) d = None.
  Proof.
    induction ops as [|o r IH]; intros xs d I; [contradiction|].
    rewrite xcreated_cons in I.
    assert (Later : In d (xcreated r (xstep xs o)) -> meta_of (st xs) d = None).
    { intros I'. apply IH in I'. destruct (meta_of (st xs) d) eqn:E; [|reflexivity].
      exfalso. apply (xmeta_monotone xs o d); [rewrite E; discriminate|exact I']. }
    destruct (is_create o) eqn:C; [|auto].
    destruct (xstep_out xs o) as [xs' [d1|e]] eqn:S; cbn [snd] in I; [|auto].
    destruct I as [<-|I]; [|auto]. exact (proj1 (xcreate_fresh _ _ _ _ C S)).
  Qed.

  (** Never twice — over EVERY extended history, raw calls and genesis round trips included. *)
  Theorem xcreated_once ops : forall xs, NoDup (xcreated ops xs).
  Proof.
    induction ops as [|o r IH]; intros xs; [constructor|].
    rewrite xcreated_cons. destruct (is_create o) eqn:C; [|apply IH].
    destruct (xstep_out xs o) as [xs' [d1|e]] eqn:S; cbn [snd]; [|apply IH].
    constructor; [|apply IH]. intros I. apply xcreated_fresh in I.
    unfold xstep, Chain.xstep in I. fold xstep_out in I. rewrite S in I. cbn [fst] in I.
    exact (proj2 (xcreate_fresh _ _ _ _ C S) I).
  Qed.

  (** who acts on which denom in an extended op *)
  Definition xprivileged (o : xop) : option (string * denom) :=
    match o with
    | XBase (OMsg m) => match privileged m with Some d => Some (sender m, d) | None => None end
    | XWasm ct w => match wprivileged w with Some d => Some (str_of ct, d) | None => None end
    | _ => None
    end.

  (** only the current admin — users by message, contracts through the bindings *)
  Theorem xonly_admin_acts xs o xs' r a d :
    xstep_out xs o = (xs', Ok r) -> xprivileged o = Some (a, d) ->
    admin_rec (st xs) d = Some a /\ exists acc, addr_of c a = Some acc.
  Proof.
    intros H P. destruct o as [o|m|ct w|? ? ? ?|]; try discriminate.
    - destruct o as [m|? ? ? ?|? ? ?|? ? ?]; try discriminate. simpl in P.
      destruct (privileged m) as [d0|] eqn:Pm; [|discriminate]. inversion P; subst.
      pose proof (xstep_base c str_of authority xs (OMsg m)) as (E1 & E2 & _).
      fold xstep_out in E2. rewrite H in E2. cbn [snd step_out] in E2.
      destruct (deliver (Chain.cfg_at c xs) (st xs) m) as [s1 [r1|e1]] eqn:D; [|discriminate].
      exact (only_admin_step (Chain.cfg_at c xs) addr_of_empty _ _ _ _ _ D Pm).
    - simpl in P. destruct (wprivileged w) as [d0|] eqn:Pw; [|discriminate]. inversion P; subst.
      unfold xstep_out in H. cbn [Chain.xstep_out] in H. split; [|eauto].
      exact (wasm_only_admin _ _ addr_of_empty str_of_parses _ _ _ _ _ _ H Pw).
  Qed.
End XHist2.

(** ---- the index invariant and the genesis round trip ---- *)
Section Genesis.
  Variable c : cfg.
  Variable str_of : acct -> string.
  Variable authority : string.
  Hypothesis addr_of_empty : addr_of c EmptyString = None.
  Hypothesis str_of_parses : forall a, addr_of c (str_of a) = Some a.

  Let xstep_out := xstep_out c str_of authority.
  Let xstep := xstep c str_of authority.
  Let xrun := xrun c str_of authority.

  (** what the factory keeps true of its own store (next to [wf]): every admin record is indexed,
      every index entry is a factory denom whose creator segment parses to the account the entry's
      creator string parses to, and stored admins are "" or addresses *)
  Definition xwf (xs : xstate) : Prop :=
    wf (st xs) /\
    (forall d, admin_rec (st xs) d <> None -> exists cr, In (cr, d) (index xs)) /\
    (forall cr d, In (cr, d) (index xs) ->
       admin_rec (st xs) d <> None /\
       exists a sub, deconstruct (addr_of c) d = Some (a, sub) /\ addr_of c cr = Some a) /\
    (forall d a, admin_rec (st xs) d = Some a -> a = EmptyString \/ exists acc, addr_of c a = Some acc).

  Lemma xwf_empty f : xwf (empty_xstate f).
  Proof.
    split; [apply wf_empty|]. split; [|split].
    - intros d H. exfalso. apply H. reflexivity.
    - intros cr d [].
    - intros d a H. discriminate.
  Qed.

  Definition meta_mono (xs xs' : xstate) : Prop :=
    forall d, meta_of (st xs) d <> None -> meta_of (st xs') d <> None.

  Lemma xwf_same xs xs' : xwf xs -> meta_mono xs xs' ->
    (forall d, admin_rec (st xs') d = admin_rec (st xs) d) -> index xs' = index xs -> xwf xs'.
  Proof.
    intros (W & I2 & I3 & I4) MM A IX. split; [|split; [|split]].
    - intros d H. apply MM, W. rewrite <- A. exact H.
    - intros d H. rewrite IX. apply I2. rewrite <- A. exact H.
    - intros cr d H. rewrite IX in H. rewrite A. apply I3, H.
    - intros d a H. rewrite A in H. eapply I4, H.
  Qed.

  Lemma xwf_create xs xs' cr d a sub : xwf xs -> meta_mono xs xs' ->
    meta_of (st xs') d <> None ->
    deconstruct (addr_of c) d = Some (a, sub) -> addr_of c cr = Some a ->
    (forall d', admin_rec (st xs') d' = if String.eqb d' d then Some cr else admin_rec (st xs) d') ->
    index xs' = idx_add (index xs) cr d -> xwf xs'.
  Proof.
    intros (W & I2 & I3 & I4) MM M1 D Ha A IX. split; [|split; [|split]].
    - intros d' H. rewrite A in H. destruct (String.eqb d' d) eqn:E.
      + apply String.eqb_eq in E. subst. exact M1.
      + apply MM, W, H.
    - intros d' H. rewrite A in H. rewrite IX. destruct (String.eqb d' d) eqn:E.
      + apply String.eqb_eq in E. subst. exists cr. apply idx_add_in. auto.
      + destruct (I2 d' H) as [cr' Hc]. exists cr'. apply idx_add_in. auto.
    - intros cr' d' H. rewrite IX in H. apply idx_add_in in H as [H|H].
      + destruct (I3 _ _ H) as [N X]. split; [|exact X]. rewrite A. destruct (String.eqb d' d); [discriminate|exact N].
      + inversion H; subst. split; [rewrite A, String.eqb_refl; discriminate|]. exists a, sub. auto.
    - intros d' a' H. rewrite A in H. destruct (String.eqb d' d).
      + inversion H; subst. right. eauto.
      + eapply I4, H.
  Qed.

  Lemma xwf_admin xs xs' d na : xwf xs -> meta_mono xs xs' ->
    admin_rec (st xs) d <> None -> (na = EmptyString \/ exists acc, addr_of c na = Some acc) ->
    (forall d', admin_rec (st xs') d' = if String.eqb d' d then Some na else admin_rec (st xs) d') ->
    index xs' = index xs -> xwf xs'.
  Proof.
    intros (W & I2 & I3 & I4) MM Old Na A IX. split; [|split; [|split]].
    - intros d' H. apply MM, W. rewrite A in H. destruct (String.eqb d' d) eqn:E; [|exact H].
      apply String.eqb_eq in E. subst. exact Old.
    - intros d' H. rewrite IX. apply I2. rewrite A in H. destruct (String.eqb d' d) eqn:E; [|exact H].
      apply String.eqb_eq in E. subst. exact Old.
    - intros cr d' H. rewrite IX in H. destruct (I3 _ _ H) as [N X]. split; [|exact X].
      rewrite A. destruct (String.eqb d' d); [discriminate|exact N].
    - intros d' a H. rewrite A in H. destruct (String.eqb d' d).
      + inversion H; subst. exact Na.
      + eapply I4, H.
  Qed.

  Lemma admin_rec_ext s s' : admins s' = admins s -> forall d, admin_rec s' d = admin_rec s d.
  Proof. intros E d. unfold admin_rec. rewrite E. reflexivity. Qed.

  Lemma mono_step xs o : meta_mono xs (xstep xs o).
  Proof. intros d. apply (xmeta_monotone c str_of authority addr_of_empty str_of_parses). Qed.

  (** the invariant survives a genesis round trip, and the round trip does not panic *)
  Lemma genesis_succeeds xs : xwf xs -> exists xs', genesis_roundtrip c str_of xs = (xs', Ok EmptyString).
  Proof.
    intros (W & I2 & I3 & I4). unfold genesis_roundtrip, import_all.
    assert (G : forall gs s idx, (forall g, In g gs -> In g (export xs)) ->
              exists r, fold_left (import_one c str_of) gs (Some (s, idx)) = Some r).
    { induction gs as [|g r IH]; intros s idx Sub; [eexists; reflexivity|].
      change (fold_left (import_one c str_of) (g :: r) (Some (s, idx)))
        with (fold_left (import_one c str_of) r (import_one c str_of (Some (s, idx)) g)).
      assert (Hg : In g (export xs)) by (apply Sub; left; reflexivity).
      unfold export in Hg. apply in_map_iff in Hg as ([cr d] & <- & Hp). simpl.
      destruct (I3 _ _ Hp) as (N & a & sub & D & Ha).
      rewrite D. unfold valid_addr. rewrite str_of_parses.
      assert (Adm : (String.eqb (admin_str (st xs) d) EmptyString
                     || match addr_of c (admin_str (st xs) d) with Some _ => true | None => false end) = true).
      { unfold admin_str. destruct (admin_rec (st xs) d) as [ad|] eqn:EA; [|contradiction].
        destruct (I4 _ _ EA) as [->|[acc ->]]; [reflexivity|apply orb_true_r]. }
      rewrite Adm. apply IH. intros g0 Hg0. apply Sub. right. exact Hg0. }
    destruct (G (export xs) (wiped (st xs)) [] (fun g H => H)) as [[s' idx'] E]. rewrite E. eauto.
  Qed.

  (** A genesis export / import keeps every admin record (for EVERY denom string), the whole ledger,
      the params and the pool; the bank metadata of every factory denom is RESET to the bare one
      (InitGenesis calls createDenomAfterValidation, which overwrites what bank's own genesis had
      restored); the index is re-keyed by the canonical spelling of each creator. *)
  Theorem genesis_roundtrip_effect xs : xwf xs ->
    exists xs', genesis_roundtrip c str_of xs = (xs', Ok EmptyString) /\
      (forall d, admin_rec (st xs') d = admin_rec (st xs) d) /\
      led (st xs') = led (st xs) /\ params xs' = params xs /\ pool xs' = pool xs /\
      (forall d, admin_rec (st xs) d <> None -> meta_of (st xs') d = Some 0) /\
      (forall d, admin_rec (st xs) d = None -> meta_of (st xs') d = meta_of (st xs) d) /\
      (forall cr d, In (cr, d) (index xs') <->
         exists cr0 a sub, In (cr0, d) (index xs) /\ deconstruct (addr_of c) d = Some (a, sub) /\ cr = str_of a) /\
      xwf xs'.
  Proof.
    intros X. destruct (genesis_succeeds xs X) as [xs' G]. exists xs'. split; [exact G|].
    destruct X as (W & I2 & I3 & I4).
    destruct (genesis_spec c str_of _ _ _ G) as (L & P & Q & In1 & Out1 & Ix).
    assert (InIdx : forall d, In d (map snd (index xs)) <-> admin_rec (st xs) d <> None).
    { intros d. split.
      - intros H. apply in_map_iff in H as ([cr d0] & <- & Hp). exact (proj1 (I3 _ _ Hp)).
      - intros H. destruct (I2 d H) as [cr Hc]. apply in_map_iff. exists (cr, d). auto. }
    assert (A : forall d, admin_rec (st xs') d = admin_rec (st xs) d).
    { intros d. destruct (in_dec string_dec d (map snd (index xs))) as [I|N].
      - rewrite (proj2 (In1 d I)). apply InIdx in I. unfold admin_str.
        destruct (admin_rec (st xs) d); [reflexivity|contradiction].
      - rewrite (proj2 (Out1 d N)). destruct (admin_rec (st xs) d) eqn:E; [|reflexivity].
        exfalso. apply N, InIdx. rewrite E. discriminate. }
    assert (Ix' : forall cr d, In (cr, d) (index xs') <->
         exists cr0 a sub, In (cr0, d) (index xs) /\ deconstruct (addr_of c) d = Some (a, sub) /\ cr = str_of a).
    { intros cr d. rewrite Ix. simpl. reflexivity. }
    split; [exact A|]. split; [exact L|]. split; [exact P|]. split; [exact Q|].
    split; [intros d H; apply In1, InIdx, H|].
    split.
    { intros d H. apply Out1. intros I. apply InIdx in I. contradiction. }
    split; [exact Ix'|].
    split; [|split; [|split]].
    - intros d H. rewrite A in H. destruct (in_dec string_dec d (map snd (index xs))) as [I|N].
      + rewrite (proj1 (In1 d I)). discriminate.
      + rewrite (proj1 (Out1 d N)). apply W, H.
    - intros d H. rewrite A in H. destruct (I2 d H) as [cr Hc].
      destruct (I3 _ _ Hc) as (_ & a & sub & D & _). exists (str_of a). apply Ix'. exists cr, a, sub. auto.
    - intros cr d H. apply Ix' in H as (cr0 & a & sub & Hc & D & ->). split.
      + rewrite A. exact (proj1 (I3 _ _ Hc)).
      + exists a, sub. split; [exact D|apply str_of_parses].
    - intros d a H. rewrite A in H. eapply I4, H.
  Qed.

  (** every honest op preserves the invariant *)
  Lemma xwf_step xs o : honest o -> xwf xs -> xwf (xstep xs o).
  Proof.
    intros Hh X. pose proof (mono_step xs o) as MM.
    destruct o as [o|m|ct w|a cr f v|]; [| contradiction | | |].
    - (* base ops *)
      destruct o as [m|f t d x|t d x|f d x].
      + destruct (xstep_out xs (XBase (OMsg m))) as [xs' [r|e]] eqn:S.
        2:{ assert (xs' = xs) as E.
            { unfold xstep_out in S. destruct xs as [s0 p0 i0 q0].
              destruct m; cbn [Chain.xstep_out step_out st] in S;
                match type of S with context [deliver ?c0 ?s1 ?m0] => destruct (deliver c0 s1 m0) as [s2 [r1|e1]] eqn:D end;
                try discriminate; inversion S; subst; try reflexivity;
                apply deliver_err in D; subst; reflexivity. }
            unfold xstep, Chain.xstep. fold xstep_out. rewrite S, E. exact X. }
        assert (Exs : xstep xs (XBase (OMsg m)) = xs') by (unfold xstep, Chain.xstep; fold xstep_out; rewrite S; reflexivity).
        rewrite Exs in MM |- *. clear Exs.
        unfold xstep_out in S. destruct m as [cr sub|cr d x|cr d x|cr d na|cr d ok tag]; cbn [Chain.xstep_out step_out] in S.
        * destruct (deliver (cfg_at c xs) (st xs) (MCreate cr sub)) as [s1 [d1|e1]] eqn:D; [|discriminate].
          inversion S; subst; clear S.
          destruct (create_in_own_namespace _ _ _ _ _ _ D) as (_ & _ & (a & Ha & Hdec) & _ & M1 & _).
          destruct (create_spec _ _ _ _ _ _ D) as (_ & _ & _ & _ & _ & _ & _ & _ & _ & _ & AA).
          apply (xwf_create xs _ cr r a sub X MM); simpl; auto. rewrite M1. discriminate.
        * destruct (deliver (cfg_at c xs) (st xs) (MMint cr d x)) as [s1 [r1|e1]] eqn:D; [|discriminate].
          inversion S; subst; clear S.
          destruct (mint_spec _ addr_of_empty _ _ _ _ _ _ D) as (a & _ & _ & _ & _ & _ & _ & _ & _ & _ & A).
          apply (xwf_same xs _ X MM); [apply admin_rec_ext, A|reflexivity].
        * destruct (deliver (cfg_at c xs) (st xs) (MBurn cr d x)) as [s1 [r1|e1]] eqn:D; [|discriminate].
          inversion S; subst; clear S.
          destruct (burn_spec _ addr_of_empty _ _ _ _ _ _ D) as (a & _ & _ & _ & _ & _ & _ & _ & _ & A).
          apply (xwf_same xs _ X MM); [apply admin_rec_ext, A|reflexivity].
        * destruct (deliver (cfg_at c xs) (st xs) (MChangeAdmin cr d na)) as [s1 [r1|e1]] eqn:D; [|discriminate].
          inversion S; subst; clear S.
          destruct (change_admin_spec _ addr_of_empty _ _ _ _ _ _ D) as (Hadm & Na & ->).
          apply (xwf_admin xs _ d na X MM); simpl; auto.
          -- rewrite Hadm. discriminate.
          -- intros d'. apply admin_rec_set_admin.
        * destruct (deliver (cfg_at c xs) (st xs) (MSetMeta cr d ok tag)) as [s1 [r1|e1]] eqn:D; [|discriminate].
          inversion S; subst; clear S.
          destruct (set_meta_spec _ addr_of_empty _ _ _ _ _ _ _ D) as (_ & ->).
          apply (xwf_same xs _ X MM); [intros d'; reflexivity|reflexivity].
      + unfold xstep, Chain.xstep in MM |- *. cbn [Chain.xstep_out step_out] in MM |- *.
        destruct (if 0 <=? x then send (led (st xs)) f t d x else Err EValidate);
          apply (xwf_same xs _ X MM); reflexivity || (intros; reflexivity).
      + unfold xstep, Chain.xstep in MM |- *. cbn [Chain.xstep_out step_out] in MM |- *.
        destruct (xmint (led (st xs)) t d x); apply (xwf_same xs _ X MM); reflexivity || (intros; reflexivity).
      + unfold xstep, Chain.xstep in MM |- *. cbn [Chain.xstep_out step_out] in MM |- *.
        destruct (xburn (led (st xs)) f d x); apply (xwf_same xs _ X MM); reflexivity || (intros; reflexivity).
    - (* bindings *)
      unfold xstep, Chain.xstep in MM |- *. cbn [Chain.xstep_out] in MM |- *.
      destruct (perform c str_of xs ct w) as [xs' [r|e]] eqn:P; cbn [fst] in MM |- *.
      2:{ apply perform_err in P. subst. exact X. }
      destruct w as [sub md|d0 x to|d0 x from|d0 na|d0 base valid tag].
      + destruct (wasm_create_effect _ _ str_of_parses _ _ _ _ _ _ P) as (_ & M0 & A1 & M1 & _ & _ & _ & _ & _ & O & Dec & IX).
        apply (xwf_create xs _ (str_of ct) r ct sub X MM); auto.
        intros d'. destruct (String.eqb d' r) eqn:E.
        * apply String.eqb_eq in E. subst. exact A1.
        * apply O. intros ->. rewrite String.eqb_refl in E. discriminate.
      + destruct (wasm_mint_effect _ _ addr_of_empty str_of_parses _ _ _ _ _ _ _ P) as (rc & s1 & _ & _ & _ & _ & _ & _ & _ & _ & A & _ & IX & _).
        apply (xwf_same xs _ X MM); [apply admin_rec_ext, A|exact IX].
      + destruct (wasm_burn_effect _ _ addr_of_empty str_of_parses _ _ _ _ _ _ _ P) as (_ & _ & _ & _ & _ & _ & A & _ & IX & _).
        apply (xwf_same xs _ X MM); [apply admin_rec_ext, A|exact IX].
      + unfold perform in P. destruct (addr_of c na) as [a|] eqn:Na; [|discriminate].
        destruct (deliver _ (st xs) (MChangeAdmin (str_of ct) d0 (str_of a))) as [s1 [r1|e1]] eqn:D; [|discriminate].
        inversion P; subst. destruct (change_admin_spec _ addr_of_empty _ _ _ _ _ _ D) as (Hadm & Hna & ->).
        apply (xwf_admin xs _ d0 (str_of a) X MM); simpl; auto.
        * rewrite Hadm. discriminate.
        * intros d'. apply admin_rec_set_admin.
      + unfold perform in P. destruct (perform_set_meta (st xs) (str_of ct) d0 base valid tag) as [s1|] eqn:PM; [|discriminate].
        inversion P; subst. apply perform_set_meta_ok in PM as (_ & _ & _ & ->).
        apply (xwf_same xs _ X MM); [intros d'; reflexivity|reflexivity].
    - unfold xstep, Chain.xstep in MM |- *. cbn [Chain.xstep_out] in MM |- *. unfold update_params in *.
      destruct (valid_addr c cr && String.eqb a cr && v); [|exact X].
      destruct (String.eqb a authority); [|exact X].
      apply (xwf_same xs _ X MM); [intros d'; reflexivity|reflexivity].
    - unfold xstep, Chain.xstep. cbn [Chain.xstep_out].
      destruct (genesis_roundtrip_effect xs X) as (xs' & G & _ & _ & _ & _ & _ & _ & _ & X').
      rewrite G. exact X'.
  Qed.

  Theorem xwf_run ops : forall xs, Forall honest ops -> xwf xs -> xwf (xrun ops xs).
  Proof.
    induction ops as [|o r IH]; intros xs F X; [exact X|]. inversion F; subst.
    change (xrun (o :: r) xs) with (xrun r (xstep xs o)). apply IH; [assumption|]. apply xwf_step; assumption.
  Qed.

  (** the index is exact: in a state the chain can reach, [denoms_of cr] lists only factory denoms
      whose creator segment is the account of [cr], and every denom with an admin record is listed *)
  Theorem index_exact xs : xwf xs ->
    (forall cr d, In d (denoms_of xs cr) ->
       admin_rec (st xs) d <> None /\ meta_of (st xs) d <> None /\
       exists a sub, deconstruct (addr_of c) d = Some (a, sub) /\ addr_of c cr = Some a) /\
    (forall d, admin_rec (st xs) d <> None -> exists cr, In d (denoms_of xs cr)).
  Proof.
    intros (W & I2 & I3 & I4). split.
    - intros cr d H. unfold denoms_of in H. apply in_map_iff in H as ([cr0 d0] & <- & H).
      apply filter_In in H as [H E]. simpl in E. apply String.eqb_eq in E. subst cr0. simpl.
      destruct (I3 _ _ H) as [N X]. split; [exact N|]. split; [apply W, N|exact X].
    - intros d H. destruct (I2 d H) as [cr Hc]. exists cr. unfold denoms_of. apply in_map_iff.
      exists (cr, d). split; [reflexivity|]. apply filter_In. split; [exact Hc|]. simpl. apply String.eqb_refl.
  Qed.
End Genesis.

(** ---- effect form over the extended chain ---- *)
Section XControl.
  Variable c : cfg.
  Variable str_of : acct -> string.
  Variable authority : string.
  Hypothesis addr_of_empty : addr_of c EmptyString = None.
  Hypothesis str_of_parses : forall a, addr_of c (str_of a) = Some a.

  Let xstep_out := xstep_out c str_of authority.
  Let xstep := xstep c str_of authority.

  (** In a state the chain can reach, if ANY honest op — a user's message, a contract's binding call,
      a fee change, another module, a genesis round trip — changes the admin record of a denom whose
      admin is [a], or (the genesis round trip aside, which resets bank metadata) its metadata, then
      that op is a successful privileged call on that denom made by [a]. *)
  Theorem xcontrol_only_by_admin xs o d a :
    xwf c xs -> honest o -> admin_rec (st xs) d = Some a ->
    admin_rec (st (xstep xs o)) d <> Some a \/
      (o <> XGenesis /\ meta_of (st (xstep xs o)) d <> meta_of (st xs) d) ->
    xprivileged str_of o = Some (a, d) /\ Chain.xsucceeded c str_of authority xs o = true.
  Proof.
    intros X Hh Hadm Ch. pose proof X as (W & _).
    destruct o as [o|m|ct w|au cr f v|]; [| contradiction | | |].
    - (* first-round ops: the first-round effect theorem under the fee in force *)
      destruct (xstep_base c str_of authority xs o) as (E1 & E2 & _). fold xstep in E1.
      rewrite E1 in Ch.
      assert (Ch' : admin_rec (step (cfg_at c xs) (st xs) o) d <> Some a \/
                    meta_of (step (cfg_at c xs) (st xs) o) d <> meta_of (st xs) d) by tauto.
      destruct (control_only_by_admin (cfg_at c xs) addr_of_empty _ _ _ _ W Hadm Ch')
        as (m & -> & Hs & P & Su & _).
      split.
      + simpl. rewrite P, Hs. reflexivity.
      + unfold Chain.xsucceeded. fold xstep_out. unfold xstep_out. rewrite E2. exact Su.
    - (* bindings *)
      unfold xstep, Chain.xstep, Chain.xsucceeded in *. cbn [Chain.xstep_out] in *.
      destruct (perform c str_of xs ct w) as [xs' [r|e]] eqn:P; cbn [fst snd is_ok] in *.
      2:{ apply perform_err in P. subst. exfalso. destruct Ch as [Ch|[_ Ch]]; apply Ch; auto. }
      split; [|reflexivity].
      destruct w as [sub md|d0 x to|d0 x from|d0 na|d0 base valid tag]; simpl.
      + exfalso.
        destruct (wasm_create_effect _ _ str_of_parses _ _ _ _ _ _ P) as (_ & M0 & _ & _ & _ & _ & _ & _ & _ & O & _).
        destruct (string_dec d r) as [->|N].
        * apply (W r); [rewrite Hadm; discriminate|exact M0].
        * destruct (O d N) as [OA OM]. rewrite OA, OM in Ch. destruct Ch as [Ch|[_ Ch]]; apply Ch; auto.
      + exfalso.
        destruct (wasm_mint_effect _ _ addr_of_empty str_of_parses _ _ _ _ _ _ _ P) as (rc & s1 & _ & _ & _ & _ & _ & _ & _ & M & A & _).
        unfold admin_rec, meta_of in *. rewrite M, A in Ch. destruct Ch as [Ch|[_ Ch]]; apply Ch; auto.
      + exfalso.
        destruct (wasm_burn_effect _ _ addr_of_empty str_of_parses _ _ _ _ _ _ _ P) as (_ & _ & _ & _ & _ & M & A & _).
        unfold admin_rec, meta_of in *. rewrite M, A in Ch. destruct Ch as [Ch|[_ Ch]]; apply Ch; auto.
      + pose proof (wasm_only_admin _ _ addr_of_empty str_of_parses _ _ _ _ _ d0 P eq_refl) as OA.
        unfold perform in P. destruct (addr_of c na) as [a0|]; [|discriminate].
        destruct (deliver _ (st xs) (MChangeAdmin (str_of ct) d0 (str_of a0))) as [s1 [r1|e1]] eqn:D; [|discriminate].
        inversion P; subst. destruct (change_admin_spec _ addr_of_empty _ _ _ _ _ _ D) as (_ & _ & ->).
        simpl in Ch. rewrite admin_rec_set_admin in Ch.
        destruct (String.eqb d d0) eqn:E.
        * apply String.eqb_eq in E. subst d0. rewrite Hadm in OA. inversion OA. reflexivity.
        * exfalso. destruct Ch as [Ch|[_ Ch]]; apply Ch; auto.
      + pose proof (wasm_only_admin _ _ addr_of_empty str_of_parses _ _ _ _ _ d0 P eq_refl) as OA.
        unfold perform in P. destruct (perform_set_meta (st xs) (str_of ct) d0 base valid tag) as [s1|] eqn:PM; [|discriminate].
        inversion P; subst. apply perform_set_meta_ok in PM as (_ & _ & _ & ->).
        simpl in Ch. rewrite meta_of_set_meta in Ch.
        destruct (String.eqb d d0) eqn:E.
        * apply String.eqb_eq in E. subst d0. rewrite Hadm in OA. inversion OA. reflexivity.
        * exfalso. destruct Ch as [Ch|[_ Ch]]; apply Ch; auto.
    - exfalso. unfold xstep, Chain.xstep in Ch. cbn [Chain.xstep_out] in Ch. unfold update_params in Ch.
      destruct (valid_addr c cr && String.eqb au cr && v);
        [destruct (String.eqb au authority)|]; simpl in Ch; destruct Ch as [Ch|[_ Ch]]; apply Ch; auto.
    - exfalso. unfold xstep, Chain.xstep in Ch. cbn [Chain.xstep_out] in Ch.
      destruct (genesis_roundtrip_effect c str_of str_of_parses xs X) as (xs' & G & A & _).
      rewrite G in Ch. cbn [fst] in Ch. rewrite A in Ch. destruct Ch as [Ch|[Ch _]]; apply Ch; auto.
  Qed.
End XControl.

(** ---- whole transactions through the ante decorator ---- *)
Section TxFacts.
  Variable c : cfg.
  Variable str_of : acct -> string.
  Variable authority : string.
  Hypothesis addr_of_empty : addr_of c EmptyString = None.
  Hypothesis str_of_parses : forall a, addr_of c (str_of a) = Some a.

  Let xrun := xrun c str_of authority.
  Let msg_step := msg_step c str_of authority.
  Let run_msgs := run_msgs c str_of authority.
  Let deliver_tx := deliver_tx c str_of authority.

  Definition ops_of (tx : list tmsg) : list xop := map (fun t => XBase (OMsg (fst t))) tx.

  Lemma ops_of_honest tx : Forall honest (ops_of tx).
  Proof. induction tx; constructor; simpl; auto. Qed.

  Lemma run_msgs_app pre post : forall xs xs',
    run_msgs xs (pre ++ post) = Ok xs' ->
    exists xi, run_msgs xs pre = Ok xi /\ run_msgs xi post = Ok xs' /\ xi = xrun (ops_of pre) xs.
  Proof.
    induction pre as [|t r IH]; intros xs xs' H.
    - exists xs. auto.
    - simpl in H. unfold run_msgs in H. simpl in H. fold run_msgs in H.
      destruct (Chain.msg_step c str_of authority xs (fst t)) as [x1 [r1|e1]] eqn:S; [|discriminate].
      destruct (IH _ _ H) as (xi & H1 & H2 & H3). exists xi. split; [|split; [exact H2|]].
      + unfold run_msgs. simpl. rewrite S. exact H1.
      + rewrite H3. unfold xrun, Chain.xrun. simpl. unfold Chain.xstep.
        unfold Chain.msg_step in S. rewrite S. reflexivity.
  Qed.

  Lemma run_msgs_is_xrun tx xs xs' : run_msgs xs tx = Ok xs' -> xs' = xrun (ops_of tx) xs.
  Proof.
    intros H. rewrite <- (app_nil_r tx) in H. destruct (run_msgs_app _ _ _ _ H) as (xi & _ & H2 & H3).
    simpl in H2. inversion H2; subst. reflexivity.
  Qed.

  Lemma deliver_tx_err xs g tx xs' e : deliver_tx xs g tx = (xs', Err e) -> xs' = xs.
  Proof.
    unfold deliver_tx, Chain.deliver_tx.
    destruct (negb (forallb (tvalid c xs) tx)); [intros H; inversion H; reflexivity|].
    destruct (negb (ante_tx c str_of g tx)); [intros H; inversion H; reflexivity|].
    destruct (Chain.run_msgs c str_of authority xs tx); intros H; inversion H; reflexivity.
  Qed.

  Lemma ante_msg_authorised g t : ante_msg c str_of g t = true -> creator_authorised c g t.
  Proof.
    unfold ante_msg. intros H. apply orb_true_iff in H as [H|H].
    - unfold signed_by_creator in H. apply existsb_exists in H as (sg & Hin & E).
      destruct (addr_of c sg) as [a|] eqn:A; [|discriminate]. apply String.eqb_eq in E.
      exists sg, a. split; [exact Hin|]. split; [exact A|]. left. rewrite <- E. apply str_of_parses.
    - unfold fee_granted in H. destruct (addr_of c (sender (fst t))) as [gr|] eqn:G; [|discriminate].
      apply existsb_exists in H as (sg & Hin & E). destruct (addr_of c sg) as [ge|] eqn:A; [|discriminate].
      apply existsb_exists in E as ([p1 p2] & Hp & E). simpl in E. apply andb_true_iff in E as [E1 E2].
      apply Z.eqb_eq in E1, E2. subst. exists sg, ge. split; [exact Hin|]. split; [exact A|]. right. eauto.
  Qed.

  (** Only the admin, at transaction level.  In a delivered transaction EVERY message — wherever it
      stands in the transaction — has a creator who is one of the accounts whose signature the SDK
      verified for it, or who fee-granted one of them; and when the message is privileged, that
      creator is the stored admin of its denom at the moment the message runs.  The whole
      transaction is an honest history of delivered messages. *)
  Theorem tx_only_admin_acts xs g tx xs' r :
    deliver_tx xs g tx = (xs', Ok r) ->
    xs' = xrun (ops_of tx) xs /\
    forall pre t post, tx = pre ++ t :: post ->
      creator_authorised c g t /\
      forall d, privileged (fst t) = Some d ->
        admin_rec (st (xrun (ops_of pre) xs)) d = Some (sender (fst t)) /\
        exists acc, addr_of c (sender (fst t)) = Some acc.
  Proof.
    unfold deliver_tx, Chain.deliver_tx.
    destruct (negb (forallb (tvalid c xs) tx)); [discriminate|].
    destruct (negb (ante_tx c str_of g tx)) eqn:A; [discriminate|].
    destruct (Chain.run_msgs c str_of authority xs tx) as [x1|e] eqn:R; [|discriminate].
    intros H; inversion H; subst; clear H. split; [exact (run_msgs_is_xrun _ _ _ R)|].
    intros pre t post ->. split.
    - apply negb_false_iff in A. unfold ante_tx in A. rewrite forallb_forall in A.
      apply ante_msg_authorised, A. apply in_or_app. right. left. reflexivity.
    - intros d P. destruct (run_msgs_app _ _ _ _ R) as (xi & _ & H2 & ->).
      unfold run_msgs in H2. simpl in H2.
      destruct (Chain.msg_step c str_of authority (xrun (ops_of pre) xs) (fst t)) as [x2 [r2|e2]] eqn:S; [|discriminate].
      unfold Chain.msg_step in S.
      apply (xonly_admin_acts c str_of authority addr_of_empty str_of_parses _ _ _ _ (sender (fst t)) d S).
      simpl. rewrite P. reflexivity.
  Qed.

  (** every transaction-level history is an honest message-level history: the invariants and the
      accounting theorems of the extended chain carry over *)
  Theorem trun_is_honest_history ts : forall xs, Forall (thonest) ts ->
    exists ops, Forall honest ops /\ trun c str_of authority ts xs = xrun ops xs.
  Proof.
    induction ts as [|t r IH]; intros xs F; [exists []; split; [constructor|reflexivity]|].
    inversion F as [|? ? Ht Fr]; subst.
    assert (Hstep : exists ops1, Forall honest ops1 /\ tstep c str_of authority xs t = xrun ops1 xs).
    { destruct t as [o|g tx]; simpl in Ht.
      - exists [o]. split; [constructor; [exact Ht|constructor]|reflexivity].
      - unfold tstep, tstep_out. destruct (Chain.deliver_tx c str_of authority xs g tx) as [x1 [r1|e1]] eqn:D.
        + exists (ops_of tx). split; [apply ops_of_honest|]. exact (proj1 (tx_only_admin_acts _ _ _ _ _ D)).
        + apply deliver_tx_err in D. subst. exists []. split; [constructor|reflexivity]. }
    destruct Hstep as (ops1 & H1 & E1). destruct (IH (tstep c str_of authority xs t) Fr) as (ops2 & H2 & E2).
    exists (ops1 ++ ops2). split; [apply Forall_app; auto|].
    change (trun c str_of authority (t :: r) xs) with (trun c str_of authority r (tstep c str_of authority xs t)).
    rewrite E2, E1. unfold xrun, Chain.xrun. rewrite fold_left_app. reflexivity.
  Qed.

  Corollary xwf_trun ts xs : Forall thonest ts -> xwf c xs -> xwf c (trun c str_of authority ts xs).
  Proof.
    intros F X. destruct (trun_is_honest_history ts xs F) as (ops & H & ->).
    apply (xwf_run c str_of authority addr_of_empty str_of_parses); assumption.
  Qed.
End TxFacts.

(** ---- non-vacuity and witnesses ---- *)
Module XEx.
  Open Scope string_scope.
  (** accounts: alice 1, bob 2, contract 7 ("contract7"), gov 9, module accounts 100 / 101; "ALICE"
      is another spelling of alice; every other account id n is written in unary ("p" or "n" and |n|
      times "x"), so that String() of EVERY account parses back to it. *)
  Fixpoint xs_of (n : nat) : string := match n with O => "" | S k => String "x" (xs_of k) end.
  Fixpoint count_x (s : string) : option nat :=
    match s with
    | "" => Some O
    | String ch r => if Ascii.eqb ch "x" then option_map S (count_x r) else None
    end.
  Definition unary (a : acct) : string :=
    if (a <? 0)%Z then String "n" (xs_of (Z.to_nat (- a))) else String "p" (xs_of (Z.to_nat a)).
  Definition of_unary (s : string) : option acct :=
    match s with
    | String ch r =>
      if Ascii.eqb ch "p" then option_map Z.of_nat (count_x r)
      else if Ascii.eqb ch "n" then
        match count_x r with Some (S k) => Some (- Z.of_nat (S k))%Z | _ => None end
      else None
    | "" => None
    end.
  Definition addr (s : string) : option acct :=
    if String.eqb s "alice" then Some 1%Z else if String.eqb s "ALICE" then Some 1%Z
    else if String.eqb s "bob" then Some 2%Z else if String.eqb s "contract7" then Some 7%Z
    else if String.eqb s "gov" then Some 9%Z else if String.eqb s "modtf" then Some 100%Z
    else if String.eqb s "moddistr" then Some 101%Z else of_unary s.
  Definition name (a : acct) : string :=
    if (a =? 1)%Z then "alice" else if (a =? 2)%Z then "bob" else if (a =? 7)%Z then "contract7"
    else if (a =? 9)%Z then "gov" else if (a =? 100)%Z then "modtf" else if (a =? 101)%Z then "moddistr"
    else unary a.

  Lemma count_xs n : count_x (xs_of n) = Some n.
  Proof. induction n as [|k IH]; [reflexivity|]. simpl. rewrite IH. reflexivity. Qed.
  Lemma of_unary_unary a : of_unary (unary a) = Some a.
  Proof.
    unfold unary. destruct (a <? 0)%Z eqn:E.
    - apply Z.ltb_lt in E. simpl. rewrite count_xs.
      destruct (Z.to_nat (- a)) as [|k] eqn:N; [lia|]. f_equal. lia.
    - apply Z.ltb_ge in E. simpl. rewrite count_xs. simpl. f_equal. lia.
  Qed.
  Lemma addr_unary a : addr (unary a) = of_unary (unary a).
  Proof. unfold unary. destruct (a <? 0)%Z; reflexivity. Qed.

  Definition cf : cfg :=
    {| addr_of := addr; mod_tf := 100; mod_distr := 101;
       blocked := fun a => Z.eqb a 100 || Z.eqb a 101; fee := [] |}.
  Definition dc : denom := "factory/contract7/foo".
  Definition da : denom := "factory/ALICE/up".
  Definition ops : list xop :=
    [ XBase (OXMint 7 "ugrain" 50); XBase (OXMint 1 "ugrain" 50);
      XWasm 7 (WCreate "foo" (Some ("", true, 11)));       (* fee 10 ugrain, paid by the contract *)
      XWasm 7 (WMint dc 9 "bob");                           (* bob +9, contract +0 *)
      XWasm 7 (WMint dc 5 "contract7");
      XWasm 7 (WBurn dc 2 "");
      XWasm 7 (WBurn dc 1 "bob");                           (* refused: not the contract's own coins *)
      XWasm 2 (WMint dc 1 "bob");                           (* refused: bob is not the admin *)
      XWasm 7 (WSetMeta dc "ugrain" true 12);               (* refused: Base differs *)
      XWasm 7 (WSetMeta dc "" true 12);
      XParams "alice" "alice" [] true;                      (* refused: alice is not the authority *)
      XParams "gov" "gov" [("ugrain", 3)] true;
      XBase (OMsg (MCreate "ALICE" "up"));                  (* fee 3 ugrain now, indexed under "ALICE" *)
      XBase (OMsg (MSetMeta "ALICE" da true 42));
      XWasm 7 (WChangeAdmin dc "alice");
      XWasm 7 (WMint dc 1 "bob");                           (* refused: handed over *)
      XBase (OMsg (MMint "alice" dc 4));
      XGenesis;
      XBase (OMsg (MMint "ALICE" da 6))                     (* the admin string survived as written *)
    ].
  Definition x0 : xstate := empty_xstate [("ugrain", 10)].
  Definition final : xstate := Chain.xrun cf name "gov" ops x0.

  Example laws : addr_of cf "" = None /\ forall a, addr_of cf (name a) = Some a.
  Proof.
    split; [reflexivity|]. intros a. simpl. unfold name.
    destruct (a =? 1)%Z eqn:E1; [apply Z.eqb_eq in E1; subst; reflexivity|].
    destruct (a =? 2)%Z eqn:E2; [apply Z.eqb_eq in E2; subst; reflexivity|].
    destruct (a =? 7)%Z eqn:E7; [apply Z.eqb_eq in E7; subst; reflexivity|].
    destruct (a =? 9)%Z eqn:E9; [apply Z.eqb_eq in E9; subst; reflexivity|].
    destruct (a =? 100)%Z eqn:E100; [apply Z.eqb_eq in E100; subst; reflexivity|].
    destruct (a =? 101)%Z eqn:E101; [apply Z.eqb_eq in E101; subst; reflexivity|].
    rewrite addr_unary. apply of_unary_unary.
  Qed.

  (** the invariant holds along the whole example history (hypotheses of the genesis theorems) *)
  Example final_xwf : xwf cf final /\ xwf cf (Chain.xrun cf name "gov" (firstn 17 ops) x0).
  Proof.
    destruct laws as [L1 L2].
    split; apply (xwf_run cf name "gov" L1 L2); try apply xwf_empty; repeat constructor.
  Qed.

  Example outcomes :
    map (fun k => Chain.xsucceeded cf name "gov" (Chain.xrun cf name "gov" (firstn k ops) x0) (nth k ops XGenesis))
        (seq 0 (List.length ops))
    = [true; true; true; true; true; true; false; false; false; true; false; true; true; true; true; false; true; true; true].
  Proof. vm_compute. reflexivity. Qed.

  Example honest_ops : Forall honest ops.
  Proof. repeat constructor. Qed.

  Example final_ledger :
    supply (led (st final)) dc = 16 /\ bal (led (st final)) 2 dc = 9 /\ bal (led (st final)) 7 dc = 3 /\
    bal (led (st final)) 1 dc = 4 /\ bal (led (st final)) 100 dc = 0 /\
    xtotal cf name "gov" (xminted cf name "gov" dc) ops x0 = 18 /\
    xtotal cf name "gov" (xburned cf name "gov" dc) ops x0 = 2 /\
    xtotal cf name "gov" (xext cf dc) ops x0 = 0 /\
    bal (led (st final)) 7 "ugrain" = 40 /\ bal (led (st final)) 1 "ugrain" = 47 /\
    bal (led (st final)) 101 "ugrain" = 13 /\ pool_of final "ugrain" = 13 /\ supply (led (st final)) "ugrain" = 100.
  Proof. vm_compute. repeat split. Qed.

  (** the genesis round trip kept both admins (one written in upper case), reset the metadata that
      the two admins had set (12 and 42) to the bare one, and re-keyed the index canonically *)
  Example final_control :
    admin_rec (st final) dc = Some "alice" /\ admin_rec (st final) da = Some "ALICE" /\
    meta_of (st final) dc = Some 0 /\ meta_of (st final) da = Some 0 /\
    meta_of (st (Chain.xrun cf name "gov" (firstn 17 ops) x0)) dc = Some 12 /\
    meta_of (st (Chain.xrun cf name "gov" (firstn 17 ops) x0)) da = Some 42 /\
    denoms_of (Chain.xrun cf name "gov" (firstn 17 ops) x0) "ALICE" = [da] /\
    denoms_of final "ALICE" = [] /\ denoms_of final "alice" = [da] /\ denoms_of final "contract7" = [dc] /\
    params final = [("ugrain", 3)] /\
    Chain.xcreated cf name "gov" ops x0 = [dc; da].
  Proof. vm_compute. repeat split. Qed.

  (** the raw msg server accepts the EMPTY creator against the empty admin of a denom nobody created
      (and of a renounced one) — ValidateBasic in front of it is what refuses it *)
  Definition never : denom := "factory/alice/never".
  Example raw_accepts_empty_creator :
    admin_rec empty_state never = None /\
    (exists s', raw cf empty_state (MChangeAdmin "" never "bob") = (s', Ok "") /\ admin_rec s' never = Some "bob") /\
    deliver cf empty_state (MChangeAdmin "" never "bob") = (empty_state, Err EValidate) /\
    deliver_raw cf empty_state (MChangeAdmin "" never "bob") = (empty_state, Err EValidate).
  Proof. split; [reflexivity|]. split; [eexists; split; reflexivity|]. split; reflexivity. Qed.

  (** a failed raw Mint by a blocked admin leaves 7 on the module account and in the supply;
      delivered, the same message leaves nothing *)
  Definition sblk : state :=
    st (Chain.xrun cf name "gov"
          [XBase (OMsg (MCreate "alice" "blk")); XBase (OMsg (MChangeAdmin "alice" "factory/alice/blk" "modtf"))]
          (empty_xstate [])).
  Example raw_mint_dirty :
    let m := MMint "modtf" "factory/alice/blk" 7 in
    snd (raw cf sblk m) = Err EBlocked /\
    supply (led (fst (raw cf sblk m))) "factory/alice/blk" = 7 /\
    bal (led (fst (raw cf sblk m))) 100 "factory/alice/blk" = 7 /\
    deliver cf sblk m = (sblk, Err EBlocked).
  Proof. vm_compute. repeat split. Qed.
  (** the transaction seeded change C16-L lets through: signed by bob only; bob's own create first, then
      a ChangeAdmin in ALICE's name.  The decorator refuses it (alice neither signed nor granted); the
      handlers alone would hand alice's denom to bob; with a fee grant alice -> bob it is delivered. *)
  Definition s17 : xstate := Chain.xrun cf name "gov" (firstn 17 ops ++ [XParams "gov" "gov" [] true]) x0.
  Definition evil : list tmsg :=
    [ (MCreate "bob" "mine", ["bob"]); (MChangeAdmin "alice" dc "bob", ["bob"]) ].
  Example tx_ante_needed :
    admin_rec (st s17) dc = Some "alice" /\
    deliver_tx cf name "gov" s17 [] evil = (s17, Err EAnte) /\
    (exists x', run_msgs cf name "gov" s17 evil = Ok x' /\ admin_rec (st x') dc = Some "bob") /\
    (exists x', deliver_tx cf name "gov" s17 [(1, 2)] evil = (x', Ok "") /\ admin_rec (st x') dc = Some "bob") /\
    ante_msg cf name [] (MCreate "bob" "mine", ["bob"]) = true.
  Proof.
    split; [vm_compute; reflexivity|]. split; [vm_compute; reflexivity|].
    split; [eexists; split; vm_compute; reflexivity|].
    split; [eexists; split; vm_compute; reflexivity|vm_compute; reflexivity].
  Qed.
End XEx.
