(** C16 — lemmas about the denom codec (Denom.v): strings.Split / strings.Join on "/",
    factory/<creator>/<sub> is injective in (creator, sub) when the creator has no '/',
    DeconstructDenom inverts GetTokenDenom, and what a denom that deconstructs looks like. *)
From Coq Require Import List ZArith Bool String Ascii Lia.
From Paloma Require Import TokenFactory.Ledger TokenFactory.Denom.
Import ListNotations.
Open Scope Z_scope.

Definition slash : ascii := "/"%char.

Lemma is_slash_spec c : is_slash c = true <-> c = slash.
Proof.
  destruct c as [[] [] [] [] [] [] [] []]; simpl; split; intros H; try discriminate; reflexivity.
Qed.

Lemma is_slash_slash : is_slash slash = true.
Proof. reflexivity. Qed.

Lemma split_slash_nonempty s : split_slash s <> [].
Proof.
  destruct s as [|ch r]; simpl; [discriminate|].
  destruct (is_slash ch); [discriminate|]. destruct (split_slash r); discriminate.
Qed.

Lemma contains_slash_app a b : contains_slash (a ++ b) = contains_slash a || contains_slash b.
Proof.
  unfold contains_slash. induction a as [|ch r IH]; simpl; [reflexivity|].
  rewrite IH. apply orb_assoc.
Qed.

(** Split on a string whose first segment [a] has no '/'. *)
Lemma split_slash_app a r :
  contains_slash a = false -> split_slash (a ++ String slash r) = a :: split_slash r.
Proof.
  unfold contains_slash. induction a as [|ch a IH]; simpl; intros H.
  - reflexivity.
  - apply orb_false_iff in H as [H1 H2]. rewrite H1, (IH H2). reflexivity.
Qed.

Lemma split_slash_no_slash a : contains_slash a = false -> split_slash a = [a].
Proof.
  unfold contains_slash. induction a as [|ch a IH]; simpl; intros H; [reflexivity|].
  apply orb_false_iff in H as [H1 H2]. rewrite H1, (IH H2). reflexivity.
Qed.

(** strings.Join(strings.Split(s, "/"), "/") = s *)
Lemma join_split s : join_slash (split_slash s) = s.
Proof.
  induction s as [|ch r IH]; [reflexivity|]. simpl.
  destruct (split_slash r) as [|h t] eqn:E2; [exfalso; exact (split_slash_nonempty r E2)|].
  destruct (is_slash ch) eqn:E.
  - apply is_slash_spec in E; subst ch.
    change (join_slash (EmptyString :: h :: t)) with (String slash (join_slash (h :: t))).
    rewrite IH. reflexivity.
  - destruct t as [|h2 t2].
    + simpl in IH |- *. rewrite IH. reflexivity.
    + change (join_slash (String ch h :: h2 :: t2)) with (String ch (h ++ String slash (join_slash (h2 :: t2)))).
      change (join_slash (h :: h2 :: t2)) with (h ++ String slash (join_slash (h2 :: t2)))%string in IH.
      rewrite IH. reflexivity.
Qed.

Lemma split_parts_no_slash s : Forall (fun p => contains_slash p = false) (split_slash s).
Proof.
  induction s as [|ch r IH]; simpl.
  - constructor; [reflexivity|constructor].
  - destruct (is_slash ch) eqn:E.
    + constructor; [reflexivity|exact IH].
    + destruct (split_slash r) as [|h t]; [constructor; [|constructor]|].
      * unfold contains_slash; simpl. rewrite E. reflexivity.
      * inversion IH; subst. constructor; [|assumption].
        unfold contains_slash in *; simpl. rewrite E. assumption.
Qed.

Lemma join_cons2 x y r : join_slash (x :: y :: r) = (x ++ String slash (join_slash (y :: r)))%string.
Proof. reflexivity. Qed.

Lemma prefix_no_slash : contains_slash module_denom_prefix = false.
Proof. reflexivity. Qed.

Lemma split_construct cr sub :
  contains_slash cr = false ->
  split_slash (construct cr sub) = module_denom_prefix :: cr :: split_slash sub.
Proof.
  intros H. unfold construct.
  rewrite (split_slash_app _ _ prefix_no_slash), (split_slash_app _ _ H). reflexivity.
Qed.

(** factory/<creator>/<sub> determines creator and sub: two creators' namespaces are disjoint. *)
Theorem construct_injective c1 s1 c2 s2 :
  contains_slash c1 = false -> contains_slash c2 = false ->
  construct c1 s1 = construct c2 s2 -> c1 = c2 /\ s1 = s2.
Proof.
  intros H1 H2 E. apply (f_equal split_slash) in E.
  rewrite (split_construct _ _ H1), (split_construct _ _ H2) in E.
  injection E as Ec Es. split; [exact Ec|].
  rewrite <- (join_split s1), <- (join_split s2), Es. reflexivity.
Qed.

Lemma get_token_denom_ok cr sub d :
  get_token_denom cr sub = Ok d ->
  d = construct cr sub /\ contains_slash cr = false /\ validate_denom d = true /\
  slen sub <= max_subdenom_length /\ slen cr <= max_creator_length.
Proof.
  unfold get_token_denom.
  destruct (max_subdenom_length <? slen sub) eqn:E1; [discriminate|].
  destruct (max_creator_length <? slen cr) eqn:E2; [discriminate|].
  destruct (contains_slash cr) eqn:E3; [discriminate|].
  destruct (validate_denom (construct cr sub)) eqn:E4; [|discriminate].
  intros H; inversion H; subst d. apply Z.ltb_ge in E1, E2. auto.
Qed.

Section Deconstruct.
  Variable addr_of : string -> option acct.

  Lemma deconstruct_of_construct cr sub a :
    contains_slash cr = false -> validate_denom (construct cr sub) = true -> addr_of cr = Some a ->
    deconstruct addr_of (construct cr sub) = Some (a, sub).
  Proof.
    intros Hs Hv Ha. unfold deconstruct. rewrite Hv, (split_construct _ _ Hs).
    destruct (split_slash sub) as [|p2 rest] eqn:E; [exfalso; exact (split_slash_nonempty sub E)|].
    rewrite String.eqb_refl, Ha, <- E, join_split. reflexivity.
  Qed.

  (** DeconstructDenom (GetTokenDenom (creator, sub)) = (creator's account, sub) *)
  Theorem deconstruct_construct cr sub d a :
    get_token_denom cr sub = Ok d -> addr_of cr = Some a ->
    deconstruct addr_of d = Some (a, sub).
  Proof.
    intros G Ha. apply get_token_denom_ok in G as (-> & Hs & Hv & _).
    now apply deconstruct_of_construct.
  Qed.

  (** A denom that deconstructs is factory/<creator>/<sub> for a creator that is a valid address
      (and therefore, GetTokenDenom's own check, without '/'). *)
  Theorem deconstruct_shape d a sub :
    deconstruct addr_of d = Some (a, sub) ->
    exists cr, d = construct cr sub /\ addr_of cr = Some a /\ contains_slash cr = false /\
               validate_denom d = true.
  Proof.
    unfold deconstruct. destruct (validate_denom d) eqn:Hv; [|discriminate].
    pose proof (join_split d) as J. pose proof (split_parts_no_slash d) as F.
    destruct (split_slash d) as [|p0 [|p1 [|p2 rest]]]; try discriminate.
    destruct (String.eqb p0 module_denom_prefix) eqn:E0; [|discriminate].
    apply String.eqb_eq in E0; subst p0.
    destruct (addr_of p1) as [a1|] eqn:Ea; [|discriminate].
    intros H; inversion H; subst a1 sub. exists p1.
    inversion F as [|? ? _ F1]; subst. inversion F1 as [|? ? Hp1 _]; subst.
    split; [|split; [exact Ea|split; [exact Hp1|reflexivity]]].
    rewrite join_cons2, join_cons2. reflexivity.
  Qed.
End Deconstruct.
