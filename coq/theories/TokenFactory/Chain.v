(** C16, second round — the parts of x/tokenfactory around the five delivered messages of Factory.v:

    * the RAW msg server ([raw]): the handler as a Go function, without ValidateBasic and without
      the cache context of the caller — it returns the state it leaves behind also when it fails;
      [Factory.deliver] is proved to be  ValidateBasic ;; commit-on-success ([raw])  (ChainProofs);
    * the wasm bindings of x/tokenfactory/bindings/msg_plugin.go ([perform]): PerformCreateDenom
      (with the optional metadata), PerformMint (mint to the contract, then bank.SendCoins to
      [mint_to_address]), PerformBurn, ChangeAdmin, PerformSetMetadata — a contract is the sender;
      each runs under wasmd's commit-on-success cache context;
    * the module parameters: Params.DenomCreationFee is STATE ([params]) changed by MsgUpdateParams
      (authority only); the fee charged by a create is the one in force at that moment, paid by the
      creator into the distribution module account and booked in the community pool ([pool]);
    * the creator -> denoms index ([index], keeper.addDenomFromCreator / GetDenomsFromCreator /
      GetAllDenomsIterator);
    * genesis: ExportGenesis ([export]) and InitGenesis ([import_all]); [genesis_roundtrip] is an
      export followed by an import into an emptied tokenfactory store next to the same bank state
      (bank's InitGenesis runs before tokenfactory's, app.go SetOrderInitGenesis).

    Two more facts about sdk.AccAddress are used: [str_of] is AccAddress.String() (bech32 of the
    bytes).  Definitions only; proofs are in ChainProofs.v. *)
From Coq Require Import List ZArith Bool String.
From Paloma Require Import TokenFactory.Ledger TokenFactory.Denom TokenFactory.Factory.
Import ListNotations.
Open Scope Z_scope.

(** ---- ledger primitives that keep what was written before a failure ---- *)

Definition dres := (ledger * option err)%type.

Definition project (r : dres) : res ledger :=
  match r with (l, None) => Ok l | (_, Some e) => Err e end.

Definition raw_mint_coins (l : ledger) (m : acct) (d : denom) (x : Z) : dres :=
  match add_bal l m d x with
  | Err e => (l, Some e)
  | Ok l1 => let v := supply l1 d + x in
             if v <=? max_int then (set_sup l1 d v, None) else (l1, Some EPanic)
  end.

Definition raw_burn_coins (l : ledger) (m : acct) (d : denom) (x : Z) : dres :=
  match sub_bal l m d x with
  | Err e => (l, Some e)
  | Ok l1 => let v := supply l1 d - x in
             if 0 <=? v then (set_sup l1 d v, None) else (l1, Some EPanic)
  end.

Definition raw_send (l : ledger) (f t : acct) (d : denom) (x : Z) : dres :=
  match sub_bal l f d x with
  | Err e => (l, Some e)
  | Ok l1 => match add_bal l1 t d x with
             | Err e => (l1, Some e)
             | Ok l2 => (l2, None)
             end
  end.

Fixpoint raw_sub_coins (l : ledger) (a : acct) (cs : list (denom * Z)) : dres :=
  match cs with
  | [] => (l, None)
  | (d, x) :: r => match sub_bal l a d x with
                   | Err e => (l, Some e)
                   | Ok l1 => raw_sub_coins l1 a r
                   end
  end.
Fixpoint raw_add_coins (l : ledger) (a : acct) (cs : list (denom * Z)) : dres :=
  match cs with
  | [] => (l, None)
  | (d, x) :: r => match add_bal l a d x with
                   | Err e => (l, Some e)
                   | Ok l1 => raw_add_coins l1 a r
                   end
  end.
Definition raw_send_coins (l : ledger) (f t : acct) (cs : list (denom * Z)) : dres :=
  match raw_sub_coins l f cs with
  | (l1, Some e) => (l1, Some e)
  | (l1, None) => raw_add_coins l1 t cs
  end.

(** Σ of the amounts a coin list gives for one denomination *)
Fixpoint amt_of (cs : list (denom * Z)) (d : denom) : Z :=
  match cs with
  | [] => 0
  | (d', x) :: r => (if String.eqb d d' then x else 0) + amt_of r d
  end.

Definition with_fee (c : cfg) (f : list (denom * Z)) : cfg :=
  {| addr_of := addr_of c; mod_tf := mod_tf c; mod_distr := mod_distr c; blocked := blocked c; fee := f |}.

(** ---- the raw msg server ---- *)
Section Raw.
  Variable c : cfg.

  (** keeper.mintTo / burnFrom / CreateDenom and the five handlers, statement by statement; the
      first component is the state the Go function leaves in the context it was given.
      sdk.NewCoins(amount) panics on a negative amount (after DeconstructDenom, before any write). *)
  Definition raw (s : state) (m : msg) : state * res string :=
    match m with
    | MCreate cr sub =>
      if has_supply (led s) sub then (s, Err EHasSupply)
      else match get_token_denom cr sub with
      | Err e => (s, Err e)
      | Ok d =>
        match meta_of s d with
        | Some _ => (s, Err EExists)
        | None =>
          match addr_of c cr with
          | None => (s, Err EAddr)
          | Some a =>
            match (match fee c with
                   | [] => (led s, None)
                   | cs => raw_send_coins (led s) a (mod_distr c) cs
                   end) with
            | (l1, Some e) => (with_led s l1, Err e)
            | (l1, None) => (set_admin (set_meta (with_led s l1) d 0) d cr, Ok d)
            end
          end
        end
      end
    | MMint cr d x =>
      match meta_of s d with
      | None => (s, Err ENotExist)
      | Some _ =>
        if String.eqb cr (admin_str s d) then
          match deconstruct (addr_of c) d with
          | None => (s, Err EInvalidDenom)
          | Some _ =>
            if x <? 0 then (s, Err EPanic) else
            match raw_mint_coins (led s) (mod_tf c) d x with
            | (l1, Some e) => (with_led s l1, Err e)
            | (l1, None) =>
              match addr_of c cr with
              | None => (with_led s l1, Err EAddr)
              | Some a =>
                if blocked c a then (with_led s l1, Err EBlocked)
                else match raw_send l1 (mod_tf c) a d x with
                     | (l2, Some e) => (with_led s l2, Err e)
                     | (l2, None) => (with_led s l2, Ok EmptyString)
                     end
              end
            end
          end
        else (s, Err EUnauthorized)
      end
    | MBurn cr d x =>
      if String.eqb cr (admin_str s d) then
        match deconstruct (addr_of c) d with
        | None => (s, Err EInvalidDenom)
        | Some _ =>
          match addr_of c cr with
          | None => (s, Err EAddr)
          | Some a =>
            if x <? 0 then (s, Err EPanic) else
            match raw_send (led s) a (mod_tf c) d x with
            | (l1, Some e) => (with_led s l1, Err e)
            | (l1, None) =>
              match raw_burn_coins l1 (mod_tf c) d x with
              | (l2, Some e) => (with_led s l2, Err e)
              | (l2, None) => (with_led s l2, Ok EmptyString)
              end
            end
          end
        end
      else (s, Err EUnauthorized)
    | MChangeAdmin cr d na =>
      if String.eqb cr (admin_str s d) then
        if String.eqb na EmptyString || valid_addr c na
        then (set_admin s d na, Ok EmptyString) else (s, Err EAddr)
      else (s, Err EUnauthorized)
    | MSetMeta cr b ok tag =>
      if ok then
        if String.eqb cr (admin_str s b)
        then (set_meta s b tag, Ok EmptyString)
        else (s, Err EUnauthorized)
      else (s, Err EMeta)
    end.

  (** what a caller makes of it: ValidateBasic, then the raw handler, kept only on success *)
  Definition deliver_raw (s : state) (m : msg) : state * res string :=
    if validate_basic c m then
      match raw s m with
      | (s', Ok r) => (s', Ok r)
      | (_, Err e) => (s, Err e)
      end
    else (s, Err EValidate).
End Raw.

(** ---- the chain around the msg server ---- *)

Record xstate := {
  st : state;
  params : list (denom * Z);       (* Params.DenomCreationFee *)
  index : list (string * denom);   (* store keys creator|<creator>|<denom> *)
  pool : list (denom * Z)          (* distribution FeePool.CommunityPool, per denom *)
}.

Definition empty_xstate (f : list (denom * Z)) : xstate :=
  {| st := empty_state; params := f; index := []; pool := [] |}.

Definition with_st (xs : xstate) (s : state) : xstate :=
  {| st := s; params := params xs; index := index xs; pool := pool xs |}.

Definition pair_eqb (a b : string * denom) : bool := String.eqb (fst a) (fst b) && String.eqb (snd a) (snd b).
Definition idx_mem (i : list (string * denom)) (k : string * denom) : bool := existsb (pair_eqb k) i.
(** store.Set(denom, denom) under creator|<creator>| : idempotent *)
Definition idx_add (i : list (string * denom)) (cr : string) (d : denom) : list (string * denom) :=
  if idx_mem i (cr, d) then i else i ++ [(cr, d)].

Definition pool_of (xs : xstate) (d : denom) : Z :=
  match mget String.eqb (pool xs) d with Some v => v | None => 0 end.
Fixpoint pool_add (p : list (denom * Z)) (cs : list (denom * Z)) : list (denom * Z) :=
  match cs with
  | [] => p
  | (d, x) :: r =>
    pool_add (mset String.eqb p d ((match mget String.eqb p d with Some v => v | None => 0 end) + x)) r
  end.

Inductive wmsg :=
| WCreate (sub : string) (md : option (string * bool * Z))  (* metadata: Base as written, Validate(), tag *)
| WMint (d : denom) (x : Z) (to : string)
| WBurn (d : denom) (x : Z) (from : string)
| WChangeAdmin (d : denom) (new_admin : string)
| WSetMeta (d : denom) (base : string) (valid : bool) (tag : Z).

Inductive xop :=
| XBase (o : op)                       (* a delivered message, or something else on the same bank *)
| XRaw (m : msg)                       (* the msg server called as a Go function *)
| XWasm (ct : acct) (w : wmsg)         (* a contract's token_factory_msg through the bindings *)
| XParams (auth creator : string) (newfee : list (denom * Z)) (fee_valid : bool)  (* MsgUpdateParams *)
| XGenesis.                            (* export, empty the tokenfactory store, import *)

Section Chain.
  Variable c : cfg.                    (* its [fee] field is not used here: the fee is [params] *)
  Variable str_of : acct -> string.    (* sdk.AccAddress.String() *)
  Variable authority : string.         (* keeper.authority (the gov module account) *)

  Definition cfg_at (xs : xstate) : cfg := with_fee c (params xs).

  (** createDenomAfterValidation's index write and FundCommunityPool's booking, after a create *)
  Definition after_create (xs : xstate) (s' : state) (cr : string) (d : denom) : xstate :=
    {| st := s'; params := params xs; index := idx_add (index xs) cr d;
       pool := pool_add (pool xs) (params xs) |}.

  (** bindings.PerformSetMetadata *)
  Definition perform_set_meta (s : state) (cs : string) (d : denom) (base : string) (valid : bool) (tag : Z)
    : res state :=
    if negb (String.eqb (admin_str s d) cs) then Err EUnauthorized
    else if negb (String.eqb base EmptyString) && negb (String.eqb base d) then Err EBadReq
    else if valid then Ok (set_meta s d tag) else Err EMeta.

  (** customMessenger.DispatchMsg, under the commit-on-success context of wasmd *)
  Definition perform (xs : xstate) (ct : acct) (w : wmsg) : xstate * res string :=
    let c' := cfg_at xs in
    let cs := str_of ct in
    let s := st xs in
    match w with
    | WCreate sub md =>
      match deliver c' s (MCreate cs sub) with
      | (_, Err e) => (xs, Err e)
      | (s1, Ok d) =>
        match md with
        | None => (after_create xs s1 cs d, Ok d)
        | Some (base, valid, tag) =>
          match perform_set_meta s1 cs d base valid tag with
          | Ok s2 => (after_create xs s2 cs d, Ok d)
          | Err e => (xs, Err e)
          end
        end
      end
    | WMint d x to =>
      match addr_of c to with
      | None => (xs, Err EAddr)
      | Some rc =>
        match deliver c' s (MMint cs d x) with
        | (_, Err e) => (xs, Err e)
        | (s1, Ok _) =>
          match send (led s1) ct rc d x with
          | Ok l2 => (with_st xs (with_led s1 l2), Ok EmptyString)
          | Err e => (xs, Err e)
          end
        end
      end
    | WBurn d x from =>
      if negb (String.eqb from EmptyString) && negb (String.eqb from cs) then (xs, Err EBadReq)
      else match deliver c' s (MBurn cs d x) with
           | (s1, Ok _) => (with_st xs s1, Ok EmptyString)
           | (_, Err e) => (xs, Err e)
           end
    | WChangeAdmin d na =>
      match addr_of c na with
      | None => (xs, Err EAddr)
      | Some a =>
        match deliver c' s (MChangeAdmin cs d (str_of a)) with
        | (s1, Ok _) => (with_st xs s1, Ok EmptyString)
        | (_, Err e) => (xs, Err e)
        end
      end
    | WSetMeta d base valid tag =>
      match perform_set_meta s cs d base valid tag with
      | Ok s1 => (with_st xs s1, Ok EmptyString)
      | Err e => (xs, Err e)
      end
    end.

  (** msgServer.UpdateParams: ValidateBasic (creator and authority parse, authority = creator,
      Params.Validate), then authority = keeper.authority *)
  Definition update_params (xs : xstate) (auth creator : string) (newfee : list (denom * Z)) (fee_valid : bool)
    : xstate * res string :=
    if valid_addr c creator && String.eqb auth creator && fee_valid then
      if String.eqb auth authority
      then ({| st := st xs; params := newfee; index := index xs; pool := pool xs |}, Ok EmptyString)
      else (xs, Err EUnauthorized)
    else (xs, Err EValidate).

  (** ExportGenesis: one GenesisDenom per index entry, with GetAuthorityMetadata of the denom *)
  Definition export (xs : xstate) : list (denom * string) :=
    map (fun p => (snd p, admin_str (st xs) (snd p))) (index xs).

  (** InitGenesis, one GenesisDenom: DeconstructDenom (panic on error), createDenomAfterValidation
      with the CANONICAL creator string (bare bank metadata, admin := creator, index entry), then
      setAuthorityMetadata with the exported admin.  None = panic. *)
  Definition import_one (acc : option (state * list (string * denom))) (g : denom * string)
    : option (state * list (string * denom)) :=
    match acc with
    | None => None
    | Some (s, idx) =>
      let '(d, adm) := g in
      match deconstruct (addr_of c) d with
      | None => None
      | Some (a, _) =>
        let cr := str_of a in
        if valid_addr c cr then
          if String.eqb adm EmptyString || valid_addr c adm
          then Some (set_admin (set_admin (set_meta s d 0) d cr) d adm, idx_add idx cr d)
          else None
        else None
      end
    end.

  Definition import_all (s0 : state) (gs : list (denom * string)) : option (state * list (string * denom)) :=
    fold_left import_one gs (Some (s0, [])).

  (** the bank state (ledger, bank metadata) stays; the tokenfactory store starts empty *)
  Definition wiped (s : state) : state := {| led := led s; metas := metas s; admins := [] |}.

  Definition genesis_roundtrip (xs : xstate) : xstate * res string :=
    match import_all (wiped (st xs)) (export xs) with
    | Some (s', idx') => ({| st := s'; params := params xs; index := idx'; pool := pool xs |}, Ok EmptyString)
    | None => (xs, Err EPanic)
    end.

  Definition xstep_out (xs : xstate) (o : xop) : xstate * res string :=
    match o with
    | XBase (OMsg (MCreate cr sub)) =>
      match deliver (cfg_at xs) (st xs) (MCreate cr sub) with
      | (s', Ok d) => (after_create xs s' cr d, Ok d)
      | (_, Err e) => (xs, Err e)
      end
    | XBase o' =>
      let '(s', r) := step_out (cfg_at xs) (st xs) o' in (with_st xs s', r)
    | XRaw m =>
      match raw (cfg_at xs) (st xs) m, m with
      | (s', Ok d), MCreate cr _ => (after_create xs s' cr d, Ok d)
      | (s', r), _ => (with_st xs s', r)
      end
    | XWasm ct w => perform xs ct w
    | XParams auth creator newfee ok => update_params xs auth creator newfee ok
    | XGenesis => genesis_roundtrip xs
    end.

  Definition xstep (xs : xstate) (o : xop) : xstate := fst (xstep_out xs o).
  Definition xrun (ops : list xop) (xs : xstate) : xstate := fold_left xstep ops xs.
  Definition xsucceeded (xs : xstate) (o : xop) : bool := is_ok (snd (xstep_out xs o)).

  (** histories that contain no raw msg-server call: what the chain can do *)
  Definition honest (o : xop) : Prop := match o with XRaw _ => False | _ => True end.

  (** accounting over an extended history: amounts of [d] minted / burned by successful factory
      messages and bindings, other modules' deltas, and the denoms successful creates returned *)
  Definition xminted (d : denom) (xs : xstate) (o : xop) : Z :=
    match o with
    | XBase (OMsg (MMint _ d' x)) | XRaw (MMint _ d' x) | XWasm _ (WMint d' x _) =>
      if String.eqb d d' && xsucceeded xs o then x else 0
    | _ => 0
    end.
  Definition xburned (d : denom) (xs : xstate) (o : xop) : Z :=
    match o with
    | XBase (OMsg (MBurn _ d' x)) | XRaw (MBurn _ d' x) | XWasm _ (WBurn d' x _) =>
      if String.eqb d d' && xsucceeded xs o then x else 0
    | _ => 0
    end.
  Definition xext (d : denom) (xs : xstate) (o : xop) : Z :=
    match o with
    | XBase o' => ext_delta (cfg_at xs) d (st xs) o'
    | _ => 0
    end.

  Fixpoint xtotal (f : xstate -> xop -> Z) (ops : list xop) (xs : xstate) : Z :=
    match ops with
    | [] => 0
    | o :: r => f xs o + xtotal f r (xstep xs o)
    end.

  Definition is_create (o : xop) : bool :=
    match o with
    | XBase (OMsg (MCreate _ _)) | XRaw (MCreate _ _) | XWasm _ (WCreate _ _) => true
    | _ => false
    end.

  Fixpoint xcreated (ops : list xop) (xs : xstate) : list denom :=
    match ops with
    | [] => []
    | o :: r =>
      match is_create o, snd (xstep_out xs o) with
      | true, Ok d => d :: xcreated r (xstep xs o)
      | _, _ => xcreated r (xstep xs o)
      end
    end.

  (** GetDenomsFromCreator as a set *)
  Definition denoms_of (xs : xstate) (cr : string) : list denom :=
    map snd (filter (fun p => String.eqb (fst p) cr) (index xs)).
End Chain.

(** ---- third round: whole transactions through the signature-authorisation ante decorator ----

    baseapp.runTx: ValidateBasic of every message, then the ante chain — of which
    x/paloma VerifyAuthorisedSignatureDecorator is the ONLY place that ties a message's
    Metadata.Creator (on which the msg server authorises) to the accounts whose signatures the SDK
    verified (Metadata.Signers, cosmos.msg.v1.signer = "metadata") — then the handlers one after the
    other on a cache context committed only when all succeed.

    A message of a transaction: the tokenfactory message and its Metadata.Signers as written.
    Fee grants (x/feegrant, another module) are given with the transaction: (granter, grantee). *)
Definition tmsg := (msg * list string)%type.
Definition grants := list (acct * acct).

Inductive top :=
| TOp (o : xop)
| TTx (g : grants) (tx : list tmsg).

Section Tx.
  Variable c : cfg.
  Variable str_of : acct -> string.
  Variable authority : string.

  (** libmeta.ValidateBasic's part about the signers, then the message's own ValidateBasic *)
  Definition tvalid (xs : xstate) (t : tmsg) : bool :=
    negb (match snd t with [] => true | _ => false end)
    && forallb (valid_addr c) (snd t) && validate_basic (cfg_at c xs) (fst t).

  (** `v.String() == creator` for some signer v *)
  Definition signed_by_creator (t : tmsg) : bool :=
    existsb (fun sg => match addr_of c sg with
                       | Some a => String.eqb (str_of a) (sender (fst t))
                       | None => false end) (snd t).

  (** some signer holds a fee allowance granted by the creator *)
  Definition fee_granted (g : grants) (t : tmsg) : bool :=
    match addr_of c (sender (fst t)) with
    | None => false
    | Some gr =>
      existsb (fun sg => match addr_of c sg with
                         | Some ge => existsb (fun p => (fst p =? gr) && (snd p =? ge)) g
                         | None => false end) (snd t)
    end.

  Definition ante_msg (g : grants) (t : tmsg) : bool := signed_by_creator t || fee_granted g t.

  (** the decorator's loop: EVERY message of the transaction *)
  Definition ante_tx (g : grants) (tx : list tmsg) : bool := forallb (ante_msg g) tx.

  (** one delivered tokenfactory message on the extended state (= [xstep_out (XBase (OMsg m))]) *)
  Definition msg_step (xs : xstate) (m : msg) : xstate * res string :=
    xstep_out c str_of authority xs (XBase (OMsg m)).

  (** runMsgs: stop at the first failure *)
  Fixpoint run_msgs (xs : xstate) (tx : list tmsg) : res xstate :=
    match tx with
    | [] => Ok xs
    | t :: r =>
      match msg_step xs (fst t) with
      | (xs', Ok _) => run_msgs xs' r
      | (_, Err e) => Err e
      end
    end.

  Definition deliver_tx (xs : xstate) (g : grants) (tx : list tmsg) : xstate * res string :=
    if negb (forallb (tvalid xs) tx) then (xs, Err EValidate)
    else if negb (ante_tx g tx) then (xs, Err EAnte)
    else match run_msgs xs tx with
         | Ok xs' => (xs', Ok EmptyString)
         | Err e => (xs, Err e)
         end.

  Definition tstep_out (xs : xstate) (t : top) : xstate * res string :=
    match t with
    | TOp o => xstep_out c str_of authority xs o
    | TTx g tx => deliver_tx xs g tx
    end.
  Definition tstep (xs : xstate) (t : top) : xstate := fst (tstep_out xs t).
  Definition trun (ts : list top) (xs : xstate) : xstate := fold_left tstep ts xs.

  Definition thonest (t : top) : Prop := match t with TOp o => honest o | TTx _ _ => True end.

  (** the creator of a message authorised the transaction: one of the accounts whose signature the
      SDK verified for this message IS the creator's account, or holds a fee grant from it *)
  Definition creator_authorised (g : grants) (t : tmsg) : Prop :=
    exists sg a, In sg (snd t) /\ addr_of c sg = Some a /\
      (addr_of c (sender (fst t)) = Some a \/
       exists gr, addr_of c (sender (fst t)) = Some gr /\ In (gr, a) g).
End Tx.
