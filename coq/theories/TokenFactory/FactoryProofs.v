(** C16 — proofs about the tokenfactory model (Factory.v). *)
From Coq Require Import List ZArith Bool String Ascii Lia.
From Paloma Require Import TokenFactory.Ledger TokenFactory.LedgerProofs TokenFactory.Denom
  TokenFactory.DenomProofs TokenFactory.Factory.
Import ListNotations.
Open Scope Z_scope.

(** ---- state projections under the three state updates ---- *)

Lemma meta_of_set_meta s d t d' :
  meta_of (set_meta s d t) d' = if String.eqb d' d then Some t else meta_of s d'.
Proof. unfold meta_of, set_meta; simpl. apply (mget_mset String.eqb String.eqb_eq). Qed.
Lemma admin_rec_set_admin s d a d' :
  admin_rec (set_admin s d a) d' = if String.eqb d' d then Some a else admin_rec s d'.
Proof. unfold admin_rec, set_admin; simpl. apply (mget_mset String.eqb String.eqb_eq). Qed.
Lemma meta_of_set_admin s d a d' : meta_of (set_admin s d a) d' = meta_of s d'.
Proof. reflexivity. Qed.
Lemma admin_rec_set_meta s d t d' : admin_rec (set_meta s d t) d' = admin_rec s d'.
Proof. reflexivity. Qed.
Lemma meta_of_with_led s l d : meta_of (with_led s l) d = meta_of s d.
Proof. reflexivity. Qed.
Lemma admin_rec_with_led s l d : admin_rec (with_led s l) d = admin_rec s d.
Proof. reflexivity. Qed.

Lemma lift_ok s r s' : lift s r = Ok s' -> exists l, r = Ok l /\ s' = with_led s l.
Proof. unfold lift. destruct r as [l|e]; [|discriminate]. intros H; inversion H. eauto. Qed.

(** ---- what a successful delivery says, message by message ---- *)

Section Facts.
  Variable c : cfg.
  Hypothesis addr_of_empty : addr_of c EmptyString = None.

  Lemma deliver_ok s m s' r :
    deliver c s m = (s', Ok r) -> validate_basic c m = true /\ handler c s m = Ok (s', r).
  Proof.
    unfold deliver. destruct (validate_basic c m); [|discriminate].
    destruct (handler c s m) as [[s1 r1]|e]; [|discriminate].
    intros H; inversion H; subst. auto.
  Qed.

  Lemma deliver_err s m s' e : deliver c s m = (s', Err e) -> s' = s.
  Proof.
    unfold deliver. destruct (validate_basic c m); [|intros H; inversion H; reflexivity].
    destruct (handler c s m) as [[s1 r1]|e1]; intros H; inversion H; reflexivity.
  Qed.

  Lemma valid_basic_sender m : validate_basic c m = true -> exists a, addr_of c (sender m) = Some a.
  Proof.
    unfold validate_basic, valid_addr. intros H. apply andb_true_iff in H as [H _].
    destruct (addr_of c (sender m)) as [a|]; [eauto|discriminate].
  Qed.

  (** The comparison Creator == GetAdmin() can only succeed against a stored, non-empty admin. *)
  Lemma admin_match s d cr a :
    addr_of c cr = Some a -> String.eqb cr (admin_str s d) = true -> admin_rec s d = Some cr.
  Proof.
    intros Ha E. apply String.eqb_eq in E. unfold admin_str in E.
    destruct (admin_rec s d) as [x|]; [subst; reflexivity|].
    subst cr. rewrite addr_of_empty in Ha. discriminate.
  Qed.

  (** only_admin_acts, one step, ANY state: a delivered privileged message was sent by the
      stored admin of its denom, and that admin is a real account. *)
  Theorem only_admin_step s m s' r d :
    deliver c s m = (s', Ok r) -> privileged m = Some d ->
    admin_rec s d = Some (sender m) /\ exists a, addr_of c (sender m) = Some a.
  Proof.
    intros D P. apply deliver_ok in D as [VB H].
    destruct (valid_basic_sender _ VB) as [a Ha]. split; [|eauto].
    destruct m as [cr sub|cr d0 x|cr d0 x|cr d0 na|cr d0 ok tag]; simpl in P; try discriminate;
      injection P as E0; subst d0; simpl in H, Ha |- *.
    - destruct (meta_of s d); [|discriminate].
      destruct (String.eqb cr (admin_str s d)) eqn:E; [|discriminate]. eapply admin_match; eauto.
    - destruct (String.eqb cr (admin_str s d)) eqn:E; [|discriminate]. eapply admin_match; eauto.
    - destruct (String.eqb cr (admin_str s d)) eqn:E; [|discriminate]. eapply admin_match; eauto.
    - destruct ok; [|discriminate].
      destruct (String.eqb cr (admin_str s d)) eqn:E; [|discriminate]. eapply admin_match; eauto.
  Qed.

  Lemma valid_amount_pos d x : valid_amount d x = true -> 0 < x /\ x <= max_int /\ validate_denom d = true.
  Proof.
    unfold valid_amount. intros H. apply andb_true_iff in H as [H H3]. apply andb_true_iff in H as [H1 H2].
    apply Z.ltb_lt in H2. apply Z.leb_le in H3. auto.
  Qed.

  (** ---- complete effect of each delivered message ---- *)

  Lemma mint_spec s cr d x s' r :
    deliver c s (MMint cr d x) = (s', Ok r) ->
    exists a, addr_of c cr = Some a /\ admin_rec s d = Some cr /\ meta_of s d <> None /\
      deconstruct (addr_of c) d <> None /\ 0 < x /\ blocked c a = false /\
      (forall a' d', bal (led s') a' d' = bal (led s) a' d' + bdelta a d a' d' x) /\
      (forall d', supply (led s') d' = supply (led s) d' + sdelta d d' x) /\
      metas s' = metas s /\ admins s' = admins s.
  Proof.
    intros D. destruct (only_admin_step _ _ _ _ d D eq_refl) as [Hadm [a Ha]]. simpl in Hadm, Ha.
    apply deliver_ok in D as [VB H]. exists a.
    assert (Hx : 0 < x).
    { unfold validate_basic in VB. apply andb_true_iff in VB as [_ VB]. now apply valid_amount_pos in VB. }
    simpl in H. destruct (meta_of s d) eqn:Hm; [|discriminate].
    destruct (String.eqb cr (admin_str s d)); [|discriminate].
    unfold bind in H. destruct (mint_to c s d x cr) as [s1|] eqn:M; [|discriminate].
    inversion H; subst s1 r; clear H.
    unfold mint_to in M. destruct (deconstruct (addr_of c) d) eqn:Hd; [|discriminate].
    unfold bind in M. destruct (mint_coins (led s) (mod_tf c) d x) as [l1|] eqn:M1; [|discriminate].
    rewrite Ha in M. apply lift_ok in M as [l2 [S2 ->]].
    unfold send_to_acct in S2. destruct (blocked c a) eqn:Hb; [discriminate|].
    apply mint_coins_spec in M1 as [B1 S1]. apply send_spec in S2 as (B2 & SS2 & _).
    repeat split; try assumption; try discriminate; try reflexivity.
    - intros a' d'. simpl. rewrite B2, B1. lia.
    - intros d'. simpl. rewrite SS2, S1. reflexivity.
  Qed.

  Lemma burn_spec s cr d x s' r :
    deliver c s (MBurn cr d x) = (s', Ok r) ->
    exists a, addr_of c cr = Some a /\ admin_rec s d = Some cr /\
      deconstruct (addr_of c) d <> None /\ 0 < x /\ x <= bal (led s) a d /\
      (forall a' d', bal (led s') a' d' = bal (led s) a' d' - bdelta a d a' d' x) /\
      (forall d', supply (led s') d' = supply (led s) d' - sdelta d d' x) /\
      metas s' = metas s /\ admins s' = admins s.
  Proof.
    intros D. destruct (only_admin_step _ _ _ _ d D eq_refl) as [Hadm [a Ha]]. simpl in Hadm, Ha.
    apply deliver_ok in D as [VB H]. exists a.
    assert (Hx : 0 < x).
    { unfold validate_basic in VB. apply andb_true_iff in VB as [_ VB]. now apply valid_amount_pos in VB. }
    simpl in H. destruct (String.eqb cr (admin_str s d)); [|discriminate].
    unfold bind in H. destruct (burn_from c s d x cr) as [s1|] eqn:M; [|discriminate].
    inversion H; subst s1 r; clear H.
    unfold burn_from in M. destruct (deconstruct (addr_of c) d) eqn:Hd; [|discriminate].
    rewrite Ha in M. apply lift_ok in M as [l2 [S2 ->]].
    unfold bind in S2. destruct (send (led s) a (mod_tf c) d x) as [l1|] eqn:S1; [|discriminate].
    apply send_spec in S1 as (B1 & SS1 & Hle). apply burn_coins_spec in S2 as [B2 SS2].
    repeat split; try assumption; try discriminate; try reflexivity.
    - intros a' d'. simpl. rewrite B2, B1. lia.
    - intros d'. simpl. rewrite SS2, SS1. reflexivity.
  Qed.

  Lemma change_admin_spec s cr d na s' r :
    deliver c s (MChangeAdmin cr d na) = (s', Ok r) ->
    admin_rec s d = Some cr /\ (na = EmptyString \/ exists a, addr_of c na = Some a) /\
    s' = set_admin s d na.
  Proof.
    intros D. destruct (only_admin_step _ _ _ _ d D eq_refl) as [Hadm _]. simpl in Hadm.
    apply deliver_ok in D as [_ H]. simpl in H.
    destruct (String.eqb cr (admin_str s d)); [|discriminate].
    destruct (String.eqb na EmptyString || valid_addr c na) eqn:E; [|discriminate].
    inversion H; subst. split; [assumption|]. split; [|reflexivity].
    apply orb_true_iff in E as [E|E].
    - left. now apply String.eqb_eq.
    - right. unfold valid_addr in E. destruct (addr_of c na); [eauto|discriminate].
  Qed.

  Lemma set_meta_spec s cr d ok tag s' r :
    deliver c s (MSetMeta cr d ok tag) = (s', Ok r) ->
    admin_rec s d = Some cr /\ s' = set_meta s d tag.
  Proof.
    intros D. destruct (only_admin_step _ _ _ _ d D eq_refl) as [Hadm _]. simpl in Hadm.
    apply deliver_ok in D as [_ H]. simpl in H. destruct ok; [|discriminate].
    destruct (String.eqb cr (admin_str s d)); [|discriminate].
    inversion H; subst. auto.
  Qed.

  Lemma create_spec s cr sub s' r :
    deliver c s (MCreate cr sub) = (s', Ok r) ->
    exists a, addr_of c cr = Some a /\ r = construct cr sub /\ contains_slash cr = false /\
      validate_denom r = true /\ meta_of s r = None /\ has_supply (led s) sub = false /\
      (forall d', supply (led s') d' = supply (led s) d') /\
      (forall a' d', ~ In d' (map fst (fee c)) -> bal (led s') a' d' = bal (led s) a' d') /\
      (forall d', meta_of s' d' = if String.eqb d' r then Some 0 else meta_of s d') /\
      (forall d', admin_rec s' d' = if String.eqb d' r then Some cr else admin_rec s d').
  Proof.
    intros D. apply deliver_ok in D as [_ H]. simpl in H. unfold create_denom in H.
    destruct (has_supply (led s) sub) eqn:Hs; [discriminate|].
    unfold bind in H. destruct (get_token_denom cr sub) as [d|] eqn:G; [|discriminate].
    destruct (meta_of s d) eqn:Hm; [discriminate|].
    destruct (addr_of c cr) as [a|] eqn:Ha; [|discriminate]. exists a.
    apply get_token_denom_ok in G as (Hd & Hsl & Hv & _).
    match type of H with match lift s ?F with _ => _ end = _ => destruct (lift s F) as [s1|] eqn:L; [|discriminate] end.
    inversion H; subst s' r; clear H.
    apply lift_ok in L as [l1 [L ->]].
    assert (Sup : forall d', supply l1 d' = supply (led s) d').
    { destruct (fee c) as [|f0 fr]; [inversion L; reflexivity|]. intros d'. eapply send_coins_supply; eauto. }
    assert (Bal : forall a' d', ~ In d' (map fst (fee c)) -> bal l1 a' d' = bal (led s) a' d').
    { destruct (fee c) as [|f0 fr] eqn:Ef; [inversion L; reflexivity|]. intros a' d' N.
      eapply send_coins_bal_other; eauto. }
    split; [reflexivity|]. split; [exact Hd|]. split; [exact Hsl|]. split; [exact Hv|].
    split; [exact Hm|]. split; [reflexivity|]. split; [exact Sup|]. split; [exact Bal|]. split.
    - intros d'. rewrite meta_of_set_admin, meta_of_set_meta. reflexivity.
    - intros d'. rewrite admin_rec_set_admin. reflexivity.
  Qed.
End Facts.

(** ---- the property's theorems ---- *)

Section Theorems.
  Variable c : cfg.
  Hypothesis addr_of_empty : addr_of c EmptyString = None.

  Lemma run_cons o ops s : run c (o :: ops) s = run c ops (step c s o).
  Proof. reflexivity. Qed.
  Lemma run_app ops1 ops2 s : run c (ops1 ++ ops2) s = run c ops2 (run c ops1 s).
  Proof. unfold run. apply fold_left_app. Qed.

  (** only_admin_acts along a history *)
  Theorem only_admin_hist s0 pre post m d :
    privileged m = Some d -> succeeded c (run c pre s0) (OMsg m) = true ->
    run c (pre ++ OMsg m :: post) s0 = run c post (step c (run c pre s0) (OMsg m)) /\
    admin_rec (run c pre s0) d = Some (sender m) /\ exists a, addr_of c (sender m) = Some a.
  Proof.
    intros P S. split; [rewrite run_app; reflexivity|].
    unfold succeeded in S. cbn [step_out] in S.
    destruct (deliver c (run c pre s0) m) as [s' [r|e]] eqn:D; [|discriminate].
    exact (only_admin_step c addr_of_empty _ _ _ _ d D P).
  Qed.

  (** mint_burn_touch_admin_only *)
  Theorem mint_touches_admin_only s cr d x s' r :
    deliver c s (MMint cr d x) = (s', Ok r) ->
    exists a, addr_of c cr = Some a /\ admin_rec s d = Some cr /\ 0 < x /\
      bal (led s') a d = bal (led s) a d + x /\
      supply (led s') d = supply (led s) d + x /\
      (forall a' d', (a', d') <> (a, d) -> bal (led s') a' d' = bal (led s) a' d') /\
      (forall d', d' <> d -> supply (led s') d' = supply (led s) d') /\
      metas s' = metas s /\ admins s' = admins s.
  Proof.
    intros D. destruct (mint_spec c addr_of_empty _ _ _ _ _ _ D) as (a & Ha & Hadm & _ & _ & Hx & _ & B & S & M & A).
    exists a. repeat split; try assumption.
    - rewrite B, bdelta_same. reflexivity.
    - rewrite S, sdelta_same. reflexivity.
    - intros a' d' N. rewrite B, (bdelta_other _ _ _ _ _ N). lia.
    - intros d' N. rewrite S, (sdelta_other _ _ _ N). lia.
  Qed.

  Theorem burn_touches_admin_only s cr d x s' r :
    deliver c s (MBurn cr d x) = (s', Ok r) ->
    exists a, addr_of c cr = Some a /\ admin_rec s d = Some cr /\ 0 < x <= bal (led s) a d /\
      bal (led s') a d = bal (led s) a d - x /\
      supply (led s') d = supply (led s) d - x /\
      (forall a' d', (a', d') <> (a, d) -> bal (led s') a' d' = bal (led s) a' d') /\
      (forall d', d' <> d -> supply (led s') d' = supply (led s) d') /\
      metas s' = metas s /\ admins s' = admins s.
  Proof.
    intros D. destruct (burn_spec c addr_of_empty _ _ _ _ _ _ D) as (a & Ha & Hadm & _ & Hx & Hle & B & S & M & A).
    exists a. repeat split; try assumption.
    - rewrite B, bdelta_same. reflexivity.
    - rewrite S, sdelta_same. reflexivity.
    - intros a' d' N. rewrite B, (bdelta_other _ _ _ _ _ N). lia.
    - intros d' N. rewrite S, (sdelta_other _ _ _ N). lia.
  Qed.

  (** ---- supply accounting ---- *)

  Lemma xmint_spec l t d x l' :
    xmint l t d x = Ok l' -> forall d', supply l' d' = supply l d' + sdelta d d' x.
  Proof.
    unfold xmint, bind. destruct (0 <=? x); [|discriminate].
    destruct (add_bal l t d x) as [l1|] eqn:E1; [|discriminate].
    destruct (supply l1 d + x <=? max_int); [|discriminate].
    intros H; inversion H; subst l'. apply add_bal_spec in E1 as (_ & S1).
    intros d'. rewrite supply_set_sup. unfold sdelta. destruct (String.eqb d' d) eqn:E.
    - apply String.eqb_eq in E; subst d'. rewrite S1. reflexivity.
    - rewrite S1. lia.
  Qed.

  Lemma xburn_spec l f d x l' :
    xburn l f d x = Ok l' -> forall d', supply l' d' = supply l d' - sdelta d d' x.
  Proof.
    unfold xburn, bind. destruct (0 <=? x); [|discriminate].
    destruct (sub_bal l f d x) as [l1|] eqn:E1; [|discriminate].
    destruct (0 <=? supply l1 d - x); [|discriminate].
    intros H; inversion H; subst l'. apply sub_bal_spec in E1 as (_ & S1 & _).
    intros d'. rewrite supply_set_sup. unfold sdelta. destruct (String.eqb d' d) eqn:E.
    - apply String.eqb_eq in E; subst d'. rewrite S1. reflexivity.
    - rewrite S1. lia.
  Qed.

  Lemma sdelta_sym_if d d0 x : sdelta d0 d x = if String.eqb d d0 then x else 0.
  Proof. reflexivity. Qed.

  Lemma supply_step s o d :
    supply (led (step c s o)) d =
    supply (led s) d + minted_by c d s o - burned_by c d s o + ext_delta c d s o.
  Proof.
    destruct o as [m|f t d0 x|t d0 x|f d0 x]; unfold step, minted_by, burned_by, ext_delta, succeeded.
    - cbn [step_out]. destruct (deliver c s m) as [s' [r|e]] eqn:D; cbn [fst snd is_ok].
      + destruct m as [cr sub|cr d0 x|cr d0 x|cr d0 na|cr d0 ok tag].
        * destruct (create_spec c _ _ _ _ _ D) as (a & _ & _ & _ & _ & _ & _ & S & _). rewrite S. lia.
        * destruct (mint_spec c addr_of_empty _ _ _ _ _ _ D) as (a & _ & _ & _ & _ & _ & _ & _ & S & _).
          rewrite S, sdelta_sym_if, andb_true_r. lia.
        * destruct (burn_spec c addr_of_empty _ _ _ _ _ _ D) as (a & _ & _ & _ & _ & _ & _ & S & _).
          rewrite S, sdelta_sym_if, andb_true_r. lia.
        * destruct (change_admin_spec c addr_of_empty _ _ _ _ _ _ D) as (_ & _ & ->). simpl. lia.
        * destruct (set_meta_spec c addr_of_empty _ _ _ _ _ _ _ D) as (_ & ->). simpl. lia.
      + apply deliver_err in D; subst s'.
        destruct m; rewrite ?andb_false_r; lia.
    - cbn [step_out]. destruct (if 0 <=? x then send (led s) f t d0 x else Err EValidate) as [l|e] eqn:E; cbn [fst].
      + destruct (0 <=? x); [|discriminate]. apply send_spec in E as (_ & S & _). simpl. rewrite S. lia.
      + lia.
    - cbn [step_out]. destruct (xmint (led s) t d0 x) as [l|e] eqn:E; cbn [fst snd is_ok].
      + simpl. rewrite (xmint_spec _ _ _ _ _ E), sdelta_sym_if, andb_true_r. lia.
      + rewrite andb_false_r. lia.
    - cbn [step_out]. destruct (xburn (led s) f d0 x) as [l|e] eqn:E; cbn [fst snd is_ok].
      + simpl. rewrite (xburn_spec _ _ _ _ _ E), sdelta_sym_if, andb_true_r.
        destruct (String.eqb d d0); lia.
      + rewrite andb_false_r. lia.
  Qed.

  (** supply_eq_mints_minus_burns: over every history from every state. *)
  Theorem supply_accounting ops : forall s d,
    supply (led (run c ops s)) d =
    supply (led s) d + total c (minted_by c d) ops s - total c (burned_by c d) ops s
                     + total c (ext_delta c d) ops s.
  Proof.
    induction ops as [|o r IH]; intros s d; [simpl; lia|].
    rewrite run_cons, IH, supply_step. simpl. lia.
  Qed.

  (** No other module minted or burned [d] in the history. *)
  Definition no_external (d : denom) (o : op) : Prop :=
    match o with
    | OXMint _ d' _ | OXBurn _ d' _ => d' <> d
    | _ => True
    end.

  Lemma total_ext_zero d ops : forall s, Forall (no_external d) ops -> total c (ext_delta c d) ops s = 0.
  Proof.
    induction ops as [|o r IH]; intros s F; [reflexivity|]. inversion F as [|? ? Ho Fr]; subst.
    simpl. rewrite (IH _ Fr).
    destruct o as [m|f t d0 x|t d0 x|f d0 x]; simpl in Ho |- *; try lia;
      (destruct (String.eqb d d0) eqn:E; [apply String.eqb_eq in E; subst; contradiction|simpl; lia]).
  Qed.

  Theorem supply_eq_mints_minus_burns_closed ops s d :
    Forall (no_external d) ops ->
    supply (led (run c ops s)) d =
    supply (led s) d + total c (minted_by c d) ops s - total c (burned_by c d) ops s.
  Proof. intros F. rewrite supply_accounting, (total_ext_zero _ _ _ F). lia. Qed.

  (** ---- which steps can change what ---- *)

  Definition wf (s : state) : Prop := forall d, admin_rec s d <> None -> meta_of s d <> None.

  Lemma wf_empty : wf empty_state.
  Proof. intros d H. exfalso. apply H. reflexivity. Qed.

  (** Everything a step can do to the admin record and the metadata of a denom. *)
  Lemma control_step s o d :
    (admin_rec (step c s o) d = admin_rec s d /\ meta_of (step c s o) d = meta_of s d) \/
    exists m r, o = OMsg m /\ deliver c s m = (step c s o, Ok r) /\
      ((exists cr sub, m = MCreate cr sub /\ r = d /\ meta_of s d = None /\
                       admin_rec (step c s o) d = Some cr /\ meta_of (step c s o) d = Some 0) \/
       (privileged m = Some d /\ admin_rec s d = Some (sender m) /\
        exists a, addr_of c (sender m) = Some a)).
  Proof.
    destruct o as [m|f t d0 x|t d0 x|f d0 x]; unfold step; cbn [step_out].
    - destruct (deliver c s m) as [s' [r|e]] eqn:D; cbn [fst].
      + destruct m as [cr sub|cr d0 x|cr d0 x|cr d0 na|cr d0 ok tag].
        * destruct (create_spec c _ _ _ _ _ D) as (a & Ha & Hr & _ & _ & Hm & _ & _ & _ & M & A).
          destruct (String.eqb d r) eqn:E.
          -- apply String.eqb_eq in E; subst d. right. exists (MCreate cr sub), r. split; [reflexivity|].
             split; [exact D|]. left. exists cr, sub. rewrite M, A, String.eqb_refl. auto.
          -- left. rewrite M, A, E. auto.
        * destruct (mint_spec c addr_of_empty _ _ _ _ _ _ D) as (a & _ & _ & _ & _ & _ & _ & _ & _ & M & A).
          left. unfold admin_rec, meta_of. rewrite M, A. auto.
        * destruct (burn_spec c addr_of_empty _ _ _ _ _ _ D) as (a & _ & _ & _ & _ & _ & _ & _ & M & A).
          left. unfold admin_rec, meta_of. rewrite M, A. auto.
        * destruct (String.eqb d d0) eqn:E.
          -- apply String.eqb_eq in E; subst d0. right. exists (MChangeAdmin cr d na), r.
             split; [reflexivity|]. split; [exact D|]. right.
             destruct (only_admin_step c addr_of_empty _ _ _ _ d D eq_refl) as [H1 H2]. auto.
          -- destruct (change_admin_spec c addr_of_empty _ _ _ _ _ _ D) as (_ & _ & ->). left.
             rewrite admin_rec_set_admin, E. auto.
        * destruct (String.eqb d d0) eqn:E.
          -- apply String.eqb_eq in E; subst d0. right. exists (MSetMeta cr d ok tag), r.
             split; [reflexivity|]. split; [exact D|]. right.
             destruct (only_admin_step c addr_of_empty _ _ _ _ d D eq_refl) as [H1 H2]. auto.
          -- destruct (set_meta_spec c addr_of_empty _ _ _ _ _ _ _ D) as (_ & ->). left.
             rewrite meta_of_set_meta, E. auto.
      + apply deliver_err in D; subst s'. auto.
    - left. destruct (if 0 <=? x then send (led s) f t d0 x else Err EValidate); cbn [fst]; auto.
    - left. destruct (xmint (led s) t d0 x); cbn [fst]; auto.
    - left. destruct (xburn (led s) f d0 x); cbn [fst]; auto.
  Qed.

  Lemma meta_monotone_step s o d : meta_of s d <> None -> meta_of (step c s o) d <> None.
  Proof.
    intros H. destruct (control_step s o d) as [[_ M]|(m & r & -> & D & [(cr & sub & _ & _ & Hn & _ & _)|(P & _ & _)])].
    - rewrite M. exact H.
    - contradiction.
    - destruct m as [cr sub|cr d0 x|cr d0 x|cr d0 na|cr d0 ok tag]; simpl in P; try discriminate;
        injection P as ->.
      + destruct (mint_spec c addr_of_empty _ _ _ _ _ _ D) as (a & _ & _ & _ & _ & _ & _ & _ & _ & M & _).
        unfold meta_of. rewrite M. exact H.
      + destruct (burn_spec c addr_of_empty _ _ _ _ _ _ D) as (a & _ & _ & _ & _ & _ & _ & _ & M & _).
        unfold meta_of. rewrite M. exact H.
      + destruct (change_admin_spec c addr_of_empty _ _ _ _ _ _ D) as (_ & _ & E). rewrite E. exact H.
      + destruct (set_meta_spec c addr_of_empty _ _ _ _ _ _ _ D) as (_ & E). rewrite E, meta_of_set_meta.
        rewrite String.eqb_refl. discriminate.
  Qed.

  Lemma wf_step s o : wf s -> wf (step c s o).
  Proof.
    intros W d H.
    destruct (control_step s o d) as [[A M]|(m & r & -> & D & [(cr & sub & _ & _ & _ & _ & M)|(P & Hadm & _)])].
    - rewrite M. apply W. rewrite <- A. exact H.
    - rewrite M. discriminate.
    - apply meta_monotone_step. apply W. rewrite Hadm. discriminate.
  Qed.

  Lemma wf_run ops : forall s, wf s -> wf (run c ops s).
  Proof. induction ops as [|o r IH]; intros s W; [exact W|]. rewrite run_cons. apply IH, wf_step, W. Qed.

  (** only_admin_acts, as a statement about effects: in a state reached by the factory, whenever a
      step changes the admin record or the metadata of an existing factory denom, that step is a
      delivered privileged message sent by the denom's admin. *)
  Theorem control_only_by_admin s o d a :
    wf s -> admin_rec s d = Some a ->
    admin_rec (step c s o) d <> Some a \/ meta_of (step c s o) d <> meta_of s d ->
    exists m, o = OMsg m /\ sender m = a /\ privileged m = Some d /\ succeeded c s o = true /\
              exists acc, addr_of c a = Some acc.
  Proof.
    intros W Hadm Ch.
    destruct (control_step s o d) as [[A M]|(m & r & -> & D & [(cr & sub & _ & _ & Hn & _ & _)|(P & Hs & Ha)])].
    - exfalso. rewrite A, M in Ch. destruct Ch as [Ch|Ch]; apply Ch; auto.
    - exfalso. apply (W d); [rewrite Hadm; discriminate|exact Hn].
    - exists m. rewrite Hadm in Hs. injection Hs as Hs.
      split; [reflexivity|]. split; [symmetry; exact Hs|]. split; [exact P|]. split.
      + unfold succeeded. cbn [step_out]. unfold step in D. cbn [step_out] in D.
        destruct (deliver c s m) as [s1 r1]. cbn [fst] in D. inversion D. reflexivity.
      + rewrite Hs. exact Ha.
  Qed.

  (** ---- namespace and uniqueness ---- *)

  Theorem create_in_own_namespace s cr sub s' d :
    deliver c s (MCreate cr sub) = (s', Ok d) ->
    d = construct cr sub /\ contains_slash cr = false /\
    (exists a, addr_of c cr = Some a /\ deconstruct (addr_of c) d = Some (a, sub)) /\
    meta_of s d = None /\ meta_of s' d = Some 0 /\ admin_rec s' d = Some cr.
  Proof.
    intros D. destruct (create_spec c _ _ _ _ _ D) as (a & Ha & Hr & Hs & Hv & Hm & _ & _ & _ & M & A).
    split; [exact Hr|]. split; [exact Hs|]. split.
    - exists a. split; [exact Ha|]. subst d. now apply deconstruct_of_construct.
    - rewrite M, A, String.eqb_refl. auto.
  Qed.

  (** Nobody but [cr] can obtain a denom of the form factory/cr/...  *)
  Theorem namespace_exclusive s cr' sub' s' d cr sub :
    deliver c s (MCreate cr' sub') = (s', Ok d) ->
    d = construct cr sub -> contains_slash cr = false -> cr' = cr /\ sub' = sub.
  Proof.
    intros D E Hs. destruct (create_in_own_namespace _ _ _ _ _ D) as (E' & Hs' & _).
    rewrite E in E'. symmetry in E'. now apply construct_injective in E'.
  Qed.

  Lemma created_cons o ops s :
    created c (o :: ops) s =
    match o, snd (step_out c s o) with
    | OMsg (MCreate _ _), Ok d => d :: created c ops (step c s o)
    | _, _ => created c ops (step c s o)
    end.
  Proof. reflexivity. Qed.

  Lemma created_head s o ops d :
    In d (created c (o :: ops) s) ->
    (exists cr sub, o = OMsg (MCreate cr sub) /\ deliver c s (MCreate cr sub) = (step c s o, Ok d)) \/
    In d (created c ops (step c s o)).
  Proof.
    rewrite created_cons. destruct o as [m|f t d0 x|t d0 x|f d0 x]; auto.
    destruct m as [cr sub|cr d0 x|cr d0 x|cr d0 na|cr d0 ok tag]; auto.
    unfold step. cbn [step_out]. destruct (deliver c s (MCreate cr sub)) as [s' [r|e]] eqn:D; cbn [snd fst]; auto.
    intros [E|I]; [|auto]. subst r. left. exists cr, sub. auto.
  Qed.

  (** A denom that a history creates did not exist (had no bank metadata) when the history began… *)
  Lemma created_fresh ops : forall s d, In d (created c ops s) -> meta_of s d = None.
  Proof.
    induction ops as [|o r IH]; intros s d I; [contradiction|].
    apply created_head in I as [(cr & sub & -> & D)|I].
    - now destruct (create_in_own_namespace _ _ _ _ _ D) as (_ & _ & _ & Hm & _).
    - apply IH in I. destruct (meta_of s d) eqn:E; [|reflexivity].
      exfalso. apply (meta_monotone_step s o d); [rewrite E; discriminate|exact I].
  Qed.

  (** …and is never created a second time. *)
  Theorem created_once ops : forall s, NoDup (created c ops s).
  Proof.
    induction ops as [|o r IH]; intros s; [constructor|].
    rewrite created_cons. destruct o as [m|f t d0 x|t d0 x|f d0 x]; try apply IH.
    destruct m as [cr sub|cr d0 x|cr d0 x|cr d0 na|cr d0 ok tag]; try apply IH.
    unfold step. cbn [step_out]. destruct (deliver c s (MCreate cr sub)) as [s' [d|e]] eqn:D; cbn [snd fst]; [|apply IH].
    constructor; [|apply IH]. intros I. apply created_fresh in I.
    destruct (create_in_own_namespace _ _ _ _ _ D) as (_ & _ & _ & _ & Hm & _). rewrite Hm in I. discriminate.
  Qed.

  Theorem existing_denom_never_created ops s d :
    meta_of s d <> None -> ~ In d (created c ops s).
  Proof. intros H I. apply created_fresh in I. contradiction. Qed.

  (** ---- foreign denoms ---- *)

  Theorem foreign_step s m d :
    deconstruct (addr_of c) d = None ->
    let s' := fst (deliver c s m) in
    supply (led s') d = supply (led s) d /\ admin_rec s' d = admin_rec s d /\ meta_of s' d = meta_of s d /\
    ((forall a, bal (led s') a d = bal (led s) a d) \/
     (exists cr sub, m = MCreate cr sub /\ In d (map fst (fee c)))).
  Proof.
    intros F. cbn zeta. destruct (deliver c s m) as [s' [r|e]] eqn:D; cbn [fst].
    2:{ apply deliver_err in D; subst s'. auto. }
    destruct m as [cr sub|cr d0 x|cr d0 x|cr d0 na|cr d0 ok tag].
    - destruct (create_in_own_namespace _ _ _ _ _ D) as (_ & _ & (a & _ & Hd) & _).
      destruct (create_spec c _ _ _ _ _ D) as (a0 & _ & _ & _ & _ & _ & _ & S & B & M & A).
      assert (N : String.eqb d r = false).
      { destruct (String.eqb d r) eqn:E; [|reflexivity]. apply String.eqb_eq in E; subst r.
        rewrite F in Hd. discriminate. }
      rewrite S, M, A, N. repeat split.
      destruct (in_dec string_dec d (map fst (fee c))) as [I|I]; [right; eauto|left].
      intros a'. apply B, I.
    - destruct (mint_spec c addr_of_empty _ _ _ _ _ _ D) as (a & _ & _ & _ & Hd & _ & _ & B & S & M & A).
      assert (N : d <> d0) by (intros ->; contradiction).
      unfold admin_rec, meta_of. rewrite M, A, S, (sdelta_other _ _ _ N). repeat split; [lia|].
      left. intros a'. rewrite B, (bdelta_denom _ _ _ _ _ N). lia.
    - destruct (burn_spec c addr_of_empty _ _ _ _ _ _ D) as (a & _ & _ & Hd & _ & _ & B & S & M & A).
      assert (N : d <> d0) by (intros ->; contradiction).
      unfold admin_rec, meta_of. rewrite M, A, S, (sdelta_other _ _ _ N). repeat split; [lia|].
      left. intros a'. rewrite B, (bdelta_denom _ _ _ _ _ N). lia.
    - destruct (change_admin_spec c addr_of_empty _ _ _ _ _ _ D) as (_ & _ & ->).
      apply deliver_ok in D as [VB _]. unfold validate_basic in VB. apply andb_true_iff in VB as [_ VB].
      assert (N : String.eqb d d0 = false).
      { destruct (String.eqb d d0) eqn:E; [|reflexivity]. apply String.eqb_eq in E; subst d0.
        rewrite F in VB. discriminate. }
      rewrite admin_rec_set_admin, N. simpl. auto.
    - destruct (set_meta_spec c addr_of_empty _ _ _ _ _ _ _ D) as (_ & ->).
      apply deliver_ok in D as [VB _]. unfold validate_basic in VB. apply andb_true_iff in VB as [_ VB].
      apply andb_true_iff in VB as [_ VB].
      assert (N : String.eqb d d0 = false).
      { destruct (String.eqb d d0) eqn:E; [|reflexivity]. apply String.eqb_eq in E; subst d0.
        rewrite F in VB. discriminate. }
      rewrite meta_of_set_meta, N. simpl. auto.
  Qed.

  (** A denom without an admin record that the history does not create is never minted or burned
      through the factory (this covers native denoms, malformed strings, and well-formed factory
      names nobody created). *)
  Theorem never_created_never_minted ops : forall s d,
    admin_rec s d = None -> ~ In d (created c ops s) ->
    total c (minted_by c d) ops s = 0 /\ total c (burned_by c d) ops s = 0 /\
    admin_rec (run c ops s) d = None.
  Proof.
    induction ops as [|o r IH]; intros s d Hn Nc; [simpl; auto|].
    assert (Hstep : admin_rec (step c s o) d = None /\ minted_by c d s o = 0 /\ burned_by c d s o = 0).
    { destruct (control_step s o d) as [[A _]|(m & r0 & -> & D & [(cr & sub & -> & -> & _)|(P & Hs & _)])].
      - split; [rewrite A; exact Hn|].
        destruct o as [m|f t d0 x|t d0 x|f d0 x]; try (simpl; auto; fail).
        destruct m as [cr sub|cr d0 x|cr d0 x|cr d0 na|cr d0 ok tag]; try (simpl; auto; fail).
        + unfold minted_by, burned_by, succeeded. cbn [step_out]. split; [|reflexivity].
          destruct (String.eqb d d0) eqn:E; [|reflexivity]. apply String.eqb_eq in E; subst d0.
          destruct (deliver c s (MMint cr d x)) as [s' [r1|e]] eqn:D; cbn [snd is_ok]; [|reflexivity].
          destruct (only_admin_step c addr_of_empty _ _ _ _ d D eq_refl) as [H1 _]. rewrite Hn in H1. discriminate.
        + unfold minted_by, burned_by, succeeded. cbn [step_out]. split; [reflexivity|].
          destruct (String.eqb d d0) eqn:E; [|reflexivity]. apply String.eqb_eq in E; subst d0.
          destruct (deliver c s (MBurn cr d x)) as [s' [r1|e]] eqn:D; cbn [snd is_ok]; [|reflexivity].
          destruct (only_admin_step c addr_of_empty _ _ _ _ d D eq_refl) as [H1 _]. rewrite Hn in H1. discriminate.
      - exfalso. apply Nc. rewrite created_cons. cbn [step_out].
        unfold step in D. cbn [step_out] in D. destruct (deliver c s (MCreate cr sub)) as [s1 r1].
        cbn [fst] in D. inversion D; subst. cbn [snd]. left. reflexivity.
      - rewrite Hn in Hs. discriminate. }
    destruct Hstep as (Hn1 & M0 & B0).
    assert (Nc1 : ~ In d (created c r (step c s o))).
    { intros I. apply Nc. rewrite created_cons.
      destruct o as [m|? ? ? ?|? ? ?|? ? ?]; auto.
      destruct m as [cr sub|? ? ?|? ? ?|? ? ?|? ? ? ?]; auto.
      destruct (snd (step_out c s (OMsg (MCreate cr sub)))); auto. right. exact I. }
    destruct (IH _ _ Hn1 Nc1) as (M & B & A).
    rewrite run_cons. simpl. rewrite M, B, M0, B0. auto.
  Qed.
End Theorems.

(** ---- non-vacuity: a concrete configuration and history on which every hypothesis used above
    is met and every conclusion is visibly non-trivial ---- *)
Module Ex.
  Open Scope string_scope.
  Definition addr (s : string) : option acct :=
    if String.eqb s "alice" then Some 1 else if String.eqb s "bob" then Some 2 else None.
  Definition cf : cfg :=
    {| addr_of := addr; mod_tf := 100; mod_distr := 101;
       blocked := fun a => Z.eqb a 100 || Z.eqb a 101; fee := [("ugrain", 10)] |}.
  Definition d : denom := "factory/alice/foo".
  Definition ops : list op :=
    [ OXMint 1 "ugrain" 50;
      OMsg (MCreate "alice" "foo");
      OMsg (MMint "alice" d 7);
      OMsg (MMint "bob" d 7);               (* refused: bob is not the admin *)
      OMsg (MBurn "alice" d 3);
      OXSend 1 2 d 1;                       (* alice gives bob one token: bank send, not the factory *)
      OMsg (MBurn "bob" d 1);               (* refused: holding the token does not make bob admin *)
      OMsg (MSetMeta "alice" d true 42);
      OMsg (MChangeAdmin "alice" d "bob");
      OMsg (MMint "alice" d 1);             (* refused: alice handed the role over *)
      OMsg (MMint "bob" d 5);
      OMsg (MChangeAdmin "bob" d "");       (* renounce *)
      OMsg (MMint "bob" d 1);               (* refused: no admin any more *)
      OMsg (MMint "" d 1);                  (* refused: the empty creator is not an address *)
      OMsg (MCreate "alice" "foo");         (* refused: exists *)
      OMsg (MCreate "bob" "foo");           (* refused: bob cannot pay the fee *)
      OMsg (MMint "alice" "ugrain" 5);      (* refused: native denom *)
      OMsg (MCreate "alice" "ugrain")       (* refused: subdenom equals a denom with supply *)
    ].
  Definition final : state := run cf ops empty_state.

  Example addr_empty : addr_of cf "" = None. Proof. reflexivity. Qed.
  Example outcomes :
    map (fun k => succeeded cf (run cf (firstn k ops) empty_state) (nth k ops (OXMint 0 "" 0)))
        (seq 0 (List.length ops))
    = [true; true; true; false; true; true; false; true; true; false; true; true; false; false; false; false; false; false].
  Proof. vm_compute. reflexivity. Qed.
  Example final_supply : supply (led final) d = 9 /\
    total cf (minted_by cf d) ops empty_state = 12 /\ total cf (burned_by cf d) ops empty_state = 3 /\
    total cf (ext_delta cf d) ops empty_state = 0 /\ Forall (no_external d) ops.
  Proof. vm_compute. repeat split; repeat constructor; discriminate. Qed.
  Example final_balances :
    bal (led final) 1 d = 3 /\ bal (led final) 2 d = 6 /\ bal (led final) 100 d = 0 /\
    bal (led final) 1 "ugrain" = 40 /\ bal (led final) 101 "ugrain" = 10 /\ supply (led final) "ugrain" = 50.
  Proof. vm_compute. repeat split. Qed.
  Example final_control : admin_rec final d = Some "" /\ meta_of final d = Some 42 /\
    created cf ops empty_state = [d] /\ wf final /\
    deconstruct addr d = Some (1, "foo") /\ deconstruct addr "ugrain" = None /\
    get_token_denom "alice" "foo" = Ok d.
  Proof.
    repeat split; try (vm_compute; reflexivity).
    apply wf_run; [reflexivity|apply wf_empty].
  Qed.
  (** a delivered privileged message exists in some state (hypotheses of the step theorems) *)
  Example step_hyp :
    let s := run cf (firstn 2 ops) empty_state in
    exists s', deliver cf s (MMint "alice" d 7) = (s', Ok "") /\ admin_rec s d = Some "alice" /\
               bal (led s') 1 d = 7 /\ supply (led s') d = 7 /\ bal (led s') 100 d = 0.
  Proof. eexists. vm_compute. repeat split. Qed.
  Example control_hyp :
    let s := run cf (firstn 8 ops) empty_state in
    wf s /\ admin_rec s d = Some "alice" /\
    admin_rec (step cf s (OMsg (MChangeAdmin "alice" d "bob"))) d = Some "bob".
  Proof.
    split; [apply wf_run; [reflexivity|apply wf_empty]|]. vm_compute. split; reflexivity.
  Qed.
End Ex.
