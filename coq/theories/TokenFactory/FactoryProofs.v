(** C16 — proofs about the tokenfactory model (Factory.v). *)
From Coq Require Import List ZArith Bool String Ascii Lia.
From Paloma Require Import TokenFactory.Ledger TokenFactory.LedgerProofs TokenFactory.Denom
  TokenFactory.DenomProofs TokenFactory.Factory.
Import ListNotations.
Open Scope Z_scope.

(** ---- state projections under the three state updates ---- *)

Lemma meta_of_set_meta s d t d' :
  meta_of (set_meta s d t) d' = if String.eqb d' d then Some t else meta_of s d'.
Proof. unfold meta_of, set_meta; simpl. apply (mget_mset String.eqb String.eqb_eq). Qed.
Lemma admin_rec_set_admin s d a d' :
  admin_rec (set_admin s d a) d' = if String.eqb d' d then Some a else admin_rec s d'.
Proof. unfold admin_rec, set_admin; simpl. apply (mget_mset String.eqb String.eqb_eq). Qed.
Lemma meta_of_set_admin s d a d' : meta_of (set_admin s d a) d' = meta_of s d'.
Proof. reflexivity. Qed.
Lemma admin_rec_set_meta s d t d' : admin_rec (set_meta s d t) d' = admin_rec s d'.
Proof. reflexivity. Qed.
Lemma meta_of_with_led s l d : meta_of (with_led s l) d = meta_of s d.
Proof. reflexivity. Qed.
Lemma admin_rec_with_led s l d : admin_rec (with_led s l) d = admin_rec s d.
Proof. reflexivity. Qed.

Lemma lift_ok s r s' : lift s r = Ok s' -> exists l, r = Ok l /\ s' = with_led s l.
Proof. unfold lift. destruct r as [l|e]; [|discriminate]. intros H; inversion H. eauto. Qed.

(** ---- what a successful delivery says, message by message ---- *)

Section Facts.
  Variable c : cfg.
  Hypothesis addr_of_empty : addr_of c EmptyString = None.

  Lemma deliver_ok s m s' r :
    deliver c s m = (s', Ok r) -> validate_basic c m = true /\ handler c s m = Ok (s', r).
  Proof.
    unfold deliver. destruct (validate_basic c m); [|discriminate].
    destruct (handler c s m) as [[s1 r1]|e]; [|discriminate].
    intros H; inversion H; subst. auto.
  Qed.

  Lemma deliver_err s m s' e : deliver c s m = (s', Err e) -> s' = s.
  Proof.
    unfold deliver. destruct (validate_basic c m); [|intros H; inversion H; reflexivity].
    destruct (handler c s m) as [[s1 r1]|e1]; intros H; inversion H; reflexivity.
  Qed.

  Lemma valid_basic_sender m : validate_basic c m = true -> exists a, addr_of c (sender m) = Some a.
  Proof.
    unfold validate_basic, valid_addr. intros H. apply andb_true_iff in H as [H _].
    destruct (addr_of c (sender m)) as [a|]; [eauto|discriminate].
  Qed.

  (** The comparison Creator == GetAdmin() can only succeed against a stored, non-empty admin. *)
  Lemma admin_match s d cr a :
    addr_of c cr = Some a -> String.eqb cr (admin_str s d) = true -> admin_rec s d = Some cr.
  Proof.
    intros Ha E. apply String.eqb_eq in E. unfold admin_str in E.
    destruct (admin_rec s d) as [x|]; [subst; reflexivity|].
    subst cr. rewrite addr_of_empty in Ha. discriminate.
  Qed.

  (** only_admin_acts, one step, ANY state: a delivered privileged message was sent by the
      stored admin of its denom, and that admin is a real account. *)
  Theorem only_admin_step s m s' r d :
    deliver c s m = (s', Ok r) -> privileged m = Some d ->
    admin_rec s d = Some (sender m) /\ exists a, addr_of c (sender m) = Some a.
  Proof.
    intros D P. apply deliver_ok in D as [VB H].
    destruct (valid_basic_sender _ VB) as [a Ha]. split; [|eauto].
    destruct m as [cr sub|cr d0 x|cr d0 x|cr d0 na|cr d0 ok tag]; simpl in P; try discriminate;
      injection P as E0; subst d0; simpl in H, Ha |- *.
    - destruct (meta_of s d); [|discriminate].
      destruct (String.eqb cr (admin_str s d)) eqn:E; [|discriminate]. eapply admin_match; eauto.
    - destruct (String.eqb cr (admin_str s d)) eqn:E; [|discriminate]. eapply admin_match; eauto.
    - destruct (String.eqb cr (admin_str s d)) eqn:E; [|discriminate]. eapply admin_match; eauto.
    - destruct ok; [|discriminate].
      destruct (String.eqb cr (admin_str s d)) eqn:E; [|discriminate]. eapply admin_match; eauto.
  Qed.
End Facts.
