(** C16 — executable model of x/tokenfactory's five messages as they are delivered on the chain:

      deliver m  =  ValidateBasic m ;; atomically (msg-server handler m)

    ValidateBasic is run by baseapp (validateBasicTxMsgs) and by every wasm binding before it
    calls the msg server; the handler runs under a cache context that is written back only when
    it returns nil (baseapp runTx / wasmd DispatchSubmessages), and a Go panic inside it is
    recovered by runTx — so a failed handler leaves no trace.  The model therefore returns the
    unchanged state together with the error class.  (On its own the handler is NOT atomic:
    mintTo mints to the module account before it parses the recipient and before the bank
    refuses a blocked recipient.  See design/C16.md.)

    Collaborators: the bank keeper is the ledger of Ledger.v; sdk.AccAddressFromBech32 is the
    arbitrary function [addr_of] of the configuration; banktypes.Metadata.Validate is the boolean
    carried by the message.  Definitions only; proofs are in FactoryProofs.v. *)
From Coq Require Import List ZArith Bool String.
From Paloma Require Import TokenFactory.Ledger TokenFactory.Denom.
Import ListNotations.
Open Scope Z_scope.

Record cfg := {
  addr_of : string -> option acct;   (* sdk.AccAddressFromBech32 *)
  mod_tf : acct;                     (* module account "tokenfactory" (Minter, Burner) *)
  mod_distr : acct;                  (* module account "distribution" (community pool) *)
  blocked : acct -> bool;            (* bank keeper's blockedAddrs *)
  fee : list (denom * Z)             (* Params.DenomCreationFee, positive amounts *)
}.

Record state := {
  led : ledger;
  metas : list (denom * Z);          (* bank denom metadata, keyed by Base; value: a content tag *)
  admins : list (denom * string)     (* DenomAuthorityMetadata.Admin per denom *)
}.

Definition empty_state : state :=
  {| led := {| l_bal := []; l_sup := [] |}; metas := []; admins := [] |}.

Definition meta_of (s : state) (d : denom) : option Z := mget String.eqb (metas s) d.
Definition admin_rec (s : state) (d : denom) : option string := mget String.eqb (admins s) d.
(** GetAuthorityMetadata(denom).GetAdmin(): an unknown denom unmarshals to the empty admin. *)
Definition admin_str (s : state) (d : denom) : string :=
  match admin_rec s d with Some a => a | None => EmptyString end.

Definition with_led (s : state) (l : ledger) : state :=
  {| led := l; metas := metas s; admins := admins s |}.
Definition set_meta (s : state) (d : denom) (tag : Z) : state :=
  {| led := led s; metas := mset String.eqb (metas s) d tag; admins := admins s |}.
Definition set_admin (s : state) (d : denom) (a : string) : state :=
  {| led := led s; metas := metas s; admins := mset String.eqb (admins s) d a |}.

Inductive msg :=
| MCreate (sender sub : string)
| MMint (sender : string) (d : denom) (amt : Z)
| MBurn (sender : string) (d : denom) (amt : Z)
| MChangeAdmin (sender : string) (d : denom) (new_admin : string)
| MSetMeta (sender : string) (base : denom) (md_valid : bool) (tag : Z).

Definition sender (m : msg) : string :=
  match m with
  | MCreate c _ | MMint c _ _ | MBurn c _ _ | MChangeAdmin c _ _ | MSetMeta c _ _ _ => c
  end.

(** The denom a privileged (admin-only) message acts on. *)
Definition privileged (m : msg) : option denom :=
  match m with
  | MCreate _ _ => None
  | MMint _ d _ | MBurn _ d _ | MChangeAdmin _ d _ | MSetMeta _ d _ _ => Some d
  end.

Section Model.
  Variable c : cfg.

  Definition valid_addr (s : string) : bool :=
    match addr_of c s with Some _ => true | None => false end.

  (** sdk.Coin.IsValid (denom valid, amount not negative) and amount not zero; math.Int holds at
      most 256 bits by construction. *)
  Definition valid_amount (d : denom) (x : Z) : bool :=
    validate_denom d && (0 <? x) && (x <=? max_int).

  (** ValidateBasic (libmeta.ValidateBasic: signers = [creator], creator a valid address). *)
  Definition validate_basic (m : msg) : bool :=
    valid_addr (sender m) &&
    match m with
    | MCreate cr sub => is_ok (get_token_denom cr sub)
    | MMint _ d x | MBurn _ d x => valid_amount d x
    | MChangeAdmin _ d _ => match deconstruct (addr_of c) d with Some _ => true | None => false end
    | MSetMeta _ b ok _ => ok && match deconstruct (addr_of c) b with Some _ => true | None => false end
    end.

  Definition lift (s : state) (r : res ledger) : res state :=
    match r with Ok l => Ok (with_led s l) | Err e => Err e end.

  (** keeper.mintTo *)
  Definition mint_to (s : state) (d : denom) (x : Z) (to : string) : res state :=
    match deconstruct (addr_of c) d with
    | None => Err EInvalidDenom
    | Some _ =>
      bind (mint_coins (led s) (mod_tf c) d x) (fun l1 =>
        match addr_of c to with
        | None => Err EAddr
        | Some a => lift s (send_to_acct (blocked c) l1 (mod_tf c) a d x)
        end)
    end.

  (** keeper.burnFrom *)
  Definition burn_from (s : state) (d : denom) (x : Z) (from : string) : res state :=
    match deconstruct (addr_of c) d with
    | None => Err EInvalidDenom
    | Some _ =>
      match addr_of c from with
      | None => Err EAddr
      | Some a =>
        lift s (bind (send (led s) a (mod_tf c) d x) (fun l1 => burn_coins l1 (mod_tf c) d x))
      end
    end.

  (** keeper.CreateDenom = validateCreateDenom ; chargeForCreateDenom ; createDenomAfterValidation.
      The fresh bank metadata gets tag 0. *)
  Definition create_denom (s : state) (creator sub : string) : res (state * string) :=
    if has_supply (led s) sub then Err EHasSupply
    else bind (get_token_denom creator sub) (fun d =>
      match meta_of s d with
      | Some _ => Err EExists
      | None =>
        match addr_of c creator with
        | None => Err EAddr
        | Some a =>
          bind (lift s (match fee c with
                        | [] => Ok (led s)
                        | cs => send_coins (led s) a (mod_distr c) cs
                        end)) (fun s1 =>
            (* setAuthorityMetadata validates the admin: the creator parsed just above *)
            Ok (set_admin (set_meta s1 d 0) d creator, d))
        end
      end).

  (** The msg server. *)
  Definition handler (s : state) (m : msg) : res (state * string) :=
    match m with
    | MCreate cr sub => create_denom s cr sub
    | MMint cr d x =>
      match meta_of s d with
      | None => Err ENotExist
      | Some _ =>
        if String.eqb cr (admin_str s d)
        then bind (mint_to s d x cr) (fun s' => Ok (s', EmptyString))
        else Err EUnauthorized
      end
    | MBurn cr d x =>
      if String.eqb cr (admin_str s d)
      then bind (burn_from s d x cr) (fun s' => Ok (s', EmptyString))
      else Err EUnauthorized
    | MChangeAdmin cr d na =>
      if String.eqb cr (admin_str s d)
      then (* setAdmin -> setAuthorityMetadata -> metadata.Validate *)
        if String.eqb na EmptyString || valid_addr na
        then Ok (set_admin s d na, EmptyString) else Err EAddr
      else Err EUnauthorized
    | MSetMeta cr b ok tag =>
      if ok then
        if String.eqb cr (admin_str s b)
        then Ok (set_meta s b tag, EmptyString)
        else Err EUnauthorized
      else Err EMeta
    end.

  (** Delivery: ValidateBasic, then the handler, committed only on success. *)
  Definition deliver (s : state) (m : msg) : state * res string :=
    if validate_basic m then
      match handler s m with
      | Ok (s', r) => (s', Ok r)
      | Err e => (s, Err e)
      end
    else (s, Err EValidate).

  (** Everything else that happens to the ledger while the factory is in use: users send coins
      to each other, and OTHER modules mint to / burn from accounts (the explicit external
      deltas of the supply theorem). *)
  Inductive op :=
  | OMsg (m : msg)
  | OXSend (from to : acct) (d : denom) (x : Z)
  | OXMint (to : acct) (d : denom) (x : Z)
  | OXBurn (from : acct) (d : denom) (x : Z).

  Definition xmint (l : ledger) (to : acct) (d : denom) (x : Z) : res ledger :=
    if 0 <=? x then
      bind (add_bal l to d x) (fun l1 =>
        let v := supply l1 d + x in if v <=? max_int then Ok (set_sup l1 d v) else Err EPanic)
    else Err EValidate.
  Definition xburn (l : ledger) (from : acct) (d : denom) (x : Z) : res ledger :=
    if 0 <=? x then
      bind (sub_bal l from d x) (fun l1 =>
        let v := supply l1 d - x in if 0 <=? v then Ok (set_sup l1 d v) else Err EPanic)
    else Err EValidate.

  Definition step_out (s : state) (o : op) : state * res string :=
    match o with
    | OMsg m => deliver s m
    | OXSend f t d x =>
      match (if 0 <=? x then send (led s) f t d x else Err EValidate) with
      | Ok l => (with_led s l, Ok EmptyString) | Err e => (s, Err e) end
    | OXMint t d x =>
      match xmint (led s) t d x with Ok l => (with_led s l, Ok EmptyString) | Err e => (s, Err e) end
    | OXBurn f d x =>
      match xburn (led s) f d x with Ok l => (with_led s l, Ok EmptyString) | Err e => (s, Err e) end
    end.

  Definition step (s : state) (o : op) : state := fst (step_out s o).
  Definition run (ops : list op) (s : state) : state := fold_left step ops s.
  Definition succeeded (s : state) (o : op) : bool := is_ok (snd (step_out s o)).

  (** Accounting over a history: what the factory minted / burned of [d] by successful messages,
      what other modules minted / burned of it, and which denoms successful creates returned. *)
  Definition minted_by (d : denom) (s : state) (o : op) : Z :=
    match o with
    | OMsg (MMint _ d' x) => if String.eqb d d' && succeeded s o then x else 0
    | _ => 0
    end.
  Definition burned_by (d : denom) (s : state) (o : op) : Z :=
    match o with
    | OMsg (MBurn _ d' x) => if String.eqb d d' && succeeded s o then x else 0
    | _ => 0
    end.
  Definition ext_delta (d : denom) (s : state) (o : op) : Z :=
    match o with
    | OXMint _ d' x => if String.eqb d d' && succeeded s o then x else 0
    | OXBurn _ d' x => if String.eqb d d' && succeeded s o then - x else 0
    | _ => 0
    end.

  Fixpoint total (f : state -> op -> Z) (ops : list op) (s : state) : Z :=
    match ops with
    | [] => 0
    | o :: r => f s o + total f r (step s o)
    end.

  Fixpoint created (ops : list op) (s : state) : list denom :=
    match ops with
    | [] => []
    | o :: r =>
      match o, snd (step_out s o) with
      | OMsg (MCreate _ _), Ok d => d :: created r (step s o)
      | _, _ => created r (step s o)
      end
    end.
End Model.
