(** C16 — a small model of the cosmos-sdk bank keeper as x/tokenfactory uses it: balances and
    total supply per denomination, math.Int bounds, mint / burn through a module account, sends
    with insufficient-funds errors, blocked recipients.  Definitions only (proofs: LedgerProofs.v).

    Maps are association lists updated in place ([mset] replaces the binding of an existing key),
    so a history touching k distinct keys keeps k bindings: the correspondence cases stay cheap
    under [vm_compute].  All reasoning goes through [mget_mset] (LedgerProofs.v). *)
From Coq Require Import List ZArith Bool String.
Import ListNotations.
Open Scope Z_scope.

Section Map.
  Context {K V : Type} (keqb : K -> K -> bool).
  Fixpoint mget (m : list (K * V)) (k : K) : option V :=
    match m with
    | [] => None
    | (k', v) :: r => if keqb k k' then Some v else mget r k
    end.
  Fixpoint mset (m : list (K * V)) (k : K) (v : V) : list (K * V) :=
    match m with
    | [] => [(k, v)]
    | (k', v') :: r => if keqb k k' then (k, v) :: r else (k', v') :: mset r k v
    end.
End Map.

(** Outcome classes of a delivered message (the projection X compares). *)
Inductive err :=
| EValidate      (* ValidateBasic rejected the message (baseapp validateBasicTxMsgs / wasm bindings) *)
| ENotExist      (* types.ErrDenomDoesNotExist: no bank metadata *)
| EUnauthorized  (* types.ErrUnauthorized: creator is not the admin *)
| EInvalidDenom  (* types.ErrInvalidDenom: denom does not deconstruct as factory/<addr>/<sub> *)
| EExists        (* types.ErrDenomExists *)
| EHasSupply     (* "can't create subdenoms that are the same as a native denom" *)
| ENaming        (* GetTokenDenom: subdenom / creator too long, '/' in creator, invalid denom *)
| EFunds         (* sdkerrors.ErrInsufficientFunds *)
| EBlocked       (* bank: "... is not allowed to receive funds" *)
| EAddr          (* bech32 parse error of the new admin *)
| EMeta          (* banktypes.Metadata.Validate *)
| EPanic         (* math.Int overflow / negative coin: a Go panic, recovered by baseapp's runTx *)
| EBadReq        (* wasm bindings: wasmvmtypes.InvalidRequest (burn_from_address / metadata base) *)
| EAnte.         (* x/paloma VerifyAuthorisedSignatureDecorator refused the transaction *)

Inductive res (A : Type) := Ok (a : A) | Err (e : err).
Arguments Ok {A} a.
Arguments Err {A} e.

Definition bind {A B} (r : res A) (f : A -> res B) : res B :=
  match r with Ok a => f a | Err e => Err e end.
Definition is_ok {A} (r : res A) : bool := match r with Ok _ => true | Err _ => false end.

Definition denom := string.
Definition acct := Z.

Definition bkey_eqb (a b : acct * denom) : bool := (fst a =? fst b) && String.eqb (snd a) (snd b).

Record ledger := { l_bal : list ((acct * denom) * Z); l_sup : list (denom * Z) }.

Definition bal (l : ledger) (a : acct) (d : denom) : Z :=
  match mget bkey_eqb (l_bal l) (a, d) with Some v => v | None => 0 end.
Definition supply (l : ledger) (d : denom) : Z :=
  match mget String.eqb (l_sup l) d with Some v => v | None => 0 end.

(** sdk math.Int panics when a result needs more than 256 bits. *)
Definition max_int : Z := 2 ^ 256 - 1.

Definition set_bal (l : ledger) (a : acct) (d : denom) (v : Z) : ledger :=
  {| l_bal := mset bkey_eqb (l_bal l) (a, d) v; l_sup := l_sup l |}.
Definition set_sup (l : ledger) (d : denom) (v : Z) : ledger :=
  {| l_bal := l_bal l; l_sup := mset String.eqb (l_sup l) d v |}.

(** addCoins: balance.Add panics on overflow. *)
Definition add_bal (l : ledger) (a : acct) (d : denom) (x : Z) : res ledger :=
  let v := bal l a d + x in if v <=? max_int then Ok (set_bal l a d v) else Err EPanic.
(** subUnlockedCoins: insufficient funds is an error (no vesting accounts here). *)
Definition sub_bal (l : ledger) (a : acct) (d : denom) (x : Z) : res ledger :=
  if x <=? bal l a d then Ok (set_bal l a d (bal l a d - x)) else Err EFunds.

(** SendCoins: subtract from the sender first, then add to the recipient. *)
Definition send (l : ledger) (from to : acct) (d : denom) (x : Z) : res ledger :=
  bind (sub_bal l from d x) (fun l1 => add_bal l1 to d x).

(** MintCoins(module): module balance += x, then supply += x. *)
Definition mint_coins (l : ledger) (m : acct) (d : denom) (x : Z) : res ledger :=
  bind (add_bal l m d x) (fun l1 =>
    let v := supply l1 d + x in if v <=? max_int then Ok (set_sup l1 d v) else Err EPanic).

(** BurnCoins(module): module balance -= x, then supply -= x (Coins.Sub panics below zero). *)
Definition burn_coins (l : ledger) (m : acct) (d : denom) (x : Z) : res ledger :=
  bind (sub_bal l m d x) (fun l1 =>
    let v := supply l1 d - x in if 0 <=? v then Ok (set_sup l1 d v) else Err EPanic).

(** SendCoinsFromModuleToAccount: blocked recipients are refused before anything moves. *)
Definition send_to_acct (blocked : acct -> bool) (l : ledger) (m to : acct) (d : denom) (x : Z) : res ledger :=
  if blocked to then Err EBlocked else send l m to d x.

(** Multi-coin SendCoins (the creation fee): all subtractions, then all additions. *)
Fixpoint sub_coins (l : ledger) (a : acct) (cs : list (denom * Z)) : res ledger :=
  match cs with
  | [] => Ok l
  | (d, x) :: r => bind (sub_bal l a d x) (fun l1 => sub_coins l1 a r)
  end.
Fixpoint add_coins (l : ledger) (a : acct) (cs : list (denom * Z)) : res ledger :=
  match cs with
  | [] => Ok l
  | (d, x) :: r => bind (add_bal l a d x) (fun l1 => add_coins l1 a r)
  end.
Definition send_coins (l : ledger) (from to : acct) (cs : list (denom * Z)) : res ledger :=
  bind (sub_coins l from cs) (fun l1 => add_coins l1 to cs).

(** HasSupply: the supply store drops zero entries, so "has" means non-zero. *)
Definition has_supply (l : ledger) (d : denom) : bool := negb (supply l d =? 0).
