(** C16 — the denomination codec of x/tokenfactory/types/denoms.go over byte strings (Coq
    [string] = list of bytes, as Go's string): sdk.ValidateDenom (the default regular expression
    [a-zA-Z][a-zA-Z0-9/:._-]{2,127}, anchored), GetTokenDenom, DeconstructDenom with
    strings.Split / strings.Join on "/".  Bech32 is NOT modelled: [addr_of] (an arbitrary
    function, string -> account) stands for sdk.AccAddressFromBech32.  Definitions only. *)
From Coq Require Import List ZArith NArith Bool String Ascii.
From Paloma Require Import TokenFactory.Ledger.
From Paloma Require Gen.C16.
Import ListNotations.
Open Scope Z_scope.

Definition code (c : ascii) : N := N_of_ascii c.
Definition between (lo hi x : N) : bool := (lo <=? x)%N && (x <=? hi)%N.
Definition alpha_code (n : N) : bool := between 65 90 n || between 97 122 n.
Definition is_alpha (c : ascii) : bool := alpha_code (code c).
(** "/" is byte 47 = 0b00101111 (matching on the bits keeps the split cheap under vm_compute) *)
Definition is_slash (c : ascii) : bool :=
  match c with Ascii true true true true false true false false => true | _ => false end.
(** letters, digits, '/' ':' '.' '_' '-' ; the byte code is computed once *)
Definition is_denom_char (c : ascii) : bool :=
  let n := code c in
  alpha_code n || between 45 58 n || (n =? 95)%N.

Fixpoint all_chars (p : ascii -> bool) (s : string) : bool :=
  match s with EmptyString => true | String c r => p c && all_chars p r end.
Fixpoint any_char (p : ascii -> bool) (s : string) : bool :=
  match s with EmptyString => false | String c r => p c || any_char p r end.

Definition slen (s : string) : Z := Z.of_nat (String.length s).

Definition validate_denom (s : string) : bool :=
  match s with
  | EmptyString => false
  | String c r => is_alpha c && all_chars is_denom_char r && (2 <=? slen r) && (slen r <=? 127)
  end.

(** strings.Split(s, "/"): never empty. *)
Fixpoint split_slash (s : string) : list string :=
  match s with
  | EmptyString => [EmptyString]
  | String c r =>
    if is_slash c then EmptyString :: split_slash r
    else match split_slash r with
         | h :: t => String c h :: t
         | [] => [String c EmptyString]
         end
  end.

(** strings.Join(l, "/") *)
Fixpoint join_slash (l : list string) : string :=
  match l with
  | [] => EmptyString
  | x :: r => match r with [] => x | _ => x ++ String "/" (join_slash r) end
  end.

Definition contains_slash (s : string) : bool := any_char is_slash s.

(** The constants come from the translated source (Gen.C16). *)
Definition module_denom_prefix : string := Gen.C16.module_denom_prefix.
Definition max_subdenom_length : Z := Gen.C16.max_subdenom_length.
Definition max_creator_length : Z := Gen.C16.max_creator_length.

Definition construct (creator sub : string) : string :=
  module_denom_prefix ++ String "/" (creator ++ String "/" sub).

(** GetTokenDenom *)
Definition get_token_denom (creator sub : string) : res string :=
  if max_subdenom_length <? slen sub then Err ENaming
  else if max_creator_length <? slen creator then Err ENaming
  else if contains_slash creator then Err ENaming
  else let d := construct creator sub in
       if validate_denom d then Ok d else Err ENaming.

Section Deconstruct.
  Variable addr_of : string -> option acct.

  (** DeconstructDenom: (creator account, subdenom). *)
  Definition deconstruct (d : string) : option (acct * string) :=
    if validate_denom d then
      match split_slash d with
      | p0 :: p1 :: p2 :: rest =>
        if String.eqb p0 module_denom_prefix then
          match addr_of p1 with
          | Some a => Some (a, join_slash (p2 :: rest))
          | None => None
          end
        else None
      | _ => None
      end
    else None.
End Deconstruct.
