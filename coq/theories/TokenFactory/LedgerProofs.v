(** C16 — lemmas about the association-list maps and the bank ledger of Ledger.v. *)
From Coq Require Import List ZArith Bool String Lia.
From Paloma Require Import TokenFactory.Ledger.
Import ListNotations.
Open Scope Z_scope.

Section MapFacts.
  Context {K V : Type} (keqb : K -> K -> bool).
  Hypothesis keqb_eq : forall a b, keqb a b = true <-> a = b.

  Lemma keqb_refl a : keqb a a = true.
  Proof. now apply keqb_eq. Qed.

  Lemma keqb_neq a b : a <> b -> keqb a b = false.
  Proof. intros N. destruct (keqb a b) eqn:E; [apply keqb_eq in E; contradiction | reflexivity]. Qed.

  Lemma mget_mset (m : list (K * V)) k v k' :
    mget keqb (mset keqb m k v) k' = if keqb k' k then Some v else mget keqb m k'.
  Proof.
    induction m as [|[k0 v0] r IH]; simpl.
    - destruct (keqb k' k); reflexivity.
    - destruct (keqb k k0) eqn:E0.
      + apply keqb_eq in E0; subst k0. simpl. destruct (keqb k' k); reflexivity.
      + simpl. destruct (keqb k' k0) eqn:E1.
        * apply keqb_eq in E1; subst k0.
          destruct (keqb k' k) eqn:E2; [|reflexivity].
          apply keqb_eq in E2; subst k'. rewrite keqb_refl in E0. discriminate.
        * apply IH.
  Qed.

  Lemma mget_mset_same (m : list (K * V)) k v : mget keqb (mset keqb m k v) k = Some v.
  Proof. rewrite mget_mset, keqb_refl. reflexivity. Qed.

  Lemma mget_mset_other (m : list (K * V)) k v k' : k' <> k -> mget keqb (mset keqb m k v) k' = mget keqb m k'.
  Proof. intros N. rewrite mget_mset, (keqb_neq _ _ N). reflexivity. Qed.
End MapFacts.

Lemma bkey_eqb_eq (a b : acct * denom) : bkey_eqb a b = true <-> a = b.
Proof.
  destruct a as [a d], b as [a' d']; unfold bkey_eqb; simpl.
  rewrite andb_true_iff, Z.eqb_eq, String.eqb_eq. split.
  - intros [-> ->]; reflexivity.
  - intros E; inversion E; auto.
Qed.

(** ---- balances and supply under the primitive updates ---- *)

Lemma bal_set_bal l a d v a' d' :
  bal (set_bal l a d v) a' d' = if bkey_eqb (a', d') (a, d) then v else bal l a' d'.
Proof.
  unfold bal, set_bal; simpl. rewrite (mget_mset bkey_eqb bkey_eqb_eq).
  destruct (bkey_eqb (a', d') (a, d)); reflexivity.
Qed.

Lemma bal_set_bal_same l a d v : bal (set_bal l a d v) a d = v.
Proof.
  rewrite bal_set_bal. replace (bkey_eqb (a, d) (a, d)) with true; [reflexivity|].
  symmetry; now apply bkey_eqb_eq.
Qed.

Lemma bal_set_bal_other l a d v a' d' :
  (a', d') <> (a, d) -> bal (set_bal l a d v) a' d' = bal l a' d'.
Proof.
  intros N. rewrite bal_set_bal. destruct (bkey_eqb (a', d') (a, d)) eqn:E; [|reflexivity].
  apply bkey_eqb_eq in E. contradiction.
Qed.

Lemma supply_set_bal l a d v d' : supply (set_bal l a d v) d' = supply l d'.
Proof. reflexivity. Qed.

Lemma bal_set_sup l d v a' d' : bal (set_sup l d v) a' d' = bal l a' d'.
Proof. reflexivity. Qed.

Lemma supply_set_sup l d v d' :
  supply (set_sup l d v) d' = if String.eqb d' d then v else supply l d'.
Proof.
  unfold supply, set_sup; simpl. rewrite (mget_mset String.eqb String.eqb_eq).
  destruct (String.eqb d' d); reflexivity.
Qed.

Lemma supply_set_sup_same l d v : supply (set_sup l d v) d = v.
Proof. rewrite supply_set_sup, String.eqb_refl. reflexivity. Qed.

Lemma supply_set_sup_other l d v d' : d' <> d -> supply (set_sup l d v) d' = supply l d'.
Proof.
  intros N. rewrite supply_set_sup. destruct (String.eqb d' d) eqn:E; [|reflexivity].
  apply String.eqb_eq in E. contradiction.
Qed.

(** ---- the partial operations: what a success says ---- *)

Lemma add_bal_ok l a d x l' :
  add_bal l a d x = Ok l' -> l' = set_bal l a d (bal l a d + x) /\ bal l a d + x <= max_int.
Proof.
  unfold add_bal. destruct (bal l a d + x <=? max_int) eqn:E; [|discriminate].
  intros H; inversion H. split; [reflexivity | now apply Z.leb_le].
Qed.

Lemma sub_bal_ok l a d x l' :
  sub_bal l a d x = Ok l' -> l' = set_bal l a d (bal l a d - x) /\ x <= bal l a d.
Proof.
  unfold sub_bal. destruct (x <=? bal l a d) eqn:E; [|discriminate].
  intros H; inversion H. split; [reflexivity | now apply Z.leb_le].
Qed.

(** A key for "this balance, in this state": every characterisation below is stated as a
    function of the old ledger, so [lia] can finish. *)
Definition bdelta (a : acct) (d : denom) (a' : acct) (d' : denom) (x : Z) : Z :=
  if bkey_eqb (a', d') (a, d) then x else 0.
Definition sdelta (d d' : denom) (x : Z) : Z := if String.eqb d' d then x else 0.

Lemma bdelta_same a d x : bdelta a d a d x = x.
Proof. unfold bdelta. replace (bkey_eqb (a, d) (a, d)) with true; [reflexivity|]. symmetry; now apply bkey_eqb_eq. Qed.
Lemma bdelta_other a d a' d' x : (a', d') <> (a, d) -> bdelta a d a' d' x = 0.
Proof.
  intros N. unfold bdelta. destruct (bkey_eqb (a', d') (a, d)) eqn:E; [|reflexivity].
  apply bkey_eqb_eq in E; contradiction.
Qed.
Lemma bdelta_denom a d a' d' x : d' <> d -> bdelta a d a' d' x = 0.
Proof. intros N. apply bdelta_other. intros E; inversion E; contradiction. Qed.
Lemma sdelta_same d x : sdelta d d x = x.
Proof. unfold sdelta. now rewrite String.eqb_refl. Qed.
Lemma sdelta_other d d' x : d' <> d -> sdelta d d' x = 0.
Proof. intros N. unfold sdelta. destruct (String.eqb d' d) eqn:E; [|reflexivity]. apply String.eqb_eq in E; contradiction. Qed.

Lemma add_bal_spec l a d x l' :
  add_bal l a d x = Ok l' ->
  (forall a' d', bal l' a' d' = bal l a' d' + bdelta a d a' d' x) /\
  (forall d', supply l' d' = supply l d').
Proof.
  intros H. apply add_bal_ok in H as [-> _]. split; [|reflexivity].
  intros a' d'. rewrite bal_set_bal. unfold bdelta.
  destruct (bkey_eqb (a', d') (a, d)) eqn:E; [|lia].
  apply bkey_eqb_eq in E; inversion E; subst. lia.
Qed.

Lemma sub_bal_spec l a d x l' :
  sub_bal l a d x = Ok l' ->
  (forall a' d', bal l' a' d' = bal l a' d' - bdelta a d a' d' x) /\
  (forall d', supply l' d' = supply l d') /\ x <= bal l a d.
Proof.
  intros H. apply sub_bal_ok in H as [-> Hle]. split; [|split; [reflexivity|exact Hle]].
  intros a' d'. rewrite bal_set_bal. unfold bdelta.
  destruct (bkey_eqb (a', d') (a, d)) eqn:E; [|lia].
  apply bkey_eqb_eq in E; inversion E; subst. lia.
Qed.

Lemma send_spec l f t d x l' :
  send l f t d x = Ok l' ->
  (forall a' d', bal l' a' d' = bal l a' d' - bdelta f d a' d' x + bdelta t d a' d' x) /\
  (forall d', supply l' d' = supply l d') /\ x <= bal l f d.
Proof.
  unfold send, bind. destruct (sub_bal l f d x) as [l1|] eqn:E1; [|discriminate].
  intros E2. apply sub_bal_spec in E1 as (B1 & S1 & Hle). apply add_bal_spec in E2 as (B2 & S2).
  split; [|split; [|exact Hle]].
  - intros a' d'. rewrite B2, B1. reflexivity.
  - intros d'. rewrite S2, S1. reflexivity.
Qed.

Lemma mint_coins_spec l m d x l' :
  mint_coins l m d x = Ok l' ->
  (forall a' d', bal l' a' d' = bal l a' d' + bdelta m d a' d' x) /\
  (forall d', supply l' d' = supply l d' + sdelta d d' x).
Proof.
  unfold mint_coins, bind. destruct (add_bal l m d x) as [l1|] eqn:E1; [|discriminate].
  destruct (supply l1 d + x <=? max_int); [|discriminate].
  intros H; inversion H; subst l'. apply add_bal_spec in E1 as (B1 & S1). split.
  - intros a' d'. rewrite bal_set_sup. apply B1.
  - intros d'. rewrite supply_set_sup. unfold sdelta. destruct (String.eqb d' d) eqn:E.
    + apply String.eqb_eq in E; subst d'. rewrite S1. reflexivity.
    + rewrite S1. lia.
Qed.

Lemma burn_coins_spec l m d x l' :
  burn_coins l m d x = Ok l' ->
  (forall a' d', bal l' a' d' = bal l a' d' - bdelta m d a' d' x) /\
  (forall d', supply l' d' = supply l d' - sdelta d d' x).
Proof.
  unfold burn_coins, bind. destruct (sub_bal l m d x) as [l1|] eqn:E1; [|discriminate].
  destruct (0 <=? supply l1 d - x); [|discriminate].
  intros H; inversion H; subst l'. apply sub_bal_spec in E1 as (B1 & S1 & _). split.
  - intros a' d'. rewrite bal_set_sup. apply B1.
  - intros d'. rewrite supply_set_sup. unfold sdelta. destruct (String.eqb d' d) eqn:E.
    + apply String.eqb_eq in E; subst d'. rewrite S1. reflexivity.
    + rewrite S1. lia.
Qed.

Lemma sub_coins_supply cs : forall l a l', sub_coins l a cs = Ok l' -> forall d, supply l' d = supply l d.
Proof.
  induction cs as [|[d0 x0] r IH]; simpl; intros l a l' H d.
  - inversion H; reflexivity.
  - unfold bind in H. destruct (sub_bal l a d0 x0) as [l1|] eqn:E1; [|discriminate].
    apply sub_bal_spec in E1 as (_ & S1 & _). rewrite (IH _ _ _ H), S1. reflexivity.
Qed.

Lemma add_coins_supply cs : forall l a l', add_coins l a cs = Ok l' -> forall d, supply l' d = supply l d.
Proof.
  induction cs as [|[d0 x0] r IH]; simpl; intros l a l' H d.
  - inversion H; reflexivity.
  - unfold bind in H. destruct (add_bal l a d0 x0) as [l1|] eqn:E1; [|discriminate].
    apply add_bal_spec in E1 as (_ & S1). rewrite (IH _ _ _ H), S1. reflexivity.
Qed.

Lemma send_coins_supply l f t cs l' :
  send_coins l f t cs = Ok l' -> forall d, supply l' d = supply l d.
Proof.
  unfold send_coins, bind. destruct (sub_coins l f cs) as [l1|] eqn:E1; [|discriminate].
  intros E2 d. rewrite (add_coins_supply _ _ _ _ E2), (sub_coins_supply _ _ _ _ E1). reflexivity.
Qed.

(** A multi-coin send leaves every denomination it does not name alone. *)
Lemma sub_coins_bal_other cs : forall l a l', sub_coins l a cs = Ok l' ->
  forall a' d', ~ In d' (map fst cs) -> bal l' a' d' = bal l a' d'.
Proof.
  induction cs as [|[d0 x0] r IH]; simpl; intros l a l' H a' d' N.
  - inversion H; reflexivity.
  - unfold bind in H. destruct (sub_bal l a d0 x0) as [l1|] eqn:E1; [|discriminate].
    apply sub_bal_spec in E1 as (B1 & _ & _).
    rewrite (IH _ _ _ H a' d'); [|tauto]. rewrite B1, bdelta_denom; [lia|]. intros E; apply N; auto.
Qed.

Lemma add_coins_bal_other cs : forall l a l', add_coins l a cs = Ok l' ->
  forall a' d', ~ In d' (map fst cs) -> bal l' a' d' = bal l a' d'.
Proof.
  induction cs as [|[d0 x0] r IH]; simpl; intros l a l' H a' d' N.
  - inversion H; reflexivity.
  - unfold bind in H. destruct (add_bal l a d0 x0) as [l1|] eqn:E1; [|discriminate].
    apply add_bal_spec in E1 as (B1 & _).
    rewrite (IH _ _ _ H a' d'); [|tauto]. rewrite B1, bdelta_denom; [lia|]. intros E; apply N; auto.
Qed.

Lemma send_coins_bal_other l f t cs l' :
  send_coins l f t cs = Ok l' ->
  forall a' d', ~ In d' (map fst cs) -> bal l' a' d' = bal l a' d'.
Proof.
  unfold send_coins, bind. destruct (sub_coins l f cs) as [l1|] eqn:E1; [|discriminate].
  intros E2 a' d' N.
  rewrite (add_coins_bal_other _ _ _ _ E2 a' d' N). apply (sub_coins_bal_other _ _ _ _ E1 a' d' N).
Qed.
