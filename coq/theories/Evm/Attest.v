(** C07 — executable model of the attestation path of x/evm:
      keeper/attest.go            attestMessageWrapper, routerAttester, attestTransactionIntegrity,
                                  isTxProcessed / setTxAsAlreadyProcessed
      keeper/attest_*.go          the five per-action attesters
      types/eth_txable.go         VerifyAgainstTX (signature-prefix loop i = len(sigs) .. 1)
      consensus/keeper/attest.go  CheckAndProcessAttestedMessages (the end-blocker loop)

    Definitions only.  Everything the property does not speak about is a Section variable with
    NOTHING assumed about it (the packing of the expected call, the transaction hash, the lookup of
    the snapshot named by the public-access data, what an action does to the other stores once its
    transaction has been accepted).  Evidence consensus (C04) is abstracted to "the winner, if any,
    stored with the message". *)
From Coq Require Import List ZArith Bool.
Import ListNotations.
Open Scope Z_scope.

Inductive kind := KUploadCompass | KUploadUser | KUpdateValset | KSubmitLogicCall | KHandover.

Definition kind_eqb (a b : kind) : bool :=
  match a, b with
  | KUploadCompass, KUploadCompass | KUploadUser, KUploadUser | KUpdateValset, KUpdateValset
  | KSubmitLogicCall, KSubmitLogicCall | KHandover, KHandover => true
  | _, _ => false
  end.

(** What attestRouter returned, by class.  The wrapper flushes its cache context on
    [RNil], [RNotVerified] (errors.Is ErrEthTxNotVerified) and [RTxFailed] (ErrEthTxFailed) only. *)
Inductive result :=
| RSkipped          (* no such message / no evidence / no consensus: returns nil, nothing touched *)
| RNil
| RNotVerified
| RTxFailed
| RAlreadyProcessed (* ErrUnexpectedError "transaction ... is already processed" *)
| ROther.           (* any other error: unreadable receipt, no compass, unknown proof type, the
                       action's own follow-up failed *)

(** The guards an action type's attester puts between the winner and its follow-up
    (x/evm/keeper/attest_*.go, extracted per attester into Gen/C07.v): is the processed-tx set
    consulted, is the last compass contract required, is VerifyAgainstTX called. *)
Record guard_set := { g_processed : bool; g_compass : bool; g_verify : bool }.
Definition full_guards : guard_set := {| g_processed := true; g_compass := true; g_verify := true |}.

Definition flushes (r : result) : bool :=
  match r with RNil | RNotVerified | RTxFailed => true | _ => false end.

(** ethtypes.ReceiptStatusSuccessful *)
Definition receipt_status_successful : Z := 1.

Section Attest.
  (** B: the consensus message body (action with its fields, turnstone id, assignee and the
         assignee's remote address = the relayer);  S: one collected signature (SignData);
      V: a compass valset;  D: call data;  H: transaction hash;  T: remote transaction;
      W: all other stores (snapshots, deployments, chain infos, user contracts, ...);
      E: whatever else the follow-up of an action reads (block time, relayer pick, ...). *)
  Variables B S V D H T W E : Type.

  Variable kind_of : B -> kind.
  (** which guards the attester of an action type runs (all of them, through the shared
      attestTransactionIntegrity, as long as the source says so) *)
  Variable guards : kind -> guard_set.
  (** m.Fees != nil (submit_logic_call and user contract uploads; set once the gas estimate is
      elected, cleared again by a retry) *)
  Variable fees_present : B -> bool.
  (** the compass call VerifyAgainstTX re-packs: body, message id, elected gas estimate,
      valset, the signatures handed to BuildCompassConsensus *)
  Variable expected_calldata : B -> Z -> Z -> V -> list S -> D.
  (** UploadSmartContract: bytecode ++ packed constructor input (no compass involved) *)
  Variable expected_deploy : B -> D.
  Variable D_eqb : D -> D -> bool.      (* bytes.Equal *)
  Variable H_eqb : H -> H -> bool.      (* store key equality *)
  Variable tx_hash : T -> H.
  Variable tx_data : T -> D.
  (** transformSnapshotToCompass (FindSnapshotByID (PublicAccessData.ValsetID)); id 0 or an
      unknown id give the zero valset *)
  Variable valset_at : W -> Z -> V.
  Variable compass_present : W -> bool. (* GetLastCompassContract succeeds *)

  Inductive winner :=
  | WTx (t : T) (receipt : option Z)    (* TxExecutedProof; None = receipt bytes do not decode *)
  | WErr                                (* SmartContractExecutionErrorProof *)
  | WOther.                             (* any other proof type *)

  Record msg := {
    m_id : Z;
    m_body : B;
    m_gas : Z;                (* elected gas estimate *)
    m_pad : option Z;         (* PublicAccessData.ValsetID once the relayer has set it *)
    m_sigs : list S;          (* in arrival order *)
    m_winner : option winner  (* what VerifyEvidence elects from the stored evidence *)
  }.

  (** valsetID stays 0 when there is no public-access data *)
  Definition m_vsid (m : msg) : Z := match m_pad m with Some v => v | None => 0 end.

  (** the follow-up of an accepted transaction (SetSnapshotOnChain, deployment record update,
      SetSmartContractAsActive, handover scheduling, user deployment marked active ...):
      None = it returned an error; otherwise the new stores and the messages it enqueued *)
  Variable apply_effect : E -> msg -> T -> W -> option (W * list B).
  (** the follow-up of an error proof (retry, deployment deleted, user deployment marked failed) *)
  Variable on_error_proof : E -> msg -> W -> W * list B.

  Record effect := {
    e_msg : msg;      (* the message as it stood in the queue when its transaction was accepted *)
    e_tx : T;
    e_prefix : nat;   (* how many signatures the matching call carried (0 for a deployment) *)
    e_vs : V          (* the valset the call was packed with *)
  }.

  Record state := {
    queue : list msg;          (* ascending ids *)
    next_id : Z;               (* the consensus keeper's id counter *)
    processed : list H;        (* "tx-processed" store *)
    effects : list effect;     (* ghost: one entry per committed success follow-up *)
    world : W;
    relay_log : list (Z * bool) (* metrix: (message id, WasRelayedSuccessfully) *)
  }.

  Definition init (w : W) (n : Z) : state :=
    {| queue := []; next_id := n; processed := []; effects := []; world := w; relay_log := [] |}.

  (* ---------- VerifyAgainstTX ---------- *)

  (** for i := len(sigs); i > 0; i-- { if bytes.Equal(tx.Data(), pack(sigs[0:i])) return nil } *)
  Fixpoint match_prefix (f : list S -> D) (data : D) (sigs : list S) (i : nat) : option nat :=
    match i with
    | O => None
    | Datatypes.S j => if D_eqb data (f (firstn i sigs)) then Some i else match_prefix f data sigs j
    end.

  Definition verify (m : msg) (vs : V) (data : D) : option nat :=
    let loop := match_prefix (expected_calldata (m_body m) (m_id m) (m_gas m) vs) data
                             (m_sigs m) (length (m_sigs m)) in
    match kind_of (m_body m) with
    | KUploadCompass => if D_eqb data (expected_deploy (m_body m)) then Some O else None
    | KSubmitLogicCall | KUploadUser =>
      (* since 44704190: a message whose fees were never set matches no transaction *)
      if fees_present (m_body m) then loop else None
    | _ => loop
    end.

  (* ---------- queue helpers ---------- *)

  Fixpoint find_msg (id : Z) (q : list msg) : option msg :=
    match q with
    | [] => None
    | m :: r => if m_id m =? id then Some m else find_msg id r
    end.

  Definition remove_msg (id : Z) (q : list msg) : list msg :=
    filter (fun m => negb (m_id m =? id)) q.

  Fixpoint update_msg (id : Z) (f : msg -> msg) (q : list msg) : list msg :=
    match q with
    | [] => []
    | m :: r => if m_id m =? id then f m :: r else m :: update_msg id f r
    end.

  Definition new_msg (id : Z) (b : B) : msg :=
    {| m_id := id; m_body := b; m_gas := 0; m_pad := None; m_sigs := []; m_winner := None |}.

  (** Put for each body, ids from the counter *)
  Fixpoint enqueue_all (bs : list B) (q : list msg) (n : Z) : list msg * Z :=
    match bs with
    | [] => (q, n)
    | b :: r => enqueue_all r (q ++ [new_msg n b]) (n + 1)
    end.

  (** updateValsetAttester: "now remove all older update valsets" *)
  Definition drop_older_valset_updates (id : Z) (q : list msg) : list msg :=
    filter (fun m => negb (kind_eqb (kind_of (m_body m)) KUpdateValset && (m_id m <? id))) q.

  Fixpoint mem_hash (h : H) (l : list H) : bool :=
    match l with [] => false | x :: r => H_eqb h x || mem_hash h r end.

  (* ---------- attestRouter on one message ---------- *)

  (** the flag routerAttester's deferred function hands to the metrix listener *)
  Definition relay_success_flag (w : winner) (r : result) : bool :=
    match w with WTx _ _ => true | _ => false end.

  Definition attest_msg (s : state) (m : msg) (env : E) : state * result :=
    match m_winner m with
    | None => (s, RSkipped)
    | Some w =>
      let commit (r : result) (q : list msg) (n : Z) (p : list H) (ef : list effect) (wd : W) :=
        ({| queue := remove_msg (m_id m) q; next_id := n; processed := p; effects := ef;
            world := wd; relay_log := relay_log s ++ [(m_id m, relay_success_flag w r)] |}, r) in
      match w with
      | WOther => (s, ROther)
      | WErr =>
        let '(wd, bs) := on_error_proof env m (world s) in
        let '(q, n) := enqueue_all bs (queue s) (next_id s) in
        commit RNil q n (processed s) (effects s) wd
      | WTx t receipt =>
        let gs := guards (kind_of (m_body m)) in
        let p := tx_hash t :: processed s in        (* deferred setTxAsAlreadyProcessed *)
        match receipt with
        | None => (s, ROther)
        | Some st =>
          if negb (st =? receipt_status_successful) then
            commit RTxFailed (queue s) (next_id s) p (effects s) (world s)
          else if g_processed gs && mem_hash (tx_hash t) (processed s) then (s, RAlreadyProcessed)
          else if g_compass gs && negb (compass_present (world s)) then (s, ROther)
          else
            let vs := valset_at (world s) (m_vsid m) in
            match (if g_verify gs then verify m vs (tx_data t) else Some O) with
            | None => commit RNotVerified (queue s) (next_id s) p (effects s) (world s)
            | Some i =>
              match apply_effect env m t (world s) with
              | None => (s, ROther)
              | Some (wd, bs) =>
                let q0 := match kind_of (m_body m) with
                          | KUpdateValset => drop_older_valset_updates (m_id m) (queue s)
                          | _ => queue s
                          end in
                let '(q, n) := enqueue_all bs q0 (next_id s) in
                commit RNil q n p
                       (effects s ++ [{| e_msg := m; e_tx := t; e_prefix := i; e_vs := vs |}]) wd
              end
            end
        end
      end
    end.

  Definition attest (s : state) (id : Z) (env : E) : state * result :=
    match find_msg id (queue s) with
    | None => (s, RSkipped)
    | Some m => attest_msg s m env
    end.

  (* ---------- operations ---------- *)

  Inductive op :=
  | OpEnqueue (b : B)                       (* Put *)
  | OpReplaceBody (id : Z) (b : B)          (* Put with MsgIDToReplace (fees set after the election) *)
  | OpSign (id : Z) (sg : S)                (* AddSignature: appended *)
  | OpSetGas (id : Z) (g : Z)               (* SetElectedGasEstimate: also drops the signatures *)
  | OpSetValset (id : Z) (vsid : Z)         (* SetPublicAccessData: the first one stays *)
  | OpEvidence (id : Z) (w : option winner) (* AddEvidence, seen through VerifyEvidence *)
  | OpRemove (id : Z)                       (* pruning / DeleteJob *)
  | OpWorld (f : W -> W)                    (* anything else that writes the other stores *)
  | OpAttest (id : Z) (env : E).            (* attestRouter on one queued message *)

  Definition with_queue (s : state) (q : list msg) : state :=
    {| queue := q; next_id := next_id s; processed := processed s; effects := effects s;
       world := world s; relay_log := relay_log s |}.

  Definition step (s : state) (o : op) : state :=
    match o with
    | OpEnqueue b =>
      {| queue := queue s ++ [new_msg (next_id s) b]; next_id := next_id s + 1;
         processed := processed s; effects := effects s; world := world s; relay_log := relay_log s |}
    | OpReplaceBody id b =>
      with_queue s (update_msg id (fun m => {| m_id := m_id m; m_body := b; m_gas := m_gas m;
        m_pad := m_pad m; m_sigs := m_sigs m; m_winner := m_winner m |}) (queue s))
    | OpSign id sg =>
      with_queue s (update_msg id (fun m => {| m_id := m_id m; m_body := m_body m; m_gas := m_gas m;
        m_pad := m_pad m; m_sigs := m_sigs m ++ [sg]; m_winner := m_winner m |}) (queue s))
    | OpSetGas id g => (* SetElectedGasEstimate restarts the signing: SignData = nil *)
      with_queue s (update_msg id (fun m => {| m_id := m_id m; m_body := m_body m; m_gas := g;
        m_pad := m_pad m; m_sigs := []; m_winner := m_winner m |}) (queue s))
    | OpSetValset id v =>
      with_queue s (update_msg id (fun m => {| m_id := m_id m; m_body := m_body m; m_gas := m_gas m;
        m_pad := match m_pad m with None => Some v | keep => keep end; m_sigs := m_sigs m; m_winner := m_winner m |}) (queue s))
    | OpEvidence id w =>
      with_queue s (update_msg id (fun m => {| m_id := m_id m; m_body := m_body m; m_gas := m_gas m;
        m_pad := m_pad m; m_sigs := m_sigs m; m_winner := w |}) (queue s))
    | OpRemove id => with_queue s (remove_msg id (queue s))
    | OpWorld f =>
      {| queue := queue s; next_id := next_id s; processed := processed s; effects := effects s;
         world := f (world s); relay_log := relay_log s |}
    | OpAttest id env => fst (attest s id env)
    end.

  Definition run_from (s : state) (ops : list op) : state := fold_left step ops s.
  Definition run (w : W) (n : Z) (ops : list op) : state := run_from (init w n) ops.

  (* ---------- CheckAndProcessAttestedMessages ---------- *)

  (** msgs := GetMessagesFromQueue; for each: attestRouter; an error is logged and the loop
      CONTINUES with the next message (since ae1a4d99; before, the first error aborted the loop);
      the function itself returns nil. *)
  Fixpoint endblock_ids (s : state) (ids : list Z) (env : Z -> E) : state :=
    match ids with
    | [] => s
    | id :: r => endblock_ids (fst (attest s id (env id))) r env
    end.

  Definition endblock (s : state) (env : Z -> E) : state :=
    endblock_ids s (map m_id (queue s)) env.

End Attest.

Arguments WTx {T}.
Arguments WErr {T}.
Arguments WOther {T}.
