(** C05, second round: BatchQueue (model Evm/MsgIdsBatch.v).  Every history of Put / replace /
    Remove / BatchQueue.Put / ProcessBatches is, as far as messages and their ids are concerned, a
    history of the base model (Evm/MsgIds.v) that is not longer -- so all id theorems carry over:
    staging keys come from another counter, are never message ids, and ProcessBatches draws one
    fresh id per batch from the shared counter. *)
From Coq Require Import String List ZArith Bool Lia Sorted.
From Paloma Require Import Evm.MsgIds Evm.MsgIdsProofs Evm.MsgIdsBatch.
Import ListNotations.
Open Scope Z_scope.

(** the base operations one batch operation amounts to *)
Fixpoint put_ops (s : state) (q : Z) (cs : list Z) : list op :=
  match cs with
  | [] => []
  | c :: r => match step s (OPut q 0 c) with
              | (s1, RId _) => OPut q 0 c :: put_ops s1 q r
              | _ => [OPut q 0 c]
              end
  end.

Definition expand1 (s : bstate) (o : bop) : list op :=
  match o with
  | BBase o' => [o']
  | BBatchPut _ _ => []
  | BProcess q => put_ops (base s) q (batch_sizes (length (filter (of_queue q) (staging s))))
  end.

Fixpoint expand (s : bstate) (ops : list bop) : list op :=
  match ops with
  | [] => []
  | o :: r => expand1 s o ++ expand (fst (bstep s o)) r
  end.

Lemma run_from_length : forall ops s, length (snd (run_from s ops)) = length ops.
Proof.
  induction ops as [|o r IH]; intros s; [reflexivity|]. simpl.
  destruct (step s o) as [s1 x]. specialize (IH s1). destruct (run_from s1 r). simpl in *. now rewrite IH.
Qed.

Lemma allocs_app : forall a b ra rb, length a = length ra ->
  allocs (a ++ b) (ra ++ rb) = allocs a ra ++ allocs b rb.
Proof.
  induction a as [|o r IH]; intros b ra rb H; destruct ra as [|x ra]; try discriminate; [reflexivity|].
  simpl. injection H as H. rewrite (IH b ra rb H). now rewrite app_assoc.
Qed.

Arguments step : simpl never.

Lemma put_all_sim : forall cs s q,
  fst (fst (put_all s q cs)) = fst (run_from s (put_ops s q cs)) /\
  snd (fst (put_all s q cs)) = allocs (put_ops s q cs) (snd (run_from s (put_ops s q cs))) /\
  (length (put_ops s q cs) <= length cs)%nat.
Proof.
  induction cs as [|c r IH]; intros s q; [simpl; auto|].
  cbn [put_all put_ops]. destruct (step s (OPut q 0 c)) as [s1 x] eqn:E. destruct x as [i | |].
  - specialize (IH s1 q). destruct (put_all s1 q r) as [[s2 l] ok]. simpl in IH. destruct IH as [A [B C]].
    cbn [run_from]. rewrite E. destruct (run_from s1 (put_ops s1 q r)) as [s3 xs]. simpl in *.
    split; [exact A|]. split; [now rewrite B | lia].
  - cbn [run_from]. rewrite E. simpl. split; [reflexivity|]. split; [reflexivity | lia].
  - cbn [run_from]. rewrite E. simpl. split; [reflexivity|]. split; [reflexivity | lia].
Qed.

Lemma sizes_length : forall fuel len, (length (sizes fuel len) <= fuel)%nat.
Proof.
  induction fuel as [|f IH]; intros len; simpl; [lia|].
  destruct (len <=? 0); [simpl; lia|]. destruct (len <=? max_batch); [simpl; lia|]. simpl. specialize (IH (len - max_batch)). lia.
Qed.

Lemma filter_split_length : forall (A : Type) (f : A -> bool) l,
  (length (filter f l) + length (filter (fun x => negb (f x)) l) = length l)%nat.
Proof.
  induction l as [|x r IH]; [reflexivity|]. simpl. destruct (f x); simpl; lia.
Qed.

Lemma filter_length_le : forall (A : Type) (f : A -> bool) l, (length (filter f l) <= length l)%nat.
Proof. induction l as [|x r IH]; [simpl; lia|]. simpl. destruct (f x); simpl; lia. Qed.

(** one batch operation = its expansion on the base model *)
Lemma bstep_sim : forall s o,
  base (fst (bstep s o)) = fst (run_from (base s) (expand1 s o)) /\
  balloc_of o (snd (bstep s o)) = allocs (expand1 s o) (snd (run_from (base s) (expand1 s o))) /\
  (length (expand1 s o) + length (staging (fst (bstep s o))) <= 1 + length (staging s))%nat.
Proof.
  intros s o. destruct o as [o' | q c | q].
  - cbn [bstep expand1 run_from]. destruct (step (base s) o') as [s1 r]. simpl. rewrite app_nil_r. repeat split. lia.
  - cbn [bstep expand1 run_from]. simpl. repeat split. rewrite app_length. simpl.
    pose proof (filter_length_le _ (fun e => negb (same_key q ((bcounter s + 1) mod two64) e)) (staging s)). lia.
  - cbn [bstep expand1].
    pose proof (put_all_sim (batch_sizes (length (filter (of_queue q) (staging s)))) (base s) q) as [A [B C]].
    destruct (put_all (base s) q (batch_sizes (length (filter (of_queue q) (staging s))))) as [[s1 l] ok]. simpl in *.
    split; [exact A|]. split; [exact B|].
    pose proof (sizes_length (length (filter (of_queue q) (staging s))) (Z.of_nat (length (filter (of_queue q) (staging s))))) as S.
    fold (batch_sizes (length (filter (of_queue q) (staging s)))) in S.
    pose proof (filter_split_length _ (of_queue q) (staging s)). lia.
Qed.

Theorem batch_simulation_from : forall ops s,
  base (fst (brun_from s ops)) = fst (run_from (base s) (expand s ops)) /\
  ballocs ops (snd (brun_from s ops)) = allocs (expand s ops) (snd (run_from (base s) (expand s ops))) /\
  (length (expand s ops) + length (staging (fst (brun_from s ops))) <= length ops + length (staging s))%nat.
Proof.
  induction ops as [|o r IH]; intros s.
  - simpl. repeat split. lia.
  - cbn [brun_from expand]. pose proof (bstep_sim s o) as [A [B C]].
    destruct (bstep s o) as [s1 x] eqn:E. simpl fst in *. simpl snd in *.
    specialize (IH s1). destruct (brun_from s1 r) as [s2 xs] eqn:E2. simpl fst in *. simpl snd in *.
    destruct IH as [A2 [B2 C2]].
    rewrite run_from_app. simpl fst. simpl snd. rewrite <- A.
    split; [exact A2|]. split.
    + cbn [ballocs]. rewrite allocs_app by (now rewrite run_from_length). now rewrite B, B2.
    + rewrite app_length. simpl length. lia.
Qed.

(** from the empty keeper: a base history that is not longer *)
Theorem batch_simulation : forall bops, exists ops,
  (length ops <= length bops)%nat /\ base (brun bops) = run ops /\ ballocated_ids bops = allocated_ids ops.
Proof.
  intros bops. exists (expand binit bops).
  pose proof (batch_simulation_from bops binit) as [A [B C]]. simpl in C.
  split; [lia|]. split; [exact A | exact B].
Qed.

Theorem batch_ids_strictly_increase : forall bops, Z.of_nat (length bops) < two64 ->
  StronglySorted Z.lt (ballocated_ids bops) /\ NoDup (ballocated_ids bops).
Proof.
  intros bops H. destruct (batch_simulation bops) as [ops [L [_ E]]]. rewrite E.
  split; [apply ids_strictly_increase | apply ids_never_reused]; lia.
Qed.

Theorem batch_ids_unique_across_queues : forall bops q q' i, Z.of_nat (length bops) < two64 ->
  In i (ids (qs (base (brun bops)) q)) -> In i (ids (qs (base (brun bops)) q')) ->
  q = q' /\ NoDup (ids (qs (base (brun bops)) q)) /\ In i (ballocated_ids bops) /\ 1 <= i <= counter (base (brun bops)).
Proof.
  intros bops q q' i H H1 H2. destruct (batch_simulation bops) as [ops [L [A E]]]. rewrite A in *. rewrite E.
  apply ids_unique_across_queues; try assumption. lia.
Qed.

(** BatchQueue.Put hands out no message id, creates no message and leaves the shared counter alone;
    ProcessBatches leaves the staging counter alone and empties the staging area of its queue. *)
Theorem staging_is_not_a_message : forall s q c,
  base (fst (bstep s (BBatchPut q c))) = base s /\
  balloc_of (BBatchPut q c) (snd (bstep s (BBatchPut q c))) = [] /\
  (forall q', bcounter (fst (bstep s (BProcess q'))) = bcounter s /\
              filter (of_queue q') (staging (fst (bstep s (BProcess q')))) = []).
Proof.
  intros s q c. split; [reflexivity|]. split; [reflexivity|]. intros q'. cbn [bstep].
  destruct (put_all (base s) q' (batch_sizes (length (filter (of_queue q') (staging s))))) as [[s1 l] ok]. simpl.
  split; [reflexivity|].
  induction (staging s) as [|e r IH]; [reflexivity|]. simpl. destruct (of_queue q' e) eqn:E; simpl; [exact IH|].
  rewrite E. exact IH.
Qed.

Lemma batch_source_shape :
  Gen.C05.batch_id_counter_key_expr = "consensusBatchQueueIDCounterKey"%string /\
  Gen.C05.id_counter_keys_distinct = true /\ Gen.C05.batch_put_stages_only = true /\
  Gen.C05.batch_process_puts_through_base = true /\ 0 < Gen.C05.batch_max_size /\
  Gen.C05.batched_queue_configurations = 0.
Proof. repeat split; reflexivity. Qed.

(** ---- non-vacuity ---- *)
(** 3 messages staged on queue 1 (keys 1..3 of the staging counter, numerically equal to live
    message ids -- another namespace), one batch message with a fresh id *)
Example batch_sample :
  let ops := [BBase (OPut 0 0 10); BBatchPut 1 20; BBase (OPut 0 0 11); BBatchPut 1 21; BBatchPut 2 30; BBatchPut 1 22;
              BProcess 1; BBase (OPut 1 3 99); BProcess 1; BProcess 2] in
  bresults ops = [BR (RId 1); BStaged 1; BR (RId 2); BStaged 2; BStaged 3; BStaged 4;
                  BProcessed [3] true; BR (RId 3); BProcessed [] true; BProcessed [4] true] /\
  ballocated_ids ops = [1; 2; 3; 4] /\
  qs (base (brun ops)) 1 = [(3, 99)] /\ qs (base (brun ops)) 2 = [(4, 1)].
Proof. vm_compute. repeat split; reflexivity. Qed.

Example batch_sizes_sample : batch_sizes 250 = [100; 100; 50] /\ batch_sizes 100 = [100] /\ batch_sizes 0 = [].
Proof. vm_compute. repeat split; reflexivity. Qed.
