(** Vocabulary shared by the generated file [Gen/C05.v] and the model [Evm/SignBytes.v]:
    the message fields that can occupy a slot of a signing pre-image or of a delivered call.
    (C05.)  The translator maps each Go argument expression of an [abi.Arguments.Pack(...)] /
    [contractABI.Pack("method", ...)] call to one of these constructors; an expression it does
    not know is a translator error, a constructor that does not exist is a Coq error. *)
From Coq Require Import List.
Import ListNotations.

Inductive field :=
| FContract      (* common.HexToAddress(m.GetHexContractAddress()) *)
| FPayload       (* m.GetPayload() *)
| FRelayerFee | FCommunityFee | FSecurityFee   (* SetUint64(fees.X), fees = feesOrDefault(m.Fees) *)
| FFeePayer      (* [32]byte(left-pad(m.SenderAddress)) *)
| FMsgId         (* SetInt64(int64(queued message id)) *)
| FTurnstoneId   (* copy(bytes32[:], turnstone id) *)
| FDeadline      (* big.NewInt(m.GetDeadline()) *)
| FRelayer       (* common.HexToAddress(assignee remote address) *)
| FEstimate      (* SetUint64(elected estimate, 0 -> default) *)
| FValidators | FPowers | FValsetId   (* new validator set *)
| FCheckpoint    (* keccak of the inner checkpoint(...) pre-image *)
| FDeployer | FBytecode
| FCalls         (* compass handover: (address,bytes)[] *)
| FToken | FReceivers | FAmounts | FBatchNonce | FBatchTimeout.

Inductive slot := SF (f : field) | ST (l : list slot).

Definition field_eqb (a b : field) : bool :=
  match a, b with
  | FContract, FContract | FPayload, FPayload | FRelayerFee, FRelayerFee
  | FCommunityFee, FCommunityFee | FSecurityFee, FSecurityFee | FFeePayer, FFeePayer
  | FMsgId, FMsgId | FTurnstoneId, FTurnstoneId | FDeadline, FDeadline | FRelayer, FRelayer
  | FEstimate, FEstimate | FValidators, FValidators | FPowers, FPowers | FValsetId, FValsetId
  | FCheckpoint, FCheckpoint | FDeployer, FDeployer | FBytecode, FBytecode | FCalls, FCalls
  | FToken, FToken | FReceivers, FReceivers | FAmounts, FAmounts | FBatchNonce, FBatchNonce
  | FBatchTimeout, FBatchTimeout => true
  | _, _ => false
  end.

Fixpoint flatten (s : slot) : list field :=
  match s with
  | SF f => [f]
  | ST l => flat_map flatten l
  end.
Definition flatten_all (l : list slot) : list field := flat_map flatten l.

Definition mem (f : field) (l : list field) : bool := existsb (field_eqb f) l.
Definition subset (a b : list field) : bool := forallb (fun f => mem f b) a.
