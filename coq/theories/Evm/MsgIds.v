(** C05 model, second half: message ids.  x/consensus/keeper/consensus/consensus.go Queue.Put /
    Remove and util/keeper/id_generation.go IncrementNextID, for any number of queues (one per
    chain and message type) of one consensus keeper.  Definitions only; proofs in MsgIdsProofs.v.

    One uint64 counter (store key "generated-ids-" ++ consensusQueueIDCounterKey) is shared by
    every queue: Put without MsgIDToReplace takes counter+1 (uint64 arithmetic), writes it back,
    and saves the message under that id -- save refuses id 0 (the counter stays written).  Put
    with MsgIDToReplace = r <> 0 replaces the content of message r of THAT queue, keeps its id and
    allocates nothing; it fails if the queue has no message r.  Remove deletes message r of that
    queue or fails.  A queue's store is iterated in key order = ascending id.
    A queue is named by a number; message contents are opaque numbers. *)
From Coq Require Import List ZArith Bool.
From Paloma Require Gen.C05.
Import ListNotations.
Open Scope Z_scope.

Definition two64 : Z := 2 ^ 64.

Record state := mkState {
  counter : Z;                       (* last id handed out *)
  qs : Z -> list (Z * Z) }.          (* queue -> (id, content), ascending id *)

Inductive op :=
| OPut (q : Z) (replace : Z) (content : Z)    (* replace = PutOptions.MsgIDToReplace, 0 = none *)
| ORemove (q : Z) (id : Z).

Inductive result := RId (id : Z) | ROk | RErr.

Definition init : state := mkState 0 (fun _ => []).

Definition ids (l : list (Z * Z)) : list Z := map fst l.
Definition has (i : Z) (l : list (Z * Z)) : bool := existsb (fun p => fst p =? i) l.
Definition upd (f : Z -> list (Z * Z)) (q : Z) (l : list (Z * Z)) : Z -> list (Z * Z) :=
  fun q' => if q' =? q then l else f q'.
Definition replace_item (i c : Z) (l : list (Z * Z)) : list (Z * Z) :=
  map (fun p => if fst p =? i then (i, c) else p) l.
Definition remove_item (i : Z) (l : list (Z * Z)) : list (Z * Z) :=
  filter (fun p => negb (fst p =? i)) l.

Definition step (s : state) (o : op) : state * result :=
  match o with
  | OPut q r c =>
      if r =? 0 then
        let id := (counter s + 1) mod two64 in
        if id =? 0 then (mkState id (qs s), RErr)
        else (mkState id (upd (qs s) q (qs s q ++ [(id, c)])), RId id)
      else if has r (qs s q) then (mkState (counter s) (upd (qs s) q (replace_item r c (qs s q))), RId r)
      else (s, RErr)
  | ORemove q i =>
      if has i (qs s q) then (mkState (counter s) (upd (qs s) q (remove_item i (qs s q))), ROk)
      else (s, RErr)
  end.

(** run from a state, keeping the results *)
Fixpoint run_from (s : state) (ops : list op) : state * list result :=
  match ops with
  | [] => (s, [])
  | o :: r => let '(s1, x) := step s o in let '(s2, xs) := run_from s1 r in (s2, x :: xs)
  end.
Definition run (ops : list op) : state := fst (run_from init ops).
Definition results (ops : list op) : list result := snd (run_from init ops).

(** ids newly allocated, in the order they were handed out *)
Definition alloc_of (o : op) (r : result) : list Z :=
  match o, r with
  | OPut _ rep _, RId i => if rep =? 0 then [i] else []
  | _, _ => []
  end.
Fixpoint allocs (ops : list op) (rs : list result) : list Z :=
  match ops, rs with
  | o :: ops', r :: rs' => alloc_of o r ++ allocs ops' rs'
  | _, _ => []
  end.
Definition allocated_ids (ops : list op) : list Z := allocs ops (results ops).
