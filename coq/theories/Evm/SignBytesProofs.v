(** C05 proofs about the signing bytes (model: Evm/SignBytes.v, encoder: Base/Abi.v). *)
From Coq Require Import List ZArith Bool Lia.
From Coq Require Import Strings.Byte.
From Paloma Require Import Base.Abi Base.AbiProofs Evm.SignFields Evm.SignBytes.
From Paloma Require Gen.C05.
Import ListNotations.
Open Scope Z_scope.

Lemma field_eqb_eq : forall a b, field_eqb a b = true <-> a = b.
Proof. intros a b; split; [destruct a, b; simpl; intros H; try discriminate; reflexivity | intros ->; destruct b; reflexivity]. Qed.

Lemma mem_In : forall f l, mem f l = true <-> In f l.
Proof.
  intros f l; unfold mem; rewrite existsb_exists; split.
  - intros [x [Hx He]]. apply field_eqb_eq in He. now subst.
  - intros H. exists f. split; [assumption | now apply field_eqb_eq].
Qed.

Lemma subset_incl : forall a b, subset a b = true -> incl a b.
Proof.
  intros a b H f Hf. unfold subset in H. rewrite forallb_forall in H. apply mem_In. now apply H.
Qed.

(** Every value the bridge contract is handed on delivery sits in a slot of the signing pre-image.
    Computed over the GENERATED lists: a field dropped from a Pack call in turnstone_abi.go /
    batch.go, or added to one in eth_txable.go, makes this stop computing to [true]. *)
Lemma delivered_subset_signed_all : forall k, via_bridge_contract k = true ->
  incl (delivered_fields k) (bound_fields k).
Proof. intros k Hk. apply subset_incl. destruct k; try discriminate Hk; vm_compute; reflexivity. Qed.
