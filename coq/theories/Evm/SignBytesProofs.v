(** C05 proofs about the signing bytes (model: Evm/SignBytes.v, encoder: Base/Abi.v).
    keccak is a Section variable: nothing is assumed about it except that its output has 32
    bytes (true of Keccak-256; needed because the checkpoint hash is copied into a bytes32).
    Collision resistance is never assumed: conclusions carry [keccak_collision]. *)
From Coq Require Import String List ZArith Bool Lia.
From Coq Require Import Strings.Byte.
From Paloma Require Import Base.Abi Base.AbiProofs Evm.SignFields Evm.SignBytes.
From Paloma Require Gen.C05.
Import ListNotations.
Open Scope Z_scope.

(** ---- field sets ---- *)

Lemma field_eqb_eq : forall a b, field_eqb a b = true <-> a = b.
Proof.
  intros a b; split; [destruct a, b; simpl; intros H; try discriminate; reflexivity
                     | intros ->; destruct b; reflexivity].
Qed.

Lemma mem_In : forall f l, mem f l = true <-> In f l.
Proof.
  intros f l; unfold mem; rewrite existsb_exists; split.
  - intros [x [Hx He]]. apply field_eqb_eq in He. now subst.
  - intros H. exists f. split; [assumption | now apply field_eqb_eq].
Qed.

Lemma subset_incl : forall a b, subset a b = true -> incl a b.
Proof.
  intros a b H f Hf. unfold subset in H. rewrite forallb_forall in H. apply mem_In. now apply H.
Qed.

(** Every value the bridge contract is handed on delivery sits in a slot of the signing pre-image.
    Computed over the GENERATED lists: a field dropped from a Pack call in turnstone_abi.go /
    batch.go, or added to one in eth_txable.go, makes this stop computing to [true]. *)
Lemma delivered_subset_signed_all : forall k, via_bridge_contract k = true ->
  incl (delivered_fields k) (bound_fields k).
Proof. intros k Hk. apply subset_incl. destruct k; try discriminate Hk; vm_compute; reflexivity. Qed.

Lemma id_bound_where_scheme_has_it : forall k, scheme_has_id k = true -> In FTurnstoneId (bound_fields k).
Proof. intros k Hk. apply mem_In. destruct k; try discriminate Hk; vm_compute; reflexivity. Qed.

Lemma checkpoint_not_bound : forall k, ~ In FCheckpoint (bound_fields k) \/ k = KUpdateValset.
Proof.
  intros k. destruct k; try (now right); left; intros H; apply mem_In in H; vm_compute in H; discriminate.
Qed.

(** The model's slot types are the generated signature (abi.NewType strings of the source). *)
Lemma signature_matches : forall k, map slot_ty (signed_slots k) = signature k.
Proof. destruct k; vm_compute; reflexivity. Qed.
Lemma checkpoint_signature_matches : map slot_ty Gen.C05.checkpoint_signed = Gen.C05.checkpoint_sig.
Proof. vm_compute; reflexivity. Qed.

(** ---- number facts ---- *)
Lemma two63_pos : 0 < two63. Proof. reflexivity. Qed.
Lemma two64_eq : two64 = 2 * two63. Proof. reflexivity. Qed.
Lemma two64_lt : two64 < two256. Proof. reflexivity. Qed.
Lemma two160_lt : two160 < two256. Proof. reflexivity. Qed.
Lemma defaults_small : 0 <= Gen.C05.default_estimate < two256 /\ 0 <= Gen.C05.batch_default_estimate < two256 /\
  0 <= Gen.C05.default_relayer_fee < two256 /\ 0 <= Gen.C05.default_community_fee < two256 /\
  0 <= Gen.C05.default_security_fee < two256.
Proof. vm_compute. repeat split; discriminate. Qed.

Lemma u256_small : forall z, 0 <= z < two256 -> u256 z = z.
Proof. intros z H. unfold u256. now apply Z.mod_small. Qed.

Lemma u256_neg : forall z, - two256 <= z < 0 -> u256 z = z + two256.
Proof.
  intros z H. unfold u256. rewrite <- (Z_mod_plus_full z 1 two256). apply Z.mod_small. lia.
Qed.

Lemma u256_int64_inj : forall a b, int64 a -> int64 b -> u256 a = u256 b -> a = b.
Proof.
  intros a b Ha Hb E. unfold int64 in *.
  pose proof two63_pos. pose proof two64_eq. pose proof two64_lt.
  destruct (Z_lt_le_dec a 0), (Z_lt_le_dec b 0).
  - rewrite !u256_neg in E by lia. lia.
  - rewrite u256_neg in E by lia. rewrite (u256_small b) in E by lia. lia.
  - rewrite (u256_small a) in E by lia. rewrite u256_neg in E by lia. lia.
  - rewrite !u256_small in E by lia. lia.
Qed.

Lemma i64_range : forall u, u64 u -> int64 (i64 u).
Proof.
  intros u H. unfold u64, int64, i64 in *. pose proof two63_pos. pose proof two64_eq.
  destruct (u <? two63) eqn:E; [apply Z.ltb_lt in E | apply Z.ltb_ge in E]; lia.
Qed.

Lemma i64_inj : forall a b, u64 a -> u64 b -> i64 a = i64 b -> a = b.
Proof.
  intros a b Ha Hb E. unfold u64, i64 in *. pose proof two63_pos. pose proof two64_eq.
  destruct (a <? two63) eqn:Ea; destruct (b <? two63) eqn:Eb;
    try apply Z.ltb_lt in Ea; try apply Z.ltb_ge in Ea; try apply Z.ltb_lt in Eb; try apply Z.ltb_ge in Eb; lia.
Qed.

(** the word holding int64(x) of a uint64 x determines x *)
Lemma wordv_i64_inj : forall a b, u64 a -> u64 b -> wordv (i64 a) = wordv (i64 b) -> a = b.
Proof.
  intros a b Ha Hb E. injection E as E. apply i64_inj; try assumption.
  apply u256_int64_inj; [now apply i64_range | now apply i64_range | exact E].
Qed.

Lemma wordv_int64_inj : forall a b, int64 a -> int64 b -> wordv a = wordv b -> a = b.
Proof. intros a b Ha Hb E. injection E as E. now apply u256_int64_inj. Qed.

(** ---- typing of field values ---- *)

Lemma typed_wordv : forall z, typed TWord (wordv z).
Proof. intros z. apply u256_range. Qed.

Lemma pow256_mono : forall n, (n <= 32)%nat -> 256 ^ Z.of_nat n <= two256.
Proof.
  intros n H. rewrite two256_eq. apply Z.pow_le_mono_r; lia.
Qed.

Lemma bytes32_left_range : forall s, (length s <= 32)%nat -> 0 <= bytes32_left s < two256.
Proof.
  intros s H. unfold bytes32_left. pose proof (be_val_range s). pose proof (pow256_mono _ H). lia.
Qed.

Lemma bytes32_right_range : forall b, 0 <= bytes32_right b < two256.
Proof.
  intros b. unfold bytes32_right.
  set (c := firstn 32 b).
  assert (Hc : (length c <= 32)%nat) by (unfold c; apply firstn_le_length).
  pose proof (be_val_range (c ++ zeros (32 - length c))) as H.
  rewrite app_length in H. unfold zeros in H. rewrite repeat_length in H.
  replace (length c + (32 - length c))%nat with 32%nat in H by lia.
  rewrite <- two256_eq in H. exact H.
Qed.

Lemma typed_words : forall (P : Z -> Prop) l, (forall z, P z -> 0 <= z < two256) -> Forall P l -> small (length l) ->
  typed (TArr TWord) (VArr (map VWord l)).
Proof.
  intros P l HP H Hs. apply typed_arr. rewrite map_length. split; [exact Hs|].
  clear Hs. induction H as [|z r Hz Hr IH]; simpl; constructor; [now apply HP | exact IH].
Qed.

Lemma typed_wordvs : forall (g : Z -> Z) l, small (length l) -> typed (TArr TWord) (VArr (map (fun p => wordv (g p)) l)).
Proof.
  intros g l Hs. apply typed_arr. rewrite map_length. split; [exact Hs|].
  clear Hs. induction l as [|z r IH]; simpl; constructor; [apply typed_wordv | exact IH].
Qed.

Lemma small_0 : small 0.
Proof. unfold small. reflexivity. Qed.

Lemma addr_word : forall z, addr z -> 0 <= z < two256.
Proof. intros z H. unfold addr in H. pose proof two160_lt. lia. Qed.
Lemma u64_word : forall z, u64 z -> 0 <= z < two256.
Proof. intros z H. unfold u64 in H. pose proof two64_lt. lia. Qed.

Lemma eff_fees_ok : forall fs, wf_fees fs ->
  0 <= f_relayer (eff_fees fs) < two256 /\ 0 <= f_community (eff_fees fs) < two256 /\ 0 <= f_security (eff_fees fs) < two256.
Proof.
  intros [f|] H; simpl in *.
  - destruct H as [A [B C]]. repeat split; try (apply u64_word; assumption).
  - pose proof defaults_small. unfold default_fees; simpl. tauto.
Qed.

Lemma act_fees_ok : forall a, wf_action a ->
  0 <= f_relayer (act_fees a) < two256 /\ 0 <= f_community (act_fees a) < two256 /\ 0 <= f_security (act_fees a) < two256.
Proof.
  intros a H. destruct a; simpl in *; try (apply (eff_fees_ok None I)); apply eff_fees_ok; tauto.
Qed.

Lemma act_sender_ok : forall a, wf_action a -> (length (act_sender a) <= 32)%nat.
Proof. intros a H. destruct a; simpl in *; try lia; tauto. Qed.

Lemma eff_estimate_ok : forall k e, u64 e -> 0 <= eff_estimate k e < two256.
Proof.
  intros k e H. unfold eff_estimate. pose proof defaults_small.
  destruct (e =? 0); [destruct k; tauto | now apply u64_word].
Qed.

Lemma typed_calls : forall cs, Forall (fun c => addr (fst c) /\ small (length (snd c))) cs -> small (length cs) ->
  typed (TArr (TTuple [TWord; TBytes])) (VArr (map call_val cs)).
Proof.
  intros cs H Hs. apply typed_arr. rewrite map_length. split; [exact Hs|].
  clear Hs. induction H as [|c r [Ha Hp] Hr IH]; simpl; constructor; [| exact IH].
  split; [now apply addr_word | split; [exact Hp | exact I]].
Qed.

Lemma field_value_typed : forall cp it f, wf it -> 0 <= cp < two256 ->
  typed (field_ty f) (field_value cp it f).
Proof.
  intros cp it f [Hid [Hest [Hrel Ha]]] Hcp.
  pose proof (act_fees_ok _ Ha) as [F1 [F2 F3]].
  pose proof (act_sender_ok _ Ha) as Hs.
  destruct f; cbn [field_ty field_value];
    try apply typed_wordv;
    try (now apply addr_word);
    try (now apply eff_estimate_ok);
    try apply bytes32_right_range;
    try (now apply bytes32_left_range);
    try assumption.
  - (* FContract *) destruct (it_action it); simpl in Ha |- *; try (split; [reflexivity | reflexivity]). apply addr_word; tauto.
  - (* FPayload *) destruct (it_action it); simpl in Ha |- *; try apply small_0. tauto.
  - (* FValidators *) destruct (it_action it); simpl in Ha; try (apply (typed_words addr []); [apply addr_word | constructor | apply small_0]).
    apply (typed_words addr); [apply addr_word | tauto | tauto].
  - (* FPowers *) destruct (it_action it); simpl in Ha; try (apply (typed_wordvs i64 []); apply small_0).
    apply typed_wordvs. tauto.
  - (* FDeployer *) destruct (it_action it); simpl in Ha |- *; try (split; [reflexivity | reflexivity]). apply addr_word; tauto.
  - (* FBytecode *) destruct (it_action it); simpl in Ha |- *; try apply small_0; tauto.
  - (* FCalls *) destruct (it_action it); simpl in Ha; try (apply (typed_calls []); [constructor | apply small_0]).
    apply typed_calls; tauto.
  - (* FToken *) destruct (it_action it); simpl in Ha |- *; try (split; [reflexivity | reflexivity]). apply addr_word; tauto.
  - (* FReceivers *) destruct (it_action it); simpl in Ha; try (apply (typed_words addr []); [apply addr_word | constructor | apply small_0]).
    apply (typed_words addr); [apply addr_word | tauto | tauto].
  - (* FAmounts *) destruct (it_action it); simpl in Ha; try (apply (typed_words addr []); [apply addr_word | constructor | apply small_0]).
    apply (typed_words (fun x => 0 <= x < two256)); [tauto | tauto | tauto].
Qed.

(** ---- slots ---- *)

Fixpoint slot_ind' (P : slot -> Prop) (HF : forall f, P (SF f)) (HT : forall l, Forall P l -> P (ST l)) (s : slot) : P s :=
  match s with
  | SF f => HF f
  | ST l => HT l ((fix go (l : list slot) : Forall P l :=
                     match l with [] => Forall_nil P | x :: r => Forall_cons x (slot_ind' P HF HT x) (go r) end) l)
  end.

Lemma slot_typed : forall cp it s, wf it -> 0 <= cp < two256 -> typed (slot_ty s) (slot_val cp it s).
Proof.
  intros cp it s Hw Hcp. induction s as [f | l IH] using slot_ind'.
  - now apply field_value_typed.
  - cbn [slot_ty slot_val]. apply typed_tuple.
    induction IH as [|x r Hx Hr IHr]; simpl; constructor; assumption.
Qed.

Lemma slots_typed : forall cp it l, wf it -> 0 <= cp < two256 ->
  Forall2 typed (map slot_ty l) (map (slot_val cp it) l).
Proof.
  intros cp it l Hw Hcp. induction l as [|s r IH]; simpl; constructor; [now apply slot_typed | exact IH].
Qed.

(** equal slot values = equal field values at every leaf *)
Lemma slot_val_fields : forall cp it cp' it' s, slot_val cp it s = slot_val cp' it' s ->
  forall f, In f (flatten s) -> field_value cp it f = field_value cp' it' f.
Proof.
  intros cp it cp' it' s. induction s as [f | l IH] using slot_ind'; intros E g Hg.
  - simpl in Hg. destruct Hg as [<- | []]. exact E.
  - cbn [slot_val] in E. injection E as E. cbn [flatten] in Hg.
    revert E g Hg. induction IH as [|x r Hx Hr IHr]; intros E g Hg; [contradiction|].
    simpl in E. injection E as E1 E2. simpl in Hg. apply in_app_or in Hg. destruct Hg as [Hg | Hg].
    + now apply Hx.
    + now apply IHr.
Qed.

Lemma slots_val_fields : forall cp it cp' it' l, map (slot_val cp it) l = map (slot_val cp' it') l ->
  forall f, In f (flatten_all l) -> field_value cp it f = field_value cp' it' f.
Proof.
  intros cp it cp' it' l. induction l as [|s r IH]; intros E f Hf; [contradiction|].
  simpl in E. injection E as E1 E2. unfold flatten_all in Hf. simpl in Hf. apply in_app_or in Hf.
  destruct Hf as [Hf | Hf]; [now apply (slot_val_fields cp it cp' it' s) | now apply IH].
Qed.

(** selector ++ ABI encoding determines every field in a slot *)
Lemma packed_binds : forall sel slots cp it cp' it', wf it -> wf it' -> 0 <= cp < two256 -> 0 <= cp' < two256 ->
  packed sel slots cp it = packed sel slots cp' it' ->
  forall f, In f (flatten_all slots) -> field_value cp it f = field_value cp' it' f.
Proof.
  intros sel slots cp it cp' it' Hw Hw' Hc Hc' E. unfold packed in E.
  apply app_eq_len in E; [| reflexivity]. destruct E as [_ E].
  apply (enc_args_injective (map slot_ty slots)) in E; [| now apply slots_typed | now apply slots_typed].
  now apply slots_val_fields.
Qed.

Lemma field_value_cp_irrel : forall cp cp' it f, f <> FCheckpoint -> field_value cp it f = field_value cp' it f.
Proof. intros cp cp' it f H. destruct f; try reflexivity. contradiction. Qed.

(** The value the model puts in the slot of field [f] ([f] other than the inner hash). *)
Definition fval (it : item) (f : field) : abival := field_value 0 it f.

(** ---- round trip be / be_val on fixed length (for the 32-byte hash) ---- *)
Lemma be_be_val : forall l, be (length l) (be_val l) = l.
Proof.
  induction l as [|b r IH] using rev_ind; [reflexivity|].
  rewrite app_length. simpl length. replace (length r + 1)%nat with (S (length r)) by lia.
  rewrite be_snoc, be_val_snoc. pose proof (Z_of_byte_range b) as Hb.
  replace ((be_val r * 256 + Z_of_byte b) / 256) with (be_val r).
  - rewrite IH. f_equal. f_equal.
    rewrite <- (byte_of_Z_of_byte b) at 2. unfold byte_of_Z.
    replace ((be_val r * 256 + Z_of_byte b) mod 256) with (Z_of_byte b mod 256); [reflexivity|].
    rewrite Z.add_comm, Z_mod_plus_full. reflexivity.
  - rewrite Z.add_comm, Z.div_add by lia. rewrite Z.div_small by lia. lia.
Qed.

Lemma be_val_inj_len : forall a b, length a = length b -> be_val a = be_val b -> a = b.
Proof. intros a b Hl E. rewrite <- (be_be_val a), <- (be_be_val b). now rewrite Hl, E. Qed.

Lemma bytes32_right_inj32 : forall a b, length a = 32%nat -> length b = 32%nat -> bytes32_right a = bytes32_right b -> a = b.
Proof.
  intros a b Ha Hb E. unfold bytes32_right in E.
  rewrite !firstn_all2 in E by lia. rewrite Ha, Hb in E. simpl in E. rewrite !app_nil_r in E.
  apply be_val_inj_len; [lia | exact E].
Qed.

Lemma bytes_eq_dec : forall a b : list byte, {a = b} + {a <> b}.
Proof. apply list_eq_dec. apply Byte.byte_eq_dec. Qed.

Section Binding.
  Variable keccak : list byte -> list byte.
  Hypothesis keccak_len : forall x, length (keccak x) = 32%nat.

  Lemma keccak_eq : forall x y, keccak x = keccak y -> x = y \/ keccak_collision keccak.
  Proof.
    intros x y E. destruct (bytes_eq_dec x y) as [H | H]; [now left | right]. now exists x, y.
  Qed.

  Lemma checkpoint_hash_range : forall it, 0 <= checkpoint_hash keccak it < two256.
  Proof. intros it. apply bytes32_right_range. Qed.

  (** Equal signing bytes: every field in a slot of the pre-image (for a valset update also every
      field inside the inner checkpoint) has the same ABI value in both items -- or keccak collides. *)
  Theorem signbytes_bind_signed_fields_all : forall it it', wf it -> wf it' ->
    kind_of it = kind_of it' -> via_bridge_contract (kind_of it) = true ->
    sign_bytes keccak it = sign_bytes keccak it' ->
    (forall f, In f (bound_fields (kind_of it)) -> fval it f = fval it' f) \/ keccak_collision keccak.
  Proof.
    intros it it' Hw Hw' Hk Hv E. unfold sign_bytes in E.
    apply keccak_eq in E. destruct E as [E | C]; [| now right].
    unfold sign_preimage, outer_preimage in E. rewrite <- Hk in E.
    pose proof (checkpoint_hash_range it) as Hc. pose proof (checkpoint_hash_range it') as Hc'.
    destruct (kind_of it) eqn:K; try discriminate Hv.
    - (* valset: outer then inner *)
      pose proof (packed_binds _ _ _ _ _ _ Hw Hw' Hc Hc' E) as B.
      assert (Hcp : checkpoint_hash keccak it = checkpoint_hash keccak it').
      { assert (In FCheckpoint (flatten_all (signed_slots KUpdateValset))) as I1 by (apply mem_In; vm_compute; reflexivity).
        specialize (B FCheckpoint I1). cbn [field_value] in B. now injection B. }
      unfold checkpoint_hash in Hcp. apply bytes32_right_inj32 in Hcp; try apply keccak_len.
      apply keccak_eq in Hcp. destruct Hcp as [Hin | C]; [| now right]. left.
      unfold checkpoint_preimage in Hin.
      assert (Z0 : 0 <= 0 < two256) by (split; [lia | reflexivity]).
      pose proof (packed_binds _ _ _ _ _ _ Hw Hw' Z0 Z0 Hin) as B2.
      intros f Hf. unfold bound_fields in Hf. apply in_app_or in Hf. destruct Hf as [Hf | Hf].
      + now apply B2.
      + apply filter_In in Hf. destruct Hf as [Hf Hn]. unfold fval.
        assert (f <> FCheckpoint) as Hne.
        { intros ->. simpl in Hn. discriminate. }
        rewrite (field_value_cp_irrel 0 (checkpoint_hash keccak it) it f Hne).
        rewrite (field_value_cp_irrel 0 (checkpoint_hash keccak it') it' f Hne). now apply B.
    - left. intros f Hf. unfold fval.
      assert (f <> FCheckpoint) as Hne by (intros ->; apply mem_In in Hf; vm_compute in Hf; discriminate).
      rewrite (field_value_cp_irrel 0 (checkpoint_hash keccak it) it f Hne).
      rewrite (field_value_cp_irrel 0 (checkpoint_hash keccak it') it' f Hne).
      now apply (packed_binds _ _ _ _ _ _ Hw Hw' Hc Hc' E).
    - left. intros f Hf. unfold fval.
      assert (f <> FCheckpoint) as Hne by (intros ->; apply mem_In in Hf; vm_compute in Hf; discriminate).
      rewrite (field_value_cp_irrel 0 (checkpoint_hash keccak it) it f Hne).
      rewrite (field_value_cp_irrel 0 (checkpoint_hash keccak it') it' f Hne).
      now apply (packed_binds _ _ _ _ _ _ Hw Hw' Hc Hc' E).
    - left. intros f Hf. unfold fval.
      assert (f <> FCheckpoint) as Hne by (intros ->; apply mem_In in Hf; vm_compute in Hf; discriminate).
      rewrite (field_value_cp_irrel 0 (checkpoint_hash keccak it) it f Hne).
      rewrite (field_value_cp_irrel 0 (checkpoint_hash keccak it') it' f Hne).
      now apply (packed_binds _ _ _ _ _ _ Hw Hw' Hc Hc' E).
    - left. intros f Hf. unfold fval.
      assert (f <> FCheckpoint) as Hne by (intros ->; apply mem_In in Hf; vm_compute in Hf; discriminate).
      rewrite (field_value_cp_irrel 0 (checkpoint_hash keccak it) it f Hne).
      rewrite (field_value_cp_irrel 0 (checkpoint_hash keccak it') it' f Hne).
      now apply (packed_binds _ _ _ _ _ _ Hw Hw' Hc Hc' E).
  Qed.

  (** The property clause: equal signing bytes => every value handed to the bridge contract on
      delivery is the same, and so is the deployment id wherever the scheme includes it. *)
  Theorem signbytes_bind_delivered_fields_all : forall it it', wf it -> wf it' ->
    kind_of it = kind_of it' -> via_bridge_contract (kind_of it) = true ->
    sign_bytes keccak it = sign_bytes keccak it' ->
    ((forall f, In f (delivered_fields (kind_of it)) -> fval it f = fval it' f) /\
     (scheme_has_id (kind_of it) = true -> fval it FTurnstoneId = fval it' FTurnstoneId))
    \/ keccak_collision keccak.
  Proof.
    intros it it' Hw Hw' Hk Hv E.
    destruct (signbytes_bind_signed_fields_all it it' Hw Hw' Hk Hv E) as [B | C]; [left | now right].
    split.
    - intros f Hf. apply B. now apply (delivered_subset_signed_all _ Hv).
    - intros Hs. apply B. now apply id_bound_where_scheme_has_it.
  Qed.

  (** Contrapositive reading (single- and multi-field changes): if any delivered value differs,
      the signing bytes differ -- or a keccak collision has been exhibited. *)
  Corollary changed_field_changes_signbytes : forall it it' f, wf it -> wf it' ->
    kind_of it = kind_of it' -> via_bridge_contract (kind_of it) = true ->
    In f (delivered_fields (kind_of it)) -> fval it f <> fval it' f ->
    sign_bytes keccak it <> sign_bytes keccak it' \/ keccak_collision keccak.
  Proof.
    intros it it' f Hw Hw' Hk Hv Hf Hne.
    destruct (bytes_eq_dec (sign_bytes keccak it) (sign_bytes keccak it')) as [E | N]; [| now left].
    destruct (signbytes_bind_delivered_fields_all it it' Hw Hw' Hk Hv E) as [[B _] | C]; [| now right].
    exfalso. apply Hne. now apply B.
  Qed.

  (** The bridge-contract upload (not presented to a remote contract): bytecode and id are bound. *)
  Theorem upload_binds_bytecode_and_id : forall id id' est est' ts ts' rel rel' b b',
    u64 id -> u64 id' ->
    sign_bytes keccak (mkItem id est ts rel (UploadSmartContract b)) =
    sign_bytes keccak (mkItem id' est' ts' rel' (UploadSmartContract b')) ->
    (b = b' /\ id = id') \/ keccak_collision keccak.
  Proof.
    intros id id' est est' ts ts' rel rel' b b' Hi Hi' E. unfold sign_bytes in E.
    apply keccak_eq in E. destruct E as [E | C]; [left | now right].
    unfold sign_preimage, outer_preimage, upload_preimage in E. simpl in E.
    assert (length (be 8 id) = length (be 8 id')) as Hl by now rewrite !be_length.
    assert (length b = length b') as Hb.
    { apply (f_equal (@length byte)) in E. rewrite !app_length, !be_length in E. lia. }
    apply app_eq_len in E; [| exact Hb]. destruct E as [-> E]. split; [reflexivity|].
    apply (f_equal be_val) in E. rewrite !be_val_be in E.
    unfold u64 in *. change (256 ^ Z.of_nat 8) with two64 in E. rewrite !Z.mod_small in E by assumption. exact E.
  Qed.
End Binding.

(** ---- what equal field values mean for the raw values (the conversions lose nothing) ---- *)
Lemma fval_msg_id : forall it it', wf it -> wf it' -> fval it FMsgId = fval it' FMsgId -> it_id it = it_id it'.
Proof. intros it it' [H _] [H' _] E. now apply wordv_i64_inj. Qed.

Lemma fval_relayer : forall it it', fval it FRelayer = fval it' FRelayer -> it_relayer it = it_relayer it'.
Proof. intros it it' E. now injection E. Qed.

Lemma fval_estimate : forall it it', fval it FEstimate = fval it' FEstimate ->
  eff_estimate (kind_of it) (it_estimate it) = eff_estimate (kind_of it') (it_estimate it').
Proof. intros it it' E. now injection E. Qed.

Lemma fval_turnstone : forall it it', fval it FTurnstoneId = fval it' FTurnstoneId ->
  bytes32_right (it_turnstone it) = bytes32_right (it_turnstone it').
Proof. intros it it' E. now injection E. Qed.

Lemma act_deadline_int64 : forall a, wf_action a -> int64 (act_deadline a).
Proof.
  intros a H. destruct a; simpl in *; try tauto; unfold int64; pose proof two63_pos; lia.
Qed.

Lemma fval_deadline : forall it it', wf it -> wf it' -> fval it FDeadline = fval it' FDeadline ->
  act_deadline (it_action it) = act_deadline (it_action it').
Proof.
  intros it it' [_ [_ [_ H]]] [_ [_ [_ H']]] E. apply wordv_int64_inj; try (now apply act_deadline_int64). exact E.
Qed.

Lemma map_VWord_inj : forall l l', map VWord l = map VWord l' -> l = l'.
Proof.
  induction l as [|x r IH]; intros [|y s] E; try discriminate; [reflexivity|].
  simpl in E. injection E as -> E. f_equal. now apply IH.
Qed.

(** logic call: the whole delivered call is determined *)
Lemma fval_logic_call : forall id est ts rel c p fs s d id' est' ts' rel' c' p' fs' s' d',
  let it := mkItem id est ts rel (SubmitLogicCall c p fs s d) in
  let it' := mkItem id' est' ts' rel' (SubmitLogicCall c' p' fs' s' d') in
  wf it -> wf it' ->
  (forall f, In f (delivered_fields KLogicCall) -> fval it f = fval it' f) ->
  c = c' /\ p = p' /\ eff_fees fs = eff_fees fs' /\ bytes32_left s = bytes32_left s' /\ id = id' /\ d = d' /\ rel = rel'.
Proof.
  intros id est ts rel c p fs s d id' est' ts' rel' c' p' fs' s' d' it it' Hw Hw' B.
  assert (forall f, mem f (delivered_fields KLogicCall) = true -> fval it f = fval it' f) as B'
    by (intros f Hf; apply B; now apply mem_In).
  pose proof (B' FContract eq_refl) as E1. pose proof (B' FPayload eq_refl) as E2.
  pose proof (B' FRelayerFee eq_refl) as E3. pose proof (B' FCommunityFee eq_refl) as E4.
  pose proof (B' FSecurityFee eq_refl) as E5. pose proof (B' FFeePayer eq_refl) as E6.
  pose proof (B' FMsgId eq_refl) as E7. pose proof (B' FDeadline eq_refl) as E8. pose proof (B' FRelayer eq_refl) as E9.
  apply (fval_msg_id it it' Hw Hw') in E7. apply (fval_deadline it it' Hw Hw') in E8.
  unfold fval in *. cbn in E1, E2, E3, E4, E5, E6, E7, E8, E9.
  injection E1 as E1. injection E2 as E2. injection E3 as E3. injection E4 as E4. injection E5 as E5.
  injection E6 as E6. injection E9 as E9.
  repeat split; try assumption.
  destruct (eff_fees fs), (eff_fees fs'); simpl in *; congruence.
Qed.

(** valset update: the new validator set is determined *)
Lemma fval_valset : forall id est ts rel vs ps i id' est' ts' rel' vs' ps' i',
  let it := mkItem id est ts rel (UpdateValset vs ps i) in
  let it' := mkItem id' est' ts' rel' (UpdateValset vs' ps' i') in
  wf it -> wf it' ->
  (forall f, In f (delivered_fields KUpdateValset) -> fval it f = fval it' f) ->
  vs = vs' /\ ps = ps' /\ i = i' /\ rel = rel' /\ eff_estimate KUpdateValset est = eff_estimate KUpdateValset est'.
Proof.
  intros id est ts rel vs ps i id' est' ts' rel' vs' ps' i' it it' Hw Hw' B.
  assert (forall f, mem f (delivered_fields KUpdateValset) = true -> fval it f = fval it' f) as B'
    by (intros f Hf; apply B; now apply mem_In).
  pose proof (B' FValidators eq_refl) as E1. pose proof (B' FPowers eq_refl) as E2.
  pose proof (B' FValsetId eq_refl) as E3. pose proof (B' FRelayer eq_refl) as E4. pose proof (B' FEstimate eq_refl) as E5.
  destruct Hw as [_ [_ [_ [_ [Hp [Hi _]]]]]]. destruct Hw' as [_ [_ [_ [_ [Hp' [Hi' _]]]]]].
  unfold fval in *. cbn in E1, E2, E3, E4, E5.
  injection E1 as E1. injection E2 as E2. injection E4 as E4. injection E5 as E5.
  apply map_VWord_inj in E1. apply wordv_i64_inj in E3; try assumption.
  repeat split; try assumption.
  clear - E2 Hp Hp'. revert ps' E2 Hp'. induction Hp as [|x r Hx Hr IH]; intros [|y s] E Hp'; try discriminate; [reflexivity|].
  simpl in E. injection E as E1 E2. inversion Hp'; subst. f_equal.
  - apply wordv_i64_inj; try assumption. unfold wordv. now f_equal.
  - now apply IH.
Qed.

(** ---- non-vacuity ---- *)
Example wf_sample_logic_call :
  wf (mkItem 7 0 (bytes_of_Zs [97; 98]) 11 (SubmitLogicCall 5 (bytes_of_Zs [1; 2; 3]) None (bytes_of_Zs [9]) (-1))).
Proof. vm_compute. repeat split; try discriminate; try lia. Qed.

Example sample_relayer_changes_preimage :
  outer_preimage 0 (mkItem 7 0 [] 11 (SubmitLogicCall 5 [] None [] 1)) <>
  outer_preimage 0 (mkItem 7 0 [] 12 (SubmitLogicCall 5 [] None [] 1)).
Proof. vm_compute. discriminate. Qed.

(** the two raw values that are deliberately indistinguishable (effective-value reading) *)
Example estimate_zero_is_default :
  outer_preimage 0 (mkItem 7 0 [] 11 (CompassHandover [] 1)) =
  outer_preimage 0 (mkItem 7 Gen.C05.default_estimate [] 11 (CompassHandover [] 1)).
Proof. vm_compute. reflexivity. Qed.

(** ======== second round: raw delivered values, the compass ABI, the delivered call ======== *)

(** The arguments eth_txable.go packs for delivery are typed as the compass ABI (the JSON shipped in
    the repository) types its inputs, position by position; their leaves are the delivered fields.
    For submit_batch (packed outside the repository) the slots ARE the ABI's inputs. *)
Lemma delivered_slots_match_abi : forall k,
  map slot_ty (delivered_slots k) = abi_sig k /\ flatten_all (delivered_slots k) = delivered_fields k.
Proof. destruct k; vm_compute; split; reflexivity. Qed.

(** every argument eth_txable.go packs sits at the position of the ABI input that is NAMED for it
    (a deadline packed where message_id is expected would have the right type) *)
Lemma delivered_slots_are_the_named_inputs : forall k, delivered_slots k = abi_named_slots k.
Proof. destruct k; vm_compute; reflexivity. Qed.

(** the signing pre-image of the three kinds whose scheme has the deployment id is the delivered
    argument list with the id inserted -- same order, same tuple structure *)
Lemma signed_is_delivered_plus_id : forall k, In k [KLogicCall; KDeploy; KBatch] ->
  filter (fun s => match s with SF FTurnstoneId => false | _ => true end) (signed_slots k) = delivered_slots k.
Proof. intros k [<- | [<- | [<- | []]]]; vm_compute; reflexivity. Qed.

Lemma relay_gate_shape :
  Gen.C05.relay_filter_has_gas_estimate = true /\
  Gen.C05.batch_relay_requires_estimate = true /\
  Gen.C05.fees_elected_with_estimate = true /\
  (forall a, In a ["Message_UpdateValset"; "Message_SubmitLogicCall"; "Message_UploadUserSmartContract"; "Message_CompassHandover"]%string ->
     In (a, true) Gen.C05.enqueue_sites_require_estimation /\ ~ In (a, false) Gen.C05.enqueue_sites_require_estimation).
Proof.
  repeat split; try reflexivity;
    destruct H as [<- | [<- | [<- | [<- | []]]]]; vm_compute; try tauto;
    intros X; repeat (destruct X as [X | X]; [discriminate X|]); exact X.
Qed.

Lemma eff_estimate_nonzero : forall k e, e <> 0 -> eff_estimate k e = e.
Proof. intros k e H. unfold eff_estimate. apply Z.eqb_neq in H. now rewrite H. Qed.

(** for an item that can be handed out for relaying, the effective value IS the raw value *)
Lemma raw_is_eff : forall it f, relayable it -> In f (delivered_fields (kind_of it)) ->
  raw_value it f = Some (fval it f).
Proof.
  intros [id est ts rel a] f [He Hf] Hin. unfold kind_of in Hin. simpl in He, Hf, Hin.
  unfold raw_value, fval, field_value, kind_of. simpl it_action. simpl it_estimate.
  destruct a as [vs ps i | c p fs s d | c p fs s d | cs d | b | t rs am n tmo]; simpl in Hin;
    try contradiction;
    try (destruct fs as [x|]; [| exfalso; now apply Hf]);
    cbv [Gen.C05.update_valset_delivered Gen.C05.logic_call_delivered Gen.C05.deploy_contract_delivered
         Gen.C05.compass_update_batch_delivered batch_delivered Gen.C05.submit_batch_delivered In] in Hin;
    repeat (destruct Hin as [<- | Hin]; [simpl; rewrite ?eff_estimate_nonzero by assumption; reflexivity|]);
    contradiction.
Qed.

Lemma raw_slot_vals_ext : forall it it' l,
  (forall f, In f (flatten_all l) -> raw_value it f = raw_value it' f) -> raw_slot_vals it l = raw_slot_vals it' l.
Proof.
  intros it it'.
  assert (S : forall s, (forall f, In f (flatten s) -> raw_value it f = raw_value it' f) -> raw_slot_val it s = raw_slot_val it' s).
  { induction s as [f | l IH] using slot_ind'; intros H.
    - simpl. apply H. now left.
    - cbn [raw_slot_val]. f_equal. cbn [flatten] in H.
      induction IH as [|x r Hx Hr IHr]; [reflexivity|]. simpl in H.
      rewrite Hx by (intros f Hf; apply H; apply in_or_app; now left).
      rewrite IHr by (intros f Hf; apply H; apply in_or_app; now right). reflexivity. }
  induction l as [|x r IH]; intros H; [reflexivity|]. simpl. unfold flatten_all in H. simpl in H.
  rewrite S by (intros f Hf; apply H; apply in_or_app; now left).
  rewrite IH by (intros f Hf; apply H; apply in_or_app; now right). reflexivity.
Qed.

Lemma raw_slot_vals_some : forall it l,
  (forall f, In f (flatten_all l) -> raw_value it f <> None) -> raw_slot_vals it l <> None.
Proof.
  intros it.
  assert (S : forall s, (forall f, In f (flatten s) -> raw_value it f <> None) -> raw_slot_val it s <> None).
  { induction s as [f | l IH] using slot_ind'; intros H.
    - simpl. apply H. now left.
    - cbn [raw_slot_val]. cbn [flatten] in H.
      assert ((fix go (l0 : list slot) : option (list abival) :=
                 match l0 with
                 | [] => Some []
                 | x :: r => match raw_slot_val it x, go r with Some v, Some vs => Some (v :: vs) | _, _ => None end
                 end) l <> None) as G.
      { induction IH as [|x r Hx Hr IHr]; [discriminate|]. simpl in H.
        destruct (raw_slot_val it x) eqn:E1; [| exfalso; apply Hx; [intros f Hf; apply H; apply in_or_app; now left | reflexivity]].
        match goal with |- match ?g with _ => _ end <> None => destruct g eqn:E2 end; [discriminate|].
        exfalso. apply IHr; [intros f Hf; apply H; apply in_or_app; now right | reflexivity]. }
      match goal with |- option_map _ ?g <> None => destruct g end; [discriminate | contradiction]. }
  induction l as [|x r IH]; intros H; [discriminate|]. simpl. unfold flatten_all in H. simpl in H.
  destruct (raw_slot_val it x) eqn:E1; [| exfalso; apply (S x); [intros f Hf; apply H; apply in_or_app; now left | exact E1]].
  destruct (raw_slot_vals it r) eqn:E2; [discriminate|].
  exfalso. apply IH; [intros f Hf; apply H; apply in_or_app; now right | reflexivity].
Qed.

(** the indistinguishable raw values are exactly the documented defaults *)
Lemma eff_fees_classify : forall fs fs', eff_fees fs = eff_fees fs' ->
  fs = fs' \/ (fs = None /\ fs' = Some default_fees) \/ (fs = Some default_fees /\ fs' = None).
Proof.
  intros [x|] [y|] E; simpl in E.
  - left. now f_equal.
  - right. right. now subst.
  - right. left. now subst.
  - now left.
Qed.

Definition default_of (k : kind) : Z := eff_estimate k 0.

Lemma eff_estimate_classify : forall k e e', eff_estimate k e = eff_estimate k e' ->
  e = e' \/ (e = 0 /\ e' = default_of k) \/ (e = default_of k /\ e' = 0).
Proof.
  intros k e e' E. unfold default_of. unfold eff_estimate in *.
  destruct (e =? 0) eqn:A; destruct (e' =? 0) eqn:B; simpl;
    try apply Z.eqb_eq in A; try apply Z.eqb_eq in B; subst; auto.
Qed.

Section Binding2.
  Variable keccak : list byte -> list byte.
  Hypothesis keccak_len : forall x, length (keccak x) = 32%nat.

  (** The precise clause on RAW values: among items that can be handed out for relaying, equal
      signing bytes => the very values eth_txable.go packs (raw fees, raw elected estimate) agree. *)
  Theorem signbytes_bind_raw_delivered_all : forall it it', wf it -> wf it' ->
    kind_of it = kind_of it' -> via_bridge_contract (kind_of it) = true ->
    relayable it -> relayable it' ->
    sign_bytes keccak it = sign_bytes keccak it' ->
    (forall f, In f (delivered_fields (kind_of it)) -> raw_value it f = raw_value it' f /\ raw_value it f <> None)
    \/ keccak_collision keccak.
  Proof.
    intros it it' Hw Hw' Hk Hv Hr Hr' E.
    destruct (signbytes_bind_delivered_fields_all keccak keccak_len it it' Hw Hw' Hk Hv E) as [[B _] | C]; [left | now right].
    intros f Hf. rewrite (raw_is_eff it f Hr Hf).
    rewrite (raw_is_eff it' f Hr') by (rewrite <- Hk; exact Hf).
    split; [now rewrite (B f Hf) | discriminate].
  Qed.

  (** ... hence the whole delivered call (everything but the consensus argument) is determined by
      the signing bytes: collected signatures cannot authorise another call. *)
  Theorem signbytes_determine_calldata_all : forall it it', wf it -> wf it' ->
    kind_of it = kind_of it' -> via_bridge_contract (kind_of it) = true ->
    relayable it -> relayable it' ->
    sign_bytes keccak it = sign_bytes keccak it' ->
    (forall c, delivered_calldata c it = delivered_calldata c it' /\ delivered_calldata c it <> None)
    \/ keccak_collision keccak.
  Proof.
    intros it it' Hw Hw' Hk Hv Hr Hr' E.
    destruct (signbytes_bind_raw_delivered_all it it' Hw Hw' Hk Hv Hr Hr' E) as [B | C]; [left | now right].
    intros c. unfold delivered_calldata. rewrite <- Hk.
    destruct (delivered_slots_match_abi (kind_of it)) as [_ Hfl].
    assert (raw_slot_vals it (delivered_slots (kind_of it)) = raw_slot_vals it' (delivered_slots (kind_of it))) as Eq.
    { apply raw_slot_vals_ext. intros f Hf. rewrite Hfl in Hf. now apply B. }
    rewrite <- Eq.
    destruct (raw_slot_vals it (delivered_slots (kind_of it))) eqn:Es; [split; [reflexivity | discriminate]|].
    exfalso. apply (raw_slot_vals_some it (delivered_slots (kind_of it))); [| exact Es].
    intros f Hf. rewrite Hfl in Hf. now apply B.
  Qed.

  (** ALL items (relayable or not): equal signing bytes leave exactly two raw freedoms --
      estimate 0 <-> the default, fees nil <-> the default fees.  In particular a message carrying
      all-zero (or partially zero) fees is told apart from one carrying the defaults. *)
  Theorem equal_signbytes_raw_classification : forall it it', wf it -> wf it' ->
    kind_of it = kind_of it' -> via_bridge_contract (kind_of it) = true ->
    sign_bytes keccak it = sign_bytes keccak it' ->
    ((In FEstimate (bound_fields (kind_of it)) ->
        it_estimate it = it_estimate it' \/
        (it_estimate it = 0 /\ it_estimate it' = default_of (kind_of it)) \/
        (it_estimate it = default_of (kind_of it) /\ it_estimate it' = 0)) /\
     (In FRelayerFee (bound_fields (kind_of it)) ->
        raw_fees (it_action it) = raw_fees (it_action it') \/
        (raw_fees (it_action it) = None /\ raw_fees (it_action it') = Some default_fees) \/
        (raw_fees (it_action it) = Some default_fees /\ raw_fees (it_action it') = None)))
    \/ keccak_collision keccak.
  Proof.
    intros it it' Hw Hw' Hk Hv E.
    destruct (signbytes_bind_signed_fields_all keccak keccak_len it it' Hw Hw' Hk Hv E) as [B | C]; [left | now right].
    split.
    - intros Hin. specialize (B FEstimate Hin). apply fval_estimate in B. rewrite <- Hk in B.
      now apply eff_estimate_classify.
    - intros Hin.
      assert (Hfees : act_fees (it_action it) = act_fees (it_action it')).
      { assert (In FCommunityFee (bound_fields (kind_of it)) /\ In FSecurityFee (bound_fields (kind_of it))) as [I2 I3].
        { destruct (kind_of it); apply mem_In in Hin; vm_compute in Hin; try discriminate Hin;
            split; apply mem_In; vm_compute; reflexivity. }
        pose proof (B FRelayerFee Hin) as E1. pose proof (B FCommunityFee I2) as E2. pose proof (B FSecurityFee I3) as E3.
        unfold fval in E1, E2, E3. cbn [field_value] in E1, E2, E3.
        injection E1 as E1. injection E2 as E2. injection E3 as E3.
        destruct (act_fees (it_action it)), (act_fees (it_action it')); simpl in *; congruence. }
      destruct it as [id est ts rel a]. destruct it' as [id' est' ts' rel' a']. unfold kind_of in Hk, Hin. simpl in *.
      destruct a; apply mem_In in Hin; vm_compute in Hin; try discriminate Hin;
        destruct a'; try discriminate Hk; simpl in *; now apply eff_fees_classify.
  Qed.
End Binding2.

(** all-zero and partially-zero fee sets are NOT the defaults: the pre-images differ *)
Example zero_fees_are_not_the_defaults :
  let m fs := mkItem 7 5 [] 11 (SubmitLogicCall 5 [] fs [] 1) in
  outer_preimage 0 (m (Some (mkFees 0 0 0))) <> outer_preimage 0 (m None) /\
  outer_preimage 0 (m (Some (mkFees 0 0 0))) <> outer_preimage 0 (m (Some default_fees)) /\
  outer_preimage 0 (m (Some (mkFees 100000 0 100000))) <> outer_preimage 0 (m (Some default_fees)) /\
  outer_preimage 0 (m None) = outer_preimage 0 (m (Some default_fees)).
Proof. vm_compute. repeat split; try discriminate; reflexivity. Qed.

Example relayable_sample :
  relayable (mkItem 7 21000 [] 11 (SubmitLogicCall 5 [] (Some (mkFees 0 0 0)) [] 1)) /\
  delivered_calldata (VTuple []) (mkItem 7 21000 [] 11 (SubmitLogicCall 5 [] (Some (mkFees 0 0 0)) [] 1)) <> None /\
  delivered_calldata (VTuple []) (mkItem 7 21000 [] 11 (SubmitLogicCall 5 [] None [] 1)) = None.
Proof. split; [split; simpl; [lia | discriminate] | split; vm_compute; [discriminate | reflexivity]]. Qed.
