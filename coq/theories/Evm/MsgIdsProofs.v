(** C05 proofs about message ids (model: Evm/MsgIds.v): over every history of Put / Put-with-
    replace / Remove on any number of queues, ids are handed out in strictly increasing order,
    never twice, an id lives in at most one queue, and every id found in a queue was handed out
    by a Put of this history.  The only hypothesis: fewer than 2^64 operations (the counter is a
    uint64; the model wraps like the code does). *)
From Coq Require Import String List ZArith Bool Lia Sorted.
From Paloma Require Import Evm.MsgIds.
Import ListNotations.
Open Scope Z_scope.

Lemma two64_pos : 0 < two64. Proof. reflexivity. Qed.

Lemma NoDup_snoc : forall (l : list Z) x, NoDup l -> ~ In x l -> NoDup (l ++ [x]).
Proof.
  induction l as [|y r IH]; intros x H N; simpl.
  - constructor; [intros [] | constructor].
  - inversion H; subst. constructor.
    + intros X. apply in_app_or in X. destruct X as [X | [<- | []]]; [contradiction | apply N; now left].
    + apply IH; [assumption | intros X; apply N; now right].
Qed.

(** ---- ids of the list operations ---- *)
Lemma ids_app : forall l i c, ids (l ++ [(i, c)]) = ids l ++ [i].
Proof. intros l i c. unfold ids. now rewrite map_app. Qed.

Lemma ids_replace : forall i c l, ids (replace_item i c l) = ids l.
Proof.
  intros i c l. unfold ids, replace_item. rewrite map_map. apply map_ext_in.
  intros p _. destruct (fst p =? i) eqn:E; [apply Z.eqb_eq in E; now simpl | reflexivity].
Qed.

Lemma ids_remove_In : forall i l x, In x (ids (remove_item i l)) -> In x (ids l) /\ x <> i.
Proof.
  intros i l x H. unfold ids, remove_item in *. apply in_map_iff in H. destruct H as [p [<- Hp]].
  apply filter_In in Hp. destruct Hp as [Hp Hn]. split; [now apply in_map|].
  apply negb_true_iff in Hn. now apply Z.eqb_neq in Hn.
Qed.

Lemma ids_remove_NoDup : forall i l, NoDup (ids l) -> NoDup (ids (remove_item i l)).
Proof.
  intros i l. induction l as [|p r IH]; intros H; [constructor|].
  simpl in H. inversion H as [|? ? Hn Hr]; subst. simpl.
  destruct (negb (fst p =? i)); [| now apply IH].
  simpl. constructor; [| now apply IH].
  intros X. apply Hn. now apply (ids_remove_In i r (fst p)).
Qed.

Lemma has_In : forall i l, has i l = true <-> In i (ids l).
Proof.
  intros i l. unfold has, ids. rewrite existsb_exists. split.
  - intros [p [Hp E]]. apply Z.eqb_eq in E. subst. now apply in_map.
  - intros H. apply in_map_iff in H. destruct H as [p [<- Hp]]. exists p. split; [assumption | apply Z.eqb_refl].
Qed.

Lemma upd_same : forall f q l, upd f q l q = l.
Proof. intros. unfold upd. now rewrite Z.eqb_refl. Qed.
Lemma upd_other : forall f q l q', q' <> q -> upd f q l q' = f q'.
Proof. intros f q l q' H. unfold upd. apply Z.eqb_neq in H. now rewrite H. Qed.

(** ---- the invariant ---- *)
Record Inv (s : state) : Prop := {
  inv_counter : 0 <= counter s;
  inv_range : forall q i, In i (ids (qs s q)) -> 1 <= i <= counter s;
  inv_nodup : forall q, NoDup (ids (qs s q));
  inv_owner : forall q q' i, In i (ids (qs s q)) -> In i (ids (qs s q')) -> q = q' }.

Lemma inv_init : Inv init.
Proof. constructor; simpl; intros; try contradiction; try lia. constructor. Qed.

Lemma inv_start : forall c, 0 <= c -> Inv (mkState c (fun _ => [])).
Proof. intros c H. constructor; simpl; intros; try contradiction; try lia. constructor. Qed.

(** queue [q] gets a new id list that is a subset of its old one (replace, remove) *)
Lemma inv_shrink : forall s q l, Inv s -> (forall i, In i (ids l) -> In i (ids (qs s q))) -> NoDup (ids l) ->
  Inv (mkState (counter s) (upd (qs s) q l)).
Proof.
  intros s q l I Hsub Hnd. destruct I as [Ic Ir Ind Io]. constructor; simpl.
  - exact Ic.
  - intros q0 i Hi. destruct (Z.eq_dec q0 q) as [-> | N].
    + rewrite upd_same in Hi. apply (Ir q). now apply Hsub.
    + rewrite upd_other in Hi by assumption. now apply (Ir q0).
  - intros q0. destruct (Z.eq_dec q0 q) as [-> | N]; [now rewrite upd_same | rewrite upd_other by assumption; apply Ind].
  - intros q1 q2 i H1 H2.
    assert (In i (ids (qs s q1))) as A1.
    { destruct (Z.eq_dec q1 q) as [-> | N]; [rewrite upd_same in H1; now apply Hsub | now rewrite upd_other in H1]. }
    assert (In i (ids (qs s q2))) as A2.
    { destruct (Z.eq_dec q2 q) as [-> | N]; [rewrite upd_same in H2; now apply Hsub | now rewrite upd_other in H2]. }
    now apply (Io q1 q2 i).
Qed.

Lemma inv_fresh : forall s q c, Inv s ->
  Inv (mkState (counter s + 1) (upd (qs s) q (qs s q ++ [(counter s + 1, c)]))).
Proof.
  intros s q c I. destruct I as [Ic Ir Ind Io]. constructor; simpl.
  - lia.
  - intros q0 i Hi. destruct (Z.eq_dec q0 q) as [-> | N].
    + rewrite upd_same, ids_app in Hi. apply in_app_or in Hi. destruct Hi as [Hi | [<- | []]]; [| lia].
      specialize (Ir q i Hi). lia.
    + rewrite upd_other in Hi by assumption. specialize (Ir q0 i Hi). lia.
  - intros q0. destruct (Z.eq_dec q0 q) as [-> | N]; [| rewrite upd_other by assumption; apply Ind].
    rewrite upd_same, ids_app. apply NoDup_snoc.
    + apply Ind.
    + intros X. specialize (Ir q _ X). lia.
  - intros q1 q2 i H1 H2.
    assert (forall q0, In i (ids (upd (qs s) q (qs s q ++ [(counter s + 1, c)]) q0)) ->
                       (In i (ids (qs s q0)) /\ i <= counter s) \/ (q0 = q /\ i = counter s + 1)) as K.
    { intros q0 H. destruct (Z.eq_dec q0 q) as [-> | N].
      - rewrite upd_same, ids_app in H. apply in_app_or in H. destruct H as [H | [<- | []]]; [left | now right].
        split; [assumption | specialize (Ir q i H); lia].
      - rewrite upd_other in H by assumption. left. split; [assumption | specialize (Ir q0 i H); lia]. }
    destruct (K q1 H1) as [[A1 B1] | [-> E1]]; destruct (K q2 H2) as [[A2 B2] | [-> E2]]; try lia.
    now apply (Io q1 q2 i).
Qed.

(** ---- one step ---- *)
Arguments Z.eqb : simpl never.
Arguments Z.modulo : simpl never.
Lemma step_spec : forall s o, Inv s -> counter s + 1 < two64 ->
  let s' := fst (step s o) in let r := snd (step s o) in
  Inv s' /\ counter s <= counter s' <= counter s + 1 /\
  (forall i, In i (alloc_of o r) -> i = counter s + 1 /\ counter s' = counter s + 1) /\
  (forall q i, In i (ids (qs s' q)) -> In i (ids (qs s q)) \/ In i (alloc_of o r)).
Proof.
  intros s o I Hc. pose proof (inv_counter s I) as H0. destruct o as [q rep c | q i]; simpl.
  - destruct (rep =? 0) eqn:Er.
    + rewrite Z.mod_small by lia. destruct (counter s + 1 =? 0) eqn:E0; [apply Z.eqb_eq in E0; lia|]. simpl.
      split; [now apply inv_fresh|]. split; [lia|]. split.
      * intros i [<- | []]. split; reflexivity.
      * intros q0 i Hi. destruct (Z.eq_dec q0 q) as [-> | N].
        -- rewrite upd_same, ids_app in Hi. apply in_app_or in Hi. destruct Hi as [Hi | [<- | []]]; [now left | right; now left].
        -- rewrite upd_other in Hi by assumption. now left.
    + destruct (has rep (qs s q)) eqn:Eh; simpl; rewrite ?Er.
      * split; [apply inv_shrink; [assumption | intros i; now rewrite ids_replace | rewrite ids_replace; apply (inv_nodup s I)]|].
        split; [lia|]. split; [intros i []|].
        intros q0 i Hi. left. destruct (Z.eq_dec q0 q) as [-> | N];
          [rewrite upd_same, ids_replace in Hi; assumption | now rewrite upd_other in Hi].
      * split; [assumption|]. split; [lia|]. split; [intros i [] | intros q0 i Hi; now left].
  - destruct (has i (qs s q)) eqn:Eh; simpl.
    + split; [apply inv_shrink; [assumption | intros x Hx; now apply (ids_remove_In i) | apply ids_remove_NoDup; apply (inv_nodup s I)]|].
      split; [lia|]. split; [intros x []|].
      intros q0 x Hx. left. destruct (Z.eq_dec q0 q) as [-> | N];
        [rewrite upd_same in Hx; now apply (ids_remove_In i) | now rewrite upd_other in Hx].
    + split; [assumption|]. split; [lia|]. split; [intros x [] | intros q0 x Hx; now left].
Qed.

Lemma alloc_of_cases : forall o r, alloc_of o r = [] \/ exists i, alloc_of o r = [i].
Proof.
  intros o r. destruct o as [q rep c | q i]; destruct r; simpl; try (now left).
  destruct (rep =? 0); [right; now eexists | now left].
Qed.

(** ---- whole histories, from any state that satisfies the invariant ---- *)
Lemma run_from_spec : forall ops s, Inv s -> counter s + Z.of_nat (length ops) < two64 ->
  let s' := fst (run_from s ops) in let rs := snd (run_from s ops) in
  Inv s' /\ counter s <= counter s' <= counter s + Z.of_nat (length ops) /\
  StronglySorted Z.lt (allocs ops rs) /\
  (forall i, In i (allocs ops rs) -> counter s < i <= counter s') /\
  (forall q i, In i (ids (qs s' q)) -> In i (ids (qs s q)) \/ In i (allocs ops rs)).
Proof.
  induction ops as [|o r IH]; intros s I Hc.
  - simpl. split; [assumption|]. split; [lia|]. split; [constructor|]. split; [intros i [] | intros q i Hi; now left].
  - simpl length in Hc. rewrite Nat2Z.inj_succ in Hc.
    pose proof (step_spec s o I ltac:(lia)) as S. cbv zeta in S.
    simpl run_from. destruct (step s o) as [s1 x] eqn:E1. simpl in S.
    destruct S as [I1 [C1 [A1 P1]]].
    specialize (IH s1 I1 ltac:(lia)). cbv zeta in IH.
    destruct (run_from s1 r) as [s2 xs] eqn:E2. simpl in IH. destruct IH as [I2 [C2 [S2 [R2 P2]]]].
    simpl. split; [assumption|]. split; [rewrite ?Zpos_P_of_succ_nat; lia|].
    split; [| split].
    + destruct (alloc_of_cases o x) as [-> | [i Ei]]; [exact S2|]. rewrite Ei. simpl.
      constructor; [exact S2|]. apply Forall_forall. intros j Hj. specialize (R2 j Hj).
      destruct (A1 i) as [-> E]; [rewrite Ei; now left | lia].
    + intros i Hi. apply in_app_or in Hi. destruct Hi as [Hi | Hi].
      * destruct (A1 i Hi) as [-> E]. lia.
      * specialize (R2 i Hi). lia.
    + intros q i Hi. destruct (P2 q i Hi) as [H | H]; [| right; apply in_or_app; now right].
      destruct (P1 q i H) as [H' | H']; [now left | right; apply in_or_app; now left].
Qed.

Lemma StronglySorted_lt_NoDup : forall l, StronglySorted Z.lt l -> NoDup l.
Proof.
  induction l as [|x r IH]; intros H; [constructor|].
  inversion H as [|? ? Hs Hf]; subst. constructor; [| now apply IH].
  intros X. rewrite Forall_forall in Hf. specialize (Hf x X). lia.
Qed.

(** ---- the statements (from the empty keeper) ---- *)
Theorem ids_strictly_increase : forall ops, Z.of_nat (length ops) < two64 ->
  StronglySorted Z.lt (allocated_ids ops).
Proof.
  intros ops H. pose proof (run_from_spec ops init inv_init) as S. simpl counter in S.
  specialize (S ltac:(lia)). cbv zeta in S. unfold allocated_ids, results. tauto.
Qed.

Theorem ids_never_reused : forall ops, Z.of_nat (length ops) < two64 -> NoDup (allocated_ids ops).
Proof. intros ops H. apply StronglySorted_lt_NoDup. now apply ids_strictly_increase. Qed.

Theorem ids_unique_across_queues : forall ops q q' i, Z.of_nat (length ops) < two64 ->
  In i (ids (qs (run ops) q)) -> In i (ids (qs (run ops) q')) ->
  q = q' /\ NoDup (ids (qs (run ops) q)) /\ In i (allocated_ids ops) /\ 1 <= i <= counter (run ops).
Proof.
  intros ops q q' i H H1 H2. pose proof (run_from_spec ops init inv_init) as S. simpl counter in S.
  specialize (S ltac:(lia)). cbv zeta in S. unfold run, allocated_ids, results in *.
  destruct S as [I [_ [_ [_ P]]]]. split; [now apply (inv_owner _ I q q' i)|].
  split; [apply (inv_nodup _ I)|]. split; [| now apply (inv_range _ I q)].
  destruct (P q i H1) as [X | X]; [contradiction | exact X].
Qed.

(** Put with MsgIDToReplace keeps the id and allocates none; Remove allocates none. *)
Theorem replace_allocates_none : forall s q r c, r <> 0 ->
  counter (fst (step s (OPut q r c))) = counter s /\
  alloc_of (OPut q r c) (snd (step s (OPut q r c))) = [] /\
  (forall i, snd (step s (OPut q r c)) = RId i -> i = r /\ In r (ids (qs s q))).
Proof.
  intros s q r c H. apply Z.eqb_neq in H. simpl. rewrite H.
  destruct (has r (qs s q)) eqn:E; simpl; rewrite ?H.
  - split; [reflexivity|]. split; [reflexivity|]. intros i X. injection X as <-. split; [reflexivity | now apply has_In].
  - split; [reflexivity|]. split; [reflexivity|]. intros i X. discriminate.
Qed.

(** ---- second round: the lifetime of an id; replace through another queue ---- *)
Lemma run_from_app : forall a b s,
  run_from s (a ++ b) =
  (fst (run_from (fst (run_from s a)) b), snd (run_from s a) ++ snd (run_from (fst (run_from s a)) b)).
Proof.
  induction a as [|o r IH]; intros b s; simpl.
  - now destruct (run_from s b).
  - destruct (step s o) as [s1 x]. rewrite (IH b s1).
    destruct (run_from s1 r) as [s2 xs]. simpl. now destruct (run_from s2 b).
Qed.

Lemma run_app : forall a b, run (a ++ b) = fst (run_from (run a) b).
Proof. intros a b. unfold run. now rewrite run_from_app. Qed.

Lemma run_inv : forall ops, Z.of_nat (length ops) < two64 -> Inv (run ops).
Proof.
  intros ops H. pose proof (run_from_spec ops init inv_init) as S. simpl counter in S.
  specialize (S ltac:(lia)). cbv zeta in S. unfold run. tauto.
Qed.

Lemma run_counter : forall ops, Z.of_nat (length ops) < two64 -> 0 <= counter (run ops) <= Z.of_nat (length ops).
Proof.
  intros ops H. pose proof (run_from_spec ops init inv_init) as S. simpl counter in S.
  specialize (S ltac:(lia)). cbv zeta in S. unfold run. lia.
Qed.

(** An id that was handed out and is in no queue any more stays out of every queue for ever:
    it cannot be allocated again (the counter is past it) and a replace needs it to be present. *)
Lemma dead_stays_dead : forall ops s i, Inv s -> counter s + Z.of_nat (length ops) < two64 ->
  i <= counter s -> (forall q, ~ In i (ids (qs s q))) ->
  forall q, ~ In i (ids (qs (fst (run_from s ops)) q)).
Proof.
  intros ops s i I Hc Hi Hdead q X.
  pose proof (run_from_spec ops s I Hc) as S. cbv zeta in S. destruct S as [_ [_ [_ [R P]]]].
  destruct (P q i X) as [H | H]; [now apply (Hdead q) | specialize (R i H); lia].
Qed.

Theorem removed_id_never_comes_back : forall ops1 q i ops2,
  Z.of_nat (length (ops1 ++ ORemove q i :: ops2)) < two64 ->
  In i (ids (qs (run ops1) q)) ->
  snd (step (run ops1) (ORemove q i)) = ROk /\
  (forall q', ~ In i (ids (qs (run (ops1 ++ ORemove q i :: ops2)) q'))).
Proof.
  intros ops1 q i ops2 Hlen Hin.
  rewrite app_length in Hlen. simpl length in Hlen.
  assert (I1 : Inv (run ops1)) by (apply run_inv; lia).
  pose proof (run_counter ops1 ltac:(lia)) as C1.
  split; [simpl; apply has_In in Hin; now rewrite Hin|].
  rewrite run_app. simpl run_from. apply has_In in Hin. simpl step. rewrite Hin. apply has_In in Hin.
  set (s1 := mkState (counter (run ops1)) (upd (qs (run ops1)) q (remove_item i (qs (run ops1) q)))).
  assert (I2 : Inv s1).
  { apply inv_shrink; [assumption | intros x Hx; now apply (ids_remove_In i) | apply ids_remove_NoDup; apply (inv_nodup _ I1)]. }
  destruct (run_from s1 ops2) as [s2 xs] eqn:E. simpl fst.
  replace s2 with (fst (run_from s1 ops2)) by now rewrite E.
  intros q'. apply dead_stays_dead; try assumption.
  - unfold s1. simpl counter. lia.
  - unfold s1. simpl counter. pose proof (inv_range _ I1 q i Hin). lia.
  - intros q0 X. unfold s1 in X. simpl qs in X. destruct (Z.eq_dec q0 q) as [-> | N].
    + rewrite upd_same in X. apply ids_remove_In in X. now destruct X.
    + rewrite upd_other in X by assumption. apply N. now apply (inv_owner _ I1 q0 q i).
Qed.

(** Put with MsgIDToReplace addressed to ANOTHER queue than the one holding the id is refused and
    changes nothing (the situation seeded change C05-B manifested in). *)
Theorem replace_through_other_queue_refused : forall ops q q' i c,
  Z.of_nat (length ops) < two64 -> In i (ids (qs (run ops) q)) -> q' <> q ->
  step (run ops) (OPut q' i c) = (run ops, RErr).
Proof.
  intros ops q q' i c H Hin N. pose proof (run_inv ops H) as I.
  pose proof (inv_range _ I q i Hin) as R.
  simpl. destruct (i =? 0) eqn:E0; [apply Z.eqb_eq in E0; lia|].
  destruct (has i (qs (run ops) q')) eqn:Eh; [| reflexivity].
  apply has_In in Eh. exfalso. apply N. now apply (inv_owner _ I q' q i).
Qed.

(** ... and so is a replace of an id that is in no queue (never handed out, or removed). *)
Theorem replace_of_absent_id_refused : forall s q i c, i <> 0 -> ~ In i (ids (qs s q)) ->
  step s (OPut q i c) = (s, RErr).
Proof.
  intros s q i c H0 Hn. simpl. apply Z.eqb_neq in H0. rewrite H0.
  destruct (has i (qs s q)) eqn:Eh; [apply has_In in Eh; contradiction | reflexivity].
Qed.

(** The model's counter discipline is the source's: one key for all queues, last+1, replace guard. *)
Lemma source_counter_shape :
  Gen.C05.id_counter_key_expr = "consensusQueueIDCounterKey"%string /\
  Gen.C05.put_replace_guard = true /\ Gen.C05.id_increment_is_last_plus_one = true.
Proof. repeat split; reflexivity. Qed.

(** nothing but Queue.Put reaches the id generator, and the generator's only store write is the
    one of IncrementNextID (so Remove / save / SetElectedGasEstimate ... cannot move the counter) *)
Lemma counter_written_by_put_only :
  Gen.C05.id_generator_used_by_put_only = true /\ Gen.C05.id_generator_uses_in_queue = 1 /\
  Gen.C05.id_generator_store_writes = 1.
Proof. repeat split; reflexivity. Qed.

(** third round: every place of the consensus module that hands out bytes to sign computes them from
    the message it was given (GetBytesToSign on the stored message, nothing memoised), and the keeper
    carries no field that could hold such a memo: exactly the fields of the pinned tree, none a map *)
Lemma served_signbytes_are_recomputed :
  Forall (fun p => snd p = "msg.GetBytesToSign"%string) Gen.C05.bytes_to_sign_sites /\
  map fst Gen.C05.bytes_to_sign_sites = ["ToMessageWithSignatures"; "queuedMessageToMessageToSign"]%string /\
  map fst Gen.C05.consensus_keeper_fields =
    ["cdc"; "storeKey"; "paramstore"; "ider"; "valset"; "registry"; "evmKeeper"; "consensusChecker"; "feeProvider";
     "onMessageAttestedListeners"]%string /\
  map snd Gen.C05.consensus_keeper_fields =
    ["codec.Codec"; "store.KVStoreService"; "paramtypes.Subspace"; "keeperutil.IDGenerator"; "types.ValsetKeeper"; "*registry";
     "types.EvmKeeper"; "*libcons.ConsensusChecker"; "FeeProvider"; "[]metrixtypes.OnConsensusMessageAttestedListener"]%string /\
  Gen.C05.consensus_package_level_maps = 0.
Proof. split; [repeat constructor | repeat split; reflexivity]. Qed.

(** fourth round: the bytes to sign stored with a skyway batch are rewritten whenever something they
    cover changes -- at estimate election and, for EVERY open batch of the chain, when the chain is
    activated with a new compass: the loop skips a batch only for another chain or unchanged bytes *)
Lemma batch_bytes_follow_the_compass :
  Gen.C05.batch_refresh_skip_conditions = ["batch.ChainReferenceID!=chainReferenceID"; "bytes.Equal(bts,batch.BytesToSign)"]%string /\
  Gen.C05.batch_refresh_rewrites_bytes = true /\ Gen.C05.batch_refresh_reads_all_open_batches = true /\
  Gen.C05.batch_refresh_on_compass_activation = true /\ Gen.C05.batch_estimate_election_rewrites_bytes = true /\
  Gen.C05.batch_bytes_to_sign_writes =
    ["UpdateBatchGasEstimate:entity.BytesToSign=bts"; "refreshOpenBatchCheckpoints:batch.BytesToSign=bts"]%string.
Proof. repeat split; reflexivity. Qed.

(** ---- non-vacuity ---- *)
Example ids_sample :
  let ops := [OPut 0 0 10; OPut 1 0 11; OPut 0 1 12; ORemove 1 2; OPut 1 0 13; OPut 1 1 14] in
  results ops = [RId 1; RId 2; RId 1; ROk; RId 3; RErr] /\ allocated_ids ops = [1; 2; 3] /\
  ids (qs (run ops) 0) = [1] /\ ids (qs (run ops) 1) = [3].
Proof. vm_compute. repeat split; reflexivity. Qed.

(** the bound is necessary: a counter seeded just below 2^64 wraps and hands out 1 again *)
Example wrap_sample :
  snd (run_from (mkState (two64 - 1) (fun _ => [])) [OPut 0 0 1; OPut 0 0 2]) = [RErr; RId 1].
Proof. vm_compute. reflexivity. Qed.
