(** Eligibility of the picked relayer.  None of the soundness lemmas looks at the scores: the
    winner is a member of the filtered ranking, and the ranking is a rearrangement of the
    validators that have both records — whatever the arithmetic says. *)
From Coq Require Import String List ZArith Bool Lia.
From Paloma Require Import Base.Dec Evm.Assign.
From Paloma Require Gen.C14.
Import ListNotations.
Open Scope Z_scope.

(** ---- tie to the source ---- *)
Example pool_size_is : pool_size = 5. Proof. reflexivity. Qed.
Example winner_index_is :
  Gen.C14.winner_index_expr = "ts % int64(min(len(assignableValidators), topValidatorPoolSize))"%string.
Proof. reflexivity. Qed.
Example pick_stages_are :
  Gen.C14.pick_stages = ["GetCurrentSnapshot"; "getSnapshotForRound"; "filterValidatorsForJob"; "removeWinnerFromSnapshot"]%string.
Proof. reflexivity. Qed.
Example rank_comparator_is :
  Gen.C14.rank_comparator = ["a.score.GT(b.score) => -1"; "a.score.LT(b.score) => 1";
                             "else => strings.Compare(a.address, b.address)"]%string.
Proof. reflexivity. Qed.
Example score_columns_are :
  Gen.C14.score_columns = ["info.Fee:true"; "info.Uptime:false"; "info.SuccessRate:false";
                           "info.ExecutionTime:true"; "info.FeatureSet:false"]%string.
Proof. reflexivity. Qed.
Example mev_trait_is : Gen.C14.pigeon_trait_mev = "mev"%string. Proof. reflexivity. Qed.
Example default_weights_are :
  Gen.C14.default_relay_weights = ["Fee=1.0"; "Uptime=1.0"; "SuccessRate=1.0"; "ExecutionTime=1.0"; "FeatureSet=1.0"]%string.
Proof. reflexivity. Qed.

(** ---- what "eligible" means (the property statement, clause by clause) ---- *)
Definition in_snapshot (sn : snapshot) (v : Z) : Prop := exists e, In e sn /\ v_addr e = v.
Definition has_metrics (ms : list metric) (v : Z) : Prop := exists m, In m ms /\ m_addr m = v.
Definition has_fee (fs : list (Z * Z)) (v : Z) : Prop := exists f, In (v, f) fs.
(** the account of a snapshot entry on a chain: its first chain info for that chain *)
Definition account (e : validator) (chain : Z) : option Z := option_map ci_remote (first_info e chain).
Definition carries_trait (e : validator) (chain t : Z) : Prop :=
  exists ci, first_info e chain = Some ci /\ In t (ci_traits ci).

Definition eligible (sn : snapshot) (ms : list metric) (fs : list (Z * Z)) (chain : Z) (req : option bool) (v : Z) : Prop :=
  (exists e, In e sn /\ v_addr e = v /\ account e chain <> None /\
             (mev_required req = true -> carries_trait e chain trait_mev)) /\
  has_metrics ms v /\ has_fee fs v.

(** ---- list plumbing ---- *)
Lemma find_some_in {A} (f : A -> bool) l x : find f l = Some x -> In x l /\ f x = true.
Proof. apply find_some. Qed.

Lemma find_last_some {A} (f : A -> bool) l x : find_last f l = Some x -> In x l /\ f x = true.
Proof. unfold find_last. intros H. apply find_some in H as [H1 H2]. split; auto. now apply in_rev. Qed.

Lemma find_last_none {A} (f : A -> bool) l : find_last f l = None -> forall x, In x l -> f x = false.
Proof. unfold find_last. intros H x Hx. apply (find_none f (rev l) H). now apply in_rev in Hx. Qed.

Lemma filter_map_in {A B} (f : A -> option B) l y :
  In y (filter_map f l) <-> exists x, In x l /\ f x = Some y.
Proof.
  induction l as [|a r IH]; simpl.
  - split; [tauto | intros (x & [] & _)].
  - destruct (f a) eqn:E; simpl; rewrite ?IH; split.
    + intros [->|(x & Hx & Ex)]; [exists a; auto | exists x; auto].
    + intros (x & [->|Hx] & Ex); [left; congruence | right; eauto].
    + intros (x & Hx & Ex); eauto.
    + intros (x & [->|Hx] & Ex); [congruence | eauto].
Qed.

Lemma dedup_in seen l a : In a (dedup seen l) -> In a l.
Proof.
  revert seen; induction l as [|b r IH]; simpl; intros seen H; auto.
  destruct (existsb (Z.eqb b) seen).
  - right; eauto.
  - destruct H as [->|H]; [left; reflexivity | right; eauto].
Qed.

Lemma dedup_complete seen l a : In a l -> ~ In a seen -> In a (dedup seen l).
Proof.
  revert seen; induction l as [|b r IH]; simpl; intros seen H Hn; [tauto|].
  destruct (existsb (Z.eqb b) seen) eqn:E.
  - destruct H as [->|H]; [|now apply IH].
    exfalso. apply existsb_exists in E as (x & Hx & Ex). apply Z.eqb_eq in Ex. subst. tauto.
  - destruct (Z.eq_dec a b) as [->|Hab]; [left; reflexivity|].
    destruct H as [->|H]; [tauto|]. right. apply IH; auto.
    intros [->|H']; tauto.
Qed.

Lemma insert_in x y l : In x (insert y l) <-> x = y \/ In x l.
Proof.
  induction l as [|z r IH]; simpl.
  - intuition.
  - destruct (before y z); simpl; rewrite ?IH; intuition.
Qed.

Lemma sort_scores_in x l : In x (sort_scores l) <-> In x l.
Proof.
  unfold sort_scores. induction l as [|y r IH]; simpl; [tauto|].
  rewrite insert_in, IH. intuition.
Qed.

Lemma insert_length y l : length (insert y l) = S (length l).
Proof. induction l as [|z r IH]; simpl; auto. destruct (before y z); simpl; auto. Qed.

Lemma sort_scores_length l : length (sort_scores l) = length l.
Proof. unfold sort_scores. induction l; simpl; auto. rewrite insert_length. auto. Qed.

(** ---- the ranking only rearranges validators with both records ---- *)
Lemma rank_addr_in infos w a :
  In a (map fst (rank infos w)) <-> exists i, In i infos /\ i_addr i = a.
Proof.
  unfold rank. rewrite in_map_iff. split.
  - intros ((a', s) & E & H). simpl in E. subst a'. apply (proj1 (sort_scores_in _ _)) in H.
    apply (proj1 (in_map_iff _ _ _)) in H as (i & Ei & Hi). inversion Ei; subst. eauto.
  - intros (i & Hi & E). exists (i_addr i, score_of infos w i). split; [auto|].
    apply sort_scores_in. apply in_map_iff. eauto.
Qed.

Lemma info_of_some ms fs a i :
  info_of ms fs a = Some i -> i_addr i = a /\ has_metrics ms a /\ has_fee fs a.
Proof.
  unfold info_of, perf_lookup, fee_lookup.
  destruct (find_last (fun m => m_addr m =? a) ms) as [p|] eqn:E1; try discriminate.
  destruct (find_last (fun p => fst p =? a) fs) as [[k f]|] eqn:E2; simpl; try discriminate.
  intros E; inversion E; subst; simpl. split; [reflexivity|].
  apply find_last_some in E1 as [H1 H1']. apply Z.eqb_eq in H1'.
  apply find_last_some in E2 as [H2 H2']. simpl in H2'. apply Z.eqb_eq in H2'. subst k.
  split; [exists p; auto | exists f; auto].
Qed.

Lemma info_of_complete ms fs a :
  has_metrics ms a -> has_fee fs a -> exists i, info_of ms fs a = Some i.
Proof.
  intros (m & Hm & Em) (f & Hf). unfold info_of, perf_lookup, fee_lookup.
  destruct (find_last (fun m => m_addr m =? a) ms) as [p|] eqn:E1.
  2:{ apply find_last_none with (x := m) in E1; auto. apply Z.eqb_neq in E1. tauto. }
  destruct (find_last (fun p => fst p =? a) fs) as [q|] eqn:E2; simpl; eauto.
  apply find_last_none with (x := (a, f)) in E2; auto. simpl in E2. apply Z.eqb_neq in E2. tauto.
Qed.

Lemma build_infos_in sn ms fs i :
  In i (build_infos sn ms fs) -> in_snapshot sn (i_addr i) /\ has_metrics ms (i_addr i) /\ has_fee fs (i_addr i).
Proof.
  unfold build_infos. intros H. apply filter_map_in in H as (a & Ha & E).
  apply info_of_some in E as (-> & Hm & Hf). split; [|auto].
  apply dedup_in in Ha. apply in_map_iff in Ha as (e & Ee & He). exists e; auto.
Qed.

Lemma build_infos_complete sn ms fs a :
  in_snapshot sn a -> has_metrics ms a -> has_fee fs a ->
  exists i, In i (build_infos sn ms fs) /\ i_addr i = a.
Proof.
  intros (e & He & Ee) Hm Hf. destruct (info_of_complete ms fs a Hm Hf) as (i & Ei).
  exists i. split; [|apply info_of_some in Ei; tauto].
  unfold build_infos. apply filter_map_in. exists a. split; [|exact Ei].
  apply dedup_complete; [|simpl; tauto]. apply in_map_iff. eauto.
Qed.

(** ---- the job filter ---- *)
Lemma job_ok_true sn chain req a :
  job_ok sn chain req a = true ->
  exists e ci, lut_lookup sn a = Some e /\ In e sn /\ v_addr e = a /\ first_info e chain = Some ci /\
               (mev_required req = true -> In trait_mev (ci_traits ci)).
Proof.
  unfold job_ok. destruct (lut_lookup sn a) as [e|] eqn:E1; try discriminate.
  destruct (first_info e chain) as [ci|] eqn:E2; try discriminate.
  intros H. exists e, ci. unfold lut_lookup in E1.
  pose proof (find_last_some _ _ _ E1) as [Hin Ha]. apply Z.eqb_eq in Ha.
  repeat split; auto.
  intros M. rewrite M in H. apply existsb_exists in H as (t & Ht & Et).
  apply Z.eqb_eq in Et. subst. exact Ht.
Qed.

Lemma remote_of_some sn a chain r :
  remote_of sn a chain = Some r -> exists e, In e sn /\ v_addr e = a /\ account e chain = Some r.
Proof.
  unfold remote_of, account. destruct (find (fun v => v_addr v =? a) sn) as [e|] eqn:E; try discriminate.
  apply find_some in E as [Hin Ha]. apply Z.eqb_eq in Ha. intros H. exists e. auto.
Qed.

Lemma pick_winner_in_eligible_list sn ms fs w chain req ts v r :
  pick sn ms fs w chain req ts = Picked v r ->
  In v (eligible_list sn ms fs w chain req) /\ remote_of sn v chain = Some r.
Proof.
  unfold pick.
  destruct (build_infos sn ms fs) eqn:EB; try discriminate. clear EB.
  destruct (eligible_list sn ms fs w chain req) as [|x0 l0] eqn:EL; try discriminate.
  rewrite <- EL.
  destruct (Z.rem ts _ <? 0); try discriminate.
  destruct (nth_error _ _) as [v'|] eqn:EN; try discriminate.
  destruct (remote_of sn v' chain) as [r'|] eqn:ER; try discriminate.
  intros E; inversion E; subst. split; [eapply nth_error_In; eauto | auto].
Qed.

(** General form: no assumption on the snapshot (entries may even repeat an address). *)
Lemma assignee_eligible_any_snapshot sn ms fs w chain req ts v remote :
  pick sn ms fs w chain req ts = Picked v remote ->
  has_metrics ms v /\ has_fee fs v /\
  (exists e, In e sn /\ v_addr e = v /\ account e chain = Some remote) /\
  (exists e', In e' sn /\ v_addr e' = v /\ account e' chain <> None /\
              (mev_required req = true -> carries_trait e' chain trait_mev)).
Proof.
  intros H. apply pick_winner_in_eligible_list in H as [Hin Hr].
  unfold eligible_list in Hin. apply filter_In in Hin as [Hrank Hjob].
  apply rank_addr_in in Hrank as (i & Hi & Ei). apply build_infos_in in Hi as (_ & Hm & Hf).
  rewrite Ei in Hm, Hf.
  apply job_ok_true in Hjob as (e' & ci & _ & Hin' & Ha' & Hfi & Hmev).
  repeat split; auto.
  - apply remote_of_some in Hr. exact Hr.
  - exists e'. repeat split; auto.
    + unfold account. rewrite Hfi. discriminate.
    + intros M. exists ci. auto.
Qed.

Lemma nodup_addr_inj (sn : snapshot) e e' :
  NoDup (map v_addr sn) -> In e sn -> In e' sn -> v_addr e = v_addr e' -> e = e'.
Proof.
  induction sn as [|x r IH]; simpl; intros ND H H' E; [tauto|].
  inversion ND as [|? ? Hnot ND']; subst.
  destruct H as [->|H]; destruct H' as [->|H']; auto.
  - exfalso. apply Hnot. rewrite E. apply in_map; auto.
  - exfalso. apply Hnot. rewrite <- E. apply in_map; auto.
Qed.

(** The property clause, for snapshots as the valset keeper builds them (one entry per validator). *)
Lemma assignee_eligible_nodup sn ms fs w chain req ts v remote :
  NoDup (map v_addr sn) ->
  pick sn ms fs w chain req ts = Picked v remote ->
  exists e, In e sn /\ v_addr e = v /\
            account e chain = Some remote /\
            has_fee fs v /\ has_metrics ms v /\
            (mev_required req = true -> carries_trait e chain trait_mev).
Proof.
  intros ND H. apply assignee_eligible_any_snapshot in H as (Hm & Hf & (e & He & Ea & Hacc) & (e' & He' & Ea' & _ & Hmev)).
  assert (e = e') by (eapply nodup_addr_inj; eauto; congruence). subst e'.
  exists e. repeat split; auto.
Qed.

Lemma picked_is_eligible sn ms fs w chain req ts v remote :
  pick sn ms fs w chain req ts = Picked v remote -> eligible sn ms fs chain req v.
Proof.
  intros H. apply assignee_eligible_any_snapshot in H as (Hm & Hf & _ & (e' & He' & Ea' & Hacc & Hmev)).
  split; [|auto]. exists e'. auto.
Qed.

(** ---- nobody eligible: the request fails and the queue is untouched ---- *)
Definition enq_failed (r : enq_result) : Prop := match r with EnqOk _ => False | _ => True end.

Lemma no_eligible_no_enqueue_lemma sn ms fs w chain req ts payload s :
  (forall v, ~ eligible sn ms fs chain req v) ->
  fst (enqueue_request sn ms fs w chain req ts payload s) = s /\
  enq_failed (snd (enqueue_request sn ms fs w chain req ts payload s)).
Proof.
  intros Hno. unfold enqueue_request.
  destruct (pick sn ms fs w chain req ts) as [v r| |] eqn:E; simpl; auto.
  exfalso. eapply Hno. eapply picked_is_eligible; eauto.
Qed.

(** and in general a failed request changes nothing, a successful one appends exactly the winner *)
Lemma enqueue_request_shape sn ms fs w chain req ts payload s :
  match snd (enqueue_request sn ms fs w chain req ts payload s) with
  | EnqOk id => exists v r, pick sn ms fs w chain req ts = Picked v r /\
                  qs_msgs (fst (enqueue_request sn ms fs w chain req ts payload s))
                  = qs_msgs s ++ [{| q_id := id; q_assignee := v; q_remote := r; q_payload := payload |}]
  | _ => fst (enqueue_request sn ms fs w chain req ts payload s) = s
  end.
Proof.
  unfold enqueue_request. destruct (pick sn ms fs w chain req ts) as [v r| |]; simpl; eauto.
Qed.

(** ---- completeness: with somebody eligible (and a sane block time) a relayer IS assigned ---- *)
Lemma find_first_last_nodup (sn : snapshot) a e :
  NoDup (map v_addr sn) -> In e sn -> v_addr e = a ->
  find (fun v => v_addr v =? a) sn = Some e /\ lut_lookup sn a = Some e.
Proof.
  intros ND He Ea. split.
  - destruct (find (fun v => v_addr v =? a) sn) as [x|] eqn:E.
    + apply find_some in E as [Hx Ex]. apply Z.eqb_eq in Ex. f_equal.
      eapply nodup_addr_inj; eauto. congruence.
    + eapply find_none in E; eauto. apply Z.eqb_neq in E. tauto.
  - unfold lut_lookup. destruct (find_last (fun v => v_addr v =? a) sn) as [x|] eqn:E.
    + apply find_last_some in E as [Hx Ex]. apply Z.eqb_eq in Ex. f_equal.
      eapply nodup_addr_inj; eauto. congruence.
    + eapply find_last_none in E; eauto. apply Z.eqb_neq in E. tauto.
Qed.

Lemma eligible_job_ok sn ms fs chain req v :
  NoDup (map v_addr sn) -> eligible sn ms fs chain req v -> job_ok sn chain req v = true.
Proof.
  intros ND ((e & He & Ea & Hacc & Hmev) & _ & _). unfold job_ok.
  destruct (find_first_last_nodup sn v e ND He Ea) as [_ ->].
  unfold account in Hacc. destruct (first_info e chain) as [ci|] eqn:E; [|simpl in Hacc; tauto].
  destruct (mev_required req) eqn:M; auto.
  destruct (Hmev eq_refl) as (ci' & E' & Ht). rewrite E in E'. inversion E'; subst.
  apply existsb_exists. exists trait_mev. split; auto.
Qed.

Lemma eligible_in_list sn ms fs w chain req v :
  NoDup (map v_addr sn) -> eligible sn ms fs chain req v -> In v (eligible_list sn ms fs w chain req).
Proof.
  intros ND H. pose proof (eligible_job_ok _ _ _ _ _ _ ND H) as J.
  destruct H as ((e & He & Ea & _) & Hm & Hf).
  unfold eligible_list. apply filter_In. split; auto.
  apply rank_addr_in. apply build_infos_complete; auto. exists e; auto.
Qed.

Lemma eligible_gets_assignment_lemma sn ms fs w chain req ts v :
  NoDup (map v_addr sn) -> 0 <= ts -> eligible sn ms fs chain req v ->
  exists v' r, pick sn ms fs w chain req ts = Picked v' r /\ eligible sn ms fs chain req v'.
Proof.
  intros ND Hts H. pose proof (eligible_in_list _ _ _ w _ _ _ ND H) as Hin.
  assert (HB : build_infos sn ms fs <> []).
  { destruct H as ((e & He & Ea & _) & Hm & Hf).
    destruct (build_infos_complete sn ms fs v) as (i & Hi & _); auto. exists e; auto.
    intros E; rewrite E in Hi; inversion Hi. }
  case_eq (pick sn ms fs w chain req ts).
  - intros v' r E. exists v', r. split; auto. eapply picked_is_eligible; eauto.
  - (* error: impossible *)
    intros c E. exfalso. unfold pick in E.
    destruct (build_infos sn ms fs) eqn:EB; [congruence|]. clear EB.
    destruct (eligible_list sn ms fs w chain req) as [|x0 l0] eqn:EL; [inversion Hin|].
    rewrite <- EL in E.
    destruct (Z.rem ts _ <? 0); try discriminate.
    destruct (nth_error _ _) as [v'|] eqn:EN; try discriminate.
    destruct (remote_of sn v' chain) as [r'|] eqn:ER; try discriminate.
    (* missing external address although the filter accepted v' *)
    apply nth_error_In in EN. unfold eligible_list in EN. apply filter_In in EN as [_ J].
    apply job_ok_true in J as (e' & ci & _ & Hin' & Ha' & Hfi & _).
    unfold remote_of in ER.
    destruct (find_first_last_nodup sn v' e' ND Hin' Ha') as [F _]. rewrite F, Hfi in ER. discriminate.
  - (* panic: impossible for ts >= 0 *)
    intros E. exfalso. unfold pick in E.
    destruct (build_infos sn ms fs) eqn:EB; [congruence|]. clear EB.
    destruct (eligible_list sn ms fs w chain req) as [|x0 l0] eqn:EL; [inversion Hin|].
    rewrite <- EL in E.
    set (n := Z.of_nat (length (eligible_list sn ms fs w chain req))) in *.
    assert (Hn : 0 < n) by (unfold n; rewrite EL; simpl; lia).
    assert (Hm : 0 < Z.min n pool_size) by (rewrite pool_size_is; lia).
    pose proof (Z.rem_bound_pos ts (Z.min n pool_size) Hts Hm) as Hb.
    destruct (Z.rem ts (Z.min n pool_size) <? 0) eqn:Hneg.
    + apply Z.ltb_lt in Hneg. lia.
    + destruct (nth_error _ _) as [v'|] eqn:EN.
      * destruct (remote_of sn v' chain); discriminate.
      * apply nth_error_None in EN. unfold n in *. lia.
Qed.

(** ---- non-vacuity ---- *)
Definition ex_sn : snapshot :=
  [ {| v_addr := 0; v_infos := [{| ci_chain := 1; ci_remote := 10; ci_traits := [] |}] |};
    {| v_addr := 1; v_infos := [{| ci_chain := 1; ci_remote := 11; ci_traits := [2; 1] |}] |};
    {| v_addr := 2; v_infos := [{| ci_chain := 2; ci_remote := 12; ci_traits := [1] |}] |};
    {| v_addr := 3; v_infos := [{| ci_chain := 1; ci_remote := 13; ci_traits := [1] |}] |} ].
Definition ex_ms : list metric :=
  map (fun a => {| m_addr := a; m_uptime := prec; m_success := prec; m_exec := 100; m_feature := prec |}) [0; 1; 2].
Definition ex_fs : list (Z * Z) := [(0, prec); (1, 2 * prec); (2, prec); (3, prec)].
Definition ex_w : weights := {| w_fee := prec; w_uptime := prec; w_success := prec; w_exec := prec; w_feature := prec |}.

(** no MEV demanded: 0 (cheaper) ranks before 1; 2 has no account on chain 1; 3 has no metrics *)
Example pick_example_0 : pick ex_sn ex_ms ex_fs ex_w 1 None 1700000000 = Picked 0 10.
Proof. vm_compute. reflexivity. Qed.
Example pick_example_1 : pick ex_sn ex_ms ex_fs ex_w 1 (Some false) 1700000001 = Picked 1 11.
Proof. vm_compute. reflexivity. Qed.
(** MEV demanded: only 1 qualifies *)
Example pick_example_mev : pick ex_sn ex_ms ex_fs ex_w 1 (Some true) 1700000000 = Picked 1 11.
Proof. vm_compute. reflexivity. Qed.
(** chain 2 with MEV: 2 qualifies; without fee records nobody does *)
Example pick_example_chain2 : pick ex_sn ex_ms ex_fs ex_w 2 (Some true) 3 = Picked 2 12.
Proof. vm_compute. reflexivity. Qed.
Example pick_example_none : pick ex_sn ex_ms [] ex_w 1 None 3 = PickErr 1.
Proof. vm_compute. reflexivity. Qed.
Example nobody_eligible_example : forall v, ~ eligible ex_sn ex_ms [] 1 None v.
Proof. intros v (_ & _ & (f & [])). Qed.
Example somebody_eligible_example : eligible ex_sn ex_ms ex_fs 1 (Some true) 1.
Proof.
  split; [|split].
  - exists {| v_addr := 1; v_infos := [{| ci_chain := 1; ci_remote := 11; ci_traits := [2; 1] |}] |}.
    repeat split; simpl; auto; [discriminate|].
    intros _. eexists; split; [reflexivity|]. simpl. auto.
  - eexists; split; [right; left; reflexivity | reflexivity].
  - exists (2 * prec). simpl. auto.
Qed.
Example ex_sn_nodup : NoDup (map v_addr ex_sn).
Proof. repeat constructor; simpl; intuition discriminate. Qed.
