(** C05 model, second round: consensus.BatchQueue on top of the id model of Evm/MsgIds.v.
    A batch queue has a STAGING area (store prefix "batching:" ++ queue key): BatchQueue.Put takes a
    key from a SECOND counter ("generated-ids-" ++ consensusBatchQueueIDCounterKey, shared by all
    batch queues), writes the message there and returns that key -- it is not a message id and no
    message exists yet.  ProcessBatches drains the staging area of its queue in key order, groups
    the messages into batches of at most consensusQueueMaxBatchSize and hands every batch to
    Queue.Put(.., nil) of the underlying queue: only there does a message id come into being, from
    the one shared counter.  It stops at the first Put that fails (the staging area is already
    emptied).  Everything else of a batch queue (Remove, GetMsgByID, ...) is the underlying queue.
    Definitions only; proofs in MsgIdsBatchProofs.v. *)
From Coq Require Import List ZArith Bool.
From Paloma Require Import Evm.MsgIds.
From Paloma Require Gen.C05.
Import ListNotations.
Open Scope Z_scope.

Record bstate := mkB {
  base : state;                         (* the message queues and the shared id counter *)
  bcounter : Z;                         (* last staging key handed out *)
  staging : list (Z * Z * Z) }.         (* (queue, staging key, content), in the order they were staged *)

Inductive bop :=
| BBase (o : op)                        (* Put / replace / Remove on the underlying queue *)
| BBatchPut (q : Z) (content : Z)       (* BatchQueue.Put *)
| BProcess (q : Z).                     (* BatchQueue.ProcessBatches *)

Inductive bresult :=
| BR (r : result)
| BStaged (key : Z)
| BProcessed (ids : list Z) (ok : bool).   (* message ids given to the batches, in order *)

Definition binit : bstate := mkB init 0 [].

Definition max_batch : Z := Gen.C05.batch_max_size.

(** sizes of the batches [len] staged messages are cut into *)
Fixpoint sizes (fuel : nat) (len : Z) : list Z :=
  match fuel with
  | O => []
  | S f => if len <=? 0 then [] else if len <=? max_batch then [len] else max_batch :: sizes f (len - max_batch)
  end.
Definition batch_sizes (n : nat) : list Z := sizes n (Z.of_nat n).

(** Queue.Put(batch, nil) for every batch, stopping at the first failure; the content of a batch
    message is the number of messages in it *)
Fixpoint put_all (s : state) (q : Z) (cs : list Z) : state * list Z * bool :=
  match cs with
  | [] => (s, [], true)
  | c :: r =>
      match step s (OPut q 0 c) with
      | (s1, RId i) => let '(s2, l, ok) := put_all s1 q r in (s2, i :: l, ok)
      | (s1, _) => (s1, [], false)
      end
  end.

Definition of_queue (q : Z) (e : Z * Z * Z) : bool := fst (fst e) =? q.
Definition same_key (q k : Z) (e : Z * Z * Z) : bool := (fst (fst e) =? q) && (snd (fst e) =? k).

Definition bstep (s : bstate) (o : bop) : bstate * bresult :=
  match o with
  | BBase o' => let '(s1, r) := step (base s) o' in (mkB s1 (bcounter s) (staging s), BR r)
  | BBatchPut q c =>
      let k := (bcounter s + 1) mod two64 in
      (mkB (base s) k (filter (fun e => negb (same_key q k e)) (staging s) ++ [(q, k, c)]), BStaged k)
  | BProcess q =>
      let mine := filter (of_queue q) (staging s) in
      let '(s1, l, ok) := put_all (base s) q (batch_sizes (length mine)) in
      (mkB s1 (bcounter s) (filter (fun e => negb (of_queue q e)) (staging s)), BProcessed l ok)
  end.

Fixpoint brun_from (s : bstate) (ops : list bop) : bstate * list bresult :=
  match ops with
  | [] => (s, [])
  | o :: r => let '(s1, x) := bstep s o in let '(s2, xs) := brun_from s1 r in (s2, x :: xs)
  end.
Definition brun (ops : list bop) : bstate := fst (brun_from binit ops).
Definition bresults (ops : list bop) : list bresult := snd (brun_from binit ops).

(** message ids newly handed out by one operation *)
Definition balloc_of (o : bop) (r : bresult) : list Z :=
  match o, r with
  | BBase o', BR r' => alloc_of o' r'
  | BProcess _, BProcessed l _ => l
  | _, _ => []
  end.
Fixpoint ballocs (ops : list bop) (rs : list bresult) : list Z :=
  match ops, rs with
  | o :: ops', r :: rs' => balloc_of o r ++ ballocs ops' rs'
  | _, _ => []
  end.
Definition ballocated_ids (ops : list bop) : list Z := ballocs ops (bresults ops).
