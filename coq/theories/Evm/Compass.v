(** C10 — model of the projection of a snapshot to one remote chain
    (x/evm/keeper/keeper.go: transformSnapshotToCompass, isEnoughToReachConsensus, and the gate in
     PublishValsetToChain / justInTimeValsetUpdate / deploySmartContractToChain).
    Definitions only; proofs are in CompassProofs.v.  Constants and the two shape flags come from
    the translator (Gen/C10.v), so the model follows the source. *)
From Coq Require Import String.
From Coq Require Import List ZArith Bool.
From Paloma Require Import Base.Num Valset.Snapshot.
From Paloma Require Gen.C10.
Import ListNotations.
Open Scope Z_scope.

Definition max_power : Z := Gen.C10.max_power.
Definition threshold : Z := Gen.C10.threshold_for_consensus.

(** sort.SliceStable(validators, share_i >= share_j): insertion of each element, from the left,
    in front of the first element it is >= to (Go's insertionSort moves an element left while it
    is >= its left neighbour, so equal shares end up in reverse order).  For more than 20 elements
    Go merges insertion-sorted blocks; the order among equal shares may then differ, which the
    correspondence accounts for (the share sequence itself is determined). *)
Fixpoint insert_desc (x : snapval) (l : list snapval) : list snapval :=
  match l with
  | [] => [x]
  | y :: r => if v_share y <=? v_share x then x :: y :: r else y :: insert_desc x r
  end.
Definition sort_desc (l : list snapval) : list snapval :=
  fold_left (fun acc x => insert_desc x acc) l [].

(** strings.ToLower(ext.GetChainType()) == xchainType (the translator reads the constant: "evm") *)
Definition ei_evm (e : extinfo) : bool := String.eqb (to_lower (ei_type e)) Gen.C10.xchain_type.
(** ... && ext.GetChainReferenceID() == chainReferenceID: the reference id is compared exactly *)
Definition on_chain (c : string) (e : extinfo) : bool := ei_evm e && String.eqb (ei_chain e) c.

(** The validator's accounts on chain [c] that produce an entry: all matching ones, or only the
    first when the loop stops at the first match (translator flag). *)
Definition accounts_on (c : string) (v : snapval) : list extinfo :=
  let m := filter (on_chain c) (v_infos v) in
  if Gen.C10.account_match_stops_at_first then firstn 1 m else m.

(** normalizePower: exact integer floor of share * 2^32 / total (0 when total <= 0 or share < 0),
    then big.Int.Uint64 (low 64 bits). *)
Definition power_of (share total : Z) : Z :=
  if (total <=? 0) || (share <? 0) then 0 else u64 (share * max_power / total).

Definition entries (c : string) (total : Z) (v : snapval) : list (Z * Z) :=
  map (fun e => (ei_addr e, power_of (v_share v) total)) (accounts_on c v).

(** transformSnapshotToCompass: (remote address, power) in the order sent; the total is summed
    over all validators of the snapshot, not only those with an account on [c]. *)
Definition transform_vals (vals : list snapval) (c : string) : list (Z * Z) :=
  let vs := sort_desc vals in
  let total := zsum (map v_share vs) in
  flat_map (entries c total) vs.
Definition transform (sn : snapshot) (c : string) : list (Z * Z) := transform_vals (sn_vals sn) c.

(** isEnoughToReachConsensus: uint64 running sum (wraps), compared with the constant. *)
Definition sum_u64 (powers : list Z) : Z := fold_left (fun s p => u64 (s + p)) powers 0.
Definition is_enough (powers : list Z) : bool := threshold <=? sum_u64 powers.

(** Histories: valset operations plus "try to send snapshot [id] to chain [c]" (every sender in the
    evm keeper has this shape: transform, gate on isEnoughToReachConsensus, then — depending on chain
    activity, keep-warm period, relayer selection, queue state, all abstracted as [env_ok] — enqueue). *)
Record cstate := { cs_val : state; cs_sent : list (string * Z * list (Z * Z)) }.
Inductive cop := CValset (o : op) | CSend (id : Z) (c : string) (env_ok : bool).

Definition cinit : cstate := {| cs_val := init; cs_sent := [] |}.

Definition cstep (s : cstate) (o : cop) : cstate :=
  match o with
  | CValset o => {| cs_val := step (cs_val s) o; cs_sent := cs_sent s |}
  | CSend id c env_ok =>
      match find_snapshot (cs_val s) id with
      | None => s
      | Some sn =>
          let vs := transform sn c in
          if is_enough (map snd vs) && env_ok
          then {| cs_val := cs_val s; cs_sent := (c, id, vs) :: cs_sent s |}
          else s
      end
  end.

Definition crun (ops : list cop) : cstate := fold_left cstep ops cinit.
