(** C07, third round — the success effect of a user contract upload is a write to the deployment
    record OF THAT MESSAGE.  Model of x/evm/keeper/user_smart_contract.go:
      CreateUserSmartContractDeployment       a record is appended: IN_FLIGHT, created = updated = current height
      finishUserSmartContractDeployment       the first record of the contract on the target chain whose
                                              <lookup field> equals the message's block height gets the new
                                              status and updated = current height
    The lookup field comes from the source (Gen/C07.v [user_lookup_by_created]). *)
From Coq Require Import List ZArith Bool Lia.
From Paloma Require Gen.C07.
Import ListNotations.
Open Scope Z_scope.

(** status: 0 IN_FLIGHT, 1 ACTIVE, 2 ERROR *)
Record urec := { u_cid : Z; u_chain : Z; u_created : Z; u_updated : Z; u_status : Z }.

Definition create (l : list urec) (cid chain now : Z) : list urec :=
  l ++ [{| u_cid := cid; u_chain := chain; u_created := now; u_updated := now; u_status := 0 |}].

Definition lookup_field (by_created : bool) (r : urec) : Z := if by_created then u_created r else u_updated r.

Definition hit (by_created : bool) (cid chain h : Z) (r : urec) : bool :=
  (u_cid r =? cid) && (u_chain r =? chain) && (lookup_field by_created r =? h).

Definition settle (r : urec) (st now : Z) : urec :=
  {| u_cid := u_cid r; u_chain := u_chain r; u_created := u_created r; u_updated := now; u_status := st |}.

(** None: "contract ... not found for ..." *)
Fixpoint finish_with (by_created : bool) (l : list urec) (cid chain h st now : Z) : option (list urec) :=
  match l with
  | [] => None
  | r :: t => if hit by_created cid chain h r then Some (settle r st now :: t)
              else option_map (cons r) (finish_with by_created t cid chain h st now)
  end.

Definition finish := finish_with Gen.C07.user_lookup_by_created.

(** the record a message (contract id, chain, block height at which its deployment was put in
    flight) speaks about *)
Definition own_record (cid chain h : Z) (r : urec) : Prop := u_cid r = cid /\ u_chain r = chain /\ u_created r = h.

(** Exactly one record changes, it is the message's own (the first one created for that contract on
    that chain at that height), it keeps its identity, every other record is untouched. *)
Theorem finish_writes_own_record : forall l cid chain h st now l',
  Gen.C07.user_lookup_by_created = true ->
  finish l cid chain h st now = Some l' ->
  exists a r b, l = a ++ r :: b /\ l' = a ++ settle r st now :: b /\ own_record cid chain h r /\
                forall x, In x a -> ~ own_record cid chain h x.
Proof.
  intros l cid chain h st now l' Hby. unfold finish. rewrite Hby. revert l'.
  induction l as [|r t IH]; simpl; intros l' Hf; [discriminate|].
  destruct (hit true cid chain h r) eqn:Hh.
  - inversion Hf; subst. exists [], r, t. repeat split; try reflexivity.
    + unfold hit, lookup_field in Hh. apply andb_true_iff in Hh as [Hh _]. apply andb_true_iff in Hh as [Hh _]. now apply Z.eqb_eq.
    + unfold hit in Hh. apply andb_true_iff in Hh as [Hh _]. apply andb_true_iff in Hh as [_ Hh]. now apply Z.eqb_eq.
    + unfold hit, lookup_field in Hh. apply andb_true_iff in Hh as [_ Hh]. now apply Z.eqb_eq.
    + intros x [].
  - destruct (finish_with true t cid chain h st now) as [t'|] eqn:Ht; [|discriminate].
    simpl in Hf. inversion Hf; subst. destruct (IH t' eq_refl) as (a & r0 & b & Hl & Hl' & Hown & Hno).
    exists (r :: a), r0, b. repeat split; try (simpl; congruence); try apply Hown.
    intros x [Hx|Hx]; [|now apply Hno]. subst x. intros (H1 & H2 & H3).
    unfold hit, lookup_field in Hh. rewrite H1, H2, H3, !Z.eqb_refl in Hh. discriminate.
Qed.

(** ... and the lookup NEEDS the creation height: keyed by the height of the last update, the
    success of the second deployment (requested in the block in which the first was settled) is
    written to the first one's record. *)
Example lookup_by_update_height_hits_another_record :
  let d1 := {| u_cid := 7; u_chain := 0; u_created := 5; u_updated := 9; u_status := 2 |} in
  let d2 := {| u_cid := 7; u_chain := 0; u_created := 9; u_updated := 9; u_status := 0 |} in
  finish_with false [d1; d2] 7 0 9 1 12 = Some [settle d1 1 12; d2] /\
  finish_with true [d1; d2] 7 0 9 1 12 = Some [d1; settle d2 1 12].
Proof. split; reflexivity. Qed.
