(** C07 — non-vacuity: concrete histories of the (symbolically instantiated) model in which the
    hypotheses of the theorems are met and the conclusions are not trivial. *)
From Coq Require Import List ZArith Bool.
From Paloma Require Import Base.Corr Evm.Attest Evm.AttestSym Corr.C07.
Import ListNotations.
Open Scope Z_scope.

(** a submit_logic_call body: relayer 9, target 5, payload 6, fees 1/2/3, payer 7, deadline 100 *)
Definition b1 := (3, 9, [(2, [5]); (3, [6]); (4, [1]); (5, [2]); (6, [3]); (7, [7]); (9, [100]); (100, [0])]).
Definition vs1 : valset := ([11; 12], [70; 30], 4).
(** the right call for message 1 / 2 under valset 4 with the first signature only *)
Definition d1 := expected_calldata (mk_body b1) 1 0 vs1 [(11, 21)].
Definition d2 := expected_calldata (mk_body b1) 2 0 vs1 [(11, 23)].

Definition play (l : list cop) : cstate :=
  fold_left (fun s o => fst (apply_cop s o)) l (init body sigd valset Z tx wstate ([(4, vs1)], true) 1).
Definition proj (s : cstate) :=
  (map (fun e => (m_id _ _ _ (e_msg _ _ _ _ e), fst (e_tx _ _ _ _ e), e_prefix _ _ _ _ e)) (effects _ _ _ _ _ _ s),
   map (m_id _ _ _) (queue _ _ _ _ _ _ s), processed _ _ _ _ _ _ s).

(** message 1: two signatures collected, the relayer used only the first (late second signature):
    accepted with prefix 1.  Message 2 (same body, other id) is then offered the SAME transaction:
    refused, nothing changes.  Then its own transaction: accepted.  Two effects, distinct
    transactions, distinct messages. *)
Definition h_good : list cop :=
  [XEnqueue b1; XValset 1 4; XSign 1 (11, 21); XSign 1 (12, 22); XEvidence 1 (XTx 500 d1 1); XAttest 1 (Some []);
   XEnqueue b1; XValset 2 4; XSign 2 (11, 23); XEvidence 2 (XTx 500 d1 1); XAttest 2 (Some []);
   XEvidence 2 (XTx 501 d2 1); XAttest 2 (Some [])].

Example accepted_once_each : proj (play h_good) = ([(1, 500, 1%nat); (2, 501, 1%nat)], [], [501; 500]).
Proof. vm_compute. reflexivity. Qed.

Example reused_tx_refused :
  snd (apply_cop (play (firstn 10 h_good)) (XAttest 2 (Some []))) = 3 (* already processed *) /\
  proj (fst (apply_cop (play (firstn 10 h_good)) (XAttest 2 (Some [])))) = ([(1, 500, 1%nat)], [2], [500]).
Proof. vm_compute. split; reflexivity. Qed.

(** a failed receipt, a wrong message id in the call, a call signed by nobody: no effect; the
    message is dropped and the transaction marked (bookkeeping only) *)
Example failed_receipt_no_effect :
  proj (play [XEnqueue b1; XValset 1 4; XSign 1 (11, 21); XEvidence 1 (XTx 500 d1 0); XAttest 1 (Some [])]) = ([], [], [500]).
Proof. vm_compute. reflexivity. Qed.

Example other_message_id_no_effect :
  proj (play [XEnqueue b1; XValset 1 4; XSign 1 (11, 21); XEvidence 1 (XTx 500 d2 1); XAttest 1 (Some [])]) = ([], [], [500]).
Proof. vm_compute. reflexivity. Qed.

Example no_signature_no_effect :
  proj (play [XEnqueue b1; XValset 1 4;
              XEvidence 1 (XTx 500 (expected_calldata (mk_body b1) 1 0 vs1 []) 1); XAttest 1 (Some [])]) = ([], [], [500]).
Proof. vm_compute. reflexivity. Qed.

(** the end-blocker loop goes on after a failing message: message 1 fails its receipt (flushed,
    error logged), message 2 is still attested in the same block and accepted *)
Example endblock_continues_after_an_error :
  let s := play [XEnqueue b1; XValset 1 4; XSign 1 (11, 21); XEvidence 1 (XTx 500 d1 0);
                 XEnqueue b1; XValset 2 4; XSign 2 (11, 23); XEvidence 2 (XTx 501 d2 1); XEndBlock []] in
  proj s = ([(2, 501, 1%nat)], [], [501; 500]).
Proof. vm_compute. reflexivity. Qed.
