(** C07 — non-vacuity: concrete histories of the (symbolically instantiated) model in which the
    hypotheses of the theorems are met and the conclusions are not trivial. *)
From Coq Require Import List ZArith Bool.
From Paloma Require Import Base.Corr Cons.Quorum Evm.Attest Evm.AttestSym Evm.AttestEvidence Corr.C07.
Import ListNotations.
Open Scope Z_scope.

(** a submit_logic_call body: relayer 9, target 5, payload 6, fees 1/2/3, payer 7, deadline 100 *)
Definition b1 := (3, 9, [(2, [5]); (3, [6]); (4, [1]); (5, [2]); (6, [3]); (7, [7]); (9, [100]); (100, [0])]).
Definition vs1 : valset := ([11; 12], [70; 30], 4).
(** the right call for message 1 / 2 under valset 4 with the first signature only *)
Definition d1 := expected_calldata (mk_body b1) 1 0 vs1 [(11, 21)].
Definition d2 := expected_calldata (mk_body b1) 2 0 vs1 [(11, 23)].

(** the current snapshot: validators 1, 2, 3 with 50, 30, 20 of 100 shares *)
Definition sn3 : snapshot := mk_snapshot [(1, 50); (2, 30); (3, 20)] 100.
(** receipts [type; post state; status; cumulative gas; bloom; logs] *)
Definition rc_ok : list Z := [2; 0; 1; 21000; 7; 8].
Definition rc_failed : list Z := [2; 0; 0; 21000; 7; 8].
(** everybody reports the transaction with this receipt status *)
Definition all_report (id h : Z) (d : calldata) (st : Z) : cop := XAddEv id [1; 2; 3] (XPTx h d (Some [2; 0; st; 21000; 7; 8])).

Definition play (l : list cop) : cstate :=
  fold_left (fun s o => fst (apply_cop sn3 s o)) l (c_init [(4, vs1)] 1).
Definition proj (rs : cstate) :=
  let s := abs rs in
  (map (fun e => (m_id _ _ _ (e_msg _ _ _ _ e), fst (e_tx _ _ _ _ e), e_prefix _ _ _ _ e)) (effects _ _ _ _ _ _ s),
   map (m_id _ _ _) (queue _ _ _ _ _ _ s), processed _ _ _ _ _ _ s).

(** message 1: two signatures collected, the relayer used only the first (late second signature):
    accepted with prefix 1.  Message 2 (same body, other id) is then offered the SAME transaction:
    refused, nothing changes.  Then its own transaction: accepted.  Two effects, distinct
    transactions, distinct messages. *)
Definition h_good : list cop :=
  [XEnqueue b1; XValset 1 4; XSign 1 (11, 21); XSign 1 (12, 22); all_report 1 500 d1 1; XAttest 1 (Some []);
   XEnqueue b1; XValset 2 4; XSign 2 (11, 23); all_report 2 500 d1 1; XAttest 2 (Some []);
   all_report 2 501 d2 1; XAttest 2 (Some [])].

Example accepted_once_each : proj (play h_good) = ([(1, 500, 1%nat); (2, 501, 1%nat)], [], [501; 500]).
Proof. vm_compute. reflexivity. Qed.

Example reused_tx_refused :
  snd (apply_cop sn3 (play (firstn 10 h_good)) (XAttest 2 (Some []))) = 3 (* already processed *) /\
  proj (fst (apply_cop sn3 (play (firstn 10 h_good)) (XAttest 2 (Some [])))) = ([(1, 500, 1%nat)], [2], [500]).
Proof. vm_compute. split; reflexivity. Qed.

(** a failed receipt, a wrong message id in the call, a call signed by nobody: no effect; the
    message is dropped and the transaction marked (bookkeeping only) *)
Example failed_receipt_no_effect :
  proj (play [XEnqueue b1; XValset 1 4; XSign 1 (11, 21); all_report 1 500 d1 0; XAttest 1 (Some [])]) = ([], [], [500]).
Proof. vm_compute. reflexivity. Qed.

Example other_message_id_no_effect :
  proj (play [XEnqueue b1; XValset 1 4; XSign 1 (11, 21); all_report 1 500 d2 1; XAttest 1 (Some [])]) = ([], [], [500]).
Proof. vm_compute. reflexivity. Qed.

Example no_signature_no_effect :
  proj (play [XEnqueue b1; XValset 1 4;
              all_report 1 500 (expected_calldata (mk_body b1) 1 0 vs1 []) 1; XAttest 1 (Some [])]) = ([], [], [500]).
Proof. vm_compute. reflexivity. Qed.

(** the end-blocker loop goes on after a failing message: message 1 fails its receipt (flushed,
    error logged), message 2 is still attested in the same block and accepted *)
Example endblock_continues_after_an_error :
  let s := play [XEnqueue b1; XValset 1 4; XSign 1 (11, 21); all_report 1 500 d1 0;
                 XEnqueue b1; XValset 2 4; XSign 2 (11, 23); all_report 2 501 d2 1; XEndBlock []] in
  proj s = ([(2, 501, 1%nat)], [], [501; 500]).
Proof. vm_compute. reflexivity. Qed.

(* ---------- second round: the reports decide, not the first reporter ---------- *)

(** Validator 3 (20 of 100 shares) reports the transaction with a SUCCESSFUL receipt first; then
    validators 1 and 2 (80 shares) report the same transaction with the FAILED receipt.  The two
    receipts serialise differently, the reports fall into two groups, the failed receipt wins:
    ErrEthTxFailed, no success effect, message dropped, transaction marked. *)
Definition h_dissent : list cop :=
  [XEnqueue b1; XValset 1 4; XSign 1 (11, 21);
   XAddEv 1 [3] (XPTx 500 d1 (Some rc_ok)); XAddEv 1 [1; 2] (XPTx 500 d1 (Some rc_failed))].

Example dissenting_success_report_first_loses :
  snd (apply_cop sn3 (play h_dissent) (XAttest 1 (Some []))) = 2 (* ErrEthTxFailed *) /\
  proj (fst (apply_cop sn3 (play h_dissent) (XAttest 1 (Some [])))) = ([], [], [500]).
Proof. vm_compute. split; reflexivity. Qed.

(** the other way round: the 80 shares report success, the dissenter's failed receipt comes first: accepted *)
Example two_thirds_success_reports_win :
  proj (play [XEnqueue b1; XValset 1 4; XSign 1 (11, 21);
              XAddEv 1 [3] (XPTx 500 d1 (Some rc_failed)); XAddEv 1 [1; 2] (XPTx 500 d1 (Some rc_ok)); XAttest 1 (Some [])])
  = ([(1, 500, 1%nat)], [], [500]).
Proof. vm_compute. reflexivity. Qed.

(** no receipt is agreed on (50 : 50): nothing is handed to the attester, the message stays *)
Example no_receipt_agreed_nothing_happens :
  let h := [XEnqueue b1; XValset 1 4; XSign 1 (11, 21);
            XAddEv 1 [1] (XPTx 500 d1 (Some rc_ok)); XAddEv 1 [2; 3] (XPTx 500 d1 (Some rc_failed))] in
  snd (apply_cop sn3 (play h) (XAttest 1 (Some []))) = 0 /\
  proj (fst (apply_cop sn3 (play h) (XAttest 1 (Some [])))) = ([], [1], []).
Proof. vm_compute. split; reflexivity. Qed.

(** a validator that changes its mind is counted with its latest report, at its old position *)
Example latest_report_counts :
  proj (play [XEnqueue b1; XValset 1 4; XSign 1 (11, 21);
              XAddEv 1 [1; 2; 3] (XPTx 500 d1 (Some rc_failed)); XAddEv 1 [1; 2] (XPTx 500 d1 (Some rc_ok)); XAttest 1 (Some [])])
  = ([(1, 500, 1%nat)], [], [500]).
Proof. vm_compute. reflexivity. Qed.

(** The 2/3 clause NEEDS the receipt status among the hashed bytes.  With the bytes
    rlp [PostState; CumulativeGasUsed; Bloom; Logs] of the receipt (PostState is empty for every
    post-Byzantium receipt, so the status is not covered) the same reports form ONE group whose
    representative is the first report: the 20-share validator's "success" is handed to the
    attester although 80 shares reported the failed receipt. *)
Definition cov_without_status : proof tx -> payload tx :=
  covered_with tx true (fun r => [r_post r; r_gas r; r_bloom r; r_logs r]).
Definition reports_dissent : reports tx :=
  [(3, PTx (500, d1) (Some (receipt_of rc_ok))); (1, PTx (500, d1) (Some (receipt_of rc_failed)));
   (2, PTx (500, d1) (Some (receipt_of rc_failed)))].

Example status_out_of_the_hash_lets_a_minority_report_win :
  elect_with tx ckeqb chash c_enc cov_without_status c_ord sn3 reports_dissent = Some (WTx (500, d1) (Some 1)) /\
  elect tx ckeqb chash c_enc c_ord sn3 reports_dissent = Some (WTx (500, d1) (Some 0)) /\
  power sn3 (map fst (filter (fun vp => match snd vp with PTx _ (Some r) => r_status r =? 1 | _ => false end) reports_dissent)) = 20.
Proof. vm_compute. repeat split; reflexivity. Qed.
