(** When can the ranking arithmetic of the relayer pick panic ("Int overflow")?
    Never for non-negative table values with weights whose absolute values sum to at most the
    LegacyDec upper limit; and it can for governance-set weights near 2^256. *)
From Coq Require Import String List ZArith Bool Lia.
From Paloma Require Import Base.Dec Base.DecProofs Evm.Assign Evm.AssignProofs Evm.AssignOv.
From Paloma Require Gen.C14.
Import ListNotations.
Open Scope Z_scope.

Lemma pick_ov_picked sn ms fs w chain req ts v r :
  pick_ov sn ms fs w chain req ts = Picked v r -> pick sn ms fs w chain req ts = Picked v r.
Proof. unfold pick_ov. destruct (rank_ok _ _); [auto | discriminate]. Qed.

Lemma pick_ov_err sn ms fs w chain req ts c :
  pick_ov sn ms fs w chain req ts = PickErr c -> pick sn ms fs w chain req ts = PickErr c.
Proof. unfold pick_ov. destruct (rank_ok _ _); [auto | discriminate]. Qed.

Lemma pick_ov_no_overflow sn ms fs w chain req ts :
  rank_ok (build_infos sn ms fs) w = true -> pick_ov sn ms fs w chain req ts = pick sn ms fs w chain req ts.
Proof. unfold pick_ov. intros ->. reflexivity. Qed.

(** ---- the window ---- *)
Lemma fold_min_le d l v : In v l -> fold_right Z.min d l <= v.
Proof. induction l as [|x r IH]; simpl; [tauto|]. intros [->|H]; [lia | specialize (IH H); lia]. Qed.
Lemma fold_max_ge d l v : In v l -> v <= fold_right Z.max d l.
Proof. induction l as [|x r IH]; simpl; [tauto|]. intros [->|H]; [lia | specialize (IH H); lia]. Qed.
Lemma fold_min_lb d l b : b <= d -> (forall x, In x l -> b <= x) -> b <= fold_right Z.min d l.
Proof. intros Hd. induction l as [|x r IH]; simpl; intros H; [auto|]. assert (b <= x) by auto. assert (b <= fold_right Z.min d r) by auto. lia. Qed.
Lemma fold_max_ub d l b : d <= b -> (forall x, In x l -> x <= b) -> fold_right Z.max d l <= b.
Proof. intros Hd. induction l as [|x r IH]; simpl; intros H; [auto|]. assert (x <= b) by auto. assert (fold_right Z.max d r <= b) by auto. lia. Qed.

Lemma window l v U : In v l -> (forall x, In x l -> 0 <= x <= U) ->
  0 <= win_min l <= v /\ v <= win_max l <= U.
Proof.
  intros Hin Hb. unfold win_min, win_max.
  assert (Hhd : 0 <= hd 0 l <= U).
  { destruct l as [|x r]; simpl; [destruct Hin|]. apply Hb. left; auto. }
  pose proof (fold_min_le (hd 0 l) l v Hin).
  pose proof (fold_max_ge (hd 0 l) l v Hin).
  assert (0 <= fold_right Z.min (hd 0 l) l) by (apply fold_min_lb; [lia | intros x Hx; apply Hb; auto]).
  assert (fold_right Z.max (hd 0 l) l <= U) by (apply fold_max_ub; [lia | intros x Hx; apply Hb; auto]).
  lia.
Qed.

(** ---- one column ---- *)
Lemma upper_limit_big : 2 * prec * prec < upper_limit. Proof. reflexivity. Qed.

Lemma in_range_iff a : in_range a = true <-> Z.abs a <= upper_limit.
Proof. unfold in_range. apply Z.leb_le. Qed.

Lemma quo_unit a b : 0 <= a <= b -> 0 < b -> 0 <= quo a b <= prec.
Proof.
  intros Ha Hb. unfold quo.
  set (d := Z.quot (a * prec * prec) b).
  assert (Hd : 0 <= d <= prec * prec).
  { unfold d. pose proof prec_pos. split.
    - apply Z.quot_pos; nia.
    - apply Z.quot_le_upper_bound; nia. }
  pose proof (chop_round_near d) as Hn. pose proof prec_pos.
  assert (Hh : 2 * half_prec = prec) by reflexivity.
  assert (Hlo : - half_prec <= chop_round d * prec - d <= half_prec) by lia.
  split; nia.
Qed.

Lemma mul_unit c w : 0 <= c <= prec -> Z.abs (mul c w) <= Z.abs w.
Proof.
  intros Hc. unfold mul. pose proof (chop_round_near (c * w)) as Hn. pose proof prec_pos.
  assert (Hh : 2 * half_prec = prec) by reflexivity.
  set (x := chop_round (c * w)) in *.
  assert (Hlo : - half_prec <= x * prec - c * w <= half_prec) by lia.
  destruct (Z_le_gt_dec 0 w) as [Hw|Hw].
  - rewrite (Z.abs_eq w) by lia. apply Z.abs_le. split; nia.
  - rewrite (Z.abs_neq w) by lia. apply Z.abs_le. split; nia.
Qed.

Lemma score_value_unit mx mn v rev U :
  0 <= mn <= v -> v <= mx <= U -> U <= upper_limit ->
  score_value_ok mx mn v rev = true /\ 0 <= score_value mx mn v rev <= prec.
Proof.
  intros H1 H2 HU. unfold score_value_ok, score_value. pose proof prec_pos.
  destruct (mx =? mn) eqn:E; [split; [reflexivity | lia]|].
  apply Z.eqb_neq in E.
  assert (Hq : 0 <= quo (sub v mn) (sub mx mn) <= prec) by (apply quo_unit; unfold sub; lia).
  pose proof upper_limit_big.
  assert (Hp : prec <= upper_limit) by nia.
  split.
  - repeat (apply andb_true_iff; split); try (apply in_range_iff; unfold sub, one in *; lia).
    destruct rev; [apply in_range_iff; unfold sub, one in *; lia | reflexivity].
  - destruct rev; unfold sub, one in *; lia.
Qed.

(** ---- the whole score ---- *)
Definition nonneg_info (U : Z) (i : vinfo) : Prop :=
  0 <= i_fee i <= U /\ 0 <= i_uptime i <= U /\ 0 <= i_success i <= U /\ 0 <= i_exec i <= U /\ 0 <= i_feature i <= U.

Definition weight_sum (w : weights) : Z :=
  Z.abs (w_fee w) + Z.abs (w_uptime w) + Z.abs (w_success w) + Z.abs (w_exec w) + Z.abs (w_feature w).

Lemma col_unit (f : vinfo -> Z) infos i rev :
  In i infos -> (forall j, In j infos -> 0 <= f j <= upper_limit) ->
  score_value_ok (win_max (map f infos)) (win_min (map f infos)) (f i) rev = true /\
  0 <= score_value (win_max (map f infos)) (win_min (map f infos)) (f i) rev <= prec.
Proof.
  intros Hin Hb.
  assert (Hw : 0 <= win_min (map f infos) <= f i /\ f i <= win_max (map f infos) <= upper_limit).
  { apply window; [apply in_map; auto|]. intros x Hx. apply in_map_iff in Hx as (j & <- & Hj). auto. }
  apply (score_value_unit _ _ _ _ upper_limit); lia.
Qed.

Lemma score_ok_bounded infos w i :
  In i infos -> (forall j, In j infos -> nonneg_info upper_limit j) -> weight_sum w <= upper_limit ->
  score_ok infos w i = true.
Proof.
  intros Hin Hb Hw. unfold score_ok.
  destruct (col_unit i_fee infos i true Hin) as [O1 C1]; [intros j Hj; apply Hb in Hj; unfold nonneg_info in Hj; tauto|].
  destruct (col_unit i_uptime infos i false Hin) as [O2 C2]; [intros j Hj; apply Hb in Hj; unfold nonneg_info in Hj; tauto|].
  destruct (col_unit i_success infos i false Hin) as [O3 C3]; [intros j Hj; apply Hb in Hj; unfold nonneg_info in Hj; tauto|].
  destruct (col_unit i_exec infos i true Hin) as [O4 C4]; [intros j Hj; apply Hb in Hj; unfold nonneg_info in Hj; tauto|].
  destruct (col_unit i_feature infos i false Hin) as [O5 C5]; [intros j Hj; apply Hb in Hj; unfold nonneg_info in Hj; tauto|].
  rewrite O1, O2, O3, O4, O5. cbn [andb].
  pose proof (mul_unit _ (w_fee w) C1) as M1. pose proof (mul_unit _ (w_uptime w) C2) as M2.
  pose proof (mul_unit _ (w_success w) C3) as M3. pose proof (mul_unit _ (w_exec w) C4) as M4.
  pose proof (mul_unit _ (w_feature w) C5) as M5.
  unfold weight_sum in Hw.
  set (m1 := mul _ (w_fee w)) in *. set (m2 := mul _ (w_uptime w)) in *. set (m3 := mul _ (w_success w)) in *.
  set (m4 := mul _ (w_exec w)) in *. set (m5 := mul _ (w_feature w)) in *.
  repeat (apply andb_true_iff; split); apply in_range_iff; unfold add; lia.
Qed.

(** No panic: every snapshot validator with both records has non-negative table values inside the
    LegacyDec range, and the absolute values of the five weights sum to at most the upper limit
    (the default weights sum to 5). *)
Lemma rank_ok_bounded infos w :
  (forall j, In j infos -> nonneg_info upper_limit j) -> weight_sum w <= upper_limit ->
  rank_ok infos w = true.
Proof.
  intros Hb Hw. unfold rank_ok. apply forallb_forall. intros i Hi. apply score_ok_bounded; auto.
Qed.

Definition nonneg_tables (ms : list metric) (fs : list (Z * Z)) : Prop :=
  (forall m, In m ms -> 0 <= m_uptime m <= upper_limit /\ 0 <= m_success m <= upper_limit /\
                        0 <= m_exec m /\ m_exec m * prec <= upper_limit /\ 0 <= m_feature m <= upper_limit) /\
  (forall v f, In (v, f) fs -> 0 <= f <= upper_limit).

Lemma build_infos_nonneg sn ms fs j :
  nonneg_tables ms fs -> In j (build_infos sn ms fs) -> nonneg_info upper_limit j.
Proof.
  intros [Hm Hf] Hj. unfold build_infos in Hj. apply filter_map_in in Hj as (a & _ & Hi).
  unfold info_of in Hi. destruct (perf_lookup ms a) as [p|] eqn:EP; [|discriminate].
  destruct (fee_lookup fs a) as [f|] eqn:EF; [|discriminate]. inversion Hi; subst j; clear Hi.
  unfold perf_lookup in EP. apply find_last_some in EP as [Hp _].
  unfold fee_lookup in EF. destruct (find_last _ fs) as [[v f']|] eqn:EF'; [|discriminate].
  simpl in EF. inversion EF; subst f'. apply find_last_some in EF' as [Hfin _].
  specialize (Hm _ Hp). specialize (Hf _ _ Hfin). pose proof prec_pos.
  unfold nonneg_info, of_int; simpl. repeat split; try tauto; try nia.
Qed.

Lemma pick_never_overflows sn ms fs w chain req ts :
  nonneg_tables ms fs -> weight_sum w <= upper_limit ->
  pick_ov sn ms fs w chain req ts = pick sn ms fs w chain req ts.
Proof.
  intros Ht Hw. apply pick_ov_no_overflow. apply rank_ok_bounded; auto.
  intros j Hj. eapply build_infos_nonneg; eauto.
Qed.

(** ---- weights that went through SetRelayWeights (validated since the C09 repair) ---- *)
Example weights_validation_is :
  Gen.C14.set_relay_weights_validates_before_write = true /\
  Gen.C14.max_relay_weight = 1000000 /\
  Gen.C14.relay_weights_validate_rejects = ["v.value.IsNegative() || v.value.GT(maxRelayWeight)"]%string /\
  Gen.C14.relay_weights_validated_fields = ["Fee"; "Uptime"; "SuccessRate"; "ExecutionTime"; "FeatureSet"]%string.
Proof. repeat split. Qed.
Example relay_weights_writers_are :
  Gen.C14.relay_weights_writers =
  ["AddSupportForNewChain: literal &types.RelayWeights{ Fee: ""1.0"", Uptime: ""1.0"", SuccessRate: ""1.0"", ExecutionTime: ""1.0"", FeatureSet: ""1.0"", }";
   "SetRelayWeights: chainInfo.RelayWeights = weights"]%string.
Proof. reflexivity. Qed.

Lemma valid_weight_range x : valid_weight x = true -> 0 <= x <= max_weight.
Proof. unfold valid_weight. intros H. apply andb_true_iff in H as [H1 H2]. apply Z.leb_le in H1. apply Z.leb_le in H2. lia. Qed.

Lemma five_max_weights_fit : 5 * max_weight <= upper_limit. Proof. discriminate. Qed.

Lemma valid_weights_sum w : valid_weights w = true -> weight_sum w <= upper_limit.
Proof.
  unfold valid_weights. intros H. repeat (apply andb_true_iff in H as [H ?]).
  repeat match goal with V : valid_weight _ = true |- _ => apply valid_weight_range in V end.
  pose proof five_max_weights_fit. unfold weight_sum.
  rewrite !Z.abs_eq by lia. lia.
Qed.

Lemma default_weights_valid : valid_weights default_weights = true. Proof. reflexivity. Qed.

Lemma stored_weights_valid sets : valid_weights (stored_weights sets) = true.
Proof.
  unfold stored_weights. assert (H : valid_weights default_weights = true) by reflexivity.
  revert H. generalize default_weights. induction sets as [|o r IH]; simpl; intros cur H; auto.
  apply IH. destruct o as [x|]; simpl; [|reflexivity]. destruct (valid_weights x) eqn:E; auto.
Qed.

Lemma pick_never_overflows_validated sn ms fs w chain req ts :
  nonneg_tables ms fs -> valid_weights w = true ->
  pick_ov sn ms fs w chain req ts = pick sn ms fs w chain req ts.
Proof. intros Ht Hw. apply pick_never_overflows; auto. apply valid_weights_sum; auto. Qed.

Lemma pick_never_overflows_stored sn ms fs sets chain req ts :
  nonneg_tables ms fs ->
  pick_ov sn ms fs (stored_weights sets) chain req ts = pick sn ms fs (stored_weights sets) chain req ts.
Proof. intros Ht. apply pick_never_overflows_validated; auto. apply stored_weights_valid. Qed.

(** ... and the hypothesis on the weights is needed: with the weights a RelayWeightsProposal may set
    (any decimal string the SDK parses, i.e. up to 2^256) the sum of two weighted columns leaves the
    range and the pick panics although every table value is ordinary. *)
Definition ov_sn : snapshot :=
  [ {| v_addr := 0; v_infos := [ {| ci_chain := 1; ci_remote := 10; ci_traits := [] |} ] |};
    {| v_addr := 1; v_infos := [ {| ci_chain := 1; ci_remote := 11; ci_traits := [] |} ] |} ].
Definition ov_ms : list metric :=
  [ {| m_addr := 0; m_uptime := prec; m_success := prec; m_exec := 100; m_feature := prec |};
    {| m_addr := 1; m_uptime := 0; m_success := 0; m_exec := 200; m_feature := 0 |} ].
Definition ov_fs : list (Z * Z) := [(0, prec); (1, 2 * prec)].
Definition huge : Z := 10 ^ 77 * prec.
Definition ov_w : weights := {| w_fee := huge; w_uptime := huge; w_success := huge; w_exec := huge; w_feature := huge |}.

Example huge_weight_is_a_valid_decimal : in_range huge = true. Proof. reflexivity. Qed.
(** the validated setter refuses them: this is state stored before the repair (written through the hook in X) *)
Example huge_weights_refused_by_the_setter : valid_weights ov_w = false /\ stored_weights [Some ov_w] = default_weights.
Proof. split; reflexivity. Qed.
Example ov_tables_nonneg : nonneg_tables ov_ms ov_fs.
Proof.
  split.
  - intros m [<-|[<-|[]]]; simpl; repeat split; try discriminate; reflexivity.
  - intros v f [E|[E|[]]]; inversion E; subst; split; discriminate.
Qed.
Example ranking_overflow_reachable : pick_ov ov_sn ov_ms ov_fs ov_w 1 None 1700000000 = PickPanic.
Proof. vm_compute. reflexivity. Qed.
Example ranking_overflow_same_tables_default_weights :
  pick_ov ov_sn ov_ms ov_fs {| w_fee := prec; w_uptime := prec; w_success := prec; w_exec := prec; w_feature := prec |}
          1 None 1700000000 = Picked 0 10.
Proof. vm_compute. reflexivity. Qed.
