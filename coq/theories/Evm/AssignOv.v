(** The range assertions of the ranking arithmetic (x/evm/keeper/msg_assigner.go: scoreValue and the
    weighted sum of rankValidators).  Every LegacyDec Sub / Quo / Mul / Add ends in
    assertInValidRange (|raw| <= 2^256 * 10^18 - 1) and panics with "Int overflow" otherwise; the
    ranking runs before the job filter, so one out-of-range intermediate for ANY validator with
    both records makes the whole pick panic.  [pick_ov] is [pick] with that panic.  Definitions only. *)
From Coq Require Import List ZArith Bool.
From Paloma Require Import Base.Dec Evm.Assign.
Import ListNotations.
Open Scope Z_scope.

(** scoreValue: nothing is computed when max = min; otherwise val.Sub(min), max.Sub(min), the Quo,
    and 1.Sub(score) when reversed. *)
Definition score_value_ok (mx mn v : Z) (reverse : bool) : bool :=
  if mx =? mn then true
  else in_range (sub v mn) && in_range (sub mx mn) && in_range (quo (sub v mn) (sub mx mn)) &&
       (if reverse then in_range (sub one (quo (sub v mn) (sub mx mn))) else true).

Definition score_ok (infos : list vinfo) (w : weights) (i : vinfo) : bool :=
  let colv (f : vinfo -> Z) (rev : bool) :=
      score_value (win_max (map f infos)) (win_min (map f infos)) (f i) rev in
  let colok (f : vinfo -> Z) (rev : bool) :=
      score_value_ok (win_max (map f infos)) (win_min (map f infos)) (f i) rev in
  let m1 := mul (colv i_fee true) (w_fee w) in
  let m2 := mul (colv i_uptime false) (w_uptime w) in
  let m3 := mul (colv i_success false) (w_success w) in
  let m4 := mul (colv i_exec true) (w_exec w) in
  let m5 := mul (colv i_feature false) (w_feature w) in
  colok i_fee true && colok i_uptime false && colok i_success false && colok i_exec true && colok i_feature false &&
  in_range m1 && in_range m2 && in_range m3 && in_range m4 && in_range m5 &&
  in_range (add m1 m2) && in_range (add (add m1 m2) m3) && in_range (add (add (add m1 m2) m3) m4) &&
  in_range (add (add (add (add m1 m2) m3) m4) m5).

Definition rank_ok (infos : list vinfo) (w : weights) : bool := forallb (score_ok infos w) infos.

(** PickValidatorForMessage as it behaves: "no validators eligible" is returned before the ranking
    ([rank_ok [] = true]); otherwise the ranking may panic before anything else is looked at. *)
Definition pick_ov (sn : snapshot) (ms : list metric) (fs : list (Z * Z)) (w : weights)
           (chain : Z) (req : option bool) (ts : Z) : pick_result :=
  if rank_ok (build_infos sn ms fs) w then pick sn ms fs w chain req ts else PickPanic.

(** RelayWeights.Validate (x/evm/types/relay_weights.go), called by Keeper.SetRelayWeights before the
    write: every weight is a decimal in [0, maxRelayWeight].  (A string that does not parse, or lies
    outside the LegacyDec range, is refused by DecValues; raw integers beyond the bound cover both.) *)
Definition max_weight : Z := of_int Gen.C14.max_relay_weight.
Definition valid_weight (x : Z) : bool := (0 <=? x) && (x <=? max_weight).
Definition valid_weights (w : weights) : bool :=
  valid_weight (w_fee w) && valid_weight (w_uptime w) && valid_weight (w_success w) &&
  valid_weight (w_exec w) && valid_weight (w_feature w).

(** the stored weights of a chain: ValueOrDefault of what AddSupportForNewChain / genesis wrote (1.0 each),
    then whatever SetRelayWeights accepted (nil = back to the defaults) *)
Definition default_weights : weights :=
  {| w_fee := one; w_uptime := one; w_success := one; w_exec := one; w_feature := one |}.
Definition set_weights (cur : weights) (w : option weights) : weights :=
  match w with
  | None => default_weights
  | Some x => if valid_weights x then x else cur
  end.
Definition stored_weights (sets : list (option weights)) : weights := fold_left set_weights sets default_weights.
