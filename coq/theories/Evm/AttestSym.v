(** C07 — the symbolic instantiation of the call data of Evm/Attest.v: a call is its method and the
    positional list of the values packed, in the order in which eth_txable.go packs them
    (Gen/C07.v, regenerated from the source on every check).  Definitions, plus the two
    statements that are about the field lists themselves. *)
From Coq Require Import String List ZArith Bool.
From Paloma Require Import Base.Corr Evm.Attest.
From Paloma Require Gen.C07.
Import ListNotations.
Open Scope Z_scope.

Module G := Paloma.Gen.C07.

(** a packed value, flattened to integers (byte strings and addresses are interned by the
    harness: equal ids <-> equal bytes) *)
Definition val := list Z.

Definition kind_of_z (z : Z) : kind :=
  match z with
  | 0 => KUploadCompass | 1 => KUploadUser | 2 => KUpdateValset | 3 => KSubmitLogicCall | _ => KHandover
  end.

Record body := { b_kind : kind; b_relayer : Z; b_vals : list (Z * val) }.
Definition mk_body (t : Z * Z * list (Z * val)) : body :=
  let '(k, r, vs) := t in {| b_kind := kind_of_z k; b_relayer := r; b_vals := vs |}.

(** the harness files [(101, [1])] with a body whose Fees are nil *)
Definition b_fees_present (b : body) : bool := negb (existsb (fun p => fst p =? 101) (b_vals b)).

(** compass valset: validators (address ids, in the order of the valset), powers, id *)
Definition valset := (list Z * list Z * Z)%type.
Definition empty_valset : valset := ([], [], 0).
Definition flat_vs (v : valset) : val :=
  let '(vals, pows, id) := v in Z.of_nat (length vals) :: vals ++ pows ++ [id].

(** one collected signature: (external account address id, signature id) *)
Definition sigd := (Z * Z)%type.

(** BuildCompassConsensus: slice.MakeMapKeys (a later entry for the same address wins), then one
    entry per valset validator, zero when it has not signed *)
Fixpoint sig_for (a : Z) (sigs : list sigd) (acc : Z) : Z :=
  match sigs with
  | [] => acc
  | (a', s) :: r => sig_for a r (if a' =? a then s else acc)
  end.
Definition consensus_sigs (v : valset) (sigs : list sigd) : val :=
  let '(vals, _, _) := v in map (fun a => sig_for a sigs 0) vals.

Fixpoint lookup (k : Z) (l : list (Z * val)) : val :=
  match l with
  | [] => []
  | (k', v) :: r => if k' =? k then v else lookup k r
  end.

Definition calldata := (Z * list val)%type.

Definition packed_of (k : kind) : list G.field :=
  match k with
  | KSubmitLogicCall => G.packed_submit_logic_call
  | KUpdateValset => G.packed_update_valset
  | KHandover => G.packed_compass_handover
  | KUploadUser => G.packed_upload_user_contract
  | KUploadCompass => G.packed_upload_compass
  end.

(** method tags used by the harness: 1 submit_logic_call, 2 update_valset, 3 compass_update_batch,
    4 deploy_contract, 5 contract creation (bytecode ++ constructor input), 0 unparsable bytes *)
Definition method_tag (k : kind) : Z :=
  match k with
  | KSubmitLogicCall => 1 | KUpdateValset => 2 | KHandover => 3 | KUploadUser => 4 | KUploadCompass => 5
  end.

(** new(big.Int).SetInt64(int64(msg.GetId())) packed as uint256: ids from 2^63 on wrap *)
Definition wrap_int64_u256 (id : Z) : Z := if id <? 2 ^ 63 then id else 2 ^ 256 - (2 ^ 64 - id).

Definition field_val (b : body) (id gas : Z) (v : valset) (sigs : list sigd) (f : G.field) : val :=
  match f with
  | G.F_cur_valset => flat_vs v
  | G.F_sig_prefix => consensus_sigs v sigs
  | G.F_msg_id => [wrap_int64_u256 id]
  | G.F_gas_estimate => [gas]
  | G.F_relayer => [b_relayer b]
  | _ => lookup (G.field_index f) (b_vals b)
  end.

Definition expected_calldata (b : body) (id gas : Z) (v : valset) (sigs : list sigd) : calldata :=
  (method_tag (b_kind b), map (field_val b id gas v sigs) (packed_of (b_kind b))).
Definition expected_deploy (b : body) : calldata :=
  (5, map (field_val b 0 0 empty_valset []) G.packed_upload_compass).

Definition val_eqb : val -> val -> bool := list_eqb Z.eqb.
Definition calldata_eqb (a b : calldata) : bool :=
  (fst a =? fst b) && list_eqb val_eqb (snd a) (snd b).


(* ---------- what the property calls action-bearing, per action type ---------- *)

(** The compass call must carry: the validator set and the signatures, the action's own payload
    (target + payload, new valset, forwarded calls, deployer + bytecode), the fees and who pays
    them, the message id and the deadline where the compass method has them, the relayer, and the
    gas estimate where the relayer is refunded from it. *)
Definition required (k : kind) : list G.field :=
  match k with
  | KSubmitLogicCall => [G.F_cur_valset; G.F_sig_prefix; G.F_contract_address; G.F_payload; G.F_fee_relayer;
                         G.F_fee_community; G.F_fee_security; G.F_sender; G.F_msg_id; G.F_deadline; G.F_relayer]
  | KUploadUser => [G.F_cur_valset; G.F_sig_prefix; G.F_deployer; G.F_bytecode; G.F_fee_relayer;
                    G.F_fee_community; G.F_fee_security; G.F_sender; G.F_msg_id; G.F_deadline; G.F_relayer]
  | KUpdateValset => [G.F_cur_valset; G.F_sig_prefix; G.F_new_valset; G.F_relayer; G.F_gas_estimate]
  | KHandover => [G.F_cur_valset; G.F_sig_prefix; G.F_forward_calls; G.F_deadline; G.F_relayer; G.F_gas_estimate]
  | KUploadCompass => [G.F_bytecode; G.F_constructor_input]
  end.

(** T: every action-bearing field is among the arguments the source packs. *)
Theorem packed_covers_action_fields : forall k f, In f (required k) -> In f (packed_of k).
Proof.
  destruct k; intros f Hf; simpl in Hf;
    repeat (destruct Hf as [Hf|Hf]; [subst f; vm_compute; tauto|]); contradiction.
Qed.

(** the gates of attest.go have the shape the model gives them *)
Theorem gates_as_modelled :
  G.flush_on = ["nil"; "ErrEthTxNotVerified"; "ErrEthTxFailed"]%string /\
  G.attester_and_removal_on_cache_ctx = true /\
  G.receipt_gate = "receipt.Status != ethtypes.ReceiptStatusSuccessful => types.ErrEthTxFailed"%string /\
  G.receipt_gate_before_actions = true /\
  G.processed_check_before_verify = true /\
  G.processed_set_keyed_by_tx_hash = true /\
  G.sig_prefix_loop = "i := len(msg.GetSignData()); i > 0; i--"%string /\
  (* routerAttester's deferred report to the metrix listener: see [relay_success_flag] *)
  G.relay_success_means = "winner is a transaction proof"%string /\
  (* the processed set only grows and membership is pure key presence, as [processed] / [mem_hash] have it *)
  G.is_tx_processed_consults = "key presence"%string /\
  G.processed_store_users = ["isTxProcessed"; "setTxAsAlreadyProcessed"; "txAlreadyProcessedStore"]%string /\
  G.processed_store_deleters = [] /\
  (* CheckAndProcessAttestedMessages: a failing message is logged and the loop goes on, see [endblock_ids] *)
  G.endblock_on_attest_error = "continue"%string /\
  (* VerifyAgainstTX of the two fee-carrying actions: nil fees => ErrEthTxNotVerified, see [verify] *)
  G.nil_fees_not_verified = ["SubmitLogicCall"; "UploadUserSmartContract"]%string.
Proof. repeat split; reflexivity. Qed.

(* ---------- third round: the guards of each action type's attester, from the source ---------- *)

Definition has_guard (x : string) (l : list string) : bool := existsb (String.eqb x) l.
Definition guard_set_of (l : list string) : guard_set :=
  {| g_processed := has_guard "processed" l; g_compass := has_guard "compass" l; g_verify := has_guard "verify" l |}.
Definition code_guards (k : kind) : guard_set :=
  guard_set_of match k with
               | KSubmitLogicCall => G.guards_submit_logic_call
               | KUpdateValset => G.guards_update_valset
               | KUploadCompass => G.guards_upload_smart_contract
               | KUploadUser => G.guards_upload_user_smart_contract
               | KHandover => G.guards_compass_handover
               end.

(** every attester runs the processed-tx check, the compass lookup and VerifyAgainstTX: the
    hypothesis [guards_full] of Evm/AttestProofs.v, discharged from the extracted lists *)
Lemma code_guards_full : forall k, code_guards k = full_guards.
Proof. destruct k; reflexivity. Qed.

(** ... through the shared attestTransactionIntegrity, in this order, before anything else *)
Theorem every_attester_runs_all_guards :
  G.integrity_guards = ["processed"; "compass"; "verify"]%string /\
  G.guards_submit_logic_call = G.integrity_guards /\
  G.guards_update_valset = G.integrity_guards /\
  G.guards_upload_smart_contract = G.integrity_guards /\
  G.guards_upload_user_smart_contract = G.integrity_guards /\
  G.guards_compass_handover = G.integrity_guards /\
  (* the record a user contract upload's follow-up writes to: Evm/UserDeployments.v *)
  G.user_deployment_lookup = ["ChainReferenceId~targetChain"; "CreatedAtBlockHeight~blockHeight"]%string /\
  G.user_lookup_by_created = true /\
  G.user_deployment_created = "appended, IN_FLIGHT, created = updated = current height"%string.
Proof. repeat split; reflexivity. Qed.

Lemma method_tag_inj : forall k k', method_tag k = method_tag k' -> k = k'.
Proof. destruct k, k'; simpl; intros Hk; try reflexivity; discriminate. Qed.

Lemma map_eq_pointwise {A C} (g g' : A -> C) : forall l, map g l = map g' l -> forall x, In x l -> g x = g' x.
Proof.
  induction l as [|y r IH]; simpl; intros He x Hx; [contradiction|].
  inversion He. destruct Hx as [<-|Hx]; [assumption | now apply IH].
Qed.

(** Two messages whose expected calls coincide are the same call: same action type and the same
    value in every action-bearing field (ids, deadline, fees, payer, relayer, valset, signatures
    as they enter the consensus argument).  Byte level: go-ethereum's ABI packing of distinct
    argument tuples of one method is distinct (C05's [abi_enc_injective]; exercised here by X). *)
Theorem calldata_match_means_same_call : forall b id gas v sigs b' id' gas' v' sigs',
  expected_calldata b id gas v sigs = expected_calldata b' id' gas' v' sigs' ->
  b_kind b = b_kind b' /\
  forall f, In f (required (b_kind b)) -> field_val b id gas v sigs f = field_val b' id' gas' v' sigs' f.
Proof.
  unfold expected_calldata. intros b id gas v sigs b' id' gas' v' sigs' He. inversion He as [[Ht Hm]].
  apply method_tag_inj in Ht. split; [exact Ht|]. intros f Hf. rewrite <- Ht in Hm.
  apply (map_eq_pointwise _ _ _ Hm). now apply packed_covers_action_fields.
Qed.
