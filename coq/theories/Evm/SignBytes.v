(** C05 model: the bytes validators sign for a cross-chain message (x/evm/types/turnstone_abi.go,
    the keccak256 methods reached from QueuedSignedMessage.GetBytesToSign) and for a bridge batch
    (x/skyway/types/batch.go GetCheckpoint).  Definitions only; proofs in SignBytesProofs.v.

    An [item] is the queued message / batch with the values the Go code reads: raw for everything
    the model converts itself (ids, estimate, fees option, turnstone-id bytes, fee-payer bytes,
    deadlines, powers...), and the 20-byte result of common.HexToAddress for address strings
    (the hex parsing is glue validated by X, DESIGN 6.5 "effective value").

    [field_value cp it f] is the ABI value the Go code puts in the slot that holds field [f]
    ([cp] = the number held by the inner checkpoint hash, only used by FCheckpoint).
    The slot lists, signatures and selectors come from Gen/C05.v (translated from the
    abi.Arguments literals and Pack(...) argument lists). *)
From Coq Require Import List ZArith Bool.
From Coq Require Import Strings.Byte.
From Paloma Require Import Base.Abi Evm.SignFields.
From Paloma Require Gen.C05.
Import ListNotations.
Open Scope Z_scope.

Record fees := mkFees { f_relayer : Z; f_community : Z; f_security : Z }.

Inductive action :=
| UpdateValset (validators powers : list Z) (valset_id : Z)
| SubmitLogicCall (contract : Z) (payload : list byte) (fs : option fees) (sender : list byte) (deadline : Z)
| UploadUserSmartContract (deployer : Z) (bytecode : list byte) (fs : option fees) (sender : list byte) (deadline : Z)
| CompassHandover (calls : list (Z * list byte)) (deadline : Z)
| UploadSmartContract (bytecode : list byte)
| Batch (token : Z) (receivers amounts : list Z) (nonce timeout : Z).

Record item := mkItem {
  it_id : Z;                  (* QueuedSignedMessage.Id (uint64); unused by Batch *)
  it_estimate : Z;            (* QueuedSignedMessage.GasEstimate / batch GasEstimate (uint64), 0 = none elected *)
  it_turnstone : list byte;   (* Message.TurnstoneID / the turnstoneID argument of GetCheckpoint *)
  it_relayer : Z;             (* HexToAddress(AssigneeRemoteAddress) / batch AssigneeRemoteAddress *)
  it_action : action }.

Inductive kind := KUpdateValset | KLogicCall | KDeploy | KHandover | KUpload | KBatch.

Definition kind_of (it : item) : kind :=
  match it_action it with
  | UpdateValset _ _ _ => KUpdateValset
  | SubmitLogicCall _ _ _ _ _ => KLogicCall
  | UploadUserSmartContract _ _ _ _ _ => KDeploy
  | CompassHandover _ _ => KHandover
  | UploadSmartContract _ => KUpload
  | Batch _ _ _ _ _ => KBatch
  end.

(** ---- Go conversions ---- *)
Definition two64 : Z := 2 ^ 64.
Definition two63 : Z := 2 ^ 63.
Definition two160 : Z := 2 ^ 160.
(** int64(x) for a uint64 x *)
Definition i64 (u : Z) : Z := if u <? two63 then u else u - two64.
(** the word a (possibly negative) big.Int is packed into: math.U256Bytes *)
Definition wordv (z : Z) : abival := VWord (u256 z).

Definition default_fees : fees :=
  mkFees Gen.C05.default_relayer_fee Gen.C05.default_community_fee Gen.C05.default_security_fee.
Definition eff_fees (fs : option fees) : fees := match fs with Some f => f | None => default_fees end.
Definition eff_estimate (k : kind) (e : Z) : Z :=
  if e =? 0 then (match k with KBatch => Gen.C05.batch_default_estimate | _ => Gen.C05.default_estimate end) else e.

Definition act_fees (a : action) : fees :=
  match a with
  | SubmitLogicCall _ _ fs _ _ | UploadUserSmartContract _ _ fs _ _ => eff_fees fs
  | _ => default_fees
  end.
Definition act_sender (a : action) : list byte :=
  match a with
  | SubmitLogicCall _ _ _ s _ | UploadUserSmartContract _ _ _ s _ => s
  | _ => []
  end.
Definition act_deadline (a : action) : Z :=
  match a with
  | SubmitLogicCall _ _ _ _ d | UploadUserSmartContract _ _ _ _ d | CompassHandover _ d => d
  | _ => 0
  end.

Definition call_val (c : Z * list byte) : abival := VTuple [VWord (fst c); VBytes (snd c)].

Definition field_value (cp : Z) (it : item) (f : field) : abival :=
  let a := it_action it in
  match f with
  | FRelayer => VWord (it_relayer it)
  | FEstimate => VWord (eff_estimate (kind_of it) (it_estimate it))
  | FTurnstoneId => VWord (bytes32_right (it_turnstone it))
  | FMsgId => wordv (i64 (it_id it))
  | FCheckpoint => VWord cp
  | FRelayerFee => VWord (f_relayer (act_fees a))
  | FCommunityFee => VWord (f_community (act_fees a))
  | FSecurityFee => VWord (f_security (act_fees a))
  | FFeePayer => VWord (bytes32_left (act_sender a))
  | FDeadline => wordv (act_deadline a)
  | FContract => VWord (match a with SubmitLogicCall c _ _ _ _ => c | _ => 0 end)
  | FPayload => VBytes (match a with SubmitLogicCall _ p _ _ _ => p | _ => [] end)
  | FDeployer => VWord (match a with UploadUserSmartContract d _ _ _ _ => d | _ => 0 end)
  | FBytecode => VBytes (match a with UploadUserSmartContract _ b _ _ _ => b | UploadSmartContract b => b | _ => [] end)
  | FValidators => VArr (map VWord (match a with UpdateValset vs _ _ => vs | _ => [] end))
  | FPowers => VArr (map (fun p => wordv (i64 p)) (match a with UpdateValset _ ps _ => ps | _ => [] end))
  | FValsetId => wordv (i64 (match a with UpdateValset _ _ i => i | _ => 0 end))
  | FCalls => VArr (map call_val (match a with CompassHandover cs _ => cs | _ => [] end))
  | FToken => VWord (match a with Batch t _ _ _ _ => t | _ => 0 end)
  | FReceivers => VArr (map VWord (match a with Batch _ rs _ _ _ => rs | _ => [] end))
  | FAmounts => VArr (map VWord (match a with Batch _ _ am _ _ => am | _ => [] end))
  | FBatchNonce => wordv (i64 (match a with Batch _ _ _ n _ => n | _ => 0 end))
  | FBatchTimeout => wordv (i64 (match a with Batch _ _ _ _ t => t | _ => 0 end))
  end.

Definition field_ty (f : field) : abity :=
  match f with
  | FPayload | FBytecode => TBytes
  | FValidators | FPowers | FReceivers | FAmounts => TArr TWord
  | FCalls => TArr (TTuple [TWord; TBytes])
  | _ => TWord
  end.

Fixpoint slot_ty (s : slot) : abity :=
  match s with SF f => field_ty f | ST l => TTuple (map slot_ty l) end.

Fixpoint slot_val (cp : Z) (it : item) (s : slot) : abival :=
  match s with SF f => field_value cp it f | ST l => VTuple (map (slot_val cp it) l) end.

(** ---- per kind: what Gen says ---- *)
Definition selector (k : kind) : list Z :=
  match k with
  | KUpdateValset => Gen.C05.update_valset_selector
  | KLogicCall => Gen.C05.logic_call_selector
  | KDeploy => Gen.C05.deploy_contract_selector
  | KHandover => Gen.C05.compass_update_batch_selector
  | KBatch => Gen.C05.batch_call_selector
  | KUpload => []
  end.
Definition signed_slots (k : kind) : list slot :=
  match k with
  | KUpdateValset => Gen.C05.update_valset_signed
  | KLogicCall => Gen.C05.logic_call_signed
  | KDeploy => Gen.C05.deploy_contract_signed
  | KHandover => Gen.C05.compass_update_batch_signed
  | KBatch => Gen.C05.batch_call_signed
  | KUpload => []
  end.
Definition signature (k : kind) : list abity :=
  match k with
  | KUpdateValset => Gen.C05.update_valset_sig
  | KLogicCall => Gen.C05.logic_call_sig
  | KDeploy => Gen.C05.deploy_contract_sig
  | KHandover => Gen.C05.compass_update_batch_sig
  | KBatch => Gen.C05.batch_call_sig
  | KUpload => []
  end.

(** Fields handed to the remote bridge contract on delivery.  For the four message kinds this is
    the argument list of contractABI.Pack("<method>", consensus, ...) in eth_txable.go (generated,
    each argument matched against the input at the same position of the compass ABI JSON shipped in
    the repository); a batch is delivered by the relayer's submit_batch(consensus, ...) -- there is
    no Go-side re-packing of it in the repository, so its list is GENERATED from the input list of
    submit_batch in that ABI JSON (input / tuple-component names mapped to batch fields). *)
Definition batch_delivered : list field := Gen.C05.submit_batch_delivered.
Definition delivered_fields (k : kind) : list field :=
  match k with
  | KUpdateValset => Gen.C05.update_valset_delivered
  | KLogicCall => Gen.C05.logic_call_delivered
  | KDeploy => Gen.C05.deploy_contract_delivered
  | KHandover => Gen.C05.compass_update_batch_delivered
  | KBatch => batch_delivered
  | KUpload => []
  end.
(** the same arguments with their tuple structure, in the ABI's order *)
Definition delivered_slots (k : kind) : list slot :=
  match k with
  | KUpdateValset => Gen.C05.update_valset_delivered_slots
  | KLogicCall => Gen.C05.logic_call_delivered_slots
  | KDeploy => Gen.C05.deploy_contract_delivered_slots
  | KHandover => Gen.C05.compass_update_batch_delivered_slots
  | KBatch => Gen.C05.submit_batch_delivered_slots
  | KUpload => []
  end.
(** the message fields the ABI's input NAMES stand for (message_id, deadline, relayer, gas_estimate,
    fee_args.relayer_fee ...), in the ABI's order; for a batch these define [delivered_slots] *)
Definition abi_named_slots (k : kind) : list slot :=
  match k with
  | KUpdateValset => Gen.C05.update_valset_abi_named_slots
  | KLogicCall => Gen.C05.logic_call_abi_named_slots
  | KDeploy => Gen.C05.deploy_contract_abi_named_slots
  | KHandover => Gen.C05.compass_update_batch_abi_named_slots
  | KBatch => Gen.C05.submit_batch_delivered_slots
  | KUpload => []
  end.
(** the compass ABI's input types after the leading consensus argument, and the method id *)
Definition abi_sig (k : kind) : list abity :=
  match k with
  | KUpdateValset => Gen.C05.update_valset_abi_sig
  | KLogicCall => Gen.C05.logic_call_abi_sig
  | KDeploy => Gen.C05.deploy_contract_abi_sig
  | KHandover => Gen.C05.compass_update_batch_abi_sig
  | KBatch => Gen.C05.submit_batch_abi_sig
  | KUpload => []
  end.
Definition abi_selector (k : kind) : list Z :=
  match k with
  | KUpdateValset => Gen.C05.update_valset_abi_selector
  | KLogicCall => Gen.C05.logic_call_abi_selector
  | KDeploy => Gen.C05.deploy_contract_abi_selector
  | KHandover => Gen.C05.compass_update_batch_abi_selector
  | KBatch => Gen.C05.submit_batch_abi_selector
  | KUpload => []
  end.
(** consensus = ((address[] validators, uint256[] powers, uint256 valset_id), (uint256 v, r, s)[]) *)
Definition consensus_ty : abity :=
  TTuple [TTuple [TArr TWord; TArr TWord; TWord]; TArr (TTuple [TWord; TWord; TWord])].

(** Every action except the bridge-contract upload itself is authorised on the remote chain by
    presenting the signatures to the bridge contract. *)
Definition via_bridge_contract (k : kind) : bool := match k with KUpload => false | _ => true end.

(** Kinds whose contract-side hashing scheme includes the deployment (turnstone) id; the
    handover call compass_update_batch does not (DESIGN 6.5). *)
Definition scheme_has_id (k : kind) : bool :=
  match k with KHandover | KUpload => false | _ => true end.

(** Fields bound by the signing bytes: the leaves of the outer pre-image, and for a valset update
    those of the inner checkpoint pre-image in place of its hash. *)
Definition bound_fields (k : kind) : list field :=
  match k with
  | KUpdateValset =>
      flatten_all Gen.C05.checkpoint_signed ++
      filter (fun f => negb (field_eqb f FCheckpoint)) (flatten_all Gen.C05.update_valset_signed)
  | _ => flatten_all (signed_slots k)
  end.

(** ---- pre-images ---- *)
Definition packed (sel : list Z) (slots : list slot) (cp : Z) (it : item) : list byte :=
  bytes_of_Zs sel ++ enc_args (map (slot_val cp it) slots).

Definition checkpoint_preimage (it : item) : list byte :=
  packed Gen.C05.checkpoint_selector Gen.C05.checkpoint_signed 0 it.

Definition upload_preimage (it : item) : list byte :=
  match it_action it with
  | UploadSmartContract b => b ++ be 8 (it_id it)
  | _ => []
  end.

(** [outer_preimage cp it]: what the (outer) Keccak256 is applied to, [cp] being the number held
    by the checkpoint hash (ignored unless the kind is KUpdateValset). *)
Definition outer_preimage (cp : Z) (it : item) : list byte :=
  match kind_of it with
  | KUpload => upload_preimage it
  | k => packed (selector k) (signed_slots k) cp it
  end.

Section WithKeccak.
  Variable keccak : list byte -> list byte.

  Definition checkpoint_hash (it : item) : Z := bytes32_right (keccak (checkpoint_preimage it)).
  Definition sign_preimage (it : item) : list byte := outer_preimage (checkpoint_hash it) it.
  (** QueuedSignedMessage.GetBytesToSign / OutgoingTxBatch.GetCheckpoint *)
  Definition sign_bytes (it : item) : list byte := keccak (sign_preimage it).

  Definition keccak_collision : Prop := exists x y : list byte, x <> y /\ keccak x = keccak y.
End WithKeccak.

(** ---- what the contract is handed: the RAW values eth_txable.go packs ----
    VerifyAgainstTX packs [m.Fees.RelayerFee] ... (no feesOrDefault: a message without fees is a
    nil dereference there, nothing can be verified as delivered) and [msg.GetGasEstimate()] (no
    default).  [raw_value it f = None]: the delivered call cannot be built from this item. *)
Definition raw_fees (a : action) : option fees :=
  match a with
  | SubmitLogicCall _ _ fs _ _ | UploadUserSmartContract _ _ fs _ _ => fs
  | _ => None
  end.

Definition raw_value (it : item) (f : field) : option abival :=
  match f with
  | FEstimate => Some (VWord (it_estimate it))
  | FRelayerFee => option_map (fun x => VWord (f_relayer x)) (raw_fees (it_action it))
  | FCommunityFee => option_map (fun x => VWord (f_community x)) (raw_fees (it_action it))
  | FSecurityFee => option_map (fun x => VWord (f_security x)) (raw_fees (it_action it))
  | FCheckpoint => None
  | _ => Some (field_value 0 it f)
  end.

Fixpoint raw_slot_val (it : item) (s : slot) : option abival :=
  match s with
  | SF f => raw_value it f
  | ST l =>
      option_map VTuple
        ((fix go (l : list slot) : option (list abival) :=
            match l with
            | [] => Some []
            | x :: r => match raw_slot_val it x, go r with
                        | Some v, Some vs => Some (v :: vs)
                        | _, _ => None
                        end
            end) l)
  end.
Fixpoint raw_slot_vals (it : item) (l : list slot) : option (list abival) :=
  match l with
  | [] => Some []
  | x :: r => match raw_slot_val it x, raw_slot_vals it r with
              | Some v, Some vs => Some (v :: vs)
              | _, _ => None
              end
  end.

(** the transaction input VerifyAgainstTX accepts (a batch: what submit_batch is called with),
    [consensus] being the (current valset, signatures) argument *)
Definition delivered_calldata (consensus : abival) (it : item) : option (list byte) :=
  match raw_slot_vals it (delivered_slots (kind_of it)) with
  | Some vs => Some (bytes_of_Zs (abi_selector (kind_of it)) ++ enc_args (consensus :: vs))
  | None => None
  end.

(** An item is handed out for relaying only with an elected estimate (filters.HasGasEstimate in
    GetMessagesForRelaying, RequireGasEstimation at every enqueue site of a bridge action; the
    batch query skips GasEstimate < 1), and fee-paying actions get their fees in the same cache
    context as the estimate (Gen.C05.relay_filter_has_gas_estimate & co.). *)
Definition relayable (it : item) : Prop :=
  it_estimate it <> 0 /\
  match it_action it with
  | SubmitLogicCall _ _ fs _ _ | UploadUserSmartContract _ _ fs _ _ => fs <> None
  | _ => True
  end.

(** ---- well-formedness: the ranges of the Go types ---- *)
Definition u64 (z : Z) : Prop := 0 <= z < two64.
Definition int64 (z : Z) : Prop := - two63 <= z < two63.
Definition addr (z : Z) : Prop := 0 <= z < two160.
Definition small (n : nat) : Prop := Z.of_nat n < two256.
Definition wf_fees (fs : option fees) : Prop :=
  match fs with Some f => u64 (f_relayer f) /\ u64 (f_community f) /\ u64 (f_security f) | None => True end.

Definition wf_action (a : action) : Prop :=
  match a with
  | UpdateValset vs ps i => Forall addr vs /\ Forall u64 ps /\ u64 i /\ small (length vs) /\ small (length ps)
  | SubmitLogicCall c p fs s d => addr c /\ small (length p) /\ wf_fees fs /\ (length s <= 32)%nat /\ int64 d
  | UploadUserSmartContract c p fs s d => addr c /\ small (length p) /\ wf_fees fs /\ (length s <= 32)%nat /\ int64 d
  | CompassHandover cs d => Forall (fun c => addr (fst c) /\ small (length (snd c))) cs /\ small (length cs) /\ int64 d
  | UploadSmartContract b => small (length b)
  | Batch t rs am n tmo => addr t /\ Forall addr rs /\ Forall (fun x => 0 <= x < two256) am /\ u64 n /\ u64 tmo /\
                           small (length rs) /\ small (length am)
  end.

Definition wf (it : item) : Prop :=
  u64 (it_id it) /\ u64 (it_estimate it) /\ addr (it_relayer it) /\ wf_action (it_action it).
