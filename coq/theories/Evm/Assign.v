(** x/evm/keeper/msg_assigner.go + keeper.go:PickValidatorForMessage — executable model.
    Validator addresses, chain ids, remote addresses and traits are integers; the harness
    numbers validator address strings in their lexicographic order (the tie-break of
    rankValidators is strings.Compare on them).  Decimals are raw LegacyDec integers (Base/Dec).
    Definitions only. *)
From Coq Require Import List ZArith Bool.
From Paloma Require Import Base.Dec.
From Paloma Require Gen.C14.
Import ListNotations.
Open Scope Z_scope.

Record chain_info := { ci_chain : Z; ci_remote : Z; ci_traits : list Z }.
Record validator := { v_addr : Z; v_infos : list chain_info }.
Definition snapshot := list validator.      (* Snapshot.Validators; [] also stands for "no snapshot" *)

Record metric := { m_addr : Z; m_uptime : Z; m_success : Z; m_exec : Z (* math.Int, ms *); m_feature : Z }.
Record weights := { w_fee : Z; w_uptime : Z; w_success : Z; w_exec : Z; w_feature : Z }.

(** ValidatorInfo, with its map key *)
Record vinfo := { i_addr : Z; i_fee : Z; i_uptime : Z; i_success : Z; i_exec : Z; i_feature : Z }.

Definition trait_mev : Z := 1.               (* valsettypes.PIGEON_TRAIT_MEV, numbered 1 by the harness *)
Definition pool_size : Z := Gen.C14.top_validator_pool_size.

(** Go map built by a loop: the last write for a key wins. *)
Definition find_last {A} (f : A -> bool) (l : list A) : option A := find f (rev l).

Definition perf_lookup (ms : list metric) (a : Z) : option metric :=
  find_last (fun m => m_addr m =? a) ms.
(** GetRelayerFeesByChainReferenceID returns a Go map; it is given as an association list. *)
Definition fee_lookup (fs : list (Z * Z)) (a : Z) : option Z :=
  option_map snd (find_last (fun p => fst p =? a) fs).

Fixpoint dedup (seen : list Z) (l : list Z) : list Z :=
  match l with
  | [] => []
  | a :: r => if existsb (Z.eqb a) seen then dedup seen r else a :: dedup (a :: seen) r
  end.

(** buildValidatorsInfos: one entry per distinct snapshot address that has both records. *)
Definition info_of (ms : list metric) (fs : list (Z * Z)) (a : Z) : option vinfo :=
  match perf_lookup ms a, fee_lookup fs a with
  | Some p, Some f =>
      Some {| i_addr := a; i_fee := f; i_uptime := m_uptime p; i_success := m_success p;
              i_exec := of_int (m_exec p); i_feature := m_feature p |}
  | _, _ => None
  end.

Fixpoint filter_map {A B} (f : A -> option B) (l : list A) : list B :=
  match l with
  | [] => []
  | x :: r => match f x with Some y => y :: filter_map f r | None => filter_map f r end
  end.

Definition build_infos (sn : snapshot) (ms : list metric) (fs : list (Z * Z)) : list vinfo :=
  filter_map (info_of ms fs) (dedup [] (map v_addr sn)).

(** perfDataWindow: probeMin clamps at zero, probeMax does not; both are order-independent. *)
Definition win_min (l : list Z) : Z := Z.max 0 (fold_right Z.min (hd 0 l) l).
Definition win_max (l : list Z) : Z := fold_right Z.max (hd 0 l) l.

Definition score_value (mx mn v : Z) (reverse : bool) : Z :=
  if mx =? mn then 0
  else let s := quo (sub v mn) (sub mx mn) in
       if reverse then sub one s else s.

Definition score_of (infos : list vinfo) (w : weights) (i : vinfo) : Z :=
  let col (f : vinfo -> Z) (rev : bool) :=
      score_value (win_max (map f infos)) (win_min (map f infos)) (f i) rev in
  add (add (add (add (mul (col i_fee true) (w_fee w))
                     (mul (col i_uptime false) (w_uptime w)))
                (mul (col i_success false) (w_success w)))
           (mul (col i_exec true) (w_exec w)))
      (mul (col i_feature false) (w_feature w)).

(** slices.SortStableFunc with: higher score first, then smaller address. *)
Definition before (x y : Z * Z) : bool :=       (* (address, score) *)
  (snd y <? snd x) || ((snd x =? snd y) && (fst x <? fst y)).

Fixpoint insert (x : Z * Z) (l : list (Z * Z)) : list (Z * Z) :=
  match l with
  | [] => [x]
  | y :: r => if before x y then x :: y :: r else y :: insert x r
  end.
Definition sort_scores (l : list (Z * Z)) : list (Z * Z) := fold_right insert [] l.

Definition rank (infos : list vinfo) (w : weights) : list (Z * Z) :=
  sort_scores (map (fun i => (i_addr i, score_of infos w i)) infos).

(** filterValidatorsForJob.  [req]: None = nil requirements, Some b = EnforceMEVRelay b. *)
Definition lut_lookup (sn : snapshot) (a : Z) : option validator :=
  find_last (fun v => v_addr v =? a) sn.
Definition first_info (v : validator) (chain : Z) : option chain_info :=
  find (fun ci => ci_chain ci =? chain) (v_infos v).
Definition mev_required (req : option bool) : bool :=
  match req with Some true => true | _ => false end.
Definition job_ok (sn : snapshot) (chain : Z) (req : option bool) (a : Z) : bool :=
  match lut_lookup sn a with
  | None => false
  | Some v =>
      match first_info v chain with
      | None => false
      | Some ci => if mev_required req then existsb (Z.eqb trait_mev) (ci_traits ci) else true
      end
  end.

(** keeper.go: the remote address comes from the FIRST snapshot entry with the picked address. *)
Definition remote_of (sn : snapshot) (a chain : Z) : option Z :=
  match find (fun v => v_addr v =? a) sn with
  | None => None
  | Some v => option_map ci_remote (first_info v chain)
  end.

Inductive pick_result :=
| Picked (v remote : Z)
| PickErr (code : Z)      (* 1 no validators eligible, 2 no assignable validators, 3 missing external address *)
| PickPanic.              (* negative block time: index out of range *)

Definition eligible_list (sn : snapshot) (ms : list metric) (fs : list (Z * Z)) (w : weights)
           (chain : Z) (req : option bool) : list Z :=
  filter (job_ok sn chain req) (map fst (rank (build_infos sn ms fs) w)).

Definition pick (sn : snapshot) (ms : list metric) (fs : list (Z * Z)) (w : weights)
           (chain : Z) (req : option bool) (ts : Z) : pick_result :=
  match build_infos sn ms fs with
  | [] => PickErr 1
  | _ =>
    let el := eligible_list sn ms fs w chain req in
    match el with
    | [] => PickErr 2
    | _ =>
      let idx := Z.rem ts (Z.min (Z.of_nat (length el)) pool_size) in
      if idx <? 0 then PickPanic
      else match nth_error el (Z.to_nat idx) with
           | None => PickPanic
           | Some v => match remote_of sn v chain with
                       | Some r => Picked v r
                       | None => PickErr 3
                       end
           end
    end
  end.

(** Callers (AddSmartContractExecutionToConsensus, PublishValsetToChain, deploySmartContractToChain, ...):
    pick first, return the error before anything is put in the queue. *)
Record queued := { q_id : Z; q_assignee : Z; q_remote : Z; q_payload : Z }.
Record qstate := { qs_next : Z; qs_msgs : list queued }.
Inductive enq_result := EnqOk (id : Z) | EnqErr (code : Z) | EnqPanic.

Definition enqueue_request (sn : snapshot) (ms : list metric) (fs : list (Z * Z)) (w : weights)
           (chain : Z) (req : option bool) (ts : Z) (payload : Z) (s : qstate) : qstate * enq_result :=
  match pick sn ms fs w chain req ts with
  | Picked v r =>
      let id := qs_next s + 1 in
      ({| qs_next := id;
          qs_msgs := qs_msgs s ++ [{| q_id := id; q_assignee := v; q_remote := r; q_payload := payload |}] |},
       EnqOk id)
  | PickErr c => (s, EnqErr c)
  | PickPanic => (s, EnqPanic)
  end.
