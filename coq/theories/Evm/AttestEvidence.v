(** C07, second round — the seam between evidence consensus (C04) and the attester is brought
    into the model.  Evm/Attest.v takes "the winner VerifyEvidence elects" as an input of the
    history ([OpEvidence]); here the messages carry the validators' reports themselves and the
    winner is COMPUTED, at the moment of the attestation, by C04's model of
    util/libcons.VerifyEvidence ([Cons.Quorum.verify_evidence], read-only) over

      x/evm/types/proofs_hash_bytes.go   TxExecutedProof.BytesToHash, SmartContractExecutionErrorProof.BytesToHash
      x/consensus/types/consensus.go     QueuedSignedMessage.AddEvidence (one entry per validator, latest proof, position kept)
      x/consensus/keeper                 AddMessageEvidence (message must be queued)
      x/evm/keeper/attest.go             attestMessageWrapper: no evidence -> nil; ErrConsensusNotAchieved -> nil;
                                         any other VerifyEvidence error -> returned, nothing flushed;
                                         result.Winner (the FIRST evidence of the winning group) -> routerAttester

    Definitions only.  What BytesToHash covers comes from the source (Gen/C07.v). *)
From Coq Require Import List ZArith Bool.
From Paloma Require Import Base.Num Cons.Quorum Evm.Attest.
From Paloma Require Gen.C07.
Import ListNotations.
Open Scope Z_scope.

(** A decoded go-ethereum receipt, consensus fields only (what Receipt.MarshalBinary writes and
    UnmarshalBinary restores): EIP-2718 type, PostState (0 = empty, every post-Byzantium receipt),
    Status, CumulativeGasUsed, Bloom, Logs — byte strings as numbers. *)
Record receipt := { r_type : Z; r_post : Z; r_status : Z; r_gas : Z; r_bloom : Z; r_logs : Z }.

(** receipt.MarshalBinary(): type ++ rlp [PostStateOrStatus; CumulativeGasUsed; Bloom; Logs] *)
Definition receipt_full (r : receipt) : list Z :=
  [r_type r; r_post r; r_status r; r_gas r; r_bloom r; r_logs r].

Section Evidence.
  Variable T : Type.   (* a remote transaction, as decoded from SerializedTX *)

  (** What a validator can hand in for a turnstone message (a registered [Hashable]). *)
  Inductive proof :=
  | PTx (t : T) (r : option receipt)   (* TxExecutedProof; None: SerializedReceipt == nil *)
  | PErr (msg : Z)                     (* SmartContractExecutionErrorProof *)
  | POther (tg : Z) (data : Z).        (* ValidatorBalancesAttestationRes, ReferenceBlockAttestationRes *)

  (** rawProof.GetTypeUrl() *)
  Definition tag_of (p : proof) : Z :=
    match p with PTx _ _ => 1 | PErr _ => 2 | POther tg _ => if tg <=? 2 then 3 else tg end.

  (** What the bytes returned by BytesToHash are a serialisation OF. *)
  Inductive payload :=
  | HTx (t : option T) (r : option (list Z))
  | HErr (msg : Z)
  | HOther (data : Z).

  (** BytesToHash, with the coverage as parameters: [ct] — the whole serialised transaction
      enters; [rcov] — the fields of the receipt that enter. *)
  Definition covered_with (ct : bool) (rcov : receipt -> list Z) (p : proof) : payload :=
    match p with
    | PTx t r => HTx (if ct then Some t else None) (option_map rcov r)
    | PErr m => HErr m
    | POther _ d => HOther d
    end.

  (** The code: slices.Concat(tx.MarshalBinary(), receipt.MarshalBinary()), tx.MarshalBinary()
      alone without a receipt — as long as the translator recognises exactly that shape. *)
  Definition rcov_code (r : receipt) : list Z :=
    if Gen.C07.bth_covers_full_receipt then receipt_full r else [].
  Definition covered : proof -> payload := covered_with Gen.C07.bth_covers_full_tx rcov_code.

  (** what routerAttester and the five attesters see of the winner *)
  Definition winner_of (p : proof) : @winner T :=
    match p with
    | PTx t r => WTx t (option_map r_status r)   (* GetReceipt on absent bytes fails: [None] *)
    | PErr _ => WErr
    | POther _ _ => WOther
    end.

  (** the evidence stored with one message: (validator, proof) in order of first submission *)
  Definition reports := list (val * proof).

  (** QueuedSignedMessage.AddEvidence *)
  Fixpoint add_report (l : reports) (v : val) (p : proof) : reports :=
    match l with
    | [] => [(v, p)]
    | (u, q) :: r => if u =? v then (u, p) :: r else (u, q) :: add_report r v p
    end.

  Fixpoint get_reports (id : Z) (l : list (Z * reports)) : reports :=
    match l with
    | [] => []
    | (k, r) :: rest => if k =? id then r else get_reports id rest
    end.
  Fixpoint set_reports (id : Z) (r : reports) (l : list (Z * reports)) : list (Z * reports) :=
    match l with
    | [] => [(id, r)]
    | (k, r0) :: rest => if k =? id then (k, r) :: rest else (k, r0) :: set_reports id r rest
    end.

  Section Elect.
    (** [enc]: the serialisation of a payload to bytes (a number); [hash]: sha256 of type URL and
        bytes as the group key.  Both arbitrary: collisions are explicit disjuncts of the theorems. *)
    Context {K : Type} (keqb : K -> K -> bool) (hash : Z -> Z -> K).
    Variable enc : payload -> Z.

    Section WithCoverage.
      Variable cov : proof -> payload.

      Definition to_ev_with (vp : val * proof) : evidence :=
        {| ev_val := fst vp; ev_tag := tag_of (snd vp); ev_data := enc (cov (snd vp)); ev_bad := false |}.

      (** attestMessageWrapper up to the call of the attester: what it hands over, if anything.
          [ord]: the iteration order of Go's map of groups. *)
      Definition elect_with (ord : list (@group K) -> list (@group K)) (sn : snapshot) (evs : reports) : option (@winner T) :=
        match evs with
        | [] => None                                       (* len(msg.GetEvidence()) == 0 *)
        | _ =>
          match verify_evidence keqb (code_key hash) ord sn (map to_ev_with evs) with
          | NotAchieved => None                            (* logged, return nil *)
          | Failed => Some WOther                          (* error returned, nothing flushed *)
          | Winner w =>
            (* group.evidence: the proof of the validator whose evidence opened the group *)
            match find (fun vp => fst vp =? ev_val w) evs with
            | Some vp => Some (winner_of (snd vp))
            | None => Some WOther
            end
          end
        end.
    End WithCoverage.

    Definition to_ev := to_ev_with covered.
    Definition elect := elect_with covered.
  End Elect.
End Evidence.

Arguments PTx {T}.
Arguments PErr {T}.
Arguments POther {T}.
Arguments HTx {T}.
Arguments HErr {T}.
Arguments HOther {T}.

(** The histories: everything of Evm/Attest.v except [OpEvidence]; evidence arrives report by
    report, and attestRouter elects the winner itself under the snapshot current at that moment. *)
Section Refined.
  Variables B S V D H T W E : Type.
  Variable kind_of : B -> kind.
  Variable guards : kind -> guard_set.
  Variable fees_present : B -> bool.
  Variable expected_calldata : B -> Z -> Z -> V -> list S -> D.
  Variable expected_deploy : B -> D.
  Variable D_eqb : D -> D -> bool.
  Variable H_eqb : H -> H -> bool.
  Variable tx_hash : T -> H.
  Variable tx_data : T -> D.
  Variable valset_at : W -> Z -> V.
  Variable compass_present : W -> bool.
  Variable apply_effect : E -> msg B S T -> T -> W -> option (W * list B).
  Variable on_error_proof : E -> msg B S T -> W -> W * list B.
  Context {K : Type} (keqb : K -> K -> bool) (hash : Z -> Z -> K).
  Variable enc : payload T -> Z.
  (** k.Valset.GetCurrentSnapshot: validators with their shares, and the recorded total *)
  Variable snapshot_of : W -> snapshot.

  Notation astate := (state B S V H T W).
  Notation astep := (step B S V D H T W E kind_of guards fees_present expected_calldata expected_deploy D_eqb H_eqb
                       tx_hash tx_data valset_at compass_present apply_effect on_error_proof).

  Record rstate := { abs : astate; evid : list (Z * reports T) }.

  Inductive rop :=
  | REnqueue (b : B)
  | RReplaceBody (id : Z) (b : B)
  | RSign (id : Z) (sg : S)
  | RSetGas (id : Z) (g : Z)
  | RSetValset (id : Z) (vsid : Z)
  | RRemove (id : Z)
  | RWorld (f : W -> W)
  | RAddEvidence (id : Z) (v : val) (p : proof T)                      (* AddMessageEvidence *)
  | RAttest (id : Z) (env : E) (ord : list (@group K) -> list (@group K)). (* attestRouter on one message *)

  Definition base_op (o : rop) : option (op B S T W E) :=
    match o with
    | REnqueue b => Some (OpEnqueue _ _ _ _ _ b)
    | RReplaceBody id b => Some (OpReplaceBody _ _ _ _ _ id b)
    | RSign id sg => Some (OpSign _ _ _ _ _ id sg)
    | RSetGas id g => Some (OpSetGas _ _ _ _ _ id g)
    | RSetValset id v => Some (OpSetValset _ _ _ _ _ id v)
    | RRemove id => Some (OpRemove _ _ _ _ _ id)
    | RWorld f => Some (OpWorld _ _ _ _ _ f)
    | _ => None
    end.

  Definition elected (s : rstate) (id : Z) (ord : list (@group K) -> list (@group K)) : option (@winner T) :=
    elect T keqb hash enc ord (snapshot_of (world _ _ _ _ _ _ (abs s))) (get_reports T id (evid s)).

  Definition rstep (s : rstate) (o : rop) : rstate :=
    match o with
    | RAddEvidence id v p =>
      match find_msg _ _ _ id (queue _ _ _ _ _ _ (abs s)) with
      | None => s                                        (* GetMsgByID fails *)
      | Some _ => {| abs := abs s; evid := set_reports T id (add_report T (get_reports T id (evid s)) v p) (evid s) |}
      end
    | RAttest id env ord =>
      {| abs := astep (astep (abs s) (OpEvidence _ _ _ _ _ id (elected s id ord))) (OpAttest _ _ _ _ _ id env);
         evid := evid s |}
    | _ =>
      match base_op o with
      | Some b => {| abs := astep (abs s) b; evid := evid s |}
      | None => s
      end
    end.

  Definition rinit (w : W) (n : Z) : rstate := {| abs := init B S V H T W w n; evid := [] |}.
  Definition rrun_from (s : rstate) (ops : list rop) : rstate := fold_left rstep ops s.
  Definition rrun (w : W) (n : Z) (ops : list rop) : rstate := rrun_from (rinit w n) ops.

  (** the history of [Evm/Attest.v] a refined history stands for: the winner is filed right
      before each attestation *)
  Fixpoint flatten (s : rstate) (ops : list rop) : list (op B S T W E) :=
    match ops with
    | [] => []
    | o :: r =>
      match o with
      | RAddEvidence _ _ _ => []
      | RAttest id env ord => [OpEvidence _ _ _ _ _ id (elected s id ord); OpAttest _ _ _ _ _ id env]
      | _ => match base_op o with Some b => [b] | None => [] end
      end ++ flatten (rstep s o) r
    end.

  (** CheckAndProcessAttestedMessages on the refined state *)
  Fixpoint rendblock_ids (s : rstate) (ids : list Z) (env : Z -> E) (ord : Z -> list (@group K) -> list (@group K)) : rstate :=
    match ids with
    | [] => s
    | id :: r => rendblock_ids (rstep s (RAttest id (env id) (ord id))) r env ord
    end.
  Definition rendblock (s : rstate) (env : Z -> E) (ord : Z -> list (@group K) -> list (@group K)) : rstate :=
    rendblock_ids s (map (@m_id B S T) (queue _ _ _ _ _ _ (abs s))) env ord.
End Refined.

Arguments abs {B S V H T W}.
Arguments evid {B S V H T W}.
Arguments REnqueue {B S T W E K}.
Arguments RReplaceBody {B S T W E K}.
Arguments RSign {B S T W E K}.
Arguments RSetGas {B S T W E K}.
Arguments RSetValset {B S T W E K}.
Arguments RRemove {B S T W E K}.
Arguments RWorld {B S T W E K}.
Arguments RAddEvidence {B S T W E K}.
Arguments RAttest {B S T W E K}.
