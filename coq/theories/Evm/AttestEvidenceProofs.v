(** C07, second round — proofs about Evm/AttestEvidence.v.

    The main statement: whenever a success follow-up is committed, the receipt with status 1 of
    exactly that transaction was reported — byte for byte, transaction and receipt — by
    validators holding at least 2/3 of the shares of the snapshot current at that moment.  It
    composes C04's [winner_two_thirds_identical_code_key] (Cons/QuorumProofs.v, read-only) with
    what TxExecutedProof.BytesToHash covers (Gen/C07.v).  Nothing is assumed about the group key
    hash or about the serialisation: collisions are explicit disjuncts. *)
From Coq Require Import List ZArith Bool Lia Permutation.
From Paloma Require Import Base.Num Cons.Quorum Cons.QuorumProofs Evm.Attest Evm.AttestProofs Evm.AttestEvidence.
From Paloma Require Gen.C07.
Import ListNotations.
Open Scope Z_scope.

(* ---------- the per-message evidence list ---------- *)

Section Reports.
  Variable T : Type.
  Notation proof := (proof T).
  Notation reports := (reports T).
  Notation add_report := (add_report T).
  Notation get_reports := (get_reports T).
  Notation set_reports := (set_reports T).

  Lemma add_report_in_fst : forall (l : reports) v p u,
    In u (map fst (add_report l v p)) -> u = v \/ In u (map fst l).
  Proof.
    induction l as [|[u0 q0] r IH]; simpl; intros v p u Hu.
    - destruct Hu as [Hu|[]]. now left.
    - destruct (u0 =? v) eqn:E; simpl in Hu.
      + right. exact Hu.
      + destruct Hu as [Hu|Hu]; [right; now left|].
        apply IH in Hu as [Hu|Hu]; [now left | right; now right].
  Qed.

  Lemma add_report_nodup : forall (l : reports) v p,
    NoDup (map fst l) -> NoDup (map fst (add_report l v p)).
  Proof.
    induction l as [|[u0 q0] r IH]; simpl; intros v p Hn.
    - constructor; [intros []|constructor].
    - destruct (u0 =? v) eqn:E; simpl; [exact Hn|].
      inversion Hn as [|? ? Hni Hnr]; subst. constructor; [|now apply IH].
      intros Hc. apply add_report_in_fst in Hc as [Hc|Hc]; [|contradiction].
      apply Z.eqb_neq in E. congruence.
  Qed.

  (** after AddEvidence the list holds the validator's LATEST proof and everybody else's as before *)
  Lemma in_add_report : forall (l : reports) v p u q,
    NoDup (map fst l) -> In (u, q) (add_report l v p) ->
    (u = v /\ q = p) \/ (u <> v /\ In (u, q) l).
  Proof.
    induction l as [|[u0 q0] r IH]; simpl; intros v p u q Hn Hi.
    - destruct Hi as [Hi|[]]. inversion Hi. now left.
    - inversion Hn as [|? ? Hni Hnr]; subst.
      destruct (u0 =? v) eqn:E.
      + apply Z.eqb_eq in E. subst u0. destruct Hi as [Hi|Hi].
        * inversion Hi. now left.
        * right. split; [|now right]. intros ->. apply Hni. apply in_map_iff. now exists (v, q).
      + apply Z.eqb_neq in E. destruct Hi as [Hi|Hi].
        * inversion Hi; subst. right. split; [exact E | now left].
        * apply IH in Hi as [Hi|[Hne Hi]]; [now left | right; split; [exact Hne | now right] | exact Hnr].
  Qed.

  Lemma add_report_has : forall (l : reports) v p, In (v, p) (add_report l v p).
  Proof.
    induction l as [|[u0 q0] r IH]; simpl; intros v p; [now left|].
    destruct (u0 =? v) eqn:E.
    - apply Z.eqb_eq in E. subst. now left.
    - right. apply IH.
  Qed.

  Lemma get_set_same : forall id r (l : list (Z * reports)), get_reports id (set_reports id r l) = r.
  Proof.
    induction l as [|[k r0] rest IH]; simpl.
    - now rewrite Z.eqb_refl.
    - destruct (k =? id) eqn:E; simpl; rewrite E; [reflexivity | exact IH].
  Qed.

  Lemma get_set_other : forall id id' r (l : list (Z * reports)),
    id' <> id -> get_reports id' (set_reports id r l) = get_reports id' l.
  Proof.
    induction l as [|[k r0] rest IH]; simpl; intros Hne.
    - destruct (id =? id') eqn:E; [apply Z.eqb_eq in E; congruence | reflexivity].
    - destruct (k =? id) eqn:E; simpl.
      + apply Z.eqb_eq in E. subst k. destruct (id =? id') eqn:E'; [apply Z.eqb_eq in E'; congruence | reflexivity].
      + destruct (k =? id'); [reflexivity | now apply IH].
  Qed.

  Lemma nodup_fst_inj : forall (l : reports) a b,
    NoDup (map fst l) -> In a l -> In b l -> fst a = fst b -> a = b.
  Proof.
    induction l as [|x r IH]; simpl; intros a b Hn Ha Hb He; [contradiction|].
    inversion Hn as [|? ? Hni Hnr]; subst.
    destruct Ha as [Ha|Ha], Hb as [Hb|Hb]; subst.
    - reflexivity.
    - exfalso. apply Hni. rewrite He. now apply in_map.
    - exfalso. apply Hni. rewrite <- He. now apply in_map.
    - now apply IH.
  Qed.
End Reports.

(* ---------- what the elected winner stands for ---------- *)

Section Elect.
  Variable T : Type.
  Hypothesis T_eq_dec : forall a b : T, {a = b} + {a <> b}.
  Context {K : Type} (keqb : K -> K -> bool) (hash : Z -> Z -> K).
  Hypothesis keqb_spec : forall a b, keqb a b = true <-> a = b.
  Variable enc : payload T -> Z.

  Notation proof := (proof T).
  Notation payload := (payload T).

  (** two different (type, bytes) pairs with the same group key *)
  Definition hash_collision : Prop :=
    exists t d t' d' : Z, (t, d) <> (t', d') /\ hash t d = hash t' d'.
  (** two different payloads with the same serialisation *)
  Definition enc_collision : Prop := exists a b : payload, a <> b /\ enc a = enc b.

  Lemma payload_eq_dec : forall a b : payload, {a = b} + {a <> b}.
  Proof.
    intros a b. decide equality; try apply Z.eq_dec.
    - decide equality. apply (list_eq_dec Z.eq_dec).
    - decide equality.
  Qed.

  Lemma receipt_full_inj : forall r r', receipt_full r = receipt_full r' -> r = r'.
  Proof.
    intros [a b c d e f] [a' b' c' d' e' f']. unfold receipt_full. simpl.
    intros Heq. inversion Heq. reflexivity.
  Qed.

  (** As long as the source hashes the whole serialised transaction followed by the whole
      serialised receipt: a report with the payload of a transaction proof IS that proof. *)
  Lemma covered_tx_inj : forall q t r,
    Gen.C07.bth_covers_full_tx = true -> Gen.C07.bth_covers_full_receipt = true ->
    covered T q = covered T (PTx t (Some r)) -> q = PTx t (Some r).
  Proof.
    intros q t r Ht Hr. unfold covered, covered_with, rcov_code. rewrite Ht, Hr.
    destruct q as [t' r'|m|tg d]; simpl; intros Heq; try discriminate.
    inversion Heq as [[Htt Hrr]]. destruct r' as [r'|]; simpl in Hrr; [|discriminate].
    assert (Hf : receipt_full r' = receipt_full r) by congruence.
    apply receipt_full_inj in Hf. now subst.
  Qed.

  Lemma map_val_filter_identical : forall cov w (evs : reports T),
    map ev_val (filter (identical w) (map (to_ev_with T enc cov) evs)) =
    map fst (filter (fun vp => identical w (to_ev_with T enc cov vp)) evs).
  Proof.
    induction evs as [|x r IH]; simpl; [reflexivity|].
    destruct (identical w (to_ev_with T enc cov x)); simpl; now rewrite IH.
  Qed.

  (** The transaction proof handed to the attester was reported identically — same transaction,
      same receipt, status included — by 2/3 of the snapshot. *)
  Lemma elect_spec : forall ord sn (evs : reports T) t st,
    Gen.C07.bth_covers_full_tx = true -> Gen.C07.bth_covers_full_receipt = true ->
    order_ok ord -> NoDup (map fst evs) ->
    elect T keqb hash enc ord sn evs = Some (WTx t (Some st)) ->
    exists r, r_status r = st /\
      (hash_collision \/ enc_collision \/
       exists vals, NoDup vals /\ (forall u, In u vals -> In (u, PTx t (Some r)) evs) /\
                    2 * sn_total sn <= 3 * power sn vals).
  Proof.
    intros ord sn evs t st Hct Hcr Ho Hnd He. unfold elect, elect_with in He.
    destruct evs as [|e0 r0]; [discriminate|]. remember (e0 :: r0) as evs eqn:Hevs. clear Hevs e0 r0.
    destruct (verify_evidence keqb (code_key hash) ord sn (map (to_ev_with T enc (covered T)) evs)) as [w| |] eqn:Hv;
      try discriminate.
    destruct (find (fun vp => fst vp =? ev_val w) evs) as [[v p]|] eqn:Hf; [|discriminate].
    apply find_some in Hf as [Hin Hvw]. simpl in Hvw. apply Z.eqb_eq in Hvw.
    simpl in He. destruct p as [t' r'|m|tg d]; simpl in He; try discriminate.
    inversion He as [[Ht Hr]]. subst t'. destruct r' as [r|]; simpl in Hr; [|discriminate].
    inversion Hr as [Hst]. exists r. split; [reflexivity|].
    destruct (winner_same_key keqb (code_key hash) keqb_spec ord sn _ w Ho Hv) as (Hw & _).
    apply in_map_iff in Hw as (vp' & Hto & Hin').
    assert (Hvp : vp' = (v, PTx t (Some r))).
    { apply (nodup_fst_inj T evs); try assumption. rewrite <- Hto in Hvw. simpl in Hvw. simpl. congruence. }
    subst vp'.
    destruct (winner_two_thirds_identical_code_key keqb hash keqb_spec ord sn _ w Ho Hv) as [Hc|Hq];
      [left; exact Hc|right].
    rewrite map_val_filter_identical in Hq.
    set (same := fun vp => identical w (to_ev_with T enc (covered T) vp)) in *.
    destruct (Forall_Exists_dec (fun vp : val * proof => covered T (snd vp) = covered T (PTx t (Some r)))
                (fun vp => payload_eq_dec _ _) (filter same evs)) as [Hall|Hex].
    - right. exists (map fst (filter same evs)). split; [|split; [|exact Hq]].
      + now apply NoDup_map_filter.
      + intros u Hu. apply in_map_iff in Hu as ([u' q] & Hfst & Hq'). simpl in Hfst. subst u'.
        rewrite Forall_forall in Hall. pose proof (Hall _ Hq') as Hcov. simpl in Hcov.
        apply covered_tx_inj in Hcov; try assumption. subst q.
        apply filter_In in Hq'. tauto.
    - left. apply Exists_exists in Hex as ([u q] & Hq' & Hne). simpl in Hne.
      apply filter_In in Hq' as [_ Hsame]. unfold same, identical in Hsame. rewrite <- Hto in Hsame.
      apply andb_true_iff in Hsame as [_ Hd]. apply Z.eqb_eq in Hd. simpl in Hd.
      exists (covered T q), (covered T (PTx t (Some r))). split; assumption.
  Qed.

  (** nothing stored, or nobody heard: nothing is handed to the attester *)
  Lemma elect_nil : forall ord sn, elect T keqb hash enc ord sn [] = None.
  Proof. reflexivity. Qed.
End Elect.

(* ---------- histories ---------- *)

Section Refined.
  Variables B S V D H T W E : Type.
  Variable kind_of : B -> kind.
  Variable guards : kind -> guard_set.
  Variable fees_present : B -> bool.
  Variable expected_calldata : B -> Z -> Z -> V -> list S -> D.
  Variable expected_deploy : B -> D.
  Variable D_eqb : D -> D -> bool.
  Variable H_eqb : H -> H -> bool.
  Variable tx_hash : T -> H.
  Variable tx_data : T -> D.
  Variable valset_at : W -> Z -> V.
  Variable compass_present : W -> bool.
  Variable apply_effect : E -> msg B S T -> T -> W -> option (W * list B).
  Variable on_error_proof : E -> msg B S T -> W -> W * list B.
  Context {K : Type} (keqb : K -> K -> bool) (hash : Z -> Z -> K).
  Variable enc : payload T -> Z.
  Variable snapshot_of : W -> snapshot.

  Hypothesis H_eqb_refl : forall h, H_eqb h h = true.
  Hypothesis guards_full : forall k, guards k = full_guards.
  Hypothesis T_eq_dec : forall a b : T, {a = b} + {a <> b}.
  Hypothesis keqb_spec : forall a b, keqb a b = true <-> a = b.

  Notation astate := (state B S V H T W).
  Notation astep := (step B S V D H T W E kind_of guards fees_present expected_calldata expected_deploy D_eqb H_eqb
                       tx_hash tx_data valset_at compass_present apply_effect on_error_proof).
  Notation arun_from := (run_from B S V D H T W E kind_of guards fees_present expected_calldata expected_deploy D_eqb H_eqb
                           tx_hash tx_data valset_at compass_present apply_effect on_error_proof).
  Notation arun := (run B S V D H T W E kind_of guards fees_present expected_calldata expected_deploy D_eqb H_eqb
                      tx_hash tx_data valset_at compass_present apply_effect on_error_proof).
  Notation rstate := (@rstate B S V H T W).
  Notation rop := (@rop B S T W E K).
  Notation rstep := (rstep B S V D H T W E kind_of guards fees_present expected_calldata expected_deploy D_eqb H_eqb
                       tx_hash tx_data valset_at compass_present apply_effect on_error_proof keqb hash enc snapshot_of).
  Notation rrun_from := (rrun_from B S V D H T W E kind_of guards fees_present expected_calldata expected_deploy D_eqb H_eqb
                           tx_hash tx_data valset_at compass_present apply_effect on_error_proof keqb hash enc snapshot_of).
  Notation rrun := (rrun B S V D H T W E kind_of guards fees_present expected_calldata expected_deploy D_eqb H_eqb
                      tx_hash tx_data valset_at compass_present apply_effect on_error_proof keqb hash enc snapshot_of).
  Notation flatten := (flatten B S V D H T W E kind_of guards fees_present expected_calldata expected_deploy D_eqb H_eqb
                         tx_hash tx_data valset_at compass_present apply_effect on_error_proof keqb hash enc snapshot_of).
  Notation elected := (elected B S V H T W keqb hash enc snapshot_of).
  Notation rendblock_ids := (rendblock_ids B S V D H T W E kind_of guards fees_present expected_calldata expected_deploy D_eqb H_eqb
                               tx_hash tx_data valset_at compass_present apply_effect on_error_proof keqb hash enc snapshot_of).
  Notation ainv := (inv B S V H T W tx_hash).
  Notation reports_of s id := (get_reports T id (evid s)).

  Definition rinv (s : rstate) : Prop :=
    ainv (abs s) /\ forall id, NoDup (map fst (reports_of s id)).

  (** the Go map's iteration order is some order *)
  Definition rop_ok (o : rop) : Prop :=
    match o with RAttest _ _ ord => order_ok ord | _ => True end.

  Lemma rrun_from_snoc : forall s ops o, rrun_from s (ops ++ [o]) = rstep (rrun_from s ops) o.
  Proof. intros. unfold AttestEvidence.rrun_from. now rewrite fold_left_app. Qed.

  Lemma rinv_init : forall w n, rinv (rinit B S V H T W w n).
  Proof. intros w n. split; [apply inv_init|]. intros id. simpl. constructor. Qed.

  (** what one refined operation does to the effect log *)
  Lemma rstep_spec : forall s o,
    rinv s ->
    rinv (rstep s o) /\
    (effects _ _ _ _ _ _ (abs (rstep s o)) = effects _ _ _ _ _ _ (abs s) \/
     exists e env ord,
       o = RAttest (e_id _ _ _ _ e) env ord /\
       effects _ _ _ _ _ _ (abs (rstep s o)) = effects _ _ _ _ _ _ (abs s) ++ [e] /\
       elected s (e_id _ _ _ _ e) ord = Some (WTx (e_tx _ _ _ _ e) (Some receipt_status_successful))).
  Proof.
    intros s o [Hinv Hnd].
    assert (Hbase : forall b, rinv {| abs := astep (abs s) b; evid := evid s |} /\
              (effects _ _ _ _ _ _ (astep (abs s) b) = effects _ _ _ _ _ _ (abs s) \/
               exists e env, b = OpAttest _ _ _ _ _ (e_id _ _ _ _ e) env /\
                             In (e_msg _ _ _ _ e) (queue _ _ _ _ _ _ (abs s)) /\
                             effects _ _ _ _ _ _ (astep (abs s) b) = effects _ _ _ _ _ _ (abs s) ++ [e] /\
                             accepted_now B S V D H T W kind_of fees_present expected_calldata expected_deploy D_eqb H_eqb
                               tx_hash tx_data valset_at compass_present (abs s) (e_msg _ _ _ _ e) e)).
    { intros b. destruct (step_spec B S V D H T W E kind_of guards fees_present expected_calldata expected_deploy D_eqb H_eqb
                            tx_hash tx_data valset_at compass_present apply_effect on_error_proof H_eqb_refl guards_full (abs s) b Hinv)
        as [Hi He]. split; [split; [exact Hi | exact Hnd] | exact He]. }
    destruct o as [b|id b|id sg|id g|id v|id|f|id v p|id env ord];
      try (cbn [AttestEvidence.rstep base_op];
           match goal with |- context [astep (abs s) ?b] =>
             destruct (Hbase b) as [Hi [He|(e & env & Hb & _)]]; [split; [exact Hi | left; exact He] | discriminate Hb] end).
    - (* AddMessageEvidence *)
      cbn [AttestEvidence.rstep]. destruct (find_msg B S T id (queue _ _ _ _ _ _ (abs s))); [|split; [split; assumption | now left]].
      split; [|now left]. split; [exact Hinv|]. intros id'. cbn [evid].
      destruct (Z.eq_dec id' id) as [->|Hne].
      + rewrite get_set_same. apply add_report_nodup. apply Hnd.
      + rewrite get_set_other by exact Hne. apply Hnd.
    - (* attestRouter *)
      cbn [AttestEvidence.rstep].
      set (w := elected s id ord).
      destruct (step_spec B S V D H T W E kind_of guards fees_present expected_calldata expected_deploy D_eqb H_eqb
                  tx_hash tx_data valset_at compass_present apply_effect on_error_proof H_eqb_refl guards_full (abs s)
                  (OpEvidence _ _ _ _ _ id w) Hinv) as [Hi1 [He1|(e & env' & Hb & _)]]; [|discriminate Hb].
      set (s1 := astep (abs s) (OpEvidence _ _ _ _ _ id w)) in *.
      destruct (step_spec B S V D H T W E kind_of guards fees_present expected_calldata expected_deploy D_eqb H_eqb
                  tx_hash tx_data valset_at compass_present apply_effect on_error_proof H_eqb_refl guards_full s1
                  (OpAttest _ _ _ _ _ id env) Hi1) as [Hi2 [He2|(e & env' & Hb & Hq & He2 & Hacc)]].
      + split; [split; [exact Hi2 | exact Hnd]|]. left. cbn [abs]. now rewrite He2.
      + split; [split; [exact Hi2 | exact Hnd]|]. right. inversion Hb as [[Hid Henv]]. subst env'. subst id.
        exists e, env, ord. split; [reflexivity|]. split; [cbn [abs]; now rewrite He2, He1|].
        (* the message attested is the one whose winner was just filed *)
        destruct Hacc as (_ & Hw & _). rewrite <- Hw. fold w.
        unfold s1 in Hq. simpl in Hq.
        assert (Hupd : forall q, In (e_msg _ _ _ _ e) (update_msg B S T (e_id _ _ _ _ e) (fun m => {| m_id := m_id _ _ _ m; m_body := m_body _ _ _ m;
                         m_gas := m_gas _ _ _ m; m_pad := m_pad _ _ _ m; m_sigs := m_sigs _ _ _ m; m_winner := w |}) q) ->
                       NoDup (ids B S T q) -> m_winner _ _ _ (e_msg _ _ _ _ e) = w).
        { induction q as [|m r IH]; simpl; intros Hi Hn; [contradiction|].
          inversion Hn as [|? ? Hni Hnr]; subst.
          destruct (m_id _ _ _ m =? e_id _ _ _ _ e) eqn:Eid.
          - destruct Hi as [Hi|Hi]; [now rewrite <- Hi|].
            exfalso. apply Hni. apply Z.eqb_eq in Eid. rewrite Eid. unfold ids, e_id. now apply in_map.
          - destruct Hi as [Hi|Hi]; [|now apply IH].
            apply Z.eqb_neq in Eid. exfalso. apply Eid. rewrite Hi. reflexivity. }
        symmetry. apply (Hupd _ Hq). apply (inv_q _ _ _ _ _ _ _ _ Hinv).
  Qed.

  Lemma rrun_inv : forall ops s, rinv s -> rinv (rrun_from s ops).
  Proof.
    induction ops as [|o r IH]; simpl; intros s Hs; [exact Hs|].
    apply IH. now apply rstep_spec.
  Qed.

  (** Refinement: a refined history is a history of Evm/Attest.v in which the elected winner is
      filed right before every attestation — theorems 1-6 of Properties/C07.v speak about it. *)
  Theorem refined_run_is_a_run : forall ops s,
    abs (rrun_from s ops) = arun_from (abs s) (flatten s ops).
  Proof.
    induction ops as [|o r IH]; intros s; [reflexivity|].
    cbn [AttestEvidence.rrun_from fold_left AttestEvidence.flatten]. fold (rrun_from (rstep s o) r).
    rewrite IH. unfold Attest.run_from. rewrite fold_left_app. f_equal.
    destruct o; cbn [AttestEvidence.rstep base_op fold_left abs]; try reflexivity.
    destruct (find_msg B S T id (queue _ _ _ _ _ _ (abs s))); reflexivity.
  Qed.

  (** MAIN: success effects only if 2/3 of the current snapshot reported this transaction with a
      successful receipt.  [rops1] is the history up to the attestation that committed [e];
      the reports are those stored with the message at that moment, the snapshot the current one. *)
  Theorem success_effects_only_if_two_thirds_reported_success : forall w n rops e,
    Gen.C07.bth_covers_full_tx = true -> Gen.C07.bth_covers_full_receipt = true ->
    Forall rop_ok rops ->
    In e (effects _ _ _ _ _ _ (abs (rrun w n rops))) ->
    exists rops1 rops2 env ord r,
      rops = rops1 ++ RAttest (e_id _ _ _ _ e) env ord :: rops2 /\
      r_status r = receipt_status_successful /\
      let s := rrun w n rops1 in
      let evs := reports_of s (e_id _ _ _ _ e) in
      let sn := snapshot_of (world _ _ _ _ _ _ (abs s)) in
      hash_collision hash \/ enc_collision T enc \/
      exists vals, NoDup vals /\
                   (forall u, In u vals -> In (u, PTx (e_tx _ _ _ _ e) (Some r)) evs) /\
                   2 * sn_total sn <= 3 * power sn vals.
  Proof.
    intros w n rops e Hct Hcr. induction rops as [|o r IH] using rev_ind; intros Hok He.
    - simpl in He. contradiction.
    - unfold AttestEvidence.rrun in *. rewrite rrun_from_snoc in He.
      apply Forall_app in Hok as [Hokr Hoko]. inversion Hoko as [|? ? Hoo _]; subst.
      pose proof (rrun_inv r _ (rinv_init w n)) as Hri.
      destruct (rstep_spec _ o Hri) as [_ [Heq|(e' & env & ord & Ho & Heq & Hel)]].
      + rewrite Heq in He. destruct (IH Hokr He) as (o1 & o2 & env & ord & rc & Hops & Hrest).
        exists o1, (o2 ++ [o]), env, ord, rc. split; [|exact Hrest]. rewrite Hops. now rewrite <- app_assoc.
      + rewrite Heq in He. apply in_app_or in He as [He|[He|[]]].
        * destruct (IH Hokr He) as (o1 & o2 & env0 & ord0 & rc & Hops & Hrest).
          exists o1, (o2 ++ [o]), env0, ord0, rc. split; [|exact Hrest]. rewrite Hops. now rewrite <- app_assoc.
        * subst e'. subst o. simpl in Hoo.
          unfold AttestEvidence.elected in Hel.
          destruct (elect_spec T T_eq_dec keqb hash keqb_spec enc ord _ _ _ _ Hct Hcr Hoo (proj2 Hri _) Hel)
            as (rc & Hst & Hq).
          exists r, [], env, ord, rc. split; [reflexivity|]. split; [exact Hst|]. exact Hq.
  Qed.

  (** The other direction (the property's second clause, on the level of the reports): once 2/3 of
      the snapshot stand behind ONE report that is not a transaction proof with a successful receipt
      -- a failed receipt, a proof without receipt, an error proof, another proof type -- no minority
      and no ordering of the reports makes attestRouter commit a success follow-up.  Needs a
      well-formed snapshot (positive total = sum of the non-negative shares): two disjoint sets of
      validators cannot both hold 2/3. *)
  Theorem agreed_failure_report_blocks_success : forall s id env ord vals p,
    Gen.C07.bth_covers_full_tx = true -> Gen.C07.bth_covers_full_receipt = true ->
    rinv s -> order_ok ord ->
    let sn := snapshot_of (world _ _ _ _ _ _ (abs s)) in
    snapshot_ok sn ->
    NoDup vals -> (forall u, In u vals -> In (u, p) (reports_of s id)) ->
    2 * sn_total sn <= 3 * power sn vals ->
    (forall t r, p = PTx t (Some r) -> r_status r <> receipt_status_successful) ->
    hash_collision hash \/ enc_collision T enc \/
    effects _ _ _ _ _ _ (abs (rstep s (RAttest id env ord))) = effects _ _ _ _ _ _ (abs s).
  Proof.
    intros s id env ord vals p Hct Hcr Hri Ho sn (Hpos & Htot & Hnn) Hnd Hrep Hq Hfail.
    destruct (rstep_spec s (RAttest id env ord) Hri) as [_ [Heq|(e & env' & ord' & Hop & _ & Hel)]];
      [right; right; exact Heq|].
    inversion Hop as [[Hid Henv Hord]]. subst env' ord'. rewrite <- Hid in Hel.
    unfold AttestEvidence.elected in Hel.
    destruct (elect_spec T T_eq_dec keqb hash keqb_spec enc ord _ _ _ _ Hct Hcr Ho (proj2 Hri _) Hel)
      as (rc & Hst & [Hc|[Hc|(vals' & Hnd' & Hrep' & Hq')]]); [now left | right; now left |].
    exfalso. fold sn in Hq'.
    assert (Hdisj : forall u, In u vals -> ~ In u vals').
    { intros u Hu Hu'. apply Hrep in Hu. apply Hrep' in Hu'.
      pose proof (nodup_fst_inj T _ _ _ (proj2 Hri id) Hu Hu' eq_refl) as Hpe. inversion Hpe as [Hp].
      exact (Hfail _ _ Hp Hst). }
    assert (Hnd2 : NoDup (vals ++ vals')).
    { clear - Hnd Hnd' Hdisj. induction vals as [|a r IH]; [exact Hnd'|]. simpl. inversion Hnd; subst.
      constructor.
      - intros Hc. apply in_app_or in Hc as [Hc|Hc]; [contradiction|]. exact (Hdisj a (or_introl eq_refl) Hc).
      - apply IH; [assumption|]. intros u Hu. apply Hdisj. now right. }
    pose proof (power_le_total sn _ Hnn Hnd2) as Hle. rewrite power_app in Hle. lia.
  Qed.

  Lemma snoc_split {A} : forall (l a b : list A) o x,
    l ++ [o] = a ++ x :: b -> (b = [] /\ l = a /\ o = x) \/ (exists b', b = b' ++ [o] /\ l = a ++ x :: b').
  Proof.
    intros l a b o x Heq. destruct b as [|z b' _] using rev_ind.
    - left. apply app_inj_tail in Heq as [Hl Ho]. auto.
    - right. exists b'. replace (a ++ x :: b' ++ [z]) with ((a ++ x :: b') ++ [z]) in Heq
        by (rewrite <- app_assoc; reflexivity).
      apply app_inj_tail in Heq as [Hl Ho]. subst. split; reflexivity.
  Qed.

  (** ... and what is stored with a message is, per validator, the LATEST proof that validator
      handed in through AddMessageEvidence for that message while it was queued (a submission for a
      message that is not queued is refused and changes nothing). *)
  Theorem stored_report_is_the_validators_latest : forall w n rops id v p,
    In (v, p) (reports_of (rrun w n rops) id) ->
    exists rops1 rops2,
      rops = rops1 ++ RAddEvidence id v p :: rops2 /\
      (exists m, find_msg B S T id (queue _ _ _ _ _ _ (abs (rrun w n rops1))) = Some m) /\
      (forall p' a b, rops2 = a ++ RAddEvidence id v p' :: b ->
         find_msg B S T id (queue _ _ _ _ _ _ (abs (rrun w n (rops1 ++ RAddEvidence id v p :: a)))) = None).
  Proof.
    intros w n rops id v p. induction rops as [|o r IH] using rev_ind; intros Hin.
    - simpl in Hin. contradiction.
    - unfold AttestEvidence.rrun in *. rewrite rrun_from_snoc in Hin.
      pose proof (rrun_inv r _ (rinv_init w n)) as [_ Hnd].
      assert (Hkeep : In (v, p) (reports_of (rrun_from (rinit B S V H T W w n) r) id) ->
                      (forall p', o = RAddEvidence id v p' ->
                         find_msg B S T id (queue _ _ _ _ _ _ (abs (rrun_from (rinit B S V H T W w n) r))) = None) ->
                      exists rops1 rops2, r ++ [o] = rops1 ++ RAddEvidence id v p :: rops2 /\
                        (exists m, find_msg B S T id (queue _ _ _ _ _ _ (abs (rrun_from (rinit B S V H T W w n) rops1))) = Some m) /\
                        (forall p' a b, rops2 = a ++ RAddEvidence id v p' :: b ->
                           find_msg B S T id (queue _ _ _ _ _ _
                             (abs (rrun_from (rinit B S V H T W w n) (rops1 ++ RAddEvidence id v p :: a)))) = None)).
      { intros Hi Hno. destruct (IH Hi) as (o1 & o2 & Hops & Hm & Hlast).
        exists o1, (o2 ++ [o]). split; [rewrite Hops; now rewrite <- app_assoc|]. split; [exact Hm|].
        intros p' a b Hsp. apply snoc_split in Hsp as [(-> & -> & ->)|(b' & -> & ->)].
        - rewrite <- Hops. now apply (Hno p').
        - now apply (Hlast p' a b'). }
      destruct o as [b|id0 b|id0 sg|id0 g|id0 v0|id0|f|id0 v0 p0|id0 env ord];
        try (cbn [AttestEvidence.rstep base_op evid] in Hin; apply Hkeep; [exact Hin | intros; discriminate]).
      cbn [AttestEvidence.rstep] in Hin.
      destruct (find_msg B S T id0 (queue _ _ _ _ _ _ (abs (rrun_from (rinit B S V H T W w n) r)))) as [m|] eqn:Hf.
      + cbn [evid] in Hin. destruct (Z.eq_dec id id0) as [->|Hne].
        * rewrite get_set_same in Hin. apply in_add_report in Hin as [[-> ->]|[Hne Hin]]; [| |apply Hnd].
          -- exists r, []. split; [reflexivity|]. split; [now exists m|].
             intros p' a b Hc. destruct a; discriminate.
          -- apply Hkeep; [exact Hin|]. intros p' Hc. inversion Hc. congruence.
        * rewrite get_set_other in Hin by exact Hne. apply Hkeep; [exact Hin|]. intros p' Hc. inversion Hc. congruence.
      + apply Hkeep; [exact Hin|]. intros p' Hc. inversion Hc; subst. exact Hf.
  Qed.

  (** the end-blocker loop is the run of the single attestations, on refined states as well *)
  Theorem rendblock_is_a_run_of_attests : forall l s env ord,
    rendblock_ids s l env ord = rrun_from s (map (fun i => RAttest i (env i) (ord i)) l).
  Proof.
    induction l as [|id r IH]; intros s env ord; [reflexivity|].
    cbn [AttestEvidence.rendblock_ids map]. unfold AttestEvidence.rrun_from in *. cbn [fold_left]. apply IH.
  Qed.
End Refined.
