(** C07 — proofs about the attestation model of Evm/Attest.v, for every operation history.
    The only facts used about the Section variables: [D_eqb a b = true -> a = b] (bytes.Equal is
    sound) and [H_eqb h h = true] (a store key equals itself).  Nothing is assumed about the
    packing of the expected call, the transaction hash (collisions allowed: two transactions with
    the same hash are one transaction to the processed set, which only makes it refuse more), the
    snapshot lookup or the actions' follow-ups. *)
From Coq Require Import List ZArith Bool Lia PeanoNat.
From Paloma Require Import Evm.Attest.
Import ListNotations.
Open Scope Z_scope.

Lemma NoDup_app_snoc {A} : forall (l : list A) x, NoDup l -> ~ In x l -> NoDup (l ++ [x]).
Proof.
  induction l as [|y r IH]; simpl; intros x Hn Hx.
  - constructor; [intros []|constructor].
  - inversion Hn as [|? ? Hy Hr]; subst. constructor.
    + intros Hc. apply in_app_or in Hc as [Hc|[Hc|[]]]; [contradiction|]. subst. apply Hx. now left.
    + apply IH; [exact Hr|]. intros Hc. apply Hx. now right.
Qed.

Section Proofs.
  Variables B S V D H T W E : Type.
  Variable kind_of : B -> kind.
  Variable guards : kind -> guard_set.
  Variable fees_present : B -> bool.
  Variable expected_calldata : B -> Z -> Z -> V -> list S -> D.
  Variable expected_deploy : B -> D.
  Variable D_eqb : D -> D -> bool.
  Variable H_eqb : H -> H -> bool.
  Variable tx_hash : T -> H.
  Variable tx_data : T -> D.
  Variable valset_at : W -> Z -> V.
  Variable compass_present : W -> bool.
  Variable apply_effect : E -> msg B S T -> T -> W -> option (W * list B).
  Variable on_error_proof : E -> msg B S T -> W -> W * list B.

  Hypothesis D_eqb_true : forall a b, D_eqb a b = true -> a = b.
  Hypothesis H_eqb_refl : forall h, H_eqb h h = true.
  (** every action type's attester runs all three guards (discharged in Properties/C07.v from
      the guard lists extracted per attester: Evm/AttestSym.v [code_guards_full]) *)
  Hypothesis guards_full : forall k, guards k = full_guards.

  Notation msg := (msg B S T).
  Notation state := (state B S V H T W).
  Notation effect := (effect B S V T).
  Notation op := (op B S T W E).
  Notation verify := (verify B S V D T kind_of fees_present expected_calldata expected_deploy D_eqb).
  Notation match_prefix := (match_prefix S D D_eqb).
  Notation attest_msg := (attest_msg B S V D H T W E kind_of guards fees_present expected_calldata expected_deploy D_eqb H_eqb
                            tx_hash tx_data valset_at compass_present apply_effect on_error_proof).
  Notation attest := (attest B S V D H T W E kind_of guards fees_present expected_calldata expected_deploy D_eqb H_eqb
                        tx_hash tx_data valset_at compass_present apply_effect on_error_proof).
  Notation step := (step B S V D H T W E kind_of guards fees_present expected_calldata expected_deploy D_eqb H_eqb
                      tx_hash tx_data valset_at compass_present apply_effect on_error_proof).
  Notation run_from := (run_from B S V D H T W E kind_of guards fees_present expected_calldata expected_deploy D_eqb H_eqb
                          tx_hash tx_data valset_at compass_present apply_effect on_error_proof).
  Notation run := (run B S V D H T W E kind_of guards fees_present expected_calldata expected_deploy D_eqb H_eqb
                     tx_hash tx_data valset_at compass_present apply_effect on_error_proof).
  Notation endblock_ids := (endblock_ids B S V D H T W E kind_of guards fees_present expected_calldata expected_deploy D_eqb H_eqb
                              tx_hash tx_data valset_at compass_present apply_effect on_error_proof).
  Notation endblock := (endblock B S V D H T W E kind_of guards fees_present expected_calldata expected_deploy D_eqb H_eqb
                          tx_hash tx_data valset_at compass_present apply_effect on_error_proof).
  Notation mem_hash := (mem_hash H H_eqb).
  Notation find_msg := (find_msg B S T).
  Notation remove_msg := (remove_msg B S T).
  Notation update_msg := (update_msg B S T).
  Notation enqueue_all := (enqueue_all B S T).
  Notation new_msg := (new_msg B S T).
  Notation drop_older := (drop_older_valset_updates B S T kind_of).

  Definition ids (q : list msg) : list Z := map (@m_id B S T) q.
  Definition e_id (e : effect) : Z := m_id _ _ _ (e_msg _ _ _ _ e).
  Definition e_hash (e : effect) : H := tx_hash (e_tx _ _ _ _ e).

  (* ---------- VerifyAgainstTX ---------- *)

  Lemma match_prefix_sound : forall f d sigs i j,
    match_prefix f d sigs i = Some j -> (0 < j <= i)%nat /\ d = f (firstn j sigs).
  Proof.
    induction i as [|i IH]; intros j Hm; [discriminate|].
    change (match_prefix f d sigs (Datatypes.S i))
      with (if D_eqb d (f (firstn (Datatypes.S i) sigs)) then Some (Datatypes.S i) else match_prefix f d sigs i) in Hm.
    destruct (D_eqb d (f (firstn (Datatypes.S i) sigs))) eqn:Eq.
    - inversion Hm; subst. split; [split; [apply Nat.lt_0_succ | apply le_n] | now apply D_eqb_true].
    - apply IH in Hm as [[Hj1 Hj2] Hd]. split; [split; [exact Hj1 | now apply le_S] | exact Hd].
  Qed.

  (** what a positive verdict of VerifyAgainstTX means *)
  Definition matches_message (m : msg) (vs : V) (d : D) (i : nat) : Prop :=
    match kind_of (m_body _ _ _ m) with
    | KUploadCompass => i = O /\ d = expected_deploy (m_body _ _ _ m)
    | _ => (0 < i <= length (m_sigs _ _ _ m))%nat /\
           d = expected_calldata (m_body _ _ _ m) (m_id _ _ _ m) (m_gas _ _ _ m) vs (firstn i (m_sigs _ _ _ m))
    end.

  Lemma verify_sound : forall m vs d i, verify m vs d = Some i -> matches_message m vs d i.
  Proof.
    intros m vs d i. unfold Attest.verify, matches_message.
    destruct (kind_of (m_body _ _ _ m)).
    - destruct (D_eqb d (expected_deploy (m_body _ _ _ m))) eqn:Eq; [|discriminate].
      intros Hs; inversion Hs; split; [reflexivity | now apply D_eqb_true].
    - destruct (fees_present (m_body _ _ _ m)); [apply match_prefix_sound | discriminate].
    - apply match_prefix_sound.
    - destruct (fees_present (m_body _ _ _ m)); [apply match_prefix_sound | discriminate].
    - apply match_prefix_sound.
  Qed.

  (** a message whose fees were never set matches no transaction *)
  Lemma no_fees_never_verified : forall m vs d,
    (kind_of (m_body _ _ _ m) = KSubmitLogicCall \/ kind_of (m_body _ _ _ m) = KUploadUser) ->
    fees_present (m_body _ _ _ m) = false -> verify m vs d = None.
  Proof.
    intros m vs d Hk Hf. unfold Attest.verify. rewrite Hf. destruct Hk as [Hk|Hk]; now rewrite Hk.
  Qed.

  (** no signatures, no compass call is ever accepted *)
  Lemma no_signatures_never_verified : forall m vs d,
    kind_of (m_body _ _ _ m) <> KUploadCompass -> m_sigs _ _ _ m = [] -> verify m vs d = None.
  Proof.
    intros m vs d Hk Hs. unfold Attest.verify. rewrite Hs.
    destruct (kind_of (m_body _ _ _ m)); try reflexivity; try (now elim Hk);
      now destruct (fees_present (m_body _ _ _ m)).
  Qed.

  (* ---------- queue helpers ---------- *)

  Lemma find_msg_In : forall id q m, find_msg id q = Some m -> In m q /\ m_id _ _ _ m = id.
  Proof.
    induction q as [|x r IH]; simpl; intros m Hf; [discriminate|].
    destruct (m_id _ _ _ x =? id) eqn:Eq.
    - inversion Hf; subst. split; [now left | now apply Z.eqb_eq].
    - apply IH in Hf as [Hi He]. split; [now right | exact He].
  Qed.

  Lemma ids_update : forall id f q, (forall m, m_id _ _ _ (f m) = m_id _ _ _ m) -> ids (update_msg id f q) = ids q.
  Proof.
    intros id f q Hf. induction q as [|x r IH]; simpl; [reflexivity|].
    destruct (m_id _ _ _ x =? id); simpl; [now rewrite Hf | now rewrite IH].
  Qed.

  Lemma ids_filter_sub : forall p q i, In i (ids (filter p q)) -> In i (ids q).
  Proof.
    intros p q i. unfold ids. rewrite !in_map_iff. intros [m [Hm Hi]].
    apply filter_In in Hi as [Hi _]. now exists m.
  Qed.

  Lemma nodup_ids_filter : forall p q, NoDup (ids q) -> NoDup (ids (filter p q)).
  Proof.
    intros p q. induction q as [|x r IH]; simpl; intros Hn; [constructor|].
    inversion Hn as [|? ? Hx Hr]; subst.
    destruct (p x); simpl; [|now apply IH].
    constructor; [|now apply IH]. intros Hc. apply Hx. now apply ids_filter_sub in Hc.
  Qed.

  Lemma ids_remove_not_in : forall id q, ~ In id (ids (remove_msg id q)).
  Proof.
    intros id q. unfold ids, Attest.remove_msg. rewrite in_map_iff. intros [m [Hm Hi]].
    apply filter_In in Hi as [_ Hi]. apply negb_true_iff in Hi. apply Z.eqb_neq in Hi. contradiction.
  Qed.

  Definition q_ok (q : list msg) (n : Z) : Prop := NoDup (ids q) /\ forall i, In i (ids q) -> i < n.

  Lemma enqueue_all_ok : forall bs q n q' n',
    enqueue_all bs q n = (q', n') -> q_ok q n ->
    q_ok q' n' /\ n <= n' /\ forall i, In i (ids q') -> In i (ids q) \/ n <= i.
  Proof.
    induction bs as [|b r IH]; simpl; intros q n q' n' He [Hn Hl].
    - inversion He; subst. split; [now split|]. split; [lia | now left].
    - apply IH in He.
      + destruct He as [Hok [Hle Hsub]]. split; [exact Hok|]. split; [lia|].
        intros i Hi. apply Hsub in Hi as [Hi|Hi]; [|right; lia].
        unfold ids in Hi. rewrite map_app in Hi. apply in_app_or in Hi as [Hi|Hi]; [now left|].
        simpl in Hi. destruct Hi as [Hi|[]]. right; lia.
      + split.
        * unfold ids. rewrite map_app. simpl.
          apply NoDup_app_snoc; [exact Hn|]. intros Hc. apply Hl in Hc. lia.
        * intros i Hi. unfold ids in Hi. rewrite map_app in Hi. apply in_app_or in Hi as [Hi|Hi].
          -- apply Hl in Hi. lia.
          -- simpl in Hi. destruct Hi as [Hi|[]]. lia.
  Qed.

  Lemma mem_hash_false_not_in : forall h l, mem_hash h l = false -> ~ In h l.
  Proof.
    induction l as [|x r IH]; simpl; intros Hm Hi; [exact Hi|].
    apply orb_false_iff in Hm as [Hx Hr]. destruct Hi as [Hi|Hi].
    - subst. rewrite H_eqb_refl in Hx. discriminate.
    - now apply IH.
  Qed.

  (* ---------- the invariant ---------- *)

  Record inv (s : state) : Prop := {
    inv_q : q_ok (queue _ _ _ _ _ _ s) (next_id _ _ _ _ _ _ s);
    inv_e_proc : forall e, In e (effects _ _ _ _ _ _ s) -> In (e_hash e) (processed _ _ _ _ _ _ s);
    inv_e_txnodup : NoDup (map e_hash (effects _ _ _ _ _ _ s));
    inv_e_lt : forall e, In e (effects _ _ _ _ _ _ s) -> e_id e < next_id _ _ _ _ _ _ s;
    inv_e_notq : forall e, In e (effects _ _ _ _ _ _ s) -> ~ In (e_id e) (ids (queue _ _ _ _ _ _ s));
    inv_e_idnodup : NoDup (map e_id (effects _ _ _ _ _ _ s))
  }.

  Lemma inv_init : forall w n, inv (init B S V H T W w n).
  Proof.
    intros w n. constructor; simpl; try (intros e []); try constructor.
    - constructor.
    - intros i [].
  Qed.

  (** queue-only changes that keep the set of ids inside the old one *)
  Lemma inv_with_queue : forall s q,
    inv s -> NoDup (ids q) -> (forall i, In i (ids q) -> In i (ids (queue _ _ _ _ _ _ s))) ->
    inv (with_queue B S V H T W s q).
  Proof.
    intros s q [[Hn Hl] Hp Ht Hlt Hnq Hid] Hnq' Hsub. constructor; simpl; try assumption.
    - split; [exact Hnq'|]. intros i Hi. apply Hl. now apply Hsub.
    - intros e He Hc. apply (Hnq e He). now apply Hsub.
  Qed.

  Lemma commit_inv : forall s m q n p ef wd rl,
    inv s -> In m (queue _ _ _ _ _ _ s) ->
    q_ok q n -> next_id _ _ _ _ _ _ s <= n ->
    (forall i, In i (ids q) -> In i (ids (queue _ _ _ _ _ _ s)) \/ next_id _ _ _ _ _ _ s <= i) ->
    incl (processed _ _ _ _ _ _ s) p ->
    (ef = effects _ _ _ _ _ _ s \/
     exists e, ef = effects _ _ _ _ _ _ s ++ [e] /\ e_msg _ _ _ _ e = m /\
               ~ In (e_hash e) (processed _ _ _ _ _ _ s) /\ In (e_hash e) p) ->
    inv {| queue := remove_msg (m_id _ _ _ m) q; next_id := n; processed := p; effects := ef;
           world := wd; relay_log := rl |}.
  Proof.
    intros s m q n p ef wd rl [[Hn Hl] Hp Ht Hlt Hnq Hid] Hm [Hqn Hql] Hle Hsub Hincl Hef.
    assert (Hmid : In (m_id _ _ _ m) (ids (queue _ _ _ _ _ _ s))) by (unfold ids; now apply in_map).
    assert (Hold : forall e, In e (effects _ _ _ _ _ _ s) ->
                     ~ In (e_id e) (ids (remove_msg (m_id _ _ _ m) q))).
    { intros e He Hc. apply ids_filter_sub in Hc. apply Hsub in Hc as [Hc|Hc].
      - now apply (Hnq e He).
      - specialize (Hlt e He). lia. }
    destruct Hef as [Hef|[e [Hef [Hem [Hfresh Hin]]]]]; subst ef.
    - constructor; simpl; try assumption.
      + split; [now apply nodup_ids_filter|]. intros i Hi. apply Hql. now apply ids_filter_sub in Hi.
      + intros e He. apply Hincl. now apply Hp.
      + intros e He. specialize (Hlt e He). lia.
    - constructor; simpl.
      + split; [now apply nodup_ids_filter|]. intros i Hi. apply Hql. now apply ids_filter_sub in Hi.
      + intros e' He'. apply in_app_or in He' as [He'|[He'|[]]]; [apply Hincl; now apply Hp | now subst].
      + rewrite map_app. simpl. apply NoDup_app_snoc; [exact Ht|].
        intros Hc. apply in_map_iff in Hc as [e' [Heq He']]. apply Hfresh. rewrite <- Heq. now apply Hp.
      + intros e' He'. apply in_app_or in He' as [He'|[He'|[]]].
        * specialize (Hlt e' He'). lia.
        * subst e'. unfold e_id. rewrite Hem. specialize (Hl _ Hmid). lia.
      + intros e' He'. apply in_app_or in He' as [He'|[He'|[]]]; [now apply Hold|].
        subst e'. unfold e_id. rewrite Hem. apply ids_remove_not_in.
      + rewrite map_app. simpl. apply NoDup_app_snoc; [exact Hid|].
        intros Hc. apply in_map_iff in Hc as [e' [Heq He']]. apply (Hnq e' He').
        rewrite Heq. unfold e_id. now rewrite Hem.
  Qed.

  Lemma q_ok_drop_older : forall id q n, q_ok q n -> q_ok (drop_older id q) n.
  Proof.
    intros id q n [Hn Hl]. split; [now apply nodup_ids_filter|].
    intros i Hi. apply Hl. now apply ids_filter_sub in Hi.
  Qed.

  (** what one attestation can do to the effect log *)
  Definition accepted_now (s : state) (m : msg) (e : effect) : Prop :=
    e_msg _ _ _ _ e = m /\
    m_winner _ _ _ m = Some (WTx (e_tx _ _ _ _ e) (Some receipt_status_successful)) /\
    mem_hash (e_hash e) (processed _ _ _ _ _ _ s) = false /\
    compass_present (world _ _ _ _ _ _ s) = true /\
    e_vs _ _ _ _ e = valset_at (world _ _ _ _ _ _ s) (m_vsid _ _ _ m) /\
    verify m (e_vs _ _ _ _ e) (tx_data (e_tx _ _ _ _ e)) = Some (e_prefix _ _ _ _ e).

  Lemma attest_msg_spec : forall s m env,
    inv s -> In m (queue _ _ _ _ _ _ s) ->
    let s' := fst (attest_msg s m env) in
    inv s' /\
    (effects _ _ _ _ _ _ s' = effects _ _ _ _ _ _ s \/
     exists e, effects _ _ _ _ _ _ s' = effects _ _ _ _ _ _ s ++ [e] /\ accepted_now s m e) /\
    (forall t rc, m_winner _ _ _ m = Some (WTx t rc) ->
       effects _ _ _ _ _ _ s' = effects _ _ _ _ _ _ s ->
       world _ _ _ _ _ _ s' = world _ _ _ _ _ _ s /\ next_id _ _ _ _ _ _ s' = next_id _ _ _ _ _ _ s /\
       (queue _ _ _ _ _ _ s' = queue _ _ _ _ _ _ s \/
        queue _ _ _ _ _ _ s' = remove_msg (m_id _ _ _ m) (queue _ _ _ _ _ _ s))).
  Proof.
    intros s m env Hinv Hm. unfold Attest.attest_msg. rewrite guards_full. cbn [g_processed g_compass g_verify full_guards andb].
    pose proof (inv_q _ Hinv) as Hq.
    assert (Hself : forall i, In i (ids (queue _ _ _ _ _ _ s)) ->
              In i (ids (queue _ _ _ _ _ _ s)) \/ next_id _ _ _ _ _ _ s <= i) by (intros; now left).
    destruct (m_winner _ _ _ m) as [w|] eqn:Hw; [|simpl; split; [exact Hinv|split; [now left|intros; discriminate]]].
    destruct w as [t receipt| |].
    - (* transaction proof *)
      destruct receipt as [st|]; [|simpl; split; [exact Hinv|split; [now left|intros; repeat split; now left]]].
      destruct (negb (st =? receipt_status_successful)) eqn:Hst.
      + simpl. split; [|split; [now left|intros; repeat split; now right]].
        eapply commit_inv; eauto; try lia. intros h Hh. now right.
      + apply negb_false_iff in Hst. apply Z.eqb_eq in Hst. subst st.
        destruct (mem_hash (tx_hash t) (processed _ _ _ _ _ _ s)) eqn:Hmem;
          [simpl; split; [exact Hinv|split; [now left|intros; repeat split; now left]]|].
        destruct (negb (compass_present (world _ _ _ _ _ _ s))) eqn:Hcp;
          [simpl; split; [exact Hinv|split; [now left|intros; repeat split; now left]]|].
        apply negb_false_iff in Hcp.
        destruct (verify m (valset_at (world _ _ _ _ _ _ s) (m_vsid _ _ _ m)) (tx_data t)) as [i|] eqn:Hv.
        * destruct (apply_effect env m t (world _ _ _ _ _ _ s)) as [[wd bs]|] eqn:Hap;
            [|simpl; split; [exact Hinv|split; [now left|intros; repeat split; now left]]].
          set (q0 := match kind_of (m_body _ _ _ m) with
                     | KUpdateValset => drop_older (m_id _ _ _ m) (queue _ _ _ _ _ _ s)
                     | _ => queue _ _ _ _ _ _ s end).
          assert (Hq0 : q_ok q0 (next_id _ _ _ _ _ _ s)).
          { unfold q0. destruct (kind_of (m_body _ _ _ m)); try exact Hq. now apply q_ok_drop_older. }
          assert (Hq0s : forall j, In j (ids q0) -> In j (ids (queue _ _ _ _ _ _ s))).
          { unfold q0. destruct (kind_of (m_body _ _ _ m)); try (intros; assumption).
            intros j Hj. now apply ids_filter_sub in Hj. }
          destruct (enqueue_all bs q0 (next_id _ _ _ _ _ _ s)) as [q n] eqn:Hen.
          apply enqueue_all_ok in Hen as [Hok [Hle Hsub]]; [|exact Hq0].
          simpl. set (e := {| e_msg := m; e_tx := t; e_prefix := i;
                              e_vs := valset_at (world _ _ _ _ _ _ s) (m_vsid _ _ _ m) |}).
          split; [|split].
          -- eapply commit_inv; eauto.
             ++ intros j Hj. apply Hsub in Hj as [Hj|Hj]; [left; now apply Hq0s | now right].
             ++ intros h Hh. now right.
             ++ right. exists e. split; [reflexivity|]. split; [reflexivity|].
                split; [now apply mem_hash_false_not_in | now left].
          -- right. exists e. split; [reflexivity|]. repeat split; try assumption.
          -- intros t' rc' _ Heq. exfalso.
             assert (Hlen : length (effects _ _ _ _ _ _ s ++ [e]) = length (effects _ _ _ _ _ _ s)) by now rewrite Heq.
             rewrite app_length in Hlen. simpl in Hlen. lia.
        * simpl. split; [|split; [now left|intros; repeat split; now right]].
          eapply commit_inv; eauto; try lia. intros h Hh. now right.
    - (* error proof *)
      destruct (on_error_proof env m (world _ _ _ _ _ _ s)) as [wd bs] eqn:Hoe.
      destruct (enqueue_all bs (queue _ _ _ _ _ _ s) (next_id _ _ _ _ _ _ s)) as [q n] eqn:Hen.
      apply enqueue_all_ok in Hen as [Hok [Hle Hsub]]; [|exact Hq].
      simpl. split; [|split; [now left|intros; discriminate]].
      eapply commit_inv; eauto. intros h Hh. exact Hh.
    - simpl. split; [exact Hinv|split; [now left|intros; discriminate]].
  Qed.

  (* ---------- one operation ---------- *)

  Lemma inv_update : forall s id f,
    inv s -> (forall m, m_id _ _ _ (f m) = m_id _ _ _ m) ->
    inv (with_queue B S V H T W s (update_msg id f (queue _ _ _ _ _ _ s))).
  Proof.
    intros s id f Hinv Hf. apply inv_with_queue; [exact Hinv| |]; rewrite ids_update by exact Hf.
    - apply (inv_q _ Hinv).
    - intros; assumption.
  Qed.

  Lemma step_spec : forall s o,
    inv s ->
    inv (step s o) /\
    (effects _ _ _ _ _ _ (step s o) = effects _ _ _ _ _ _ s \/
     exists e env, o = OpAttest _ _ _ _ _ (e_id e) env /\ In (e_msg _ _ _ _ e) (queue _ _ _ _ _ _ s) /\
                   effects _ _ _ _ _ _ (step s o) = effects _ _ _ _ _ _ s ++ [e] /\
                   accepted_now s (e_msg _ _ _ _ e) e).
  Proof.
    intros s o Hinv. destruct o as [b|id b|id sg|id g|id v|id w|id|f|id env]; simpl;
      try (split; [apply inv_update; [exact Hinv | reflexivity] | now left]).
    - (* enqueue *)
      split; [|now left]. destruct Hinv as [[Hn Hl] Hp Ht Hlt Hnq Hid]. constructor; simpl; try assumption.
      + split.
        * unfold ids. rewrite map_app. simpl. apply NoDup_app_snoc; [exact Hn|].
          intros Hc. apply Hl in Hc. lia.
        * intros i Hi. unfold ids in Hi. rewrite map_app in Hi. apply in_app_or in Hi as [Hi|[Hi|[]]].
          -- apply Hl in Hi. lia.
          -- simpl in Hi. lia.
      + intros e He. specialize (Hlt e He). lia.
      + intros e He Hc. unfold ids in Hc. rewrite map_app in Hc. apply in_app_or in Hc as [Hc|[Hc|[]]].
        * now apply (Hnq e He).
        * simpl in Hc. specialize (Hlt e He). lia.
    - (* remove *)
      split; [|now left]. apply inv_with_queue; [exact Hinv| |].
      + apply nodup_ids_filter. apply (inv_q _ Hinv).
      + intros i Hi. now apply ids_filter_sub in Hi.
    - (* world *)
      split; [|now left]. destruct Hinv as [Hq Hp Ht Hlt Hnq Hid]. constructor; simpl; assumption.
    - (* attest *)
      unfold Attest.attest. destruct (find_msg id (queue _ _ _ _ _ _ s)) as [m|] eqn:Hf;
        [|simpl; split; [exact Hinv | now left]].
      apply find_msg_In in Hf as [Hm Hid].
      destruct (attest_msg_spec s m env Hinv Hm) as [Hi [[He|[e [He Hacc]]] _]].
      + split; [exact Hi | now left].
      + split; [exact Hi|]. right. exists e, env.
        destruct Hacc as [Hem Hrest]. subst m. subst id. unfold e_id.
        split; [reflexivity|]. split; [exact Hm|]. split; [exact He|]. split; [reflexivity | exact Hrest].
  Qed.

  (* ---------- histories ---------- *)

  Lemma run_from_snoc : forall s ops o, run_from s (ops ++ [o]) = step (run_from s ops) o.
  Proof. intros. unfold Attest.run_from. now rewrite fold_left_app. Qed.

  Lemma run_inv : forall ops s, inv s -> inv (run_from s ops).
  Proof.
    induction ops as [|o r IH]; simpl; intros s Hs; [exact Hs|].
    apply IH. now apply step_spec.
  Qed.

  (** The same remote transaction is never accepted twice: the hashes of the accepted
      transactions are pairwise distinct (hence so are the transactions). *)
  Theorem tx_used_at_most_once : forall w n ops,
    NoDup (map e_hash (effects _ _ _ _ _ _ (run w n ops))).
  Proof. intros. apply inv_e_txnodup. apply run_inv. apply inv_init. Qed.

  (** Each message's success follow-up is applied at most once. *)
  Theorem effects_at_most_once : forall w n ops,
    NoDup (map e_id (effects _ _ _ _ _ _ (run w n ops))).
  Proof. intros. apply inv_e_idnodup. apply run_inv. apply inv_init. Qed.

  (** an accepted message has left the queue for good, and its id is never issued again *)
  Theorem accepted_message_is_gone : forall w n ops e,
    In e (effects _ _ _ _ _ _ (run w n ops)) ->
    ~ In (e_id e) (ids (queue _ _ _ _ _ _ (run w n ops))) /\ e_id e < next_id _ _ _ _ _ _ (run w n ops).
  Proof.
    intros w n ops e He. pose proof (run_inv ops _ (inv_init w n)) as Hi.
    split; [now apply (inv_e_notq _ Hi) | now apply (inv_e_lt _ Hi)].
  Qed.

  (** every accepted transaction stays in the processed set *)
  Theorem accepted_tx_is_marked : forall w n ops e,
    In e (effects _ _ _ _ _ _ (run w n ops)) -> In (e_hash e) (processed _ _ _ _ _ _ (run w n ops)).
  Proof. intros w n ops e He. apply (inv_e_proc _ (run_inv ops _ (inv_init w n))). exact He. Qed.

  (** Success follow-ups only for the queued message's own call and a successful receipt. *)
  Theorem success_effects_only_if_calldata_matches_and_receipt_ok : forall w n ops e,
    In e (effects _ _ _ _ _ _ (run w n ops)) ->
    exists ops1 ops2 env,
      ops = ops1 ++ OpAttest _ _ _ _ _ (e_id e) env :: ops2 /\
      let s := run w n ops1 in
      In (e_msg _ _ _ _ e) (queue _ _ _ _ _ _ s) /\
      m_winner _ _ _ (e_msg _ _ _ _ e) = Some (WTx (e_tx _ _ _ _ e) (Some receipt_status_successful)) /\
      ~ In (e_hash e) (processed _ _ _ _ _ _ s) /\
      e_vs _ _ _ _ e = valset_at (world _ _ _ _ _ _ s) (m_vsid _ _ _ (e_msg _ _ _ _ e)) /\
      matches_message (e_msg _ _ _ _ e) (e_vs _ _ _ _ e) (tx_data (e_tx _ _ _ _ e)) (e_prefix _ _ _ _ e).
  Proof.
    intros w n ops. induction ops as [|o r IH] using rev_ind; intros e He.
    - simpl in He. contradiction.
    - unfold Attest.run in *. rewrite run_from_snoc in He.
      destruct (step_spec (run_from (init B S V H T W w n) r) o (run_inv r _ (inv_init w n)))
        as [_ [Heq|[e' [env [Ho [Hq [Heq Hacc]]]]]]].
      + rewrite Heq in He. destruct (IH e He) as [o1 [o2 [env [Hops Hrest]]]].
        exists o1, (o2 ++ [o]), env. split; [|exact Hrest]. rewrite Hops. now rewrite <- app_assoc.
      + rewrite Heq in He. apply in_app_or in He as [He|[He|[]]].
        * destruct (IH e He) as [o1 [o2 [env0 [Hops Hrest]]]].
          exists o1, (o2 ++ [o]), env0. split; [|exact Hrest]. rewrite Hops. now rewrite <- app_assoc.
        * subst e'. exists r, [], env. split; [now rewrite Ho|].
          destruct Hacc as [_ [Hw [Hmem [_ [Hvs Hv]]]]]. simpl.
          split; [exact Hq|]. split; [exact Hw|]. split; [now apply mem_hash_false_not_in|].
          split; [exact Hvs|]. now apply verify_sound.
  Qed.

  (** A transaction proof that is not accepted (other call data, failed receipt, transaction used
      before, follow-up failed) changes nothing but bookkeeping: the other stores and the id counter
      stay as they were, and the queue at most loses that one message. *)
  Theorem rejected_tx_changes_only_bookkeeping : forall s id env m t rc,
    inv s -> find_msg id (queue _ _ _ _ _ _ s) = Some m -> m_winner _ _ _ m = Some (WTx t rc) ->
    let s' := step s (OpAttest _ _ _ _ _ id env) in
    effects _ _ _ _ _ _ s' = effects _ _ _ _ _ _ s ->
    world _ _ _ _ _ _ s' = world _ _ _ _ _ _ s /\ next_id _ _ _ _ _ _ s' = next_id _ _ _ _ _ _ s /\
    (queue _ _ _ _ _ _ s' = queue _ _ _ _ _ _ s \/ queue _ _ _ _ _ _ s' = remove_msg id (queue _ _ _ _ _ _ s)).
  Proof.
    intros s id env m t rc Hinv Hf Hw. simpl. unfold Attest.attest. rewrite Hf.
    apply find_msg_In in Hf as [Hm Hid]. subst id.
    destruct (attest_msg_spec s m env Hinv Hm) as [_ [_ Hrej]]. exact (Hrej t rc Hw).
  Qed.

  (** The consensus end-blocker loop is exactly the run of the single attestations of the
      messages it read at its start, in order (so every theorem about histories covers it). *)
  Theorem endblock_is_a_run_of_attests : forall l s env,
    endblock_ids s l env = run_from s (map (fun i => OpAttest _ _ _ _ _ i (env i)) l).
  Proof.
    induction l as [|id r IH]; intros s env; [reflexivity|].
    cbn [Attest.endblock_ids map]. unfold Attest.run_from in *. cbn [fold_left]. apply IH.
  Qed.

End Proofs.
