(** C10 — proofs about the compass projection model (Evm/Compass.v). *)
From Coq Require Import String.
From Coq Require Import List ZArith Bool Lia Permutation Sorted.
From Paloma Require Import Base.Num Valset.Snapshot Valset.SnapshotProofs Evm.Compass.
From Paloma Require Gen.C10.
Import ListNotations.
Open Scope Z_scope.

Definition two32 : Z := 4294967296.

(** * What the translator read from the source (the model's shape assumptions) *)

Lemma max_power_eq : max_power = two32. Proof. reflexivity. Qed.
Lemma stops_at_first : Gen.C10.account_match_stops_at_first = true. Proof. reflexivity. Qed.

Lemma source_shape :
  Gen.C10.power_uses_float = false /\
  Gen.C10.power_is_integer_mul_quo = true /\
  Gen.C10.account_match_stops_at_first = true /\
  Gen.C10.quorum_comparison = "sum >= thresholdForConsensus"%string /\
  Gen.C10.sort_comparator = "validators[i].ShareCount.GTE(validators[j].ShareCount)"%string /\
  Gen.C10.account_match =
    "strings.ToLower(ext.GetChainType()) == xchainType && ext.GetChainReferenceID() == chainReferenceID"%string /\
  Gen.C10.eligibility_conjuncts =
    ["val.IsBonded()"; "!val.IsJailed()"; "k.ValidatorSupportsAllChains(ctx, bz)"]%string /\
  Gen.C10.share_source = "val.GetBondedTokens()"%string /\
  Gen.C10.total_update = "snapshot.TotalShares.Add(val.GetBondedTokens())"%string /\
  Gen.C10.snapshot_store_writers = ["SaveModifiedSnapshot"; "SetSnapshotOnChain"; "setSnapshotAsCurrent"]%string /\
  Gen.C10.snapshot_id_allocators = ["setSnapshotAsCurrent"]%string /\
  Gen.C10.set_on_chain_mutations = ["snapshot.Chains = append(snapshot.Chains, chainReferenceID)"]%string.
Proof. repeat split; reflexivity. Qed.

(** How chain reference ids and chain types are compared (round 2): MissingChains keys its set by the
    input id as given and looks the chain's id up as stored; it skips inactive chains; it calls nothing
    that could rewrite a string; ValidatorSupportsAllChains feeds it the accounts' reference ids and
    accepts only an empty result; the chain type is lower-cased and compared with "evm".
    SaveModifiedSnapshot has no caller outside tests; the other writers are called from where the
    history model says. *)
Lemma source_ids_shape :
  Gen.C10.missing_chains_set_build =
    ["range inputChainReferenceIDs -> chainReferenceID"; "supportedChainMap[chainReferenceID] = true"]%string /\
  Gen.C10.missing_chains_walk =
    ["range allChains -> chain";
     "chainReferenceID := chain.GetChainReferenceID()";
     "if !chain.IsActive() { continue }";
     "if _, found := supportedChainMap[chainReferenceID]; !found { unsuportedChainReferenceIDs = append(unsuportedChainReferenceIDs, chainReferenceID) }"]%string /\
  Gen.C10.missing_chains_calls =
    ["append"; "chain.GetChainReferenceID"; "chain.IsActive"; "k.GetAllChainInfos"; "k.Logger";
     "k.Logger(sdkCtx).Error"; "len"; "make"; "sdk.UnwrapSDKContext"]%string /\
  Gen.C10.missing_chains_normalising_calls = [] /\
  Gen.C10.supports_all_input_element = "v.GetChainReferenceID()"%string /\
  Gen.C10.supports_all_result = "len(missingChains) == 0"%string /\
  Gen.C10.supports_all_returns = ["false"; "len(missingChains) == 0"]%string /\
  Gen.C10.supports_all_normalising_calls = [] /\
  Gen.C10.xchain_type = "evm"%string /\
  Gen.C10.callers_of_SaveModifiedSnapshot = [] /\
  Gen.C10.callers_of_setSnapshotAsCurrent = ["x/valset/keeper:TriggerSnapshotBuild"]%string /\
  Gen.C10.callers_of_SetSnapshotOnChain = ["x/evm/keeper:attest"]%string /\
  Gen.C10.callers_of_TriggerSnapshotBuild = ["x/skyway/keeper:addValidators"; "x/valset:EndBlock"]%string.
Proof. repeat split; reflexivity. Qed.

(** Every place where a valset leaves for a remote chain — the two callers of SendValsetMsgForChain
    and the compass constructor input of a deployment — sits behind
    [if !isEnoughToReachConsensus(v) { … return }] on the very valset it uses ([CSend]'s shape). *)
Lemma source_gates_shape :
  Gen.C10.quorum_gates =
    ["PublishValsetToChain: valset valset from parameter; gate on valset returns=true before use=true";
     "deploySmartContractToChain: valset valset from transformSnapshotToCompass; gate on valset returns=true before use=true";
     "justInTimeValsetUpdate: valset latestValset from transformSnapshotToCompass; gate on latestValset returns=true before use=true"]%string /\
  Gen.C10.projection_calls =
    ["GetValsetByID: transformSnapshotToCompass(snapshot, req.GetChainReferenceID(), logger)";
     "PublishSnapshotToAllChains: transformSnapshotToCompass(snapshot, chain.GetChainReferenceID(), logger)";
     "attestTransactionIntegrity: transformSnapshotToCompass(snapshot, chainReferenceID, logger)";
     "deploySmartContractToChain: transformSnapshotToCompass(snapshot, chainInfo.GetChainReferenceID(), logger)";
     "justInTimeValsetUpdate: transformSnapshotToCompass(latestSnapshot, chainReferenceID, k.Logger(sdkCtx))"]%string /\
  Gen.C10.callers_of_SendValsetMsgForChain =
    ["x/evm/keeper:PublishValsetToChain"; "x/evm/keeper:justInTimeValsetUpdate"]%string /\
  Gen.C10.callers_of_PublishValsetToChain = ["x/evm/keeper:PublishSnapshotToAllChains"]%string.
Proof. repeat split; reflexivity. Qed.

(** the chain-type test, spelled out: exactly the eight spellings of "evm" in ASCII letters *)
Lemma ei_evm_spec e :
  ei_evm e = true <-> to_lower (ei_type e) = "evm"%string.
Proof. unfold ei_evm. rewrite String.eqb_eq. reflexivity. Qed.

Lemma quorum_constant :
  threshold = 2 ^ 33 / 3 /\ 3 * threshold = 2 * 2 ^ 32 - 2 /\ max_power = 2 ^ 32 /\
  (* the integer threshold is the least power sum s with 3 * s + 2 >= 2 * 2^32 *)
  (forall s, threshold <= s <-> 2 * 2 ^ 32 <= 3 * s + 2).
Proof.
  split; [reflexivity|]. split; [reflexivity|]. split; [reflexivity|].
  intros s. change threshold with 2863311530. change (2 ^ 32) with 4294967296. lia.
Qed.

(** * The sort only permutes, and sorts *)

Lemma insert_desc_perm x l : Permutation (insert_desc x l) (x :: l).
Proof.
  induction l as [|y r IH]; cbn [insert_desc]; [reflexivity|].
  destruct (v_share y <=? v_share x); [reflexivity|].
  etransitivity; [apply perm_skip, IH | apply perm_swap].
Qed.

Lemma fold_insert_perm l : forall acc,
  Permutation (fold_left (fun acc x => insert_desc x acc) l acc) (l ++ acc).
Proof.
  induction l as [|x r IH]; intros acc; cbn [fold_left app]; [reflexivity|].
  etransitivity; [apply IH|].
  etransitivity; [apply Permutation_app_head, insert_desc_perm|].
  symmetry. apply Permutation_middle.
Qed.

Lemma sort_desc_perm l : Permutation (sort_desc l) l.
Proof. unfold sort_desc. etransitivity; [apply fold_insert_perm|]. now rewrite app_nil_r. Qed.

Definition desc (a b : snapval) : Prop := v_share b <= v_share a.

Lemma insert_desc_sorted x l : StronglySorted desc l -> StronglySorted desc (insert_desc x l).
Proof.
  induction l as [|y r IH]; intros S; cbn [insert_desc].
  - constructor; constructor.
  - inversion S as [|? ? Sr Hy]; subst.
    destruct (v_share y <=? v_share x) eqn:E.
    + apply Z.leb_le in E. constructor; [exact S|].
      constructor; [exact E|].
      rewrite Forall_forall in Hy |- *. intros z Hz. specialize (Hy z Hz). unfold desc in *. lia.
    + apply Z.leb_gt in E. constructor; [apply IH, Sr|].
      rewrite Forall_forall in Hy |- *. intros z Hz.
      apply (Permutation_in _ (insert_desc_perm x r)) in Hz. destruct Hz as [<-|Hz].
      * unfold desc. lia.
      * apply Hy, Hz.
Qed.

Lemma sort_desc_sorted l : StronglySorted desc (sort_desc l).
Proof.
  unfold sort_desc.
  assert (G : forall acc, StronglySorted desc acc ->
              StronglySorted desc (fold_left (fun acc x => insert_desc x acc) l acc)).
  { induction l as [|x r IH]; intros acc S; cbn [fold_left]; [exact S|]. apply IH, insert_desc_sorted, S. }
  apply G. constructor.
Qed.

Lemma zsum_perm l l' : Permutation l l' -> zsum l = zsum l'.
Proof. induction 1; cbn [zsum]; lia. Qed.

Lemma total_sort l : zsum (map v_share (sort_desc l)) = zsum (map v_share l).
Proof. apply zsum_perm, Permutation_map, sort_desc_perm. Qed.

(** * One entry per validator: the first evm account on the chain *)

Lemma firstn1_filter {A} (f : A -> bool) l :
  firstn 1 (filter f l) = match find f l with Some e => [e] | None => [] end.
Proof.
  induction l as [|x r IH]; cbn [filter find]; [reflexivity|].
  destruct (f x); [reflexivity | exact IH].
Qed.

Lemma accounts_on_find c v :
  accounts_on c v = match find (on_chain c) (v_infos v) with Some e => [e] | None => [] end.
Proof. unfold accounts_on. rewrite stops_at_first. apply firstn1_filter. Qed.

(** the projection of one validator, written out *)
Definition entry_of (c : string) (total : Z) (v : snapval) : list (Z * Z) :=
  match find (on_chain c) (v_infos v) with
  | Some e => [(ei_addr e, power_of (v_share v) total)]
  | None => []
  end.

Lemma entries_entry_of c total v : entries c total v = entry_of c total v.
Proof. unfold entries, entry_of. rewrite accounts_on_find. destruct (find _ _); reflexivity. Qed.

Lemma flat_map_ext' {A B} (f g : A -> list B) l : (forall x, f x = g x) -> flat_map f l = flat_map g l.
Proof. intros H. induction l as [|x r IH]; cbn; [reflexivity | now rewrite H, IH]. Qed.

Lemma transform_vals_eq vals c :
  transform_vals vals c = flat_map (entry_of c (zsum (map v_share vals))) (sort_desc vals).
Proof. unfold transform_vals. cbv zeta. rewrite total_sort. apply flat_map_ext', entries_entry_of. Qed.

(** * Powers are exact floors *)

Lemma power_of_floor share total :
  0 <= share <= total ->
  power_of share total = share * two32 / total /\
  0 <= power_of share total <= two32 /\
  (0 < total -> power_of share total * total <= share * two32 < (power_of share total + 1) * total).
Proof.
  intros H. unfold power_of. rewrite max_power_eq.
  destruct (Z.eq_dec total 0) as [Ez|Nz].
  - subst total. assert (share = 0) by lia. subst share. cbn. unfold two32. lia.
  - assert (Hp : 0 < total) by lia.
    replace ((total <=? 0) || (share <? 0)) with false
      by (symmetry; apply orb_false_iff; split; [apply Z.leb_gt | apply Z.ltb_ge]; lia).
    assert (Hq : 0 <= share * two32 / total <= two32).
    { split.
      - apply Z.div_pos; [unfold two32; lia | lia].
      - apply Z.div_le_upper_bound; [lia|]. unfold two32. nia. }
    rewrite u64_small by (unfold in_u64, two64, two32 in *; lia).
    split; [reflexivity|]. split; [exact Hq|]. intros _.
    pose proof (Z.mul_div_le (share * two32) total Hp).
    pose proof (Z.mul_succ_div_gt (share * two32) total Hp). lia.
Qed.

Definition nonneg (vals : list snapval) : Prop := Forall (fun v => 0 <= v_share v) vals.

Lemma share_le_total vals v : nonneg vals -> In v vals -> 0 <= v_share v <= zsum (map v_share vals).
Proof.
  induction 1 as [|x r Hx Hr IH]; intros Hin; [destruct Hin|].
  assert (0 <= zsum (map v_share r)).
  { apply zsum_nonneg. rewrite Forall_forall in *. intros z Hz. apply in_map_iff in Hz as [w [<- Hw]]. auto. }
  cbn [map zsum]. destruct Hin as [<-|Hin]; [lia|]. specialize (IH Hin). lia.
Qed.

(** * Sum of the powers *)

Lemma zsum_snd_flat_map_le c T l :
  0 < T -> (forall v, In v l -> 0 <= v_share v <= T) ->
  0 <= zsum (map snd (flat_map (entry_of c T) l)) /\
  T * zsum (map snd (flat_map (entry_of c T) l)) <= two32 * zsum (map v_share l).
Proof.
  intros HT. induction l as [|v r IH]; intros Hb; cbn [flat_map map zsum]; [lia|].
  rewrite map_app, zsum_app.
  destruct IH as [IH0 IH1]; [intros w Hw; apply Hb; now right|].
  assert (Hv : 0 <= v_share v <= T) by (apply Hb; now left).
  destruct (power_of_floor (v_share v) T Hv) as (_ & Hr & Hf). specialize (Hf HT).
  unfold entry_of at 1 3. destruct (find (on_chain c) (v_infos v)); cbn [map snd zsum]; nia.
Qed.

Lemma transform_sum_bounds vals c : nonneg vals ->
  0 <= zsum (map snd (transform_vals vals c)) <= two32.
Proof.
  intros Hn. rewrite transform_vals_eq. set (T := zsum (map v_share vals)).
  assert (HT0 : 0 <= T).
  { apply zsum_nonneg. unfold nonneg in Hn. rewrite Forall_forall in *. intros z Hz.
    apply in_map_iff in Hz as [w [<- Hw]]. auto. }
  destruct (Z.eq_dec T 0) as [Ez|Nz].
  - (* every share is 0, every power is 0 *)
    assert (Z0 : forall l, zsum (map snd (flat_map (entry_of c T) l)) = 0).
    { induction l as [|v r IH]; cbn [flat_map map zsum]; [reflexivity|].
      rewrite map_app, zsum_app, IH. unfold entry_of, power_of. rewrite Ez.
      destruct (find _ _); cbn; reflexivity. }
    rewrite Z0. unfold two32. lia.
  - assert (HT : 0 < T) by lia.
    destruct (zsum_snd_flat_map_le c T (sort_desc vals) HT) as [A B].
    { intros v Hv. apply (Permutation_in _ (sort_desc_perm vals)) in Hv. apply share_le_total; assumption. }
    split; [exact A|]. rewrite total_sort in B. fold T in B. nia.
Qed.

(** * The projection theorem *)

Definition ideal_entry (c : string) (total : Z) (v : snapval) : list (Z * Z) :=
  match find (on_chain c) (v_infos v) with
  | Some e => [(ei_addr e, v_share v * two32 / total)]
  | None => []
  end.

Lemma entry_of_ideal c vals v : nonneg vals -> In v vals ->
  entry_of c (zsum (map v_share vals)) v = ideal_entry c (zsum (map v_share vals)) v.
Proof.
  intros Hn Hin. unfold entry_of, ideal_entry.
  destruct (power_of_floor _ _ (share_le_total vals v Hn Hin)) as (E & _). now rewrite E.
Qed.

Lemma flat_map_ext_in {A B} (f g : A -> list B) l :
  (forall x, In x l -> f x = g x) -> flat_map f l = flat_map g l.
Proof.
  induction l as [|x r IH]; intros H; cbn; [reflexivity|].
  rewrite H by now left. rewrite IH; [reflexivity|]. intros y Hy. apply H. now right.
Qed.

Lemma Permutation_flat_map' {A B} (f : A -> list B) l l' :
  Permutation l l' -> Permutation (flat_map f l) (flat_map f l').
Proof.
  induction 1; cbn [flat_map].
  - reflexivity.
  - now apply Permutation_app_head.
  - rewrite !app_assoc. apply Permutation_app_tail, Permutation_app_comm.
  - etransitivity; eassumption.
Qed.

Lemma powers_floor_sum : forall sn c,
  nonneg (sn_vals sn) ->
  let total := zsum (map v_share (sn_vals sn)) in
  (* the snapshot restricted to the validators with an (evm) account on the chain, one entry each,
     power = floor (share * 2^32 / total); the order is by share, descending *)
  transform sn c = flat_map (ideal_entry c total) (sort_desc (sn_vals sn)) /\
  Permutation (sort_desc (sn_vals sn)) (sn_vals sn) /\
  StronglySorted (fun a b => v_share b <= v_share a) (sort_desc (sn_vals sn)) /\
  Permutation (transform sn c) (flat_map (ideal_entry c total) (sn_vals sn)) /\
  (forall a p, In (a, p) (transform sn c) ->
     exists v e, In v (sn_vals sn) /\ find (on_chain c) (v_infos v) = Some e /\ In e (v_infos v) /\
       ei_evm e = true /\ ei_chain e = c /\ a = ei_addr e /\
       p = v_share v * two32 / total /\ 0 <= p <= two32 /\
       (0 < total -> p * total <= v_share v * two32 < (p + 1) * total)) /\
  (forall v e, In v (sn_vals sn) -> find (on_chain c) (v_infos v) = Some e ->
     In (ei_addr e, v_share v * two32 / total) (transform sn c)) /\
  0 <= zsum (map snd (transform sn c)) <= two32.
Proof.
  intros sn c Hn total. unfold transform.
  assert (E1 : transform_vals (sn_vals sn) c = flat_map (ideal_entry c total) (sort_desc (sn_vals sn))).
  { rewrite transform_vals_eq. apply flat_map_ext_in. intros v Hv.
    apply (Permutation_in _ (sort_desc_perm _)) in Hv. now apply entry_of_ideal. }
  assert (P : Permutation (transform_vals (sn_vals sn) c) (flat_map (ideal_entry c total) (sn_vals sn))).
  { rewrite E1. apply Permutation_flat_map', sort_desc_perm. }
  split; [exact E1|]. split; [apply sort_desc_perm|]. split; [apply sort_desc_sorted|].
  split; [exact P|]. split; [|split].
  - intros a p Hin. apply (Permutation_in _ P) in Hin. apply in_flat_map in Hin as [v [Hv Hin]].
    unfold ideal_entry in Hin. destruct (find (on_chain c) (v_infos v)) as [e|] eqn:F; [|destruct Hin].
    destruct Hin as [Hin|[]]. inversion Hin; subst a p.
    pose proof (find_some _ _ F) as [He Hc]. unfold on_chain in Hc. apply andb_true_iff in Hc as [Hevm Hch].
    apply String.eqb_eq in Hch.
    destruct (power_of_floor _ _ (share_le_total _ v Hn Hv)) as (E & R & Fl). fold total in E, R, Fl.
    exists v, e. repeat split; auto; try (rewrite <- E; apply R); try (rewrite <- E; apply Fl; assumption).
  - intros v e Hv F. apply (Permutation_in _ (Permutation_sym P)).
    apply in_flat_map. exists v. split; [exact Hv|]. unfold ideal_entry. rewrite F. now left.
  - apply transform_sum_bounds, Hn.
Qed.

(** * The quorum gate *)

Lemma sum_u64_exact powers :
  Forall (fun p => 0 <= p) powers -> zsum powers < two64 -> sum_u64 powers = zsum powers.
Proof.
  unfold sum_u64.
  assert (G : forall l acc, Forall (fun p => 0 <= p) l -> 0 <= acc -> acc + zsum l < two64 ->
                fold_left (fun s p => u64 (s + p)) l acc = acc + zsum l).
  { induction l as [|p r IH]; intros acc Hl Ha Hb; cbn [fold_left zsum]; [lia|].
    inversion Hl as [|? ? Hp Hr]; subst.
    assert (0 <= zsum r) by (apply zsum_nonneg, Hr).
    cbn [zsum] in Hb. rewrite u64_small by (unfold in_u64; lia).
    rewrite IH; [lia | exact Hr | lia | lia]. }
  intros Hl Hb. rewrite G; [lia | exact Hl | lia | lia].
Qed.

Lemma transform_powers_nonneg sn c : nonneg (sn_vals sn) ->
  Forall (fun p => 0 <= p) (map snd (transform sn c)).
Proof.
  intros Hn. destruct (powers_floor_sum sn c Hn) as (_ & _ & _ & _ & H & _).
  rewrite Forall_forall. intros p Hp. apply in_map_iff in Hp as [[a q] [<- Hin]].
  destruct (H a q Hin) as (v & e & _ & _ & _ & _ & _ & _ & _ & R & _). cbn. lia.
Qed.

Lemma enough_iff_quorum : forall sn c, nonneg (sn_vals sn) ->
  (is_enough (map snd (transform sn c)) = true <-> 2 ^ 33 / 3 <= zsum (map snd (transform sn c))).
Proof.
  intros sn c Hn. unfold is_enough.
  pose proof (transform_sum_bounds (sn_vals sn) c Hn) as B. fold (transform sn c) in B.
  rewrite sum_u64_exact.
  - rewrite Z.leb_le. destruct quorum_constant as [-> _]. reflexivity.
  - apply transform_powers_nonneg, Hn.
  - unfold two32, two64 in *. lia.
Qed.

(** * The order produced by the sort does not matter for what is sent

    sort.SliceStable is called with a non-strict comparator (GTE), so which of several validators
    with EQUAL shares comes first depends on the sorting algorithm (one insertion sort up to 20
    elements, insertion-sorted blocks merged by symMerge above).  The model fixes one order
    ([sort_desc]); the statements about content, sum and gate hold for ANY arrangement of the
    snapshot's validators, so they do not rest on that choice. *)
Lemma sum_snd_perm (l l' : list (Z * Z)) : Permutation l l' -> zsum (map snd l) = zsum (map snd l').
Proof. intros P. apply zsum_perm, Permutation_map, P. Qed.

Lemma any_order : forall sn c vs',
  nonneg (sn_vals sn) -> Permutation vs' (sn_vals sn) ->
  let total := zsum (map v_share (sn_vals sn)) in
  let out := flat_map (entries c total) vs' in
  Permutation out (transform sn c) /\
  Permutation out (flat_map (ideal_entry c total) (sn_vals sn)) /\
  0 <= zsum (map snd out) <= two32 /\
  (is_enough (map snd out) = true <-> 2 ^ 33 / 3 <= zsum (map snd out)).
Proof.
  intros sn c vs' Hn P total out.
  assert (E : transform sn c = flat_map (entries c total) (sort_desc (sn_vals sn))).
  { unfold transform, transform_vals. cbv zeta. now rewrite total_sort. }
  assert (P1 : Permutation out (transform sn c)).
  { rewrite E. apply Permutation_flat_map'. etransitivity; [exact P | symmetry; apply sort_desc_perm]. }
  destruct (powers_floor_sum sn c Hn) as (_ & _ & _ & P2 & _ & _ & B).
  assert (S : zsum (map snd out) = zsum (map snd (transform sn c))) by (apply sum_snd_perm, P1).
  split; [exact P1|]. split; [etransitivity; [exact P1 | exact P2]|]. split; [rewrite S; exact B|].
  unfold is_enough. rewrite sum_u64_exact.
  - rewrite Z.leb_le. destruct quorum_constant as [-> _]. reflexivity.
  - rewrite Forall_forall. intros p Hp.
    pose proof (transform_powers_nonneg sn c Hn) as F. rewrite Forall_forall in F. apply F.
    apply in_map_iff in Hp as [x [<- Hx]]. apply in_map. apply (Permutation_in _ P1), Hx.
  - rewrite S. unfold two32, two64 in *. lia.
Qed.

(** * Histories: whatever is enqueued had a quorum *)

Definition ops_nonneg (ops : list cop) : Prop :=
  Forall (fun o => match o with
                   | CValset (OStaking vs) => Forall (fun v => 0 <= sv_tokens v) vs
                   | _ => True
                   end) ops.

Definition good (st : state) : Prop :=
  Forall (fun v => 0 <= sv_tokens v) (st_vals st) /\
  forall id sn, find_snapshot st id = Some sn -> nonneg (sn_vals sn).

Lemma create_nonneg st : Forall (fun v => 0 <= sv_tokens v) (st_vals st) -> nonneg (sn_vals (create st)).
Proof.
  intros H. unfold nonneg, create; cbn [sn_vals]. rewrite Forall_forall in *.
  intros x Hx. apply in_map_iff in Hx as [v [<- Hv]]. apply filter_In in Hv as [Hv _].
  cbn. unfold bonded_tokens. destruct (sv_bonded v); [auto | lia].
Qed.

Lemma good_step st o :
  match o with OStaking vs => Forall (fun v => 0 <= sv_tokens v) vs | _ => True end ->
  good st -> good (step st o).
Proof.
  intros Ho [G1 G2]. destruct o as [vs|a infos acc|cs|worthy|id c]; cbn [step].
  - split; [exact Ho | exact G2].
  - destruct acc; split; assumption.
  - split; assumption.
  - destruct worthy; [|split; assumption]. split; [exact G1|].
    intros k sn. rewrite find_set_as_current. destruct (st_counter st + 1 =? k).
    + intros H; inversion H; subst. cbn [sn_vals with_id]. now apply create_nonneg.
    + apply G2.
  - unfold set_on_chain. destruct (find_snapshot st id) as [s|] eqn:F; [|split; assumption].
    split; [exact G1|]. intros k sn. rewrite find_save. destruct (sn_id s =? k).
    + intros H; inversion H; subst. cbn [sn_vals add_chains]. eapply G2, F.
    + apply G2.
Qed.

Lemma good_init : good init.
Proof. split; [constructor | intros id sn H; discriminate]. Qed.

Lemma crun_app ops ops' : crun (ops ++ ops') = fold_left cstep ops' (crun ops).
Proof. unfold crun. apply fold_left_app. Qed.

Lemma good_crun ops : ops_nonneg ops -> good (cs_val (crun ops)).
Proof.
  induction ops as [|o r IH] using rev_ind; intros Hn; [apply good_init|].
  unfold ops_nonneg in Hn. apply Forall_app in Hn as [Hr Ho]. inversion Ho as [|? ? Ho' _]; subst.
  rewrite crun_app. cbn [fold_left]. specialize (IH Hr).
  destruct o as [o|id c env]; cbn [cstep cs_val].
  - apply good_step; [destruct o; auto | exact IH].
  - destruct (find_snapshot (cs_val (crun r)) id); [|exact IH].
    destruct (is_enough _ && env); exact IH.
Qed.

Lemma sent_had_quorum : forall ops c id vs,
  ops_nonneg ops ->
  In (c, id, vs) (cs_sent (crun ops)) ->
  exists pre post sn,
    ops = pre ++ CSend id c true :: post /\
    find_snapshot (cs_val (crun pre)) id = Some sn /\ sn_id sn = id /\
    vs = transform sn c /\
    2 ^ 33 / 3 <= zsum (map snd vs) <= 2 ^ 32.
Proof.
  intros ops. induction ops as [|o r IH] using rev_ind; intros c id vs Hn Hin; [destruct Hin|].
  pose proof Hn as Hn'. unfold ops_nonneg in Hn'. apply Forall_app in Hn' as [Hr _].
  rewrite crun_app in Hin. cbn [fold_left] in Hin.
  assert (Old : In (c, id, vs) (cs_sent (crun r)) ->
                exists pre post sn, r ++ [o] = pre ++ CSend id c true :: post /\
                  find_snapshot (cs_val (crun pre)) id = Some sn /\ sn_id sn = id /\ vs = transform sn c /\
                  2 ^ 33 / 3 <= zsum (map snd vs) <= 2 ^ 32).
  { intros H. destruct (IH _ _ _ Hr H) as (pre & post & sn & E & R).
    exists pre, (post ++ [o]), sn. split; [|exact R]. rewrite E. now rewrite <- app_assoc. }
  destruct o as [o|id' c' env]; cbn [cstep cs_sent] in Hin; [now apply Old|].
  destruct (find_snapshot (cs_val (crun r)) id') as [sn|] eqn:F; [|now apply Old].
  destruct (is_enough (map snd (transform sn c')) && env) eqn:G; [|now apply Old].
  cbn [cs_sent] in Hin. destruct Hin as [Hin|Hin]; [|now apply Old].
  inversion Hin; subst c' id' vs. apply andb_true_iff in G as [G ->].
  destruct (good_crun r Hr) as [_ G2]. pose proof (G2 _ _ F) as Hnn.
  exists r, [], sn. split; [reflexivity|]. split; [exact F|].
  split.
  { (* the stored snapshot carries its key as id *)
    assert (W : wf (cs_val (crun r))).
    { clear. induction r as [|o r IH] using rev_ind; [apply wf_init|].
      rewrite crun_app. cbn [fold_left]. destruct o as [o|i c e]; cbn [cstep cs_val].
      - apply wf_step, IH.
      - destruct (find_snapshot _ _); [|exact IH]. destruct (_ && _); exact IH. }
    destruct W as (_ & W1 & _). now apply W1 in F. }
  split; [reflexivity|]. split.
  - now apply enough_iff_quorum.
  - pose proof (transform_sum_bounds (sn_vals sn) c Hnn) as B. fold (transform sn c) in B.
    change (2 ^ 32) with two32. lia.
Qed.

(** * Non-vacuity *)

Local Open Scope string_scope.
Definition ex_vals : list snapval :=
  [ {| v_addr := 1; v_share := 4096;    v_infos := [ {| ei_type := "evm"; ei_chain := "c0"; ei_addr := 11; ei_traits := [] |} ] |};
    {| v_addr := 2; v_share := 4190209; v_infos := [ {| ei_type := "cosmos"; ei_chain := "c0"; ei_addr := 20; ei_traits := [] |};
                                                     {| ei_type := "evm"; ei_chain := "c0"; ei_addr := 21; ei_traits := [] |};
                                                     {| ei_type := "evm"; ei_chain := "c0"; ei_addr := 22; ei_traits := [] |} ] |};
    {| v_addr := 3; v_share := 0;       v_infos := [ {| ei_type := "evm"; ei_chain := "c1"; ei_addr := 31; ei_traits := [] |} ] |} ].

(** the F7 witness: the integer model gives the floor 4290772992 (the float code gave ...993);
    validator 2's second account on the chain is not listed; validator 3 has no account there. *)
Example ex_transform :
  transform_vals ex_vals "c0" = [(21, 4290772992); (11, 4194303)] /\
  is_enough (map snd (transform_vals ex_vals "c0")) = true /\
  is_enough [2863311529] = false /\ is_enough [2863311530] = true.
Proof. vm_compute. repeat split; reflexivity. Qed.

(** The hypothesis [nonneg] (bonded tokens are never negative: a staking invariant, not something
    the snapshot code checks) is needed: with a negative share the total shrinks and another
    validator's power exceeds 2^32.  The harness replays this witness on the real function
    (histogram "hypothesis-needed"). *)
Example nonneg_hypothesis_needed :
  let vals := [ {| v_addr := 1; v_share := -5; v_infos := [ {| ei_type := "evm"; ei_chain := "c0"; ei_addr := 11; ei_traits := [] |} ] |};
                {| v_addr := 2; v_share := 10; v_infos := [ {| ei_type := "evm"; ei_chain := "c0"; ei_addr := 21; ei_traits := [] |} ] |} ] in
  transform_vals vals "c0" = [(21, 8589934592); (11, 0)] /\
  ~ nonneg vals /\
  ~ (zsum (map snd (transform_vals vals "c0")) <= 4294967296) /\
  is_enough (map snd (transform_vals vals "c0")) = true.
Proof.
  vm_compute. repeat split; try reflexivity.
  - intros H. inversion H as [|? ? H1 _]. apply H1. reflexivity.
  - intros H. apply H. reflexivity.
Qed.

Definition ex_cops : list cop :=
  [ CValset (OChains [("c0", true); ("c1", false)]);
    CValset (OStaking [ {| sv_addr := 1; sv_bonded := true; sv_jailed := false; sv_tokens := 10 |};
                        {| sv_addr := 2; sv_bonded := true; sv_jailed := false; sv_tokens := 20 |};
                        {| sv_addr := 3; sv_bonded := true; sv_jailed := false; sv_tokens := 70 |} ]);
    CValset (ORegister 1 [ {| ei_type := "evm"; ei_chain := "c0"; ei_addr := 11; ei_traits := [] |} ] true);
    CValset (ORegister 2 [ {| ei_type := "evm"; ei_chain := "c0"; ei_addr := 21; ei_traits := [] |} ] true);
    CValset (ORegister 3 [ {| ei_type := "evm"; ei_chain := "c0"; ei_addr := 31; ei_traits := [] |}; {| ei_type := "evm"; ei_chain := "c1"; ei_addr := 32; ei_traits := [] |} ] true);
    CValset (OBuild true);
    CSend 1 "c0" true;      (* sent: all three have an account on chain 0 *)
    CSend 1 "c1" true;      (* sent: validator 3 alone (70 % >= 2/3) has an account on chain 1 *)
    CSend 1 "c2" true;      (* not sent: nobody has an account on chain 2 *)
    CSend 5 "c0" true ].    (* no such snapshot *)

Example ex_sent :
  ops_nonneg ex_cops /\
  cs_sent (crun ex_cops) =
    [ ("c1", 1, [(32, 3006477107)]); ("c0", 1, [(31, 3006477107); (21, 858993459); (11, 429496729)]) ].
Proof. split; [repeat constructor; cbn; lia | vm_compute; reflexivity]. Qed.
