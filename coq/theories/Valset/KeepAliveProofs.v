(** C12 — proofs about the model in KeepAlive.v. *)
From Coq Require Import List ZArith Bool Lia.
From Paloma Require Import Base.Corr Valset.KeepAlive.
From Paloma Require Gen.C12.
Import ListNotations.
Open Scope Z_scope.

(** * Address equality *)

Lemma addr_eqb_eq : forall a b, addr_eqb a b = true <-> a = b.
Proof. apply list_eqb_eq. intros x y. apply Z.eqb_eq. Qed.

Lemma addr_eqb_refl : forall a, addr_eqb a a = true.
Proof. intros a. now apply addr_eqb_eq. Qed.

Lemma addr_eqb_neq : forall a b, addr_eqb a b = false <-> a <> b.
Proof.
  intros a b. split.
  - intros H E. apply addr_eqb_eq in E. congruence.
  - intros H. destruct (addr_eqb a b) eqn:E; [apply addr_eqb_eq in E; contradiction | reflexivity].
Qed.

Lemma addr_eqb_sym : forall a b, addr_eqb a b = addr_eqb b a.
Proof.
  intros a b. destruct (addr_eqb a b) eqn:E.
  - apply addr_eqb_eq in E. subst. symmetry. apply addr_eqb_refl.
  - apply addr_eqb_neq in E. symmetry. apply addr_eqb_neq. congruence.
Qed.

Lemma mem_In : forall a l, mem a l = true <-> In a l.
Proof.
  intros a l. unfold mem. rewrite existsb_exists. split.
  - intros [x [Hx E]]. apply addr_eqb_eq in E. now subst.
  - intros H. exists a. split; [assumption | apply addr_eqb_refl].
Qed.

(** * The snapshot codec *)

Lemma decode_aux_encode : forall l bs fuel,
  encode l = Some bs -> (length bs <= fuel)%nat -> decode_aux fuel bs = l.
Proof.
  induction l as [|a r IH]; intros bs fuel He Hf.
  - cbn in He. inversion He; subst. destruct fuel; reflexivity.
  - cbn [encode] in He. destruct (wf_addrb a) eqn:Hw; [|discriminate].
    destruct (encode r) as [br|] eqn:Er; [|discriminate].
    inversion He; subst bs; clear He.
    destruct fuel as [|f]; [cbn in Hf; lia|].
    cbn [decode_aux].
    rewrite app_length.
    replace (Z.of_nat (length a + length br) <? Z.of_nat (length a)) with false
      by (symmetry; apply Z.ltb_ge; lia).
    rewrite Nat2Z.id.
    rewrite firstn_app, Nat.sub_diag, firstn_all. cbn [firstn]. rewrite app_nil_r.
    rewrite skipn_app, Nat.sub_diag, skipn_all. cbn [skipn app].
    f_equal. apply IH; [reflexivity|].
    cbn [length] in Hf. rewrite app_length in Hf. lia.
Qed.

(** decode is a left inverse of encode — for every list of addresses, whatever bytes they contain *)
Lemma decode_encode : forall l bs, encode l = Some bs -> decode bs = l.
Proof. intros l bs H. unfold decode. eapply decode_aux_encode; [eassumption | lia]. Qed.

Lemma wf_addrb_iff : forall a, wf_addrb a = true <-> wf_addr a.
Proof. intros a. unfold wf_addrb, wf_addr. apply Z.leb_le. Qed.

Lemma encode_total : forall l, Forall wf_addr l -> exists bs, encode l = Some bs.
Proof.
  induction l as [|a r IH]; intros H.
  - now exists [].
  - inversion H as [|? ? Ha Hr]; subst. destruct (IH Hr) as [br Er].
    cbn [encode]. apply wf_addrb_iff in Ha. rewrite Ha, Er. eauto.
Qed.

Lemma codec_roundtrip : forall l, Forall wf_addr l ->
  exists bs, encode l = Some bs /\ decode bs = l.
Proof.
  intros l H. destruct (encode_total l H) as [bs E]. exists bs. split; [assumption|].
  now apply decode_encode.
Qed.

(** Non-vacuity, and the witness of the defect of the comma-joined format (kept for the legacy
    reader, which is still in the code): an address containing 0x2c does not survive it. *)
Definition comma_addr : addr := [0; 17; 44; 51; 68; 85; 102; 119; 136; 153; 170; 187; 204; 221; 238; 255; 0; 17; 34; 51].

Example codec_roundtrip_example :
  exists bs, encode [comma_addr; [44; 44]; []] = Some bs /\ decode bs = [comma_addr; [44; 44]; []].
Proof. eexists. split; reflexivity. Qed.

Lemma legacy_codec_not_injective :
  Forall wf_addr [comma_addr] /\ legacy_split (legacy_join [comma_addr]) <> [comma_addr].
Proof.
  split.
  - repeat constructor. unfold wf_addr. cbn. lia.
  - vm_compute. discriminate.
Qed.

(** * Generic list / lookup facts *)

Lemma lookup_cons : forall {V} a k (x : V) l,
  lookup a ((k, x) :: l) = if addr_eqb k a then Some x else lookup a l.
Proof. reflexivity. Qed.

Lemma find_val_addr : forall a vs v, find_val a vs = Some v -> v_addr v = a /\ In v vs.
Proof.
  intros a vs v H. unfold find_val in H. apply find_some in H as [Hin E].
  apply addr_eqb_eq in E. auto.
Qed.

Lemma find_val_none : forall a vs, find_val a vs = None <-> ~ In a (map v_addr vs).
Proof.
  intros a vs. unfold find_val. induction vs as [|v r IH]; cbn [find map In].
  - tauto.
  - destruct (addr_eqb (v_addr v) a) eqn:E.
    + apply addr_eqb_eq in E. split; [discriminate | intros H; exfalso; apply H; now left].
    + apply addr_eqb_neq in E. rewrite IH. tauto.
Qed.

Lemma find_val_some_of_in : forall a vs, In a (map v_addr vs) -> exists v, find_val a vs = Some v.
Proof.
  intros a vs H. destruct (find_val a vs) eqn:E; [eauto|].
  apply find_val_none in E. contradiction.
Qed.

Definition with_jailed (b : bool) (v : val) : val :=
  {| v_addr := v_addr v; v_status := v_status v; v_jailed := b; v_power := v_power v |}.

Lemma find_val_set_jailed : forall a b x vs,
  find_val a (set_jailed b x vs) =
  match find_val a vs with
  | Some v => Some (if addr_eqb a b then with_jailed x v else v)
  | None => None
  end.
Proof.
  intros a b x vs. unfold find_val, set_jailed. induction vs as [|v r IH]; cbn [map find].
  - reflexivity.
  - destruct (addr_eqb (v_addr v) b) eqn:Eb; cbn [v_addr].
    + destruct (addr_eqb (v_addr v) a) eqn:Ea.
      * apply addr_eqb_eq in Eb, Ea. subst. rewrite addr_eqb_refl. reflexivity.
      * exact IH.
    + destruct (addr_eqb (v_addr v) a) eqn:Ea.
      * apply addr_eqb_eq in Ea. subst a. rewrite Eb. reflexivity.
      * exact IH.
Qed.

Lemma map_addr_set_jailed : forall b x vs, map v_addr (set_jailed b x vs) = map v_addr vs.
Proof.
  intros b x vs. unfold set_jailed. rewrite map_map. apply map_ext.
  intros v. destruct (addr_eqb (v_addr v) b); reflexivity.
Qed.

Lemma map_addr_set_env : forall b st pw vs, map v_addr (set_env b st pw vs) = map v_addr vs.
Proof.
  intros b st pw vs. unfold set_env. rewrite map_map. apply map_ext.
  intros v. destruct (addr_eqb (v_addr v) b); reflexivity.
Qed.

Definition nonneg (vs : list val) : Prop := Forall (fun v => 0 <= v_power v) vs.

Lemma nonneg_set_jailed : forall b x vs, nonneg vs -> nonneg (set_jailed b x vs).
Proof.
  intros b x vs H. unfold nonneg, set_jailed. apply Forall_map. eapply Forall_impl; [|exact H].
  intros v Hv. cbn beta. destruct (addr_eqb (v_addr v) b); exact Hv.
Qed.

Lemma nonneg_set_env : forall b st pw vs, 0 <= pw -> nonneg vs -> nonneg (set_env b st pw vs).
Proof.
  intros b st pw vs Hp H. unfold nonneg, set_env. apply Forall_map. eapply Forall_impl; [|exact H].
  intros v Hv. cbn beta. destruct (addr_eqb (v_addr v) b); [exact Hp | exact Hv].
Qed.

Lemma insert_val_in : forall v vs x, In x (insert_val v vs) <-> x = v \/ In x vs.
Proof.
  intros v vs x. induction vs as [|w r IH]; cbn [insert_val].
  - cbn. intuition.
  - destruct (key_ltb (v_addr v) (v_addr w)); cbn [In] in *; rewrite ?IH; intuition.
Qed.

Lemma total_power_set_jailed_le : forall b vs, nonneg vs ->
  total_power (set_jailed b true vs) <= total_power vs.
Proof.
  intros b vs H. induction H as [|v r Hv Hr IH]; cbn [set_jailed map total_power]; [lia|].
  fold (set_jailed b true r).
  destruct (addr_eqb (v_addr v) b).
  - unfold bonded_unjailed at 1. cbn [v_jailed v_status negb]. rewrite andb_false_r.
    destruct (bonded_unjailed v); lia.
  - destruct (bonded_unjailed v); lia.
Qed.

Lemma share_num_nonneg : 0 <= Gen.C12.share_num.
Proof. vm_compute. discriminate. Qed.

Lemma share_protected_mono : forall cp t t', t' <= t ->
  share_protected cp t = true -> share_protected cp t' = true.
Proof.
  unfold share_protected. intros cp t t' Hle H.
  apply Z.gtb_lt in H. apply Z.gtb_lt. pose proof share_num_nonneg. nia.
Qed.

(** * Sentences *)

Lemma last_sentence_in : In last_sentence Gen.C12.jail_sentences.
Proof. vm_compute. repeat (first [left; reflexivity | right]). Qed.

Lemma next_sentence_in : forall d, In (next_sentence d) Gen.C12.jail_sentences.
Proof.
  intros d. unfold next_sentence.
  destruct (find (fun s => d <? s) Gen.C12.jail_sentences) eqn:E.
  - apply find_some in E. tauto.
  - apply last_sentence_in.
Qed.

Lemma next_sentence_gt : forall d, d < last_sentence -> d < next_sentence d.
Proof.
  intros d H. unfold next_sentence.
  destruct (find (fun s => d <? s) Gen.C12.jail_sentences) eqn:E.
  - apply find_some in E as [_ E]. now apply Z.ltb_lt in E.
  - pose proof (find_none _ _ E _ last_sentence_in) as N. cbn beta in N. apply Z.ltb_ge in N. lia.
Qed.

Lemma sentences_le_last : forall s, In s Gen.C12.jail_sentences -> s <= last_sentence.
Proof.
  assert (H : forallb (fun s => s <=? last_sentence) Gen.C12.jail_sentences = true) by (vm_compute; reflexivity).
  intros s Hs. rewrite forallb_forall in H. apply Z.leb_le. now apply H.
Qed.

Lemma next_sentence_le_last : forall d, next_sentence d <= last_sentence.
Proof. intros d. apply sentences_le_last, next_sentence_in. Qed.

Definition table_walk_b : bool :=
  forallb (fun i => next_sentence (nth i Gen.C12.jail_sentences 0)
                    =? nth (Nat.min (S i) (length Gen.C12.jail_sentences - 1)) Gen.C12.jail_sentences 0)
          (seq 0 (length Gen.C12.jail_sentences)).

Lemma table_walk : forall i, (i < length Gen.C12.jail_sentences)%nat ->
  next_sentence (nth i Gen.C12.jail_sentences 0)
  = nth (Nat.min (S i) (length Gen.C12.jail_sentences - 1)) Gen.C12.jail_sentences 0.
Proof.
  assert (H : table_walk_b = true) by (vm_compute; reflexivity).
  intros i Hi. unfold table_walk_b in H. rewrite forallb_forall in H.
  apply Z.eqb_eq. apply H. apply in_seq. lia.
Qed.

Lemma first_sentence : next_sentence 0 = hd 0 Gen.C12.jail_sentences.
Proof. vm_compute. reflexivity. Qed.

Lemma ttl_pos : 0 < Gen.C12.keep_alive_ttl.
Proof. vm_compute. reflexivity. Qed.

(** * The state machine *)
Section Machine.
Variable version : Type.
Variable vlt : version -> version -> bool.
Notation state := (state version).
Notation op := (op version).

(** ** Frames: Jail only touches validators, jail log, jailed-until *)
Definition jail_frame {X} (f : state -> X) : Prop := forall s vs l u, f (set_jail s vs l u) = f s.

Lemma jail_cases : forall (s : state) a,
  (jail s a = (s, false)) \/
  (exists v, find_val a (vals s) = Some v /\ v_jailed v = false /\ count_active (vals s) <> 1 /\
             share_protected (v_power v) (total_power (vals s)) = false /\
             jail s a = (set_jail s (set_jailed a true (vals s))
                                 ((a, (sentence_for s a, now s)) :: jlog s)
                                 ((a, now s + sentence_for s a) :: until s), true)).
Proof.
  intros s a. unfold jail. destruct (find_val a (vals s)) as [v|] eqn:Ef; [|now left].
  destruct (v_jailed v) eqn:Ej; [now left|].
  destruct (count_active (vals s) =? 1) eqn:Ec; [now left|].
  destruct (share_protected (v_power v) (total_power (vals s))) eqn:Es; [now left|].
  right. exists v. apply Z.eqb_neq in Ec. repeat split; auto.
Qed.

Lemma jail_preserves : forall {X} (f : state -> X), jail_frame f -> forall s a, f (fst (jail s a)) = f s.
Proof.
  intros X f Hf s a. destruct (jail_cases s a) as [E|[v [_ [_ [_ [_ E]]]]]]; rewrite E; cbn [fst]; auto.
Qed.

Lemma sweep_one_cases : forall (s : state) w,
  sweep_one s w = s \/ sweep_one s w = fst (jail s (v_addr w)).
Proof.
  intros s w. unfold sweep_one.
  destruct (negb (eligible_status (v_status w))); [now left|].
  destruct (is_alive s (v_addr w)); [now left|].
  destruct (in_grace s (v_addr w)); [now left|].
  destruct (find_val (v_addr w) (vals s)) as [cur|]; [|now left].
  destruct (v_jailed cur); [now left | now right].
Qed.

Lemma sweep_one_preserves : forall {X} (f : state -> X), jail_frame f -> forall s w, f (sweep_one s w) = f s.
Proof.
  intros X f Hf s w. destruct (sweep_one_cases s w) as [E|E]; rewrite E; [reflexivity|].
  now apply jail_preserves.
Qed.

Lemma sweep_fold_preserves : forall {X} (f : state -> X), jail_frame f ->
  forall l s, f (fold_left sweep_one l s) = f s.
Proof.
  intros X f Hf l. induction l as [|w r IH]; intros s; cbn [fold_left]; [reflexivity|].
  rewrite IH. now apply sweep_one_preserves.
Qed.

Lemma frame_height : jail_frame (@height version). Proof. intros s vs l u; reflexivity. Qed.
Lemma frame_alive : jail_frame (@alive version). Proof. intros s vs l u; reflexivity. Qed.
Lemma frame_grace : jail_frame (@grace version). Proof. intros s vs l u; reflexivity. Qed.
Lemma frame_minver : jail_frame (@minver version). Proof. intros s vs l u; reflexivity. Qed.
Lemma frame_now : jail_frame (@now version). Proof. intros s vs l u; reflexivity. Qed.
Definition snapfields (s : state) := (snap_legacy s, snap s, prev_unjailed s).
Lemma frame_snapfields : jail_frame snapfields. Proof. intros s vs l u; reflexivity. Qed.

Lemma is_alive_ext : forall (s s' : state) a, alive s' = alive s -> height s' = height s -> is_alive s' a = is_alive s a.
Proof. intros s s' a E1 E2. unfold is_alive. now rewrite E1, E2. Qed.
Lemma in_grace_ext : forall (s s' : state) a, grace s' = grace s -> height s' = height s -> in_grace s' a = in_grace s a.
Proof. intros s s' a E1 E2. unfold in_grace. now rewrite E1, E2. Qed.

Lemma jail_addrs : forall (s : state) a, map v_addr (vals (fst (jail s a))) = map v_addr (vals s).
Proof.
  intros s a. destruct (jail_cases s a) as [E|[v [_ [_ [_ [_ E]]]]]]; rewrite E; cbn [fst]; [reflexivity|].
  cbn [set_jail vals]. apply map_addr_set_jailed.
Qed.

Lemma jail_nonneg : forall (s : state) a, nonneg (vals s) -> nonneg (vals (fst (jail s a))).
Proof.
  intros s a H. destruct (jail_cases s a) as [E|[v [_ [_ [_ [_ E]]]]]]; rewrite E; cbn [fst]; [exact H|].
  cbn [set_jail vals]. now apply nonneg_set_jailed.
Qed.

Lemma sweep_one_addrs : forall (s : state) w, map v_addr (vals (sweep_one s w)) = map v_addr (vals s).
Proof. intros s w. destruct (sweep_one_cases s w) as [E|E]; rewrite E; [reflexivity | apply jail_addrs]. Qed.

Lemma sweep_one_nonneg : forall (s : state) w, nonneg (vals s) -> nonneg (vals (sweep_one s w)).
Proof. intros s w H. destruct (sweep_one_cases s w) as [E|E]; rewrite E; [exact H | now apply jail_nonneg]. Qed.

(** ** The statement "jailed, or covered by the network-protection rules" *)
Definition settled (a : addr) (s : state) : Prop :=
  exists v, find_val a (vals s) = Some v /\ (v_jailed v = true \/ protected (vals s) v).

Lemma jail_settled_pres : forall (s : state) b a, nonneg (vals s) -> settled a s -> settled a (fst (jail s b)).
Proof.
  intros s b a Hn [v [Hf Hv]].
  destruct (jail_cases s b) as [E|[vb [Hfb [Hjb [Hc [Hs E]]]]]]; rewrite E; cbn [fst]; [now exists v|].
  unfold settled. cbn [set_jail vals]. rewrite find_val_set_jailed, Hf.
  destruct (addr_eqb a b) eqn:Eab.
  - exists (with_jailed true v). split; [reflexivity|]. left. reflexivity.
  - exists v. split; [reflexivity|].
    destruct Hv as [Hj|[Hcnt|Hsh]]; [now left | contradiction |].
    right. right. eapply share_protected_mono; [|exact Hsh].
    now apply total_power_set_jailed_le.
Qed.

Lemma sweep_one_settled_pres : forall (s : state) w a, nonneg (vals s) -> settled a s -> settled a (sweep_one s w).
Proof.
  intros s w a Hn H. destruct (sweep_one_cases s w) as [E|E]; rewrite E; [exact H | now apply jail_settled_pres].
Qed.

Lemma sweep_fold_settled_pres : forall l (s : state) a, nonneg (vals s) -> settled a s -> settled a (fold_left sweep_one l s).
Proof.
  induction l as [|w r IH]; intros s a Hn H; cbn [fold_left]; [exact H|].
  apply IH; [now apply sweep_one_nonneg | now apply sweep_one_settled_pres].
Qed.

Lemma jail_settles : forall (s : state) a v, find_val a (vals s) = Some v -> v_jailed v = false ->
  settled a (fst (jail s a)).
Proof.
  intros s a v Hf Hj. unfold jail. rewrite Hf, Hj.
  destruct (count_active (vals s) =? 1) eqn:Ec.
  { cbn [fst]. exists v. split; [exact Hf|]. right. left. now apply Z.eqb_eq. }
  destruct (share_protected (v_power v) (total_power (vals s))) eqn:Es.
  { cbn [fst]. exists v. split; [exact Hf|]. right. right. exact Es. }
  cbn [fst]. unfold settled. cbn [set_jail vals]. rewrite find_val_set_jailed, Hf, addr_eqb_refl.
  eexists. split; [reflexivity|]. left. reflexivity.
Qed.

Lemma sweep_one_settles : forall (s : state) w,
  In (v_addr w) (map v_addr (vals s)) -> eligible_status (v_status w) = true ->
  is_alive s (v_addr w) = false -> in_grace s (v_addr w) = false ->
  settled (v_addr w) (sweep_one s w).
Proof.
  intros s w Hin He Ha Hg. unfold sweep_one. rewrite He, Ha, Hg. cbn [negb].
  destruct (find_val_some_of_in _ _ Hin) as [cur Hc]. rewrite Hc.
  destruct (v_jailed cur) eqn:Ej.
  - exists cur. split; [exact Hc | now left].
  - eapply jail_settles; eassumption.
Qed.

Lemma sweep_fold_settles : forall l (s : state) w,
  nonneg (vals s) -> In w l ->
  In (v_addr w) (map v_addr (vals s)) -> eligible_status (v_status w) = true ->
  is_alive s (v_addr w) = false -> in_grace s (v_addr w) = false ->
  settled (v_addr w) (fold_left sweep_one l s).
Proof.
  induction l as [|x r IH]; intros s w Hn Hl Hin He Ha Hg; [contradiction|].
  cbn [fold_left]. destruct Hl as [->|Hl].
  - apply sweep_fold_settled_pres; [now apply sweep_one_nonneg | now apply sweep_one_settles].
  - apply IH; auto.
    + now apply sweep_one_nonneg.
    + now rewrite sweep_one_addrs.
    + rewrite <- Ha. apply is_alive_ext; apply sweep_one_preserves; [apply frame_alive | apply frame_height].
    + rewrite <- Hg. apply in_grace_ext; apply sweep_one_preserves; [apply frame_grace | apply frame_height].
Qed.

(** the sweep settles every eligible, silent, out-of-grace validator that was unjailed when it started *)
Lemma sweep_settles : forall (s : state) v,
  nonneg (vals s) -> In v (vals s) -> v_jailed v = false -> eligible_status (v_status v) = true ->
  is_alive s (v_addr v) = false -> in_grace s (v_addr v) = false ->
  settled (v_addr v) (sweep s).
Proof.
  intros s v Hn Hin Hj He Ha Hg. unfold sweep. apply sweep_fold_settles; auto.
  - unfold unjailed. apply filter_In. split; [exact Hin | now rewrite Hj].
  - now apply in_map.
Qed.

(** ** The sweep never touches a validator with an unexpired keep-alive, or inside its grace period *)
Lemma sweep_one_skips : forall (s : state) w a,
  is_alive s a = true \/ in_grace s a = true ->
  find_val a (vals (sweep_one s w)) = find_val a (vals s).
Proof.
  intros s w a H. unfold sweep_one.
  destruct (negb (eligible_status (v_status w))); [reflexivity|].
  destruct (is_alive s (v_addr w)) eqn:Ea; [reflexivity|].
  destruct (in_grace s (v_addr w)) eqn:Eg; [reflexivity|].
  destruct (find_val (v_addr w) (vals s)) as [cur|]; [|reflexivity].
  destruct (v_jailed cur); [reflexivity|].
  assert (Hne : addr_eqb a (v_addr w) = false).
  { apply addr_eqb_neq. intros ->. destruct H; congruence. }
  destruct (jail_cases s (v_addr w)) as [E|[vb [_ [_ [_ [_ E]]]]]]; rewrite E; cbn [fst]; [reflexivity|].
  cbn [set_jail vals]. rewrite find_val_set_jailed, Hne. now destruct (find_val a (vals s)).
Qed.

Lemma sweep_fold_skips : forall l (s : state) a,
  is_alive s a = true \/ in_grace s a = true ->
  find_val a (vals (fold_left sweep_one l s)) = find_val a (vals s).
Proof.
  induction l as [|w r IH]; intros s a H; cbn [fold_left]; [reflexivity|].
  rewrite IH; [now apply sweep_one_skips|].
  destruct H as [H|H]; [left|right]; rewrite <- H.
  - apply is_alive_ext; apply sweep_one_preserves; [apply frame_alive | apply frame_height].
  - apply in_grace_ext; apply sweep_one_preserves; [apply frame_grace | apply frame_height].
Qed.

(** ** UpdateGracePeriod *)
Lemma grant_fold_lookup : forall h prev cur g a,
  lookup a (fold_left (grant h prev) cur g) =
  if mem a cur && negb (mem a prev) then Some h else lookup a g.
Proof.
  intros h prev cur. induction cur as [|c r IH]; intros g a; cbn [fold_left]; [reflexivity|].
  rewrite IH. unfold mem at 3. cbn [existsb]. fold (mem a r).
  unfold grant. destruct (addr_eqb a c) eqn:Eac.
  - apply addr_eqb_eq in Eac. subst c. cbn [orb].
    destruct (mem a prev) eqn:Ep; cbn [negb andb].
    + rewrite andb_false_r. reflexivity.
    + rewrite andb_true_r. rewrite lookup_cons, addr_eqb_refl. now destruct (mem a r).
  - cbn [orb]. destruct (mem c prev); [reflexivity|].
    rewrite lookup_cons. rewrite addr_eqb_sym, Eac. reflexivity.
Qed.

Lemma update_grace_spec : forall (s s1 : state), update_grace s = Some s1 ->
  exists blob, encode (unjailed_addrs (vals s)) = Some blob /\
  s1 = set_snapshot s (fold_left (grant (height s) (read_snapshot s)) (unjailed_addrs (vals s)) (grace s))
                    blob (unjailed_addrs (vals s)).
Proof.
  intros s s1 H. unfold update_grace in H.
  destruct (encode (unjailed_addrs (vals s))) as [blob|]; [|discriminate].
  inversion H. eauto.
Qed.

Lemma update_grace_lookup : forall (s s1 : state) a, update_grace s = Some s1 ->
  lookup a (grace s1) =
  if mem a (unjailed_addrs (vals s)) && negb (mem a (read_snapshot s)) then Some (height s) else lookup a (grace s).
Proof.
  intros s s1 a H. apply update_grace_spec in H as [blob [_ ->]]. cbn [set_snapshot grace].
  apply grant_fold_lookup.
Qed.

Definition wf_state (s : state) : Prop :=
  Forall wf_addr (map v_addr (vals s)) /\ nonneg (vals s).

Lemma unjailed_addrs_incl : forall vs a, In a (unjailed_addrs vs) -> In a (map v_addr vs).
Proof.
  intros vs a H. unfold unjailed_addrs, unjailed in H. apply in_map_iff in H as [v [<- Hv]].
  apply filter_In in Hv as [Hv _]. now apply in_map.
Qed.

Lemma update_grace_total : forall s : state, wf_state s -> exists s1, update_grace s = Some s1.
Proof.
  intros s [Hw _]. unfold update_grace.
  destruct (encode_total (unjailed_addrs (vals s))) as [blob E].
  - rewrite Forall_forall in *. intros a Ha. apply Hw. now apply unjailed_addrs_incl.
  - rewrite E. eauto.
Qed.

(** ** The snapshot invariant: once the legacy entry is gone, the stored blob decodes to exactly
    the validators that were unjailed at the end of the last processed block *)
Definition snap_inv (s : state) : Prop := snap_legacy s = None -> read_snapshot s = prev_unjailed s.

Lemma snap_inv_fields : forall s s' : state, snapfields s' = snapfields s -> snap_inv s -> snap_inv s'.
Proof.
  intros s s' E H. unfold snapfields in E. inversion E as [[E1 E2 E3]].
  unfold snap_inv, read_snapshot in *. rewrite E1, E2, E3. exact H.
Qed.

Lemma update_grace_snap_inv : forall s s1 : state, update_grace s = Some s1 -> snap_inv s1 /\ snap_legacy s1 = None.
Proof.
  intros s s1 H. apply update_grace_spec in H as [blob [E ->]]. split; [|reflexivity].
  intros _. unfold read_snapshot. cbn [set_snapshot snap_legacy snap prev_unjailed].
  now apply decode_encode.
Qed.

Lemma end_block_cases : forall s : state,
  (end_block s = (s, false)) \/
  (exists s1, update_grace s = Some s1 /\
     end_block s = (if is_check_height (height s1) then sweep s1 else s1, true)).
Proof.
  intros s. unfold end_block. destruct (update_grace s) as [s1|]; [right; eauto | now left].
Qed.

Lemma sweep_preserves : forall {X} (f : state -> X), jail_frame f -> forall s, f (sweep s) = f s.
Proof. intros X f Hf s. unfold sweep. now apply sweep_fold_preserves. Qed.

Lemma end_block_snap_inv : forall s : state, snap_inv s -> snap_inv (fst (end_block s)).
Proof.
  intros s H. destruct (end_block_cases s) as [E|[s1 [Hu E]]]; rewrite E; cbn [fst]; [exact H|].
  apply update_grace_snap_inv in Hu as [Hi _].
  destruct (is_check_height (height s1)); [|exact Hi].
  eapply snap_inv_fields; [|exact Hi]. apply sweep_preserves, frame_snapfields.
Qed.

Lemma step_snap_inv : forall (s : state) o, snap_inv s -> snap_inv (step vlt s o).
Proof.
  intros s o H. destruct o; cbn [step].
  - destruct (find_val a (vals s)); [exact H|]. destruct (wf_addrb a); exact H.
  - destruct (valid_status st && (0 <=? pw)); exact H.
  - unfold begin_block. destruct (sched s) as [[v t]|]; [|exact H].
    destruct (t <=? height s); [|exact H]. unfold set_min. destruct (vlt v (minver s)); exact H.
  - unfold keep_alive. destruct (find_val a (vals s)); [|exact H]. destruct (vlt ver (minver s)); exact H.
  - unfold set_min. destruct (vlt ver (minver s)); exact H.
  - unfold schedule. destruct (vlt ver (minver s)); exact H.
  - exact H.
  - exact H.
  - eapply snap_inv_fields; [|exact H]. apply (jail_preserves snapfields frame_snapfields).
  - apply end_block_snap_inv in H. exact H.
  - exact H.
Qed.

Lemma run_snap_inv : forall ops (s : state), snap_inv s -> snap_inv (run vlt ops s).
Proof.
  induction ops as [|o r IH]; intros s H; cbn [run fold_left]; [exact H|].
  apply IH. now apply step_snap_inv.
Qed.

Lemma init_snap_inv : forall h t legacy m, snap_inv (@init version h t legacy m).
Proof. intros h t legacy m E. cbn in E. subst legacy. reflexivity. Qed.

(** ** Well-formedness is an invariant *)
Lemma sweep_wf : forall s : state, wf_state s -> wf_state (sweep s).
Proof.
  intros s [Hw Hn]. unfold sweep. generalize (unjailed (vals s)) as l. intros l.
  revert s Hw Hn. induction l as [|w r IH]; intros s Hw Hn; cbn [fold_left]; [now split|].
  apply IH; [now rewrite sweep_one_addrs | now apply sweep_one_nonneg].
Qed.

Lemma end_block_wf : forall s : state, wf_state s -> wf_state (fst (end_block s)).
Proof.
  intros s H. destruct (end_block_cases s) as [E|[s1 [Hu E]]]; rewrite E; cbn [fst]; [exact H|].
  apply update_grace_spec in Hu as [blob [_ ->]].
  assert (W : wf_state (set_snapshot s (fold_left (grant (height s) (read_snapshot s)) (unjailed_addrs (vals s)) (grace s))
                                     blob (unjailed_addrs (vals s)))) by exact H.
  destruct (is_check_height _); [now apply sweep_wf | exact W].
Qed.

Lemma step_wf : forall (s : state) o, wf_state s -> wf_state (step vlt s o).
Proof.
  intros s o H. destruct o; cbn [step].
  - destruct (find_val a (vals s)); [exact H|]. destruct (wf_addrb a) eqn:Ew; [|exact H].
    destruct H as [Hw Hn]. split; cbn [set_vals vals].
    + rewrite Forall_forall in *. intros x Hx. apply in_map_iff in Hx as [v [<- Hv]].
      apply insert_val_in in Hv as [->|Hv]; [now apply wf_addrb_iff | apply Hw; now apply in_map].
    + unfold nonneg in *. rewrite Forall_forall in *. intros v Hv.
      apply insert_val_in in Hv as [->|Hv]; [cbn; lia | now apply Hn].
  - destruct (valid_status st && (0 <=? pw)) eqn:E; [|exact H].
    apply andb_true_iff in E as [_ E]. apply Z.leb_le in E.
    destruct H as [Hw Hn]. split; cbn [set_vals vals]; [now rewrite map_addr_set_env | now apply nonneg_set_env].
  - unfold begin_block. destruct (sched s) as [[v t]|]; [|exact H].
    destruct (t <=? height s); [|exact H]. unfold set_min. destruct (vlt v (minver s)); exact H.
  - unfold keep_alive. destruct (find_val a (vals s)); [|exact H]. destruct (vlt ver (minver s)); exact H.
  - unfold set_min. destruct (vlt ver (minver s)); exact H.
  - unfold schedule. destruct (vlt ver (minver s)); exact H.
  - destruct H as [Hw Hn]. split; cbn [set_vals vals]; [now rewrite map_addr_set_jailed | now apply nonneg_set_jailed].
  - destruct H as [Hw Hn]. split; cbn [set_vals vals]; [now rewrite map_addr_set_jailed | now apply nonneg_set_jailed].
  - destruct H as [Hw Hn]. split; [now rewrite jail_addrs | now apply jail_nonneg].
  - apply end_block_wf in H. exact H.
  - exact H.
Qed.

Lemma run_wf : forall ops (s : state), wf_state s -> wf_state (run vlt ops s).
Proof.
  induction ops as [|o r IH]; intros s H; cbn [run fold_left]; [exact H|].
  apply IH. now apply step_wf.
Qed.

Lemma init_wf : forall h t legacy m, wf_state (@init version h t legacy m).
Proof. intros. split; constructor. Qed.

End Machine.

(** * Property-level statements *)
Section Statements.
Variable version : Type.
Variable vlt : version -> version -> bool.
Notation state := (state version).

Lemma settled_set_clock : forall (s : state) a h t, settled version a s -> settled version a (set_clock s h t).
Proof. intros s a h t H. exact H. Qed.

(** Headline 1.  In every history, at every liveness-check height: a bonded or unbonding, unjailed
    validator without an unexpired keep-alive, that was already unjailed at the end of the previous
    block and whose last grace period (if any) is over, is — after this end-block — jailed, or
    exempt by the network-protection rules evaluated on the resulting validator set. *)
Theorem inactive_jailed_at_next_check_proof : forall h0 t0 legacy m ops v dh dt,
  let s := run vlt ops (init h0 t0 legacy m) in
  is_check_height (height s) = true ->
  In v (vals s) -> eligible_status (v_status v) = true -> v_jailed v = false ->
  is_alive s (v_addr v) = false ->
  snap_legacy s = None -> In (v_addr v) (prev_unjailed s) ->
  in_grace s (v_addr v) = false ->
  exists v', find_val (v_addr v) (vals (step vlt s (EndBlock dh dt))) = Some v' /\
             (v_jailed v' = true \/ protected (vals (step vlt s (EndBlock dh dt))) v').
Proof.
  intros h0 t0 legacy m ops v dh dt s Hc Hin He Hj Ha Hl Hp Hg.
  assert (W : wf_state version s) by (apply run_wf, init_wf).
  assert (I : snap_inv version s) by (apply run_snap_inv, init_snap_inv).
  destruct (update_grace_total version s W) as [s1 Hu].
  change (settled version (v_addr v) (step vlt s (EndBlock dh dt))).
  cbn [step]. apply settled_set_clock.
  unfold end_block. rewrite Hu. cbn [fst].
  pose proof (update_grace_lookup version s s1 (v_addr v) Hu) as Hlk.
  apply update_grace_spec in Hu as [blob [_ E]].
  assert (Hh : height s1 = height s) by (rewrite E; reflexivity).
  assert (Hv : vals s1 = vals s) by (rewrite E; reflexivity).
  assert (Hal : alive s1 = alive s) by (rewrite E; reflexivity).
  rewrite Hh, Hc.
  apply sweep_settles; auto.
  - rewrite Hv. apply W.
  - now rewrite Hv.
  - rewrite <- Ha. now apply is_alive_ext.
  - rewrite <- Hg. unfold in_grace. rewrite Hh, Hlk.
    rewrite (I Hl). apply mem_In in Hp. rewrite Hp. cbn [negb]. rewrite andb_false_r. reflexivity.
Qed.

(** Headline 2.  In ANY state, the end-block leaves a validator with an unexpired keep-alive exactly
    as it was (in particular it is not jailed); likewise a validator whose grace period is running
    after the grace update; and nobody is jailed at a height that is not a check height. *)
Theorem alive_never_jailed_proof : forall (s : state) a dh dt,
  is_alive s a = true ->
  find_val a (vals (step vlt s (EndBlock dh dt))) = find_val a (vals s).
Proof.
  intros s a dh dt Ha. cbn [step]. change (vals (set_clock ?x _ _)) with (vals x).
  destruct (end_block_cases version s) as [E|[s1 [Hu E]]]; rewrite E; cbn [fst]; [reflexivity|].
  apply update_grace_spec in Hu as [blob [_ Es]].
  assert (Hv : vals s1 = vals s) by (rewrite Es; reflexivity).
  destruct (is_check_height (height s1)); [|now rewrite Hv].
  unfold sweep. rewrite sweep_fold_skips; [now rewrite Hv|].
  left. rewrite <- Ha. apply is_alive_ext; rewrite Es; reflexivity.
Qed.

Theorem grace_never_jailed_proof : forall (s s1 : state) a,
  update_grace s = Some s1 -> in_grace s1 a = true ->
  find_val a (vals (fst (end_block s))) = find_val a (vals s).
Proof.
  intros s s1 a Hu Hg. unfold end_block. rewrite Hu. cbn [fst].
  assert (Hv : vals s1 = vals s).
  { apply update_grace_spec in Hu as [blob [_ Es]]. rewrite Es. reflexivity. }
  destruct (is_check_height (height s1)); [|now rewrite Hv].
  unfold sweep. rewrite sweep_fold_skips; [now rewrite Hv | now right].
Qed.

Theorem no_jailing_between_checks_proof : forall (s : state) dh dt,
  is_check_height (height s) = false -> vals (step vlt s (EndBlock dh dt)) = vals s.
Proof.
  intros s dh dt Hc. cbn [step]. change (vals (set_clock ?x _ _)) with (vals x).
  destruct (end_block_cases version s) as [E|[s1 [Hu E]]]; rewrite E; cbn [fst]; [reflexivity|].
  apply update_grace_spec in Hu as [blob [_ Es]].
  assert (Hh : height s1 = height s) by (rewrite Es; reflexivity).
  rewrite Hh, Hc, Es. reflexivity.
Qed.

(** Grace periods start exactly for the validators that are unjailed now and were not unjailed at
    the end of the previous block — in every history, once the legacy entry is gone. *)
Theorem grace_only_when_newly_unjailed_proof : forall h0 t0 legacy m ops s1 a,
  let s := run vlt ops (init h0 t0 legacy m) in
  snap_legacy s = None -> update_grace s = Some s1 ->
  (In a (prev_unjailed s) -> lookup a (grace s1) = lookup a (grace s)) /\
  (~ In a (unjailed_addrs (vals s)) -> lookup a (grace s1) = lookup a (grace s)) /\
  (In a (unjailed_addrs (vals s)) -> ~ In a (prev_unjailed s) -> lookup a (grace s1) = Some (height s)) /\
  prev_unjailed s1 = unjailed_addrs (vals s) /\ snap_legacy s1 = None.
Proof.
  intros h0 t0 legacy m ops s1 a s Hl Hu.
  assert (I : snap_inv version s) by (apply run_snap_inv, init_snap_inv).
  pose proof (update_grace_lookup version s s1 a Hu) as Hlk. rewrite (I Hl) in Hlk.
  repeat split.
  - intros Hp. apply mem_In in Hp. rewrite Hlk, Hp. cbn [negb]. now rewrite andb_false_r.
  - intros Hn. rewrite Hlk. destruct (mem a (unjailed_addrs (vals s))) eqn:E; [|reflexivity].
    apply mem_In in E. contradiction.
  - intros Hc Hn. rewrite Hlk. apply mem_In in Hc. rewrite Hc.
    destruct (mem a (prev_unjailed s)) eqn:E; [apply mem_In in E; contradiction | reflexivity].
  - apply update_grace_spec in Hu as [blob [_ ->]]. reflexivity.
  - apply update_grace_spec in Hu as [blob [_ ->]]. reflexivity.
Qed.

(** Keep-alives *)
Theorem old_relayers_refused_proof : forall (s : state) a ver,
  vlt ver (minver s) = true -> keep_alive vlt s a ver = (s, false).
Proof.
  intros s a ver H. unfold keep_alive. destruct (find_val a (vals s)); [rewrite H|]; reflexivity.
Qed.

Theorem keep_alive_accepted_proof : forall (s s' : state) a ver,
  keep_alive vlt s a ver = (s', true) ->
  vlt ver (minver s) = false /\ (exists v, find_val a (vals s) = Some v) /\
  lookup a (alive s') = Some (height s + Gen.C12.keep_alive_ttl) /\ is_alive s' a = true /\ vals s' = vals s.
Proof.
  intros s s' a ver H. unfold keep_alive in H.
  destruct (find_val a (vals s)) as [v|] eqn:Ef; [|discriminate].
  destruct (vlt ver (minver s)) eqn:Ev; [discriminate|].
  inversion H; subst s'; clear H.
  assert (L : lookup a (alive (set_alive s ((a, height s + Gen.C12.keep_alive_ttl) :: alive s)))
              = Some (height s + Gen.C12.keep_alive_ttl)).
  { cbn [set_alive alive]. rewrite lookup_cons, addr_eqb_refl. reflexivity. }
  repeat split; eauto.
  unfold is_alive. rewrite L. cbn [set_alive height]. apply Z.ltb_lt. pose proof ttl_pos. lia.
Qed.

(** The minimum version never decreases along any history *)
Section MinVersion.
Hypothesis vlt_irrefl : forall a, vlt a a = false.
Hypothesis vlt_negtrans : forall a b c, vlt a b = false -> vlt b c = false -> vlt a c = false.

Lemma end_block_minver : forall s : state, minver (fst (end_block s)) = minver s.
Proof.
  intros s. destruct (end_block_cases version s) as [E|[s1 [Hu E]]]; rewrite E; cbn [fst]; [reflexivity|].
  apply update_grace_spec in Hu as [blob [_ Es]].
  assert (Hm : minver s1 = minver s) by (rewrite Es; reflexivity).
  destruct (is_check_height (height s1)); [|exact Hm].
  rewrite (sweep_preserves version (@minver version) (frame_minver version)). exact Hm.
Qed.

Lemma step_minver : forall (s : state) o, vlt (minver (step vlt s o)) (minver s) = false.
Proof.
  intros s o. destruct o; cbn [step].
  - destruct (find_val a (vals s)); [apply vlt_irrefl|]. destruct (wf_addrb a); apply vlt_irrefl.
  - destruct (valid_status st && (0 <=? pw)); apply vlt_irrefl.
  - unfold begin_block. destruct (sched s) as [[v t]|]; [|apply vlt_irrefl].
    destruct (t <=? height s); [|apply vlt_irrefl].
    unfold set_min. destruct (vlt v (minver s)) eqn:E; cbn [fst]; [apply vlt_irrefl | exact E].
  - unfold keep_alive. destruct (find_val a (vals s)); [|apply vlt_irrefl].
    destruct (vlt ver (minver s)); apply vlt_irrefl.
  - unfold set_min. destruct (vlt ver (minver s)) eqn:E; cbn [fst]; [apply vlt_irrefl | exact E].
  - unfold schedule. destruct (vlt ver (minver s)); apply vlt_irrefl.
  - apply vlt_irrefl.
  - apply vlt_irrefl.
  - rewrite (jail_preserves version (@minver version) (frame_minver version)). apply vlt_irrefl.
  - change (minver (set_clock ?x _ _)) with (minver x). rewrite end_block_minver. apply vlt_irrefl.
  - apply vlt_irrefl.
Qed.

Theorem min_version_monotone_proof : forall ops (s : state), vlt (minver (run vlt ops s)) (minver s) = false.
Proof.
  induction ops as [|o r IH]; intros s; cbn [run fold_left]; [apply vlt_irrefl|].
  eapply vlt_negtrans; [apply IH | apply step_minver].
Qed.
End MinVersion.

(** What a successful Jail records *)
Theorem jail_records_proof : forall (s s' : state) a, jail s a = (s', true) ->
  let d := match lookup a (jlog s) with
           | Some (d0, t0) => if now s - t0 <? Z.max Gen.C12.reset_floor (d0 + Z.quot d0 Gen.C12.reset_div)
                              then next_sentence d0 else hd 0 Gen.C12.jail_sentences
           | None => hd 0 Gen.C12.jail_sentences
           end in
  lookup a (jlog s') = Some (d, now s) /\ lookup a (until s') = Some (now s + d) /\
  (exists v, find_val a (vals s') = Some v /\ v_jailed v = true) /\
  (exists v, find_val a (vals s) = Some v /\ v_jailed v = false /\ ~ protected (vals s) v).
Proof.
  intros s s' a H d.
  assert (Ed : d = sentence_for s a).
  { unfold d, sentence_for, reset_threshold. rewrite first_sentence. reflexivity. }
  destruct (jail_cases version s a) as [E|[v [Hf [Hj [Hc [Hs E]]]]]]; rewrite E in H; [discriminate|].
  inversion H; subst s'; clear H. cbn [set_jail jlog until vals].
  rewrite !lookup_cons, !addr_eqb_refl, find_val_set_jailed, Hf, addr_eqb_refl, Ed.
  repeat split.
  - eexists. split; reflexivity.
  - exists v. repeat split; auto. intros [P|P]; [contradiction | congruence].
Qed.

End Statements.

(** Sentence schedule: the table is walked one step at a time and capped *)
Theorem sentence_table_proof :
  (forall i, (i < length Gen.C12.jail_sentences)%nat ->
     next_sentence (nth i Gen.C12.jail_sentences 0)
     = nth (Nat.min (S i) (length Gen.C12.jail_sentences - 1)) Gen.C12.jail_sentences 0) /\
  (forall d, In (next_sentence d) Gen.C12.jail_sentences) /\
  (forall d, d < last Gen.C12.jail_sentences 0 -> d < next_sentence d) /\
  (forall d, next_sentence d <= last Gen.C12.jail_sentences 0) /\
  next_sentence 0 = hd 0 Gen.C12.jail_sentences.
Proof.
  split; [|split; [|split; [|split]]].
  - apply table_walk.
  - apply next_sentence_in.
  - apply next_sentence_gt.
  - apply next_sentence_le_last.
  - apply first_sentence.
Qed.

(** * Non-vacuity: concrete histories (versions = integers ordered by [<]) *)
Module Examples.
Definition a0 : addr := comma_addr.                 (* contains 0x2c *)
Definition a1 : addr := repeat 161 20.
Definition a2 : addr := repeat 178 20.
Definition a3 : addr := repeat 195 20.
Definition a4 : addr := repeat 212 20.
Definition setup : list (op Z) :=
  flat_map (fun a => [AddVal a; SetEnv a 3 1]) [a0; a1; a2; a3; a4].
(** five bonded validators with 20% each; a1..a4 send a keep-alive in block 1, a0 never does *)
Definition silent_history : list (op Z) :=
  setup ++ map (fun a => KeepAlive a 7) [a1; a2; a3; a4] ++ repeat (EndBlock 1 2000000000) 59.
Definition s59 : state Z := run Z.ltb silent_history (init 1 0 None 7).
Definition v0 : val := {| v_addr := a0; v_status := 3; v_jailed := false; v_power := 1 |}.

(** the hypotheses of [inactive_jailed_at_next_check] are met at height 60 by the validator whose
    address contains 0x2c, and it is jailed by that end-block with the first sentence *)
Example inactive_example :
  height s59 = 60 /\ is_check_height (height s59) = true /\ In v0 (vals s59) /\
  is_alive s59 a0 = false /\ snap_legacy s59 = None /\ In a0 (prev_unjailed s59) /\ in_grace s59 a0 = false /\
  lookup a0 (grace s59) = Some 1 /\
  let s' := step Z.ltb s59 (EndBlock 1 2000000000) in
  find_val a0 (vals s') = Some (with_jailed true v0) /\
  lookup a0 (jlog s') = Some (60000000000, now s59) /\
  is_alive s59 a1 = true /\ find_val a1 (vals s') = find_val a1 (vals s59).
Proof. vm_compute. repeat split; auto 10. Qed.

(** the same validator under the 25% rule: with four validators of equal power nobody exceeds 25%,
    the first silent one is jailed; the remaining three then hold a third each and are protected *)
Definition four : list (op Z) :=
  flat_map (fun a => [AddVal a; SetEnv a 3 1]) [a0; a1; a2; a3] ++ repeat (EndBlock 1 2000000000) 60.
Example protection_example :
  let s := run Z.ltb four (init 1 0 None 7) in
  map v_jailed (vals s) = [true; false; false; false] /\
  forall v, In v (tl (vals s)) -> protected (vals s) v.
Proof.
  vm_compute. split; [reflexivity|].
  intros v [<-|[<-|[<-|[]]]]; right; reflexivity.
Qed.

(** grace: a validator unjailed in block 62 gets grace start 62 and is not jailed at 70, 80, 90; it is at 100 *)
Definition regrace : list (op Z) :=
  silent_history ++ [EndBlock 1 2000000000; EndBlock 1 2000000000; Unjail a0] ++ repeat (EndBlock 1 2000000000) 29.
Example grace_example :
  let s := run Z.ltb regrace (init 1 0 None 7) in
  height s = 91 /\ lookup a0 (grace s) = Some 62 /\ find_val a0 (vals s) = Some v0 /\
  let s2 := run Z.ltb (repeat (EndBlock 1 2000000000) 10) s in
  height s2 = 101 /\ find_val a0 (vals s2) = Some (with_jailed true v0) /\
  (* second jailing 80 s after the first: the sentence escalates to the second table entry *)
  lookup a0 (jlog s2) = Some (300000000000, 198000000000).
Proof. vm_compute. repeat split. Qed.

Example versions_example :
  let s := run Z.ltb [SetMin 9; SetMin 8; Schedule 12 5; Schedule 3 5; BeginBlock] (init 5 0 None 7) in
  minver s = 12 /\ sched s = None /\
  keep_alive Z.ltb (run Z.ltb setup s) a1 11 = (run Z.ltb setup s, false) /\
  snd (keep_alive Z.ltb (run Z.ltb setup s) a1 12) = true.
Proof. vm_compute. repeat split. Qed.
End Examples.
