(** C12 — proofs about the model in KeepAlive.v. *)
From Coq Require Import List ZArith Bool Lia.
From Paloma Require Import Base.Corr Valset.KeepAlive.
From Paloma Require Gen.C12.
Import ListNotations.
Open Scope Z_scope.

(** * Address equality *)

Lemma addr_eqb_eq : forall a b, addr_eqb a b = true <-> a = b.
Proof. apply list_eqb_eq. intros x y. apply Z.eqb_eq. Qed.

Lemma addr_eqb_refl : forall a, addr_eqb a a = true.
Proof. intros a. now apply addr_eqb_eq. Qed.

Lemma addr_eqb_neq : forall a b, addr_eqb a b = false <-> a <> b.
Proof.
  intros a b. split.
  - intros H E. apply addr_eqb_eq in E. congruence.
  - intros H. destruct (addr_eqb a b) eqn:E; [apply addr_eqb_eq in E; contradiction | reflexivity].
Qed.

Lemma addr_eqb_sym : forall a b, addr_eqb a b = addr_eqb b a.
Proof.
  intros a b. destruct (addr_eqb a b) eqn:E.
  - apply addr_eqb_eq in E. subst. symmetry. apply addr_eqb_refl.
  - apply addr_eqb_neq in E. symmetry. apply addr_eqb_neq. congruence.
Qed.

Lemma mem_In : forall a l, mem a l = true <-> In a l.
Proof.
  intros a l. unfold mem. rewrite existsb_exists. split.
  - intros [x [Hx E]]. apply addr_eqb_eq in E. now subst.
  - intros H. exists a. split; [assumption | apply addr_eqb_refl].
Qed.

(** * The snapshot codec *)

Lemma decode_aux_encode : forall l bs fuel,
  encode l = Some bs -> (length bs <= fuel)%nat -> decode_aux fuel bs = l.
Proof.
  induction l as [|a r IH]; intros bs fuel He Hf.
  - cbn in He. inversion He; subst. destruct fuel; reflexivity.
  - cbn [encode] in He. destruct (wf_addrb a) eqn:Hw; [|discriminate].
    destruct (encode r) as [br|] eqn:Er; [|discriminate].
    inversion He; subst bs; clear He.
    destruct fuel as [|f]; [cbn in Hf; lia|].
    cbn [decode_aux].
    rewrite app_length.
    replace (Z.of_nat (length a + length br) <? Z.of_nat (length a)) with false
      by (symmetry; apply Z.ltb_ge; lia).
    rewrite Nat2Z.id.
    rewrite firstn_app, Nat.sub_diag, firstn_all. cbn [firstn]. rewrite app_nil_r.
    rewrite skipn_app, Nat.sub_diag, skipn_all. cbn [skipn app].
    f_equal. apply IH; [reflexivity|].
    cbn [length] in Hf. rewrite app_length in Hf. lia.
Qed.

(** decode is a left inverse of encode — for every list of addresses, whatever bytes they contain *)
Lemma decode_encode : forall l bs, encode l = Some bs -> decode bs = l.
Proof. intros l bs H. unfold decode. eapply decode_aux_encode; [eassumption | lia]. Qed.

Lemma wf_addrb_iff : forall a, wf_addrb a = true <-> wf_addr a.
Proof. intros a. unfold wf_addrb, wf_addr. apply Z.leb_le. Qed.

Lemma encode_total : forall l, Forall wf_addr l -> exists bs, encode l = Some bs.
Proof.
  induction l as [|a r IH]; intros H.
  - now exists [].
  - inversion H as [|? ? Ha Hr]; subst. destruct (IH Hr) as [br Er].
    cbn [encode]. apply wf_addrb_iff in Ha. rewrite Ha, Er. eauto.
Qed.

Lemma codec_roundtrip : forall l, Forall wf_addr l ->
  exists bs, encode l = Some bs /\ decode bs = l.
Proof.
  intros l H. destruct (encode_total l H) as [bs E]. exists bs. split; [assumption|].
  now apply decode_encode.
Qed.

(** Non-vacuity, and the witness of the defect of the comma-joined format (kept for the legacy
    reader, which is still in the code): an address containing 0x2c does not survive it. *)
Definition comma_addr : addr := [0; 17; 44; 51; 68; 85; 102; 119; 136; 153; 170; 187; 204; 221; 238; 255; 0; 17; 34; 51].

Example codec_roundtrip_example :
  exists bs, encode [comma_addr; [44; 44]; []] = Some bs /\ decode bs = [comma_addr; [44; 44]; []].
Proof. eexists. split; reflexivity. Qed.

Lemma legacy_codec_not_injective :
  Forall wf_addr [comma_addr] /\ legacy_split (legacy_join [comma_addr]) <> [comma_addr].
Proof.
  split.
  - repeat constructor. unfold wf_addr. cbn. lia.
  - vm_compute. discriminate.
Qed.
