(** C10 — model of the valset keeper's snapshot life cycle
    (x/valset/keeper/keeper.go: createNewSnapshot, ValidatorSupportsAllChains, TriggerSnapshotBuild,
     setSnapshotAsCurrent, SetSnapshotOnChain, GetCurrentSnapshot, FindSnapshotByID).
    Definitions only; proofs are in SnapshotProofs.v.

    Validators and external addresses are abstract identifiers ([Z]); the harness numbers them.
    Chain reference ids, chain types and account traits are the Go strings themselves (Coq [string]
    = byte sequence): whether two of them are "the same chain" is decided by the model exactly as
    the code decides it ([String.eqb] = Go's [==] / map lookup on strings), not by the harness.
    Stakes are [Z] (sdk math.Int).  The snapshot store is the KV store under prefix "snapshot": an
    association list where [save] shadows (= overwrites) the key. *)
From Coq Require Import String Ascii.
From Coq Require Import List ZArith Bool.
From Paloma Require Import Base.Num.
Import ListNotations.
Open Scope Z_scope.

(** One registered external account (valset ExternalChainInfo): chain type, chain reference id
    (both as spelled at registration), remote address, traits. *)
Record extinfo := { ei_type : string; ei_chain : string; ei_addr : Z; ei_traits : list string }.

(** strings.ToLower as far as a comparison of its result with an all-ASCII lower-case constant is
    concerned: bytes 'A'..'Z' become 'a'..'z', every other byte is kept.  (Go maps runes: outside
    ASCII only U+212A and U+0130 have an ASCII lower case, 'k' and 'i'; invalid UTF-8 becomes
    U+FFFD.  Hence for a constant without 'k' / 'i', such as "evm", Go's result equals the constant
    exactly when this byte-wise one does.) *)
Definition lower_byte (a : ascii) : ascii :=
  let n := N_of_ascii a in if ((65 <=? n) && (n <=? 90))%N then ascii_of_N (n + 32) else a.
Fixpoint to_lower (s : string) : string :=
  match s with EmptyString => EmptyString | String a r => String (lower_byte a) (to_lower r) end.

(** A staking validator as IterateValidators yields it. *)
Record sval := { sv_addr : Z; sv_bonded : bool; sv_jailed : bool; sv_tokens : Z }.

(** staking ValidatorI.GetBondedTokens: tokens when bonded, else zero. *)
Definition bonded_tokens (v : sval) : Z := if sv_bonded v then sv_tokens v else 0.

Record snapval := { v_addr : Z; v_share : Z; v_infos : list extinfo }.
Record snapshot := { sn_id : Z; sn_vals : list snapval; sn_total : Z; sn_chains : list string }.

Record state := {
  st_vals : list sval;                     (* staking validators, iteration order *)
  st_infos : list (Z * list extinfo);      (* valset external-chain-info store: validator -> accounts *)
  st_chains : list (string * bool);        (* evm keeper's chain-info store as GetAllChainInfos yields it: (reference id, IsActive) *)
  st_snaps : list (Z * snapshot);          (* valset store, prefix "snapshot" *)
  st_counter : Z                           (* id generator, key "snapshot-id" *)
}.

Definition init : state :=
  {| st_vals := []; st_infos := []; st_chains := []; st_snaps := []; st_counter := 0 |}.

Fixpoint alookup {A} (k : Z) (l : list (Z * A)) : option A :=
  match l with
  | [] => None
  | (k', a) :: r => if k' =? k then Some a else alookup k r
  end.

(** GetValidatorChainInfos: nil when nothing is registered. *)
Definition infos_of (st : state) (a : Z) : list extinfo :=
  match alookup a (st_infos st) with Some l => l | None => [] end.

(** evm Keeper.MissingChains(inputChainReferenceIDs): a set of the input ids (map keyed by the id as
    given), then a walk over all chain infos: inactive ones are skipped, an active one whose
    reference id is not a key of the map is reported.  Keys are compared as Go compares strings:
    byte for byte ([String.eqb]); no case folding, trimming or other normalisation (the translator
    pins the key expressions and the calls made in the function body). *)
Definition id_in (c : string) (ids : list string) : bool := existsb (String.eqb c) ids.
Definition missing_chains (input : list string) (chains : list (string * bool)) : list string :=
  map fst (filter (fun ch => snd ch && negb (id_in (fst ch) input)) chains).

(** the reference ids of the active chains *)
Definition st_active (st : state) : list string := map fst (filter snd (st_chains st)).

(** ValidatorSupportsAllChains: the reference ids of the validator's accounts (the chain type is
    not looked at), MissingChains of them, [len(missingChains) == 0]. *)
Definition supports_all (st : state) (a : Z) : bool :=
  match missing_chains (map ei_chain (infos_of st a)) (st_chains st) with [] => true | _ :: _ => false end.

Definition has_account (c : string) (l : list extinfo) : bool := existsb (fun e => String.eqb (ei_chain e) c) l.

Definition eligible (st : state) (v : sval) : bool :=
  sv_bonded v && negb (sv_jailed v) && supports_all st (sv_addr v).

Definition snapval_of (st : state) (v : sval) : snapval :=
  {| v_addr := sv_addr v; v_share := bonded_tokens v; v_infos := infos_of st (sv_addr v) |}.

(** createNewSnapshot (id is assigned later; chains start empty). *)
Definition create (st : state) : snapshot :=
  let vs := filter (eligible st) (st_vals st) in
  {| sn_id := 0;
     sn_vals := map (snapval_of st) vs;
     sn_total := zsum (map bonded_tokens vs);
     sn_chains := [] |}.

Definition with_id (id : Z) (sn : snapshot) : snapshot :=
  {| sn_id := id; sn_vals := sn_vals sn; sn_total := sn_total sn; sn_chains := sn_chains sn |}.

(** The only change a stored snapshot can undergo. *)
Definition add_chains (cs : list string) (sn : snapshot) : snapshot :=
  {| sn_id := sn_id sn; sn_vals := sn_vals sn; sn_total := sn_total sn; sn_chains := sn_chains sn ++ cs |}.

Definition find_snapshot (st : state) (id : Z) : option snapshot := alookup id (st_snaps st).

(** GetCurrentSnapshot: the entry under the last issued id. *)
Definition current (st : state) : option snapshot := find_snapshot st (st_counter st).

Definition save (id : Z) (sn : snapshot) (st : state) : state :=
  {| st_vals := st_vals st; st_infos := st_infos st; st_chains := st_chains st;
     st_snaps := (id, sn) :: st_snaps st; st_counter := st_counter st |}.

(** setSnapshotAsCurrent: id := ++counter, store under it. *)
Definition set_as_current (sn : snapshot) (st : state) : state :=
  let id := st_counter st + 1 in
  {| st_vals := st_vals st; st_infos := st_infos st; st_chains := st_chains st;
     st_snaps := (id, with_id id sn) :: st_snaps st; st_counter := id |}.

(** SetSnapshotOnChain: load by id (error when absent: nothing written), append, save under the
    loaded snapshot's own id field. *)
Definition set_on_chain (id : Z) (c : string) (st : state) : state :=
  match find_snapshot st id with
  | None => st
  | Some sn => save (sn_id sn) (add_chains [c] sn) st
  end.

(** Operations of a history.  Staking changes, (accepted) registrations and the set of active
    chains (the evm keeper's chain-info store, with the activity flag) are the environment; [OBuild worthy] is TriggerSnapshotBuild where [worthy] is the
    implementation's isNewSnapshotWorthy verdict (taken as an input: the property constrains what a
    stored snapshot contains, not when one is stored). *)
Inductive op :=
| OStaking (vs : list sval)
| ORegister (a : Z) (infos : list extinfo) (accepted : bool)
| OChains (cs : list (string * bool))
| OBuild (worthy : bool)
| OSetOnChain (id : Z) (c : string).

Definition step (st : state) (o : op) : state :=
  match o with
  | OStaking vs =>
      {| st_vals := vs; st_infos := st_infos st; st_chains := st_chains st;
         st_snaps := st_snaps st; st_counter := st_counter st |}
  | ORegister a infos accepted =>
      if accepted then
        {| st_vals := st_vals st; st_infos := (a, infos) :: st_infos st; st_chains := st_chains st;
           st_snaps := st_snaps st; st_counter := st_counter st |}
      else st
  | OChains cs =>
      {| st_vals := st_vals st; st_infos := st_infos st; st_chains := cs;
         st_snaps := st_snaps st; st_counter := st_counter st |}
  | OBuild worthy => if worthy then set_as_current (create st) st else st
  | OSetOnChain id c => set_on_chain id c st
  end.

Definition run (ops : list op) : state := fold_left step ops init.
