(** C10 — model of the valset keeper's snapshot life cycle
    (x/valset/keeper/keeper.go: createNewSnapshot, ValidatorSupportsAllChains, TriggerSnapshotBuild,
     setSnapshotAsCurrent, SetSnapshotOnChain, GetCurrentSnapshot, FindSnapshotByID).
    Definitions only; proofs are in SnapshotProofs.v.

    Validators, chains and external addresses are abstract identifiers ([Z]); the harness numbers
    them.  Stakes are [Z] (sdk math.Int).  The snapshot store is the KV store under prefix
    "snapshot": an association list where [save] shadows (= overwrites) the key. *)
From Coq Require Import List ZArith Bool.
From Paloma Require Import Base.Num.
Import ListNotations.
Open Scope Z_scope.

(** One registered external account (valset ExternalChainInfo): chain type is "evm" up to case
    ([ei_evm]), chain reference id, remote address. *)
Record extinfo := { ei_evm : bool; ei_chain : Z; ei_addr : Z }.

(** A staking validator as IterateValidators yields it. *)
Record sval := { sv_addr : Z; sv_bonded : bool; sv_jailed : bool; sv_tokens : Z }.

(** staking ValidatorI.GetBondedTokens: tokens when bonded, else zero. *)
Definition bonded_tokens (v : sval) : Z := if sv_bonded v then sv_tokens v else 0.

Record snapval := { v_addr : Z; v_share : Z; v_infos : list extinfo }.
Record snapshot := { sn_id : Z; sn_vals : list snapval; sn_total : Z; sn_chains : list Z }.

Record state := {
  st_vals : list sval;                     (* staking validators, iteration order *)
  st_infos : list (Z * list extinfo);      (* valset external-chain-info store: validator -> accounts *)
  st_active : list Z;                      (* reference ids of the evm keeper's active chains *)
  st_snaps : list (Z * snapshot);          (* valset store, prefix "snapshot" *)
  st_counter : Z                           (* id generator, key "snapshot-id" *)
}.

Definition init : state :=
  {| st_vals := []; st_infos := []; st_active := []; st_snaps := []; st_counter := 0 |}.

Fixpoint alookup {A} (k : Z) (l : list (Z * A)) : option A :=
  match l with
  | [] => None
  | (k', a) :: r => if k' =? k then Some a else alookup k r
  end.

(** GetValidatorChainInfos: nil when nothing is registered. *)
Definition infos_of (st : state) (a : Z) : list extinfo :=
  match alookup a (st_infos st) with Some l => l | None => [] end.

(** ValidatorSupportsAllChains / evm MissingChains: every active chain's reference id occurs among
    the validator's accounts (the chain type is not looked at there). *)
Definition has_account (c : Z) (l : list extinfo) : bool := existsb (fun e => ei_chain e =? c) l.
Definition supports_all (st : state) (a : Z) : bool :=
  forallb (fun c => has_account c (infos_of st a)) (st_active st).

Definition eligible (st : state) (v : sval) : bool :=
  sv_bonded v && negb (sv_jailed v) && supports_all st (sv_addr v).

Definition snapval_of (st : state) (v : sval) : snapval :=
  {| v_addr := sv_addr v; v_share := bonded_tokens v; v_infos := infos_of st (sv_addr v) |}.

(** createNewSnapshot (id is assigned later; chains start empty). *)
Definition create (st : state) : snapshot :=
  let vs := filter (eligible st) (st_vals st) in
  {| sn_id := 0;
     sn_vals := map (snapval_of st) vs;
     sn_total := zsum (map bonded_tokens vs);
     sn_chains := [] |}.

Definition with_id (id : Z) (sn : snapshot) : snapshot :=
  {| sn_id := id; sn_vals := sn_vals sn; sn_total := sn_total sn; sn_chains := sn_chains sn |}.

(** The only change a stored snapshot can undergo. *)
Definition add_chains (cs : list Z) (sn : snapshot) : snapshot :=
  {| sn_id := sn_id sn; sn_vals := sn_vals sn; sn_total := sn_total sn; sn_chains := sn_chains sn ++ cs |}.

Definition find_snapshot (st : state) (id : Z) : option snapshot := alookup id (st_snaps st).

(** GetCurrentSnapshot: the entry under the last issued id. *)
Definition current (st : state) : option snapshot := find_snapshot st (st_counter st).

Definition save (id : Z) (sn : snapshot) (st : state) : state :=
  {| st_vals := st_vals st; st_infos := st_infos st; st_active := st_active st;
     st_snaps := (id, sn) :: st_snaps st; st_counter := st_counter st |}.

(** setSnapshotAsCurrent: id := ++counter, store under it. *)
Definition set_as_current (sn : snapshot) (st : state) : state :=
  let id := st_counter st + 1 in
  {| st_vals := st_vals st; st_infos := st_infos st; st_active := st_active st;
     st_snaps := (id, with_id id sn) :: st_snaps st; st_counter := id |}.

(** SetSnapshotOnChain: load by id (error when absent: nothing written), append, save under the
    loaded snapshot's own id field. *)
Definition set_on_chain (id c : Z) (st : state) : state :=
  match find_snapshot st id with
  | None => st
  | Some sn => save (sn_id sn) (add_chains [c] sn) st
  end.

(** Operations of a history.  Staking changes, (accepted) registrations and the set of active
    chains are the environment; [OBuild worthy] is TriggerSnapshotBuild where [worthy] is the
    implementation's isNewSnapshotWorthy verdict (taken as an input: the property constrains what a
    stored snapshot contains, not when one is stored). *)
Inductive op :=
| OStaking (vs : list sval)
| ORegister (a : Z) (infos : list extinfo) (accepted : bool)
| OActive (cs : list Z)
| OBuild (worthy : bool)
| OSetOnChain (id c : Z).

Definition step (st : state) (o : op) : state :=
  match o with
  | OStaking vs =>
      {| st_vals := vs; st_infos := st_infos st; st_active := st_active st;
         st_snaps := st_snaps st; st_counter := st_counter st |}
  | ORegister a infos accepted =>
      if accepted then
        {| st_vals := st_vals st; st_infos := (a, infos) :: st_infos st; st_active := st_active st;
           st_snaps := st_snaps st; st_counter := st_counter st |}
      else st
  | OActive cs =>
      {| st_vals := st_vals st; st_infos := st_infos st; st_active := cs;
         st_snaps := st_snaps st; st_counter := st_counter st |}
  | OBuild worthy => if worthy then set_as_current (create st) st else st
  | OSetOnChain id c => set_on_chain id c st
  end.

Definition run (ops : list op) : state := fold_left step ops init.
