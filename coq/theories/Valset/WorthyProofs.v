(** C10 (round 2) — proofs about the isNewSnapshotWorthy / TriggerSnapshotBuild model (Valset/Worthy.v). *)
From Coq Require Import String.
From Coq Require Import List ZArith Bool Lia Permutation.
From Paloma Require Import Base.Num Valset.Snapshot Valset.SnapshotProofs Valset.Worthy.
From Paloma Require Gen.C10.
Import ListNotations.
Open Scope Z_scope.

(** * Real histories are histories of the first-round model *)

Lemma rfold_is_fold ops : forall st,
  fold_left rstep ops st = fold_left step (resolve_from st ops) st.
Proof. induction ops as [|o r IH]; intros st; cbn [fold_left resolve_from]; [reflexivity | apply IH]. Qed.

(** Every history in which TriggerSnapshotBuild decides by itself whether to store is one of the
    histories [run] ranges over: all theorems about [run] hold for it. *)
Lemma rrun_is_run ops : rrun ops = run (resolve_from init ops).
Proof. unfold rrun, run. apply rfold_is_fold. Qed.

Lemma rrun_app ops ops' : rrun (ops ++ ops') = fold_left rstep ops' (rrun ops).
Proof. unfold rrun. apply fold_left_app. Qed.

Lemma wf_rrun ops : wf (rrun ops).
Proof. rewrite rrun_is_run. apply wf_run. Qed.

Lemma rstep_build st :
  rstep st RBuild = if build_verdict st then set_as_current (create st) st else st.
Proof. reflexivity. Qed.

(** * The sort *)

Lemma insert_asc_perm x l : Permutation (insert_asc x l) (x :: l).
Proof.
  induction l as [|y r IH]; cbn [insert_asc]; [reflexivity|].
  destruct (v_share x <? v_share y); [reflexivity|].
  etransitivity; [apply perm_skip, IH | apply perm_swap].
Qed.

Lemma sort_asc_perm l : Permutation (sort_asc l) l.
Proof.
  unfold sort_asc.
  assert (G : forall acc, Permutation (fold_left (fun acc x => insert_asc x acc) l acc) (l ++ acc)).
  { induction l as [|x r IH]; intros acc; cbn [fold_left app]; [reflexivity|].
    etransitivity; [apply IH|].
    etransitivity; [apply Permutation_app_head, insert_asc_perm|].
    symmetry. apply Permutation_middle. }
  etransitivity; [apply G|]. now rewrite app_nil_r.
Qed.

Lemma sort_asc_length l : length (sort_asc l) = length l.
Proof. apply Permutation_length, sort_asc_perm. Qed.

(** * What a refusal to store means *)

Lemma combine_all_eq {A} (f : A -> Z) l1 : forall l2,
  length l1 = length l2 ->
  existsb (fun p => negb (f (fst p) =? f (snd p))) (combine l1 l2) = false ->
  map f l1 = map f l2.
Proof.
  induction l1 as [|x r IH]; intros [|y s] L H; cbn in *; try reflexivity; try discriminate.
  apply orb_false_iff in H as [H1 H2]. apply negb_false_iff, Z.eqb_eq in H1.
  rewrite H1. f_equal. apply IH; [lia | exact H2].
Qed.

Lemma existsb_false_forall {A} (f : A -> bool) l :
  existsb f l = false -> forall x, In x l -> f x = false.
Proof.
  intros H x Hx. destruct (f x) eqn:E; [|reflexivity].
  assert (existsb f l = true) by (apply existsb_exists; eauto). congruence.
Qed.

(** When TriggerSnapshotBuild does not store the snapshot it has just built, the current snapshot
    holds the same validators, in the same order by share, every stake fraction (18 decimals,
    truncated) within 1 % of the new one, and each validator's account keys (with their traits) are
    still registered. *)
Lemma unstored_is_close cur new :
  worthy (Some cur) new = false ->
  length (sn_vals cur) = length (sn_vals new) /\
  map v_addr (sort_asc (sn_vals cur)) = map v_addr (sort_asc (sn_vals new)) /\
  Permutation (map v_addr (sn_vals cur)) (map v_addr (sn_vals new)) /\
  (forall c n, In (c, n) (combine (sort_asc (sn_vals cur)) (sort_asc (sn_vals new))) ->
     v_addr c = v_addr n /\
     Z.abs (fraction (v_share c) (sn_total cur) - fraction (v_share n) (sn_total new)) < one_percent /\
     length (v_infos c) = length (v_infos n) /\
     forall e, In e (v_infos c) -> exists e', In e' (v_infos n) /\ acc_key e' = acc_key e).
Proof.
  cbn [worthy]. unfold worthy_vs. cbv zeta. intros H.
  apply orb_false_iff in H as [H H6]. apply orb_false_iff in H as [H H5].
  apply orb_false_iff in H as [H H4]. apply orb_false_iff in H as [H2 H3].
  apply negb_false_iff, Nat.eqb_eq in H2.
  assert (L : length (sort_asc (sn_vals cur)) = length (sort_asc (sn_vals new)))
    by (now rewrite !sort_asc_length).
  pose proof (combine_all_eq v_addr _ _ L H4) as E.
  split; [exact H2|]. split; [exact E|]. split.
  - etransitivity; [symmetry; apply Permutation_map, sort_asc_perm|].
    rewrite E. apply Permutation_map, sort_asc_perm.
  - intros c n Hin.
    pose proof (existsb_false_forall _ _ H4 _ Hin) as A4. cbn in A4.
    apply negb_false_iff, Z.eqb_eq in A4.
    pose proof (existsb_false_forall _ _ H5 _ Hin) as A5. unfold moved, float_ge_one_percent in A5. cbn in A5.
    apply Z.leb_gt in A5.
    pose proof (existsb_false_forall _ _ H6 _ Hin) as A6. unfold accounts_changed in A6. cbn in A6.
    apply orb_false_iff in A6 as [A6 A7]. apply negb_false_iff, Nat.eqb_eq in A6.
    split; [exact A4|]. split; [exact A5|]. split; [exact A6|].
    intros e He. pose proof (existsb_false_forall _ _ A7 _ He) as A8. unfold account_changed in A8.
    destruct (lookup_last (acc_key e) (v_infos n)) as [e'|] eqn:F.
    + unfold lookup_last in F. apply find_some in F as [F1 F2]. exists e'. split; [now apply in_rev|].
      unfold key_eqb in F2. apply andb_true_iff in F2 as [K1 K2].
      apply String.eqb_eq in K1. apply Z.eqb_eq in K2.
      destruct (acc_key e') as [a b], (acc_key e) as [a' b']. cbn in *. now subst.
    + destruct (lookup_last (acc_key e) (v_infos c)); discriminate.
Qed.

Lemma first_build_is_stored new : worthy None new = true.
Proof. reflexivity. Qed.

(** After every TriggerSnapshotBuild of a real history there is a current snapshot, and it is either
    the snapshot just created (under the next id) or — the build was not stored — a snapshot that
    [unstored_is_close] relates to the one just created. *)
Lemma after_build ops :
  let st := rrun ops in
  let st' := rstep st RBuild in
  exists cur, current st' = Some cur /\
    ((build_verdict st = true /\ cur = with_id (st_counter st + 1) (create st) /\ st_counter st' = st_counter st + 1)
     \/ (build_verdict st = false /\ st' = st /\ current st = Some cur /\ worthy (Some cur) (create st) = false)).
Proof.
  intros st st'. subst st'. rewrite rstep_build.
  destruct (build_verdict st) eqn:V.
  - exists (with_id (st_counter st + 1) (create st)). split.
    + unfold current. cbn [st_counter set_as_current]. rewrite find_set_as_current. now rewrite Z.eqb_refl.
    + left. repeat split; reflexivity.
  - unfold build_verdict in V. destruct (current st) as [cur|] eqn:C; [|discriminate V].
    exists cur. split; [reflexivity|]. right. repeat split; auto.
Qed.

(** * The source has the shape [worthy] follows (translator output): the early [return true]s of
    isNewSnapshotWorthy in order (everything else returns false), the sort comparator, the two
    stake fractions, the account key; TriggerSnapshotBuild stores only behind the verdict. *)
Lemma source_worthy_shape :
  Gen.C10.worthy_return_true_conditions =
    ["currentSnapshot == nil";
     "len(currentSnapshot.GetValidators()) != len(newSnapshot.GetValidators())";
     "_, ok := currentMap[val.GetAddress().String()]; !ok";
     "!sortedCurrent[i].GetAddress().Equals(sortedNew[i].GetAddress())";
     "percentageCurrent.Sub(percentageNow).Abs().MustFloat64() >= 0.01";
     "len(currentVal.ExternalChainInfos) != len(newVal.ExternalChainInfos)";
     "!ok";
     "len(newv.Traits) != len(currv.Traits)";
     "_, fnd := newTraitMap[k]; !fnd"]%string /\
  Gen.C10.worthy_sort_less = "ret[i].ShareCount.LT(ret[j].ShareCount)"%string /\
  Gen.C10.worthy_fractions =
    ["percentageCurrent := sdkmath.LegacyNewDecFromInt(sortedCurrent[i].ShareCount).QuoInt(currentSnapshot.TotalShares)";
     "percentageNow := sdkmath.LegacyNewDecFromInt(sortedNew[i].ShareCount).QuoInt(newSnapshot.TotalShares)"]%string /\
  Gen.C10.worthy_account_key =
    "fmt.Sprintf(""%s-%s-%s"", acc.GetChainReferenceID(), acc.GetChainType(), acc.GetAddress())"%string /\
  Gen.C10.trigger_build_calls =
    ["createNewSnapshot"; "GetCurrentSnapshot"; "isNewSnapshotWorthy"; "setSnapshotAsCurrent"; "jailReasonStore"]%string /\
  Gen.C10.trigger_build_guard = "if !worthy { return nil, nil }"%string.
Proof. repeat split; reflexivity. Qed.

(** * The stores of x/valset/keeper (translator, round 3): every prefix store, the functions that
    write through it and those that delete through it.  The snapshot id counter lives under prefix
    "IDs" (the id generator [ider], written only from setSnapshotAsCurrent); the jail log shares that
    prefix.  NOTHING deletes under "IDs" and nothing deletes under "snapshot": the counter can only
    grow and a stored snapshot is never removed, as [step] assumes.  (Keys under the shared prefix:
    the counter's key is the 25-byte text "generated-ids-snapshot-id", a jail-log key is a 20-byte
    address.) *)
Lemma source_stores_shape :
  Gen.C10.valset_stores =
    ["[]byte(""IDs"") | ider | set: setSnapshotAsCurrent | delete: ";
     "[]byte(""IDs"") | jailLog | set: Jail | delete: ";
     "[]byte(""external-chain-info"") | _externalChainInfoStore | set:  | delete: ";
     "[]byte(""grace-period"") | gracePeriodStore | set: UpdateGracePeriod | delete: ";
     "[]byte(""jail-reasons"") | jailReasonStore | set: Jail | delete: TriggerSnapshotBuild";
     "[]byte(""keep-alive/"") | keepAliveStore | set: KeepValidatorAlive | delete: ";
     "[]byte(""snapshot"") | snapshotStore | set: SaveModifiedSnapshot,SetSnapshotOnChain,setSnapshotAsCurrent | delete: ";
     "[]byte(""unjailed-snapshot"") | unjailedSnapshotStore | set: UpdateGracePeriod | delete: UpdateGracePeriod";
     "_externalChainInfoStore+[]byte( fmt.Sprintf(""val-%s"", val.String()), ) | externalChainInfoStore | set: SetExternalChainInfoState | delete: ";
     "types.PigeonStoreKey | pigeonStore | set: SetPigeonRequirements,SetScheduledPigeonRequirements | delete: SetPigeonRequirements"]%string /\
  Gen.C10.valset_unresolved_store_ops = [].
Proof. split; reflexivity. Qed.

(** * Non-vacuity: the boundary of the 1 % test, a trait change, a re-spelt chain type *)

Local Open Scope string_scope.

Definition acc (ty ch : string) (a : Z) (tr : list string) : extinfo :=
  {| ei_type := ty; ei_chain := ch; ei_addr := a; ei_traits := tr |}.
Definition snap2 (s0 s1 : Z) (i0 i1 : list extinfo) : snapshot :=
  {| sn_id := 1; sn_vals := [ {| v_addr := 0; v_share := s0; v_infos := i0 |}; {| v_addr := 1; v_share := s1; v_infos := i1 |} ];
     sn_total := s0 + s1; sn_chains := [] |}.

Example ex_worthy :
  let a0 := [acc "evm" "c0" 10 []] in
  let a1 := [acc "evm" "c0" 11 ["mev"]] in
  let cur := snap2 400000000000000000 600000000000000000 a0 a1 in
  (* fractions move by 10^16 - 1 raw units: not stored; by 10^16: stored *)
  worthy (Some cur) (snap2 409999999999999999 590000000000000001 a0 a1) = false /\
  worthy (Some cur) (snap2 410000000000000000 590000000000000000 a0 a1) = true /\
  (* the ranking flips *)
  worthy (Some cur) (snap2 500000000000000001 499999999999999999 a0 a1) = true /\
  (* a trait added / the chain type re-spelt / an account re-ordered with a second one *)
  worthy (Some cur) (snap2 400000000000000000 600000000000000000 a0 [acc "evm" "c0" 11 ["mev"; "fast"]]) = true /\
  worthy (Some cur) (snap2 400000000000000000 600000000000000000 [acc "EVM" "c0" 10 []] a1) = true /\
  worthy (Some cur) (snap2 400000000000000000 600000000000000000 a0 a1) = false /\
  worthy None cur = true.
Proof. vm_compute. repeat split; reflexivity. Qed.
