(** C10 (round 2) — model of valset Keeper.isNewSnapshotWorthy and of TriggerSnapshotBuild with the
    verdict computed by the model instead of taken from the implementation
    (x/valset/keeper/keeper.go).  Definitions only; proofs are in WorthyProofs.v, the float test
    is justified in WorthyFloat.v.

    isNewSnapshotWorthy(current, new) returns true (the new snapshot is stored) when
      1. there is no current snapshot, or
      2. the numbers of validators differ, or
      3. a validator of the new snapshot is not in the current one, or
      4. sorted by share (sort.SliceStable, strict "less": the unique stable ascending order) the two
         validator sequences differ at some position, or
      5. at some position |share_cur*10^18 quo total_cur - share_new*10^18 quo total_new|
         (LegacyDec: 18 decimals, QuoInt truncates), converted to float64, is >= 0.01, or
      6. at some position the account lists differ in length, or an account key
         "ref-type-address" of the current validator is absent from the new one, or the traits of
         the two accounts under that key differ in number or a current trait is missing
         (slice.MakeMapKeys: the last account under a key wins).
    Every step is an early [return true]; the function is their disjunction. *)
From Coq Require Import String.
From Coq Require Import List ZArith Bool.
From Paloma Require Import Base.Num Valset.Snapshot.
Import ListNotations.
Open Scope Z_scope.

(** sort.SliceStable(ret, ShareCount.LT): with a strict order a stable sort has exactly one
    result; insertion behind the elements that are not greater computes it. *)
Fixpoint insert_asc (x : snapval) (l : list snapval) : list snapval :=
  match l with
  | [] => [x]
  | y :: r => if v_share x <? v_share y then x :: y :: r else y :: insert_asc x r
  end.
Definition sort_asc (l : list snapval) : list snapval :=
  fold_left (fun acc x => insert_asc x acc) l [].

(** LegacyNewDecFromInt(share).QuoInt(total): raw decimal, big.Int.Quo truncates (Go panics on
    total = 0: a bonded set without tokens, excluded — [Z.quot _ 0 = 0] here). *)
Definition dec_prec : Z := 1000000000000000000.
Definition fraction (share total : Z) : Z := Z.quot (share * dec_prec) total.

(** [d.MustFloat64() >= 0.01] for a raw decimal d >= 0: strconv.ParseFloat of the 18-digit decimal
    string is the correctly rounded binary64, 0.01 is the binary64 nearest to 1/100; the comparison
    of the two holds exactly when d >= 10^16 (WorthyFloat.dec_float_ge_one_percent). *)
Definition one_percent : Z := 10000000000000000.
Definition float_ge_one_percent (d : Z) : bool := one_percent <=? d.

Definition moved (cur new : snapshot) (p : snapval * snapval) : bool :=
  float_ge_one_percent
    (Z.abs (fraction (v_share (fst p)) (sn_total cur) - fraction (v_share (snd p)) (sn_total new))).

(** fmt.Sprintf("%s-%s-%s", ref, type, address): addresses have a fixed width and no '-', so two
    keys are equal exactly when "ref-type" and the address are. *)
Definition acc_key (e : extinfo) : string * Z := ((ei_chain e ++ "-" ++ ei_type e)%string, ei_addr e).
Definition key_eqb (k1 k2 : string * Z) : bool := String.eqb (fst k1) (fst k2) && (snd k1 =? snd k2).

(** m[key]: the last account of the list under that key *)
Definition lookup_last (k : string * Z) (l : list extinfo) : option extinfo :=
  find (fun e => key_eqb (acc_key e) k) (rev l).

Definition traits_differ (c n : extinfo) : bool :=
  negb (Nat.eqb (length (ei_traits n)) (length (ei_traits c)))
  || existsb (fun t => negb (existsb (String.eqb t) (ei_traits n))) (ei_traits c).

(** one key of the current validator's map against the new validator's map *)
Definition account_changed (cur_infos new_infos : list extinfo) (e : extinfo) : bool :=
  match lookup_last (acc_key e) cur_infos, lookup_last (acc_key e) new_infos with
  | Some c, Some n => traits_differ c n
  | _, None => true
  | None, Some _ => false   (* unreachable: e is in cur_infos *)
  end.

Definition accounts_changed (p : snapval * snapval) : bool :=
  let c := v_infos (fst p) in
  let n := v_infos (snd p) in
  negb (Nat.eqb (length c) (length n)) || existsb (account_changed c n) c.

Definition worthy_vs (cur new : snapshot) : bool :=
  let sc := sort_asc (sn_vals cur) in
  let sn := sort_asc (sn_vals new) in
  let ps := combine sc sn in
  negb (Nat.eqb (length (sn_vals cur)) (length (sn_vals new)))
  || existsb (fun v => negb (existsb (fun c => v_addr c =? v_addr v) (sn_vals cur))) (sn_vals new)
  || existsb (fun p => negb (v_addr (fst p) =? v_addr (snd p))) ps
  || existsb (moved cur new) ps
  || existsb accounts_changed ps.

Definition worthy (cur : option snapshot) (new : snapshot) : bool :=
  match cur with None => true | Some c => worthy_vs c new end.

(** * Histories in which nothing but the environment is an input *)

(** TriggerSnapshotBuild: createNewSnapshot, GetCurrentSnapshot, isNewSnapshotWorthy, and only
    then setSnapshotAsCurrent. *)
Definition build_verdict (st : state) : bool := worthy (current st) (create st).

Inductive rop :=
| RStaking (vs : list sval)
| RRegister (a : Z) (infos : list extinfo) (accepted : bool)
| RChains (cs : list (string * bool))
| RBuild
| RSetOnChain (id : Z) (c : string).

(** the operation of the first-round model that a real operation is in state [st] *)
Definition resolve (st : state) (o : rop) : op :=
  match o with
  | RStaking vs => OStaking vs
  | RRegister a infos acc => ORegister a infos acc
  | RChains cs => OChains cs
  | RBuild => OBuild (build_verdict st)
  | RSetOnChain id c => OSetOnChain id c
  end.

Definition rstep (st : state) (o : rop) : state := step st (resolve st o).
Definition rrun (ops : list rop) : state := fold_left rstep ops init.

(** the resolved history *)
Fixpoint resolve_from (st : state) (ops : list rop) : list op :=
  match ops with
  | [] => []
  | o :: r => resolve st o :: resolve_from (rstep st o) r
  end.
