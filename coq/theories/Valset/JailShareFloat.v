(* C12 -- Keeper.Jail's 25%-share guard: the Go float64 test agrees with the
   exact integer test used by the model.

   Go (x/valset/keeper/keeper.go, Keeper.Jail):
     if float64(consensusPower)/float64(totalConsensusPower) > 0.25 { refuse }
   with consensusPower, totalConsensusPower : int64, both >= 0.
   The Coq model uses  4*cp >? total .  [jail_share_float_exact] proves that
   the IEEE-754 binary64 evaluation (Flocq 4.1.0, BinarySingleNaN; round to
   nearest even; division by zero gives +Inf / NaN; comparisons with NaN are
   false) returns the same boolean whenever both powers are below 2^53.
   [jail_share_float_bound_needed] shows the bound cannot be dropped.

   Self-contained: depends only on the Coq standard library and Flocq. *)
From Coq Require Import ZArith Reals Lia Lra Bool.
From Flocq Require Import Core BinarySingleNaN.
Open Scope Z_scope.

(* binary64 *)
Definition prec := 53.
Definition emax := 1024.
Global Instance prec_gt_0_f64 : Prec_gt_0 prec.
Proof. reflexivity. Qed.
Global Instance prec_lt_emax_f64 : Prec_lt_emax prec emax.
Proof. reflexivity. Qed.

Definition f64 := binary_float prec emax.

(* Go float64(int64 z): round to nearest even; exact for |z| < 2^53 *)
Definition f64_of_Z (z : Z) : f64 :=
  binary_normalize prec emax prec_gt_0_f64 prec_lt_emax_f64 mode_NE z 0 false.
(* the constant 0.25 (untyped Go constant, converted exactly) *)
Definition f64_quarter : f64 :=
  binary_normalize prec emax prec_gt_0_f64 prec_lt_emax_f64 mode_NE 1 (-2) false.
(* Go  float64(cp)/float64(total) > 0.25 *)
Definition share_gt_quarter_f64 (cp total : Z) : bool :=
  Bltb f64_quarter (Bdiv mode_NE (f64_of_Z cp) (f64_of_Z total)).

Local Notation fexp64 := (SpecFloat.fexp prec emax).
Local Notation rnd := (round radix2 fexp64 ZnearestE).

Local Instance fexp64_valid : Valid_exp fexp64 := fexp_correct prec emax prec_gt_0_f64.

Lemma gen_fmt : forall m e, Z.abs m < 2^53 -> -1074 <= e ->
  generic_format radix2 fexp64 (F2R (Float radix2 m e)).
Proof.
  intros m e Hm He.
  apply (generic_format_FLT radix2 (-1074) 53).
  exists (Float radix2 m e); auto.
Qed.

Lemma F2R_e0 : forall z, F2R (Float radix2 z 0) = IZR z.
Proof. intros. unfold F2R. simpl. ring. Qed.

Lemma gen_fmt_Z : forall z, Z.abs z < 2^53 -> generic_format radix2 fexp64 (IZR z).
Proof. intros. rewrite <- F2R_e0. apply gen_fmt; lia. Qed.

Lemma IZR_2_53 : IZR (2^53) = bpow radix2 53.
Proof. rewrite <- (IZR_Zpower radix2 53) by lia. reflexivity. Qed.

Lemma bpow_m2 : bpow radix2 (-2) = (/4)%R.
Proof. reflexivity. Qed.
Lemma bpow_m54 : bpow radix2 (-54) = (/ 18014398509481984)%R.
Proof. reflexivity. Qed.

Lemma gen_fmt_quarter : generic_format radix2 fexp64 (/4)%R.
Proof.
  rewrite <- bpow_m2. apply (generic_format_FLT_bpow radix2 (-1074) 53). lia.
Qed.

Lemma f64_of_Z_correct : forall z, 0 <= z < 2^53 ->
  B2R (f64_of_Z z) = IZR z /\ is_finite (f64_of_Z z) = true /\
  Bsign (f64_of_Z z) = false.
Proof.
  intros z Hz.
  generalize (binary_normalize_correct prec emax prec_gt_0_f64 prec_lt_emax_f64 mode_NE z 0 false).
  cbv zeta. rewrite F2R_e0.
  change (round_mode mode_NE) with ZnearestE.
  rewrite round_generic; [| auto with typeclass_instances | apply gen_fmt_Z; lia].
  rewrite Rlt_bool_true.
  - intros (H1 & H2 & H3). fold (f64_of_Z z) in *.
    repeat split; auto. rewrite H3.
    destruct (Rcompare_spec (IZR z) 0); auto.
    apply lt_IZR in H. lia.
  - rewrite Rabs_pos_eq by (apply IZR_le; lia).
    apply Rlt_trans with (bpow radix2 53).
    + rewrite <- IZR_2_53. apply IZR_lt; lia.
    + apply bpow_lt. reflexivity.
Qed.

Lemma f64_quarter_correct :
  B2R f64_quarter = (/4)%R /\ is_finite f64_quarter = true.
Proof.
  generalize (binary_normalize_correct prec emax prec_gt_0_f64 prec_lt_emax_f64 mode_NE 1 (-2) false).
  cbv zeta.
  replace (F2R (Float radix2 1 (-2))) with (/4)%R by (unfold F2R; simpl; lra).
  change (round_mode mode_NE) with ZnearestE.
  rewrite round_generic; [| auto with typeclass_instances | apply gen_fmt_quarter].
  rewrite Rlt_bool_true.
  - intros (H1 & H2 & H3). fold f64_quarter in *. auto.
  - rewrite Rabs_pos_eq by lra.
    apply Rlt_trans with (bpow radix2 0).
    + simpl. lra.
    + apply bpow_lt. reflexivity.
Qed.

Lemma g_val : F2R (Float radix2 (2^52+1) (-54)) = (/4 + / 18014398509481984)%R.
Proof.
  unfold F2R. cbn [Fnum Fexp]. rewrite bpow_m54.
  change (2^52+1) with 4503599627370497. lra.
Qed.

Lemma gen_fmt_g : generic_format radix2 fexp64 (/4 + / 18014398509481984)%R.
Proof. rewrite <- g_val. apply gen_fmt. reflexivity. lia. Qed.

Lemma round_core : forall cp total, 0 <= cp < 2^53 -> 0 < total < 2^53 ->
  Rlt_bool (/4) (rnd (IZR cp / IZR total)) = (4 * cp >? total).
Proof.
  intros cp total Hcp Ht.
  set (x := (IZR cp / IZR total)%R).
  assert (HT0 : (0 < IZR total)%R) by (apply IZR_lt; lia).
  assert (HT1 : (IZR total <= 9007199254740991)%R) by (apply IZR_le; lia).
  assert (HC0 : (0 <= IZR cp)%R) by (apply IZR_le; lia).
  assert (HiT : (0 < / IZR total)%R) by (apply Rinv_0_lt_compat; auto).
  destruct (Z.gtb_spec (4*cp) total) as [Hgt|Hle].
  - apply Rlt_bool_true.
    assert (H4 : (IZR total + 1 <= 4 * IZR cp)%R).
    { rewrite <- plus_IZR, <- mult_IZR. apply IZR_le. lia. }
    assert (Hx : (1 + / IZR total <= 4 * x)%R).
    { unfold x, Rdiv.
      replace (1 + / IZR total)%R with ((IZR total + 1) * / IZR total)%R by (field; lra).
      rewrite <- Rmult_assoc. apply Rmult_le_compat_r; lra. }
    assert (HiP : (/ 9007199254740992 < / IZR total)%R).
    { apply Rinv_lt_contravar; [| lra].
      apply Rmult_lt_0_compat; lra. }
    assert (Hge : (/4 <= rnd x)%R).
    { apply round_ge_generic; auto with typeclass_instances.
      apply gen_fmt_quarter. lra. }
    destruct (Rle_lt_dec (/4 + / 18014398509481984) x) as [Hgx|Hxg].
    + assert (/4 + / 18014398509481984 <= rnd x)%R.
      { apply round_ge_generic; auto with typeclass_instances. apply gen_fmt_g. }
      lra.
    + destruct (Rlt_le_dec (/4) (rnd x)) as [|Hle]; auto.
      assert (Heq : rnd x = (/4)%R) by lra.
      destruct (round_N_pt radix2 fexp64 (fun t => negb (Z.even t)) x) as [_ Hn].
      specialize (Hn _ gen_fmt_g). fold x in Hn.
      rewrite Heq in Hn.
      rewrite Rabs_left1 in Hn by lra.
      rewrite Rabs_pos_eq in Hn by lra.
      lra.
  - apply Rlt_bool_false.
    apply round_le_generic; auto with typeclass_instances.
    apply gen_fmt_quarter.
    assert (H4 : (4 * IZR cp <= IZR total)%R).
    { rewrite <- mult_IZR. apply IZR_le. lia. }
    unfold x, Rdiv.
    replace (/4)%R with (/4 * IZR total * / IZR total)%R by (field; lra).
    apply Rmult_le_compat_r; lra.
Qed.

Lemma quarter_lt_inf : Bltb f64_quarter (B754_infinity false : f64) = true.
Proof.
  destruct f64_quarter_correct as [H1 H2].
  destruct f64_quarter; try discriminate H2.
  - simpl in H1. lra.
  - reflexivity.
Qed.

Theorem jail_share_float_exact : forall cp total : Z,
  0 <= cp < 2^53 -> 0 <= total < 2^53 ->
  share_gt_quarter_f64 cp total = (4 * cp >? total).
Proof.
  intros cp total Hcp Ht.
  unfold share_gt_quarter_f64.
  destruct (f64_of_Z_correct cp Hcp) as (Rc & Fc & Sc).
  destruct (Z.eq_dec total 0) as [->|Hnz].
  - change (f64_of_Z 0) with (B754_zero false : f64).
    destruct (Z.eq_dec cp 0) as [->|Hcnz].
    + vm_compute. reflexivity.
    + assert (IZR cp <> 0%R) by (apply IZR_neq; auto).
      replace (4 * cp >? 0) with true by (symmetry; apply Z.gtb_lt; lia).
      destruct (f64_of_Z cp); try discriminate Fc.
      * simpl in Rc. congruence.
      * simpl in Sc. subst s. simpl. apply quarter_lt_inf.
  - assert (Ht' : 0 < total < 2^53) by lia.
    destruct (f64_of_Z_correct total Ht) as (Rt & Ft & St).
    destruct f64_quarter_correct as (Rq & Fq).
    assert (HT0 : (0 < IZR total)%R) by (apply IZR_lt; lia).
    generalize (Bdiv_correct prec emax prec_gt_0_f64 prec_lt_emax_f64 mode_NE
                  (f64_of_Z cp) (f64_of_Z total)).
    rewrite Rc, Rt. change (round_mode mode_NE) with ZnearestE.
    intros HD. specialize (HD (Rgt_not_eq _ _ HT0)).
    rewrite Rlt_bool_true in HD.
    + destruct HD as (RD & FD & _).
      rewrite Bltb_correct; [| auto | rewrite FD; auto].
      rewrite RD, Rq. apply round_core; auto.
    + assert (Hx0 : (0 <= IZR cp / IZR total)%R).
      { apply Rmult_le_pos. apply IZR_le; lia. left. apply Rinv_0_lt_compat; auto. }
      assert (Hx1 : (IZR cp / IZR total <= bpow radix2 53)%R).
      { rewrite <- IZR_2_53.
        apply Rle_trans with (IZR cp); [| apply IZR_le; lia].
        assert (1 <= IZR total)%R by (apply IZR_le; lia).
        assert (0 <= IZR cp)%R by (apply IZR_le; lia).
        apply Rmult_le_reg_r with (IZR total); auto.
        unfold Rdiv. rewrite Rmult_assoc, Rinv_l by lra. nra. }
      assert (0 <= rnd (IZR cp / IZR total))%R.
      { apply round_ge_generic; auto with typeclass_instances. apply generic_format_0. }
      assert (rnd (IZR cp / IZR total) <= bpow radix2 53)%R.
      { apply round_le_generic; auto with typeclass_instances.
        apply (generic_format_FLT_bpow radix2 (-1074) 53). lia. }
      rewrite Rabs_pos_eq by auto.
      apply Rle_lt_trans with (bpow radix2 53); auto.
      apply bpow_lt. reflexivity.
Qed.

Example jail_share_float_bound_needed :
  share_gt_quarter_f64 (2^51 + 1) (2^53 + 3) = false /\ (4 * (2^51 + 1) >? 2^53 + 3) = true.
Proof. vm_compute. split; reflexivity. Qed.

(* Sanity: closed instances evaluated by the VM through the same functions. *)
Example share_0_0 : share_gt_quarter_f64 0 0 = false.            (* NaN > 0.25 *)
Proof. vm_compute. reflexivity. Qed.
Example share_1_0 : share_gt_quarter_f64 1 0 = true.             (* +Inf > 0.25 *)
Proof. vm_compute. reflexivity. Qed.
Example share_0_7 : share_gt_quarter_f64 0 7 = false.
Proof. vm_compute. reflexivity. Qed.
Example share_1_4 : share_gt_quarter_f64 1 4 = false.            (* exactly 25% *)
Proof. vm_compute. reflexivity. Qed.
Example share_1_3 : share_gt_quarter_f64 1 3 = true.
Proof. vm_compute. reflexivity. Qed.
Example share_1_5 : share_gt_quarter_f64 1 5 = false.
Proof. vm_compute. reflexivity. Qed.
Example share_tight_gt : share_gt_quarter_f64 (2^51) (2^53 - 1) = true.   (* tightest margin *)
Proof. vm_compute. reflexivity. Qed.
Example share_tight_eq : share_gt_quarter_f64 (2^51 - 1) (2^53 - 4) = false.
Proof. vm_compute. reflexivity. Qed.
Example share_tight_lt : share_gt_quarter_f64 (2^51 - 1) (2^53 - 3) = false.
Proof. vm_compute. reflexivity. Qed.
Example share_tight_gt2 : share_gt_quarter_f64 (2^51 - 1) (2^53 - 5) = true.
Proof. vm_compute. reflexivity. Qed.

Print Assumptions jail_share_float_exact.
