(** C12, second round — proofs about the model in KeepAlive.v that discharge hypotheses of the
    first-round theorems or extend them:
    - the legacy (comma-joined) snapshot: what bytes.Split ∘ bytes.Join gives back, the legacy block
      can only GRANT grace (never deny it, never jail a responsive / entitled validator), and the
      legacy entry is gone for good after the first end-block of any history;
    - the headline without the "legacy entry gone" hypothesis;
    - a grace period that is running before the end-block protects through it;
    - the jail log over histories: every recorded sentence is a table entry, jailed-until = jailed-at
      + sentence, and a repeated jailing inside the reset window moves exactly one entry along the table;
    - observation (d): a validator jailed after the grace update of block h and unjailed before the
      grace update of block h+1 gets no new grace period (witness history). *)
From Coq Require Import List ZArith Bool Lia.
From Paloma Require Import Base.Corr Valset.KeepAlive Valset.KeepAliveProofs.
From Paloma Require Gen.C12.
Import ListNotations.
Open Scope Z_scope.

(** * bytes.Split (bytes.Join l ",") "," *)

Lemma split_aux_app_sep : forall x cur r,
  split_aux cur (x ++ sep :: r) = split_aux cur x ++ split_aux [] r.
Proof.
  induction x as [|b x IH]; intros cur r; cbn [app split_aux].
  - rewrite Z.eqb_refl. reflexivity.
  - destruct (b =? sep); [rewrite IH; reflexivity | apply IH].
Qed.

Lemma legacy_split_join : forall l, l <> [] ->
  legacy_split (legacy_join l) = flat_map legacy_split l.
Proof.
  induction l as [|a r IH]; intros Hne; [contradiction|].
  destruct r as [|b r'].
  - cbn [legacy_join flat_map]. rewrite app_nil_r. reflexivity.
  - change (legacy_join (a :: b :: r')) with (a ++ sep :: legacy_join (b :: r')).
    unfold legacy_split at 1. rewrite split_aux_app_sep.
    change (flat_map legacy_split (a :: b :: r')) with (legacy_split a ++ flat_map legacy_split (b :: r')).
    unfold legacy_split at 1. f_equal. apply IH. discriminate.
Qed.

(** a piece is the whole input (no separator inside) or strictly shorter *)
Lemma split_aux_piece : forall x cur p, In p (split_aux cur x) ->
  p = rev cur ++ x \/ (length p < length cur + length x)%nat.
Proof.
  induction x as [|b x IH]; intros cur p H; cbn [split_aux] in H.
  - destruct H as [<-|[]]. left. now rewrite app_nil_r.
  - destruct (b =? sep).
    + destruct H as [<-|H].
      * right. rewrite rev_length. cbn [length]. lia.
      * apply IH in H. cbn [rev app length] in H. destruct H as [->|H]; right; cbn [length]; lia.
    + apply IH in H. cbn [rev length] in H. destruct H as [->|H].
      * left. rewrite <- app_assoc. reflexivity.
      * right. cbn [length]. lia.
Qed.

Lemma split_aux_nosep : forall x cur, ~ In sep x -> split_aux cur x = [rev cur ++ x].
Proof.
  induction x as [|b x IH]; intros cur H; cbn [split_aux].
  - now rewrite app_nil_r.
  - destruct (b =? sep) eqn:E.
    + apply Z.eqb_eq in E. exfalso. apply H. now left.
    + rewrite IH; [|intros Hx; apply H; now right]. cbn [rev]. now rewrite <- app_assoc.
Qed.

(** Reading back what an earlier binary wrote, for validator addresses of one common length [L]
    (20 bytes on a real chain): a piece that is a validator address is a member of the written list
    (the reader never invents a member), and every member without 0x2c is found. *)
Lemma legacy_read_sound : forall (L : nat) l a,
  Forall (fun x => length x = L) l -> length a = L -> a <> [] ->
  In a (legacy_split (legacy_join l)) -> In a l.
Proof.
  intros L l a Hl Ha Hne H. destruct l as [|x r].
  - cbn in H. destruct H as [H|[]]. congruence.
  - rewrite legacy_split_join in H by discriminate.
    apply in_flat_map in H as [y [Hy Hp]].
    unfold legacy_split in Hp. apply split_aux_piece in Hp. cbn [rev app length] in Hp.
    rewrite Forall_forall in Hl. specialize (Hl y Hy). destruct Hp as [->|Hp]; [exact Hy | lia].
Qed.

Lemma legacy_read_complete : forall l a, In a l -> ~ In sep a -> In a (legacy_split (legacy_join l)).
Proof.
  intros l a Hin Hs. rewrite legacy_split_join by (intros ->; contradiction).
  apply in_flat_map. exists a. split; [exact Hin|].
  unfold legacy_split. rewrite split_aux_nosep by exact Hs. now left.
Qed.

Lemma grace_period_nonneg : 0 <= Gen.C12.grace_period.
Proof. vm_compute. discriminate. Qed.

Section More.
Variable version : Type.
Variable vlt : version -> version -> bool.
Notation state := (state version).
Notation op := (op version).

Lemma run_app : forall (l1 l2 : list op) (s : state), run vlt (l1 ++ l2) s = run vlt l2 (run vlt l1 s).
Proof. intros. unfold run. apply fold_left_app. Qed.

(** * A running grace period protects through the end-block (pre-state form, ANY state) *)
Lemma in_grace_after_update : forall (s s1 : state) a,
  update_grace s = Some s1 -> in_grace s a = true -> in_grace s1 a = true.
Proof.
  intros s s1 a Hu Hg.
  pose proof (update_grace_lookup version s s1 a Hu) as Hlk.
  apply update_grace_spec in Hu as [blob [_ E]].
  assert (Hh : height s1 = height s) by (rewrite E; reflexivity).
  unfold in_grace in *. rewrite Hh, Hlk.
  destruct (mem a (unjailed_addrs (vals s)) && negb (mem a (read_snapshot s))); [|exact Hg].
  apply Z.leb_le. pose proof grace_period_nonneg. lia.
Qed.

Theorem running_grace_never_jailed_proof : forall (s : state) a dh dt,
  in_grace s a = true ->
  find_val a (vals (step vlt s (EndBlock dh dt))) = find_val a (vals s).
Proof.
  intros s a dh dt Hg. cbn [step]. change (vals (set_clock ?x _ _)) with (vals x).
  destruct (update_grace s) as [s1|] eqn:Hu.
  - apply (grace_never_jailed_proof version s s1 a Hu). eapply in_grace_after_update; eassumption.
  - unfold end_block. rewrite Hu. reflexivity.
Qed.

(** * The legacy entry *)

Definition is_end_block (o : op) : bool := match o with EndBlock _ _ => true | _ => false end.

Lemma step_snapfields_no_end : forall (s : state) o, is_end_block o = false ->
  snapfields version (step vlt s o) = snapfields version s.
Proof.
  intros s o H. destruct o; cbn [step]; try discriminate.
  - destruct (find_val a (vals s)); [reflexivity|]. destruct (wf_addrb a); reflexivity.
  - destruct (valid_status st && (0 <=? pw)); reflexivity.
  - unfold begin_block. destruct (sched s) as [[v t]|]; [|reflexivity].
    destruct (t <=? height s); [|reflexivity]. unfold set_min. destruct (vlt v (minver s)); reflexivity.
  - unfold keep_alive. destruct (find_val a (vals s)); [|reflexivity]. destruct (vlt ver (minver s)); reflexivity.
  - unfold set_min. destruct (vlt ver (minver s)); reflexivity.
  - unfold schedule. destruct (vlt ver (minver s)); reflexivity.
  - reflexivity.
  - reflexivity.
  - apply (jail_preserves version (snapfields version) (frame_snapfields version)).
  - reflexivity.
Qed.

Lemma run_snapfields_no_end : forall ops (s : state),
  Forall (fun o => is_end_block o = false) ops ->
  snapfields version (run vlt ops s) = snapfields version s.
Proof.
  induction ops as [|o r IH]; intros s H; cbn [run fold_left]; [reflexivity|].
  inversion H as [|? ? Ho Hr]; subst.
  change (fold_left (step vlt) r (step vlt s o)) with (run vlt r (step vlt s o)).
  rewrite IH; [now apply step_snapfields_no_end | exact Hr].
Qed.

Lemma end_block_legacy : forall s : state,
  snap_legacy (fst (end_block s)) = snap_legacy s \/ snap_legacy (fst (end_block s)) = None.
Proof.
  intros s. destruct (end_block_cases version s) as [E|[s1 [Hu E]]]; rewrite E; cbn [fst]; [now left|].
  right. apply update_grace_snap_inv in Hu as [_ Hn].
  destruct (is_check_height (height s1)); [|exact Hn].
  pose proof (sweep_preserves version (snapfields version) (frame_snapfields version) s1) as F.
  unfold snapfields in F. inversion F as [[F1 F2 F3]]. now rewrite F1.
Qed.

Lemma step_legacy_none : forall (s : state) o, snap_legacy s = None -> snap_legacy (step vlt s o) = None.
Proof.
  intros s o H. destruct (is_end_block o) eqn:E.
  - destruct o; try discriminate. cbn [step]. change (snap_legacy (set_clock ?x _ _)) with (snap_legacy x).
    destruct (end_block_legacy s) as [F|F]; congruence.
  - pose proof (step_snapfields_no_end s o E) as F. unfold snapfields in F. inversion F as [[F1 F2 F3]]. congruence.
Qed.

Lemma run_legacy_none : forall ops (s : state), snap_legacy s = None -> snap_legacy (run vlt ops s) = None.
Proof.
  induction ops as [|o r IH]; intros s H; cbn [run fold_left]; [exact H|].
  apply IH. now apply step_legacy_none.
Qed.

Lemma end_block_wf_legacy_none : forall (s : state) dh dt, wf_state version s ->
  snap_legacy (step vlt s (EndBlock dh dt)) = None.
Proof.
  intros s dh dt W. cbn [step]. change (snap_legacy (set_clock ?x _ _)) with (snap_legacy x).
  destruct (update_grace_total version s W) as [s1 Hu].
  unfold end_block. rewrite Hu. cbn [fst].
  apply update_grace_snap_inv in Hu as [_ Hn].
  destruct (is_check_height (height s1)); [|exact Hn].
  pose proof (sweep_preserves version (snapfields version) (frame_snapfields version) s1) as F.
  unfold snapfields in F. inversion F as [[F1 F2 F3]]. now rewrite F1.
Qed.

(** In every history from an empty chain, whatever blob an earlier binary left behind: once one
    end-block has run, the legacy entry is gone and stays gone. *)
Theorem legacy_gone_after_first_end_block_proof : forall h0 t0 legacy m ops1 dh dt ops2,
  snap_legacy (run vlt (ops1 ++ EndBlock dh dt :: ops2) (init h0 t0 legacy m)) = None.
Proof.
  intros. rewrite run_app. cbn [run fold_left].
  change (fold_left (step vlt) ops2 ?x) with (run vlt ops2 x).
  apply run_legacy_none. apply end_block_wf_legacy_none. apply run_wf, init_wf.
Qed.

(** Headline 1 with the hypothesis "legacy entry gone" discharged: the history contains an end-block. *)
Theorem inactive_jailed_after_upgrade_proof : forall h0 t0 legacy m ops1 dh0 dt0 ops2 v dh dt,
  let s := run vlt (ops1 ++ EndBlock dh0 dt0 :: ops2) (init h0 t0 legacy m) in
  is_check_height (height s) = true ->
  In v (vals s) -> eligible_status (v_status v) = true -> v_jailed v = false ->
  is_alive s (v_addr v) = false ->
  In (v_addr v) (prev_unjailed s) ->
  in_grace s (v_addr v) = false ->
  exists v', find_val (v_addr v) (vals (step vlt s (EndBlock dh dt))) = Some v' /\
             (v_jailed v' = true \/ protected (vals (step vlt s (EndBlock dh dt))) v').
Proof.
  intros h0 t0 legacy m ops1 dh0 dt0 ops2 v dh dt s Hc Hin He Hj Ha Hp Hg.
  apply (inactive_jailed_at_next_check_proof version vlt h0 t0 legacy m (ops1 ++ EndBlock dh0 dt0 :: ops2)); auto.
  apply legacy_gone_after_first_end_block_proof.
Qed.

(** The legacy block.  [prev] is the list the earlier binary wrote (the validators that were unjailed
    at its last end-block); all validator addresses have one common length.  The grace update of the
    block that still finds the comma-joined entry
    - never denies: a validator unjailed now and not in [prev] gets its grace period;
    - only grants: every entry is unchanged or set to the current height;
    - is exact for members of [prev] without 0x2c;
    and deletes the entry. *)
Theorem legacy_block_only_grants_proof : forall (s s1 : state) (prev : list addr) (L : nat) a,
  snap_legacy s = Some (legacy_join prev) ->
  Forall (fun x => length x = L) prev -> length a = L -> a <> [] ->
  update_grace s = Some s1 ->
  (In a (unjailed_addrs (vals s)) -> ~ In a prev -> lookup a (grace s1) = Some (height s)) /\
  (lookup a (grace s1) = lookup a (grace s) \/ lookup a (grace s1) = Some (height s)) /\
  (In a prev -> ~ In sep a -> lookup a (grace s1) = lookup a (grace s)) /\
  snap_legacy s1 = None /\ prev_unjailed s1 = unjailed_addrs (vals s).
Proof.
  intros s s1 prev L a Hl HL Ha Hne Hu.
  pose proof (update_grace_lookup version s s1 a Hu) as Hlk.
  assert (Hr : read_snapshot s = legacy_split (legacy_join prev)) by (unfold read_snapshot; now rewrite Hl).
  rewrite Hr in Hlk.
  split; [|split; [|split]].
  - intros Hc Hn. rewrite Hlk. apply mem_In in Hc. rewrite Hc.
    destruct (mem a (legacy_split (legacy_join prev))) eqn:E; [|reflexivity].
    apply mem_In in E. exfalso. apply Hn. eapply legacy_read_sound; eassumption.
  - rewrite Hlk. destruct (mem a (unjailed_addrs (vals s)) && negb (mem a (legacy_split (legacy_join prev)))); auto.
  - intros Hp Hs. rewrite Hlk.
    assert (E : mem a (legacy_split (legacy_join prev)) = true) by (apply mem_In; now apply legacy_read_complete).
    rewrite E. cbn [negb]. now rewrite andb_false_r.
  - apply update_grace_spec in Hu as [blob [_ ->]]. split; reflexivity.
Qed.

(** … and the end-block of the legacy block never jails anybody wrongly: a validator with an unexpired
    keep-alive, with a running grace period, or entitled to a new one (unjailed now, not unjailed at the
    earlier binary's last end-block) is left untouched — at the first end-block of any history that
    starts from an upgraded store.  Afterwards the entry is gone. *)
Theorem legacy_block_never_jails_wrongly_proof : forall h0 t0 (prev : list addr) m pre (L : nat) a dh dt,
  Forall (fun o => is_end_block o = false) pre ->
  Forall (fun x => length x = L) prev -> length a = L -> a <> [] ->
  let s := run vlt pre (init h0 t0 (Some (legacy_join prev)) m) in
  (is_alive s a = true \/ in_grace s a = true \/ (In a (unjailed_addrs (vals s)) /\ ~ In a prev)) ->
  find_val a (vals (step vlt s (EndBlock dh dt))) = find_val a (vals s) /\
  snap_legacy (step vlt s (EndBlock dh dt)) = None.
Proof.
  intros h0 t0 prev m pre L a dh dt Hpre HL Ha Hne s H.
  assert (W : wf_state version s) by (apply run_wf, init_wf).
  split; [|now apply end_block_wf_legacy_none].
  destruct H as [H|[H|[Hc Hn]]].
  - now apply alive_never_jailed_proof.
  - now apply running_grace_never_jailed_proof.
  - assert (Hl : snap_legacy s = Some (legacy_join prev)).
    { pose proof (run_snapfields_no_end pre (init h0 t0 (Some (legacy_join prev)) m) Hpre) as F.
      unfold snapfields in F. apply (f_equal (fun x => fst (fst x))) in F. exact F. }
    destruct (update_grace_total version s W) as [s1 Hu].
    destruct (legacy_block_only_grants_proof s s1 prev L a Hl HL Ha Hne Hu) as [G _].
    cbn [step]. change (vals (set_clock ?x _ _)) with (vals x).
    apply (grace_never_jailed_proof version s s1 a Hu).
    unfold in_grace. rewrite (G Hc Hn).
    apply update_grace_spec in Hu as [blob [_ E]].
    assert (Hh : height s1 = height s) by (rewrite E; reflexivity).
    rewrite Hh. apply Z.leb_le. pose proof grace_period_nonneg. lia.
Qed.

(** * The jail log over histories *)

Definition log_inv (s : state) : Prop :=
  forall a d t, lookup a (jlog s) = Some (d, t) ->
    lookup a (until s) = Some (t + d) /\ In d Gen.C12.jail_sentences.

Definition logfields (s : state) := (jlog s, until s).

Lemma log_inv_fields : forall s s' : state, logfields s' = logfields s -> log_inv s -> log_inv s'.
Proof.
  intros s s' E H. unfold logfields in E. inversion E as [[E1 E2]].
  unfold log_inv in *. rewrite E1, E2. exact H.
Qed.

Lemma sentence_for_in : forall (s : state) a, In (sentence_for s a) Gen.C12.jail_sentences.
Proof.
  intros s a. unfold sentence_for. destruct (lookup a (jlog s)) as [[d t]|]; [|apply next_sentence_in].
  destruct (now s - t <? reset_threshold d); apply next_sentence_in.
Qed.

Lemma jail_log_inv : forall (s : state) b, log_inv s -> log_inv (fst (jail s b)).
Proof.
  intros s b H. destruct (jail_cases version s b) as [E|[v [_ [_ [_ [_ E]]]]]]; rewrite E; cbn [fst]; [exact H|].
  intros a d t. cbn [set_jail jlog until]. rewrite !lookup_cons.
  destruct (addr_eqb b a).
  - intros Hq. inversion Hq; subst. split; [reflexivity | apply sentence_for_in].
  - apply H.
Qed.

Lemma sweep_one_log_inv : forall (s : state) w, log_inv s -> log_inv (sweep_one s w).
Proof.
  intros s w H. destruct (sweep_one_cases version s w) as [E|E]; rewrite E; [exact H | now apply jail_log_inv].
Qed.

Lemma sweep_log_inv : forall s : state, log_inv s -> log_inv (sweep s).
Proof.
  intros s. unfold sweep. generalize (unjailed (vals s)) as l. intros l. revert s.
  induction l as [|w r IH]; intros s H; cbn [fold_left]; [exact H|].
  apply IH. now apply sweep_one_log_inv.
Qed.

Lemma end_block_log_inv : forall s : state, log_inv s -> log_inv (fst (end_block s)).
Proof.
  intros s H. destruct (end_block_cases version s) as [E|[s1 [Hu E]]]; rewrite E; cbn [fst]; [exact H|].
  apply update_grace_spec in Hu as [blob [_ Es]].
  assert (H1 : log_inv s1) by (eapply log_inv_fields; [|exact H]; rewrite Es; reflexivity).
  destruct (is_check_height (height s1)); [now apply sweep_log_inv | exact H1].
Qed.

Lemma step_log_inv : forall (s : state) o, log_inv s -> log_inv (step vlt s o).
Proof.
  intros s o H. destruct o; cbn [step].
  - destruct (find_val a (vals s)); [exact H|]. destruct (wf_addrb a); exact H.
  - destruct (valid_status st && (0 <=? pw)); exact H.
  - unfold begin_block. destruct (sched s) as [[v t]|]; [|exact H].
    destruct (t <=? height s); [|exact H]. unfold set_min. destruct (vlt v (minver s)); exact H.
  - unfold keep_alive. destruct (find_val a (vals s)); [|exact H]. destruct (vlt ver (minver s)); exact H.
  - unfold set_min. destruct (vlt ver (minver s)); exact H.
  - unfold schedule. destruct (vlt ver (minver s)); exact H.
  - exact H.
  - exact H.
  - now apply jail_log_inv.
  - apply end_block_log_inv in H. exact H.
  - exact H.
Qed.

Lemma run_log_inv : forall ops (s : state), log_inv s -> log_inv (run vlt ops s).
Proof.
  induction ops as [|o r IH]; intros s H; cbn [run fold_left]; [exact H|].
  apply IH. now apply step_log_inv.
Qed.

Lemma init_log_inv : forall h t legacy m, log_inv (@init version h t legacy m).
Proof. intros h t legacy m a d t' H. discriminate. Qed.

(** Repeated jailings lengthen the sentence along the fixed schedule — over every history.  In every
    reachable state a validator's jail record holds a table entry [nth i table] and the matching
    jailed-until; a further successful [Jail] (inactivity sweep or any other module) less than
    max(30 min, d + d/20) after the recorded one records exactly the NEXT entry (the last one stays),
    otherwise the first entry; jailed-until = now + that sentence. *)
Theorem repeated_jailing_walks_the_table_proof : forall h0 t0 legacy m ops a d t,
  let s := run vlt ops (init h0 t0 legacy m) in
  lookup a (jlog s) = Some (d, t) ->
  lookup a (until s) = Some (t + d) /\
  exists i, (i < length Gen.C12.jail_sentences)%nat /\ d = nth i Gen.C12.jail_sentences 0 /\
    forall s', jail s a = (s', true) ->
      let d' := if now s - t <? reset_threshold d
                then nth (Nat.min (S i) (length Gen.C12.jail_sentences - 1)) Gen.C12.jail_sentences 0
                else hd 0 Gen.C12.jail_sentences in
      lookup a (jlog s') = Some (d', now s) /\ lookup a (until s') = Some (now s + d') /\
      (now s - t < reset_threshold d -> d < last Gen.C12.jail_sentences 0 -> d < d').
Proof.
  intros h0 t0 legacy m ops a d t s Hl.
  assert (I : log_inv s) by (apply run_log_inv, init_log_inv).
  destruct (I a d t Hl) as [Hu Hd]. split; [exact Hu|].
  destruct (In_nth _ _ 0 Hd) as [i [Hi Hn]]. exists i. split; [exact Hi|]. split; [now symmetry|].
  intros s' Hj d'.
  destruct (jail_records_proof version s s' a Hj) as [J1 [J2 _]].
  rewrite Hl in J1, J2. fold (reset_threshold d) in J1, J2.
  assert (Ed : d' = if now s - t <? reset_threshold d then next_sentence d else hd 0 Gen.C12.jail_sentences).
  { unfold d'. destruct (now s - t <? reset_threshold d); [|reflexivity].
    rewrite <- Hn. symmetry. now apply table_walk. }
  rewrite Ed. split; [exact J1|]. split; [exact J2|].
  intros Hlt Hlast. apply Z.ltb_lt in Hlt. rewrite Hlt. now apply next_sentence_gt.
Qed.

End More.

(** * Observation (d): no new grace period after a jailing that follows the block's grace update *)
Module ObservationD.
Import Examples.
(** [silent_history] ends before the end-block of height 60.  That end-block jails a0 (first sentence);
    the next block comes 61 s later, a0 is unjailed in it (sentence served); its stored grace start
    stays 1, so the check at height 70 — 9 blocks after the unjailing — jails it again (second
    sentence).  The same with the jailing done by a module whose end-blocker runs after valset's. *)
Definition witness : list (op Z) :=
  silent_history ++ [EndBlock 1 61000000000; Unjail a0] ++ repeat (EndBlock 1 2000000000) 10.

Example unjail_right_after_sweep_gets_no_grace :
  let s61 := run Z.ltb (silent_history ++ [EndBlock 1 61000000000; Unjail a0]) (init 1 0 None 7) in
  let s := run Z.ltb witness (init 1 0 None 7) in
  height s61 = 61 /\ find_val a0 (vals s61) = Some v0 /\ In a0 (prev_unjailed s61) /\
  lookup a0 (grace s61) = Some 1 /\
  height s = 71 /\ lookup a0 (grace s) = Some 1 /\
  find_val a0 (vals s) = Some (with_jailed true v0) /\
  lookup a0 (jlog s) = Some (300000000000, 197000000000).
Proof. vm_compute. repeat split; auto 10. Qed.

Definition witness_other_module : list (op Z) :=
  setup ++ map (fun a => KeepAlive a 7) [a0; a1; a2; a3; a4] ++ repeat (EndBlock 1 2000000000) 10 ++
  [EndBlock 0 0; Jail a0; Tick 1 61000000000; Unjail a0] ++ repeat (EndBlock 1 2000000000) 3.

Example jailed_after_valset_end_block_gets_no_grace :
  let s := run Z.ltb witness_other_module (init 1 0 None 7) in
  height s = 15 /\ find_val a0 (vals s) = Some v0 /\ lookup a0 (grace s) = Some 1 /\
  lookup a0 (jlog s) = Some (60000000000, 20000000000).
Proof. vm_compute. repeat split. Qed.

Definition refute_ops : list (op Z) :=
  silent_history ++ [EndBlock 1 61000000000; Unjail a0] ++ repeat (EndBlock 1 2000000000) 9.

Theorem grace_after_every_unjailing_refuted_proof :
  exists (ops : list (op Z)) (a : addr) (h_unjail : Z),
    let s := run Z.ltb ops (init 1 0 None 7) in
    let s' := run Z.ltb (ops ++ [EndBlock 1 2000000000]) (init 1 0 None 7) in
    In (Unjail a) ops /\ height s - h_unjail <= Gen.C12.grace_period /\
    (exists v, find_val a (vals s) = Some v /\ v_jailed v = false) /\
    in_grace s a = false /\
    (exists v, find_val a (vals s') = Some v /\ v_jailed v = true).
Proof.
  exists refute_ops, a0, 61. cbv zeta. split; [|split; [|split; [|split]]].
  - unfold refute_ops. apply in_or_app. right. apply in_or_app. left. right. left. reflexivity.
  - vm_compute. discriminate.
  - exists v0. split; vm_compute; reflexivity.
  - vm_compute. reflexivity.
  - exists (with_jailed true v0). split; vm_compute; reflexivity.
Qed.
End ObservationD.

(** * Bounded time: above height 50 a liveness-check height comes within 10 blocks *)
Theorem check_height_within_period_proof : forall h, Gen.C12.check_after < h ->
  exists k, 0 <= k < Gen.C12.check_period /\ is_check_height (h + k) = true.
Proof.
  intros h Hh. unfold is_check_height.
  change Gen.C12.check_after with 50 in *. change Gen.C12.check_period with 10.
  exists ((10 - h mod 10) mod 10).
  assert (A : 0 <= (10 - h mod 10) mod 10 < 10) by (apply Z.mod_pos_bound; lia).
  split; [exact A|].
  apply andb_true_iff. split; [apply Z.ltb_lt; lia|]. apply Z.eqb_eq.
  rewrite Zplus_mod_idemp_r. replace (h + (10 - h mod 10)) with (h - h mod 10 + 1 * 10) by lia.
  rewrite Z_mod_plus_full. rewrite Zminus_mod_idemp_r. rewrite Z.sub_diag. reflexivity.
Qed.

(** * Bounded-time jailing over several blocks *)
Section Bounded.
Variable version : Type.
Variable vlt : version -> version -> bool.
Notation state := (state version).
Notation op := (op version).

(** a validator that is due: eligible, unjailed, keep-alive expired or never sent, already in the
    previous block's unjailed snapshot, last grace period (if any) over — in a well-formed state
    whose legacy entry is gone *)
Definition due (s : state) (v : val) : Prop :=
  wf_state version s /\ snap_inv version s /\ snap_legacy s = None /\
  In v (vals s) /\ eligible_status (v_status v) = true /\ v_jailed v = false /\
  (forall u, lookup (v_addr v) (alive s) = Some u -> u <= height s) /\
  In (v_addr v) (prev_unjailed s) /\
  (forall g, lookup (v_addr v) (grace s) = Some g -> Gen.C12.grace_period < height s - g).

Lemma due_not_alive : forall s v, due s v -> is_alive s (v_addr v) = false.
Proof.
  intros s v (_ & _ & _ & _ & _ & _ & Ha & _). unfold is_alive.
  destruct (lookup (v_addr v) (alive s)) as [u|] eqn:E; [|reflexivity].
  apply Z.ltb_ge. now apply Ha.
Qed.

Lemma due_not_in_grace : forall s v, due s v -> in_grace s (v_addr v) = false.
Proof.
  intros s v (_ & _ & _ & _ & _ & _ & _ & _ & Hg). unfold in_grace.
  destruct (lookup (v_addr v) (grace s)) as [g|] eqn:E; [|reflexivity].
  apply Z.leb_gt. now apply Hg.
Qed.

(** the one-block statement on invariants instead of on [run ops init] *)
Lemma due_settled_at_check : forall s v dh dt, due s v -> is_check_height (height s) = true ->
  settled version (v_addr v) (step vlt s (EndBlock dh dt)).
Proof.
  intros s v dh dt D Hc.
  pose proof (due_not_alive s v D) as Ha. pose proof (due_not_in_grace s v D) as Hg.
  destruct D as (W & I & Hl & Hin & He & Hj & _ & Hp & _).
  destruct (update_grace_total version s W) as [s1 Hu].
  cbn [step]. apply settled_set_clock.
  unfold end_block. rewrite Hu. cbn [fst].
  pose proof (update_grace_lookup version s s1 (v_addr v) Hu) as Hlk.
  apply update_grace_spec in Hu as [blob [_ E]].
  assert (Hh : height s1 = height s) by (rewrite E; reflexivity).
  assert (Hv : vals s1 = vals s) by (rewrite E; reflexivity).
  assert (Hal : alive s1 = alive s) by (rewrite E; reflexivity).
  rewrite Hh, Hc.
  apply sweep_settles; auto.
  - rewrite Hv. apply W.
  - now rewrite Hv.
  - rewrite <- Ha. now apply is_alive_ext.
  - rewrite <- Hg. unfold in_grace. rewrite Hh, Hlk.
    rewrite (I Hl). apply mem_In in Hp. rewrite Hp. cbn [negb]. rewrite andb_false_r. reflexivity.
Qed.

(** a block that is not a liveness check leaves a due validator due *)
Lemma due_quiet_step : forall s v dt, due s v -> is_check_height (height s) = false ->
  due (step vlt s (EndBlock 1 dt)) v /\ height (step vlt s (EndBlock 1 dt)) = height s + 1.
Proof.
  intros s v dt D Hc. destruct D as (W & I & Hl & Hin & He & Hj & Ha & Hp & Hg).
  destruct (update_grace_total version s W) as [s1 Hu].
  pose proof (update_grace_lookup version s s1 (v_addr v) Hu) as Hlk.
  pose proof (step_wf version vlt s (EndBlock 1 dt) W) as W'.
  pose proof (step_snap_inv version vlt s (EndBlock 1 dt) I) as I'.
  pose proof (step_legacy_none version vlt s (EndBlock 1 dt) Hl) as L'.
  pose proof (no_jailing_between_checks_proof version vlt s 1 dt Hc) as V'.
  assert (E' : step vlt s (EndBlock 1 dt) = set_clock s1 (height s + 1) (now s1 + dt)).
  { cbn [step]. unfold end_block. rewrite Hu. cbn [fst].
    apply update_grace_spec in Hu as [blob [_ E]].
    assert (Hh : height s1 = height s) by (rewrite E; reflexivity). rewrite Hh, Hc. cbv beta iota zeta. rewrite Hh. reflexivity. }
  apply update_grace_spec in Hu as [blob [_ E]].
  assert (Hh : height s1 = height s) by (rewrite E; reflexivity).
  split.
  - split; [exact W'|]. split; [exact I'|]. split; [exact L'|]. split; [now rewrite V'|].
    split; [exact He|]. split; [exact Hj|]. split; [|split].
    + intros u Hu'. rewrite E' in Hu'. cbn [set_clock alive] in Hu'. rewrite E in Hu'. cbn [set_snapshot alive] in Hu'.
      rewrite E'. cbn [set_clock height]. apply Ha in Hu'. lia.
    + rewrite E'. cbn [set_clock prev_unjailed]. rewrite E. cbn [set_snapshot prev_unjailed].
      unfold unjailed_addrs, unjailed. apply in_map. apply filter_In. split; [exact Hin | now rewrite Hj].
    + intros g Hg'. rewrite E' in Hg'. cbn [set_clock grace] in Hg'.
      rewrite Hlk, (I Hl) in Hg'. apply mem_In in Hp. rewrite Hp in Hg'. cbn [negb] in Hg'.
      rewrite andb_false_r in Hg'. apply Hg in Hg'.
      rewrite E'. cbn [set_clock height]. lia.
  - rewrite E'. reflexivity.
Qed.

Lemma not_check_mod : forall h, Gen.C12.check_after < h -> is_check_height h = false -> h mod Gen.C12.check_period <> 0.
Proof.
  intros h Hh Hc E. unfold is_check_height in Hc. apply Z.ltb_lt in Hh. rewrite Hh in Hc.
  apply Z.eqb_eq in E. rewrite E in Hc. discriminate.
Qed.

Lemma bounded_aux : forall (n : nat) (s : state) v (dts : list Z),
  due s v -> Gen.C12.check_after < height s ->
  (exists j, 0 <= j < Z.of_nat n /\ (height s + j) mod Gen.C12.check_period = 0) ->
  length dts = n ->
  exists k, (k < n)%nat /\
    let sk := run vlt (map (EndBlock 1) (firstn k dts)) s in
    is_check_height (height sk) = true /\
    settled version (v_addr v) (step vlt sk (EndBlock 1 (nth k dts 0))).
Proof.
  induction n as [|n IH]; intros s v dts D Hh [j [Hj Hm]] Hl; [lia|].
  destruct dts as [|d r]; [discriminate|]. cbn [length] in Hl.
  destruct (is_check_height (height s)) eqn:Hc.
  - exists O. split; [lia|]. cbn [firstn map run fold_left nth]. split; [exact Hc|].
    now apply due_settled_at_check.
  - pose proof (not_check_mod _ Hh Hc) as Hne.
    assert (j <> 0) by (intros ->; rewrite Z.add_0_r in Hm; contradiction).
    destruct (due_quiet_step s v d D Hc) as [D' Hh'].
    destruct (IH (step vlt s (EndBlock 1 d)) v r D') as [k [Hk Hres]].
    + lia.
    + exists (j - 1). split; [lia|]. rewrite Hh'. replace (height s + 1 + (j - 1)) with (height s + j) by lia. exact Hm.
    + lia.
    + exists (S k). split; [lia|]. cbn [firstn map nth]. exact Hres.
Qed.

(** Bounded-time jailing over blocks.  In every history that contains an end-block, above height 50:
    a validator that is due (eligible, unjailed, keep-alive expired or never sent, already unjailed at
    the previous block, last grace period over) is — if nothing but blocks follows — jailed or
    exempt by the network-protection rules at the liveness check that comes within the next 10 blocks,
    whatever the block times. *)
Theorem silent_validator_settled_within_period_proof :
  forall h0 t0 legacy m ops1 dh0 dt0 ops2 (v : val) (dts : list Z),
  let s := run vlt (ops1 ++ EndBlock dh0 dt0 :: ops2) (init h0 t0 legacy m) in
  Gen.C12.check_after < height s ->
  In v (vals s) -> eligible_status (v_status v) = true -> v_jailed v = false ->
  (forall u, lookup (v_addr v) (alive s) = Some u -> u <= height s) ->
  In (v_addr v) (prev_unjailed s) ->
  (forall g, lookup (v_addr v) (grace s) = Some g -> Gen.C12.grace_period < height s - g) ->
  Z.of_nat (length dts) = Gen.C12.check_period ->
  exists k, (k < length dts)%nat /\
    let sk := run vlt (map (EndBlock 1) (firstn k dts)) s in
    is_check_height (height sk) = true /\
    exists v', find_val (v_addr v) (vals (step vlt sk (EndBlock 1 (nth k dts 0)))) = Some v' /\
               (v_jailed v' = true \/ protected (vals (step vlt sk (EndBlock 1 (nth k dts 0)))) v').
Proof.
  intros h0 t0 legacy m ops1 dh0 dt0 ops2 v dts s Hh Hin He Hj Ha Hp Hg Hl.
  assert (D : due s v).
  { split; [apply run_wf, init_wf|]. split; [apply run_snap_inv, init_snap_inv|].
    split; [apply legacy_gone_after_first_end_block_proof|]. repeat split; assumption. }
  destruct (check_height_within_period_proof (height s) Hh) as [k [Hk Hc]].
  apply (bounded_aux (length dts) s v dts D Hh); [|reflexivity].
  exists k. split; [lia|]. unfold is_check_height in Hc. apply andb_true_iff in Hc as [_ Hc]. now apply Z.eqb_eq.
Qed.
End Bounded.

Module BoundedExample.
Import Examples.
(** non-vacuity: at height 51 of the silent history the validator with the 0x2c address is due *)
Example due_example :
  let s := run Z.ltb (setup ++ map (fun a => KeepAlive a 7) [a1; a2; a3; a4] ++ repeat (EndBlock 1 2000000000) 50) (init 1 0 None 7) in
  height s = 51 /\ In v0 (vals s) /\ lookup a0 (alive s) = None /\ In a0 (prev_unjailed s) /\
  lookup a0 (grace s) = Some 1 /\
  let s' := run Z.ltb (map (EndBlock 1) (repeat 2000000000 10)) s in
  height s' = 61 /\ find_val a0 (vals s') = Some (with_jailed true v0).
Proof. vm_compute. repeat split; auto 10. Qed.
End BoundedExample.

(** * The float64 share test of Keeper.Jail equals the model's integer test (Flocq) *)
From Paloma Require Valset.JailShareFloat.

Lemma share_protected_int : forall cp total, share_protected cp total = (4 * cp >? total).
Proof.
  intros cp total. unfold share_protected.
  change Gen.C12.share_den with 4. change Gen.C12.share_num with 1. now rewrite Z.mul_1_l.
Qed.

Theorem jail_share_float_exact_proof : forall cp total : Z,
  0 <= cp < 2^53 -> 0 <= total < 2^53 ->
  JailShareFloat.share_gt_quarter_f64 cp total = share_protected cp total.
Proof.
  intros cp total Hc Ht. rewrite share_protected_int. now apply JailShareFloat.jail_share_float_exact.
Qed.
