(* C10 (round 2) -- isNewSnapshotWorthy's float test agrees with the integer test of the model.

   Go (x/valset/keeper/keeper.go, isNewSnapshotWorthy):
     if percentageCurrent.Sub(percentageNow).Abs().MustFloat64() >= 0.01 { return true }
   The operand is a LegacyDec d/10^18 (d : raw big integer >= 0).  MustFloat64 is
   strconv.ParseFloat of its decimal string: the binary64 nearest to d/10^18 (ties to even); the
   constant 0.01 is the binary64 nearest to 1/100.  The model (Valset/Worthy.v) uses 10^16 <= d.
   [dec_float_ge_one_percent] proves that the two agree for every d >= 0: the float test has no
   rounding slack at all, it is exactly "the 18-decimal difference is at least 0.01".

   Reals with Flocq's generic rounding to binary64 (no overflow can occur: d/10^18 is far below
   2^1024 for every 256-bit d).  Depends only on the Coq standard library and Flocq. *)
From Coq Require Import ZArith Reals Lia Lra Bool.
From Flocq Require Import Core.
Open Scope Z_scope.

Definition fexp64 := FLT_exp (-1074) 53.
Local Notation rnd := (round radix2 fexp64 ZnearestE).

Local Instance fexp64_valid : Valid_exp fexp64.
Proof. apply FLT_exp_valid. reflexivity. Qed.

(* what Go computes *)
Definition dec_to_float64 (d : Z) : R := rnd (IZR d / 1000000000000000000).
Definition const_one_percent : R := rnd (1 / 100).
Definition go_test (d : Z) : bool := Rle_bool const_one_percent (dec_to_float64 d).

(* the two neighbouring binary64 numbers around 1/100 *)
Definition lo : R := F2R (Float radix2 5764607523034234 (-59)).
Definition hi : R := F2R (Float radix2 5764607523034235 (-59)).

Lemma gen_fmt : forall m e, Z.abs m < 2^53 -> -1074 <= e ->
  generic_format radix2 fexp64 (F2R (Float radix2 m e)).
Proof.
  intros m e Hm He. apply (generic_format_FLT radix2 (-1074) 53).
  exists (Float radix2 m e); auto.
Qed.

Lemma bpow_m59 : bpow radix2 (-59) = (/ 576460752303423488)%R.
Proof. reflexivity. Qed.

Lemma lo_val : lo = (5764607523034234 / 576460752303423488)%R.
Proof. unfold lo, F2R. cbn [Fnum Fexp]. rewrite bpow_m59. lra. Qed.
Lemma hi_val : hi = (5764607523034235 / 576460752303423488)%R.
Proof. unfold hi, F2R. cbn [Fnum Fexp]. rewrite bpow_m59. lra. Qed.

Lemma fmt_lo : generic_format radix2 fexp64 lo.
Proof. apply gen_fmt; [reflexivity | lia]. Qed.
Lemma fmt_hi : generic_format radix2 fexp64 hi.
Proof. apply gen_fmt; [reflexivity | lia]. Qed.

(* a nearest rounding is at least as close as any representable number *)
Lemma nearest : forall x g, generic_format radix2 fexp64 g ->
  (Rabs (rnd x - x) <= Rabs (g - x))%R.
Proof.
  intros x g Hg.
  destruct (round_N_pt radix2 fexp64 (fun t => negb (Z.even t)) x) as [_ Hn].
  apply Hn, Hg.
Qed.

(* 1/100 rounds to something above 2/100 - hi *)
Lemma const_lower : (2 / 100 - hi <= const_one_percent)%R.
Proof.
  unfold const_one_percent. pose proof (nearest (1 / 100) hi fmt_hi) as H.
  rewrite hi_val in *.
  rewrite (Rabs_pos_eq (5764607523034235 / 576460752303423488 - 1 / 100)) in H by lra.
  apply Rabs_le_inv in H. lra.
Qed.

(* 0.009999999999999999 rounds to something below 2*0.009999999999999999 - lo *)
Definition below : R := (9999999999999999 / 1000000000000000000)%R.
Lemma below_upper : (rnd below <= 2 * below - lo)%R.
Proof.
  pose proof (nearest below lo fmt_lo) as H. unfold below in *. rewrite lo_val in *.
  rewrite (Rabs_left1 (5764607523034234 / 576460752303423488 - 9999999999999999 / 1000000000000000000)) in H by lra.
  apply Rabs_le_inv in H. lra.
Qed.

Lemma gap : (2 * below - lo < 2 / 100 - hi)%R.
Proof. unfold below. rewrite lo_val, hi_val. lra. Qed.

Theorem dec_float_ge_one_percent : forall d : Z, 0 <= d ->
  go_test d = (10000000000000000 <=? d).
Proof.
  intros d Hd. unfold go_test, dec_to_float64.
  destruct (Z.leb_spec 10000000000000000 d) as [Hge|Hlt].
  - apply Rle_bool_true. unfold const_one_percent.
    apply round_le; auto with typeclass_instances.
    assert (10000000000000000 <= IZR d)%R by (apply IZR_le in Hge; exact Hge).
    lra.
  - apply Rle_bool_false.
    assert (Hx : (rnd (IZR d / 1000000000000000000) <= rnd below)%R).
    { apply round_le; auto with typeclass_instances. unfold below.
      assert (IZR d <= 9999999999999999)%R by (apply IZR_le; lia).
      lra. }
    pose proof below_upper. pose proof gap. pose proof const_lower. lra.
Qed.

(* the boundary, spelled out *)
Corollary boundary :
  go_test 9999999999999999 = false /\ go_test 10000000000000000 = true /\ go_test 0 = false.
Proof. rewrite !dec_float_ge_one_percent by lia. repeat split. Qed.

Print Assumptions dec_float_ge_one_percent.
