(** C10 — proofs about the snapshot life-cycle model (Valset/Snapshot.v). *)
From Coq Require Import String.
From Coq Require Import List ZArith Bool Lia.
From Paloma Require Import Base.Num Valset.Snapshot.
Import ListNotations.
Open Scope Z_scope.

(** * createNewSnapshot is faithful to the staking / registration / chain state *)

Lemma has_account_spec c l : has_account c l = true <-> exists e, In e l /\ ei_chain e = c.
Proof.
  unfold has_account. rewrite existsb_exists. split; intros [e [H1 H2]]; exists e; split; auto.
  - now apply String.eqb_eq.
  - now apply String.eqb_eq.
Qed.

(** * MissingChains: exact comparison of reference ids *)

Lemma id_in_spec c ids : id_in c ids = true <-> In c ids.
Proof.
  unfold id_in. rewrite existsb_exists. split.
  - intros [x [Hx E]]. apply String.eqb_eq in E. now subst x.
  - intros H. exists c. split; [exact H | apply String.eqb_refl].
Qed.

(** MissingChains reports exactly the active chains whose reference id is not (byte for byte) among
    the input ids, in the order of the chain-info store. *)
Lemma missing_chains_spec input chains c :
  In c (missing_chains input chains) <-> In (c, true) chains /\ ~ In c input.
Proof.
  unfold missing_chains. rewrite in_map_iff. split.
  - intros [[c' act] [E H]]. cbn in E. subst c'. apply filter_In in H as [Hin Hc]. cbn in Hc.
    apply andb_true_iff in Hc as [Ha Hn]. subst act. split; [exact Hin|].
    intros Hi. apply id_in_spec in Hi. rewrite Hi in Hn. discriminate.
  - intros [Hin Hn]. exists (c, true). split; [reflexivity|]. apply filter_In. split; [exact Hin|]. cbn.
    destruct (id_in c input) eqn:E; [|reflexivity]. apply id_in_spec in E. contradiction.
Qed.

Lemma missing_chains_order input chains :
  missing_chains input chains = filter (fun c => negb (id_in c input)) (map fst (filter snd chains)).
Proof.
  unfold missing_chains. induction chains as [|[c act] r IH]; [reflexivity|].
  cbn [filter map fst snd]. destruct act; cbn [andb filter map fst].
  - destruct (negb (id_in c input)); cbn [map fst]; now rewrite IH.
  - exact IH.
Qed.

Lemma in_active st c : In c (st_active st) <-> In (c, true) (st_chains st).
Proof.
  unfold st_active. rewrite in_map_iff. split.
  - intros [[c' act] [E H]]. cbn in E. subst c'. apply filter_In in H as [H A]. cbn in A. now subst act.
  - intros H. exists (c, true). split; [reflexivity|]. apply filter_In. now split.
Qed.

Lemma missing_nil_iff input chains :
  missing_chains input chains = [] <-> forall c, In (c, true) chains -> In c input.
Proof.
  split.
  - intros E c Hc. destruct (id_in c input) eqn:I; [now apply id_in_spec|].
    assert (X : In c (missing_chains input chains)).
    { apply missing_chains_spec. split; [exact Hc|]. intros Hi. apply id_in_spec in Hi. congruence. }
    rewrite E in X. destruct X.
  - intros H. destruct (missing_chains input chains) as [|c r] eqn:E; [reflexivity|].
    assert (X : In c (missing_chains input chains)) by (rewrite E; now left).
    apply missing_chains_spec in X as [Hc Hn]. elim Hn. now apply H.
Qed.

Lemma supports_all_spec st a :
  supports_all st a = true <->
  forall c, In c (st_active st) -> exists e, In e (infos_of st a) /\ ei_chain e = c.
Proof.
  unfold supports_all.
  assert (M : missing_chains (map ei_chain (infos_of st a)) (st_chains st) = [] <->
              forall c, In c (st_active st) -> exists e, In e (infos_of st a) /\ ei_chain e = c).
  { rewrite missing_nil_iff. split; intros H c Hc.
    - apply in_active in Hc. apply H in Hc. apply in_map_iff in Hc as [e [E He]]. eauto.
    - apply in_active in Hc. destruct (H c Hc) as [e [He E]]. apply in_map_iff. eauto. }
  destruct (missing_chains _ _) as [|x r].
  - split; [intros _; now apply M | reflexivity].
  - split; [discriminate|]. intros H. apply M in H. discriminate.
Qed.

(** [supports_all] through [has_account]: the forallb form used by executable checks *)
Lemma supports_all_forallb st a :
  supports_all st a = forallb (fun c => has_account c (infos_of st a)) (st_active st).
Proof.
  apply eq_true_iff_eq. rewrite supports_all_spec, forallb_forall. split; intros H c Hc.
  - apply has_account_spec, H, Hc.
  - apply has_account_spec, H, Hc.
Qed.

Lemma eligible_spec st v :
  eligible st v = true <->
  sv_bonded v = true /\ sv_jailed v = false /\
  forall c, In c (st_active st) -> exists e, In e (infos_of st (sv_addr v)) /\ ei_chain e = c.
Proof.
  unfold eligible. rewrite !andb_true_iff, negb_true_iff, supports_all_spec. tauto.
Qed.

Lemma zsum_map_bonded st l :
  zsum (map bonded_tokens l) = zsum (map v_share (map (snapval_of st) l)).
Proof. induction l as [|x r IH]; simpl; [reflexivity | now rewrite IH]. Qed.

Lemma create_faithful : forall st, let sn := create st in
  (* exactly the eligible validators, in staking iteration order, nothing else *)
  sn_vals sn = map (snapval_of st) (filter (eligible st) (st_vals st)) /\
  (forall x, In x (sn_vals sn) <->
     exists v, In v (st_vals st) /\
       sv_bonded v = true /\ sv_jailed v = false /\
       (forall c, In c (st_active st) -> exists e, In e (infos_of st (sv_addr v)) /\ ei_chain e = c) /\
       x = {| v_addr := sv_addr v; v_share := sv_tokens v; v_infos := infos_of st (sv_addr v) |}) /\
  (* total = sum of the listed shares; a fresh snapshot is live on no chain *)
  sn_total sn = zsum (map v_share (sn_vals sn)) /\
  sn_chains sn = [].
Proof.
  intros st sn. subst sn. unfold create; cbn [sn_vals sn_total sn_chains].
  split; [reflexivity|]. split; [|split; [apply zsum_map_bonded | reflexivity]].
  intros x. rewrite in_map_iff. split.
  - intros [v [Hx Hv]]. apply filter_In in Hv as [Hin He].
    apply eligible_spec in He as (Hb & Hj & Hc).
    exists v. repeat split; auto. subst x. unfold snapval_of, bonded_tokens. now rewrite Hb.
  - intros [v (Hin & Hb & Hj & Hc & Hx)]. exists v. split.
    + subst x. unfold snapval_of, bonded_tokens. now rewrite Hb.
    + apply filter_In. split; [assumption|]. apply eligible_spec. auto.
Qed.

(** * The store *)

Lemma alookup_cons_eq {A} k (a : A) l : alookup k ((k, a) :: l) = Some a.
Proof. simpl. now rewrite Z.eqb_refl. Qed.

Lemma alookup_cons_neq {A} k k' (a : A) l : k' <> k -> alookup k ((k', a) :: l) = alookup k l.
Proof. intros H. simpl. destruct (k' =? k) eqn:E; [apply Z.eqb_eq in E; contradiction | reflexivity]. Qed.

(** Well-formed store: keys are exactly 1..counter and every entry carries its key as id. *)
Definition wf (st : state) : Prop :=
  0 <= st_counter st /\
  (forall id sn, find_snapshot st id = Some sn -> 1 <= id <= st_counter st /\ sn_id sn = id) /\
  (forall id, 1 <= id <= st_counter st -> exists sn, find_snapshot st id = Some sn).

Lemma wf_init : wf init.
Proof.
  unfold wf, find_snapshot; cbn. split; [lia|]. split.
  - intros id sn H; discriminate.
  - intros id H; lia.
Qed.

Lemma find_set_as_current st sn id :
  find_snapshot (set_as_current sn st) id =
  if st_counter st + 1 =? id then Some (with_id (st_counter st + 1) sn) else find_snapshot st id.
Proof. reflexivity. Qed.

Lemma find_save st k sn id :
  find_snapshot (save k sn st) id = if k =? id then Some sn else find_snapshot st id.
Proof. reflexivity. Qed.

Lemma wf_set_as_current st sn : wf st -> wf (set_as_current sn st).
Proof.
  intros (H0 & H1 & H2). unfold wf. cbn [st_counter set_as_current].
  split; [lia|]. split.
  - intros id s. rewrite find_set_as_current. destruct (st_counter st + 1 =? id) eqn:E.
    + apply Z.eqb_eq in E. intros H; inversion H; subst. cbn. lia.
    + intros H. apply H1 in H. lia.
  - intros id Hid. rewrite find_set_as_current. destruct (st_counter st + 1 =? id) eqn:E.
    + eauto.
    + apply Z.eqb_neq in E. apply H2. lia.
Qed.

Lemma wf_set_on_chain st id c : wf st -> wf (set_on_chain id c st).
Proof.
  intros W. pose proof W as (H0 & H1 & H2). unfold set_on_chain.
  destruct (find_snapshot st id) as [sn|] eqn:F; [|exact W].
  destruct (H1 _ _ F) as [Hr Hid]. unfold wf. cbn [st_counter save].
  split; [lia|]. split.
  - intros k s. rewrite find_save. destruct (sn_id sn =? k) eqn:E.
    + apply Z.eqb_eq in E. intros H; inversion H; subst. cbn. lia.
    + apply H1.
  - intros k Hk. rewrite find_save. destruct (sn_id sn =? k); eauto.
Qed.

Lemma wf_step st o : wf st -> wf (step st o).
Proof.
  intros W. destruct o as [vs|a infos acc|cs|worthy|id c]; cbn [step].
  - exact W.
  - destruct acc; exact W.
  - exact W.
  - destruct worthy; [now apply wf_set_as_current | exact W].
  - now apply wf_set_on_chain.
Qed.

Lemma wf_fold ops : forall st, wf st -> wf (fold_left step ops st).
Proof. induction ops as [|o r IH]; intros st W; cbn; [exact W | apply IH, wf_step, W]. Qed.

Lemma wf_run ops : wf (run ops).
Proof. apply wf_fold, wf_init. Qed.

Lemma run_app ops ops' : run (ops ++ ops') = fold_left step ops' (run ops).
Proof. unfold run. apply fold_left_app. Qed.

(** * Ids *)

(** Under [wf] no step other than a storing build changes the counter or the key set. *)
Lemma counter_step st o : wf st ->
  (st_counter (step st o) = st_counter st /\
   forall id, (exists sn, find_snapshot (step st o) id = Some sn) <-> (exists sn, find_snapshot st id = Some sn))
  \/ (o = OBuild true /\ st_counter (step st o) = st_counter st + 1).
Proof.
  intros W. pose proof W as (H0 & H1 & H2).
  destruct o as [vs|a infos acc|cs|worthy|id c]; cbn [step].
  - left; split; [reflexivity | tauto].
  - left; destruct acc; split; try reflexivity; tauto.
  - left; split; [reflexivity | tauto].
  - destruct worthy; [right; split; reflexivity | left; split; [reflexivity | tauto]].
  - left. unfold set_on_chain. destruct (find_snapshot st id) as [sn|] eqn:F.
    + split; [reflexivity|]. intros k. rewrite find_save.
      destruct (sn_id sn =? k) eqn:E; [|tauto].
      apply Z.eqb_eq in E. subst k. destruct (H1 _ _ F) as [_ Hid]. rewrite Hid.
      split; intros _; eauto.
    + split; [reflexivity | tauto].
Qed.

Lemma counter_mono_step st o : st_counter st <= st_counter (step st o).
Proof.
  destruct o as [vs|a infos acc|cs|worthy|id c]; cbn [step st_counter]; try lia.
  - destruct acc; cbn; lia.
  - destruct worthy; cbn; lia.
  - unfold set_on_chain. destruct (find_snapshot st id); cbn; lia.
Qed.

Lemma counter_mono_fold ops : forall st, st_counter st <= st_counter (fold_left step ops st).
Proof.
  induction ops as [|o r IH]; intros st; cbn; [lia|].
  pose proof (counter_mono_step st o). pose proof (IH (step st o)). lia.
Qed.

Lemma build_fresh_id : forall ops,
  let st := run ops in let st' := step st (OBuild true) in
  st_counter st' = st_counter st + 1 /\
  (forall id sn, find_snapshot st id = Some sn -> id < st_counter st') /\
  find_snapshot st (st_counter st') = None /\
  find_snapshot st' (st_counter st') = Some (with_id (st_counter st') (create st)).
Proof.
  intros ops st st'. subst st'. pose proof (wf_run ops) as (H0 & H1 & H2). fold st in H0, H1, H2.
  cbn [step]. split; [reflexivity|]. cbn [st_counter set_as_current]. split; [|split].
  - intros id sn F. apply H1 in F. lia.
  - destruct (find_snapshot st (st_counter st + 1)) as [sn|] eqn:F; [|reflexivity].
    apply H1 in F. lia.
  - rewrite find_set_as_current. now rewrite Z.eqb_refl.
Qed.

Lemma ids_increase : forall ops,
  let st := run ops in
  (* a storing build issues an id above every id in the store, not used before *)
  (let st' := step st (OBuild true) in
   st_counter st' = st_counter st + 1 /\
   (forall id sn, find_snapshot st id = Some sn -> id < st_counter st') /\
   find_snapshot st (st_counter st') = None /\
   exists sn, find_snapshot st' (st_counter st') = Some sn /\ sn_id sn = st_counter st') /\
  (* no other operation issues an id or adds / removes a key *)
  (forall o, o <> OBuild true ->
     st_counter (step st o) = st_counter st /\
     forall id, (exists sn, find_snapshot (step st o) id = Some sn) <-> (exists sn, find_snapshot st id = Some sn)) /\
  (* the counter never decreases along a history *)
  (forall ops', st_counter st <= st_counter (run (ops ++ ops'))).
Proof.
  intros ops st. split; [|split].
  - destruct (build_fresh_id ops) as (A & B & C & D). fold st in A, B, C, D.
    split; [exact A|]. split; [exact B|]. split; [exact C|].
    eexists; split; [exact D | reflexivity].
  - intros o Ho. destruct (counter_step st o (wf_run ops)) as [H|[H _]]; [exact H | contradiction].
  - intros ops'. rewrite run_app. apply counter_mono_fold.
Qed.

(** * Current snapshot = highest id *)

Lemma current_max : forall ops, let st := run ops in
  (forall id sn, find_snapshot st id = Some sn -> id <= st_counter st /\ sn_id sn = id) /\
  (0 < st_counter st -> exists sn, current st = Some sn /\ sn_id sn = st_counter st) /\
  (st_counter st = 0 -> current st = None /\ forall id, find_snapshot st id = None).
Proof.
  intros ops st. pose proof (wf_run ops) as (H0 & H1 & H2). fold st in H0, H1, H2.
  split; [|split].
  - intros id sn F. apply H1 in F. lia.
  - intros Hpos. destruct (H2 (st_counter st)) as [sn F]; [lia|].
    exists sn. split; [exact F|]. now apply H1 in F.
  - intros Hz. assert (N : forall id, find_snapshot st id = None).
    { intros id. destruct (find_snapshot st id) as [sn|] eqn:F; [|reflexivity]. apply H1 in F. lia. }
    split; [apply N | exact N].
Qed.

(** * Immutability *)

Lemma add_chains_nil sn : add_chains [] sn = sn.
Proof. destruct sn; unfold add_chains; cbn. now rewrite app_nil_r. Qed.

Lemma add_chains_add cs1 cs2 sn : add_chains cs2 (add_chains cs1 sn) = add_chains (cs1 ++ cs2) sn.
Proof. unfold add_chains; cbn. now rewrite app_assoc. Qed.

Lemma step_preserves st o id sn : wf st ->
  find_snapshot st id = Some sn ->
  exists cs, find_snapshot (step st o) id = Some (add_chains cs sn).
Proof.
  intros W F. pose proof W as (H0 & H1 & H2).
  assert (Same : exists cs, find_snapshot st id = Some (add_chains cs sn)).
  { exists []. now rewrite add_chains_nil. }
  destruct o as [vs|a infos acc|cs|worthy|k c]; cbn [step]; try exact Same.
  - destruct acc; exact Same.
  - destruct worthy; [|exact Same]. rewrite find_set_as_current.
    destruct (st_counter st + 1 =? id) eqn:E; [|exact Same].
    apply Z.eqb_eq in E. apply H1 in F. lia.
  - unfold set_on_chain. destruct (find_snapshot st k) as [s|] eqn:G; [|exact Same].
    rewrite find_save. destruct (sn_id s =? id) eqn:E; [|exact Same].
    apply Z.eqb_eq in E. destruct (H1 _ _ G) as [_ Hk]. rewrite Hk in E. subst k.
    rewrite F in G. inversion G; subst s. now exists [c].
Qed.

Lemma fold_preserves ops : forall st id sn, wf st ->
  find_snapshot st id = Some sn ->
  exists cs, find_snapshot (fold_left step ops st) id = Some (add_chains cs sn).
Proof.
  induction ops as [|o r IH]; intros st id sn W F; cbn.
  - exists []. now rewrite add_chains_nil.
  - destruct (step_preserves st o id sn W F) as [cs1 F1].
    destruct (IH _ _ _ (wf_step st o W) F1) as [cs2 F2].
    exists (cs1 ++ cs2). now rewrite <- add_chains_add.
Qed.

Lemma immutable_but_chains : forall ops ops' id sn,
  find_snapshot (run ops) id = Some sn ->
  exists cs, find_snapshot (run (ops ++ ops')) id = Some (add_chains cs sn).
Proof. intros. rewrite run_app. apply fold_preserves; [apply wf_run | assumption]. Qed.

(** Every stored snapshot is what createNewSnapshot returned at its build, plus chains. *)
Lemma stored_is_created : forall ops id sn,
  find_snapshot (run ops) id = Some sn ->
  exists pre post cs, ops = pre ++ OBuild true :: post /\
    st_counter (run pre) + 1 = id /\
    sn = add_chains cs (with_id id (create (run pre))).
Proof.
  intros ops. induction ops as [|o r IH] using rev_ind; intros id sn F.
  - discriminate.
  - rewrite run_app in F. cbn [fold_left] in F.
    destruct (find_snapshot (run r) id) as [s0|] eqn:F0.
    + destruct (IH _ _ F0) as (pre & post & cs & E & Hid & Hs).
      destruct (step_preserves (run r) o id s0 (wf_run r) F0) as [cs' F'].
      rewrite F' in F. inversion F; subst sn.
      exists pre, (post ++ [o]), (cs ++ cs'). split; [|split; [exact Hid|]].
      * rewrite E. now rewrite <- app_assoc.
      * rewrite Hs. now rewrite add_chains_add.
    + (* the key is new: only a storing build creates keys *)
      destruct (counter_step (run r) o (wf_run r)) as [[_ K]|[Eo Hc]].
      * assert (X : exists s, find_snapshot (run r) id = Some s) by (apply K; eauto).
        destruct X as [s X]. rewrite X in F0. discriminate.
      * subst o. cbn [step] in F. rewrite find_set_as_current in F.
        destruct (st_counter (run r) + 1 =? id) eqn:E; [|rewrite F in F0; discriminate].
        apply Z.eqb_eq in E. inversion F; subst sn.
        exists r, [], []. split; [reflexivity|]. split; [exact E|].
        rewrite add_chains_nil. now rewrite E.
Qed.

(** * Non-vacuity: a concrete history exercising every operation *)

Local Open Scope string_scope.
Definition ex_ops : list op :=
  [ OChains [("c1", true); ("c0", false); ("c2", true)]%string;
    OStaking [ {| sv_addr := 10; sv_bonded := true;  sv_jailed := false; sv_tokens := 70 |};
               {| sv_addr := 11; sv_bonded := true;  sv_jailed := true;  sv_tokens := 20 |};
               {| sv_addr := 12; sv_bonded := false; sv_jailed := false; sv_tokens := 5 |};
               {| sv_addr := 13; sv_bonded := true;  sv_jailed := false; sv_tokens := 30 |};
               {| sv_addr := 14; sv_bonded := true;  sv_jailed := false; sv_tokens := 9 |} ];
    ORegister 10 [ {| ei_type := "evm"; ei_chain := "c1"; ei_addr := 100; ei_traits := [] |}; {| ei_type := "evm"; ei_chain := "c2"; ei_addr := 101; ei_traits := [] |} ] true;
    ORegister 13 [ {| ei_type := "evm"; ei_chain := "c2"; ei_addr := 131; ei_traits := [] |}; {| ei_type := "evm"; ei_chain := "c1"; ei_addr := 130; ei_traits := [] |} ] true;
    ORegister 14 [ {| ei_type := "evm"; ei_chain := "c1"; ei_addr := 140; ei_traits := [] |} ] true;
    ORegister 11 [ {| ei_type := "evm"; ei_chain := "c1"; ei_addr := 110; ei_traits := [] |}; {| ei_type := "evm"; ei_chain := "c2"; ei_addr := 111; ei_traits := [] |} ] true;
    OBuild true;
    OSetOnChain 1 "c2";
    OStaking [ {| sv_addr := 10; sv_bonded := true; sv_jailed := false; sv_tokens := 50 |} ];
    OBuild true;
    OSetOnChain 1 "c1";
    OSetOnChain 7 "c1";
    OBuild false ].

(** a reference id that differs from an active chain's id only in letter case, by a trailing blank
    or by a look-alike letter is a different id: the chain is reported missing *)
Example ex_near_miss_ids_are_missing :
  let chains := [("bnb-main", true); ("eth-main", true); ("old-net", false)] in
  missing_chains ["eth-main"; "bnb-main"] chains = [] /\
  missing_chains ["Eth-Main"; "bnb-main"] chains = ["eth-main"] /\
  missing_chains ["eth-main "; "BNB-MAIN"; "eth-mai"; "eth-main1"] chains = ["bnb-main"; "eth-main"] /\
  missing_chains [] chains = ["bnb-main"; "eth-main"] /\
  missing_chains ["eth-main"] [("Eth-Main", true); ("eth-main", true)] = ["Eth-Main"].
Proof. vm_compute. repeat split; reflexivity. Qed.

Example ex_history :
  let st := run ex_ops in
  st_counter st = 2 /\
  option_map (fun sn => (map v_addr (sn_vals sn), map v_share (sn_vals sn), sn_total sn, sn_chains sn)) (find_snapshot st 1)
    = Some ([10; 13], [70; 30], 100, ["c2"; "c1"]) /\
  option_map (fun sn => (map v_addr (sn_vals sn), sn_total sn, sn_chains sn)) (current st) = Some ([10], 50, []) /\
  find_snapshot st 7 = None.
Proof. vm_compute. repeat split; reflexivity. Qed.
