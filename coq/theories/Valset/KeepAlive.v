(** C12 — valset keep-alive, grace period, inactivity jailing, pigeon requirements.
    Executable model of x/valset/keeper/keep_alive.go, keeper.go (Jail, deriveJailSentence,
    calculateJailSentenceResetThreshold, Set[Scheduled]PigeonRequirements) and module.go
    (BeginBlock / EndBlock) as they are NOW (after the F9 repair: the unjailed snapshot is written
    length-prefixed under a new key; the comma-joined blob under the old key is read only while it is
    still present and deleted on the first write).  Definitions only; proofs in KeepAliveProofs.v.

    Conventions: addresses and blobs are [list Z] (one cell per byte); heights [Z]; times and
    durations [Z] nanoseconds; versions an abstract type with [vlt a b] = (semver.Compare a b < 0).
    Staking-side facts (status, consensus power) are environment inputs ([SetEnv]); the jailed flag
    is owned by the model (valset.Jail through slashing, plus external jail / unjail events). *)
From Coq Require Import List ZArith Bool.
From Paloma Require Import Base.Corr.
From Paloma Require Gen.C12.
Import ListNotations.
Open Scope Z_scope.

Definition addr := list Z.
Definition addr_eqb (a b : addr) : bool := list_eqb Z.eqb a b.

(** * Snapshot codecs *)

Definition sep : Z := 44. (* ',' *)

(** bytes.Join(vals, ",") *)
Fixpoint legacy_join (l : list addr) : list Z :=
  match l with
  | [] => []
  | [a] => a
  | a :: r => a ++ sep :: legacy_join r
  end.

(** bytes.Split(blob, ","): [cur] is the current piece, reversed *)
Fixpoint split_aux (cur : list Z) (bs : list Z) : list addr :=
  match bs with
  | [] => [rev cur]
  | b :: r => if b =? sep then rev cur :: split_aux [] r else split_aux (b :: cur) r
  end.
Definition legacy_split (bs : list Z) : list addr := split_aux [] bs.

(** encodeUnjailedSnapshot: one length byte, then the address; error above 255 bytes *)
Definition wf_addr (a : addr) : Prop := Z.of_nat (length a) <= 255.
Definition wf_addrb (a : addr) : bool := Z.of_nat (length a) <=? 255.

Fixpoint encode (l : list addr) : option (list Z) :=
  match l with
  | [] => Some []
  | a :: r =>
      if wf_addrb a then
        match encode r with
        | Some bs => Some (Z.of_nat (length a) :: a ++ bs)
        | None => None
        end
      else None
  end.

(** decodeUnjailedSnapshot; [fuel] bounds the number of entries (each consumes a byte) *)
Fixpoint decode_aux (fuel : nat) (bs : list Z) : list addr :=
  match fuel with
  | O => []
  | S f =>
      match bs with
      | [] => []
      | n :: r =>
          if Z.of_nat (length r) <? n then []
          else firstn (Z.to_nat n) r :: decode_aux f (skipn (Z.to_nat n) r)
      end
  end.
Definition decode (bs : list Z) : list addr := decode_aux (length bs) bs.

(** * Association lists (newest binding first) *)

Fixpoint lookup {V} (a : addr) (l : list (addr * V)) : option V :=
  match l with
  | [] => None
  | (k, v) :: r => if addr_eqb k a then Some v else lookup a r
  end.

Definition mem (a : addr) (l : list addr) : bool := existsb (addr_eqb a) l.

(** * Validators *)

(** status: 1 = Unbonded, 2 = Unbonding, 3 = Bonded *)
Record val := { v_addr : addr; v_status : Z; v_jailed : bool; v_power : Z }.

Definition find_val (a : addr) (vs : list val) : option val :=
  find (fun v => addr_eqb (v_addr v) a) vs.

Definition set_jailed (a : addr) (b : bool) (vs : list val) : list val :=
  map (fun v => if addr_eqb (v_addr v) a
                then {| v_addr := v_addr v; v_status := v_status v; v_jailed := b; v_power := v_power v |}
                else v) vs.

Definition set_env (a : addr) (st pw : Z) (vs : list val) : list val :=
  map (fun v => if addr_eqb (v_addr v) a
                then {| v_addr := v_addr v; v_status := st; v_jailed := v_jailed v; v_power := pw |}
                else v) vs.

(** staking iterates validators by store key: length byte, then the address bytes *)
Fixpoint lex_ltb (a b : list Z) : bool :=
  match a, b with
  | [], [] => false
  | [], _ :: _ => true
  | _ :: _, [] => false
  | x :: r, y :: s => if x <? y then true else if y <? x then false else lex_ltb r s
  end.
Definition key_ltb (a b : addr) : bool :=
  lex_ltb (Z.of_nat (length a) :: a) (Z.of_nat (length b) :: b).

Fixpoint insert_val (v : val) (vs : list val) : list val :=
  match vs with
  | [] => [v]
  | w :: r => if key_ltb (v_addr v) (v_addr w) then v :: w :: r else w :: insert_val v r
  end.

Definition unjailed (vs : list val) : list val := filter (fun v => negb (v_jailed v)) vs.
Definition unjailed_addrs (vs : list val) : list addr := map v_addr (unjailed vs).

Definition eligible_status (st : Z) : bool := (st =? 2) || (st =? 3).
Definition valid_status (st : Z) : bool := (1 <=? st) && (st <=? 3).
Definition bonded_unjailed (v : val) : bool := (v_status v =? 3) && negb (v_jailed v).

Fixpoint total_power (vs : list val) : Z :=
  match vs with
  | [] => 0
  | v :: r => if bonded_unjailed v then v_power v + total_power r else total_power r
  end.
Definition count_active (vs : list val) : Z := Z.of_nat (length (filter bonded_unjailed vs)).

(** float64(cp)/float64(total) > 0.25, with exact rationals (also right for total = 0: +Inf / NaN) *)
Definition share_protected (cp total : Z) : bool :=
  Gen.C12.share_den * cp >? Gen.C12.share_num * total.

Definition protected (vs : list val) (v : val) : Prop :=
  count_active vs = 1 \/ share_protected (v_power v) (total_power vs) = true.

(** * Sentences *)

Definition last_sentence : Z := last Gen.C12.jail_sentences 0.

(** deriveJailSentence *)
Definition next_sentence (d : Z) : Z :=
  match find (fun s => d <? s) Gen.C12.jail_sentences with
  | Some s => s
  | None => last_sentence
  end.

(** calculateJailSentenceResetThreshold (Go's [/] truncates) *)
Definition reset_threshold (d : Z) : Z :=
  Z.max Gen.C12.reset_floor (d + Z.quot d Gen.C12.reset_div).

Section Model.
Variable version : Type.
Variable vlt : version -> version -> bool.   (* semver.Compare a b < 0 *)

Record state := {
  height : Z;
  now : Z;
  vals : list val;                      (* in staking iteration order *)
  alive : list (addr * Z);              (* keep-alive store: alive-until height *)
  grace : list (addr * Z);              (* grace-period store: start height *)
  snap_legacy : option (list Z);        (* "unjailed-validators-snapshot" (comma-joined, earlier versions) *)
  snap : option (list Z);               (* "unjailed-validators-snapshot-v2" (length-prefixed) *)
  minver : version;
  sched : option (version * Z);         (* scheduled requirements, target height *)
  jlog : list (addr * (Z * Z));         (* jail log: last sentence, jailed at *)
  until : list (addr * Z);              (* slashing: jailed until *)
  prev_unjailed : list addr             (* ghost: the validators that were unjailed when the last processed end-block ran its grace update (i.e. before that block's sweep) *)
}.

Definition set_clock (s : state) (h t : Z) : state :=
  {| height := h; now := t; vals := vals s; alive := alive s; grace := grace s; snap_legacy := snap_legacy s;
     snap := snap s; minver := minver s; sched := sched s; jlog := jlog s; until := until s;
     prev_unjailed := prev_unjailed s |}.
Definition set_vals (s : state) (vs : list val) : state :=
  {| height := height s; now := now s; vals := vs; alive := alive s; grace := grace s; snap_legacy := snap_legacy s;
     snap := snap s; minver := minver s; sched := sched s; jlog := jlog s; until := until s;
     prev_unjailed := prev_unjailed s |}.
Definition set_alive (s : state) (x : list (addr * Z)) : state :=
  {| height := height s; now := now s; vals := vals s; alive := x; grace := grace s; snap_legacy := snap_legacy s;
     snap := snap s; minver := minver s; sched := sched s; jlog := jlog s; until := until s;
     prev_unjailed := prev_unjailed s |}.
Definition set_snapshot (s : state) (g : list (addr * Z)) (blob : list Z) (cur : list addr) : state :=
  {| height := height s; now := now s; vals := vals s; alive := alive s; grace := g; snap_legacy := None;
     snap := Some blob; minver := minver s; sched := sched s; jlog := jlog s; until := until s;
     prev_unjailed := cur |}.
Definition set_req (s : state) (m : version) (sc : option (version * Z)) : state :=
  {| height := height s; now := now s; vals := vals s; alive := alive s; grace := grace s; snap_legacy := snap_legacy s;
     snap := snap s; minver := m; sched := sc; jlog := jlog s; until := until s;
     prev_unjailed := prev_unjailed s |}.
Definition set_jail (s : state) (vs : list val) (l : list (addr * (Z * Z))) (u : list (addr * Z)) : state :=
  {| height := height s; now := now s; vals := vs; alive := alive s; grace := grace s; snap_legacy := snap_legacy s;
     snap := snap s; minver := minver s; sched := sched s; jlog := l; until := u;
     prev_unjailed := prev_unjailed s |}.

(** ** Keep-alive (msg server KeepAlive -> KeepValidatorAlive -> CanAcceptKeepAlive) *)
Definition keep_alive (s : state) (a : addr) (ver : version) : state * bool :=
  match find_val a (vals s) with
  | None => (s, false)
  | Some _ =>
      if vlt ver (minver s) then (s, false)
      else (set_alive s ((a, height s + Gen.C12.keep_alive_ttl) :: alive s), true)
  end.

Definition is_alive (s : state) (a : addr) : bool :=
  match lookup a (alive s) with
  | Some u => height s <? u
  | None => false
  end.

Definition in_grace (s : state) (a : addr) : bool :=
  match lookup a (grace s) with
  | Some g => height s - g <=? Gen.C12.grace_period
  | None => false
  end.

(** ** Pigeon requirements *)
Definition set_min (s : state) (v : version) : state * bool :=
  if vlt v (minver s) then (s, false) else (set_req s v None, true).
Definition schedule (s : state) (v : version) (t : Z) : state * bool :=
  if vlt v (minver s) then (s, false) else (set_req s (minver s) (Some (v, t)), true).
Definition begin_block (s : state) : state :=
  match sched s with
  | Some (v, t) => if t <=? height s then fst (set_min s v) else s
  | None => s
  end.

(** ** UpdateGracePeriod *)
Definition read_snapshot (s : state) : list addr :=
  match snap_legacy s with
  | Some b => legacy_split b
  | None => match snap s with Some b => decode b | None => [] end
  end.

Definition grant (h : Z) (prev : list addr) (g : list (addr * Z)) (a : addr) : list (addr * Z) :=
  if mem a prev then g else (a, h) :: g.

Definition update_grace (s : state) : option state :=
  let cur := unjailed_addrs (vals s) in
  match encode cur with
  | None => None
  | Some blob => Some (set_snapshot s (fold_left (grant (height s) (read_snapshot s)) cur (grace s)) blob cur)
  end.

(** ** Jail *)
Definition sentence_for (s : state) (a : addr) : Z :=
  match lookup a (jlog s) with
  | Some (d, t) => if now s - t <? reset_threshold d then next_sentence d else next_sentence 0
  | None => next_sentence 0
  end.

Definition jail (s : state) (a : addr) : state * bool :=
  match find_val a (vals s) with
  | None => (s, false)
  | Some v =>
      if v_jailed v then (s, false)
      else if count_active (vals s) =? 1 then (s, false)
      else if share_protected (v_power v) (total_power (vals s)) then (s, false)
      else
        let d := sentence_for s a in
        (set_jail s (set_jailed a true (vals s)) ((a, (d, now s)) :: jlog s) ((a, now s + d) :: until s), true)
  end.

(** ** JailInactiveValidators: the loop body for one validator captured before the loop *)
Definition sweep_one (s : state) (w : val) : state :=
  if negb (eligible_status (v_status w)) then s
  else if is_alive s (v_addr w) then s
  else if in_grace s (v_addr w) then s
  else match find_val (v_addr w) (vals s) with
       | Some cur => if v_jailed cur then s else fst (jail s (v_addr w))
       | None => s
       end.

Definition sweep (s : state) : state := fold_left sweep_one (unjailed (vals s)) s.

Definition is_check_height (h : Z) : bool :=
  (Gen.C12.check_after <? h) && (h mod Gen.C12.check_period =? 0).

(** ** module.go EndBlock (the snapshot build before it does not touch this state) *)
Definition end_block (s : state) : state * bool :=
  match update_grace s with
  | None => (s, false)
  | Some s1 => (if is_check_height (height s1) then sweep s1 else s1, true)
  end.

(** * Histories *)
Inductive op :=
| AddVal (a : addr)                    (* staking: a validator is created *)
| SetEnv (a : addr) (st pw : Z)        (* staking: status / consensus power change *)
| BeginBlock
| KeepAlive (a : addr) (ver : version)
| SetMin (ver : version)
| Schedule (ver : version) (target : Z)
| Unjail (a : addr)                    (* slashing unjail *)
| ExtJail (a : addr)                   (* jailed by staking / slashing directly *)
| Jail (a : addr)                      (* valset.Jail called by another module *)
| EndBlock (dh dt : Z)                 (* end-block, then the chain moves on by dh blocks and dt ns *)
| Tick (dh dt : Z).                    (* the chain moves on without a valset end-block: [EndBlock 0 0; Jail a; Tick 1 dt]
                                          is a block in which a module whose end-blocker runs AFTER valset's jails [a] *)

Definition step (s : state) (o : op) : state :=
  match o with
  | AddVal a =>
      match find_val a (vals s) with
      | Some _ => s
      | None => if wf_addrb a
                then set_vals s (insert_val {| v_addr := a; v_status := 1; v_jailed := false; v_power := 0 |} (vals s))
                else s
      end
  | SetEnv a st pw => if valid_status st && (0 <=? pw) then set_vals s (set_env a st pw (vals s)) else s
  | BeginBlock => begin_block s
  | KeepAlive a ver => fst (keep_alive s a ver)
  | SetMin ver => fst (set_min s ver)
  | Schedule ver t => fst (schedule s ver t)
  | Unjail a => set_vals s (set_jailed a false (vals s))
  | ExtJail a => set_vals s (set_jailed a true (vals s))
  | Jail a => fst (jail s a)
  | EndBlock dh dt => let s' := fst (end_block s) in set_clock s' (height s' + dh) (now s' + dt)
  | Tick dh dt => set_clock s (height s + dh) (now s + dt)
  end.

Definition run (ops : list op) (s : state) : state := fold_left step ops s.

(** A chain with no validators yet; [legacy] is whatever blob an earlier binary left behind. *)
Definition init (h t : Z) (legacy : option (list Z)) (m : version) : state :=
  {| height := h; now := t; vals := []; alive := []; grace := []; snap_legacy := legacy; snap := None;
     minver := m; sched := None; jlog := []; until := []; prev_unjailed := [] |}.

End Model.

Arguments height {version}. Arguments now {version}. Arguments vals {version}. Arguments alive {version}.
Arguments grace {version}. Arguments snap_legacy {version}. Arguments snap {version}. Arguments minver {version}.
Arguments sched {version}. Arguments jlog {version}. Arguments until {version}. Arguments prev_unjailed {version}.
Arguments set_clock {version}. Arguments set_vals {version}. Arguments set_alive {version}.
Arguments set_snapshot {version}. Arguments set_req {version}. Arguments set_jail {version}.
Arguments keep_alive {version}. Arguments is_alive {version}. Arguments in_grace {version}.
Arguments set_min {version}. Arguments schedule {version}. Arguments begin_block {version}.
Arguments read_snapshot {version}. Arguments update_grace {version}. Arguments sentence_for {version}.
Arguments jail {version}. Arguments sweep_one {version}. Arguments sweep {version}. Arguments end_block {version}.
Arguments step {version}. Arguments run {version}. Arguments init {version}.
Arguments AddVal {version}. Arguments SetEnv {version}. Arguments BeginBlock {version}. Arguments KeepAlive {version}.
Arguments SetMin {version}. Arguments Schedule {version}. Arguments Unjail {version}. Arguments ExtJail {version}.
Arguments Jail {version}. Arguments EndBlock {version}. Arguments Tick {version}.
