(** Facts about the LegacyDec model: Ceil/TruncateInt give the least integer not below the
    decimal; the rounding of Mul/Quo is within half a unit of the last place. *)
From Coq Require Import ZArith Bool Lia.
From Paloma Require Import Base.Dec.
Open Scope Z_scope.

Example upper_limit_is : upper_limit = 2 ^ 256 * 10 ^ 18 - 1.
Proof. reflexivity. Qed.
Example prec_is : prec = 10 ^ 18 /\ half_prec = prec / 2.
Proof. split; reflexivity. Qed.

Lemma prec_pos : 0 < prec. Proof. reflexivity. Qed.

(** [is_ceiling a c]: c is the least integer with c * 10^18 >= a, i.e. c = ceil(a / 10^18). *)
Definition is_ceiling (a c : Z) : Prop := (c - 1) * prec < a <= c * prec.

Lemma is_ceiling_unique a c c' : is_ceiling a c -> is_ceiling a c' -> c = c'.
Proof. unfold is_ceiling. pose proof prec_pos. nia. Qed.

Lemma ceil_spec a : exists c, ceil a = c * prec /\ is_ceiling a c.
Proof.
  unfold ceil, is_ceiling.
  pose proof prec_pos as Hp.
  pose proof (Z.quot_rem' a prec) as E.
  assert (Hr : Z.abs (Z.rem a prec) < prec).
  { pose proof (Z.rem_bound_abs a prec ltac:(lia)). lia. }
  assert (Hs : 0 <= a -> 0 <= Z.rem a prec).
  { intros. apply Z.rem_nonneg; lia. }
  assert (Hs' : a <= 0 -> Z.rem a prec <= 0).
  { intros. apply Z.rem_nonpos; lia. }
  destruct (0 <? Z.rem a prec) eqn:Hlt.
  - apply Z.ltb_lt in Hlt. exists (Z.quot a prec + 1). split; [reflexivity|]. nia.
  - apply Z.ltb_ge in Hlt. exists (Z.quot a prec). split; [reflexivity|]. nia.
Qed.

Lemma truncate_int_of_int c : truncate_int (c * prec) = c.
Proof. unfold truncate_int. apply Z.quot_mul. pose proof prec_pos; lia. Qed.

Lemma ceil_truncate a : is_ceiling a (truncate_int (ceil a)).
Proof.
  destruct (ceil_spec a) as (c & E & H). rewrite E, truncate_int_of_int. exact H.
Qed.

Lemma to_uint64_some i r : to_uint64 i = Some r -> r = i /\ 0 <= r < 2 ^ 64.
Proof.
  unfold to_uint64. destruct (0 <=? i) eqn:A; destruct (i <? 18446744073709551616) eqn:B;
    simpl; intros E; try discriminate. inversion E; subst.
  apply Z.leb_le in A. apply Z.ltb_lt in B. change (2 ^ 64) with 18446744073709551616. lia.
Qed.

Lemma checked_some a r : checked a = Some r -> r = a /\ Z.abs a <= upper_limit.
Proof.
  unfold checked, in_range. destruct (Z.abs a <=? upper_limit) eqn:A; intros E; try discriminate.
  inversion E; subst. apply Z.leb_le in A. auto.
Qed.

(** The fee chain returns exactly the ceiling of d*n/10^18 whenever it does not panic. *)
Lemma mul_int_ceil_u64_spec d n r :
  mul_int_ceil_u64 d n = Some r -> is_ceiling (d * n) r /\ 0 <= r < 2 ^ 64.
Proof.
  unfold mul_int_ceil_u64, mul_int.
  destruct (checked (d * n)) as [p|] eqn:E1; try discriminate.
  apply checked_some in E1 as [-> _].
  destruct (checked (ceil (d * n))) as [c|] eqn:E2; try discriminate.
  apply checked_some in E2 as [-> _].
  intros E3. apply to_uint64_some in E3 as [-> H]. split; [apply ceil_truncate | exact H].
Qed.

(** It panics only when an intermediate leaves LegacyDec's range or the result leaves uint64. *)
Lemma mul_int_ceil_u64_total d n :
  0 <= d -> 0 <= n < 2 ^ 64 -> d * n <= (2 ^ 64 - 1) * prec ->
  exists r, mul_int_ceil_u64 d n = Some r.
Proof.
  intros Hd Hn Hb.
  pose proof prec_pos as Hp.
  destruct (ceil_spec (d * n)) as (c & Ec & Hc). unfold is_ceiling in Hc.
  assert (0 <= c) by nia.
  assert (c <= 2 ^ 64 - 1) by nia.
  assert (U : (2 ^ 64) * prec <= upper_limit) by (vm_compute; discriminate).
  unfold mul_int_ceil_u64, mul_int, checked, in_range.
  assert (Z.abs (d * n) <=? upper_limit = true) as -> by (apply Z.leb_le; nia).
  rewrite Ec.
  assert (Z.abs (c * prec) <=? upper_limit = true) as -> by (apply Z.leb_le; nia).
  rewrite truncate_int_of_int. unfold to_uint64.
  assert ((0 <=? c) && (c <? 18446744073709551616) = true) as ->.
  { apply andb_true_iff; split; [apply Z.leb_le | apply Z.ltb_lt]; lia. }
  eauto.
Qed.

(** Banker's rounding stays within half a unit of the last place (so Mul/Quo are the exact
    product / truncated 36-digit quotient rounded to nearest). *)
Lemma chop_round_pos_near d : 0 <= d -> Z.abs (chop_round_pos d * prec - d) <= half_prec.
Proof.
  intros Hd. unfold chop_round_pos.
  pose proof (Z.div_mod d prec ltac:(discriminate)) as E.
  pose proof (Z.mod_pos_bound d prec prec_pos) as B.
  unfold prec, half_prec in *.
  destruct (d mod 1000000000000000000 =? 0) eqn:Z0.
  - apply Z.eqb_eq in Z0. lia.
  - destruct (d mod 1000000000000000000 ?= 500000000000000000) eqn:C.
    + apply Z.compare_eq in C. destruct (Z.even (d / 1000000000000000000)); lia.
    + rewrite Z.compare_lt_iff in C. lia.
    + rewrite Z.compare_gt_iff in C. lia.
Qed.

Lemma chop_round_near d : Z.abs (chop_round d * prec - d) <= half_prec.
Proof.
  unfold chop_round. destruct (d <? 0) eqn:N.
  - apply Z.ltb_lt in N. pose proof (chop_round_pos_near (- d) ltac:(lia)). lia.
  - apply Z.ltb_ge in N. apply chop_round_pos_near; lia.
Qed.

Lemma chop_round_neg d : chop_round (- d) = - chop_round d.
Proof.
  unfold chop_round.
  destruct (d <? 0) eqn:A; destruct (- d <? 0) eqn:B;
    try apply Z.ltb_lt in A; try apply Z.ltb_lt in B; try apply Z.ltb_ge in A; try apply Z.ltb_ge in B;
    try lia.
  - rewrite Z.opp_involutive. reflexivity.
  - assert (d = 0) by lia. subst. reflexivity.
Qed.
