(** ABI decoder (the offset-following reader of go-ethereum's [abi.Arguments.Unpack] / of the
    EVM's calldata decoding) for the universe of Base/Abi.v.  Definitions only; the round-trip
    theorems are in Base/AbiDecProofs.v.  (C05, second round; new file so that Base/Abi.v and its
    users are not rebuilt.)

    INTERFACE
      dec t d      : decode a value of type [t] whose encoding starts at the beginning of [d]
                     (further bytes after it are allowed, as in calldata).  Unlike the injectivity
                     proof of AbiProofs.v -- which never looks at an offset -- this reader FOLLOWS
                     the offsets written in the heads: a dynamic component is read at
                     [start of the enclosing layout + offset].  It does not check that padding is
                     zero nor that offsets are the canonical ones (neither does go-ethereum).
      dec_args ts d: decode an argument list (what follows the 4-byte selector).
      wf_ty t      : no empty tuple inside [t] (Solidity has none).  Then every array element
                     owns at least one 32-byte head word, and the element count read from the data
                     is checked against the bytes that are left BEFORE iterating -- that check is
                     the fuel of the decoder: the recursion is structural in the type and in a
                     count bounded by the input length, so hostile counts (2^255) cost nothing.
      tsize t      : encoded size of a static type;  hsize t : size of its head slot. *)
From Coq Require Import List ZArith Bool.
From Coq Require Import Strings.Byte.
From Paloma Require Import Base.Abi.
Import ListNotations.
Open Scope Z_scope.

Fixpoint tsize (t : abity) : Z :=
  match t with
  | TTuple ts => fold_right (fun t' acc => tsize t' + acc) 0 ts
  | _ => 32
  end.

Definition hsize (t : abity) : Z := if tdyn t then 32 else tsize t.

Fixpoint wf_ty (t : abity) : bool :=
  match t with
  | TTuple ts => match ts with [] => false | _ => forallb wf_ty ts end
  | TArr t' => wf_ty t'
  | _ => true
  end.

Definition drop (n : Z) (d : list byte) : list byte := skipn (Z.to_nat n) d.

(** the number held by the first 32 bytes *)
Definition rd_word (d : list byte) : option Z :=
  if 32 <=? blen d then Some (be_val (firstn 32 d)) else None.

(** one component of a layout [L] whose head slot is at [hp] *)
Definition dec_comp (dyn : bool) (f : list byte -> option abival) (L : list byte) (hp : Z) : option abival :=
  if dyn then
    match rd_word (drop hp L) with
    | Some o => if o <=? blen L then f (drop o L) else None
    | None => None
    end
  else f (drop hp L).

(** the components of a layout, left to right: (dynamic?, head size, reader) *)
Fixpoint dec_seq (cs : list (bool * Z * (list byte -> option abival))) (L : list byte) (hp : Z)
  : option (list abival) :=
  match cs with
  | [] => Some []
  | (dyn, hs, f) :: r =>
      match dec_comp dyn f L hp with
      | Some v => match dec_seq r L (hp + hs) with Some vs => Some (v :: vs) | None => None end
      | None => None
      end
  end.

Fixpoint dec (t : abity) : list byte -> option abival :=
  match t with
  | TWord => fun d => match rd_word d with Some z => Some (VWord z) | None => None end
  | TBytes => fun d =>
      match rd_word d with
      | Some n => if 32 + n <=? blen d then Some (VBytes (firstn (Z.to_nat n) (drop 32 d))) else None
      | None => None
      end
  | TArr t' => fun d =>
      match rd_word d with
      | Some n =>
          let L := drop 32 d in
          if 32 * n <=? blen L then
            match dec_seq (repeat (tdyn t', hsize t', dec t') (Z.to_nat n)) L 0 with
            | Some vs => Some (VArr vs)
            | None => None
            end
          else None
      | None => None
      end
  | TTuple ts => fun d =>
      match dec_seq (map (fun t' => (tdyn t', hsize t', dec t')) ts) d 0 with
      | Some vs => Some (VTuple vs)
      | None => None
      end
  end.

Definition dec_args (ts : list abity) (d : list byte) : option (list abival) :=
  match dec (TTuple ts) d with Some (VTuple vs) => Some vs | _ => None end.

(** decidable equality of values (for cases files) *)
Fixpoint abival_eqb (a b : abival) : bool :=
  match a, b with
  | VWord x, VWord y => x =? y
  | VBytes x, VBytes y =>
      (fix go (x y : list byte) : bool :=
         match x, y with
         | [], [] => true
         | p :: xr, q :: yr => Byte.eqb p q && go xr yr
         | _, _ => false
         end) x y
  | VArr xs, VArr ys | VTuple xs, VTuple ys =>
      (fix go (xs ys : list abival) : bool :=
         match xs, ys with
         | [], [] => true
         | x :: xr, y :: yr => abival_eqb x y && go xr yr
         | _, _ => false
         end) xs ys
  | _, _ => false
  end.
