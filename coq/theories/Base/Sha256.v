(** SHA-256 (FIPS 180-4) on [list byte], executable with [vm_compute].  Used by C11 so that the
    correspondence check can compare the model's rendered claim path with the implementation's
    [ClaimHash] (= tmhash.Sum = SHA-256 of the path).  Nothing about collision resistance is assumed
    anywhere: theorems that go through the hash carry an explicit collision disjunct.
    (File created and owned by the C11 builder.) *)
From Coq Require Import List NArith.
From Coq Require Import Strings.Byte.
Import ListNotations.
Open Scope N_scope.

Definition mask32 : N := 4294967295.
Definition w32 (x : N) : N := N.land x mask32.
Definition add32 (a b : N) : N := w32 (a + b).
Definition rotr (n x : N) : N := N.lor (N.shiftr x n) (w32 (N.shiftl x (32 - n))).
Definition not32 (x : N) : N := N.lxor x mask32.

Definition ch (x y z : N) : N := N.lxor (N.land x y) (N.land (not32 x) z).
Definition maj (x y z : N) : N := N.lxor (N.lxor (N.land x y) (N.land x z)) (N.land y z).
Definition bsig0 (x : N) : N := N.lxor (N.lxor (rotr 2 x) (rotr 13 x)) (rotr 22 x).
Definition bsig1 (x : N) : N := N.lxor (N.lxor (rotr 6 x) (rotr 11 x)) (rotr 25 x).
Definition ssig0 (x : N) : N := N.lxor (N.lxor (rotr 7 x) (rotr 18 x)) (N.shiftr x 3).
Definition ssig1 (x : N) : N := N.lxor (N.lxor (rotr 17 x) (rotr 19 x)) (N.shiftr x 10).

Definition K256 : list N :=
  [1116352408; 1899447441; 3049323471; 3921009573; 961987163; 1508970993; 2453635748; 2870763221;
   3624381080; 310598401; 607225278; 1426881987; 1925078388; 2162078206; 2614888103; 3248222580;
   3835390401; 4022224774; 264347078; 604807628; 770255983; 1249150122; 1555081692; 1996064986;
   2554220882; 2821834349; 2952996808; 3210313671; 3336571891; 3584528711; 113926993; 338241895;
   666307205; 773529912; 1294757372; 1396182291; 1695183700; 1986661051; 2177026350; 2456956037;
   2730485921; 2820302411; 3259730800; 3345764771; 3516065817; 3600352804; 4094571909; 275423344;
   430227734; 506948616; 659060556; 883997877; 958139571; 1322822218; 1537002063; 1747873779;
   1955562222; 2024104815; 2227730452; 2361852424; 2428436474; 2756734187; 3204031479; 3329325298].

Record state := St { sa : N; sb : N; sc : N; sd : N; se : N; sf : N; sg : N; sh : N }.

Definition H0 : state :=
  St 1779033703 3144134277 1013904242 2773480762 1359893119 2600822924 528734635 1541459225.

Fixpoint expand (n : nat) (win : list N) : list N :=
  match n with
  | O => []
  | S n' =>
      let w := add32 (add32 (ssig1 (nth 14 win 0)) (nth 9 win 0)) (add32 (ssig0 (nth 1 win 0)) (nth 0 win 0)) in
      w :: expand n' (tl win ++ [w])
  end.

Definition schedule (blk : list N) : list N := blk ++ expand 48 blk.

Definition round (s : state) (kw : N * N) : state :=
  let t1 := add32 (add32 (add32 (sh s) (bsig1 (se s))) (add32 (ch (se s) (sf s) (sg s)) (fst kw))) (snd kw) in
  let t2 := add32 (bsig0 (sa s)) (maj (sa s) (sb s) (sc s)) in
  St (add32 t1 t2) (sa s) (sb s) (sc s) (add32 (sd s) t1) (se s) (sf s) (sg s).

Definition compress (s : state) (blk : list N) : state :=
  let r := fold_left round (combine K256 (schedule blk)) s in
  St (add32 (sa s) (sa r)) (add32 (sb s) (sb r)) (add32 (sc s) (sc r)) (add32 (sd s) (sd r))
     (add32 (se s) (se r)) (add32 (sf s) (sf r)) (add32 (sg s) (sg r)) (add32 (sh s) (sh r)).

(** bytes (as N) -> big-endian 32-bit words *)
Fixpoint words (l : list N) : list N :=
  match l with
  | a :: b :: c :: d :: r => (a * 16777216 + b * 65536 + c * 256 + d) :: words r
  | _ => []
  end.

Fixpoint chunks (fuel : nat) (ws : list N) : list (list N) :=
  match fuel with
  | O => []
  | S f => match ws with
           | [] => []
           | _ => firstn 16 ws :: chunks f (skipn 16 ws)
           end
  end.

Definition be_bytes (k : nat) (x : N) : list N :=
  map (fun i => N.land (N.shiftr x (8 * N.of_nat i)) 255) (rev (seq 0 k)).

Definition pad (m : list N) : list N :=
  let len := N.of_nat (length m) in
  let zeros := N.to_nat ((119 - (len mod 64)) mod 64) in
  m ++ [128] ++ repeat 0 zeros ++ be_bytes 8 (8 * len).

Definition byte_of_N (n : N) : byte :=
  match Byte.of_N (N.land n 255) with Some b => b | None => x00 end.

Definition be32 (x : N) : list byte :=
  [byte_of_N (N.shiftr x 24); byte_of_N (N.shiftr x 16); byte_of_N (N.shiftr x 8); byte_of_N x].

Definition digest (s : state) : list byte :=
  be32 (sa s) ++ be32 (sb s) ++ be32 (sc s) ++ be32 (sd s) ++ be32 (se s) ++ be32 (sf s) ++ be32 (sg s) ++ be32 (sh s).

Definition sha256 (m : list byte) : list byte :=
  let ws := words (pad (map Byte.to_N m)) in
  digest (fold_left compress (chunks (S (length m)) ws) H0).

Lemma sha256_length : forall m, length (sha256 m) = 32%nat.
Proof. intros m. unfold sha256, digest. reflexivity. Qed.

(** FIPS 180-4 test vectors: "abc", the empty message, and the two-block 56-byte message. *)
Definition bytes_of_Ns (l : list N) : list byte := map byte_of_N l.

Example sha256_abc :
  sha256 (bytes_of_Ns [97; 98; 99]) =
  bytes_of_Ns [186;120;22;191;143;1;207;234;65;65;64;222;93;174;34;35;176;3;97;163;150;23;122;156;180;16;255;97;242;0;21;173].
Proof. vm_compute. reflexivity. Qed.

Example sha256_empty :
  sha256 [] =
  bytes_of_Ns [227;176;196;66;152;252;28;20;154;251;244;200;153;111;185;36;39;174;65;228;100;155;147;76;164;149;153;27;120;82;184;85].
Proof. vm_compute. reflexivity. Qed.

(* "abcdbcdecdefdefgefghfghighijhijkijkljklmklmnlmnomnopnopq" *)
Example sha256_two_blocks :
  sha256 (bytes_of_Ns [97;98;99;100;98;99;100;101;99;100;101;102;100;101;102;103;101;102;103;104;102;103;104;105;
                       103;104;105;106;104;105;106;107;105;106;107;108;106;107;108;109;107;108;109;110;108;109;110;111;
                       109;110;111;112;110;111;112;113]) =
  bytes_of_Ns [36;141;106;97;210;6;56;184;229;192;38;147;12;62;96;57;163;60;228;89;100;255;33;103;246;236;237;212;25;219;6;193].
Proof. vm_compute. reflexivity. Qed.
