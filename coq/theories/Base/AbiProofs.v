(** Proofs about the ABI encoder of Base/Abi.v.  Main results (C05; reused by C07):
      enc_prefix_injective : typed t v -> typed t v' -> enc v ++ r = enc v' ++ r' -> v = v' /\ r = r'
      abi_enc_injective    : typed t v -> typed t v' -> enc v = enc v' -> v = v'
      enc_args_injective   : the same for argument lists (Forall2 typed ts vs)
    Also: word / be are injective on their range ([word_inj], [be_val_be]), [typed_is_dyn].
    The offsets written in the heads play no role in the proof: every encoding is self-delimiting
    (that is what the [r], [r'] generalisation says), so the tail decomposes without them. *)
From Coq Require Import List ZArith Bool Lia.
From Coq Require Import Strings.Byte.
From Paloma Require Import Base.Abi.
Import ListNotations.
Open Scope Z_scope.

(** ---- bytes and big-endian numbers ---- *)

Lemma Z_of_byte_range : forall b, 0 <= Z_of_byte b < 256.
Proof.
  intros b. unfold Z_of_byte. pose proof (Byte.to_N_bounded b) as H. lia.
Qed.

Lemma Z_of_byte_of_Z : forall z, Z_of_byte (byte_of_Z z) = z mod 256.
Proof.
  intros z. unfold byte_of_Z, Z_of_byte.
  assert (Hr : 0 <= z mod 256 < 256) by (apply Z.mod_pos_bound; lia).
  destruct (Byte.of_N (Z.to_N (z mod 256))) as [b|] eqn:E.
  - apply Byte.to_of_N in E. rewrite E. rewrite Z2N.id; lia.
  - apply Byte.of_N_None_iff in E. lia.
Qed.

Lemma byte_of_Z_of_byte : forall b, byte_of_Z (Z_of_byte b) = b.
Proof.
  intros b. unfold byte_of_Z. pose proof (Z_of_byte_range b) as Hr.
  rewrite Z.mod_small by lia. unfold Z_of_byte. rewrite N2Z.id. now rewrite Byte.of_to_N.
Qed.

Lemma bytes_of_Zs_of_bytes : forall l, bytes_of_Zs (Zs_of_bytes l) = l.
Proof.
  induction l as [|b r IH]; simpl; [reflexivity|]. now rewrite byte_of_Z_of_byte, IH.
Qed.

Lemma be_acc_app : forall k z acc, be_acc k z acc = be_acc k z [] ++ acc.
Proof.
  induction k as [|k IH]; intros z acc; simpl; [reflexivity|].
  rewrite IH. rewrite (IH (z / 256) [byte_of_Z z]). now rewrite <- app_assoc.
Qed.

Lemma be_snoc : forall k z, be (S k) z = be k (z / 256) ++ [byte_of_Z z].
Proof. intros k z. unfold be. simpl. apply be_acc_app. Qed.

Lemma be_length : forall k z, length (be k z) = k.
Proof.
  induction k as [|k IH]; intros z; [reflexivity|].
  rewrite be_snoc, app_length, IH. simpl. lia.
Qed.

Lemma be_val_snoc : forall l b, be_val (l ++ [b]) = be_val l * 256 + Z_of_byte b.
Proof. intros l b. unfold be_val. now rewrite fold_left_app. Qed.

Lemma be_val_be : forall k z, be_val (be k z) = z mod 256 ^ Z.of_nat k.
Proof.
  induction k as [|k IH]; intros z.
  - simpl. now rewrite Z.mod_1_r.
  - rewrite be_snoc, be_val_snoc, IH, Z_of_byte_of_Z.
    rewrite Nat2Z.inj_succ, Z.pow_succ_r by lia.
    assert (Hp : 0 < 256 ^ Z.of_nat k) by (apply Z.pow_pos_nonneg; lia).
    rewrite Z.rem_mul_r by lia. lia.
Qed.

Lemma be_val_range : forall l, 0 <= be_val l < 256 ^ Z.of_nat (length l).
Proof.
  induction l as [|b r IH] using rev_ind.
  - simpl. unfold be_val. simpl. lia.
  - rewrite be_val_snoc, app_length. simpl length.
    replace (Z.of_nat (length r + 1)) with (Z.succ (Z.of_nat (length r))) by lia.
    rewrite Z.pow_succ_r by lia. pose proof (Z_of_byte_range b). lia.
Qed.

Lemma word_length : forall z, length (word z) = 32%nat.
Proof. intros z. apply be_length. Qed.

Lemma two256_eq : two256 = 256 ^ Z.of_nat 32.
Proof. reflexivity. Qed.

Lemma be_val_word : forall z, 0 <= z < two256 -> be_val (word z) = z.
Proof.
  intros z Hz. unfold word. rewrite be_val_be. rewrite <- two256_eq. apply Z.mod_small. exact Hz.
Qed.

Lemma word_inj : forall z z', 0 <= z < two256 -> 0 <= z' < two256 -> word z = word z' -> z = z'.
Proof.
  intros z z' Hz Hz' E. rewrite <- (be_val_word z Hz), <- (be_val_word z' Hz'). now rewrite E.
Qed.

Lemma u256_range : forall z, 0 <= u256 z < two256.
Proof. intros z. unfold u256. apply Z.mod_pos_bound. reflexivity. Qed.

(** ---- list plumbing ---- *)

Lemma app_eq_len : forall (A : Type) (a a' r r' : list A),
  length a = length a' -> a ++ r = a' ++ r' -> a = a' /\ r = r'.
Proof.
  intros A a. induction a as [|x a IH]; intros a' r r' Hl E; destruct a' as [|y a']; simpl in *; try discriminate.
  - now split.
  - injection E as -> E. injection Hl as Hl. destruct (IH a' r r' Hl E) as [-> ->]. now split.
Qed.

Lemma word_prefix : forall z z' r r', 0 <= z < two256 -> 0 <= z' < two256 ->
  word z ++ r = word z' ++ r' -> z = z' /\ r = r'.
Proof.
  intros z z' r r' Hz Hz' E.
  apply app_eq_len in E; [| now rewrite !word_length].
  destruct E as [E ->]. split; [now apply word_inj | reflexivity].
Qed.

(** ---- the induction principle for nested types ---- *)

Fixpoint abity_ind' (P : abity -> Prop)
  (HW : P TWord) (HB : P TBytes) (HA : forall t, P t -> P (TArr t))
  (HT : forall ts, Forall P ts -> P (TTuple ts)) (t : abity) : P t :=
  match t with
  | TWord => HW
  | TBytes => HB
  | TArr t' => HA t' (abity_ind' P HW HB HA HT t')
  | TTuple ts =>
      HT ts ((fix go (ts : list abity) : Forall P ts :=
                match ts with
                | [] => Forall_nil P
                | t :: r => Forall_cons t (abity_ind' P HW HB HA HT t) (go r)
                end) ts)
  end.

(** typing of element lists, unfolded *)
Definition typed_all (t : abity) (vs : list abival) : Prop := Forall (typed t) vs.
Definition typed_all2 (ts : list abity) (vs : list abival) : Prop := Forall2 typed ts vs.

Lemma typed_arr : forall t vs, typed (TArr t) (VArr vs) <-> Z.of_nat (length vs) < two256 /\ Forall (typed t) vs.
Proof.
  intros t vs. cbn [typed]. split; intros [Hl H]; (split; [exact Hl|]); clear Hl.
  - induction vs as [|v r IH]; [constructor|]. destruct H as [Hv Hr]. constructor; [exact Hv | exact (IH Hr)].
  - induction vs as [|v r IH]; [exact I|]. inversion H as [|? ? Hv Hr]; subst. split; [exact Hv | exact (IH Hr)].
Qed.

Lemma typed_tuple : forall ts vs, typed (TTuple ts) (VTuple vs) <-> Forall2 typed ts vs.
Proof.
  intros ts. cbn [typed]. induction ts as [|t tr IH]; intros vs; destruct vs as [|v vr]; split; intros H.
  - constructor.
  - exact I.
  - contradiction.
  - inversion H.
  - contradiction.
  - inversion H.
  - destruct H as [Hv Hr]. constructor; [exact Hv | apply IH; exact Hr].
  - inversion H as [|? ? ? ? Hv Hr]; subst. split; [exact Hv | apply IH; exact Hr].
Qed.

(** the dynamic flag of a typed value is that of its type *)
Lemma typed_is_dyn : forall t v, typed t v -> is_dyn v = tdyn t.
Proof.
  induction t as [| | t IH | ts IH] using abity_ind'; intros v Hv; destruct v; try contradiction; try reflexivity.
  apply typed_tuple in Hv. simpl.
  revert vs Hv. induction IH as [|t tr Ht Htr IHr]; intros vs Hv; inversion Hv; subst; simpl; [reflexivity|].
  f_equal; [now apply Ht | now apply IHr].
Qed.

(** ---- layout: heads then tails, component-wise injective ---- *)
Opaque word.
Arguments enc : simpl nomatch.

(** [pinj v v']: the encodings of v and v' are distinguishable even when followed by junk. *)
Definition pinj (v v' : abival) : Prop :=
  forall r r', enc v ++ r = enc v' ++ r' -> v = v' /\ r = r'.

Definition comps (vs : list abival) : list (bool * list byte) := map (fun v => (is_dyn v, enc v)) vs.

(** pass 1 over the heads: static components are equal, and what follows the heads is equal *)
Lemma heads_inj : forall vs vs', Forall2 (fun v v' => is_dyn v = is_dyn v' /\ pinj v v') vs vs' ->
  forall off off' x x', heads off (comps vs) ++ x = heads off' (comps vs') ++ x' ->
  Forall2 (fun v v' => is_dyn v = false -> v = v') vs vs' /\ x = x'.
Proof.
  intros vs vs' H. induction H as [|v v' r r' [Hd Hp] Hr IH]; intros off off' x x' E.
  - simpl in E. split; [constructor | exact E].
  - simpl in E. rewrite <- Hd in E. destruct (is_dyn v) eqn:Dv; simpl in E.
    + rewrite <- !app_assoc in E.
      apply app_eq_len in E; [| now rewrite !word_length]. destruct E as [_ E].
      apply IH in E. destruct E as [F ->]. split; [|reflexivity]. constructor; [intros; congruence | exact F].
    + rewrite <- !app_assoc in E. apply Hp in E. destruct E as [-> E].
      apply IH in E. destruct E as [F ->]. split; [|reflexivity]. constructor; [intros; reflexivity | exact F].
Qed.

(** pass 2 over the tails: dynamic components are equal, and the rest is equal *)
Lemma tails_inj : forall vs vs', Forall2 (fun v v' => is_dyn v = is_dyn v' /\ pinj v v') vs vs' ->
  forall x x', tails (comps vs) ++ x = tails (comps vs') ++ x' ->
  Forall2 (fun v v' => is_dyn v = true -> v = v') vs vs' /\ x = x'.
Proof.
  intros vs vs' H. induction H as [|v v' r r' [Hd Hp] Hr IH]; intros x x' E.
  - simpl in E. split; [constructor | exact E].
  - unfold tails in E. simpl in E. rewrite <- Hd in E. destruct (is_dyn v) eqn:Dv; simpl in E.
    + rewrite <- !app_assoc in E. apply Hp in E. destruct E as [-> E].
      apply IH in E. destruct E as [F ->]. split; [|reflexivity]. constructor; [intros; reflexivity | exact F].
    + simpl in E. apply IH in E. destruct E as [F ->]. split; [|reflexivity]. constructor; [intros; congruence | exact F].
Qed.

Lemma layout_inj : forall vs vs', Forall2 (fun v v' => is_dyn v = is_dyn v' /\ pinj v v') vs vs' ->
  forall x x', layout (comps vs) ++ x = layout (comps vs') ++ x' -> vs = vs' /\ x = x'.
Proof.
  intros vs vs' H x x' E. unfold layout in E. rewrite <- !app_assoc in E.
  destruct (heads_inj vs vs' H _ _ _ _ E) as [Fs E2].
  destruct (tails_inj vs vs' H _ _ E2) as [Fd ->]. split; [|reflexivity].
  clear E E2 H. revert Fd. induction Fs as [|v v' r r' Hs Hr IH]; intros Fd; [reflexivity|].
  inversion Fd; subst. f_equal; [| now apply IH].
  destruct (is_dyn v) eqn:D; [now apply H2 | now apply Hs].
Qed.

(** ---- the main induction ---- *)

Lemma Forall2_same_type : forall (P : abity -> Prop) ts vs vs',
  Forall P ts -> Forall2 typed ts vs -> Forall2 typed ts vs' ->
  (forall t v v', P t -> typed t v -> typed t v' -> is_dyn v = is_dyn v' /\ pinj v v') ->
  Forall2 (fun v v' => is_dyn v = is_dyn v' /\ pinj v v') vs vs'.
Proof.
  intros P ts vs vs' HP H1. revert vs' HP. induction H1 as [|t v tr vr Hv Hr IH]; intros vs' HP H2 K;
    inversion H2; subst; [constructor|]. inversion HP; subst.
  constructor; [now apply (K t) | now apply IH].
Qed.

Lemma Forall_same_type : forall t vs vs',
  Forall (typed t) vs -> Forall (typed t) vs' -> length vs = length vs' ->
  (forall v v', typed t v -> typed t v' -> is_dyn v = is_dyn v' /\ pinj v v') ->
  Forall2 (fun v v' => is_dyn v = is_dyn v' /\ pinj v v') vs vs'.
Proof.
  intros t vs. induction vs as [|v r IH]; intros vs' H1 H2 Hl K; destruct vs' as [|v' r']; try discriminate; [constructor|].
  inversion H1; subst. inversion H2; subst. injection Hl as Hl.
  constructor; [now apply K | now apply IH].
Qed.

Lemma blen_app_zeros : forall (b : list byte), length (b ++ zeros (pad32 (length b))) = (length b + pad32 (length b))%nat.
Proof. intros b. rewrite app_length. unfold zeros. now rewrite repeat_length. Qed.

Theorem enc_prefix_injective : forall t v v', typed t v -> typed t v' -> pinj v v'.
Proof.
  induction t as [| | t IH | ts IH] using abity_ind'; intros v v' Hv Hv'; destruct v, v'; try contradiction;
    intros r r' E.
  - (* word *)
    simpl in E. apply word_prefix in E; try assumption. destruct E as [-> ->]. now split.
  - (* bytes *)
    simpl in Hv, Hv'. simpl in E. rewrite <- !app_assoc in E.
    apply word_prefix in E; [| unfold blen in *; lia | unfold blen in *; lia].
    destruct E as [Hl E]. unfold blen in Hl. apply Nat2Z.inj in Hl.
    apply app_eq_len in E; [| exact Hl]. destruct E as [-> E].
    apply app_eq_len in E; [| reflexivity]. destruct E as [_ ->]. now split.
  - (* array *)
    apply typed_arr in Hv. apply typed_arr in Hv'. destruct Hv as [Hl Hv]. destruct Hv' as [Hl' Hv'].
    simpl in E. rewrite <- !app_assoc in E.
    apply word_prefix in E; [| lia | lia]. destruct E as [Hn E]. apply Nat2Z.inj in Hn.
    fold (comps vs) in E. fold (comps vs0) in E.
    apply layout_inj in E.
    + destruct E as [-> ->]. now split.
    + apply (Forall_same_type t); try assumption.
      intros a a' Ha Ha'. split; [now rewrite (typed_is_dyn t a Ha), (typed_is_dyn t a' Ha') | now apply IH].
  - (* tuple *)
    apply typed_tuple in Hv. apply typed_tuple in Hv'.
    simpl in E. fold (comps vs) in E. fold (comps vs0) in E.
    apply layout_inj in E.
    + destruct E as [-> ->]. now split.
    + apply (Forall2_same_type (fun t => forall v v', typed t v -> typed t v' -> pinj v v') ts); try assumption.
      intros t a a' Ht Ha Ha'. split; [now rewrite (typed_is_dyn t a Ha), (typed_is_dyn t a' Ha') | now apply Ht].
Qed.

Theorem abi_enc_injective : forall t v v', typed t v -> typed t v' -> enc v = enc v' -> v = v'.
Proof.
  intros t v v' Hv Hv' E.
  destruct (enc_prefix_injective t v v' Hv Hv' [] []) as [H _]; [now rewrite !app_nil_r | exact H].
Qed.

Theorem enc_args_injective : forall ts vs vs', Forall2 typed ts vs -> Forall2 typed ts vs' ->
  enc_args vs = enc_args vs' -> vs = vs'.
Proof.
  intros ts vs vs' H H' E. unfold enc_args in E.
  assert (VTuple vs = VTuple vs') as X.
  { apply (abi_enc_injective (TTuple ts)); [now apply typed_tuple | now apply typed_tuple | exact E]. }
  now injection X.
Qed.

(** Non-vacuity: a dynamic-in-dynamic value and its encoding (the bytes are those go-ethereum
    produces for ((address,bytes)[], uint256) = ([(1, 0xAABB)], 7)). *)
Example enc_sample :
  Zs_of_bytes (enc_args [VArr [VTuple [VWord 1; VBytes (bytes_of_Zs [170; 187])]]; VWord 7])
  = Zs_of_bytes (word 64 ++ word 7 ++ word 1 ++ word 32 ++ word 1 ++ word 64 ++ word 2
                 ++ bytes_of_Zs [170; 187] ++ zeros 30).
Proof. vm_compute. reflexivity. Qed.

Example enc_sample_typed :
  typed (TTuple [TArr (TTuple [TWord; TBytes]); TWord])
        (VTuple [VArr [VTuple [VWord 1; VBytes (bytes_of_Zs [170; 187])]]; VWord 7]).
Proof. vm_compute. repeat split; discriminate. Qed.
