(** Proofs about the ABI encoder of Base/Abi.v: injectivity. (C05) *)
From Coq Require Import List ZArith Bool Lia.
From Coq Require Import Strings.Byte.
From Paloma Require Import Base.Abi.
Import ListNotations.
Open Scope Z_scope.
