(** Round-trip theorems for the ABI decoder of Base/AbiDec.v (C05, second round).
      dec_enc            : wf_ty t -> typed t v -> blen (enc v) < 2^256 -> dec t (enc v ++ r) = Some v
      dec_enc_args       : the same for argument lists
      dec_typed          : dec t d = Some v -> typed t v            (whatever the bytes)
      dec_enc_canonical  : on a canonical encoding, decoding then encoding gives the bytes back
      enc_injective_via_decoder : injectivity of [enc] once more, this time THROUGH the offsets
                           (AbiProofs.enc_prefix_injective never reads an offset; the two proofs
                           share only the byte/word lemmas)
      noncanonical_sample: the converse direction needs canonicity -- a non-canonical encoding
                           (shifted offset) decodes to the same value.
    The hypothesis [blen (enc v) < 2^256] is what makes the offsets fit their word; every
    encoding that exists physically satisfies it. *)
From Coq Require Import List ZArith Bool Lia.
From Coq Require Import Strings.Byte.
From Paloma Require Import Base.Abi Base.AbiProofs Base.AbiDec.
Import ListNotations.
Open Scope Z_scope.

(** ---- list / length plumbing ---- *)
Lemma blen_app : forall a b, blen (a ++ b) = blen a + blen b.
Proof. intros a b. unfold blen. rewrite app_length. lia. Qed.

Lemma blen_nonneg : forall a, 0 <= blen a.
Proof. intros a. unfold blen. lia. Qed.

Lemma blen_word : forall z, blen (word z) = 32.
Proof. intros z. unfold blen. now rewrite word_length. Qed.

Lemma drop_app : forall a b, drop (blen a) (a ++ b) = b.
Proof.
  intros a b. unfold drop, blen. rewrite Nat2Z.id. rewrite skipn_app, skipn_all, Nat.sub_diag. reflexivity.
Qed.

Lemma drop_app_eq : forall n a b, n = blen a -> drop n (a ++ b) = b.
Proof. intros n a b ->. apply drop_app. Qed.

Lemma drop_0 : forall d, drop 0 d = d.
Proof. reflexivity. Qed.

Lemma firstn_app_exact : forall (A : Type) (a b : list A), firstn (length a) (a ++ b) = a.
Proof. intros A a b. rewrite firstn_app, Nat.sub_diag, firstn_all. simpl. now rewrite app_nil_r. Qed.

Lemma skipn_app_exact : forall (A : Type) (a b : list A), skipn (length a) (a ++ b) = b.
Proof. intros A a b. rewrite skipn_app, skipn_all, Nat.sub_diag. reflexivity. Qed.

Lemma drop_word : forall z r, drop 32 (word z ++ r) = r.
Proof. intros z r. apply drop_app_eq. now rewrite blen_word. Qed.

Lemma rd_word_word : forall z r, 0 <= z < two256 -> rd_word (word z ++ r) = Some z.
Proof.
  intros z r Hz. unfold rd_word. rewrite blen_app, blen_word.
  pose proof (blen_nonneg r). destruct (32 <=? 32 + blen r) eqn:E; [| apply Z.leb_gt in E; lia].
  rewrite <- (word_length z) at 1. rewrite firstn_app_exact. now rewrite be_val_word.
Qed.

Lemma rd_word_range : forall d z, rd_word d = Some z -> 0 <= z < two256.
Proof.
  intros d z H. unfold rd_word in H. destruct (32 <=? blen d) eqn:E; [| discriminate].
  injection H as <-. apply Z.leb_le in E. unfold blen in E.
  pose proof (be_val_range (firstn 32 d)) as R. rewrite firstn_length_le in R by lia.
  now rewrite two256_eq.
Qed.

(** ---- sizes of layouts ---- *)
Lemma heads_length : forall ps off, blen (heads off ps) = heads_total ps.
Proof.
  induction ps as [|p r IH]; intros off; [reflexivity|].
  cbn [heads heads_total fold_right]. unfold head_size. destruct (fst p).
  - rewrite blen_app, blen_word, IH. reflexivity.
  - rewrite blen_app, IH. reflexivity.
Qed.

Lemma heads_app : forall a b off, heads off (a ++ b) = heads off a ++ heads (off + blen (tails a)) b.
Proof.
  induction a as [|p r IH]; intros b off.
  - cbn. now rewrite Z.add_0_r.
  - cbn [app heads]. unfold tails. cbn [flat_map]. fold (tails r). destruct (fst p).
    + rewrite IH, blen_app, <- app_assoc. now rewrite Z.add_assoc.
    + rewrite IH. cbn [app]. now rewrite <- app_assoc.
Qed.

Lemma tails_app : forall a b, tails (a ++ b) = tails a ++ tails b.
Proof. intros a b. unfold tails. now rewrite flat_map_app. Qed.

Lemma heads_total_app : forall a b, heads_total (a ++ b) = heads_total a + heads_total b.
Proof.
  induction a as [|p r IH]; intros b; [reflexivity|]. simpl. rewrite IH. lia.
Qed.

Lemma heads_total_nonneg : forall ps, 0 <= heads_total ps.
Proof.
  induction ps as [|p r IH]; [simpl; lia|]. simpl. unfold head_size.
  destruct (fst p); pose proof (blen_nonneg (snd p)); lia.
Qed.

Lemma layout_length : forall ps, blen (layout ps) = heads_total ps + blen (tails ps).
Proof. intros ps. unfold layout. now rewrite blen_app, heads_length. Qed.

Lemma comps_app : forall a b, comps (a ++ b) = comps a ++ comps b.
Proof. intros a b. unfold comps. apply map_app. Qed.

(** every component's encoding is inside the layout *)
Lemma comp_le_layout : forall vs v, In v vs -> blen (enc v) <= blen (layout (comps vs)).
Proof.
  intros vs v H. apply in_split in H. destruct H as [a [b ->]].
  rewrite layout_length, comps_app, heads_total_app, tails_app, blen_app.
  change (comps (v :: b)) with ((is_dyn v, enc v) :: comps b).
  simpl heads_total. unfold tails at 2. simpl flat_map. fold (tails (comps b)). unfold head_size. simpl fst. simpl snd.
  pose proof (heads_total_nonneg (comps a)). pose proof (heads_total_nonneg (comps b)).
  pose proof (blen_nonneg (tails (comps a))). pose proof (blen_nonneg (tails (comps b))).
  rewrite blen_app. pose proof (blen_nonneg (enc v)). destruct (is_dyn v); [| change (blen []) with 0]; lia.
Qed.

(** ---- static types have a fixed size ---- *)
Lemma tsize_nonneg : forall t, 0 <= tsize t.
Proof.
  induction t as [| | t IH | ts IH] using abity_ind'; simpl; try lia.
  induction IH as [|t tr Ht Htr IHr]; simpl; lia.
Qed.

Lemma static_size : forall t v, typed t v -> tdyn t = false -> blen (enc v) = tsize t.
Proof.
  induction t as [| | t IH | ts IH] using abity_ind'; intros v Hv Hd; destruct v; try contradiction; try discriminate.
  - simpl. apply blen_word.
  - apply typed_tuple in Hv. simpl in Hd. cbn [enc]. fold (comps vs).
    rewrite layout_length. cbn [tsize].
    revert vs Hv Hd. induction IH as [|t tr Ht Htr IHr]; intros vs Hv Hd; inversion Hv; subst; [reflexivity|].
    simpl in Hd. apply orb_false_iff in Hd. destruct Hd as [Hd1 Hd2].
    change (comps (y :: l')) with ((is_dyn y, enc y) :: comps l').
    simpl heads_total. unfold tails. simpl flat_map. fold (tails (comps l')). unfold head_size. simpl fst. simpl snd.
    rewrite (typed_is_dyn t y H1), Hd1. simpl app.
    specialize (IHr l' H3 Hd2). rewrite (Ht y H1 Hd1). simpl fold_right. lia.
Qed.

Lemma wf_static_size : forall t, wf_ty t = true -> tdyn t = false -> 32 <= tsize t.
Proof.
  induction t as [| | t IH | ts IH] using abity_ind'; intros Hw Hd; simpl in *; try lia; try discriminate.
  destruct ts as [|t tr]; [discriminate|].
  inversion IH as [|? ? Ht Htr]; subst. simpl in Hw, Hd. apply andb_true_iff in Hw. destruct Hw as [Hw _].
  apply orb_false_iff in Hd. destruct Hd as [Hd _]. specialize (Ht Hw Hd). simpl.
  assert (0 <= fold_right (fun t' acc => tsize t' + acc) 0 tr) as P.
  { clear. induction tr as [|x r IH]; simpl; [lia | pose proof (tsize_nonneg x); lia]. }
  lia.
Qed.

Lemma hsize_min : forall t, wf_ty t = true -> 32 <= hsize t.
Proof. intros t H. unfold hsize. destruct (tdyn t) eqn:D; [lia | now apply wf_static_size]. Qed.

(** ---- reading a layout back ---- *)

(** [rel v c]: the reader [c] is the right one for the component [v] *)
Definition rel (v : abival) (c : bool * Z * (list byte -> option abival)) : Prop :=
  fst (fst c) = is_dyn v /\
  snd (fst c) = (if is_dyn v then 32 else blen (enc v)) /\
  (forall junk, snd c (enc v ++ junk) = Some v).

Lemma dec_seq_layout : forall all r, blen (layout (comps all)) < two256 ->
  forall post pre cs, all = pre ++ post -> Forall2 rel post cs ->
  dec_seq cs (layout (comps all) ++ r) (heads_total (comps pre)) = Some post.
Proof.
  intros all r Hsmall post. induction post as [|v post IH]; intros pre cs Hall HR.
  - inversion HR; subst. reflexivity.
  - inversion HR as [|? c ? cs' Hc HR']; subst. destruct c as [[dyn hs] f].
    destruct Hc as [Hdyn [Hhs Hf]]. simpl in Hdyn, Hhs, Hf. subst dyn hs.
    assert (Hnext : heads_total (comps pre) + (if is_dyn v then 32 else blen (enc v)) = heads_total (comps (pre ++ [v]))).
    { rewrite comps_app, heads_total_app. simpl. unfold head_size. simpl. lia. }
    specialize (IH (pre ++ [v]) cs'). rewrite <- app_assoc in IH. specialize (IH eq_refl HR').
    cbn [dec_seq]. rewrite Hnext, IH.
    assert (dec_comp (is_dyn v) f (layout (comps (pre ++ v :: post)) ++ r) (heads_total (comps pre)) = Some v) as ->; [| reflexivity].
    set (P := comps (pre ++ v :: post)). set (H := heads_total P).
    assert (EL : layout P ++ r =
                 heads H (comps pre) ++ heads (H + blen (tails (comps pre))) (comps (v :: post)) ++
                 tails (comps pre) ++ tails (comps (v :: post)) ++ r).
    { unfold layout. fold H. unfold P. rewrite comps_app, heads_app, tails_app. now rewrite <- !app_assoc. }
    set (o := H + blen (tails (comps pre))) in *.
    assert (Hhp : heads_total (comps pre) = blen (heads H (comps pre))) by now rewrite heads_length.
    unfold dec_comp. destruct (is_dyn v) eqn:Dv.
    + (* dynamic: follow the offset *)
      assert (Ehd : heads o (comps (v :: post)) = word o ++ heads (o + blen (enc v)) (comps post)).
      { change (comps (v :: post)) with ((is_dyn v, enc v) :: comps post). cbn [heads fst snd]. now rewrite Dv. }
      assert (Etl : tails (comps (v :: post)) = enc v ++ tails (comps post)).
      { change (comps (v :: post)) with ((is_dyn v, enc v) :: comps post). unfold tails. cbn [flat_map fst snd]. now rewrite Dv. }
      assert (Hoff : 0 <= o <= blen (layout P)).
      { rewrite layout_length. unfold P at 2. rewrite comps_app, tails_app, blen_app.
        pose proof (heads_total_nonneg P). pose proof (blen_nonneg (tails (comps pre))).
        pose proof (blen_nonneg (tails (comps (v :: post)))). unfold o. fold H. lia. }
      assert (R1 : rd_word (drop (heads_total (comps pre)) (layout P ++ r)) = Some o).
      { rewrite EL, Hhp, drop_app, Ehd, <- app_assoc. apply rd_word_word. assert (blen (layout P) < two256) by exact Hsmall. lia. }
      rewrite R1.
      assert (C : (o <=? blen (layout P ++ r)) = true).
      { apply Z.leb_le. rewrite blen_app. pose proof (blen_nonneg r). lia. }
      rewrite C.
      assert (EA : layout P ++ r =
                   (heads H (comps pre) ++ heads o (comps (v :: post)) ++ tails (comps pre)) ++
                   enc v ++ tails (comps post) ++ r).
      { rewrite EL, Etl. now rewrite <- !app_assoc. }
      rewrite EA. rewrite drop_app_eq; [apply Hf|].
      rewrite !blen_app, !heads_length. unfold o, H, P. rewrite comps_app, heads_total_app. lia.
    + (* static: in place *)
      assert (Ehd : heads o (comps (v :: post)) = enc v ++ heads o (comps post)).
      { change (comps (v :: post)) with ((is_dyn v, enc v) :: comps post). cbn [heads fst snd]. now rewrite Dv. }
      rewrite EL, Hhp, drop_app, Ehd, <- app_assoc. apply Hf.
Qed.

Lemma dec_seq_layout0 : forall vs cs r, blen (layout (comps vs)) < two256 -> Forall2 rel vs cs ->
  dec_seq cs (layout (comps vs) ++ r) 0 = Some vs.
Proof.
  intros vs cs r Hs HR. exact (dec_seq_layout vs r Hs vs [] cs eq_refl HR).
Qed.

(** ---- the round trip ---- *)
Definition rt (t : abity) : Prop :=
  forall v, typed t v -> blen (enc v) < two256 -> forall junk, dec t (enc v ++ junk) = Some v.

Lemma rel_of_rt : forall t v, rt t -> typed t v -> blen (enc v) < two256 ->
  rel v (tdyn t, hsize t, dec t).
Proof.
  intros t v Hrt Hv Hs. unfold rel. simpl. split; [symmetry; now apply typed_is_dyn|]. split.
  - unfold hsize. rewrite (typed_is_dyn t v Hv). destruct (tdyn t) eqn:D; [reflexivity|].
    symmetry. now apply static_size.
  - intros junk. now apply Hrt.
Qed.

Lemma heads_total_min : forall t vs, wf_ty t = true -> Forall (typed t) vs ->
  32 * Z.of_nat (length vs) <= heads_total (comps vs).
Proof.
  intros t vs Hw H. induction H as [|v r Hv Hr IH]; [simpl; lia|].
  change (comps (v :: r)) with ((is_dyn v, enc v) :: comps r). simpl heads_total. unfold head_size. simpl fst. simpl snd.
  rewrite (typed_is_dyn t v Hv).
  assert (32 <= (if tdyn t then 32 else blen (enc v))).
  { destruct (tdyn t) eqn:D; [lia|]. rewrite (static_size t v Hv D). now apply wf_static_size. }
  simpl length. rewrite Nat2Z.inj_succ. lia.
Qed.

Theorem dec_enc_rt : forall t, wf_ty t = true -> rt t.
Proof.
  induction t as [| | t IH | ts IH] using abity_ind'; intros Hw v Hv Hs junk; destruct v; try contradiction.
  - (* word *) cbn [enc dec]. now rewrite rd_word_word.
  - (* bytes *)
    cbn [enc dec]. simpl in Hv. rewrite <- !app_assoc.
    rewrite rd_word_word by (pose proof (blen_nonneg b); lia).
    rewrite blen_app, blen_word, !blen_app.
    pose proof (blen_nonneg (zeros (pad32 (length b)))). pose proof (blen_nonneg junk).
    destruct (32 + blen b <=? 32 + (blen b + (blen (zeros (pad32 (length b))) + blen junk))) eqn:E; [| apply Z.leb_gt in E; lia].
    rewrite drop_word.
    unfold blen. rewrite Nat2Z.id. now rewrite firstn_app_exact.
  - (* array *)
    apply typed_arr in Hv. destruct Hv as [Hl Hv]. cbn [enc dec]. fold (comps vs). rewrite <- app_assoc.
    rewrite rd_word_word by lia.
    rewrite !drop_word.
    cbn [enc] in Hs. fold (comps vs) in Hs. rewrite blen_app, blen_word in Hs.
    simpl in Hw.
    pose proof (heads_total_min t vs Hw Hv) as Hmin.
    rewrite blen_app, layout_length. pose proof (blen_nonneg (tails (comps vs))). pose proof (blen_nonneg junk).
    destruct (32 * Z.of_nat (length vs) <=? heads_total (comps vs) + blen (tails (comps vs)) + blen junk) eqn:E;
      [| apply Z.leb_gt in E; lia].
    rewrite Nat2Z.id.
    rewrite (dec_seq_layout0 vs); [reflexivity | lia |].
    assert (forall v, In v vs -> blen (enc v) < two256) as Hsm.
    { intros v Hin. pose proof (comp_le_layout vs v Hin). lia. }
    clear - IH Hw Hv Hsm. induction Hv as [|v r Hv Hr IHr]; [constructor|]. simpl. constructor.
    + apply rel_of_rt; [now apply IH | exact Hv | apply Hsm; now left].
    + apply IHr. intros x Hx. apply Hsm. now right.
  - (* tuple *)
    apply typed_tuple in Hv. cbn [enc dec]. fold (comps vs). cbn [enc] in Hs. fold (comps vs) in Hs.
    rewrite (dec_seq_layout0 vs); [reflexivity | exact Hs |].
    assert (forall v, In v vs -> blen (enc v) < two256) as Hsm.
    { intros v Hin. pose proof (comp_le_layout vs v Hin). lia. }
    assert (Forall (fun t => wf_ty t = true) ts) as Hws.
    { simpl in Hw. destruct ts; [discriminate|]. apply Forall_forall. intros x Hx.
      rewrite forallb_forall in Hw. now apply Hw. }
    clear Hs Hw. revert vs Hv Hsm. induction IH as [|t tr Ht Htr IHr]; intros vs Hv Hsm; inversion Hv; subst; [constructor|].
    inversion Hws; subst. simpl. constructor.
    + apply rel_of_rt; [now apply Ht | assumption | apply Hsm; now left].
    + apply IHr; [assumption | assumption | intros x Hx; apply Hsm; now right].
Qed.

Theorem dec_enc : forall t v r, wf_ty t = true -> typed t v -> blen (enc v) < two256 ->
  dec t (enc v ++ r) = Some v.
Proof. intros t v r Hw Hv Hs. now apply dec_enc_rt. Qed.

Theorem dec_enc_exact : forall t v, wf_ty t = true -> typed t v -> blen (enc v) < two256 ->
  dec t (enc v) = Some v.
Proof. intros t v Hw Hv Hs. rewrite <- (app_nil_r (enc v)). now apply dec_enc. Qed.

Theorem dec_enc_args : forall ts vs r, wf_ty (TTuple ts) = true -> Forall2 typed ts vs ->
  blen (enc_args vs) < two256 -> dec_args ts (enc_args vs ++ r) = Some vs.
Proof.
  intros ts vs r Hw Hv Hs. unfold dec_args, enc_args in *.
  rewrite dec_enc; [reflexivity | exact Hw | now apply typed_tuple | exact Hs].
Qed.

(** Injectivity once more, through the decoder (hence through the offsets). *)
Theorem enc_injective_via_decoder : forall t v v', wf_ty t = true -> typed t v -> typed t v' ->
  blen (enc v) < two256 -> enc v = enc v' -> v = v'.
Proof.
  intros t v v' Hw Hv Hv' Hs E.
  pose proof (dec_enc_exact t v Hw Hv Hs) as D. rewrite E in D.
  rewrite dec_enc_exact in D; [now injection D | exact Hw | exact Hv' | now rewrite <- E].
Qed.

(** decoding a canonical encoding and encoding again gives the bytes back *)
Corollary dec_enc_canonical : forall t v0 v, wf_ty t = true -> typed t v0 -> blen (enc v0) < two256 ->
  dec t (enc v0) = Some v -> enc v = enc v0.
Proof. intros t v0 v Hw Hv Hs D. rewrite dec_enc_exact in D by assumption. now injection D as <-. Qed.

(** ---- whatever the bytes, a decoded value is well typed ---- *)
Lemma dec_seq_length : forall cs L hp vs, dec_seq cs L hp = Some vs -> length vs = length cs.
Proof.
  induction cs as [|[[dyn hs] f] r IH]; intros L hp vs H; simpl in H.
  - now injection H as <-.
  - destruct (dec_comp dyn f L hp); [| discriminate]. destruct (dec_seq r L (hp + hs)) eqn:E; [| discriminate].
    injection H as <-. simpl. f_equal. now apply (IH L (hp + hs)).
Qed.

Lemma dec_comp_some : forall dyn f L hp v, dec_comp dyn f L hp = Some v -> exists d, f d = Some v.
Proof.
  intros dyn f L hp v H. unfold dec_comp in H. destruct dyn.
  - destruct (rd_word (drop hp L)) as [o|]; [| discriminate]. destruct (o <=? blen L); [| discriminate]. eexists; exact H.
  - eexists; exact H.
Qed.

Definition reader (t : abity) : bool * Z * (list byte -> option abival) := (tdyn t, hsize t, dec t).

Lemma dec_seq_typed : forall ts, Forall (fun t => forall d v, dec t d = Some v -> typed t v) ts ->
  forall L hp vs, dec_seq (map reader ts) L hp = Some vs -> Forall2 typed ts vs.
Proof.
  intros ts IH. induction IH as [|t tr Ht Htr IHr]; intros L hp vs H; simpl in H.
  - injection H as <-. constructor.
  - destruct (dec_comp (tdyn t) (dec t) L hp) as [v|] eqn:Ec; [| discriminate].
    destruct (dec_seq (map reader tr) L (hp + hsize t)) as [vs'|] eqn:E; [| discriminate]. injection H as <-.
    apply dec_comp_some in Ec. destruct Ec as [d Ed]. constructor; [now apply (Ht d) | now apply (IHr L (hp + hsize t))].
Qed.

Lemma dec_seq_repeat_typed : forall t, (forall d v, dec t d = Some v -> typed t v) ->
  forall n L hp vs, dec_seq (repeat (reader t) n) L hp = Some vs -> Forall (typed t) vs.
Proof.
  intros t Ht n. induction n as [|n IH]; intros L hp vs H; simpl in H.
  - injection H as <-. constructor.
  - destruct (dec_comp (tdyn t) (dec t) L hp) as [v|] eqn:Ec; [| discriminate].
    destruct (dec_seq (repeat (reader t) n) L (hp + hsize t)) as [vs'|] eqn:E; [| discriminate]. injection H as <-.
    apply dec_comp_some in Ec. destruct Ec as [d Ed]. constructor; [now apply (Ht d) | now apply (IH L (hp + hsize t))].
Qed.

Theorem dec_typed : forall t d v, dec t d = Some v -> typed t v.
Proof.
  induction t as [| | t IH | ts IH] using abity_ind'; intros d v H; cbn [dec] in H.
  - destruct (rd_word d) as [z|] eqn:E; [| discriminate]. injection H as <-. simpl. now apply (rd_word_range d).
  - destruct (rd_word d) as [n|] eqn:E; [| discriminate]. destruct (32 + n <=? blen d); [| discriminate].
    injection H as <-. cbn [typed]. pose proof (rd_word_range d n E) as R. unfold blen.
    pose proof (firstn_le_length (Z.to_nat n) (drop 32 d)). lia.
  - destruct (rd_word d) as [n|] eqn:E; [| discriminate]. destruct (32 * n <=? blen (drop 32 d)); [| discriminate].
    fold (reader t) in H.
    destruct (dec_seq _ _ 0) as [vs|] eqn:Es; [| discriminate]. injection H as <-.
    pose proof (rd_word_range d n E) as R. apply typed_arr. split.
    + rewrite (dec_seq_length _ _ _ _ Es), repeat_length. lia.
    + now apply (dec_seq_repeat_typed t IH _ _ _ _ Es).
  - change (map (fun t' => (tdyn t', hsize t', dec t')) ts) with (map reader ts) in H.
    destruct (dec_seq _ _ 0) as [vs|] eqn:Es; [| discriminate]. injection H as <-. apply typed_tuple.
    now apply (dec_seq_typed ts IH _ _ _ Es).
Qed.

(** ---- non-vacuity / the converse needs canonicity ---- *)
Example dec_sample :
  dec_args [TArr (TTuple [TWord; TBytes]); TWord]
           (enc_args [VArr [VTuple [VWord 1; VBytes (bytes_of_Zs [170; 187])]]; VWord 7])
  = Some [VArr [VTuple [VWord 1; VBytes (bytes_of_Zs [170; 187])]]; VWord 7].
Proof. vm_compute. reflexivity. Qed.

(** (bytes) = 0xAABB with the offset 64 instead of 32 and a gap word: same value, other bytes *)
Example noncanonical_sample :
  let d := word 64 ++ word 99 ++ word 2 ++ bytes_of_Zs [170; 187] ++ zeros 30 in
  dec (TTuple [TBytes]) d = Some (VTuple [VBytes (bytes_of_Zs [170; 187])]) /\
  enc (VTuple [VBytes (bytes_of_Zs [170; 187])]) <> d.
Proof. vm_compute. split; [reflexivity | discriminate]. Qed.

(** a hostile element count is refused before any iteration *)
Example hostile_count_refused : dec (TArr TWord) (word (2 ^ 255) ++ word 1) = None.
Proof. vm_compute. reflexivity. Qed.
