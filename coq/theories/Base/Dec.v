(** cosmossdk.io/math v1.4.0 [LegacyDec]: a decimal is its raw big integer (value * 10^18).
    Definitions only; the rounding rules are transcribed from dec.go:
      chopPrecisionAndRound  – sign-symmetric banker's rounding of the 18 removed digits
      MulMut                 – chopPrecisionAndRound(a*b)
      QuoMut                 – chopPrecisionAndRound((a*10^36) quo b)   (big.Int.Quo truncates toward zero)
      MulIntMut              – a*i (exact)
      Ceil                   – QuoRem truncated; +1 iff remainder > 0; back to a decimal
      TruncateInt            – raw quo 10^18
    Every mutating operation ends in assertInValidRange (|raw| <= 2^256*10^18 - 1, else panic);
    [in_range] is that predicate and [checked] wraps a result with it.  Owned by C14. *)
From Coq Require Import ZArith Bool.
Open Scope Z_scope.

Definition prec : Z := 1000000000000000000.
Definition half_prec : Z := 500000000000000000.
Definition upper_limit : Z := 115792089237316195423570985008687907853269984665640564039457584007913129639936 * prec - 1.

Definition in_range (a : Z) : bool := Z.abs a <=? upper_limit.
Definition checked (a : Z) : option Z := if in_range a then Some a else None.

(** chopPrecisionAndRound on a non-negative argument *)
Definition chop_round_pos (d : Z) : Z :=
  let q := d / prec in
  let r := d mod prec in
  if r =? 0 then q
  else match r ?= half_prec with
       | Lt => q
       | Gt => q + 1
       | Eq => if Z.even q then q else q + 1
       end.

Definition chop_round (d : Z) : Z :=
  if d <? 0 then - chop_round_pos (- d) else chop_round_pos d.

Definition of_int (i : Z) : Z := i * prec.          (* LegacyNewDec / LegacyNewDecFromInt / Int.ToLegacyDec *)
Definition one : Z := prec.                          (* LegacyNewDec(1) *)
Definition add (a b : Z) : Z := a + b.
Definition sub (a b : Z) : Z := a - b.
Definition mul (a b : Z) : Z := chop_round (a * b).
(** b = 0 panics in Go (division by zero); callers guard it. [Z.quot _ 0 = 0] here. *)
Definition quo (a b : Z) : Z := chop_round (Z.quot (a * prec * prec) b).
Definition mul_int (a i : Z) : Z := a * i.
Definition ceil (a : Z) : Z :=
  let q := Z.quot a prec in
  let r := Z.rem a prec in
  (if 0 <? r then q + 1 else q) * prec.
Definition truncate_int (a : Z) : Z := Z.quot a prec.

(** math.Int.Uint64(): panics ("Uint64() out of bounds") unless 0 <= i < 2^64 *)
Definition to_uint64 (i : Z) : option Z :=
  if (0 <=? i) && (i <? 18446744073709551616) then Some i else None.

(** The chain used three times in calculateFeesForEstimate:
    d.MulInt(NewIntFromUint64(n)).Ceil().TruncateInt().Uint64()  *)
Definition mul_int_ceil_u64 (d n : Z) : option Z :=
  match checked (mul_int d n) with
  | None => None
  | Some p => match checked (ceil p) with
              | None => None
              | Some c => to_uint64 (truncate_int c)
              end
  end.
