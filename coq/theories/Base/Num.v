(** Small numeric helpers: sums, machine-integer wrap-around, min / max of lists. *)
From Coq Require Import List ZArith Lia.
Import ListNotations.
Open Scope Z_scope.

Definition two64 : Z := 18446744073709551616.
Definition u64 (x : Z) : Z := x mod two64.
Definition in_u64 (x : Z) : Prop := 0 <= x < two64.
Definition in_u64b (x : Z) : bool := (0 <=? x) && (x <? two64).

Fixpoint zsum (l : list Z) : Z := match l with [] => 0 | x :: r => x + zsum r end.

Lemma zsum_app l1 l2 : zsum (l1 ++ l2) = zsum l1 + zsum l2.
Proof. induction l1; simpl; lia. Qed.

Lemma zsum_nonneg l : Forall (fun x => 0 <= x) l -> 0 <= zsum l.
Proof. induction 1; simpl; lia. Qed.

Definition list_min (d : Z) (l : list Z) : Z := fold_right Z.min d l.
Definition list_max (d : Z) (l : list Z) : Z := fold_right Z.max d l.

Lemma u64_small x : in_u64 x -> u64 x = x.
Proof. unfold in_u64, u64; intros; apply Z.mod_small; lia. Qed.

Lemma two64_pos : 0 < two64. Proof. reflexivity. Qed.
