(** Solidity/Vyper contract ABI encoding (the "head/tail" scheme of go-ethereum's
    [abi.Arguments.Pack]) on [list byte], executable with [vm_compute].  Definitions only; the
    proofs (injectivity) are in [Base/AbiProofs.v].
    (File created and owned by the C05 builder; C07 reuses it read-only.)

    INTERFACE
      abity   ::= TWord | TBytes | TArr t | TTuple ts
                  TWord   = every one-word static type: uint256, address, bytes32, bool ...
                            (the value is the 256-bit number the word holds, big-endian)
                  TBytes  = dynamic [bytes] (and [string])
                  TArr t  = dynamic array  t[]
                  TTuple  = tuple / struct; the argument list of a call is a tuple
      abival  ::= VWord z | VBytes b | VArr vs | VTuple vs
      typed t v        : v is a value of type t (words in [0,2^256), sizes < 2^256)
      enc v            : the encoding of v as a stand-alone value (what Pack returns for the
                         argument tuple [VTuple args])
      word z           : 32 bytes, big-endian, of z mod 2^256 (negative z = two's complement,
                         as go-ethereum's math.U256Bytes)
      be k z           : k bytes big-endian of z mod 256^k
      byte_of_Z / Z_of_byte, bytes_of_Zs / Zs_of_bytes : conversions used by cases files
      bytes32_right b  : the number held by a bytes32 word filled by Go's copy(w[:], b)
                         (truncate to 32, zero-pad on the right)
      bytes32_left b   : ... filled by left-padding b (at most 32 bytes) with zeroes
    Fixed-size arrays t[k] are not in the universe (no anchored signature uses one). *)
From Coq Require Import List ZArith Bool.
From Coq Require Import Strings.Byte.
Import ListNotations.
Open Scope Z_scope.

Inductive abity := TWord | TBytes | TArr (t : abity) | TTuple (ts : list abity).
Inductive abival := VWord (z : Z) | VBytes (b : list byte) | VArr (vs : list abival) | VTuple (vs : list abival).

Definition byte_of_Z (z : Z) : byte :=
  match Byte.of_N (Z.to_N (z mod 256)) with Some b => b | None => x00 end.
Definition Z_of_byte (b : byte) : Z := Z.of_N (Byte.to_N b).
Definition bytes_of_Zs (l : list Z) : list byte := map byte_of_Z l.
Definition Zs_of_bytes (l : list byte) : list Z := map Z_of_byte l.

(** [be k z]: the k low-order base-256 digits of z, most significant first
    (computed from the least significant end). *)
Fixpoint be_acc (k : nat) (z : Z) (acc : list byte) : list byte :=
  match k with
  | O => acc
  | S k' => be_acc k' (z / 256) (byte_of_Z z :: acc)
  end.
Definition be (k : nat) (z : Z) : list byte := be_acc k z [].

(** Big-endian number held by a byte string. *)
Definition be_val (l : list byte) : Z := fold_left (fun acc b => acc * 256 + Z_of_byte b) l 0.

Definition word (z : Z) : list byte := be 32 z.
Definition two256 : Z := 2 ^ 256.
Definition u256 (z : Z) : Z := z mod two256.

(** number of zero bytes that pad n bytes to a multiple of 32 *)
Definition pad32 (n : nat) : nat := Z.to_nat ((- Z.of_nat n) mod 32).
Definition zeros (n : nat) : list byte := repeat x00 n.

Definition bytes32_right (b : list byte) : Z :=
  let c := firstn 32 b in be_val (c ++ zeros (32 - length c)).
Definition bytes32_left (b : list byte) : Z := be_val b.

(** A value is dynamic iff its type is (see [AbiProofs.typed_is_dyn]). *)
Fixpoint is_dyn (v : abival) : bool :=
  match v with
  | VWord _ => false
  | VBytes _ => true
  | VArr _ => true
  | VTuple vs => existsb is_dyn vs
  end.

Fixpoint tdyn (t : abity) : bool :=
  match t with
  | TWord => false
  | TBytes => true
  | TArr _ => true
  | TTuple ts => existsb tdyn ts
  end.

Definition blen (l : list byte) : Z := Z.of_nat (length l).

(** Head/tail layout of a sequence of already-encoded components [(dynamic?, encoding)]:
    a static component sits in the head; a dynamic one leaves its offset (from the start of
    this layout) in the head and its encoding in the tail. *)
Definition head_size (p : bool * list byte) : Z := if fst p then 32 else blen (snd p).

Fixpoint heads (off : Z) (ps : list (bool * list byte)) : list byte :=
  match ps with
  | [] => []
  | p :: r => if fst p then word off ++ heads (off + blen (snd p)) r
              else snd p ++ heads off r
  end.

Definition tails (ps : list (bool * list byte)) : list byte :=
  flat_map (fun p : bool * list byte => if fst p then snd p else []) ps.

Definition heads_total (ps : list (bool * list byte)) : Z :=
  fold_right (fun p acc => head_size p + acc) 0 ps.

Definition layout (ps : list (bool * list byte)) : list byte :=
  heads (heads_total ps) ps ++ tails ps.

Fixpoint enc (v : abival) : list byte :=
  match v with
  | VWord z => word z
  | VBytes b => word (blen b) ++ b ++ zeros (pad32 (length b))
  | VArr vs => word (Z.of_nat (length vs)) ++ layout (map (fun v => (is_dyn v, enc v)) vs)
  | VTuple vs => layout (map (fun v => (is_dyn v, enc v)) vs)
  end.

(** What [abi.Arguments.Pack(args...)] returns. *)
Definition enc_args (vs : list abival) : list byte := enc (VTuple vs).

Fixpoint typed (t : abity) (v : abival) {struct t} : Prop :=
  match t, v with
  | TWord, VWord z => 0 <= z < two256
  | TBytes, VBytes b => blen b < two256
  | TArr t', VArr vs =>
      Z.of_nat (length vs) < two256 /\
      (fix all (vs : list abival) : Prop :=
         match vs with [] => True | v :: r => typed t' v /\ all r end) vs
  | TTuple ts, VTuple vs =>
      (fix all2 (ts : list abity) (vs : list abival) : Prop :=
         match ts, vs with
         | [], [] => True
         | t :: tr, v :: vr => typed t v /\ all2 tr vr
         | _, _ => False
         end) ts vs
  | _, _ => False
  end.

(** Decidable equality on types (used to compare a generated signature with a model's). *)
Fixpoint abity_eqb (a b : abity) : bool :=
  match a, b with
  | TWord, TWord => true
  | TBytes, TBytes => true
  | TArr x, TArr y => abity_eqb x y
  | TTuple xs, TTuple ys =>
      (fix go (xs ys : list abity) : bool :=
         match xs, ys with
         | [], [] => true
         | x :: xr, y :: yr => abity_eqb x y && go xr yr
         | _, _ => false
         end) xs ys
  | _, _ => false
  end.
