(** Correspondence plumbing shared by every cases file: evaluate a boolean check over a
    list of recorded cases and return the indices (as [N], printed compactly) that fail. *)
From Coq Require Import List NArith ZArith Bool.
Import ListNotations.

Fixpoint mismatches_from {A} (chk : A -> bool) (i : N) (l : list A) : list N :=
  match l with
  | [] => []
  | x :: r => if chk x then mismatches_from chk (N.succ i) r
              else i :: mismatches_from chk (N.succ i) r
  end.

Definition mismatches {A} (chk : A -> bool) (l : list A) : list N := mismatches_from chk 0%N l.

Fixpoint list_eqb {A} (eqb : A -> A -> bool) (l1 l2 : list A) : bool :=
  match l1, l2 with
  | [], [] => true
  | x :: r, y :: s => eqb x y && list_eqb eqb r s
  | _, _ => false
  end.

Definition option_eqb {A} (eqb : A -> A -> bool) (o1 o2 : option A) : bool :=
  match o1, o2 with
  | None, None => true
  | Some x, Some y => eqb x y
  | _, _ => false
  end.

Definition pair_eqb {A B} (ea : A -> A -> bool) (eb : B -> B -> bool) (p q : A * B) : bool :=
  ea (fst p) (fst q) && eb (snd p) (snd q).

Lemma list_eqb_eq {A} (eqb : A -> A -> bool) :
  (forall x y, eqb x y = true <-> x = y) -> forall l1 l2, list_eqb eqb l1 l2 = true <-> l1 = l2.
Proof.
  intros H; induction l1 as [|x r IH]; destruct l2 as [|y s]; simpl; split; intros E;
    try reflexivity; try discriminate.
  - apply andb_true_iff in E as [E1 E2]. apply H in E1. apply IH in E2. now subst.
  - inversion E; subst. apply andb_true_iff; split; [now apply H | now apply IH].
Qed.
