(** C18 — the civil calendar behind [add_months] (= Go's time.Time.AddDate(0, k, 0) on UTC).
    Proved here, for ALL instants and all month counts (no range restriction):
      - [civil_round_trip]     days_from_civil (civil_from_days z) = z, and the civil date is a
                               well-formed one (month 1..12, day 1..31);
      - [month_start_step]     consecutive months start 28..31 days apart (Gregorian leap rules);
      - [add_months_forward]   t + 28 days * k <= add_months t k <= t + 31 days * k  for k >= 0,
                               hence start <= end for every vesting schedule the keeper builds;
      - [add_months_clock]     the time of day is kept;
      - [add_months_zero]      AddDate(0, 0, 0) is the identity.
    The one finite fact (the year-of-era formula of civil_from_days inverts the day count inside
    one 400-year era, 146 097 days) is checked by evaluation and lifted by [all_range_spec]. *)
From Coq Require Import List ZArith Bool Lia.
From Paloma Require Import Paloma.LightNode.
Import ListNotations.
Open Scope Z_scope.

(** ---- a binary-splitting bounded universal quantifier (no large nat) ---- *)
Fixpoint all_range (f : Z -> bool) (lo : Z) (n : positive) : bool :=
  match n with
  | xH => f lo
  | xO p => all_range f lo p && all_range f (lo + Zpos p) p
  | xI p => f lo && all_range f (lo + 1) p && all_range f (lo + 1 + Zpos p) p
  end.

Lemma all_range_spec f n : forall lo, all_range f lo n = true -> forall i, lo <= i < lo + Zpos n -> f i = true.
Proof.
  induction n as [p IH|p IH|]; intros lo H i Hi; cbn [all_range] in H.
  - apply andb_true_iff in H as [H H3]. apply andb_true_iff in H as [H1 H2].
    destruct (Z.eq_dec i lo) as [->|Hne]; [exact H1|].
    destruct (Z_lt_ge_dec i (lo + 1 + Zpos p)) as [Hlt|Hge].
    + apply (IH (lo + 1) H2). lia.
    + apply (IH (lo + 1 + Zpos p) H3). lia.
  - apply andb_true_iff in H as [H1 H2].
    destruct (Z_lt_ge_dec i (lo + Zpos p)) as [Hlt|Hge].
    + apply (IH lo H1). lia.
    + apply (IH (lo + Zpos p) H2). lia.
  - assert (i = lo) by lia. subst. exact H.
Qed.

(** ---- one era ---- *)
Definition yoe_of (doe : Z) : Z := (doe - doe / 1460 + doe / 36524 - doe / 146096) / 365.
Definition doy_of (doe : Z) : Z := let yoe := yoe_of doe in doe - (365 * yoe + yoe / 4 - yoe / 100).
Definition mp_of (doe : Z) : Z := (5 * doy_of doe + 2) / 153.
Definition dom_of (doe : Z) : Z := doy_of doe - (153 * mp_of doe + 2) / 5 + 1.

(** inside one era: the year-of-era formula yields a year 0..399 and a day of that year 0..365 ... *)
Definition doe_ok (doe : Z) : bool :=
  let yoe := yoe_of doe in
  let doy := doe - (365 * yoe + yoe / 4 - yoe / 100) in
  (0 <=? yoe) && (yoe <=? 399) && (0 <=? doy) && (doy <=? 365).
(** ... and a day of the (March-based) year yields a month 0..11 and a day of the month 1..31 *)
Definition doy_ok (doy : Z) : bool :=
  let mp := (5 * doy + 2) / 153 in
  let d := doy - (153 * mp + 2) / 5 + 1 in
  (0 <=? mp) && (mp <=? 11) && (1 <=? d) && (d <=? 31).

Lemma era_sweep : all_range doe_ok 0 146097 = true.
Proof. vm_cast_no_check (eq_refl true). Qed.
Lemma year_sweep : all_range doy_ok 0 366 = true.
Proof. vm_cast_no_check (eq_refl true). Qed.

Lemma doe_facts doe : 0 <= doe < 146097 ->
  0 <= yoe_of doe <= 399 /\ 0 <= mp_of doe <= 11 /\ 1 <= dom_of doe <= 31 /\
  yoe_of doe * 365 + yoe_of doe / 4 - yoe_of doe / 100 + ((153 * mp_of doe + 2) / 5 + dom_of doe - 1) = doe.
Proof.
  intros H. pose proof (all_range_spec doe_ok 146097 0 era_sweep doe ltac:(lia)) as E.
  unfold doe_ok in E. cbv zeta in E.
  repeat (apply andb_true_iff in E as [E ?]).
  repeat match goal with
         | H : (_ <=? _) = true |- _ => apply Z.leb_le in H
         end.
  assert (Hdoy : 0 <= doy_of doe < 0 + 366) by (unfold doy_of; cbv zeta; lia).
  pose proof (all_range_spec doy_ok 366 0 year_sweep (doy_of doe) Hdoy) as F.
  unfold doy_ok in F. cbv zeta in F. fold (mp_of doe) in F. fold (dom_of doe) in F.
  repeat (apply andb_true_iff in F as [F ?]).
  repeat match goal with
         | H : (_ <=? _) = true |- _ => apply Z.leb_le in H
         end.
  unfold dom_of at 3. unfold doy_of. cbv zeta. lia.
Qed.

(** the civil date of a day number, by components *)
Definition era_of (z : Z) : Z := (z + 719468) / 146097.
Definition doe_of (z : Z) : Z := z + 719468 - era_of z * 146097.

Lemma doe_of_range z : 0 <= doe_of z < 146097.
Proof.
  unfold doe_of, era_of.
  pose proof (Z.div_mod (z + 719468) 146097 ltac:(lia)).
  pose proof (Z.mod_pos_bound (z + 719468) 146097 ltac:(lia)). lia.
Qed.

Lemma civil_from_days_eq z :
  civil_from_days z =
    let doe := doe_of z in
    let m := if mp_of doe <? 10 then mp_of doe + 3 else mp_of doe - 9 in
    let y := yoe_of doe + era_of z * 400 in
    ((if m <=? 2 then y + 1 else y), m, dom_of doe).
Proof. cbv beta delta [civil_from_days doe_of era_of yoe_of doy_of mp_of dom_of] zeta. reflexivity. Qed.

(** the month of a civil date is 1..12 and its day 1..31 *)
Lemma civil_from_days_wf z : let '(y, m, d) := civil_from_days z in 1 <= m <= 12 /\ 1 <= d <= 31.
Proof.
  rewrite civil_from_days_eq. cbv zeta.
  pose proof (doe_facts (doe_of z) (doe_of_range z)) as (Hy & Hm & Hd & _).
  destruct (mp_of (doe_of z) <? 10) eqn:E; [apply Z.ltb_lt in E | apply Z.ltb_ge in E]; lia.
Qed.

(** ---- days_from_civil in closed form: month starts ---- *)
(** day number (from 0000-03-01) of the first day of year Y of the March-based calendar *)
Definition year_start (Y : Z) : Z :=
  let era := Y / 400 in let yoe := Y - era * 400 in era * 146097 + (yoe * 365 + yoe / 4 - yoe / 100).

(** ... and of the first day of March-based month M (M = 12*Y + mp, mp = 0 for March) *)
Definition month_start (M : Z) : Z := year_start (M / 12) + (153 * (M mod 12) + 2) / 5.

Lemma days_from_civil_eq y m d : 1 <= m <= 12 ->
  days_from_civil y m d = month_start (12 * y + m - 3) + d - 1 - 719468.
Proof.
  intros Hm. unfold days_from_civil, month_start, year_start. cbv zeta.
  destruct (m <=? 2) eqn:E1; [apply Z.leb_le in E1 | apply Z.leb_gt in E1].
  - assert (E2 : (2 <? m) = false) by (apply Z.ltb_ge; lia). rewrite E2.
    assert (Hq : (12 * y + m - 3) / 12 = y - 1) by (symmetry; apply (Z.div_unique _ _ _ (m + 9)); lia).
    assert (Hr : (12 * y + m - 3) mod 12 = m + 9) by (symmetry; apply (Z.mod_unique _ _ (y - 1)); lia).
    rewrite Hq, Hr. lia.
  - assert (E2 : (2 <? m) = true) by (apply Z.ltb_lt; lia). rewrite E2.
    assert (Hq : (12 * y + m - 3) / 12 = y) by (symmetry; apply (Z.div_unique _ _ _ (m - 3)); lia).
    assert (Hr : (12 * y + m - 3) mod 12 = m - 3) by (symmetry; apply (Z.mod_unique _ _ y); lia).
    rewrite Hq, Hr. lia.
Qed.

(** the Gregorian rule: every 4th year is a leap year, except every 100th, except every 400th *)
Lemma year_start_eq Y : year_start Y = 365 * Y + Y / 4 - Y / 100 + Y / 400.
Proof.
  unfold year_start. cbv zeta.
  pose proof (Z.div_mod Y 400 ltac:(lia)) as E. pose proof (Z.mod_pos_bound Y 400 ltac:(lia)) as B.
  set (e := Y / 400) in *. set (r := Y mod 400) in *.
  assert (Hr : Y - e * 400 = r) by lia. rewrite Hr.
  assert (H4 : Y / 4 = 100 * e + r / 4).
  { symmetry. apply (Z.div_unique _ _ _ (r mod 4)); [pose proof (Z.mod_pos_bound r 4 ltac:(lia)); lia|].
    pose proof (Z.div_mod r 4 ltac:(lia)). lia. }
  assert (H100 : Y / 100 = 4 * e + r / 100).
  { symmetry. apply (Z.div_unique _ _ _ (r mod 100)); [pose proof (Z.mod_pos_bound r 100 ltac:(lia)); lia|].
    pose proof (Z.div_mod r 100 ltac:(lia)). lia. }
  rewrite H4, H100. lia.
Qed.

Lemma div_step a n : 0 < n ->
  ((a + 1) / n = a / n /\ (a + 1) mod n <> 0) \/ ((a + 1) / n = a / n + 1 /\ (a + 1) mod n = 0).
Proof.
  intros Hn.
  pose proof (Z.div_mod a n ltac:(lia)). pose proof (Z.mod_pos_bound a n Hn).
  destruct (Z.eq_dec (a mod n) (n - 1)) as [E|E].
  - right. split.
    + symmetry. apply (Z.div_unique _ _ _ 0); lia.
    + symmetry. apply (Z.mod_unique _ _ (a / n + 1)); lia.
  - left. split.
    + symmetry. apply (Z.div_unique _ _ _ (a mod n + 1)); lia.
    + assert (Hm : (a + 1) mod n = a mod n + 1) by (symmetry; apply (Z.mod_unique _ _ (a / n)); lia). lia.
Qed.

Lemma mod_mult_trans a n k : 0 < n -> 0 < k -> a mod (n * k) = 0 -> a mod n = 0.
Proof.
  intros Hn Hk H. pose proof (Z.div_mod a (n * k) ltac:(lia)) as E. rewrite H in E.
  symmetry. apply (Z.mod_unique _ _ (k * (a / (n * k)))); lia.
Qed.

(** a year has 365 or 366 days *)
Lemma year_length Y : 365 <= year_start (Y + 1) - year_start Y <= 366.
Proof.
  rewrite !year_start_eq.
  pose proof (mod_mult_trans (Y + 1) 4 25 ltac:(lia) ltac:(lia)) as A. change (4 * 25) with 100 in A.
  pose proof (mod_mult_trans (Y + 1) 100 4 ltac:(lia) ltac:(lia)) as B. change (100 * 4) with 400 in B.
  destruct (div_step Y 4 ltac:(lia)) as [[E4 M4]|[E4 M4]];
  destruct (div_step Y 100 ltac:(lia)) as [[E100 M100]|[E100 M100]];
  destruct (div_step Y 400 ltac:(lia)) as [[E400 M400]|[E400 M400]]; rewrite E4, E100, E400;
  try lia; exfalso; auto.
Qed.

(** consecutive months start 28 to 31 days apart *)
Lemma month_start_step M : 28 <= month_start (M + 1) - month_start M <= 31.
Proof.
  unfold month_start.
  pose proof (Z.div_mod M 12 ltac:(lia)) as E. pose proof (Z.mod_pos_bound M 12 ltac:(lia)) as B.
  set (Y := M / 12) in *. set (mp := M mod 12) in *.
  destruct (Z.eq_dec mp 11) as [E11|N11].
  - assert (Hq : (M + 1) / 12 = Y + 1) by (symmetry; apply (Z.div_unique _ _ _ 0); lia).
    assert (Hr : (M + 1) mod 12 = 0) by (symmetry; apply (Z.mod_unique _ _ (Y + 1)); lia).
    rewrite Hq, Hr, E11. pose proof (year_length Y).
    change ((153 * 0 + 2) / 5) with 0. change ((153 * 11 + 2) / 5) with 337. lia.
  - assert (Hq : (M + 1) / 12 = Y) by (symmetry; apply (Z.div_unique _ _ _ (mp + 1)); lia).
    assert (Hr : (M + 1) mod 12 = mp + 1) by (symmetry; apply (Z.mod_unique _ _ Y); lia).
    rewrite Hq, Hr.
    pose proof (Z.div_mod (153 * mp + 2) 5 ltac:(lia)). pose proof (Z.mod_pos_bound (153 * mp + 2) 5 ltac:(lia)).
    pose proof (Z.div_mod (153 * (mp + 1) + 2) 5 ltac:(lia)). pose proof (Z.mod_pos_bound (153 * (mp + 1) + 2) 5 ltac:(lia)).
    lia.
Qed.

Lemma month_start_span M k : 0 <= k -> 28 * k <= month_start (M + k) - month_start M <= 31 * k.
Proof.
  intros Hk. pattern k. apply natlike_ind; [| |exact Hk].
  - replace (M + 0) with M by lia. lia.
  - intros x Hx IH. replace (M + Z.succ x) with (M + x + 1) by lia.
    pose proof (month_start_step (M + x)). lia.
Qed.

(** ---- the round trip ---- *)
Theorem civil_round_trip z : let '(y, m, d) := civil_from_days z in days_from_civil y m d = z.
Proof.
  pose proof (civil_from_days_wf z) as Hwf. rewrite civil_from_days_eq in *. cbv zeta in *.
  pose proof (doe_facts (doe_of z) (doe_of_range z)) as (Hy & Hm & Hd & Hsum).
  set (doe := doe_of z) in *. set (mp := mp_of doe) in *. set (yoe := yoe_of doe) in *. set (d := dom_of doe) in *.
  set (m := if mp <? 10 then mp + 3 else mp - 9) in *.
  set (y := yoe + era_of z * 400) in *.
  destruct Hwf as [Hm12 _].
  rewrite days_from_civil_eq by exact Hm12.
  (* 12 * Y + m - 3 = 12 * y + mp for the March-based year y *)
  assert (HM : 12 * (if m <=? 2 then y + 1 else y) + m - 3 = 12 * y + mp).
  { unfold m. destruct (mp <? 10) eqn:E; [apply Z.ltb_lt in E | apply Z.ltb_ge in E].
    - assert (E2 : (mp + 3 <=? 2) = false) by (apply Z.leb_gt; lia). rewrite E2. lia.
    - assert (E2 : (mp - 9 <=? 2) = true) by (apply Z.leb_le; lia). rewrite E2. lia. }
  rewrite HM. unfold month_start.
  assert (Hq : (12 * y + mp) / 12 = y) by (symmetry; apply (Z.div_unique _ _ _ mp); lia).
  assert (Hr : (12 * y + mp) mod 12 = mp) by (symmetry; apply (Z.mod_unique _ _ y); lia).
  rewrite Hq, Hr. unfold year_start. cbv zeta.
  assert (He : y / 400 = era_of z) by (symmetry; apply (Z.div_unique _ _ _ yoe); unfold y; lia).
  rewrite He. replace (y - era_of z * 400) with yoe by (unfold y; lia).
  unfold doe, doe_of in Hsum. fold doe in Hsum. lia.
Qed.

(** ---- AddDate(0, k, 0) ---- *)
Lemma add_months_eq t k :
  add_months t k =
    let '(y, m, d) := civil_from_days (t / 86400) in
    (days_from_civil (y + (m - 1 + k) / 12) ((m - 1 + k) mod 12 + 1) 1 + (d - 1)) * 86400 + t mod 86400.
Proof. unfold add_months. destruct (civil_from_days (t / 86400)) as [[y m] d]. reflexivity. Qed.

(** the day number of the result exceeds that of the start by the distance of the two month starts *)
Lemma add_months_days t k :
  let '(y, m, d) := civil_from_days (t / 86400) in
  add_months t k = (t / 86400 + (month_start (12 * y + m - 3 + k) - month_start (12 * y + m - 3))) * 86400 + t mod 86400.
Proof.
  rewrite add_months_eq.
  pose proof (civil_round_trip (t / 86400)) as RT. pose proof (civil_from_days_wf (t / 86400)) as WF.
  destruct (civil_from_days (t / 86400)) as [[y m] d]. destruct WF as [Hm Hd].
  rewrite days_from_civil_eq in RT by exact Hm.
  pose proof (Z.mod_pos_bound (m - 1 + k) 12 ltac:(lia)) as B.
  rewrite days_from_civil_eq by lia.
  pose proof (Z.div_mod (m - 1 + k) 12 ltac:(lia)) as E.
  replace (12 * (y + (m - 1 + k) / 12) + ((m - 1 + k) mod 12 + 1) - 3) with (12 * y + m - 3 + k) by lia.
  lia.
Qed.

(** k calendar months are between 28*k and 31*k days; in particular the end of a vesting period
    is never before its start *)
Theorem add_months_forward t k : 0 <= k ->
  t + 28 * 86400 * k <= add_months t k <= t + 31 * 86400 * k.
Proof.
  intros Hk. pose proof (add_months_days t k) as E.
  destruct (civil_from_days (t / 86400)) as [[y m] d].
  pose proof (month_start_span (12 * y + m - 3) k Hk) as S.
  pose proof (Z.div_mod t 86400 ltac:(lia)) as D.
  rewrite E. lia.
Qed.

Corollary add_months_ge t k : 0 <= k -> t <= add_months t k.
Proof. intros Hk. pose proof (add_months_forward t k Hk). lia. Qed.

Corollary add_months_gt t k : 0 < k -> t < add_months t k.
Proof. intros Hk. pose proof (add_months_forward t k ltac:(lia)). lia. Qed.

Corollary add_months_zero t : add_months t 0 = t.
Proof. pose proof (add_months_forward t 0 ltac:(lia)). lia. Qed.

Theorem add_months_clock t k : add_months t k mod 86400 = t mod 86400.
Proof.
  pose proof (add_months_days t k) as E. destruct (civil_from_days (t / 86400)) as [[y m] d].
  rewrite E. rewrite Z.add_comm, Z.mod_add by lia. apply Z.mod_mod. lia.
Qed.

(** whole days are added *)
Theorem add_months_whole_days t k : exists n, add_months t k = t + 86400 * n.
Proof.
  pose proof (add_months_days t k) as E. destruct (civil_from_days (t / 86400)) as [[y m] d].
  eexists. rewrite E. pose proof (Z.div_mod t 86400 ltac:(lia)).
  instantiate (1 := month_start (12 * y + m - 3 + k) - month_start (12 * y + m - 3)). lia.
Qed.

(** Go's normalisation, spelled out on the well-known cases (non-vacuity / reading aid):
    2024-01-31 + 1 month = 2024-03-02, 2023-01-31 + 1 month = 2023-03-03, 2024-02-29 + 12 = 2025-03-01,
    2023-12-31 + 2 = 2024-03-02, 1999-12-31 23:59:59 + 1 = 2000-01-31 23:59:59, 1900 is not a leap year
    (1900-01-31 + 1 = 1900-03-03), 2000 is, far future and before 1970. *)
Example ex_calendar :
  add_months 1706659200 1 = 1709337600 /\ add_months 1675123200 1 = 1677801600 /\
  add_months 1709164800 12 = 1740787200 /\ add_months 1703980800 2 = 1709337600 /\
  add_months 946684799 1 = 949363199 /\ add_months (-2206396800) 1 = (-2203718400) /\
  add_months 951782400 12 = 983404800 /\ add_months 253402300799 4294967295 = 11294926466371199 /\
  add_months (-1) 1 = 2678399 /\ civil_from_days 19782 = (2024, 2, 29) /\ civil_from_days (-1) = (1969, 12, 31).
Proof. vm_compute. repeat split; reflexivity. Qed.
