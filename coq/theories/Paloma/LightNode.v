(** C18 — light-node client licences.  Executable model of
      x/paloma/keeper/keeper.go   CreateLightNodeClientLicense, CreateSaleLightNodeClientLicense,
                                  CreateLightNodeClientAccount, Set/Get of feegranter, funders
      x/paloma/keeper/msg_server.go  AddLightNodeClientLicense, RegisterLightNodeClient, AuthLightNodeClient
      x/skyway/keeper/attestation_handler.go  handleLightNodeSale   (inside processAttestation's CacheContext)
    over small models of the collaborators it calls: x/auth accounts (none / base / continuous
    vesting / module), x/bank balances with vesting locks (SendCoins, HasBalance), x/feegrant
    grants.  Definitions only; the proofs are in LightNodeProofs.v.

    Addresses.  The licence store and the client store are keyed by the address STRING the message
    carries, the account and bank stores by the address BYTES.  A bech32 string may be written all
    lower-case or all upper-case and both decode to the same bytes, so a string is modelled as
    [(id, upper)] and the bytes as [id]; strings that do not decode have [id < 0]. *)
From Coq Require Import List ZArith Bool.
From Paloma Require Import Base.Dec.
From Paloma Require Gen.C18.
Import ListNotations.
Open Scope Z_scope.

Definition addr := Z.
Definition denom := Z.                 (* 0 = the bond denom (ugrain); negative = not a valid denom string *)
Definition key := (addr * bool)%type.  (* an address string *)
Definition key_eqb (a b : key) : bool := (fst a =? fst b) && Bool.eqb (snd a) (snd b).
Definition str_valid (k : key) : bool := 0 <=? fst k.   (* AccAddressFromBech32 / StringToBytes succeed *)

Definition escrow : addr := 0.         (* the x/paloma module account *)
Definition bond : denom := 0.

(** ---- time: Go's time.Time.AddDate(0, months, 0) on a UTC time, in Unix seconds ---- *)
Definition days_from_civil (y m d : Z) : Z :=
  let y' := if m <=? 2 then y - 1 else y in
  let era := y' / 400 in
  let yoe := y' - era * 400 in
  let mp := if 2 <? m then m - 3 else m + 9 in
  let doy := (153 * mp + 2) / 5 + d - 1 in
  let doe := yoe * 365 + yoe / 4 - yoe / 100 + doy in
  era * 146097 + doe - 719468.

Definition civil_from_days (z : Z) : Z * Z * Z :=
  let z := z + 719468 in
  let era := z / 146097 in
  let doe := z - era * 146097 in
  let yoe := (doe - doe / 1460 + doe / 36524 - doe / 146096) / 365 in
  let doy := doe - (365 * yoe + yoe / 4 - yoe / 100) in
  let mp := (5 * doy + 2) / 153 in
  let d := doy - (153 * mp + 2) / 5 + 1 in
  let m := if mp <? 10 then mp + 3 else mp - 9 in
  let y := yoe + era * 400 in
  ((if m <=? 2 then y + 1 else y), m, d).

(** Date(year, month+k, day, h, m, s): the month overflow is normalised into the year, the day
    is added to the first of the resulting month (Jan 31 + 1 month = Mar 2/3). *)
Definition add_months (t k : Z) : Z :=
  let days := t / 86400 in
  let sod := t mod 86400 in
  let '(y, m, d) := civil_from_days days in
  let n := (m - 1) + k in
  (days_from_civil (y + n / 12) (n mod 12 + 1) 1 + (d - 1)) * 86400 + sod.

(** ---- accounts, vesting ---- *)
Inductive account :=
| Base
| Vesting (start fin : Z) (orig : Z) (d : denom)   (* ContinuousVestingAccount, DelegatedVesting = 0 *)
| Module.

(** ContinuousVestingAccount.GetVestedCoins (amount of the single original-vesting coin) *)
Definition vested (st en orig t : Z) : Z :=
  if t <=? st then 0
  else if en <=? t then orig
  else
    let s := Dec.quo (Dec.of_int (t - st)) (Dec.of_int (en - st)) in
    Dec.chop_round (Dec.mul (Dec.of_int orig) s).       (* .Mul(s).RoundInt() *)

Inductive err :=
| EInvalidAddr | EInvalidParams | ELicenseExists | EAccountExists | EInvalidCoins | EInsufficientFunds
| ENoLicense | ENoAccount | EVesting | EUnauthorized | ENoFeegranter | ENoFunder | EInsufficientBalance
| ENoContract | EWrongContract | EGrantExists | ENotFound
| EInjected.   (* an error returned by a fault-injecting collaborator (LightNodeExt.v) *)

Inductive outcome := Ok | Err (e : err) | Panic.

Record licence := { l_denom : denom; l_amount : Z; l_months : Z }.

Record state := {
  now      : Z;                              (* block time, Unix seconds *)
  acct     : addr -> option account;         (* x/auth *)
  bal      : addr -> denom -> Z;             (* x/bank *)
  lics     : list (key * licence);           (* light-node-client-license store, keyed by string *)
  clients  : key -> option (Z * Z);          (* light-node-client store: (activated_at, last_auth_at) *)
  grants   : addr -> addr -> bool;           (* x/feegrant: granter -> grantee *)
  feegranter : option addr;
  funders  : option (list addr);
  contracts : Z -> option Z;                 (* x/skyway light-node sale contracts: chain -> contract *)
  gifts    : denom -> Z                      (* ghost: coins sent to the module account from outside *)
}.

Definition upd1 {B} (f : Z -> B) (a : Z) (v : B) : Z -> B := fun x => if x =? a then v else f x.
Definition upd2 (f : addr -> denom -> Z) (a : addr) (d : denom) (v : Z) : addr -> denom -> Z :=
  fun x y => if (x =? a) && (y =? d) then v else f x y.
Definition updk {B} (f : key -> B) (k : key) (v : B) : key -> B := fun x => if key_eqb x k then v else f x.

Fixpoint lic_get (l : list (key * licence)) (k : key) : option licence :=
  match l with
  | [] => None
  | (k', v) :: r => if key_eqb k' k then Some v else lic_get r k
  end.
Definition lic_del (l : list (key * licence)) (k : key) : list (key * licence) :=
  filter (fun p => negb (key_eqb (fst p) k)) l.

Definition set_now s v := {| now := v; acct := acct s; bal := bal s; lics := lics s; clients := clients s;
  grants := grants s; feegranter := feegranter s; funders := funders s; contracts := contracts s; gifts := gifts s |}.
Definition set_acct s v := {| now := now s; acct := v; bal := bal s; lics := lics s; clients := clients s;
  grants := grants s; feegranter := feegranter s; funders := funders s; contracts := contracts s; gifts := gifts s |}.
Definition set_bal s v := {| now := now s; acct := acct s; bal := v; lics := lics s; clients := clients s;
  grants := grants s; feegranter := feegranter s; funders := funders s; contracts := contracts s; gifts := gifts s |}.
Definition set_lics s v := {| now := now s; acct := acct s; bal := bal s; lics := v; clients := clients s;
  grants := grants s; feegranter := feegranter s; funders := funders s; contracts := contracts s; gifts := gifts s |}.
Definition set_clients s v := {| now := now s; acct := acct s; bal := bal s; lics := lics s; clients := v;
  grants := grants s; feegranter := feegranter s; funders := funders s; contracts := contracts s; gifts := gifts s |}.
Definition set_grants s v := {| now := now s; acct := acct s; bal := bal s; lics := lics s; clients := clients s;
  grants := v; feegranter := feegranter s; funders := funders s; contracts := contracts s; gifts := gifts s |}.
Definition set_feegranter s v := {| now := now s; acct := acct s; bal := bal s; lics := lics s; clients := clients s;
  grants := grants s; feegranter := v; funders := funders s; contracts := contracts s; gifts := gifts s |}.
Definition set_funders s v := {| now := now s; acct := acct s; bal := bal s; lics := lics s; clients := clients s;
  grants := grants s; feegranter := feegranter s; funders := v; contracts := contracts s; gifts := gifts s |}.
Definition set_contracts s v := {| now := now s; acct := acct s; bal := bal s; lics := lics s; clients := clients s;
  grants := grants s; feegranter := feegranter s; funders := funders s; contracts := v; gifts := gifts s |}.
Definition set_gifts s v := {| now := now s; acct := acct s; bal := bal s; lics := lics s; clients := clients s;
  grants := grants s; feegranter := feegranter s; funders := funders s; contracts := contracts s; gifts := v |}.

(** bank.LockedCoins(addr).AmountOf(d) at the current block time *)
Definition locked (s : state) (a : addr) (d : denom) : Z :=
  match acct s a with
  | Some (Vesting st en orig dd) => if d =? dd then orig - vested st en orig (now s) else 0
  | _ => 0
  end.

(** bank.SendCoins(from, to, {amt d}): subUnlockedCoins, addCoins, create the recipient's base
    account if it has none. *)
Definition send (s : state) (from to : addr) (d : denom) (amt : Z) : state + err :=
  if amt <=? 0 then inr EInvalidCoins                        (* !amt.IsValid() *)
  else
    let b := bal s from d in
    let lk := locked s from d in
    if b <? lk then inr EInsufficientFunds                   (* locked amount exceeds balance *)
    else if b - lk <? amt then inr EInsufficientFunds        (* spendable < amount *)
    else
      let bal1 := upd2 (bal s) from d (b - amt) in
      let bal2 := upd2 bal1 to d (bal1 to d + amt) in
      let s1 := set_bal s bal2 in
      inl (match acct s1 to with
           | None => set_acct s1 (upd1 (acct s1) to (Some Base))
           | Some _ => s1
           end).

(** CacheContext + commit only when no error: baseapp around a message, processAttestation
    around the attestation handler. *)
Definition atomically (f : state -> state * outcome) (s : state) : state * outcome :=
  match f s with
  | (s', Ok) => (s', Ok)
  | (_, o) => (s, o)
  end.

(** keeper.CreateLightNodeClientLicense — NOT atomic by itself: the base account is created
    before the transfer that can fail. *)
Definition create_licence_raw (creator client : key) (d : denom) (amt months : Z) (s : state) : state * outcome :=
  if negb (str_valid creator) then (s, Err EInvalidAddr)
  else if (d <? 0) || (amt <? 0) then (s, Err EInvalidParams)           (* !amount.IsValid() *)
  else match lic_get (lics s) client with
  | Some _ => (s, Err ELicenseExists)
  | None =>
    if negb (str_valid client) then (s, Err EInvalidAddr)
    else match acct s (fst client) with
    | Some _ => (s, Err EAccountExists)
    | None =>
      let s1 := set_acct s (upd1 (acct s) (fst client) (Some Base)) in
      match send s1 (fst creator) escrow d amt with
      | inr e => (s1, Err e)
      | inl s2 =>
        (set_lics s2 ((client, {| l_denom := d; l_amount := amt; l_months := months |}) :: lics s2), Ok)
      end
    end
  end.

(** keeper.CreateLightNodeClientAccount *)
Definition activate_raw (who : key) (s : state) : state * outcome :=
  match lic_get (lics s) who with
  | None => (s, Err ENoLicense)
  | Some l =>
    let fin := add_months (now s) (l_months l) in
    if negb (str_valid who) then (s, Err EInvalidAddr)
    else match acct s (fst who) with
    | Some Base =>
      if (fin <? 0) || (l_amount l <=? 0) then (s, Err EVesting)   (* BaseVestingAccount.Validate *)
      else
        let s1 := set_acct s (upd1 (acct s) (fst who) (Some (Vesting (now s) fin (l_amount l) (l_denom l)))) in
        if fst who =? escrow then (s1, Err EUnauthorized)          (* BlockedAddr(recipient) *)
        else match send s1 escrow (fst who) (l_denom l) (l_amount l) with
        | inr e => (s1, Err e)
        | inl s2 =>
          let s3 := set_lics s2 (lic_del (lics s2) who) in
          (set_clients s3 (updk (clients s3) who (Some (now s, now s))), Ok)
        end
    | _ => (s, Err ENoAccount)
    end
  end.

Definition two256 : Z := 2 ^ 256.

(** keeper.CreateSaleLightNodeClientLicense: the LAST configured funder whose balance covers the
    price is used (the loop does not stop at the first). *)
Definition pick_funder (s : state) (fs : list addr) (amt : Z) : option addr :=
  fold_left (fun acc f => if amt <=? bal s f bond then Some f else acc) fs None.

Definition sale_licence_raw (client : key) (amount : Z) (s : state) : state * outcome :=
  let amt := amount * Gen.C18.sale_multiplier in
  if (amount <? 0) || (two256 <=? Z.abs amt) then (s, Panic)       (* NewCoin(negative) / Int overflow *)
  else match feegranter s with
  | None => (s, Err ENoFeegranter)
  | Some g =>
    match funders s with
    | None => (s, Err ENoFunder)
    | Some [] => (s, Err ENoFunder)
    | Some fs =>
      match pick_funder s fs amt with
      | None => (s, Err EInsufficientBalance)
      | Some f =>
        match create_licence_raw (f, false) client bond amt Gen.C18.sale_vesting_months s with
        | (s1, Ok) =>
          if negb (str_valid client) then (s1, Err EInvalidAddr)
          else if grants s1 g (fst client) then (s1, Err EGrantExists)
          else (set_grants s1 (fun a b => if (a =? g) && (b =? fst client) then true else grants s1 a b), Ok)
        | r => r
        end
      end
    end
  end.

(** attestation_handler.handleLightNodeSale *)
Definition handle_sale_raw (chain contract : Z) (client : key) (amount : Z) (s : state) : state * outcome :=
  match contracts s chain with
  | None => (s, Err ENoContract)
  | Some c => if c =? contract then sale_licence_raw client amount s else (s, Err EWrongContract)
  end.

Inductive op :=
| AddLicence (creator client : key) (d : denom) (amt months : Z)   (* MsgAddLightNodeClientLicense *)
| Register (who : key)                                             (* MsgRegisterLightNodeClient *)
| Auth (who : key)                                                 (* MsgAuthLightNodeClient *)
| Sale (chain contract : Z) (client : key) (amount : Z)            (* observed MsgLightNodeSaleClaim *)
| Send (from to : addr) (d : denom) (amt : Z)                      (* x/bank transfer; to = escrow is a gift *)
| Grant (granter grantee : addr)                                   (* x/feegrant MsgGrantAllowance *)
| SetFeegranter (a : addr)                                         (* governance *)
| SetFunders (l : list addr)                                       (* governance *)
| SetContracts (l : list (Z * Z))                                  (* governance (x/skyway) *)
| Tick (dt : Z).                                                   (* block time advances *)

Fixpoint assoc (l : list (Z * Z)) (c : Z) : option Z :=
  match l with
  | [] => None
  | (k, v) :: r => if k =? c then Some v else assoc r c
  end.
(** SetAllLighNodeSaleContracts deletes everything, then saves in order: the last entry for a chain wins *)
Definition contracts_of (l : list (Z * Z)) : Z -> option Z := assoc (rev l).

Definition step (s : state) (o : op) : state * outcome :=
  match o with
  | AddLicence creator client d amt months =>
      atomically (create_licence_raw creator client d amt months) s
  | Register who => atomically (activate_raw who) s
  | Auth who =>
      match clients s who with
      | None => (s, Err ENotFound)
      | Some (act, _) => (set_clients s (updk (clients s) who (Some (act, now s))), Ok)
      end
  | Sale chain contract client amount =>
      atomically (handle_sale_raw chain contract client amount) s
  | Send from to d amt =>
      match send s from to d amt with
      | inr e => (s, Err e)
      | inl s' => (if to =? escrow then set_gifts s' (upd1 (gifts s') d (gifts s' d + amt)) else s', Ok)
      end
  | Grant g e =>
      if grants s g e then (s, Err EGrantExists)
      else
        let s1 := match acct s e with None => set_acct s (upd1 (acct s) e (Some Base)) | Some _ => s end in
        (set_grants s1 (fun a b => if (a =? g) && (b =? e) then true else grants s1 a b), Ok)
  | SetFeegranter a => (set_feegranter s (Some a), Ok)
  | SetFunders l =>
      (* an empty funders message marshals to zero bytes, which keeperutil.Load reports as not found *)
      (set_funders s (match l with [] => None | _ => Some l end), Ok)
  | SetContracts l => (set_contracts s (contracts_of l), Ok)
  | Tick dt => (if dt <? 0 then s else set_now s (now s + dt), Ok)
  end.

Definition run (s : state) (ops : list op) : state := fold_left (fun s o => fst (step s o)) ops s.

(** the outcomes along a history *)
Fixpoint trace (s : state) (ops : list op) : list (op * outcome) :=
  match ops with
  | [] => []
  | o :: r => let '(s', out) := step s o in (o, out) :: trace s' r
  end.

(** Σ of the licences in denom d *)
Fixpoint lic_sum (d : denom) (l : list (key * licence)) : Z :=
  match l with
  | [] => 0
  | (_, v) :: r => (if l_denom v =? d then l_amount v else 0) + lic_sum d r
  end.

(** Who may appear where (premises of the escrow theorem): the module account has no key, so it
    never signs a message or a bank transfer, and governance does not name it as a funder. *)
Definition op_wf (o : op) : Prop :=
  match o with
  | AddLicence creator _ _ _ _ => fst creator <> escrow
  | Send from _ _ _ => from <> escrow
  | SetFunders l => ~ In escrow l
  | _ => True
  end.

Definition init (t0 : Z) (b : addr -> denom -> Z) : state := {|
  now := t0; acct := fun a => if a =? escrow then Some Module else None; bal := b; lics := [];
  clients := fun _ => None; grants := fun _ _ => false; feegranter := None; funders := None;
  contracts := fun _ => None; gifts := fun d => b escrow d |}.
