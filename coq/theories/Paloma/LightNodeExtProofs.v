(** C18, second round — proofs about LightNodeExt.v: collaborator faults, legacy clients, genesis,
    the vesting calendar, the attestation machinery around a sale. *)
From Coq Require Import String List ZArith Bool Lia.
From Paloma Require Import Base.Dec Paloma.LightNode Paloma.LightNodeProofs Paloma.CalendarProofs Paloma.LightNodeExt.
From Paloma Require Gen.C18.
Import ListNotations.
Open Scope Z_scope.

(** ================= 1. collaborator faults ================= *)

Lemma injected_not_ok kd : injected kd <> Ok.
Proof. destruct kd; discriminate. Qed.

Lemma hit_nofault n k : n <= 0 -> 0 <= k -> hit (n - k) = false.
Proof. intros. unfold hit. apply Z.eqb_neq. lia. Qed.

Ltac split_tests :=
  repeat match goal with
         | |- context [if ?b then _ else _] => destruct b eqn:?
         | |- context [match ?x with _ => _ end] => destruct x eqn:?
         end.

(** a faulted function either did what the fault-free one does, or it was refused *)
Lemma create_f_dich kd n cr cl d amt m s :
  let r := create_licence_f kd n cr cl d amt m s in
  fst r = create_licence_raw cr cl d amt m s \/ snd (fst r) <> Ok.
Proof.
  unfold create_licence_f, create_licence_raw, base_added. cbv zeta.
  destruct (negb (str_valid cr)); [left; reflexivity|].
  destruct ((d <? 0) || (amt <? 0)); [left; reflexivity|].
  destruct (lic_get (lics s) cl); [left; reflexivity|].
  destruct (hit n); [right; discriminate|].
  destruct (negb (str_valid cl)); [left; reflexivity|].
  destruct (hit (n - 1)); [right; discriminate|].
  destruct (acct s (fst cl)); [left; reflexivity|].
  destruct (hit (n - 2) || hit (n - 3)); [right; discriminate|].
  destruct (hit (n - 4)); [right; apply injected_not_ok|].
  destruct (send _ _ _ _ _); left; reflexivity.
Qed.

Lemma create_f_ok kd n cr cl d amt m s s1 n1 :
  create_licence_f kd n cr cl d amt m s = (s1, Ok, n1) ->
  create_licence_raw cr cl d amt m s = (s1, Ok) /\ n1 = n - 5.
Proof.
  unfold create_licence_f, create_licence_raw, base_added.
  destruct (negb (str_valid cr)); [discriminate|].
  destruct ((d <? 0) || (amt <? 0)); [discriminate|].
  destruct (lic_get (lics s) cl); [discriminate|].
  destruct (hit n); [discriminate|].
  destruct (negb (str_valid cl)); [discriminate|].
  destruct (hit (n - 1)); [discriminate|].
  destruct (acct s (fst cl)); [discriminate|].
  destruct (hit (n - 2) || hit (n - 3)); [discriminate|].
  destruct (hit (n - 4)); [intros H; inversion H as [[H1 H2 H3]]; now destruct kd|].
  destruct (send _ _ _ _ _); [|discriminate].
  intros H; inversion H; subst. auto.
Qed.

Lemma create_f_nofault kd n cr cl d amt m s : n <= 0 ->
  fst (create_licence_f kd n cr cl d amt m s) = create_licence_raw cr cl d amt m s.
Proof.
  intros Hn. unfold create_licence_f, create_licence_raw, base_added.
  pose proof (hit_nofault n 0 Hn ltac:(lia)) as H0. rewrite Z.sub_0_r in H0.
  rewrite H0, !(hit_nofault n) by lia. cbn [orb].
  destruct (negb (str_valid cr)); [reflexivity|].
  destruct ((d <? 0) || (amt <? 0)); [reflexivity|].
  destruct (lic_get (lics s) cl); [reflexivity|].
  destruct (negb (str_valid cl)); [reflexivity|].
  destruct (acct s (fst cl)); [reflexivity|].
  destruct (send _ _ _ _ _); reflexivity.
Qed.

Lemma activate_f_dich kd n who s :
  let r := activate_f kd n who s in
  fst r = activate_raw who s \/ snd (fst r) <> Ok.
Proof.
  unfold activate_f, activate_raw, vesting_set. cbv zeta.
  destruct (lic_get (lics s) who) as [l|]; [|left; reflexivity].
  destruct (hit n); [right; discriminate|].
  destruct (negb (str_valid who)); [left; reflexivity|].
  destruct (hit (n - 1)); [right; discriminate|].
  destruct (acct s (fst who)) as [[| |]|]; try (left; reflexivity).
  destruct ((add_months (now s) (l_months l) <? 0) || (l_amount l <=? 0)); [left; reflexivity|].
  destruct (hit (n - 2)); [right; discriminate|].
  destruct (hit (n - 3)); [right; apply injected_not_ok|].
  destruct (fst who =? escrow); [left; reflexivity|].
  destruct (send _ _ _ _ _); left; reflexivity.
Qed.

Lemma activate_f_nofault kd n who s : n <= 0 -> fst (activate_f kd n who s) = activate_raw who s.
Proof.
  intros Hn. unfold activate_f, activate_raw, vesting_set.
  pose proof (hit_nofault n 0 Hn ltac:(lia)) as H0. rewrite Z.sub_0_r in H0.
  rewrite H0, !(hit_nofault n) by lia.
  destruct (lic_get (lics s) who) as [l|]; [|reflexivity].
  destruct (negb (str_valid who)); [reflexivity|].
  destruct (acct s (fst who)) as [[| |]|]; try reflexivity.
  destruct ((add_months (now s) (l_months l) <? 0) || (l_amount l <=? 0)); [reflexivity|].
  destruct (fst who =? escrow); [reflexivity|].
  destruct (send _ _ _ _ _); reflexivity.
Qed.

Lemma sale_f_dich kd n client amount s :
  let r := sale_licence_f kd n client amount s in
  fst r = sale_licence_raw client amount s \/ snd (fst r) <> Ok.
Proof.
  unfold sale_licence_f, sale_licence_raw. cbv zeta.
  destruct ((amount <? 0) || (two256 <=? Z.abs (amount * Gen.C18.sale_multiplier))); [left; reflexivity|].
  destruct (feegranter s) as [g|]; [|left; reflexivity].
  destruct (funders s) as [[|f0 fr]|]; [left; reflexivity| |left; reflexivity].
  set (fs := f0 :: fr).
  destruct ((1 <=? n) && (n <=? Z.of_nat (length fs))); [right; discriminate|].
  destruct (pick_funder s fs _) as [f|]; [|left; reflexivity].
  destruct (create_licence_f kd _ (f, false) client bond _ _ s) as [[s1 o] n1] eqn:E.
  destruct o; [|right; discriminate|right; discriminate].
  apply create_f_ok in E as [E _]. rewrite E.
  destruct (hit n1); [right; discriminate|].
  destruct (negb (str_valid client)); [left; reflexivity|].
  destruct (hit (n1 - 1)); [right; apply injected_not_ok|].
  destruct (grants s1 g (fst client)); left; reflexivity.
Qed.

Lemma sale_f_nofault kd n client amount s : n <= 0 ->
  fst (sale_licence_f kd n client amount s) = sale_licence_raw client amount s.
Proof.
  intros Hn. unfold sale_licence_f, sale_licence_raw. cbv zeta.
  destruct ((amount <? 0) || (two256 <=? Z.abs (amount * Gen.C18.sale_multiplier))); [reflexivity|].
  destruct (feegranter s) as [g|]; [|reflexivity].
  destruct (funders s) as [[|f0 fr]|]; [reflexivity| |reflexivity].
  set (fs := f0 :: fr).
  assert (E1 : (1 <=? n) = false) by (apply Z.leb_gt; lia). rewrite E1. cbn [andb].
  destruct (pick_funder s fs _) as [f|]; [|reflexivity].
  assert (Hn' : n - Z.of_nat (length fs) <= 0) by lia.
  pose proof (create_f_nofault kd _ (f, false) client bond (amount * Gen.C18.sale_multiplier)
                Gen.C18.sale_vesting_months s Hn') as Hc.
  destruct (create_licence_f kd _ (f, false) client bond _ _ s) as [[s1 o] n1] eqn:E.
  cbn [fst] in Hc. rewrite <- Hc.
  destruct o; try reflexivity.
  apply create_f_ok in E as [_ ->].
  assert (H1 : hit (n - Z.of_nat (length fs) - 5) = false) by (unfold hit; apply Z.eqb_neq; lia).
  assert (H2 : hit (n - Z.of_nat (length fs) - 5 - 1) = false) by (unfold hit; apply Z.eqb_neq; lia).
  rewrite H1, H2.
  destruct (negb (str_valid client)); [reflexivity|].
  destruct (grants s1 g (fst client)); reflexivity.
Qed.

Lemma handle_sale_f_dich kd n chain contract client amount s :
  let r := handle_sale_f kd n chain contract client amount s in
  fst r = handle_sale_raw chain contract client amount s \/ snd (fst r) <> Ok.
Proof.
  unfold handle_sale_f, handle_sale_raw. cbv zeta.
  destruct (contracts s chain) as [c|]; [|left; reflexivity].
  destruct (c =? contract); [apply sale_f_dich | left; reflexivity].
Qed.

Lemma handle_sale_f_nofault kd n chain contract client amount s : n <= 0 ->
  fst (handle_sale_f kd n chain contract client amount s) = handle_sale_raw chain contract client amount s.
Proof.
  intros Hn. unfold handle_sale_f, handle_sale_raw.
  destruct (contracts s chain) as [c|]; [|reflexivity].
  destruct (c =? contract); [now apply sale_f_nofault | reflexivity].
Qed.

Lemma atomically_dich (f g : state -> state * outcome) s :
  f s = g s \/ snd (f s) <> Ok ->
  atomically f s = atomically g s \/ (fst (atomically f s) = s /\ snd (atomically f s) <> Ok).
Proof.
  intros [H|H].
  - left. unfold atomically. now rewrite H.
  - right. unfold atomically. destruct (f s) as [s' o]. cbn [snd] in H. destruct o; cbn [fst snd]; auto; now elim H.
Qed.

(** tx level: whichever collaborator call fails, in whichever way, the operation either ran as if
    there had been no fault (the failing call was not reached) or it was refused and changed nothing *)
Theorem fstep_dichotomy kd n s o :
  fstep kd n s o = step s o \/ (fst (fstep kd n s o) = s /\ snd (fstep kd n s o) <> Ok).
Proof.
  destruct o; try (left; reflexivity); cbn [fstep step].
  - apply (atomically_dich (fun s0 => fst (create_licence_f kd n creator client d amt months s0))
                           (create_licence_raw creator client d amt months)). apply create_f_dich.
  - apply (atomically_dich (fun s0 => fst (activate_f kd n who s0)) (activate_raw who)). apply activate_f_dich.
  - apply (atomically_dich (fun s0 => fst (handle_sale_f kd n chain contract client amount s0))
                           (handle_sale_raw chain contract client amount)). apply handle_sale_f_dich.
Qed.

Theorem fstep_nofault kd n s o : n <= 0 -> fstep kd n s o = step s o.
Proof.
  intros Hn. destruct o; try reflexivity; cbn [fstep step]; unfold atomically.
  - now rewrite create_f_nofault.
  - now rewrite activate_f_nofault.
  - now rewrite handle_sale_f_nofault.
Qed.

Theorem fstep_refused_noop kd n s o : snd (fstep kd n s o) <> Ok -> fst (fstep kd n s o) = s.
Proof.
  destruct (fstep_dichotomy kd n s o) as [E|[E _]]; [|intros _; exact E].
  rewrite E. apply failed_op_is_noop.
Qed.

(** ---- what the RAW keeper functions leave behind when they fail ---- *)

Lemma base_added_neq s a : acct s a = None -> base_added s a <> s.
Proof.
  intros H E. assert (E2 : acct (base_added s a) a = acct s a) by now rewrite E.
  unfold base_added, set_acct, upd1 in E2. cbn [acct] in E2. rewrite Z.eqb_refl in E2. congruence.
Qed.

(** CreateLightNodeClientLicense: a failure leaves either nothing, or exactly the new base account —
    the latter precisely when every guard passed and the payment (the last collaborator call) failed *)
Theorem create_leftovers kd n cr cl d amt m s :
  let r := fst (create_licence_f kd n cr cl d amt m s) in
  snd r <> Ok ->
  (fst r = s /\ (snd r = Panic \/ snd r = Err EInvalidAddr \/ snd r = Err EInvalidParams \/
                 snd r = Err ELicenseExists \/ snd r = Err EAccountExists)) \/
  (fst r = base_added s (fst cl) /\ fst r <> s /\
   acct s (fst cl) = None /\ lic_get (lics s) cl = None /\ str_valid cr = true /\ str_valid cl = true /\
   (snd r = injected kd \/
    exists e, snd r = Err e /\ send (base_added s (fst cl)) (fst cr) escrow d amt = inr e)).
Proof.
  unfold create_licence_f. cbv zeta.
  destruct (negb (str_valid cr)) eqn:Ecr; [cbn; intros _; left; auto 7|].
  destruct ((d <? 0) || (amt <? 0)); [cbn; intros _; left; auto 7|].
  destruct (lic_get (lics s) cl) eqn:El; [cbn; intros _; left; auto 7|].
  destruct (hit n); [cbn; intros _; left; auto 7|].
  destruct (negb (str_valid cl)) eqn:Ecl; [cbn; intros _; left; auto 7|].
  destruct (hit (n - 1)); [cbn; intros _; left; auto 7|].
  destruct (acct s (fst cl)) eqn:Ea; [cbn; intros _; left; auto 7|].
  destruct (hit (n - 2) || hit (n - 3)); [cbn; intros _; left; auto 7|].
  apply negb_false_iff in Ecr, Ecl.
  destruct (hit (n - 4)).
  - cbn [fst snd]. intros _. right. repeat split; auto. now apply base_added_neq.
  - destruct (send _ _ _ _ _) as [s2|e] eqn:Es; cbn [fst snd]; intros H; [now elim H|].
    right. repeat split; auto; [now apply base_added_neq|]. right. exists e. auto.
Qed.

(** the fault-free statement, about the function the first round modelled *)
Corollary create_raw_leftovers cr cl d amt m s :
  let r := create_licence_raw cr cl d amt m s in
  snd r <> Ok ->
  fst r = s \/
  (fst r = base_added s (fst cl) /\ fst r <> s /\ acct s (fst cl) = None /\
   exists e, snd r = Err e /\ send (base_added s (fst cl)) (fst cr) escrow d amt = inr e /\
             (e = EInvalidCoins \/ e = EInsufficientFunds)).
Proof.
  cbv zeta. rewrite <- (create_f_nofault FPanic 0) by lia. intros H.
  destruct (create_leftovers FPanic 0 cr cl d amt m s H) as [[E _]|(E & Hne & Ha & _ & _ & _ & Hr)]; [now left|].
  right. repeat split; auto.
  destruct Hr as [Hr|(e & He & Hs)].
  - exfalso. (* no fault with n = 0 *)
    revert Hr. unfold create_licence_f.
    destruct (negb (str_valid cr)); [discriminate|].
    destruct ((d <? 0) || (amt <? 0)); [discriminate|].
    destruct (lic_get (lics s) cl); [discriminate|]. cbn [hit Z.eqb Z.sub].
    destruct (negb (str_valid cl)); [discriminate|].
    change (hit (0 - 1)) with false. cbv iota.
    destruct (acct s (fst cl)); [discriminate|].
    change (hit (0 - 2) || hit (0 - 3)) with false. change (hit (0 - 4)) with false. cbv iota.
    destruct (send _ _ _ _ _); discriminate.
  - exists e. repeat split; auto.
    revert Hs. unfold send.
    destruct (amt <=? 0); [intros Hx; inversion Hx; auto|].
    destruct (_ <? _); [intros Hx; inversion Hx; auto|].
    destruct (_ <? _); [intros Hx; inversion Hx; auto|]. discriminate.
Qed.

(** CreateLightNodeClientAccount: a failure leaves nothing, or exactly the account already turned
    into the vesting account (schedule set, coins not yet paid) *)
Theorem activate_leftovers kd n who s :
  let r := fst (activate_f kd n who s) in
  snd r <> Ok ->
  fst r = s \/
  (exists l, lic_get (lics s) who = Some l /\ acct s (fst who) = Some Base /\
     fst r = vesting_set s (fst who) l /\
     (snd r = injected kd \/ (snd r = Err EUnauthorized /\ fst who = escrow) \/
      exists e, snd r = Err e /\ send (vesting_set s (fst who) l) escrow (fst who) (l_denom l) (l_amount l) = inr e)).
Proof.
  unfold activate_f. cbv zeta.
  destruct (lic_get (lics s) who) as [l|] eqn:El; [|cbn; auto].
  destruct (hit n); [cbn; auto|].
  destruct (negb (str_valid who)); [cbn; auto|].
  destruct (hit (n - 1)); [cbn; auto|].
  destruct (acct s (fst who)) as [[| |]|] eqn:Ea; try (cbn; auto; fail).
  destruct ((add_months (now s) (l_months l) <? 0) || (l_amount l <=? 0)); [cbn; auto|].
  destruct (hit (n - 2)); [cbn; auto|].
  destruct (hit (n - 3)); [cbn [fst snd]; intros _; right; exists l; auto|].
  destruct (fst who =? escrow) eqn:Ee.
  - apply Z.eqb_eq in Ee. cbn [fst snd]. intros _. right. exists l. repeat split; auto.
  - destruct (send _ _ _ _ _) as [s2|e] eqn:Es; cbn [fst snd]; intros H; [now elim H|].
    right. exists l. repeat split; auto. right. right. exists e. auto.
Qed.

(** CreateSaleLightNodeClientLicense: nothing, the bare base account (payment failed), or the
    complete licence — account, payment, licence — without its fee grant (grant failed) *)
Theorem sale_leftovers kd n client amount s :
  let r := fst (sale_licence_f kd n client amount s) in
  snd r <> Ok ->
  fst r = s \/ fst r = base_added s (fst client) \/
  (exists f, create_licence_raw (f, false) client bond (amount * Gen.C18.sale_multiplier)
                                Gen.C18.sale_vesting_months s = (fst r, Ok)).
Proof.
  unfold sale_licence_f. cbv zeta.
  destruct ((amount <? 0) || (two256 <=? Z.abs (amount * Gen.C18.sale_multiplier))); [cbn; auto|].
  destruct (feegranter s) as [g|]; [|cbn; auto].
  destruct (funders s) as [[|f0 fr]|]; [cbn; auto| |cbn; auto].
  set (fs := f0 :: fr).
  destruct ((1 <=? n) && (n <=? Z.of_nat (length fs))); [cbn; auto|].
  destruct (pick_funder s fs _) as [f|]; [|cbn; auto].
  destruct (create_licence_f kd _ (f, false) client bond _ _ s) as [[s1 o] n1] eqn:E.
  destruct o.
  - apply create_f_ok in E as [E _].
    assert (R : forall (o' : outcome) (n' : Z), snd (fst (s1, o', n')) <> Ok ->
                  fst (fst (s1, o', n')) = s \/ fst (fst (s1, o', n')) = base_added s (fst client) \/
                  exists f1, create_licence_raw (f1, false) client bond (amount * Gen.C18.sale_multiplier)
                                                Gen.C18.sale_vesting_months s = (fst (fst (s1, o', n')), Ok)).
    { intros o' n' _. right. right. exists f. exact E. }
    destruct (hit n1); [apply R|].
    destruct (negb (str_valid client)); [apply R|].
    destruct (hit (n1 - 1)); [apply R|].
    destruct (grants s1 g (fst client)); [apply R|].
    cbn [fst snd]. intros H. now elim H.
  - intros H.
    pose proof (create_leftovers kd (n - Z.of_nat (length fs)) (f, false) client bond
                  (amount * Gen.C18.sale_multiplier) Gen.C18.sale_vesting_months s) as L.
    cbv zeta in L. rewrite E in L. cbn [fst snd] in *.
    destruct (L H) as [[L1 _]|(L1 & _)]; auto.
  - intros H.
    pose proof (create_leftovers kd (n - Z.of_nat (length fs)) (f, false) client bond
                  (amount * Gen.C18.sale_multiplier) Gen.C18.sale_vesting_months s) as L.
    cbv zeta in L. rewrite E in L. cbn [fst snd] in *.
    destruct (L H) as [[L1 _]|(L1 & _)]; auto.
Qed.

(** ... and both callers of the licence creation drop whatever was left: *)
Theorem callers_are_atomic kd n s o :
  snd (fstep kd n s o) <> Ok -> fst (fstep kd n s o) = s.
Proof. apply fstep_refused_noop. Qed.

(** non-vacuity: the payment of a licence creation fails by injection at the fifth call; the raw
    function leaves the base account, the message leaves nothing; a fault at call 6 is never reached *)
Example ex_fault_leftover :
  let raw := fst (create_licence_f FErr 5 (1, false) (6, false) 0 10 1 ex_s0) in
  snd raw = Err EInjected /\ acct (fst raw) 6 = Some Base /\ acct ex_s0 6 = None /\
  fstep FErr 5 ex_s0 (AddLicence (1, false) (6, false) 0 10 1) = (ex_s0, Err EInjected) /\
  snd (fstep FPanic 3 ex_s0 (AddLicence (1, false) (6, false) 0 10 1)) = Panic /\
  snd (fstep FErr 6 ex_s0 (AddLicence (1, false) (6, false) 0 10 1)) = Ok /\
  snd (create_licence_f FErr 0 (1, false) (6, false) 0 10 1 ex_s0) = -5.
Proof. vm_compute. repeat split; reflexivity. Qed.

(** ================= 2. legacy clients, genesis ================= *)

Lemma legacy_keeps s g k c : clients s k = Some c -> legacy_clients s g k = Some c.
Proof. unfold legacy_clients. intros ->. reflexivity. Qed.

(** a record that appears is dated now, under the lower-case string of a grantee of the fee granter
    for which no licence is stored under that same string *)
Lemma legacy_new s g k c : clients s k = None -> legacy_clients s g k = Some c ->
  c = (now s, now s) /\ snd k = false /\ str_valid k = true /\ grants s g (fst k) = true /\ lic_get (lics s) k = None.
Proof.
  unfold legacy_clients. intros ->.
  destruct (negb (snd k)) eqn:E1; [|discriminate]. destruct (str_valid k) eqn:E2; [|discriminate].
  destruct (grants s g (fst k)) eqn:E3; [|discriminate]. destruct (lic_get (lics s) k) eqn:E4; [discriminate|].
  cbn. intros H; inversion H. apply negb_true_iff in E1. auto.
Qed.

Theorem set_legacy_effect n kd s :
  let r := xstep s (XSetLegacy n kd) in
  (fst r = s /\ (snd r <> Ok \/ feegranter s = None)) \/
  (snd r = Ok /\ exists g, feegranter s = Some g /\ fst r = set_clients s (legacy_clients s g)).
Proof.
  cbn [xstep]. unfold atomically, set_legacy_f.
  destruct (feegranter s) as [g|]; [|cbn; auto].
  destruct (hit n).
  - cbn [fst snd]. left. destruct kd; cbn; split; auto; left; discriminate.
  - cbn [fst snd]. right. split; [reflexivity|]. exists g. auto.
Qed.

Lemma nodup_keys l : NoDup (lic_ids l) -> NoDup (map fst l).
Proof.
  induction l as [|[k v] r IH]; cbn; intros H; [constructor|].
  inversion H as [|x xs Hn Hd]; subst. constructor; auto.
  intros Hin. apply Hn. unfold lic_ids. apply in_map_iff in Hin as [[k' v'] [Hk Hin]]. cbn in Hk. subst k'.
  apply in_map_iff. exists (k, v'). auto.
Qed.

Lemma lic_del_notin l k : ~ In k (map fst l) -> lic_del l k = l.
Proof.
  intros H. unfold lic_del. apply filter_all_id. intros [k' v'] Hin. cbn.
  apply negb_true_iff, key_eqb_neq. intros ->. apply H. apply in_map_iff. exists (k, v'). auto.
Qed.

Lemma import_lics_snoc l p : import_lics (l ++ [p]) = p :: lic_del (import_lics l) (fst p).
Proof. unfold import_lics. rewrite fold_left_app. reflexivity. Qed.

Lemma import_rev l : NoDup (map fst l) -> import_lics (rev l) = l.
Proof.
  induction l as [|p r IH]; cbn [rev map]; intros H; [reflexivity|].
  inversion H as [|x xs Hn Hd]; subst.
  rewrite import_lics_snoc, IH by assumption. now rewrite lic_del_notin.
Qed.

(** for ANY licence list of a genesis file: the last entry per address string wins *)
Theorem import_get l k : lic_get (import_lics l) k = lic_get (rev l) k.
Proof.
  induction l as [|[k' v'] r IH] using rev_ind; [reflexivity|].
  rewrite import_lics_snoc, rev_app_distr. cbn [rev app lic_get fst].
  destruct (key_eqb k' k) eqn:E; [reflexivity|].
  rewrite lic_get_del_other; [exact IH|]. intros ->. now rewrite key_eqb_refl in E.
Qed.

(** export followed by import gives back the very same state *)
Theorem genesis_round_trip s : NoDup (lic_ids (lics s)) -> funders s <> Some [] ->
  init_genesis (export_genesis s) s = s.
Proof.
  intros Hn Hf. unfold init_genesis, export_genesis. cbn [g_lics g_feegranter g_funders g_clients].
  rewrite import_rev by now apply nodup_keys.
  destruct s as [t ac ba li cl gr fg fu co gi]. cbn in *.
  destruct fu as [[|f r]|]; [now elim Hf | reflexivity | reflexivity].
Qed.

(** InitGenesis validates nothing about licences (GenesisState.Validate checks Params only): a
    hand-written file can start the chain outside the invariants — the theorems' premise [inv s0]
    is exactly what the file has to satisfy.  Here: a licence without coins and without account. *)
Example ex_unchecked_genesis :
  let g := {| g_lics := [((3, false), {| l_denom := bond; l_amount := 1000; l_months := 1 |})];
              g_feegranter := None; g_funders := None; g_clients := fun _ => None |} in
  let s := init_genesis g ex_s0 in
  lic_sum bond (lics s) = 1000 /\ bal s escrow bond = 0 /\ snd (step s (Register (3, false))) = Err ENoAccount.
Proof. vm_compute. repeat split; reflexivity. Qed.

(** ================= 3. all histories of extended operations ================= *)

Lemma step_funders_ne s o : acct s escrow = Some Module -> funders s <> Some [] ->
  funders (fst (step s o)) <> Some [].
Proof.
  intros He Hf. destruct (step s o) as [s' out] eqn:E. destruct out;
    try (pose proof (failed_op_is_noop s o) as Hn; rewrite E in Hn; simpl in *; rewrite Hn; [exact Hf | discriminate]).
  simpl.
  assert (Hcreate : forall cr cl d0 amt m s1, create_licence_raw cr cl d0 amt m s = (s1, Ok) -> funders s1 = funders s).
  { intros cr cl d0 amt m s1 Hc. apply (create_ok _ _ _ _ _ _ _ He) in Hc as (_ & _ & _ & _ & _ & _ & _ & _ & _ & _ & _ & Hcfg).
    now destruct Hcfg as (_ & _ & _ & Hfu & _ & _). }
  destruct o; simpl in E.
  - apply step_ok_atomically in E. now rewrite (Hcreate _ _ _ _ _ _ E).
  - apply step_ok_atomically in E. apply (activate_ok _ _ _ He) in E as (l0 & Hx).
    destruct Hx as (_ & _ & _ & _ & _ & _ & _ & _ & _ & _ & _ & _ & _ & Hfu & _). now rewrite Hfu.
  - destruct (clients s who) as [[a l]|]; inversion E; subst. exact Hf.
  - apply step_ok_atomically in E. apply handle_sale_ok in E as [_ E].
    apply sale_ok in E as (_ & _ & g & fs & f & s1 & _ & _ & _ & _ & Hc & _ & ->). simpl.
    now rewrite (Hcreate _ _ _ _ _ _ Hc).
  - destruct (send s from to d amt) as [s1|e] eqn:Es; inversion E; subst. clear E.
    apply send_inl in Es as (_ & _ & _ & _ & _ & _ & _ & _ & _ & Hfu & _ & _).
    destruct (to =? escrow); simpl; now rewrite Hfu.
  - destruct (grants s granter grantee); inversion E; subst. simpl. destruct (acct s grantee); exact Hf.
  - inversion E; subst. exact Hf.
  - inversion E; subst. simpl. destruct l; discriminate.
  - inversion E; subst. exact Hf.
  - inversion E; subst. destruct (dt <? 0); exact Hf.
Qed.

(** an extended operation that is an instance of a plain one behaves like it or is a refused no-op *)
Lemma xstep_base s x o : xop_base x = Some o ->
  xstep s x = step s o \/ (fst (xstep s x) = s /\ snd (xstep s x) <> Ok).
Proof.
  destruct x; cbn [xop_base]; intros H; inversion H; subst; cbn [xstep]; [now left | apply fstep_dichotomy].
Qed.

(** the others change nothing but client records (and never remove or alter one) *)
Lemma xstep_nobase s x : xop_base x = None -> NoDup (lic_ids (lics s)) -> funders s <> Some [] ->
  fst (xstep s x) = s \/
  (snd (xstep s x) = Ok /\ exists g, feegranter s = Some g /\ fst (xstep s x) = set_clients s (legacy_clients s g)).
Proof.
  destruct x; cbn [xop_base]; try discriminate; intros _ Hn Hf.
  - destruct (set_legacy_effect n kd s) as [[H _]|H]; [now left | now right].
  - left. cbn [xstep fst]. now apply genesis_round_trip.
Qed.

Lemma xstep_preserves (P : state -> Prop) s x :
  NoDup (lic_ids (lics s)) -> funders s <> Some [] -> P s ->
  (forall o, xop_base x = Some o -> P (fst (step s o))) -> (forall c, P (set_clients s c)) ->
  P (fst (xstep s x)).
Proof.
  intros Hn Hf Hs Hstep Hcl. destruct (xop_base x) as [o|] eqn:Eb.
  - destruct (xstep_base s x o Eb) as [E|[E _]]; [rewrite E; now apply Hstep | now rewrite E].
  - destruct (xstep_nobase s x Eb Hn Hf) as [E|(_ & g & _ & E)]; rewrite E; auto.
Qed.

Theorem xstep_refused_noop s x : snd (xstep s x) <> Ok -> fst (xstep s x) = s.
Proof.
  destruct x; cbn [xstep].
  - apply failed_op_is_noop.
  - apply fstep_refused_noop.
  - apply atomically_fail.
  - cbn. intros H. now elim H.
Qed.

Lemma set_clients_struct s c : inv_struct s -> inv_struct (set_clients s c).
Proof. intros [He Hl Hn]. constructor; cbn; auto. Qed.
Lemma set_clients_escrow s c : inv_escrow s -> inv_escrow (set_clients s c).
Proof. intros [Hb Hg Hf]. constructor; cbn; auto. Qed.

Definition xinv (s : state) : Prop := inv s /\ funders s <> Some [].

Lemma xstep_struct s x : inv_struct s -> funders s <> Some [] -> inv_struct (fst (xstep s x)).
Proof.
  intros Hs Hf. apply xstep_preserves; auto; [apply Hs | intros o _; now apply step_struct | intros c; now apply set_clients_struct].
Qed.

Lemma xstep_inv s x : xinv s -> xop_wf x -> xinv (fst (xstep s x)).
Proof.
  intros [[Hs Hi] Hf] Hwf. pose proof (is_nodup _ Hs) as Hn. split; [split|].
  - now apply xstep_struct.
  - apply xstep_preserves; auto.
    + intros o Eb. apply step_escrow; auto. unfold xop_wf in Hwf. now rewrite Eb in Hwf.
    + intros c. now apply set_clients_escrow.
  - apply (xstep_preserves (fun s' => funders s' <> Some [])); auto.
    intros o _. apply step_funders_ne; auto. apply Hs.
Qed.

Lemma xrun_cons s x r : xrun s (x :: r) = xrun (fst (xstep s x)) r.
Proof. reflexivity. Qed.

Lemma xrun_inv xs : forall s, xinv s -> Forall xop_wf xs -> xinv (xrun s xs).
Proof.
  induction xs as [|x r IH]; intros s Hi Hwf; [assumption|].
  inversion Hwf; subst. rewrite xrun_cons. apply IH; auto. now apply xstep_inv.
Qed.

Lemma xrun_struct xs : forall s, inv_struct s -> funders s <> Some [] ->
  inv_struct (xrun s xs) /\ funders (xrun s xs) <> Some [].
Proof.
  induction xs as [|x r IH]; intros s Hs Hf; [auto|]. rewrite xrun_cons. apply IH.
  - now apply xstep_struct.
  - apply (xstep_preserves (fun s' => funders s' <> Some [])); auto; [apply Hs|].
    intros o _. apply step_funders_ne; auto. apply Hs.
Qed.

Lemma xstep_gifts s x d : inv_struct s -> funders s <> Some [] -> gifts s d <= gifts (fst (xstep s x)) d.
Proof.
  intros Hs Hf. apply (xstep_preserves (fun s' => gifts s d <= gifts s' d)); auto; [apply Hs | lia | | intros c; cbn; lia].
  intros o _. apply step_gifts. apply Hs.
Qed.

Lemma xrun_gifts xs : forall s d, inv_struct s -> funders s <> Some [] -> gifts s d <= gifts (xrun s xs) d.
Proof.
  induction xs as [|x r IH]; intros s d Hs Hf; [cbn; lia|]. rewrite xrun_cons.
  pose proof (xstep_gifts s x d Hs Hf).
  assert (Hs' : inv_struct (fst (xstep s x))) by now apply xstep_struct.
  assert (Hf' : funders (fst (xstep s x)) <> Some []).
  { apply (xstep_preserves (fun s' => funders s' <> Some [])); auto; [apply Hs|].
    intros o _. apply step_funders_ne; auto. apply Hs. }
  pose proof (IH (fst (xstep s x)) d Hs' Hf'). lia.
Qed.

(** C18 clause 1 over histories that also contain collaborator faults at any call of any
    operation, legacy-client imports and genesis round trips *)
Theorem escrow_under_faults_thm : forall (s0 : state) (xs : list xop),
  xinv s0 -> Forall xop_wf xs ->
  let s := xrun s0 xs in
  (forall d, bal s escrow d = lic_sum d (lics s) + gifts s d /\
             lic_sum d (lics s) <= bal s escrow d /\
             gifts s0 d <= gifts s d /\
             (gifts s d = 0 -> bal s escrow d = lic_sum d (lics s))) /\
  NoDup (lic_ids (lics s)) /\
  (forall k l, In (k, l) (lics s) -> acct s (fst k) = Some Base /\ 0 < l_amount l).
Proof.
  intros s0 xs Hi Hwf s. pose proof (xrun_inv xs s0 Hi Hwf) as [[Hs [Hb Hg Hf]] _]. fold s in Hs, Hb, Hg.
  split; [|split].
  - intros d. repeat split.
    + apply Hb.
    + rewrite Hb. specialize (Hg d). lia.
    + apply xrun_gifts; apply Hi.
    + intros H0. rewrite Hb. lia.
  - apply Hs.
  - intros k l Hin. destruct (is_lic _ Hs k l Hin) as (Ha & Hp & _). auto.
Qed.

(** a licence is untouched by everything except the registration of its own address string *)
Theorem licence_persists_x s x k l :
  inv_struct s -> funders s <> Some [] ->
  lic_get (lics s) k = Some l -> xop_base x <> Some (Register k) ->
  lic_get (lics (fst (xstep s x))) k = Some l.
Proof.
  intros Hs Hf Hg Hne. apply (xstep_preserves (fun s' => lic_get (lics s') k = Some l)); auto; [apply Hs|].
  intros o Eb. apply licence_persists; auto; [apply Hs|]. intros ->. now apply Hne.
Qed.

(** activation at most once, also with faults, legacy imports and genesis round trips in between *)
Definition xactivation_of (a : addr) (e : xop * outcome) : bool :=
  match xop_base (fst e), snd e with
  | Some (Register who), Ok => fst who =? a
  | _, _ => false
  end.

Lemma xtrace_cons s x r : xtrace s (x :: r) = (x, snd (xstep s x)) :: xtrace (fst (xstep s x)) r.
Proof. cbn. destruct (xstep s x) as [s' out]. reflexivity. Qed.

Lemma set_clients_spent a s c : spent a s -> spent a (set_clients s c).
Proof. intros [H1 H2]. split; cbn; auto. Qed.

Lemma xstep_spent s x a : inv_struct s -> funders s <> Some [] -> spent a s -> spent a (fst (xstep s x)).
Proof.
  intros Hs Hf Hsp. apply (xstep_preserves (spent a));
    [apply Hs | exact Hf | exact Hsp | intros o _; now apply step_spent | intros c; now apply set_clients_spent].
Qed.

Lemma xactivation_step s x a : xactivation_of a (x, snd (xstep s x)) = true ->
  exists who s', xstep s x = step s (Register who) /\ step s (Register who) = (s', Ok) /\ fst who = a.
Proof.
  unfold xactivation_of. cbn [fst snd].
  destruct (xop_base x) as [o|] eqn:Eb; [|discriminate]. destruct o; try discriminate.
  destruct (snd (xstep s x)) eqn:Eo; try discriminate. intros Ha. apply Z.eqb_eq in Ha.
  destruct (xstep_base s x _ Eb) as [E|[_ E]]; [|now elim E].
  exists who, (fst (step s (Register who))). repeat split; auto.
  rewrite E in Eo. destruct (step s (Register who)) as [s1 o1]. cbn in *. now subst.
Qed.

Lemma xspent_no_activation xs : forall s a, inv_struct s -> funders s <> Some [] -> spent a s ->
  filter (xactivation_of a) (xtrace s xs) = [].
Proof.
  induction xs as [|x r IH]; intros s a Hs Hf Hsp; [reflexivity|].
  rewrite xtrace_cons. cbn [filter].
  destruct (xactivation_of a (x, snd (xstep s x))) eqn:Ea.
  - exfalso. apply xactivation_step in Ea as (who & s' & _ & E & Hw).
    simpl in E. apply step_ok_atomically in E.
    apply (activate_ok _ _ _ (is_escrow _ Hs)) in E as (l & Hget & _).
    destruct Hsp as [_ Hn]. rewrite (Hn who Hw) in Hget. discriminate.
  - apply IH; [now apply xstep_struct | | now apply xstep_spent].
    apply (xstep_preserves (fun s' => funders s' <> Some [])); auto; [apply Hs|].
    intros o _. apply step_funders_ne; auto. apply Hs.
Qed.

Theorem activation_once_x_thm : forall (xs : list xop) (s0 : state) (a : addr),
  inv_struct s0 -> funders s0 <> Some [] ->
  (length (filter (xactivation_of a) (xtrace s0 xs)) <= 1)%nat.
Proof.
  induction xs as [|x r IH]; intros s0 a Hs Hf; [simpl; lia|].
  rewrite xtrace_cons. cbn [filter].
  assert (Hs' : inv_struct (fst (xstep s0 x))) by now apply xstep_struct.
  assert (Hf' : funders (fst (xstep s0 x)) <> Some []).
  { apply (xstep_preserves (fun s' => funders s' <> Some [])); auto; [apply Hs|].
    intros o _. apply step_funders_ne; auto. apply Hs. }
  destruct (xactivation_of a (x, snd (xstep s0 x))) eqn:Ea.
  - apply xactivation_step in Ea as (who & s' & Ex & E & Hw). subst a.
    rewrite xspent_no_activation; [simpl; lia | exact Hs' | exact Hf' |].
    rewrite Ex, E. cbn [fst]. exact (activation_spends s0 s' who Hs E).
  - now apply IH.
Qed.

(** ================= 4. the vesting calendar ================= *)

Record inv_sched (s : state) : Prop := {
  sc_now : 0 <= now s;
  sc_months : forall k l, In (k, l) (lics s) -> 0 <= l_months l;
  sc_vest : forall a st en o d, acct s a = Some (Vesting st en o d) -> 0 <= st <= en }.

Lemma upd1_base_vest (f : addr -> option account) a x st en o d :
  upd1 f a (Some Base) x = Some (Vesting st en o d) -> f x = Some (Vesting st en o d).
Proof. unfold upd1. destruct (x =? a); [discriminate | auto]. Qed.

Lemma create_sched cr cl d amt m s s' : acct s escrow = Some Module -> inv_sched s -> 0 <= m ->
  create_licence_raw cr cl d amt m s = (s', Ok) -> inv_sched s'.
Proof.
  intros He [Hn Hm Hv] Hm0 H.
  apply (create_ok _ _ _ _ _ _ _ He) in H as (_ & _ & _ & _ & _ & _ & _ & _ & Hacct & Hlics & _ & Hcfg).
  destruct Hcfg as (Hnow & _). constructor.
  - now rewrite Hnow.
  - rewrite Hlics. intros k l [Hin|Hin]; [inversion Hin; subst; exact Hm0 | eauto].
  - rewrite Hacct. intros a st en o d0 Ha. apply upd1_base_vest in Ha. eauto.
Qed.

Lemma send_sched s from to d amt s' : inv_sched s -> send s from to d amt = inl s' -> inv_sched s'.
Proof.
  intros [Hn Hm Hv] H. apply send_inl in H as (_ & _ & _ & Hacct & Hnow & Hlics & _). constructor.
  - now rewrite Hnow.
  - now rewrite Hlics.
  - rewrite Hacct. destruct (acct s to); [exact Hv|]. intros a st en o d0 Ha. apply upd1_base_vest in Ha. eauto.
Qed.

Lemma step_sched s o : inv_struct s -> inv_sched s -> op_typed o -> inv_sched (fst (step s o)).
Proof.
  intros Hs Hi Ht. pose proof (is_escrow _ Hs) as He.
  destruct (step s o) as [s' out] eqn:E. destruct out;
    try (pose proof (failed_op_is_noop s o) as Hn; rewrite E in Hn; simpl in *; rewrite Hn; [exact Hi | discriminate]).
  simpl. destruct o; simpl in E, Ht.
  - apply step_ok_atomically in E. eapply create_sched; eauto. lia.
  - apply step_ok_atomically in E. apply (activate_ok _ _ _ He) in E
      as (l0 & Hget & _ & _ & _ & _ & _ & _ & Hacct & Hlics & _ & Hnow & _).
    destruct Hi as [Hn Hm Hv]. apply lic_get_In in Hget. constructor.
    + now rewrite Hnow.
    + rewrite Hlics. intros k l Hin. apply In_lic_del in Hin as [Hin _]. eauto.
    + rewrite Hacct. intros a st en o d0. unfold upd1. destruct (a =? fst who); [|apply Hv].
      intros Ha; inversion Ha; subst. pose proof (add_months_ge (now s) (l_months l0) (Hm _ _ Hget)). lia.
  - destruct (clients s who) as [[a l]|]; inversion E; subst. destruct Hi; constructor; cbn; auto.
  - apply step_ok_atomically in E. apply handle_sale_ok in E as [_ E].
    apply sale_ok in E as (_ & _ & g & fs & f & s1 & _ & _ & _ & _ & Hc & _ & ->).
    assert (H1 : inv_sched s1) by (eapply create_sched; eauto; unfold Gen.C18.sale_vesting_months; lia).
    destruct H1; constructor; cbn; auto.
  - destruct (send s from to d amt) as [s1|e] eqn:Es; inversion E; subst.
    pose proof (send_sched _ _ _ _ _ _ Hi Es) as H1.
    destruct (to =? escrow); [destruct H1; constructor; cbn; auto | exact H1].
  - destruct (grants s granter grantee); inversion E; subst. destruct Hi as [Hn Hm Hv].
    destruct (acct s grantee) eqn:Ea; constructor; cbn; auto.
    intros a st en o d0 Ha. apply upd1_base_vest in Ha. eauto.
  - inversion E; subst. destruct Hi; constructor; cbn; auto.
  - inversion E; subst. destruct Hi; constructor; cbn; auto.
  - inversion E; subst. destruct Hi; constructor; cbn; auto.
  - inversion E; subst. destruct (dt <? 0) eqn:Ed; [exact Hi|]. apply Z.ltb_ge in Ed.
    destruct Hi; constructor; cbn; auto. lia.
Qed.

Lemma set_clients_sched s c : inv_sched s -> inv_sched (set_clients s c).
Proof. intros [Hn Hm Hv]. constructor; cbn; auto. Qed.

Lemma xrun_sched xs : forall s, inv_struct s -> funders s <> Some [] -> inv_sched s -> Forall xop_typed xs ->
  inv_sched (xrun s xs).
Proof.
  induction xs as [|x r IH]; intros s Hs Hf Hi Ht; [assumption|].
  inversion Ht; subst. rewrite xrun_cons. apply IH; auto.
  - now apply xstep_struct.
  - apply (xstep_preserves (fun s' => funders s' <> Some [])); auto; [apply Hs|].
    intros o _. apply step_funders_ne; auto. apply Hs.
  - apply xstep_preserves; auto; [apply Hs | | intros c; now apply set_clients_sched].
    intros o Eb. apply step_sched; auto. unfold xop_typed in *. now rewrite Eb in H1.
Qed.

(** every vesting schedule that ever exists ends at or after its start: no checked side condition *)
Theorem vesting_schedules_forward_thm : forall (s0 : state) (xs : list xop),
  inv_struct s0 -> funders s0 <> Some [] -> inv_sched s0 -> Forall xop_typed xs ->
  let s := xrun s0 xs in
  forall a st en o d, acct s a = Some (Vesting st en o d) -> 0 <= st <= en.
Proof. intros s0 xs Hs Hf Hi Ht s. apply (sc_vest _ (xrun_sched xs s0 Hs Hf Hi Ht)). Qed.

(** a licence of m months vests over m calendar months: between 28*m and 31*m days, time of day kept *)
Theorem activation_period_thm : forall (s s' : state) (who : key),
  acct s escrow = Some Module -> step s (Register who) = (s', Ok) ->
  exists l en, lic_get (lics s) who = Some l /\
    acct s' (fst who) = Some (Vesting (now s) en (l_amount l) (l_denom l)) /\
    en = add_months (now s) (l_months l) /\ en mod 86400 = now s mod 86400 /\
    (0 <= l_months l ->
       now s + 28 * 86400 * l_months l <= en <= now s + 31 * 86400 * l_months l).
Proof.
  intros s s' who He E.
  destruct (activation_moves_exact_amount_thm s s' who He E) as (l & Hget & _ & _ & Hacct & _).
  exists l, (add_months (now s) (l_months l)). repeat split; auto.
  - apply add_months_clock.
  - now apply add_months_forward.
  - now apply add_months_forward.
Qed.

Lemma send_err s f t d a e : send s f t d a = inr e -> e = EInvalidCoins \/ e = EInsufficientFunds.
Proof.
  unfold send. destruct (a <=? 0); [intros H; inversion H; auto|].
  destruct (_ <? _); [intros H; inversion H; auto|].
  destruct (_ <? _); [intros H; inversion H; auto|]. discriminate.
Qed.

(** the error branch of BaseVestingAccount.Validate is dead code in reachable states *)
Theorem vesting_error_unreachable_thm : forall (s : state) (who : key),
  inv_struct s -> inv_sched s -> snd (step s (Register who)) <> Err EVesting.
Proof.
  intros s who Hs [Hn Hm Hv]. cbn [step]. unfold atomically.
  destruct (activate_raw who s) as [s' o] eqn:E.
  assert (Ho : o <> Err EVesting).
  { intros ->. revert E. unfold activate_raw.
    destruct (lic_get (lics s) who) as [l|] eqn:El; [|discriminate].
    destruct (negb (str_valid who)); [discriminate|].
    destruct (acct s (fst who)) as [[| |]|]; try discriminate.
    apply lic_get_In in El. destruct (is_lic _ Hs _ _ El) as (_ & Hp & _).
    pose proof (add_months_ge (now s) (l_months l) (Hm _ _ El)).
    assert (E1 : (add_months (now s) (l_months l) <? 0) = false) by (apply Z.ltb_ge; lia).
    assert (E2 : (l_amount l <=? 0) = false) by (apply Z.leb_gt; lia).
    rewrite E1, E2. cbn [orb].
    destruct (fst who =? escrow); [discriminate|].
    destruct (send _ _ _ _ _) as [s2|e] eqn:Es; [discriminate|].
    intros Hx; inversion Hx; subst. apply send_err in Es as [Es|Es]; discriminate. }
  destruct o; cbn [snd]; auto; discriminate.
Qed.

Lemma init_sched t0 b : 0 <= t0 -> inv_sched (init t0 b).
Proof.
  intros H. constructor; cbn; auto.
  - intros k l [].
  - intros a st en o d. destruct (a =? escrow); discriminate.
Qed.

(** ================= 5. an attested sale inside the end blocker ================= *)

(** whatever the handler does, the effect of an attested sale on the licence / account / bank /
    grant state is exactly the [Sale] step of the model *)
Theorem try_sale_core chain nonce contract client amount o s :
  nonce = o_last o chain + 1 ->
  snd (fst (try_sale chain nonce contract client amount (o, s))) = fst (step s (Sale chain contract client amount)).
Proof.
  intros ->. unfold try_sale. rewrite Z.eqb_refl. cbn [step]. unfold atomically.
  destruct (handle_sale_raw chain contract client amount s) as [s' out]. destruct out; reflexivity.
Qed.

(** the attestation is marked observed and the cursor moves, whatever the handler does *)
Theorem try_sale_cursor chain nonce contract client amount o s :
  nonce = o_last o chain + 1 ->
  fst (fst (try_sale chain nonce contract client amount (o, s))) = oracle_advance o chain nonce.
Proof.
  intros ->. unfold try_sale. rewrite Z.eqb_refl.
  destruct (handle_sale_raw chain contract client amount s) as [s' out]. destruct out; reflexivity.
Qed.

(** a claim from the authorised contract with a negative amount, or one of 2^256/10^6 and more,
    makes the handler panic (NewCoin / Int.Mul): nothing of it is written, the end blocker stops
    there (recover), the attestation stays observed and the cursor moved: the event is consumed *)
Theorem try_sale_hostile_amount chain nonce contract client amount o s :
  nonce = o_last o chain + 1 -> contracts s chain = Some contract ->
  amount < 0 \/ two256 <= amount * Gen.C18.sale_multiplier ->
  try_sale chain nonce contract client amount (o, s) = ((oracle_advance o chain nonce, s), Panic).
Proof.
  intros -> Hc Ha. unfold try_sale. rewrite Z.eqb_refl. unfold handle_sale_raw. rewrite Hc, Z.eqb_refl.
  unfold sale_licence_raw.
  assert (E : (amount <? 0) || (two256 <=? Z.abs (amount * Gen.C18.sale_multiplier)) = true).
  { apply orb_true_iff. destruct Ha as [Ha|Ha]; [left; now apply Z.ltb_lt|].
    right. apply Z.leb_le. assert (0 < two256) by reflexivity. lia. }
  now rewrite E.
Qed.

(** ... and it is never run a second time *)
Theorem try_sale_not_repeated chain nonce contract client amount contract' client' amount' a :
  let a1 := fst (try_sale chain nonce contract client amount a) in
  nonce = o_last (fst a) chain + 1 ->
  try_sale chain nonce contract' client' amount' a1 = (a1, Err ENotFound).
Proof.
  destruct a as [o s]. cbn [fst]. intros Hn.
  pose proof (try_sale_cursor chain nonce contract client amount o s Hn) as Hc.
  destruct (try_sale chain nonce contract client amount (o, s)) as [[o1 s1] out]. cbn [fst] in *. subst o1.
  unfold try_sale. cbn [oracle_advance o_last]. unfold upd1. rewrite Z.eqb_refl.
  assert (E : (nonce =? nonce + 1) = false) by (apply Z.eqb_neq; lia). now rewrite E.
Qed.

Example ex_hostile_sale :
  let s := run ex_s0 [SetContracts [(1, 11)]; SetFeegranter 2; SetFunders [1]] in
  let o := {| o_last := fun _ => 4; o_observed := [] |} in
  try_sale 1 5 11 (4, false) (-1) (o, s) = ((oracle_advance o 1 5, s), Panic) /\
  snd (try_sale 1 5 11 (4, false) 7 (o, s)) = Ok /\
  lic_ids (lics (snd (fst (try_sale 1 5 11 (4, false) 7 (o, s))))) = [4] /\
  snd (try_sale 1 5 12 (4, false) 7 (o, s)) = Ok /\
  snd (fst (try_sale 1 5 12 (4, false) 7 (o, s))) = s.
Proof. vm_compute. repeat split; reflexivity. Qed.

(** ================= 7. a premise that cannot be dropped ================= *)
(** [op_wf] asks that governance does not name the module account as a funder.  Nothing in the
    code refuses it, and without it clause 1 fails: a sale is then paid by the escrow to itself,
    a licence appears and the escrow does not grow; once the first licensee has activated, the
    second cannot.  (Replayed on the real keepers: harness/corpus/C18/08_funder_is_the_module_account.json.) *)
Definition ex_escrow_funder_ops : list op :=
  [ SetContracts [(1, 11)]; SetFeegranter 2; SetFunders [escrow];
    AddLicence (1, false) (3, false) 0 20000000 3;
    Sale 1 11 (4, false) 7 ].

Lemma funder_premise_refuted :
  inv ex_s0 /\
  (forall o, In o ex_escrow_funder_ops -> op_wf o \/ o = SetFunders [escrow]) /\
  let s := run ex_s0 ex_escrow_funder_ops in
  map snd (trace ex_s0 ex_escrow_funder_ops) = [Ok; Ok; Ok; Ok; Ok] /\
  bal s escrow bond = 20000000 /\ lic_sum bond (lics s) = 27000000 /\ gifts s bond = 0 /\
  let s' := run s [Register (3, false)] in
  bal s' escrow bond = 0 /\ snd (step s' (Register (4, false))) = Err EInsufficientFunds.
Proof.
  split; [exact ex_inv|]. split.
  - intros o Hin. cbn in Hin.
    repeat (destruct Hin as [<-|Hin]; [first [right; reflexivity | left; cbn; first [exact I | discriminate]]|]).
    destruct Hin.
  - vm_compute. repeat split; reflexivity.
Qed.

(** ================= 8. the table of authorised sale contracts ================= *)

(** only the governance operation changes it *)
Lemma step_contracts s o : acct s escrow = Some Module -> (forall l, o <> SetContracts l) ->
  contracts (fst (step s o)) = contracts s.
Proof.
  intros He Hne. destruct (step s o) as [s' out] eqn:E. destruct out;
    try (pose proof (failed_op_is_noop s o) as Hn; rewrite E in Hn; simpl in *; rewrite Hn; [reflexivity | discriminate]).
  simpl.
  assert (Hcreate : forall cr cl d0 amt m s1, create_licence_raw cr cl d0 amt m s = (s1, Ok) -> contracts s1 = contracts s).
  { intros cr cl d0 amt m s1 Hc. apply (create_ok _ _ _ _ _ _ _ He) in Hc as (_ & _ & _ & _ & _ & _ & _ & _ & _ & _ & _ & Hcfg).
    now destruct Hcfg as (_ & _ & _ & _ & Hco & _). }
  destruct o; simpl in E.
  - apply step_ok_atomically in E. now rewrite (Hcreate _ _ _ _ _ _ E).
  - apply step_ok_atomically in E. apply (activate_ok _ _ _ He) in E as (l0 & Hx).
    destruct Hx as (_ & _ & _ & _ & _ & _ & _ & _ & _ & _ & _ & _ & _ & _ & Hco & _). now rewrite Hco.
  - destruct (clients s who) as [[a l]|]; inversion E; subst. reflexivity.
  - apply step_ok_atomically in E. apply handle_sale_ok in E as [_ E].
    apply sale_ok in E as (_ & _ & g & fs & f & s1 & _ & _ & _ & _ & Hc & _ & ->). simpl.
    now rewrite (Hcreate _ _ _ _ _ _ Hc).
  - destruct (send s from to d amt) as [s1|e] eqn:Es; inversion E; subst. clear E.
    apply send_inl in Es as (_ & _ & _ & _ & _ & _ & _ & _ & _ & _ & Hco & _).
    destruct (to =? escrow); simpl; now rewrite Hco.
  - destruct (grants s granter grantee); inversion E; subst. simpl. destruct (acct s grantee); reflexivity.
  - inversion E; subst. reflexivity.
  - inversion E; subst. reflexivity.
  - exfalso. now apply (Hne l).
  - inversion E; subst. destruct (dt <? 0); reflexivity.
Qed.

Lemma assoc_notin l c : ~ In c (map fst l) -> assoc l c = None.
Proof.
  induction l as [|[k v] r IH]; cbn; intros H; [reflexivity|].
  destruct (k =? c) eqn:E; [apply Z.eqb_eq in E; subst; exfalso; apply H; now left|].
  apply IH. intros Hin. apply H. now right.
Qed.

Definition not_set_contracts (x : xop) : Prop :=
  match xop_base x with Some (SetContracts _) => False | _ => True end.

Lemma xrun_contracts xs : forall s, inv_struct s -> funders s <> Some [] -> Forall not_set_contracts xs ->
  contracts (xrun s xs) = contracts s.
Proof.
  induction xs as [|x r IH]; intros s Hs Hf Hn; [reflexivity|].
  inversion Hn; subst. rewrite xrun_cons.
  assert (Hs' : inv_struct (fst (xstep s x))) by now apply xstep_struct.
  assert (Hf' : funders (fst (xstep s x)) <> Some []).
  { apply (xstep_preserves (fun s' => funders s' <> Some [])); auto; [apply Hs|].
    intros o _. apply step_funders_ne; auto. apply Hs. }
  rewrite (IH _ Hs' Hf' H2).
  apply (xstep_preserves (fun s' => contracts s' = contracts s)); auto; [apply Hs|].
  intros o Eb. apply step_contracts; [apply Hs|].
  intros l ->. unfold not_set_contracts in H1. now rewrite Eb in H1.
Qed.

(** governance replaces the whole table: a chain that is not in the new list is not authorised,
    stays so through any history without another governance decision, and every sale reported
    from it — with whatever contract address, the formerly authorised one included — changes nothing *)
Theorem dropped_chain_stays_unauthorised_thm : forall (s0 : state) (l : list (Z * Z)) (xs : list xop) (c : Z),
  inv_struct s0 -> funders s0 <> Some [] -> ~ In c (map fst l) -> Forall not_set_contracts xs ->
  let s := xrun (fst (step s0 (SetContracts l))) xs in
  contracts s c = None /\
  forall contract client amount,
    step s (Sale c contract client amount) = (s, Err ENoContract).
Proof.
  intros s0 l xs c Hs Hf Hnc Hxs s.
  assert (H1 : inv_struct (fst (step s0 (SetContracts l)))) by now apply step_struct.
  assert (H2 : funders (fst (step s0 (SetContracts l))) <> Some []) by exact Hf.
  assert (Hc : contracts s c = None).
  { unfold s. rewrite (xrun_contracts xs _ H1 H2 Hxs). cbn. unfold contracts_of.
    apply assoc_notin. rewrite map_rev. intros Hin. apply Hnc. now apply in_rev. }
  split; [exact Hc|]. intros contract client amount.
  cbn [step]. unfold atomically, handle_sale_raw. now rewrite Hc.
Qed.

(** ... and for a chain that is in the list, the last entry is the authorised contract *)
Theorem set_contracts_table_thm : forall (s : state) (l : list (Z * Z)) (c : Z),
  contracts (fst (step s (SetContracts l))) c = assoc (rev l) c.
Proof. reflexivity. Qed.

(** ================= 9. griefing a bought licence; a history with everything in it ================= *)

(** Anybody can make a sale undeliverable: once the client address has an account (one unit sent
    to it is enough) the sale is refused — as clause 2 demands — and, inside the attestation
    machinery, the event is consumed all the same.  C18 promises no licence for every paid sale
    ("only if"), so this is outside the statement; the buyer's remedy is off-chain. *)
Theorem sale_refused_once_account_exists_thm : forall (s : state) (chain contract : Z) (client : key) (amount : Z),
  acct s escrow = Some Module -> acct s (fst client) <> None ->
  snd (step s (Sale chain contract client amount)) <> Ok /\ fst (step s (Sale chain contract client amount)) = s.
Proof.
  intros s chain contract client amount He Ha.
  assert (Hno : snd (step s (Sale chain contract client amount)) <> Ok).
  { intros Hok. destruct (sale_all_or_nothing_thm s chain contract client amount) as [_ H].
    destruct (H He Hok) as (_ & _ & g & fs & f & _ & _ & _ & _ & Hacc & _). contradiction. }
  split; [exact Hno | now apply failed_op_is_noop].
Qed.

Example ex_dust_griefing :
  let s := run ex_s0 [SetContracts [(1, 11)]; SetFeegranter 2; SetFunders [1]] in
  let o := {| o_last := fun _ => 0; o_observed := [] |} in
  let s1 := fst (step s (Send 1 4 0 1)) in                       (* one unit to the buyer's address *)
  snd (step s (Sale 1 11 (4, false) 7)) = Ok /\                  (* without it the sale goes through *)
  snd (step s1 (Sale 1 11 (4, false) 7)) = Err EAccountExists /\
  try_sale 1 1 11 (4, false) 7 (o, s1) = ((oracle_advance o 1 1, s1), Ok) /\   (* consumed, nothing created *)
  lics s1 = [].
Proof. vm_compute. repeat split; reflexivity. Qed.

(** non-vacuity of the theorems over extended histories *)
Definition ex_xops : list xop :=
  map XOp (firstn 5 ex_ops) ++
  [ XFault 4 FErr (Register (3, false));          (* the payment of the activation fails: refused, nothing changes *)
    XSetLegacy 0 FErr; XGenesis;
    XOp (Register (3, false));
    XFault 2 FPanic (Sale 1 11 (5, false) 7);     (* HasAccount panics inside the sale *)
    XFault 9 FErr (Sale 1 11 (5, false) 7);       (* a ninth call does not exist with one funder: goes through *)
    XOp (Tick 100); XSetLegacy 1 FErr; XSetLegacy 0 FErr ].

Example ex_xhistory :
  xinv ex_s0 /\ inv_sched ex_s0 /\ Forall xop_wf ex_xops /\ Forall xop_typed ex_xops /\
  map snd (xtrace ex_s0 ex_xops) =
    [Ok; Ok; Ok; Ok; Ok; Err EInjected; Ok; Ok; Ok; Panic; Ok; Ok; Err EInjected; Ok] /\
  let s := xrun ex_s0 ex_xops in
  lic_ids (lics s) = [5; 4] /\ bal s escrow 0 = 14000000 /\
  clients s (4, false) = Some (1700000000, 1700000000) /\ clients s (5, false) = None /\
  length (filter (xactivation_of 3) (xtrace ex_s0 ex_xops)) = 1%nat.
Proof.
  split; [split; [exact ex_inv | discriminate]|].
  split; [apply init_sched; lia|].
  split; [repeat constructor; cbn; try discriminate; intuition discriminate|].
  split; [repeat constructor; cbn; lia|].
  vm_compute. repeat split; reflexivity.
Qed.

(** ================= 6. the source facts of the second round ================= *)
Lemma source_round2 :
  Gen.C18.create_collab_calls = ["accountKeeper.AddressCodec"; "accountKeeper.HasAccount"; "accountKeeper.NewAccount";
                                 "accountKeeper.SetAccount"; "bankKeeper.SendCoinsFromAccountToModule"]%string /\
  Gen.C18.activate_collab_calls = ["accountKeeper.AddressCodec"; "accountKeeper.GetAccount"; "accountKeeper.SetAccount";
                                   "bankKeeper.SendCoinsFromModuleToAccount"]%string /\
  Gen.C18.sale_collab_calls = ["bankKeeper.HasBalance"; "k.CreateLightNodeClientLicense"; "accountKeeper.AddressCodec";
                               "feegrantKeeper.GrantAllowance"]%string /\
  snd (create_licence_f FErr 0 (1, false) (6, false) 0 10 1 ex_s0) = - Z.of_nat (List.length Gen.C18.create_collab_calls) /\
  snd (activate_f FErr 0 (3, false) (run ex_s0 (firstn 4 ex_ops))) = - Z.of_nat (List.length Gen.C18.activate_collab_calls) /\
  snd (sale_licence_f FErr 0 (4, true) 7 (run ex_s0 (firstn 4 ex_ops)))
    = - (1 + Z.of_nat (List.length Gen.C18.create_collab_calls) + (Z.of_nat (List.length Gen.C18.sale_collab_calls) - 2)) /\
  Gen.C18.funder_loop_exits_early = false /\
  Gen.C18.funder_loop_body = "{ if k.bankKeeper.HasBalance(ctx, funders.Accounts[i], coin) { funder = funders.Accounts[i] } }"%string /\
  Gen.C18.legacy_calls = ["LightNodeClientFeegranter"; "AllLightNodeClientLicenses"; "AllowancesByGranter"; "GetLightNodeClient"]%string /\
  Gen.C18.set_legacy_calls = ["GetLegacyLightNodeClients"; "SetLightNodeClient"]%string /\
  Gen.C18.legacy_licence_test = "license.ClientAddress == grant.Grantee"%string /\
  Gen.C18.init_genesis_calls = ["SetParams"; "SetLightNodeClientLicense"; "SetLightNodeClientFeegranter";
                                "SetLightNodeClientFunders"; "SetLightNodeClient"]%string /\
  Gen.C18.export_genesis_calls = ["GetParams"; "AllLightNodeClientLicenses"; "LightNodeClientFeegranter";
                                  "LightNodeClientFunders"; "AllLightNodeClients"]%string /\
  Gen.C18.init_genesis_licence_args = "license.ClientAddress | license"%string /\
  Gen.C18.genesis_validate_body = "{ return gs.Params.Validate() }"%string /\
  Gen.C18.try_attestation_calls = ["SetLastObservedEthereumBlockHeight"; "setLastObservedSkywayNonce"; "SetAttestation";
                                   "processAttestation"; "emitObservedEvent"]%string /\
  Gen.C18.try_attestation_callers = ["attestationTally"]%string /\
  Gen.C18.endblocker_defers_recover = true /\
  Gen.C18.endblocker_calls = ["createBatch"; "attestationTally"; "pruneAttestations"]%string /\
  Gen.C18.set_contracts_calls = ["IterAllFnc"; "Delete"; "Save"]%string /\
  Gen.C18.set_contracts_wipe_callback = "{ st.Delete(key) return true }"%string /\
  Gen.C18.iter_all_fnc_stop_test = "if !fnc(iterator.Key(), val) { return nil }"%string.
Proof. vm_compute. repeat split; reflexivity. Qed.


(** ================= 10. rounds 3-4: every pending licence is seen by every reader ================= *)
(** the export lists every licence of the store (no page, no limit), so after a restart from the
    export every pending licence is there, unchanged, and the escrow equation is the same one *)
Theorem export_lists_every_licence_thm : forall (s : state) (k : key) (l : licence),
  lic_get (lics s) k = Some l -> In (k, l) (g_lics (export_genesis s)).
Proof. intros s k l H. cbn. rewrite <- in_rev. now apply lic_get_In. Qed.

Theorem restart_keeps_every_licence_thm : forall (s : state) (k : key),
  NoDup (lic_ids (lics s)) ->
  lic_get (lics (init_genesis (export_genesis s) s)) k = lic_get (lics s) k /\
  List.length (lics (init_genesis (export_genesis s) s)) = List.length (lics s).
Proof.
  intros s k Hn. unfold init_genesis, export_genesis. cbn [g_lics g_feegranter g_funders g_clients].
  rewrite import_rev by now apply nodup_keys. split; reflexivity.
Qed.

Lemma source_round3 :
  Gen.C18.licence_store_users = ["AllLightNodeClientLicenses:IterAll"; "CreateLightNodeClientAccount:Delete";
                                 "GetLightNodeClientLicense:Load"; "SetLightNodeClientLicense:Save"]%string /\
  Gen.C18.licence_list_callers = ["ExportGenesis"; "GetLegacyLightNodeClients"; "GetLightNodeClientLicenses"]%string /\
  Gen.C18.paloma_pagination_sites = ["GetLegacyLightNodeClients:PageRequest"]%string /\
  Gen.C18.iterall_loops = []%string /\ Gen.C18.iterall_breaks = 0 /\ Gen.C18.iterall_calls = ["IterAllFnc"]%string /\
  Gen.C18.iterallfnc_loops = ["for ; iterator.Valid(); iterator.Next()"]%string /\
  Gen.C18.iterallfnc_breaks = 0 /\ Gen.C18.iterallfnc_calls = ["Iterator"]%string /\
  Gen.C18.ante_declared_before_loop = ["msgs"; "err"]%string /\
  Gen.C18.ante_declared_per_message = ["m"; "ok"; "creator"; "signers"; "signedByCreator"; "grants"; "err";
                                       "grantsLkUp"; "grantees"; "v"; "found"]%string /\
  Gen.C18.max_nested_depth = 6.
Proof. vm_compute. repeat split; reflexivity. Qed.

(** ================= 11. round 5: whole transactions through the decorator ================= *)

Lemma run_msgs_ok ms : forall s s', run_msgs s ms = (s', Ok) -> s' = run s (tx_ops ms).
Proof.
  induction ms as [|m r IH]; intros s s' H; cbn in H; [inversion H; reflexivity|].
  destruct (body_step s (tm_body m)) as [s1 o] eqn:E. destruct o; try (inversion H; fail).
  apply IH in H. subst s'. unfold tx_ops. cbn [flat_map]. fold (tx_ops r).
  unfold body_step in E. destruct (tm_body m) as [o|c].
  - cbn [app]. unfold run at 2. cbn [fold_left]. rewrite E. reflexivity.
  - destruct (str_valid c); inversion E; subst. reflexivity.
Qed.

Lemma ante_msgs_all s ms : ante_msgs s ms = Ok -> forall m, In m ms -> authorised s m = Ok.
Proof.
  induction ms as [|m r IH]; cbn; intros H x Hin; [contradiction|].
  destruct (authorised s m) eqn:E; try discriminate. destruct Hin as [<-|Hin]; auto.
Qed.

Lemma ante_all s ms : ante s ms = Ok ->
  forall m, In m ms -> authorised s m = Ok /\ tm_nest m <= Gen.C18.max_nested_depth.
Proof.
  unfold ante. destruct (existsb _ ms) eqn:E; [discriminate|]. intros H m Hin.
  split; [now apply (ante_msgs_all s ms)|].
  destruct (Z_le_gt_dec (tm_nest m) Gen.C18.max_nested_depth) as [Hle|Hgt]; [exact Hle|].
  exfalso. assert (Ex : existsb (fun m0 => Gen.C18.max_nested_depth <? tm_nest m0) ms = true).
  { apply existsb_exists. exists m. split; [exact Hin | apply Z.ltb_lt; lia]. }
  congruence.
Qed.

(** a transaction either changes nothing, or every message was authorised by the decorator on the
    state before the transaction and the result is the plain operations run in order *)
Theorem deliver_tx_cases s ms :
  (fst (deliver_tx s ms) = s /\ snd (deliver_tx s ms) <> Ok) \/
  (snd (deliver_tx s ms) = Ok /\ fst (deliver_tx s ms) = run s (tx_ops ms) /\
   forall m, In m ms -> authorised s m = Ok /\ tm_nest m <= Gen.C18.max_nested_depth).
Proof.
  unfold deliver_tx. destruct (ante s ms) eqn:Ea; try (left; cbn; split; [reflexivity | discriminate]).
  unfold atomically. destruct (run_msgs s ms) as [s' o] eqn:Er.
  destruct o; try (left; cbn; split; [reflexivity | discriminate]).
  right. cbn. split; [reflexivity|]. split; [now apply run_msgs_ok | now apply ante_all].
Qed.

(** C18 clause 3 at transaction level: a transaction that goes through and contains the
    activation of [who]'s licence carries, for that message, the signature of [who] itself (the
    creator string being the canonical spelling of a signer) or of an address to which [who] has
    granted a fee allowance — whatever else the transaction contains, and whoever signed the rest *)
Theorem activation_only_by_licensee_tx_thm : forall (s : state) (ms : list tmsg) (m : tmsg) (who : key),
  snd (deliver_tx s ms) = Ok -> In m ms -> tm_body m = TOp (Register who) ->
  (snd who = false /\ In (fst who) (tm_signers m)) \/
  (exists x, In x (tm_signers m) /\ grants s (fst who) x = true).
Proof.
  intros s ms m who Hok Hin Hb.
  destruct (deliver_tx_cases s ms) as [[_ H]|(_ & _ & Ha)]; [contradiction|].
  destruct (Ha m Hin) as [Ha' _]. clear Ha. rename Ha' into Ha. unfold authorised in Ha. rewrite Hb in Ha. cbn [tm_creator] in Ha.
  destruct (signed_by_creator who (tm_signers m)) eqn:E1.
  - left. unfold signed_by_creator in E1. apply andb_true_iff in E1 as [E1 E3]. apply andb_true_iff in E1 as [E1 _].
    apply negb_true_iff in E1. split; [exact E1|].
    apply existsb_exists in E3 as (x & Hx & Ex). apply Z.eqb_eq in Ex. now subst.
  - destruct (negb (str_valid who)); [discriminate|].
    destruct (signed_by_grantee s who (tm_signers m)) eqn:E2; [|discriminate].
    right. unfold signed_by_grantee in E2. apply existsb_exists in E2 as (x & Hx & Ex). eauto.
Qed.

(** the invariants over histories of extended operations AND transactions *)
Lemma run_funders_ne ops : forall s, inv_struct s -> funders s <> Some [] -> funders (run s ops) <> Some [].
Proof.
  induction ops as [|o r IH]; intros s Hs Hf; [exact Hf|]. cbn. apply IH; [now apply step_struct|].
  apply step_funders_ne; auto. apply Hs.
Qed.

Lemma hstep_inv s h : xinv s -> hop_wf h -> xinv (fst (hstep s h)).
Proof.
  intros Hi Hwf. destruct h as [x|ms]; cbn [hstep].
  - now apply xstep_inv.
  - destruct (deliver_tx_cases s ms) as [[E _]|(_ & E & _)]; rewrite E; [exact Hi|].
    destruct Hi as [Hinv Hf]. split; [apply run_inv; auto | apply run_funders_ne; auto; apply Hinv].
Qed.

Lemma hrun_inv hs : forall s, xinv s -> Forall hop_wf hs -> xinv (hrun s hs).
Proof.
  induction hs as [|h r IH]; intros s Hi Hwf; [assumption|].
  inversion Hwf; subst. cbn. apply IH; auto. now apply hstep_inv.
Qed.

Theorem escrow_over_transactions_thm : forall (s0 : state) (hs : list hop),
  xinv s0 -> Forall hop_wf hs ->
  let s := hrun s0 hs in
  (forall d, bal s escrow d = lic_sum d (lics s) + gifts s d /\ lic_sum d (lics s) <= bal s escrow d) /\
  NoDup (lic_ids (lics s)) /\
  (forall k l, In (k, l) (lics s) -> acct s (fst k) = Some Base /\ 0 < l_amount l).
Proof.
  intros s0 hs Hi Hwf s. pose proof (hrun_inv hs s0 Hi Hwf) as [[Hs [Hb Hg Hf]] _]. fold s in Hs, Hb, Hg.
  split; [|split].
  - intros d. split; [apply Hb|]. rewrite Hb. specialize (Hg d). lia.
  - apply Hs.
  - intros k l Hin. destruct (is_lic _ Hs k l Hin) as (Ha & Hp & _). auto.
Qed.

(** non-vacuity: the stranger's two-message transaction is refused; the licensee's own and its
    fee-grantee's go through *)
Example ex_tx :
  let s := run ex_s0 (firstn 4 ex_ops) in                     (* address 3 holds a licence *)
  let forged := [ {| tm_signers := [5]; tm_nest := 0; tm_body := TStatus (5, false) |};
                  {| tm_signers := [5]; tm_nest := 0; tm_body := TOp (Register (3, false)) |} ] in
  let own := [ {| tm_signers := [5]; tm_nest := 0; tm_body := TStatus (5, false) |};
               {| tm_signers := [3]; tm_nest := 0; tm_body := TOp (Register (3, false)) |} ] in
  let s1 := fst (step s (Grant 3 5)) in
  let deep n := [ {| tm_signers := [5]; tm_nest := n; tm_body := TOp (Register (3, false)) |} ] in
  let own_deep n := [ {| tm_signers := [3]; tm_nest := n; tm_body := TOp (Register (3, false)) |} ] in
  deliver_tx s (deep 1) = (s, Err EUnauthorized) /\ deliver_tx s (deep 6) = (s, Err EUnauthorized) /\
  deliver_tx s (deep 7) = (s, Err EUnauthorized) /\ deliver_tx s (deep 9) = (s, Err EUnauthorized) /\
  snd (deliver_tx s (own_deep 6)) = Ok /\ deliver_tx s (own_deep 7) = (s, Err EUnauthorized) /\
  deliver_tx s forged = (s, Err EUnauthorized) /\
  snd (deliver_tx s own) = Ok /\ lics (fst (deliver_tx s own)) = [] /\
  snd (deliver_tx s1 forged) = Ok.
Proof. vm_compute. repeat split; reflexivity. Qed.
