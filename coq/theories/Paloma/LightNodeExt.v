(** C18, second round — what the first model left out.  Definitions only (proofs: LightNodeExtProofs.v).

    1. Fault injection.  The x/paloma keeper reaches x/auth, x/bank and x/feegrant through three
       interfaces (types.AccountKeeper, types.BankKeeper, types.FeegrantKeeper).  [create_licence_f],
       [activate_f], [sale_licence_f] are the three keeper functions with every call through those
       interfaces made explicit, in source order, and a counter [n]: the n-th call (counted from the
       start of the operation) fails — by returning an error where the method can return one and the
       fault kind is [FErr], by panicking otherwise; [n <= 0] means no fault.  The third component
       of the result is the counter that is left ([- result] = number of calls made when [n = 0]).
         CreateLightNodeClientLicense : AddressCodec, HasAccount, NewAccount, SetAccount,
                                        SendCoinsFromAccountToModule
         CreateLightNodeClientAccount : AddressCodec, GetAccount, SetAccount, SendCoinsFromModuleToAccount
         CreateSaleLightNodeClientLicense : HasBalance (once per configured funder — the loop has no
                                        break), the five of the licence creation, AddressCodec, GrantAllowance
       A failing proxy fails BEFORE forwarding the call (the collaborator did nothing).
    2. MsgSetLegacyLightNodeClients ([set_legacy_f]) and genesis export / import ([export_genesis],
       [init_genesis]).
    3. The attestation machinery around an attested sale ([try_sale]): TryAttestation marks the
       attestation observed and moves the nonce cursor on the end blocker's own context, then
       processAttestation runs the handler on a cache context; an error is logged and swallowed, a
       panic unwinds to the recover of skyway's EndBlocker — in both cases the cache context is dropped. *)
From Coq Require Import List ZArith Bool.
From Paloma Require Import Base.Dec Paloma.LightNode.
From Paloma Require Gen.C18.
Import ListNotations.
Open Scope Z_scope.

Inductive fkind := FErr | FPanic.

Definition hit (n : Z) : bool := n =? 1.
Definition injected (kd : fkind) : outcome := match kd with FErr => Err EInjected | FPanic => Panic end.

Definition base_added (s : state) (a : addr) : state := set_acct s (upd1 (acct s) a (Some Base)).
Definition vesting_set (s : state) (a : addr) (l : licence) : state :=
  set_acct s (upd1 (acct s) a (Some (Vesting (now s) (add_months (now s) (l_months l)) (l_amount l) (l_denom l)))).
Definition add_grant_to (s : state) (g e : addr) : state :=
  set_grants s (fun a b => if (a =? g) && (b =? e) then true else grants s a b).

Definition fres := (state * outcome * Z)%type.

(** keeper.CreateLightNodeClientLicense *)
Definition create_licence_f (kd : fkind) (n : Z) (creator client : key) (d : denom) (amt months : Z) (s : state) : fres :=
  if negb (str_valid creator) then (s, Err EInvalidAddr, n)
  else if (d <? 0) || (amt <? 0) then (s, Err EInvalidParams, n)
  else match lic_get (lics s) client with
  | Some _ => (s, Err ELicenseExists, n)
  | None =>
    if hit n then (s, Panic, 0)                                         (* 1 accountKeeper.AddressCodec() *)
    else if negb (str_valid client) then (s, Err EInvalidAddr, n - 1)
    else if hit (n - 1) then (s, Panic, 0)                              (* 2 HasAccount *)
    else match acct s (fst client) with
    | Some _ => (s, Err EAccountExists, n - 2)
    | None =>
      if hit (n - 2) || hit (n - 3) then (s, Panic, 0)                  (* 3 NewAccount  4 SetAccount *)
      else
        let s1 := base_added s (fst client) in
        if hit (n - 4) then (s1, injected kd, 0)                        (* 5 SendCoinsFromAccountToModule *)
        else match send s1 (fst creator) escrow d amt with
        | inr e => (s1, Err e, n - 5)
        | inl s2 =>
          (set_lics s2 ((client, {| l_denom := d; l_amount := amt; l_months := months |}) :: lics s2), Ok, n - 5)
        end
    end
  end.

(** keeper.CreateLightNodeClientAccount *)
Definition activate_f (kd : fkind) (n : Z) (who : key) (s : state) : fres :=
  match lic_get (lics s) who with
  | None => (s, Err ENoLicense, n)
  | Some l =>
    let fin := add_months (now s) (l_months l) in
    if hit n then (s, Panic, 0)                                         (* 1 accountKeeper.AddressCodec() *)
    else if negb (str_valid who) then (s, Err EInvalidAddr, n - 1)
    else if hit (n - 1) then (s, Panic, 0)                              (* 2 GetAccount *)
    else match acct s (fst who) with
    | Some Base =>
      if (fin <? 0) || (l_amount l <=? 0) then (s, Err EVesting, n - 2)
      else if hit (n - 2) then (s, Panic, 0)                            (* 3 SetAccount *)
      else
        let s1 := vesting_set s (fst who) l in
        if hit (n - 3) then (s1, injected kd, 0)                        (* 4 SendCoinsFromModuleToAccount *)
        else if fst who =? escrow then (s1, Err EUnauthorized, n - 4)
        else match send s1 escrow (fst who) (l_denom l) (l_amount l) with
        | inr e => (s1, Err e, n - 4)
        | inl s2 =>
          let s3 := set_lics s2 (lic_del (lics s2) who) in
          (set_clients s3 (updk (clients s3) who (Some (now s, now s))), Ok, n - 4)
        end
    | _ => (s, Err ENoAccount, n - 2)
    end
  end.

(** keeper.CreateSaleLightNodeClientLicense *)
Definition sale_licence_f (kd : fkind) (n : Z) (client : key) (amount : Z) (s : state) : fres :=
  let amt := amount * Gen.C18.sale_multiplier in
  if (amount <? 0) || (two256 <=? Z.abs amt) then (s, Panic, n)
  else match feegranter s with
  | None => (s, Err ENoFeegranter, n)
  | Some g =>
    match funders s with
    | None => (s, Err ENoFunder, n)
    | Some [] => (s, Err ENoFunder, n)
    | Some fs =>
      let nf := Z.of_nat (List.length fs) in
      if (1 <=? n) && (n <=? nf) then (s, Panic, 0)                     (* HasBalance, once per funder *)
      else match pick_funder s fs amt with
      | None => (s, Err EInsufficientBalance, n - nf)
      | Some f =>
        match create_licence_f kd (n - nf) (f, false) client bond amt Gen.C18.sale_vesting_months s with
        | (s1, Ok, n1) =>
          if hit n1 then (s1, Panic, 0)                                 (* accountKeeper.AddressCodec() *)
          else if negb (str_valid client) then (s1, Err EInvalidAddr, n1 - 1)
          else if hit (n1 - 1) then (s1, injected kd, 0)                (* GrantAllowance *)
          else if grants s1 g (fst client) then (s1, Err EGrantExists, n1 - 2)
          else (add_grant_to s1 g (fst client), Ok, n1 - 2)
        | r => r
        end
      end
    end
  end.

(** attestation_handler.handleLightNodeSale (the contract table is skyway's own store) *)
Definition handle_sale_f (kd : fkind) (n : Z) (chain contract : Z) (client : key) (amount : Z) (s : state) : fres :=
  match contracts s chain with
  | None => (s, Err ENoContract, n)
  | Some c => if c =? contract then sale_licence_f kd n client amount s else (s, Err EWrongContract, n)
  end.

(** msg server SetLegacyLightNodeClients: every grantee of the light-node fee granter that has
    neither a client record nor a licence (both looked up under the grantee's canonical, lower-case
    string) gets a client record dated now.  One collaborator call: AllowancesByGranter (one page). *)
Definition legacy_clients (s : state) (g : addr) : key -> option (Z * Z) :=
  fun k => match clients s k with
           | Some c => Some c
           | None =>
             if negb (snd k) && str_valid k && grants s g (fst k)
                && match lic_get (lics s) k with None => true | Some _ => false end
             then Some (now s, now s) else None
           end.

Definition set_legacy_f (kd : fkind) (n : Z) (s : state) : fres :=
  match feegranter s with
  | None => (s, Ok, n)
  | Some g => if hit n then (s, injected kd, 0) else (set_clients s (legacy_clients s g), Ok, n - 1)
  end.

(** the raw (un-wrapped) keeper function behind an operation, with a fault *)
Definition raw_f (kd : fkind) (n : Z) (o : op) (s : state) : option fres :=
  match o with
  | AddLicence creator client d amt months => Some (create_licence_f kd n creator client d amt months s)
  | Register who => Some (activate_f kd n who s)
  | Sale chain contract client amount => Some (handle_sale_f kd n chain contract client amount s)
  | _ => None
  end.

(** the operation as the chain runs it (per-message branch / attestation cache context), with a fault *)
Definition fstep (kd : fkind) (n : Z) (s : state) (o : op) : state * outcome :=
  match o with
  | AddLicence creator client d amt months =>
      atomically (fun s0 => fst (create_licence_f kd n creator client d amt months s0)) s
  | Register who => atomically (fun s0 => fst (activate_f kd n who s0)) s
  | Sale chain contract client amount =>
      atomically (fun s0 => fst (handle_sale_f kd n chain contract client amount s0)) s
  | _ => step s o
  end.

(** ---- genesis ---- *)
Record genesis := {
  g_lics : list (key * licence);           (* LightNodeClientLicenses, in the order of the file *)
  g_feegranter : option addr;
  g_funders : option (list addr);
  g_clients : key -> option (Z * Z) }.

(** ExportGenesis.  The licence store is a map; the model keeps it as a list and exports it in
    the order in which InitGenesis rebuilds the same list (the real order — sorted by key — is not
    observable through the keeper's getters). *)
Definition export_genesis (s : state) : genesis :=
  {| g_lics := rev (lics s); g_feegranter := feegranter s; g_funders := funders s; g_clients := clients s |}.

(** InitGenesis on an empty x/paloma store: SetLightNodeClientLicense per entry (keyed save: a
    later entry for the same string replaces an earlier one), fee granter, funders (an empty
    list reads back as absent), client records.  [s] carries the other modules' state. *)
Definition import_lics (l : list (key * licence)) : list (key * licence) :=
  fold_left (fun acc p => p :: lic_del acc (fst p)) l [].

Definition init_genesis (g : genesis) (s : state) : state :=
  set_clients
    (set_funders
       (set_feegranter (set_lics s (import_lics (g_lics g))) (g_feegranter g))
       (match g_funders g with Some [] => None | x => x end))
    (g_clients g).

(** ---- extended operations ---- *)
Inductive xop :=
| XOp (o : op)                                (* as before, no fault *)
| XFault (n : Z) (kd : fkind) (o : op)        (* the n-th collaborator call of o fails *)
| XSetLegacy (n : Z) (kd : fkind)             (* MsgSetLegacyLightNodeClients (n <= 0: no fault) *)
| XGenesis.                                   (* ExportGenesis, wipe the x/paloma store, InitGenesis *)

Definition xstep (s : state) (x : xop) : state * outcome :=
  match x with
  | XOp o => step s o
  | XFault n kd o => fstep kd n s o
  | XSetLegacy n kd => atomically (fun s0 => fst (set_legacy_f kd n s0)) s
  | XGenesis => (init_genesis (export_genesis s) s, Ok)
  end.

Definition xrun (s : state) (xs : list xop) : state := fold_left (fun s x => fst (xstep s x)) xs s.

Fixpoint xtrace (s : state) (xs : list xop) : list (xop * outcome) :=
  match xs with
  | [] => []
  | x :: r => let '(s', out) := xstep s x in (x, out) :: xtrace s' r
  end.

(** the plain operation an extended one is an instance of *)
Definition xop_base (x : xop) : option op :=
  match x with XOp o => Some o | XFault _ _ o => Some o | _ => None end.

(** what the raw keeper function leaves behind on the branch it ran on (for the correspondence:
    the harness runs the same function on a throw-away branch and looks at it before dropping it) *)
Definition xraw (s : state) (x : xop) : option fres :=
  match x with
  | XOp o => raw_f FErr 0 o s
  | XFault n kd o => raw_f kd n o s
  | XSetLegacy n kd => Some (set_legacy_f kd n s)
  | XGenesis => None
  end.

(** message fields are typed: VestingMonths is a uint32 *)
Definition op_typed (o : op) : Prop :=
  match o with
  | AddLicence _ _ _ _ months => 0 <= months < 4294967296
  | _ => True
  end.
Definition xop_wf (x : xop) : Prop :=
  match xop_base x with Some o => op_wf o | None => True end.
Definition xop_typed (x : xop) : Prop :=
  match xop_base x with Some o => op_typed o | None => True end.

(** ---- the attestation machinery around an attested sale ---- *)
Record oracle := {
  o_last : Z -> Z;                 (* last observed skyway nonce, per chain *)
  o_observed : list (Z * Z) }.     (* (chain, nonce) of the attestations marked observed *)

Definition oracle_advance (o : oracle) (chain nonce : Z) : oracle :=
  {| o_last := upd1 (o_last o) chain nonce; o_observed := (chain, nonce) :: o_observed o |}.

(** attestationTally -> TryAttestation (quorum reached) -> processAttestation -> handler, inside
    skyway's EndBlocker (deferred recover).  Result [Panic] = the end blocker stopped here. *)
Definition try_sale (chain nonce contract : Z) (client : key) (amount : Z) (a : oracle * state)
  : (oracle * state) * outcome :=
  let '(o, s) := a in
  if nonce =? o_last o chain + 1 then
    let o1 := oracle_advance o chain nonce in      (* written before the handler runs, not on the cache context *)
    match handle_sale_raw chain contract client amount s with
    | (s', Ok) => ((o1, s'), Ok)                   (* commit() *)
    | (_, Err _) => ((o1, s), Ok)                  (* logged; processAttestation returns nil *)
    | (_, Panic) => ((o1, s), Panic)               (* recovered in EndBlocker; cache context never committed *)
    end
  else (a, Err ENotFound).                         (* attestationTally does not call TryAttestation *)

(** ---- whole transactions through the signature-authorisation decorator (round 5) ----
    x/paloma/ante.go VerifyAuthorisedSignatureDecorator runs once per transaction, before any
    message: for EVERY message that carries metadata, metadata.creator must be one of the message's
    signers (compared as strings: the signer's canonical spelling against the creator as written) or
    one of the signers must hold a fee allowance granted by the creator.  The messages then run one
    after the other on the transaction's branch, which is written back only if all succeed.
    [tm_signers] are the addresses whose signatures the transaction carries for this message (the
    SDK's signature verification, trusted, makes metadata.signers real signers). *)
Inductive tbody :=
| TOp (o : op)                 (* AddLicence / Register / Auth *)
| TStatus (creator : key).     (* MsgAddStatusUpdate: carries metadata, has no effect on this state *)

(** [tm_nest]: the message sits inside that many authz.MsgExec, each with the message's (single)
    signer as grantee — x/authz then runs it without any grant.  The decorator flattens the nesting
    and checks nested messages like top-level ones; a transaction that nests deeper than
    maxNestedMsgDepth is refused as a whole. *)
Record tmsg := { tm_signers : list addr; tm_nest : Z; tm_body : tbody }.

Definition tm_creator (b : tbody) : option key :=
  match b with
  | TOp (AddLicence c _ _ _ _) => Some c
  | TOp (Register w) => Some w
  | TOp (Auth w) => Some w
  | TStatus c => Some c
  | TOp _ => None
  end.

Definition signed_by_creator (c : key) (signers : list addr) : bool :=
  negb (snd c) && str_valid c && existsb (Z.eqb (fst c)) signers.
Definition signed_by_grantee (s : state) (c : key) (signers : list addr) : bool :=
  existsb (fun x => grants s (fst c) x) signers.

Definition authorised (s : state) (m : tmsg) : outcome :=
  match tm_creator (tm_body m) with
  | None => Ok
  | Some c =>
    if signed_by_creator c (tm_signers m) then Ok
    else if negb (str_valid c) then Err EInvalidAddr         (* AllowancesByGranter cannot parse the granter *)
    else if signed_by_grantee s c (tm_signers m) then Ok
    else Err EUnauthorized
  end.

Fixpoint ante_msgs (s : state) (ms : list tmsg) : outcome :=
  match ms with
  | [] => Ok
  | m :: r => match authorised s m with Ok => ante_msgs s r | e => e end
  end.

Definition ante (s : state) (ms : list tmsg) : outcome :=
  if existsb (fun m => Gen.C18.max_nested_depth <? tm_nest m) ms then Err EUnauthorized   (* flattenMsgs refuses *)
  else ante_msgs s ms.

Definition body_step (s : state) (b : tbody) : state * outcome :=
  match b with
  | TOp o => step s o
  | TStatus c => if str_valid c then (s, Ok) else (s, Err EInvalidAddr)
  end.

Fixpoint run_msgs (s : state) (ms : list tmsg) : state * outcome :=
  match ms with
  | [] => (s, Ok)
  | m :: r => match body_step s (tm_body m) with
              | (s', Ok) => run_msgs s' r
              | (_, o) => (s, o)
              end
  end.

Definition deliver_tx (s : state) (ms : list tmsg) : state * outcome :=
  match ante s ms with
  | Ok => atomically (fun s0 => run_msgs s0 ms) s
  | e => (s, e)
  end.

(** the plain operations of a transaction *)
Definition tx_ops (ms : list tmsg) : list op :=
  flat_map (fun m => match tm_body m with TOp o => [o] | TStatus _ => [] end) ms.

(** histories of extended operations and transactions *)
Inductive hop := HX (x : xop) | HTx (ms : list tmsg).
Definition hstep (s : state) (h : hop) : state * outcome :=
  match h with HX x => xstep s x | HTx ms => deliver_tx s ms end.
Definition hrun (s : state) (hs : list hop) : state := fold_left (fun s h => fst (hstep s h)) hs s.
Definition hop_wf (h : hop) : Prop :=
  match h with HX x => xop_wf x | HTx ms => Forall op_wf (tx_ops ms) end.
