(** C18 — proofs about the light-node licence model (LightNode.v). *)
From Coq Require Import List ZArith Bool Lia.
From Paloma Require Import Base.Dec Paloma.LightNode.
Import ListNotations.
Open Scope Z_scope.

(** ---- atomicity ---- *)
Lemma atomically_fail f s : snd (atomically f s) <> Ok -> fst (atomically f s) = s.
Proof.
  unfold atomically. destruct (f s) as [s' o]. destruct o; simpl; intros H; try reflexivity.
  now elim H.
Qed.

Lemma atomically_ok f s : snd (atomically f s) = Ok -> f s = (fst (atomically f s), Ok).
Proof.
  unfold atomically. destruct (f s) as [s' o]. destruct o; simpl; intros H; try discriminate. reflexivity.
Qed.

(** every refused operation leaves the state exactly as it was *)
Lemma failed_op_is_noop s o : snd (step s o) <> Ok -> fst (step s o) = s.
Proof.
  destruct o; simpl; try apply atomically_fail; try (intros H; now elim H).
  - destruct (clients s who) as [[a l]|]; simpl; intros H; [now elim H | reflexivity].
  - destruct (send s from to d amt); simpl; intros H; [now elim H | reflexivity].
  - destruct (grants s granter grantee); simpl; intros H; [reflexivity | now elim H].
Qed.
