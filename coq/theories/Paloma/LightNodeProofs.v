(** C18 — proofs about the light-node licence model (LightNode.v). *)
From Coq Require Import List ZArith Bool Lia.
From Paloma Require Import Base.Dec Paloma.LightNode.
Import ListNotations.
Open Scope Z_scope.

(** ---- atomicity ---- *)
Lemma atomically_fail f s : snd (atomically f s) <> Ok -> fst (atomically f s) = s.
Proof.
  unfold atomically. destruct (f s) as [s' o]. destruct o; simpl; intros H; try reflexivity.
  now elim H.
Qed.

Lemma atomically_ok f s : snd (atomically f s) = Ok -> f s = (fst (atomically f s), Ok).
Proof.
  unfold atomically. destruct (f s) as [s' o]. destruct o; simpl; intros H; try discriminate. reflexivity.
Qed.

(** every refused operation leaves the state exactly as it was *)
Lemma failed_op_is_noop s o : snd (step s o) <> Ok -> fst (step s o) = s.
Proof.
  destruct o; simpl; try apply atomically_fail; try (intros H; now elim H).
  - destruct (clients s who) as [[a l]|]; simpl; intros H; [now elim H | reflexivity].
  - destruct (send s from to d amt); simpl; intros H; [now elim H | reflexivity].
  - destruct (grants s granter grantee); simpl; intros H; [reflexivity | now elim H].
Qed.

(** ---- small facts ---- *)
Lemma key_eqb_eq a b : key_eqb a b = true <-> a = b.
Proof.
  unfold key_eqb. destruct a as [x u], b as [y v]; simpl. rewrite andb_true_iff, Z.eqb_eq, Bool.eqb_true_iff.
  split; [intros [-> ->]; reflexivity | intros E; inversion E; auto].
Qed.
Lemma key_eqb_refl a : key_eqb a a = true. Proof. now apply key_eqb_eq. Qed.
Lemma key_eqb_neq a b : key_eqb a b = false <-> a <> b.
Proof.
  split.
  - intros H E. apply key_eqb_eq in E. congruence.
  - intros H. destruct (key_eqb a b) eqn:E; [apply key_eqb_eq in E; contradiction | reflexivity].
Qed.

Definition lic_ids (l : list (key * licence)) : list addr := map (fun p => fst (fst p)) l.

Lemma lic_get_In l k v : lic_get l k = Some v -> In (k, v) l.
Proof.
  induction l as [|[k' v'] r IH]; simpl; [discriminate|].
  destruct (key_eqb k' k) eqn:E.
  - intros H; inversion H; subst. apply key_eqb_eq in E; subst. now left.
  - intros H; right; auto.
Qed.

Lemma lic_get_none_notin l k : (forall v, ~ In (k, v) l) -> lic_get l k = None.
Proof.
  induction l as [|[k' v'] r IH]; simpl; intros H; [reflexivity|].
  destruct (key_eqb k' k) eqn:E.
  - apply key_eqb_eq in E; subst. exfalso. apply (H v'). now left.
  - apply IH. intros v Hv. apply (H v). now right.
Qed.

Lemma In_lic_ids l k v : In (k, v) l -> In (fst k) (lic_ids l).
Proof. intros H. unfold lic_ids. apply in_map_iff. exists (k, v). split; auto. Qed.

Lemma lic_get_none_In l k v : lic_get l k = None -> ~ In (k, v) l.
Proof.
  induction l as [|[k' v'] r IH]; simpl; intros H; [tauto|].
  destruct (key_eqb k' k) eqn:E; [discriminate|].
  intros [Hin|Hin]; [inversion Hin; subst; rewrite key_eqb_refl in E; discriminate | now apply IH].
Qed.

Lemma lic_get_id_notin l k : ~ In (fst k) (lic_ids l) -> lic_get l k = None.
Proof. intros H. apply lic_get_none_notin. intros v Hv. apply H. eapply In_lic_ids; eauto. Qed.

Lemma In_lic_del l k p : In p (lic_del l k) <-> In p l /\ fst p <> k.
Proof.
  unfold lic_del. rewrite filter_In. rewrite negb_true_iff, key_eqb_neq. tauto.
Qed.

Lemma lic_ids_del_incl l k a : In a (lic_ids (lic_del l k)) -> In a (lic_ids l).
Proof.
  unfold lic_ids. rewrite !in_map_iff. intros [p [E H]]. apply In_lic_del in H as [H _]. eauto.
Qed.

Lemma NoDup_lic_ids_del l k : NoDup (lic_ids l) -> NoDup (lic_ids (lic_del l k)).
Proof.
  induction l as [|[k' v'] r IH]; simpl; intros H; [constructor|].
  inversion H as [|x xs Hn Hd]; subst.
  destruct (negb (key_eqb k' k)); simpl; auto.
  constructor; auto. intros Hin. apply Hn. now apply lic_ids_del_incl in Hin.
Qed.

Lemma filter_all_id {A} (f : A -> bool) l : (forall x, In x l -> f x = true) -> filter f l = l.
Proof.
  induction l as [|x r IH]; simpl; intros H; [reflexivity|].
  rewrite (H x (or_introl eq_refl)). f_equal. apply IH. intros y Hy. apply H. now right.
Qed.

(** with one licence per address, deleting the licence of [k] removes exactly its amount *)
Lemma lic_sum_del d l k v : NoDup (lic_ids l) -> lic_get l k = Some v ->
  lic_sum d (lic_del l k) = lic_sum d l - (if l_denom v =? d then l_amount v else 0).
Proof.
  induction l as [|[k' v'] r IH]; simpl; [discriminate|].
  intros Hnd Hg. inversion Hnd as [|x xs Hn Hd]; subst.
  destruct (key_eqb k' k) eqn:E; simpl.
  - inversion Hg; subst. apply key_eqb_eq in E; subst.
    assert (Hr : lic_del r k = r).
    { unfold lic_del. apply filter_all_id. intros [k2 v2] Hin. simpl.
      apply negb_true_iff, key_eqb_neq. intros ->. apply Hn. eapply In_lic_ids; eauto. }
    rewrite Hr. lia.
  - rewrite IH; auto. lia.
Qed.

Lemma lic_get_del_same l k : lic_get (lic_del l k) k = None.
Proof.
  apply lic_get_none_notin. intros v H. apply In_lic_del in H as [_ H]. now apply H.
Qed.

Lemma lic_get_del_other l k k' : k' <> k -> lic_get (lic_del l k) k' = lic_get l k'.
Proof.
  intros Hne. induction l as [|[k2 v2] r IH]; simpl; [reflexivity|].
  destruct (key_eqb k2 k) eqn:E; simpl.
  - apply key_eqb_eq in E; subst. destruct (key_eqb k k') eqn:E2; [apply key_eqb_eq in E2; congruence | exact IH].
  - destruct (key_eqb k2 k'); [reflexivity | exact IH].
Qed.

(** ---- bank.SendCoins ---- *)
Definition sent_bal (s : state) (from to : addr) (d : denom) (amt : Z) : addr -> denom -> Z :=
  let bal1 := upd2 (bal s) from d (bal s from d - amt) in
  upd2 bal1 to d (bal1 to d + amt).

Lemma send_inl s from to d amt s' : send s from to d amt = inl s' ->
  0 < amt /\ amt <= bal s from d - locked s from d /\
  bal s' = sent_bal s from to d amt /\
  acct s' = (match acct s to with None => upd1 (acct s) to (Some Base) | Some _ => acct s end) /\
  now s' = now s /\ lics s' = lics s /\ clients s' = clients s /\ grants s' = grants s /\
  feegranter s' = feegranter s /\ funders s' = funders s /\ contracts s' = contracts s /\ gifts s' = gifts s.
Proof.
  unfold send. destruct (amt <=? 0) eqn:E1; [discriminate|].
  destruct (bal s from d <? locked s from d) eqn:E2; [discriminate|].
  destruct (bal s from d - locked s from d <? amt) eqn:E3; [discriminate|].
  intros H; inversion H; subst; clear H.
  apply Z.leb_gt in E1. apply Z.ltb_ge in E3.
  simpl. destruct (acct s to); simpl; repeat split; auto.
Qed.

Lemma sent_bal_other s from to d amt a d' :
  (a <> from /\ a <> to) \/ d' <> d -> sent_bal s from to d amt a d' = bal s a d'.
Proof.
  unfold sent_bal, upd2. intros H.
  destruct (a =? to) eqn:E1, (d' =? d) eqn:E2, (a =? from) eqn:E3; simpl; try reflexivity;
    try apply Z.eqb_eq in E1; try apply Z.eqb_eq in E2; try apply Z.eqb_eq in E3; subst; lia.
Qed.

Lemma sent_bal_to s from to d amt : from <> to -> sent_bal s from to d amt to d = bal s to d + amt.
Proof.
  unfold sent_bal, upd2. intros H. rewrite !Z.eqb_refl. simpl.
  destruct (to =? from) eqn:E; [apply Z.eqb_eq in E; congruence|]. simpl. reflexivity.
Qed.

Lemma sent_bal_from s from to d amt : from <> to -> sent_bal s from to d amt from d = bal s from d - amt.
Proof.
  unfold sent_bal, upd2. intros H. rewrite !Z.eqb_refl. simpl.
  destruct (from =? to) eqn:E; [apply Z.eqb_eq in E; congruence|]. simpl. reflexivity.
Qed.

Lemma sent_bal_self s a d amt : sent_bal s a a d amt a d = bal s a d.
Proof. unfold sent_bal, upd2. rewrite !Z.eqb_refl. simpl. lia. Qed.

(** ---- what a successful call did ---- *)
Definition same_config (s s' : state) : Prop :=
  now s' = now s /\ clients s' = clients s /\ feegranter s' = feegranter s /\ funders s' = funders s /\
  contracts s' = contracts s /\ gifts s' = gifts s.

Lemma locked_upd_none s a x d : acct s a = None ->
  locked (set_acct s (upd1 (acct s) a (Some Base))) x d = locked s x d.
Proof.
  intros H. unfold locked, set_acct, upd1; simpl.
  destruct (x =? a) eqn:E; [apply Z.eqb_eq in E; subst; now rewrite H | reflexivity].
Qed.

Lemma create_ok cr cl d amt m s s' :
  acct s escrow = Some Module ->
  create_licence_raw cr cl d amt m s = (s', Ok) ->
  str_valid cr = true /\ str_valid cl = true /\ 0 <= d /\
  lic_get (lics s) cl = None /\ acct s (fst cl) = None /\
  0 < amt /\ amt <= bal s (fst cr) d - locked s (fst cr) d /\
  bal s' = sent_bal s (fst cr) escrow d amt /\
  acct s' = upd1 (acct s) (fst cl) (Some Base) /\
  lics s' = (cl, {| l_denom := d; l_amount := amt; l_months := m |}) :: lics s /\
  grants s' = grants s /\ same_config s s'.
Proof.
  intros Hesc. unfold create_licence_raw.
  destruct (negb (str_valid cr)) eqn:E1; [intros H; inversion H|].
  destruct ((d <? 0) || (amt <? 0)) eqn:E2; [intros H; inversion H|].
  destruct (lic_get (lics s) cl) eqn:E3; [intros H; inversion H|].
  destruct (negb (str_valid cl)) eqn:E4; [intros H; inversion H|].
  destruct (acct s (fst cl)) eqn:E5; [intros H; inversion H|].
  destruct (send _ _ _ _ _) as [s2|e] eqn:E6; [|intros H; inversion H].
  intros H; inversion H; subst; clear H.
  apply send_inl in E6 as (Hpos & Hle & Hbal & Hacct & Hnow & Hlics & Hcl & Hgr & Hfg & Hfu & Hco & Hgi).
  apply negb_false_iff in E1, E4. apply orb_false_iff in E2 as [E2 _]. apply Z.ltb_ge in E2.
  rewrite (locked_upd_none s (fst cl)) in Hle by assumption.
  simpl in *.
  assert (Hne : fst cl <> escrow) by (intros Heq; rewrite Heq in E5; congruence).
  repeat split; auto.
  - rewrite Hacct. unfold upd1 at 1. destruct (escrow =? fst cl) eqn:E; [apply Z.eqb_eq in E; congruence|].
    rewrite Hesc. reflexivity.
  - rewrite Hlics. reflexivity.
Qed.

Lemma activate_ok who s s' :
  acct s escrow = Some Module ->
  activate_raw who s = (s', Ok) ->
  exists l, lic_get (lics s) who = Some l /\ str_valid who = true /\ acct s (fst who) = Some Base /\
    fst who <> escrow /\ 0 < l_amount l /\ l_amount l <= bal s escrow (l_denom l) /\
    bal s' = sent_bal s escrow (fst who) (l_denom l) (l_amount l) /\
    acct s' = upd1 (acct s) (fst who)
                (Some (Vesting (now s) (add_months (now s) (l_months l)) (l_amount l) (l_denom l))) /\
    lics s' = lic_del (lics s) who /\
    clients s' = updk (clients s) who (Some (now s, now s)) /\
    now s' = now s /\ grants s' = grants s /\ feegranter s' = feegranter s /\ funders s' = funders s /\
    contracts s' = contracts s /\ gifts s' = gifts s.
Proof.
  intros Hesc. unfold activate_raw.
  destruct (lic_get (lics s) who) as [l|] eqn:E1; [|intros H; inversion H].
  destruct (negb (str_valid who)) eqn:E2; [intros H; inversion H|].
  destruct (acct s (fst who)) as [[| |]|] eqn:E3;
    [ | intros H; inversion H | intros H; inversion H | intros H; inversion H ].
  destruct ((add_months (now s) (l_months l) <? 0) || (l_amount l <=? 0)) eqn:E4; [intros H; inversion H|].
  destruct (fst who =? escrow) eqn:E5; [intros H; inversion H|].
  destruct (send _ _ _ _ _) as [s2|e] eqn:E6; [|intros H; inversion H].
  intros H; inversion H; subst; clear H.
  apply send_inl in E6 as (Hpos & Hle & Hbal & Hacct & Hnow & Hlics & Hcl & Hgr & Hfg & Hfu & Hco & Hgi).
  apply negb_false_iff in E2. apply Z.eqb_neq in E5.
  exists l. cbn [now lics clients grants feegranter funders contracts gifts bal acct set_acct set_bal set_lics set_clients] in *.
  assert (Hlk : locked (set_acct s (upd1 (acct s) (fst who)
             (Some (Vesting (now s) (add_months (now s) (l_months l)) (l_amount l) (l_denom l))))) escrow (l_denom l) = 0).
  { assert (E : (escrow =? fst who) = false) by (apply Z.eqb_neq; congruence).
    unfold locked, set_acct; cbn [acct now]. unfold upd1. rewrite E. now rewrite Hesc. }
  rewrite Hlk in Hle.
  apply orb_false_iff in E4 as [_ E4]. apply Z.leb_gt in E4.
  repeat split; auto; try lia.
  - rewrite Hacct. unfold upd1 at 1. rewrite Z.eqb_refl. reflexivity.
  - rewrite Hlics. reflexivity.
  - rewrite Hcl. reflexivity.
Qed.

Lemma pick_funder_gen s amt fs : forall acc f,
  fold_left (fun acc f => if amt <=? bal s f bond then Some f else acc) fs acc = Some f ->
  (In f fs /\ amt <= bal s f bond) \/ acc = Some f.
Proof.
  induction fs as [|x r IH]; simpl; intros acc f H; [now right|].
  apply IH in H as [[Hin Hle]|H]; [left; auto|].
  destruct (amt <=? bal s x bond) eqn:E; [|now right].
  inversion H; subst. left. split; [now left | now apply Z.leb_le].
Qed.

Lemma pick_funder_some s fs amt f : pick_funder s fs amt = Some f -> In f fs /\ amt <= bal s f bond.
Proof. intros H. apply pick_funder_gen in H as [H|H]; [exact H | discriminate]. Qed.

Definition add_grant (s : state) (g e : addr) : state :=
  set_grants s (fun a b => if (a =? g) && (b =? e) then true else grants s a b).

Lemma sale_ok client amount s s' :
  sale_licence_raw client amount s = (s', Ok) ->
  0 <= amount /\ amount * Gen.C18.sale_multiplier < two256 /\
  exists g fs f s1, feegranter s = Some g /\ funders s = Some fs /\ In f fs /\
    amount * Gen.C18.sale_multiplier <= bal s f bond /\
    create_licence_raw (f, false) client bond (amount * Gen.C18.sale_multiplier) Gen.C18.sale_vesting_months s = (s1, Ok) /\
    grants s1 g (fst client) = false /\ s' = add_grant s1 g (fst client).
Proof.
  unfold sale_licence_raw.
  destruct ((amount <? 0) || (two256 <=? Z.abs (amount * Gen.C18.sale_multiplier))) eqn:E1; [intros H; inversion H|].
  destruct (feegranter s) as [g|] eqn:E2; [|intros H; inversion H].
  destruct (funders s) as [fs|] eqn:E3; [|intros H; inversion H].
  destruct fs as [|f0 fr] eqn:Efs; [intros H; inversion H|]. rewrite <- Efs in *.
  destruct (pick_funder s fs _) as [f|] eqn:E4; [|intros H; inversion H].
  destruct (create_licence_raw _ _ _ _ _ s) as [s1 o] eqn:E5.
  destruct o; try (intros H; inversion H; fail).
  destruct (negb (str_valid client)) eqn:E6; [intros H; inversion H|].
  destruct (grants s1 g (fst client)) eqn:E7; [intros H; inversion H|].
  intros H; inversion H; subst s'; clear H.
  apply orb_false_iff in E1 as [E1a E1b]. apply Z.ltb_ge in E1a. apply Z.leb_gt in E1b.
  apply pick_funder_some in E4 as [Hin Hle].
  split; [lia|]. split; [lia|].
  exists g, fs, f, s1. subst fs. repeat split; auto.
Qed.

Lemma handle_sale_ok chain contract client amount s s' :
  handle_sale_raw chain contract client amount s = (s', Ok) ->
  contracts s chain = Some contract /\ sale_licence_raw client amount s = (s', Ok).
Proof.
  unfold handle_sale_raw. destruct (contracts s chain) as [c|]; [|intros H; inversion H].
  destruct (c =? contract) eqn:E; [|intros H; inversion H].
  apply Z.eqb_eq in E; subst. auto.
Qed.

(** [step] on the three wrapped operations, when it succeeds *)
Lemma step_ok_atomically f s s' : atomically f s = (s', Ok) -> f s = (s', Ok).
Proof. unfold atomically. destruct (f s) as [s1 o]; destruct o; intros H; inversion H; reflexivity. Qed.

(** ---- invariants ---- *)
Record inv_struct (s : state) : Prop := {
  is_escrow : acct s escrow = Some Module;
  is_lic : forall k l, In (k, l) (lics s) ->
             acct s (fst k) = Some Base /\ 0 < l_amount l /\ str_valid k = true;
  is_nodup : NoDup (lic_ids (lics s)) }.

Record inv_escrow (s : state) : Prop := {
  ie_bal : forall d, bal s escrow d = lic_sum d (lics s) + gifts s d;
  ie_gifts : forall d, 0 <= gifts s d;
  ie_funders : forall fs, funders s = Some fs -> ~ In escrow fs }.

Definition inv (s : state) : Prop := inv_struct s /\ inv_escrow s.

Lemma nodup_ids_inj l k1 v1 k2 v2 : NoDup (lic_ids l) -> In (k1, v1) l -> In (k2, v2) l ->
  fst k1 = fst k2 -> (k1, v1) = (k2, v2).
Proof.
  induction l as [|[k v] r IH]; simpl; intros Hnd H1 H2 He; [contradiction|].
  inversion Hnd as [|x xs Hn Hd]; subst.
  destruct H1 as [H1|H1], H2 as [H2|H2].
  - congruence.
  - inversion H1; subst. exfalso. apply Hn. rewrite He. eapply In_lic_ids; eauto.
  - inversion H2; subst. exfalso. apply Hn. rewrite <- He. eapply In_lic_ids; eauto.
  - auto.
Qed.

(** accounts that exist are left as they are *)
Definition acct_mono (s s' : state) : Prop := forall a, acct s a <> None -> acct s' a = acct s a.

Lemma struct_same_lics s s' : inv_struct s -> acct_mono s s' -> lics s' = lics s -> inv_struct s'.
Proof.
  intros [He Hl Hn] Hm Hlics. constructor.
  - rewrite Hm; [exact He | congruence].
  - rewrite Hlics. intros k l Hin. destruct (Hl k l Hin) as (Ha & Hp & Hv). repeat split; auto.
    rewrite Hm; [exact Ha | congruence].
  - rewrite Hlics. exact Hn.
Qed.

Lemma upd1_none_mono s s' a v : acct s a = None -> acct s' = upd1 (acct s) a v -> acct_mono s s'.
Proof.
  intros Hn He x Hx. rewrite He. unfold upd1. destruct (x =? a) eqn:E; [|reflexivity].
  apply Z.eqb_eq in E; subst. contradiction.
Qed.

Lemma send_mono s from to d amt s' : send s from to d amt = inl s' -> acct_mono s s'.
Proof.
  intros H. apply send_inl in H as (_ & _ & _ & Hacct & _).
  destruct (acct s to) eqn:E.
  - intros x _. now rewrite Hacct.
  - eapply upd1_none_mono; eauto.
Qed.

Lemma create_struct cr cl d amt m s s' : inv_struct s ->
  create_licence_raw cr cl d amt m s = (s', Ok) -> inv_struct s'.
Proof.
  intros Hs H. pose proof Hs as [He Hl Hn].
  apply (create_ok _ _ _ _ _ _ _ He) in H
    as (Hvcr & Hvcl & Hd & Hnone & Hacc & Hpos & Hle & Hbal & Hacct & Hlics & Hgr & Hcfg).
  assert (Hm : acct_mono s s') by (eapply upd1_none_mono; eauto).
  constructor.
  - rewrite Hm; [exact He | congruence].
  - rewrite Hlics. intros k l [Hin|Hin].
    + inversion Hin; subst. simpl. repeat split; auto. rewrite Hacct. unfold upd1. now rewrite Z.eqb_refl.
    + destruct (Hl k l Hin) as (Ha & Hp & Hv). repeat split; auto. rewrite Hm; [exact Ha | congruence].
  - rewrite Hlics. simpl. constructor; auto.
    intros Hin. unfold lic_ids in Hin. apply in_map_iff in Hin as [[k l] [Hk Hin]]. simpl in Hk.
    destruct (Hl k l Hin) as (Ha & _). rewrite Hk in Ha. congruence.
Qed.

Lemma activate_struct who s s' : inv_struct s -> activate_raw who s = (s', Ok) -> inv_struct s'.
Proof.
  intros Hs H. pose proof Hs as [He Hl Hn].
  apply (activate_ok _ _ _ He) in H
    as (l0 & Hget & Hv & Hbase & Hne & Hpos & Hle & Hbal & Hacct & Hlics & _).
  apply lic_get_In in Hget.
  constructor.
  - rewrite Hacct. unfold upd1. destruct (escrow =? fst who) eqn:E; [apply Z.eqb_eq in E; congruence | exact He].
  - rewrite Hlics. intros k l Hin. apply In_lic_del in Hin as [Hin Hk]. simpl in Hk.
    destruct (Hl k l Hin) as (Ha & Hp & Hvk). repeat split; auto.
    rewrite Hacct. unfold upd1. destruct (fst k =? fst who) eqn:E; [|exact Ha].
    apply Z.eqb_eq in E. exfalso. apply Hk.
    pose proof (nodup_ids_inj _ _ _ _ _ Hn Hin Hget E) as Heq. now inversion Heq.
  - rewrite Hlics. now apply NoDup_lic_ids_del.
Qed.

Lemma add_grant_struct s g e : inv_struct s -> inv_struct (add_grant s g e).
Proof. intros [He Hl Hn]. constructor; simpl; auto. Qed.

Lemma step_struct s o : inv_struct s -> inv_struct (fst (step s o)).
Proof.
  intros Hs. destruct (step s o) as [s' out] eqn:E. destruct out;
    try (pose proof (failed_op_is_noop s o) as Hf; rewrite E in Hf; simpl in *; rewrite Hf; [exact Hs | discriminate]).
  simpl. destruct o; simpl in E.
  - apply step_ok_atomically in E. eapply create_struct; eauto.
  - apply step_ok_atomically in E. eapply activate_struct; eauto.
  - destruct (clients s who) as [[a l]|]; inversion E; subst. destruct Hs; constructor; simpl; auto.
  - apply step_ok_atomically in E. apply handle_sale_ok in E as [_ E].
    apply sale_ok in E as (_ & _ & g & fs & f & s1 & _ & _ & _ & _ & Hc & _ & ->).
    apply add_grant_struct. eapply create_struct; eauto.
  - destruct (send s from to d amt) as [s1|e] eqn:Es; inversion E; subst.
    pose proof (send_mono _ _ _ _ _ _ Es) as Hm.
    apply send_inl in Es as (_ & _ & _ & _ & _ & Hlics & _).
    assert (H1 : inv_struct s1) by (eapply struct_same_lics; eauto).
    destruct (to =? escrow); [destruct H1; constructor; simpl; auto | exact H1].
  - destruct (grants s granter grantee); inversion E; subst.
    apply (add_grant_struct _ granter grantee).
    destruct (acct s grantee) eqn:Ea; [exact Hs|].
    eapply struct_same_lics; eauto. eapply upd1_none_mono; eauto. reflexivity.
  - inversion E; subst. destruct Hs; constructor; simpl; auto.
  - inversion E; subst. destruct Hs; constructor; simpl; auto.
  - inversion E; subst. destruct Hs; constructor; simpl; auto.
  - inversion E; subst. destruct (dt <? 0); [exact Hs | destruct Hs; constructor; simpl; auto].
Qed.

(** ---- the escrow equation ---- *)
Lemma create_escrow cr cl d amt m s s' : inv_struct s -> inv_escrow s -> fst cr <> escrow ->
  create_licence_raw cr cl d amt m s = (s', Ok) -> inv_escrow s'.
Proof.
  intros Hs [Hb Hg Hf] Hcr H. pose proof Hs as [He Hl Hn].
  apply (create_ok _ _ _ _ _ _ _ He) in H
    as (Hvcr & Hvcl & Hd & Hnone & Hacc & Hpos & Hle & Hbal & Hacct & Hlics & Hgr & Hcfg).
  destruct Hcfg as (_ & _ & _ & Hfu & _ & Hgi).
  constructor.
  - intros d'. rewrite Hbal, Hlics, Hgi. simpl.
    destruct (d =? d') eqn:E.
    + apply Z.eqb_eq in E; subst d'. rewrite sent_bal_to by assumption. rewrite Hb. lia.
    + apply Z.eqb_neq in E. rewrite sent_bal_other by (right; congruence). rewrite Hb. lia.
  - rewrite Hgi. exact Hg.
  - rewrite Hfu. exact Hf.
Qed.

Lemma activate_escrow who s s' : inv_struct s -> inv_escrow s ->
  activate_raw who s = (s', Ok) -> inv_escrow s'.
Proof.
  intros Hs [Hb Hg Hf] H. pose proof Hs as [He Hl Hn].
  apply (activate_ok _ _ _ He) in H
    as (l0 & Hget & Hv & Hbase & Hne & Hpos & Hle & Hbal & Hacct & Hlics & Hcl & Hnow & Hgr & Hfg & Hfu & Hco & Hgi).
  constructor.
  - intros d'. rewrite Hbal, Hlics, Hgi. rewrite (lic_sum_del d' _ _ _ Hn Hget).
    destruct (l_denom l0 =? d') eqn:E.
    + apply Z.eqb_eq in E; subst d'. rewrite sent_bal_from by congruence. rewrite Hb. lia.
    + apply Z.eqb_neq in E. rewrite sent_bal_other by (right; congruence). rewrite Hb. lia.
  - rewrite Hgi. exact Hg.
  - rewrite Hfu. exact Hf.
Qed.

Lemma add_grant_escrow s g e : inv_escrow s -> inv_escrow (add_grant s g e).
Proof. intros [Hb Hg Hf]. constructor; simpl; auto. Qed.

Lemma step_escrow s o : inv_struct s -> inv_escrow s -> op_wf o -> inv_escrow (fst (step s o)).
Proof.
  intros Hs Hi Hwf. destruct (step s o) as [s' out] eqn:E. destruct out;
    try (pose proof (failed_op_is_noop s o) as Hf; rewrite E in Hf; simpl in *; rewrite Hf; [exact Hi | discriminate]).
  simpl. destruct o; simpl in E, Hwf.
  - apply step_ok_atomically in E. eapply create_escrow; eauto.
  - apply step_ok_atomically in E. eapply activate_escrow; eauto.
  - destruct (clients s who) as [[a l]|]; inversion E; subst. destruct Hi; constructor; simpl; auto.
  - apply step_ok_atomically in E. apply handle_sale_ok in E as [_ E].
    apply sale_ok in E as (_ & _ & g & fs & f & s1 & _ & Hfu & Hin & _ & Hc & _ & ->).
    apply add_grant_escrow. eapply create_escrow; eauto. simpl.
    intros ->. destruct Hi as [_ _ Hf]. exact (Hf _ Hfu Hin).
  - destruct (send s from to d amt) as [s1|e] eqn:Es; inversion E; subst. clear E.
    apply send_inl in Es as (Hpos & _ & Hbal & _ & _ & Hlics & _ & _ & _ & Hfu & _ & Hgi).
    destruct Hi as [Hb Hg Hf].
    destruct (to =? escrow) eqn:Et.
    + apply Z.eqb_eq in Et; subst to. constructor; simpl.
      * intros d'. rewrite Hbal, Hlics, Hgi. unfold upd1.
        destruct (d' =? d) eqn:E.
        -- apply Z.eqb_eq in E; subst d'. rewrite sent_bal_to by assumption. rewrite Hb. lia.
        -- apply Z.eqb_neq in E. rewrite sent_bal_other by (right; congruence). apply Hb.
      * intros d'. rewrite Hgi. unfold upd1. destruct (d' =? d) eqn:E.
        -- apply Z.eqb_eq in E; subst d'. specialize (Hg d). lia.
        -- apply Hg.
      * rewrite Hfu. exact Hf.
    + apply Z.eqb_neq in Et. constructor.
      * intros d'. rewrite Hbal, Hlics, Hgi. rewrite sent_bal_other by (left; split; congruence). apply Hb.
      * rewrite Hgi. exact Hg.
      * rewrite Hfu. exact Hf.
  - destruct (grants s granter grantee); inversion E; subst.
    apply (add_grant_escrow _ granter grantee).
    destruct (acct s grantee); [exact Hi | destruct Hi; constructor; simpl; auto].
  - inversion E; subst. destruct Hi; constructor; simpl; auto.
  - inversion E; subst. destruct Hi as [Hb Hg Hf]; constructor; simpl; auto.
    intros fs. destruct l; [discriminate|]. intros H; inversion H; subst. exact Hwf.
  - inversion E; subst. destruct Hi; constructor; simpl; auto.
  - inversion E; subst. destruct (dt <? 0); [exact Hi | destruct Hi; constructor; simpl; auto].
Qed.

Lemma run_app s a b : run s (a ++ b) = run (run s a) b.
Proof. unfold run. apply fold_left_app. Qed.

Lemma run_inv ops : forall s, inv s -> Forall op_wf ops -> inv (run s ops).
Proof.
  induction ops as [|o r IH]; intros s [Hs Hi] Hwf; [split; assumption|].
  inversion Hwf; subst. simpl. apply IH; auto.
  split; [now apply step_struct | now apply step_escrow].
Qed.

Lemma run_struct ops : forall s, inv_struct s -> inv_struct (run s ops).
Proof.
  induction ops as [|o r IH]; intros s Hs; [assumption|]. simpl. apply IH. now apply step_struct.
Qed.

Lemma lic_sum_nonneg d l : (forall k v, In (k, v) l -> 0 < l_amount v) -> 0 <= lic_sum d l.
Proof.
  induction l as [|[k v] r IH]; simpl; intros H; [lia|].
  assert (0 < l_amount v) by (eapply H; left; reflexivity).
  assert (0 <= lic_sum d r) by (apply IH; intros k' v' Hin; eapply H; right; eauto).
  destruct (l_denom v =? d); lia.
Qed.

(** gifts never shrink *)
Lemma step_gifts s o d : acct s escrow = Some Module -> gifts s d <= gifts (fst (step s o)) d.
Proof.
  intros He. destruct (step s o) as [s' out] eqn:E. destruct out;
    try (pose proof (failed_op_is_noop s o) as Hf; rewrite E in Hf; simpl in *; rewrite Hf; [lia | discriminate]).
  simpl.
  assert (Hcreate : forall cr cl d0 amt m s1, create_licence_raw cr cl d0 amt m s = (s1, Ok) -> gifts s1 = gifts s).
  { intros cr cl d0 amt m s1 Hc. apply (create_ok _ _ _ _ _ _ _ He) in Hc as (_ & _ & _ & _ & _ & _ & _ & _ & _ & _ & _ & Hcfg).
    now destruct Hcfg as (_ & _ & _ & _ & _ & Hg). }
  destruct o; simpl in E.
  - apply step_ok_atomically in E. rewrite (Hcreate _ _ _ _ _ _ E). lia.
  - apply step_ok_atomically in E. apply (activate_ok _ _ _ He) in E as (l0 & Hx).
    destruct Hx as (_ & _ & _ & _ & _ & _ & _ & _ & _ & _ & _ & _ & _ & _ & _ & Hg). rewrite Hg. lia.
  - destruct (clients s who) as [[a l]|]; inversion E; subst. simpl. lia.
  - apply step_ok_atomically in E. apply handle_sale_ok in E as [_ E].
    apply sale_ok in E as (_ & _ & g & fs & f & s1 & _ & _ & _ & _ & Hc & _ & ->). simpl.
    rewrite (Hcreate _ _ _ _ _ _ Hc). lia.
  - destruct (send s from to d0 amt) as [s1|e] eqn:Es; inversion E; subst. clear E.
    apply send_inl in Es as (Hpos & _ & _ & _ & _ & _ & _ & _ & _ & _ & _ & Hgi).
    destruct (to =? escrow); simpl; rewrite Hgi; [|lia].
    unfold upd1. destruct (d =? d0) eqn:E; [apply Z.eqb_eq in E; subst; lia | lia].
  - destruct (grants s granter grantee); inversion E; subst. simpl. destruct (acct s grantee); simpl; lia.
  - inversion E; subst. simpl. lia.
  - inversion E; subst. simpl. lia.
  - inversion E; subst. simpl. lia.
  - inversion E; subst. destruct (dt <? 0); simpl; lia.
Qed.

Lemma run_gifts ops : forall s d, inv_struct s -> gifts s d <= gifts (run s ops) d.
Proof.
  induction ops as [|o r IH]; intros s d Hs; simpl; [lia|].
  pose proof (step_gifts s o d (is_escrow _ Hs)). pose proof (IH (fst (step s o)) d (step_struct s o Hs)). lia.
Qed.

(** C18, clause 1 *)
Theorem escrow_covers_licences_thm : forall (s0 : state) (ops : list op),
  inv s0 -> Forall op_wf ops ->
  let s := run s0 ops in
  forall d, bal s escrow d = lic_sum d (lics s) + gifts s d /\
            lic_sum d (lics s) <= bal s escrow d /\
            gifts s0 d <= gifts s d /\
            (gifts s d = 0 -> bal s escrow d = lic_sum d (lics s)).
Proof.
  intros s0 ops Hi Hwf s d. pose proof (run_inv ops s0 Hi Hwf) as [Hs [Hb Hg Hf]]. fold s in Hs, Hb, Hg.
  repeat split.
  - apply Hb.
  - rewrite Hb. specialize (Hg d). lia.
  - apply run_gifts. apply Hi.
  - intros H0. rewrite Hb. lia.
Qed.

(** ---- C18, clause 2: creation guard ---- *)
Definition creates (o : op) (client : key) : Prop :=
  (exists cr d amt m, o = AddLicence cr client d amt m) \/ (exists ch c amount, o = Sale ch c client amount).

Lemma no_licence_without_account s a : inv_struct s -> acct s a = None ->
  forall up, lic_get (lics s) (a, up) = None.
Proof.
  intros [He Hl Hn] Ha up. apply lic_get_none_notin. intros v Hin.
  destruct (Hl _ _ Hin) as (Hb & _). simpl in Hb. congruence.
Qed.

Theorem licence_creation_guard_thm : forall (s s' : state) (o : op) (client : key),
  inv_struct s -> creates o client -> step s o = (s', Ok) ->
  acct s (fst client) = None /\
  (forall up, lic_get (lics s) (fst client, up) = None) /\
  (exists l, lics s' = (client, l) :: lics s /\ 0 < l_amount l) /\
  acct s' (fst client) = Some Base /\
  (forall a, a <> fst client -> acct s' a = acct s a).
Proof.
  intros s s' o client Hs Hc E. pose proof Hs as [He _ _].
  assert (Hcr : exists cr d amt m s1, create_licence_raw cr client d amt m s = (s1, Ok) /\
                  lics s' = lics s1 /\ acct s' = acct s1).
  { destruct Hc as [(cr & d & amt & m & ->)|(ch & c & amount & ->)]; simpl in E.
    - apply step_ok_atomically in E. exists cr, d, amt, m, s'. auto.
    - apply step_ok_atomically in E. apply handle_sale_ok in E as [_ E].
      apply sale_ok in E as (_ & _ & g & fs & f & s1 & _ & _ & _ & _ & Hc & _ & ->).
      exists (f, false), bond, (amount * Gen.C18.sale_multiplier), Gen.C18.sale_vesting_months, s1. auto. }
  destruct Hcr as (cr & d & amt & m & s1 & Hc1 & Hl1 & Ha1).
  apply (create_ok _ _ _ _ _ _ _ He) in Hc1
    as (_ & _ & _ & _ & Hacc & Hpos & _ & _ & Hacct & Hlics & _).
  split; [exact Hacc|]. split; [now apply no_licence_without_account|].
  split; [eexists; rewrite Hl1, Hlics; split; [reflexivity | exact Hpos]|].
  rewrite Ha1, Hacct. unfold upd1. split.
  - now rewrite Z.eqb_refl.
  - intros a Hne. destruct (a =? fst client) eqn:E1; [apply Z.eqb_eq in E1; congruence | reflexivity].
Qed.

(** in every reachable state: one licence per address, and it sits on a plain base account *)
Theorem licences_unique_on_base_accounts : forall (s0 : state) (ops : list op),
  inv_struct s0 ->
  let s := run s0 ops in
  NoDup (lic_ids (lics s)) /\
  forall k l, In (k, l) (lics s) -> acct s (fst k) = Some Base /\ 0 < l_amount l.
Proof.
  intros s0 ops Hs s. pose proof (run_struct ops s0 Hs) as [He Hl Hn]. split; [exact Hn|].
  intros k l Hin. destruct (Hl k l Hin) as (Ha & Hp & _). auto.
Qed.

(** a licence stays, untouched, until its own key registers *)
Theorem licence_persists : forall (s : state) (o : op) (k : key) (l : licence),
  acct s escrow = Some Module ->
  lic_get (lics s) k = Some l -> o <> Register k -> lic_get (lics (fst (step s o))) k = Some l.
Proof.
  intros s o k l He Hget Hne. destruct (step s o) as [s' out] eqn:E. destruct out;
    try (pose proof (failed_op_is_noop s o) as Hf; rewrite E in Hf; simpl in *; rewrite Hf; [exact Hget | discriminate]).
  simpl.
  assert (Hcreate : forall cr cl d amt m s1, create_licence_raw cr cl d amt m s = (s1, Ok) -> lic_get (lics s1) k = Some l).
  { intros cr cl d amt m s1 Hc. apply (create_ok _ _ _ _ _ _ _ He) in Hc as (_ & _ & _ & Hnone & _ & _ & _ & _ & _ & Hlics & _).
    rewrite Hlics. simpl. destruct (key_eqb cl k) eqn:Ek; [apply key_eqb_eq in Ek; subst; congruence | exact Hget]. }
  destruct o; simpl in E.
  - apply step_ok_atomically in E. eauto.
  - apply step_ok_atomically in E. apply (activate_ok _ _ _ He) in E as (l0 & _ & _ & _ & _ & _ & _ & _ & _ & Hlics & _).
    rewrite Hlics. rewrite lic_get_del_other; [exact Hget | congruence].
  - destruct (clients s who) as [[a b]|]; inversion E; subst. exact Hget.
  - apply step_ok_atomically in E. apply handle_sale_ok in E as [_ E].
    apply sale_ok in E as (_ & _ & g & fs & f & s1 & _ & _ & _ & _ & Hc & _ & ->). simpl. eauto.
  - destruct (send s from to d amt) as [s1|e] eqn:Es; inversion E; subst.
    apply send_inl in Es as (_ & _ & _ & _ & _ & Hlics & _).
    destruct (to =? escrow); simpl; rewrite Hlics; exact Hget.
  - destruct (grants s granter grantee); inversion E; subst. simpl. destruct (acct s grantee); exact Hget.
  - inversion E; subst. exact Hget.
  - inversion E; subst. exact Hget.
  - inversion E; subst. exact Hget.
  - inversion E; subst. destruct (dt <? 0); exact Hget.
Qed.

(** only the two creation operations add a licence *)
Theorem only_creation_adds_licences : forall (s : state) (o : op),
  acct s escrow = Some Module -> (forall client, ~ creates o client) ->
  incl (lics (fst (step s o))) (lics s).
Proof.
  intros s o He Hnc. destruct (step s o) as [s' out] eqn:E. destruct out;
    try (pose proof (failed_op_is_noop s o) as Hf; rewrite E in Hf; simpl in *; rewrite Hf; [apply incl_refl | discriminate]).
  simpl. destruct o; simpl in E.
  - exfalso. eapply Hnc. left. eauto.
  - apply step_ok_atomically in E. apply (activate_ok _ _ _ He) in E as (l0 & _ & _ & _ & _ & _ & _ & _ & _ & Hlics & _).
    rewrite Hlics. intros p Hp. now apply In_lic_del in Hp as [Hp _].
  - destruct (clients s who) as [[a b]|]; inversion E; subst. apply incl_refl.
  - exfalso. eapply Hnc. right. eauto.
  - destruct (send s from to d amt) as [s1|e] eqn:Es; inversion E; subst.
    apply send_inl in Es as (_ & _ & _ & _ & _ & Hlics & _).
    destruct (to =? escrow); simpl; rewrite Hlics; apply incl_refl.
  - destruct (grants s granter grantee); inversion E; subst. simpl. destruct (acct s grantee); apply incl_refl.
  - inversion E; subst. apply incl_refl.
  - inversion E; subst. apply incl_refl.
  - inversion E; subst. apply incl_refl.
  - inversion E; subst. destruct (dt <? 0); apply incl_refl.
Qed.

(** ---- C18, clauses 3 and 4: activation ---- *)
Theorem activation_moves_exact_amount_thm : forall (s s' : state) (who : key),
  acct s escrow = Some Module -> step s (Register who) = (s', Ok) ->
  exists l, lic_get (lics s) who = Some l /\
    fst who <> escrow /\ acct s (fst who) = Some Base /\
    acct s' (fst who) = Some (Vesting (now s) (add_months (now s) (l_months l)) (l_amount l) (l_denom l)) /\
    bal s' (fst who) (l_denom l) = bal s (fst who) (l_denom l) + l_amount l /\
    bal s' escrow (l_denom l) = bal s escrow (l_denom l) - l_amount l /\
    (forall a d, (a <> fst who /\ a <> escrow) \/ d <> l_denom l -> bal s' a d = bal s a d) /\
    (forall a, a <> fst who -> acct s' a = acct s a) /\
    lic_get (lics s') who = None /\
    (forall k, k <> who -> lic_get (lics s') k = lic_get (lics s) k) /\
    0 < l_amount l.
Proof.
  intros s s' who He E. simpl in E. apply step_ok_atomically in E.
  apply (activate_ok _ _ _ He) in E
    as (l & Hget & Hv & Hbase & Hne & Hpos & Hle & Hbal & Hacct & Hlics & _).
  exists l. split; [exact Hget|]. split; [exact Hne|]. split; [exact Hbase|].
  rewrite Hbal, Hacct, Hlics. repeat split.
  - unfold upd1. now rewrite Z.eqb_refl.
  - apply sent_bal_to. congruence.
  - apply sent_bal_from. congruence.
  - intros a d H. apply sent_bal_other. destruct H as [[H1 H2]|H]; [left; split; congruence | right; exact H].
  - intros a Ha. unfold upd1. destruct (a =? fst who) eqn:E1; [apply Z.eqb_eq in E1; congruence | reflexivity].
  - apply lic_get_del_same.
  - intros k Hk. now apply lic_get_del_other.
  - exact Hpos.
Qed.

(** an address whose licence has been used: it has an account and no licence under any spelling *)
Definition spent (a : addr) (s : state) : Prop :=
  acct s a <> None /\ forall k, fst k = a -> lic_get (lics s) k = None.

Lemma step_acct_some s o a : acct s escrow = Some Module -> acct s a <> None -> acct (fst (step s o)) a <> None.
Proof.
  intros He Ha. destruct (step s o) as [s' out] eqn:E. destruct out;
    try (pose proof (failed_op_is_noop s o) as Hf; rewrite E in Hf; simpl in *; rewrite Hf; [exact Ha | discriminate]).
  simpl.
  assert (Hcreate : forall cr cl d amt m s1, create_licence_raw cr cl d amt m s = (s1, Ok) -> acct s1 a <> None).
  { intros cr cl d amt m s1 Hc. apply (create_ok _ _ _ _ _ _ _ He) in Hc as (_ & _ & _ & _ & _ & _ & _ & _ & Hacct & _).
    rewrite Hacct. unfold upd1. destruct (a =? fst cl); [discriminate | exact Ha]. }
  destruct o; simpl in E.
  - apply step_ok_atomically in E. eauto.
  - apply step_ok_atomically in E. apply (activate_ok _ _ _ He) in E as (l0 & _ & _ & _ & _ & _ & _ & _ & Hacct & _).
    rewrite Hacct. unfold upd1. destruct (a =? fst who); [discriminate | exact Ha].
  - destruct (clients s who) as [[x y]|]; inversion E; subst. exact Ha.
  - apply step_ok_atomically in E. apply handle_sale_ok in E as [_ E].
    apply sale_ok in E as (_ & _ & g & fs & f & s1 & _ & _ & _ & _ & Hc & _ & ->). simpl. eauto.
  - destruct (send s from to d amt) as [s1|e] eqn:Es; inversion E; subst.
    pose proof (send_mono _ _ _ _ _ _ Es a Ha) as Hm.
    destruct (to =? escrow); simpl; rewrite Hm; exact Ha.
  - destruct (grants s granter grantee); inversion E; subst. simpl.
    destruct (acct s grantee) eqn:Eg; simpl; [exact Ha|].
    unfold upd1. destruct (a =? grantee); [discriminate | exact Ha].
  - inversion E; subst. exact Ha.
  - inversion E; subst. exact Ha.
  - inversion E; subst. exact Ha.
  - inversion E; subst. destruct (dt <? 0); exact Ha.
Qed.

Lemma step_spent s o a : inv_struct s -> spent a s -> spent a (fst (step s o)).
Proof.
  intros Hs [Ha Hn]. pose proof Hs as [He _ _]. split; [now apply step_acct_some|].
  intros k Hk.
  destruct (lic_get (lics (fst (step s o))) k) as [l|] eqn:Eg; [|reflexivity]. exfalso.
  (* the licence would have to be new: created by this very step, for an address without account *)
  destruct (step s o) as [s' out] eqn:E. simpl in Eg.
  destruct out; try (pose proof (failed_op_is_noop s o) as Hf; rewrite E in Hf; simpl in Hf;
                     rewrite Hf in Eg by discriminate; rewrite Hn in Eg by assumption; discriminate).
  assert (Hcreate : forall cr cl d amt m s1, create_licence_raw cr cl d amt m s = (s1, Ok) -> lic_get (lics s1) k = None).
  { intros cr cl d amt m s1 Hc. apply (create_ok _ _ _ _ _ _ _ He) in Hc as (_ & _ & _ & _ & Hacc & _ & _ & _ & _ & Hlics & _).
    rewrite Hlics. simpl. destruct (key_eqb cl k) eqn:Ek; [|now apply Hn].
    apply key_eqb_eq in Ek; subst cl. rewrite Hk in Hacc. contradiction. }
  pose proof (only_creation_adds_licences s o He) as Hinc. rewrite E in Hinc. simpl in Hinc.
  assert (Hgen : (forall client, ~ creates o client) -> False).
  { intros Hnc. apply lic_get_In in Eg. apply (Hinc Hnc) in Eg.
    revert Eg. apply lic_get_none_In. now apply Hn. }
  destruct o; simpl in E;
    try (apply Hgen; intros client [(cr & d' & amt' & m' & Hc)|(ch & c & am & Hc)]; discriminate).
  - apply step_ok_atomically in E. rewrite (Hcreate _ _ _ _ _ _ E) in Eg. discriminate.
  - apply step_ok_atomically in E. apply handle_sale_ok in E as [_ E].
    apply sale_ok in E as (_ & _ & g & fs & f & s1 & _ & _ & _ & _ & Hc & _ & ->). simpl in Eg.
    rewrite (Hcreate _ _ _ _ _ _ Hc) in Eg. discriminate.
Qed.

Definition activation_of (a : addr) (e : op * outcome) : bool :=
  match e with
  | (Register who, Ok) => fst who =? a
  | _ => false
  end.

Lemma trace_cons s o r : trace s (o :: r) = (o, snd (step s o)) :: trace (fst (step s o)) r.
Proof. simpl. destruct (step s o) as [s' out]. reflexivity. Qed.

Lemma spent_no_activation ops : forall s a, inv_struct s -> spent a s ->
  filter (activation_of a) (trace s ops) = [].
Proof.
  induction ops as [|o r IH]; intros s a Hs Hsp; [reflexivity|].
  rewrite trace_cons. cbn [filter].
  assert (Hno : activation_of a (o, snd (step s o)) = false).
  { destruct o; try reflexivity.
    change (activation_of a (Register who, snd (step s (Register who))))
      with (match snd (step s (Register who)) with Ok => fst who =? a | _ => false end).
    destruct (snd (step s (Register who))) eqn:Eo; try reflexivity.
    destruct (fst who =? a) eqn:Ea; [|reflexivity]. apply Z.eqb_eq in Ea. exfalso.
    destruct (step s (Register who)) as [s' out] eqn:E. simpl in Eo; subst out.
    simpl in E. apply step_ok_atomically in E.
    apply (activate_ok _ _ _ (is_escrow _ Hs)) in E as (l & Hget & _).
    destruct Hsp as [_ Hn]. rewrite (Hn who Ea) in Hget. discriminate. }
  rewrite Hno. apply IH; [now apply step_struct | now apply step_spent].
Qed.

Lemma activation_spends s s' who : inv_struct s -> step s (Register who) = (s', Ok) -> spent (fst who) s'.
Proof.
  intros Hs E. pose proof Hs as [He Hl Hn].
  simpl in E. apply step_ok_atomically in E.
  apply (activate_ok _ _ _ He) in E as (l0 & Hget & _ & _ & _ & _ & _ & _ & Hacct & Hlics & _).
  split.
  - rewrite Hacct. unfold upd1. rewrite Z.eqb_refl. discriminate.
  - intros k Hk. rewrite Hlics. apply lic_get_none_notin. intros v Hin.
    apply In_lic_del in Hin as [Hin Hne]. simpl in Hne.
    apply lic_get_In in Hget.
    pose proof (nodup_ids_inj _ _ _ _ _ Hn Hin Hget Hk) as Heq. inversion Heq. contradiction.
Qed.

(** C18, clause 3: along any history an address is activated at most once *)
Theorem activation_at_most_once_thm : forall (ops : list op) (s0 : state) (a : addr),
  inv_struct s0 -> (length (filter (activation_of a) (trace s0 ops)) <= 1)%nat.
Proof.
  induction ops as [|o r IH]; intros s0 a Hs; [simpl; lia|].
  rewrite trace_cons. cbn [filter].
  destruct (activation_of a (o, snd (step s0 o))) eqn:Ea.
  - destruct o; try discriminate.
    change (activation_of a (Register who, snd (step s0 (Register who))))
      with (match snd (step s0 (Register who)) with Ok => fst who =? a | _ => false end) in Ea.
    destruct (step s0 (Register who)) as [s' out] eqn:E. cbn [snd] in Ea. destruct out; try discriminate.
    apply Z.eqb_eq in Ea. subst a. simpl fst.
    rewrite spent_no_activation; [simpl; lia | | ].
    + pose proof (step_struct s0 (Register who) Hs) as H. now rewrite E in H.
    + eapply activation_spends; eauto.
  - apply IH. now apply step_struct.
Qed.

(** ---- C18, clause 5: the sale path ---- *)
Theorem sale_all_or_nothing_thm : forall (s : state) (chain contract : Z) (client : key) (amount : Z),
  let r := step s (Sale chain contract client amount) in
  (snd r <> Ok -> fst r = s) /\
  (acct s escrow = Some Module -> snd r = Ok ->
     contracts s chain = Some contract /\
     0 < amount /\
     exists g fs f, feegranter s = Some g /\ funders s = Some fs /\ In f fs /\
       amount * Gen.C18.sale_multiplier <= bal s f bond - locked s f bond /\
       acct s (fst client) = None /\ lic_get (lics s) client = None /\
       lics (fst r) = (client, {| l_denom := bond; l_amount := amount * Gen.C18.sale_multiplier;
                                  l_months := Gen.C18.sale_vesting_months |}) :: lics s /\
       grants s g (fst client) = false /\ grants (fst r) g (fst client) = true /\
       acct (fst r) = upd1 (acct s) (fst client) (Some Base) /\
       bal (fst r) = sent_bal s f escrow bond (amount * Gen.C18.sale_multiplier)).
Proof.
  intros s chain contract client amount r. split; [apply failed_op_is_noop|].
  intros He Hok. subst r. destruct (step s (Sale chain contract client amount)) as [s' out] eqn:E.
  simpl in Hok; subst out. simpl fst. simpl in E. apply step_ok_atomically in E.
  apply handle_sale_ok in E as [Hc E]. split; [exact Hc|].
  apply sale_ok in E as (Hnn & Hlt & g & fs & f & s1 & Hfg & Hfu & Hin & Hbalf & Hcr & Hgr & ->).
  apply (create_ok _ _ _ _ _ _ _ He) in Hcr
    as (_ & _ & _ & Hnone & Hacc & Hpos & Hle & Hbal & Hacct & Hlics & Hgr1 & _).
  simpl in Hle.
  split. { assert (0 < Gen.C18.sale_multiplier) by reflexivity. nia. }
  exists g, fs, f. repeat split; auto.
  - rewrite <- Hgr1. exact Hgr.
  - simpl. now rewrite !Z.eqb_refl.
Qed.

(** ---- C18, clause 4b: the vesting schedule (SDK formula, LegacyDec rounding) ---- *)
Section Vesting.
Local Notation P := 1000000000000000000.

Lemma cr_near d : 0 <= d -> 2 * (chop_round d * P) - P <= 2 * d <= 2 * (chop_round d * P) + P.
Proof.
  intros Hd. unfold chop_round. assert (E0 : (d <? 0) = false) by (apply Z.ltb_ge; lia). rewrite E0.
  unfold chop_round_pos, prec, half_prec.
  pose proof (Z.div_mod d P ltac:(discriminate)) as E.
  pose proof (Z.mod_pos_bound d P ltac:(reflexivity)) as B.
  destruct (d mod P =? 0) eqn:Z0.
  - apply Z.eqb_eq in Z0. lia.
  - destruct (d mod P ?= 500000000000000000) eqn:C.
    + apply Z.compare_eq in C. destruct (Z.even (d / P)); lia.
    + rewrite Z.compare_lt_iff in C. lia.
    + rewrite Z.compare_gt_iff in C. lia.
Qed.

Lemma cr_mono a b : 0 <= a <= b -> chop_round a <= chop_round b.
Proof.
  intros H. destruct (Z.eq_dec a b) as [->|Hne]; [lia|].
  pose proof (cr_near a ltac:(lia)). pose proof (cr_near b ltac:(lia)). lia.
Qed.

Lemma cr_exact k : 0 <= k -> chop_round (k * P) = k.
Proof. intros H. pose proof (cr_near (k * P) ltac:(lia)). lia. Qed.

Lemma cr_nonneg d : 0 <= d -> 0 <= chop_round d.
Proof. intros H. pose proof (cr_near d H). lia. Qed.

(** the vesting scalar s = Dec(x)/Dec(y), raw value *)
Definition scalar (x y : Z) : Z := Dec.quo (Dec.of_int x) (Dec.of_int y).

Lemma scalar_eq x y : 0 <= x -> 0 < y -> scalar x y = chop_round ((x * P * P * P) / (y * P)).
Proof.
  intros Hx Hy. unfold scalar, Dec.quo, Dec.of_int, prec. rewrite Z.quot_div_nonneg by lia. reflexivity.
Qed.

Lemma scalar_range x y : 0 <= x -> x < y -> 0 <= scalar x y <= P.
Proof.
  intros Hx Hy. rewrite scalar_eq by lia.
  assert (Hq0 : 0 <= (x * P * P * P) / (y * P)) by (apply Z.div_pos; lia).
  assert (Hq1 : (x * P * P * P) / (y * P) <= P * P).
  { apply Z.lt_le_incl. apply Z.div_lt_upper_bound; lia. }
  split; [now apply cr_nonneg|].
  apply Z.le_trans with (chop_round (P * P)); [apply cr_mono; lia | rewrite (cr_exact P) by lia; lia].
Qed.

Lemma scalar_mono x1 x2 y : 0 <= x1 <= x2 -> 0 < y -> scalar x1 y <= scalar x2 y.
Proof.
  intros Hx Hy. rewrite !scalar_eq by lia. apply cr_mono. split.
  - apply Z.div_pos; lia.
  - apply Z.div_le_mono; lia.
Qed.

Definition vest_mid (orig s : Z) : Z := Dec.chop_round (Dec.mul (Dec.of_int orig) s).

Lemma vest_mid_range orig s : 0 <= orig -> 0 <= s <= P -> 0 <= vest_mid orig s <= orig.
Proof.
  intros Ho Hs. unfold vest_mid, Dec.mul, Dec.of_int, prec.
  assert (H0 : 0 <= orig * P * s) by (apply Z.mul_nonneg_nonneg; lia).
  assert (H1 : orig * P * s <= orig * P * P) by (apply Z.mul_le_mono_nonneg_l; lia).
  assert (Hm0 : 0 <= chop_round (orig * P * s)) by now apply cr_nonneg.
  assert (Hm1 : chop_round (orig * P * s) <= orig * P).
  { apply Z.le_trans with (chop_round (orig * P * P)); [apply cr_mono; lia | rewrite (cr_exact (orig * P)) by lia; lia]. }
  split; [now apply cr_nonneg|].
  apply Z.le_trans with (chop_round (orig * P)); [apply cr_mono; lia | rewrite (cr_exact orig) by lia; lia].
Qed.

Lemma vest_mid_mono orig s1 s2 : 0 <= orig -> 0 <= s1 <= s2 -> vest_mid orig s1 <= vest_mid orig s2.
Proof.
  intros Ho Hs. unfold vest_mid, Dec.mul, Dec.of_int, prec.
  assert (H0 : 0 <= orig * P * s1) by (apply Z.mul_nonneg_nonneg; lia).
  assert (H1 : orig * P * s1 <= orig * P * s2) by (apply Z.mul_le_mono_nonneg_l; lia).
  apply cr_mono. split; [now apply cr_nonneg|]. apply cr_mono. lia.
Qed.

Lemma vested_mid st en orig t : st < t -> t < en ->
  vested st en orig t = vest_mid orig (scalar (t - st) (en - st)).
Proof.
  intros H1 H2. unfold vested.
  assert (E1 : (t <=? st) = false) by (apply Z.leb_gt; lia).
  assert (E2 : (en <=? t) = false) by (apply Z.leb_gt; lia).
  rewrite E1, E2. reflexivity.
Qed.

(** nothing is vested up to the start, everything from the end on, in between the vested amount
    stays within [0, original] and never decreases *)
Theorem vesting_schedule_thm : forall (st en orig : Z), 0 <= orig ->
  (forall t, t <= st -> vested st en orig t = 0) /\
  (forall t, st < t -> en <= t -> vested st en orig t = orig) /\
  (forall t, 0 <= vested st en orig t <= orig) /\
  (forall t t', t <= t' -> vested st en orig t <= vested st en orig t').
Proof.
  intros st en orig Ho.
  assert (A : forall t, t <= st -> vested st en orig t = 0).
  { intros t H. unfold vested. assert (E : (t <=? st) = true) by (apply Z.leb_le; lia). now rewrite E. }
  assert (B : forall t, st < t -> en <= t -> vested st en orig t = orig).
  { intros t H1 H2. unfold vested.
    assert (E1 : (t <=? st) = false) by (apply Z.leb_gt; lia).
    assert (E2 : (en <=? t) = true) by (apply Z.leb_le; lia). now rewrite E1, E2. }
  assert (C : forall t, 0 <= vested st en orig t <= orig).
  { intros t. destruct (Z_le_gt_dec t st) as [H|H]; [rewrite A by lia; lia|].
    destruct (Z_le_gt_dec en t) as [H2|H2]; [rewrite B by lia; lia|].
    rewrite vested_mid by lia. apply vest_mid_range; [lia|]. apply scalar_range; lia. }
  repeat split; auto; try apply C.
  intros t t' Hle.
  destruct (Z_le_gt_dec t st) as [H|H]; [rewrite (A t) by lia; apply C|].
  destruct (Z_le_gt_dec en t') as [H2|H2]; [rewrite (B t') by lia; apply C|].
  rewrite !vested_mid by lia. apply vest_mid_mono; [lia|]. split.
  - apply scalar_range; lia.
  - apply scalar_mono; lia.
Qed.

(** what the bank treats as locked on an activated account is original − vested *)
Lemma locked_vesting s a st en orig d :
  acct s a = Some (Vesting st en orig d) -> locked s a d = orig - vested st en orig (now s).
Proof. intros H. unfold locked. rewrite H. now rewrite Z.eqb_refl. Qed.

End Vesting.

Section VestingLinear.
Local Notation P := 1000000000000000000.
(** between start and end the vested amount is the linear share original*(t-start)/(end-start) up to
    the rounding of the SDK's 18-digit decimals: less than one unit for amounts below 10^18 *)
Theorem vesting_linear_thm st en orig t : 0 <= orig -> st < t -> t < en ->
  2 * P * P * Z.abs (vested st en orig t * (en - st) - orig * (t - st))
    <= (en - st) * (2 * orig + orig * P + P + P * P).
Proof.
  intros Ho H1 H2. rewrite vested_mid by lia.
  set (x := t - st). set (y := en - st). assert (Hx : 0 < x) by (unfold x; lia). assert (Hxy : x < y) by (unfold x, y; lia).
  clearbody x y. rewrite scalar_eq by lia.
  unfold vest_mid, Dec.mul, Dec.of_int, prec.
  set (q := x * P * P * P / (y * P)).
  assert (Hq : 0 <= x * P * P * P - q * (y * P) < y * P).
  { unfold q. pose proof (Z.div_mod (x * P * P * P) (y * P) ltac:(lia)) as E.
    pose proof (Z.mod_pos_bound (x * P * P * P) (y * P) ltac:(lia)) as B. lia. }
  assert (Hq0 : 0 <= q) by (unfold q; apply Z.div_pos; lia).
  clearbody q.
  pose proof (cr_near q Hq0) as Hc. set (S := chop_round q) in *.
  assert (HS0 : 0 <= S) by (now apply cr_nonneg). clearbody S.
  assert (Hops : 0 <= orig * P * S) by (apply Z.mul_nonneg_nonneg; lia).
  pose proof (cr_near _ Hops) as Hb. set (m := chop_round (orig * P * S)) in *.
  assert (Hm0 : 0 <= m) by (now apply cr_nonneg). clearbody m.
  pose proof (cr_near m Hm0) as Ha. set (V := chop_round m) in *. clearbody V.
  (* named error terms *)
  set (a := V * P - m). set (b := m * P - orig * P * S). set (c := S * P - q). set (e := x * P * P * P - q * (y * P)).
  assert (Ha' : - P <= 2 * a <= P) by (unfold a; lia).
  assert (Hb' : - P <= 2 * b <= P) by (unfold b; lia).
  assert (Hc' : - P <= 2 * c <= P) by (unfold c; lia).
  assert (He' : 0 <= e < y * P) by (unfold e; lia).
  assert (Eq : (V * y - orig * x) * (P * P * P) = y * P * (orig * c + b + a * P) - orig * e).
  { unfold a, b, c, e. ring. }
  clearbody a b c e.
  (* products, bounded one at a time *)
  assert (Hoc : - (orig * P) <= 2 * (orig * c) <= orig * P) by nia.
  set (oc := orig * c) in *. clearbody oc.
  set (T := oc + b + a * P) in *.
  assert (HT : - (orig * P + P + P * P) <= 2 * T <= orig * P + P + P * P) by (unfold T; lia).
  clearbody T.
  assert (HyT : - (y * (orig * P + P + P * P)) <= 2 * (y * T) <= y * (orig * P + P + P * P)) by nia.
  assert (Hoe : 0 <= orig * e <= orig * (y * P)) by nia.
  set (yT := y * T) in *. set (oe := orig * e) in *.
  replace (y * P * T) with (P * yT) in Eq by (unfold yT; ring).
  clearbody yT oe.
  set (D := V * y - orig * x) in *. clearbody D.
  replace (y * (orig * P + P + P * P)) with (y * orig * P + y * P + y * P * P) in HyT by ring.
  replace (orig * (y * P)) with (y * orig * P) in Hoe by ring.
  replace (y * (2 * orig + orig * P + P + P * P)) with (2 * (y * orig) + y * orig * P + y * P + y * P * P) by ring.
  set (yo := y * orig) in *. clearbody yo.
  lia.
Qed.
End VestingLinear.

(** ---- non-vacuity: a concrete history ---- *)
Lemma init_inv t0 b : (forall d, 0 <= b escrow d) -> inv (init t0 b).
Proof.
  intros Hb. split; constructor.
  - reflexivity.
  - intros k l [].
  - constructor.
  - intros d. cbn [init bal lics gifts lic_sum]. lia.
  - intros d. cbn [init gifts]. apply Hb.
  - cbn [init funders]. discriminate.
Qed.

Definition ex_bal : addr -> denom -> Z := fun a d => if (a =? 1) && (d =? 0) then 5000000000 else 0.
Definition ex_s0 : state := init 1700000000 ex_bal.
Definition ex_ops : list op :=
  [ SetContracts [(1, 11)]; SetFeegranter 2; SetFunders [1];
    AddLicence (1, false) (3, false) 0 1000 3;       (* address 1 pays a licence for address 3 *)
    Sale 1 11 (4, true) 7;                            (* attested sale of 7 GRAIN for address 4 *)
    Sale 1 12 (5, false) 7;                           (* wrong contract: refused *)
    Register (4, false);                              (* other spelling than the licence: refused *)
    Register (3, false); Register (3, false);         (* activation, then re-activation: refused *)
    AddLicence (1, false) (3, true) 0 10 1;           (* the address has an account now: refused *)
    Tick 3974400;                                     (* half of the three months *)
    Send 1 escrow 0 5 ].                              (* a gift *)

Example ex_inv : inv ex_s0.
Proof. apply init_inv. intros d. reflexivity. Qed.
Example ex_wf : Forall op_wf ex_ops.
Proof. repeat constructor; simpl; try discriminate; intuition discriminate. Qed.
Example ex_outcomes : map snd (trace ex_s0 ex_ops) =
  [Ok; Ok; Ok; Ok; Ok; Err EWrongContract; Err ENoLicense; Ok; Err ENoLicense; Err EAccountExists; Ok; Ok].
Proof. vm_compute. reflexivity. Qed.
Example ex_escrow :
  let s := run ex_s0 ex_ops in
  bal s escrow 0 = 7000005 /\ lic_sum 0 (lics s) = 7000000 /\ gifts s 0 = 5 /\
  lic_ids (lics s) = [4] /\ grants s 2 4 = true /\
  acct s 3 = Some (Vesting 1700000000 1707948800 1000 0) /\ bal s 3 0 = 1000 /\
  locked s 3 0 = 500 /\ bal s 1 0 = 5000000000 - 1000 - 7000000 - 5.
Proof. vm_compute. repeat split; reflexivity. Qed.
Example ex_once : length (filter (activation_of 3) (trace ex_s0 ex_ops)) = 1%nat.
Proof. vm_compute. reflexivity. Qed.
(** the raw keeper function is not atomic: refused for lack of funds, it leaves the base account behind;
    the message/attestation wrappers are what make the operation all-or-nothing *)
Example ex_raw_not_atomic :
  let r := create_licence_raw (2, false) (6, false) 0 10 1 ex_s0 in
  snd r = Err EInsufficientFunds /\ acct (fst r) 6 = Some Base /\ acct ex_s0 6 = None /\
  fst (step ex_s0 (AddLicence (2, false) (6, false) 0 10 1)) = ex_s0.
Proof. vm_compute. repeat split; reflexivity. Qed.
Example ex_vested_half : vested 1700000000 1707948800 1000 (1700000000 + 3974400) = 500 /\
  vested 0 3 10 1 = 3 /\ vested 0 3 10 2 = 7 /\ vested 5 5 10 5 = 0 /\ vested 5 5 10 6 = 10.
Proof. vm_compute. repeat split; reflexivity. Qed.
Example ex_add_months : add_months 1706745599 1 = 1709423999   (* 2024-01-31 23:59:59 + 1 month = 2024-03-02 *)
  /\ add_months 1700000000 24 = 1763158400 /\ add_months 1700000000 0 = 1700000000.
Proof. vm_compute. repeat split; reflexivity. Qed.
