(** Correspondence cases for C05.
    CSign: a queued message / batch as the harness generated it, with the exact pre-image bytes the
    real code hashes (the harness asserts in Go that keccak(pre-image) IS the real
    GetBytesToSign / GetCheckpoint output): [inner] = checkpoint(...) pre-image (valset update only),
    [cp] = the number held by keccak(inner), [outer] = what the final Keccak256 is applied to.
    [check] recomputes both byte strings with the model.
    CIds: a Put / replace / Remove history over [nq] queues of one real consensus keeper with the
    result of every call and the ids in every queue at the end; [start] = the value the shared
    counter was seeded with. *)
From Coq Require Import List ZArith Bool.
From Coq Require Import Strings.Byte.
From Paloma Require Import Base.Corr Base.Abi Base.AbiDec Evm.SignFields Evm.SignBytes Evm.MsgIds Evm.MsgIdsBatch.
Import ListNotations.
Open Scope Z_scope.

Inductive case :=
| CSign (it : item) (inner : list byte) (cp : Z) (outer : list byte)
| CIds (start nq : Z) (ops : list (op * result)) (final : list (list Z))
(* second round *)
| CDeliver (it : item) (consensus : abival) (tx : list byte)
    (* [tx]: transaction input the real VerifyAgainstTX accepted for the message (for a batch: what
       go-ethereum packs for submit_batch from the compass ABI JSON), [consensus] its first argument *)
| CIdsB (start bstart nq : Z) (ops : list (bop * bresult)) (final : list (list Z)).
    (* history over plain and BATCHED queues of one real keeper: BatchQueue.Put / ProcessBatches too *)

Definition zs_eqb : list Z -> list Z -> bool := list_eqb Z.eqb.
Definition bs_eqb : list byte -> list byte -> bool := list_eqb Byte.eqb.

Definition result_eqb (a b : result) : bool :=
  match a, b with
  | RId i, RId j => i =? j
  | ROk, ROk => true
  | RErr, RErr => true
  | _, _ => false
  end.

(** The store iterates a queue in ascending id order; the model appends.  The two agree unless the
    uint64 counter has wrapped (only reachable by seeding it), so ids are compared sorted. *)
Fixpoint insert (x : Z) (l : list Z) : list Z :=
  match l with [] => [x] | y :: r => if x <=? y then x :: l else y :: insert x r end.
Definition sort (l : list Z) : list Z := fold_right insert [] l.

Fixpoint queues_ok (s : state) (q : Z) (final : list (list Z)) : bool :=
  match final with
  | [] => true
  | l :: r => zs_eqb (sort (ids (qs s q))) l && queues_ok s (q + 1) r
  end.

Definition vals_eqb (a b : list abival) : bool := abival_eqb (VTuple a) (VTuple b).
Definition opt_vals_eqb (a : option (list abival)) (b : list abival) : bool :=
  match a with Some x => vals_eqb x b | None => false end.

Definition bresult_eqb (a b : bresult) : bool :=
  match a, b with
  | BR x, BR y => result_eqb x y
  | BStaged x, BStaged y => x =? y
  | BProcessed l ok, BProcessed l' ok' => zs_eqb l l' && Bool.eqb ok ok'
  | _, _ => false
  end.

Definition check (c : case) : bool :=
  match c with
  | CSign it inner cp outer =>
      (match kind_of it with
       | KUpdateValset => bs_eqb (checkpoint_preimage it) inner
       | _ => match inner with [] => true | _ => false end
       end)
      && bs_eqb (outer_preimage cp it) outer
      (* the model DECODER reads the real pre-image back into the model's slot values *)
      && (match kind_of it with
          | KUpload => true
          | k => opt_vals_eqb (dec_args (signature k) (skipn 4 outer)) (map (slot_val cp it) (signed_slots k))
          end)
  | CDeliver it consensus tx =>
      (match delivered_calldata consensus it with Some b => bs_eqb b tx | None => false end)
      && (match raw_slot_vals it (delivered_slots (kind_of it)) with
          | Some vs => opt_vals_eqb (dec_args (consensus_ty :: abi_sig (kind_of it)) (skipn 4 tx)) (consensus :: vs)
          | None => false
          end)
  | CIdsB start bstart nq ops final =>
      let '(s, rs) := brun_from (mkB (mkState start (fun _ => [])) bstart []) (map fst ops) in
      list_eqb bresult_eqb rs (map snd ops) && queues_ok (base s) 0 final
      && (Z.of_nat (length final) =? nq)
  | CIds start nq ops final =>
      let '(s, rs) := run_from (mkState start (fun _ => [])) (map fst ops) in
      list_eqb result_eqb rs (map snd ops) && queues_ok s 0 final
      && (Z.of_nat (length final) =? nq)
  end.
