(** Correspondence cases for C16: one case = one history driven through the REAL tokenfactory
    msg server over the REAL bank keeper (harness/c16), with the implementation's outcome class and
    the projected observables (supply, balances of every watched account, admin record, metadata
    tag — for the denoms the step concerns) after every step, and of every denom at the end.
    [check] re-runs the model on the same ops, step by step, and compares. *)
From Coq Require Import List ZArith Bool String Ascii.
From Paloma Require Import Base.Corr TokenFactory.Ledger TokenFactory.Denom TokenFactory.Factory TokenFactory.Chain.
Import ListNotations.
Open Scope Z_scope.

(** strings that are not printable ASCII are given by their byte codes *)
Definition bytes_str (l : list Z) : string :=
  fold_right (fun b s => String (ascii_of_N (Z.to_N b)) s) EmptyString l.

(** ops refer to strings by index into the case's table *)
Inductive cop :=
| KCreate (sender sub : Z)
| KMint (sender d amt : Z)
| KBurn (sender d amt : Z)
| KChangeAdmin (sender d new_admin : Z)
| KSetMeta (sender base : Z) (md_valid : bool) (tag : Z)
| KXSend (from to d x : Z)
| KXMint (to d x : Z)
| KXBurn (from d x : Z).

(** observation of one denom: denom index, supply, the NON-ZERO balances among the watched accounts
    ([B i v]: the i-th watched account holds v; every other watched account holds 0),
    admin record: 0 = none else string index + 1, metadata tag: 0 = none else tag + 1.
    (Cases files print numbers in hexadecimal: Coq parses a 78-digit decimal literal in ~12 ms.) *)
Inductive sbal := B (i v : Z).
Inductive dobs := DObs (di sup : Z) (bals : list sbal) (adm tag : Z).

(** a step: op, outcome code, returned denom (0 if none else string index + 1), observations
    (plain constructors rather than tuples: much cheaper to elaborate in a big cases file) *)
Inductive cstep := Step (k : cop) (code nd : Z) (obs : list dobs).

(** ---- second round: histories over the extended chain model (Chain.v) ---- *)

(** metadata argument of a wasm create: Base (string index), Validate(), tag *)
Inductive wmd := NoMd | Md (base : Z) (valid : bool) (tag : Z).

Inductive xcop :=
| XK (k : cop)                            (* delivered message / other actors on the bank *)
| XKRaw (k : cop)                         (* the same message to the raw msg server (message cops only) *)
| XKWCreate (ct sub : Z) (md : wmd)       (* ct: account id of the contract *)
| XKWMint (ct d x to : Z)
| XKWBurn (ct d x from : Z)
| XKWChangeAdmin (ct d na : Z)
| XKWSetMeta (ct d base : Z) (valid : bool) (tag : Z)
| XKParams (auth creator : Z) (newfee : list (Z * Z)) (valid : bool)
| XKGenesis
| XKTx (g : list (Z * Z)) (msgs : list tcop)   (* a whole transaction; g: fee grants (granter id, grantee id) *)
with tcop := TM (k : cop) (signers : list Z).  (* message cop + Metadata.Signers (string indices) *)

(** extra observations: params as read back, GetDenomsFromCreator (as a set), community pool *)
Inductive eobs :=
| EParams (fee : list (Z * Z))
| EIndex (cr : Z) (ds : list Z)
| EPool (d v : Z).

Inductive xcstep := XStep (k : xcop) (code nd : Z) (obs : list dobs) (ext : list eobs).

Inductive case :=
| CHist (strs : list string)             (* string table *)
        (book : list (Z * Z))            (* AccAddressFromBech32: (string index, account id) of the strings that parse *)
        (modtf moddistr : Z) (blocked : list Z)
        (fee : list (Z * Z))             (* (denom index, amount) *)
        (watch : list Z)                 (* account ids whose balances are observed *)
        (steps : list cstep)
        (final : list dobs)
| CHist2 (strs : list string)
         (book : list (Z * Z))
         (names : list (Z * Z))          (* AccAddress.String(): (account id, string index) *)
         (modtf moddistr : Z) (blocked : list Z)
         (fee0 : list (Z * Z))           (* genesis Params.DenomCreationFee *)
         (authority : Z)                 (* string index of keeper.authority *)
         (watch : list Z)
         (steps : list xcstep)
         (final : list dobs) (finalx : list eobs).

Definition str_at (strs : list string) (i : Z) : string := nth (Z.to_nat i) strs EmptyString.

Fixpoint book_lookup (b : list (string * Z)) (s : string) : option Z :=
  match b with
  | [] => None
  | (k, a) :: r => if String.eqb s k then Some a else book_lookup r s
  end.
Definition mk_book (strs : list string) (b : list (Z * Z)) : list (string * Z) :=
  map (fun p => (str_at strs (fst p), snd p)) b.

Definition err_code (e : err) : Z :=
  match e with
  | EValidate => 1 | ENotExist => 2 | EUnauthorized => 3 | EInvalidDenom => 4 | EExists => 5
  | EHasSupply => 6 | ENaming => 7 | EFunds => 8 | EBlocked => 9 | EAddr => 10 | EMeta => 11
  | EPanic => 12 | EBadReq => 13 | EAnte => 14
  end.

Definition to_op (strs : list string) (k : cop) : op :=
  let S := str_at strs in
  match k with
  | KCreate c sub => OMsg (MCreate (S c) (S sub))
  | KMint c d x => OMsg (MMint (S c) (S d) x)
  | KBurn c d x => OMsg (MBurn (S c) (S d) x)
  | KChangeAdmin c d na => OMsg (MChangeAdmin (S c) (S d) (S na))
  | KSetMeta c b ok tag => OMsg (MSetMeta (S c) (S b) ok tag)
  | KXSend f t d x => OXSend f t (S d) x
  | KXMint t d x => OXMint t (S d) x
  | KXBurn f d x => OXBurn f (S d) x
  end.

Fixpoint sparse_get (l : list sbal) (i : Z) : Z :=
  match l with
  | [] => 0
  | B j v :: r => if i =? j then v else sparse_get r i
  end.

Fixpoint bals_ok (l : ledger) (d : denom) (sp : list sbal) (watch : list Z) (i : Z) : bool :=
  match watch with
  | [] => true
  | a :: r => (bal l a d =? sparse_get sp i) && bals_ok l d sp r (i + 1)
  end.

Definition obs_ok (strs : list string) (watch : list Z) (s : state) (o : dobs) : bool :=
  let '(DObs di sup bals adm tag) := o in
  let d := str_at strs di in
  (supply (led s) d =? sup)
  && bals_ok (led s) d bals watch 0
  && forallb (fun b => match b with B i v => (0 <=? i) && (i <? Z.of_nat (List.length watch)) && negb (v =? 0) end) bals
  && match admin_rec s d with
     | None => adm =? 0
     | Some a => (0 <? adm) && String.eqb a (str_at strs (adm - 1))
     end
  && match meta_of s d with
     | None => tag =? 0
     | Some t => t + 1 =? tag
     end.

Fixpoint run_steps (c : cfg) (strs : list string) (watch : list Z) (s : state) (l : list cstep)
  : option state :=
  match l with
  | [] => Some s
  | Step k code nd obs :: r =>
    let '(s', out) := step_out c s (to_op strs k) in
    let ok_out :=
      match out with
      | Ok d => (code =? 0) &&
                match k with
                | KCreate _ _ => (0 <? nd) && String.eqb d (str_at strs (nd - 1))
                | _ => true
                end
      | Err e => code =? err_code e
      end in
    if ok_out && forallb (obs_ok strs watch s') obs then run_steps c strs watch s' r else None
  end.

Fixpoint names_lookup (n : list (Z * Z)) (strs : list string) (a : Z) : string :=
  match n with
  | [] => EmptyString
  | (a', si) :: r => if a =? a' then str_at strs si else names_lookup r strs a
  end.

Definition coins_at (strs : list string) (l : list (Z * Z)) : list (denom * Z) :=
  map (fun p => (str_at strs (fst p), snd p)) l.

Definition to_msg (strs : list string) (k : cop) : option msg :=
  match to_op strs k with OMsg m => Some m | _ => None end.

Definition to_xop (strs : list string) (k : xcop) : option xop :=
  let S := str_at strs in
  match k with
  | XK k' => Some (XBase (to_op strs k'))
  | XKRaw k' => match to_msg strs k' with Some m => Some (XRaw m) | None => None end
  | XKWCreate ct sub NoMd => Some (XWasm ct (WCreate (S sub) None))
  | XKWCreate ct sub (Md b v t) => Some (XWasm ct (WCreate (S sub) (Some (S b, v, t))))
  | XKWMint ct d x to => Some (XWasm ct (WMint (S d) x (S to)))
  | XKWBurn ct d x from => Some (XWasm ct (WBurn (S d) x (S from)))
  | XKWChangeAdmin ct d na => Some (XWasm ct (WChangeAdmin (S d) (S na)))
  | XKWSetMeta ct d b v t => Some (XWasm ct (WSetMeta (S d) (S b) v t))
  | XKParams a cr f v => Some (XParams (S a) (S cr) (coins_at strs f) v)
  | XKGenesis => Some XGenesis
  | XKTx _ _ => None
  end.

Fixpoint to_tx (strs : list string) (l : list tcop) : option (list tmsg) :=
  match l with
  | [] => Some []
  | TM k sg :: r =>
    match to_msg strs k, to_tx strs r with
    | Some m, Some t => Some ((m, map (str_at strs) sg) :: t)
    | _, _ => None
    end
  end.

Definition to_top (strs : list string) (k : xcop) : option top :=
  match k with
  | XKTx g l => match to_tx strs l with Some t => Some (TTx g t) | None => None end
  | _ => match to_xop strs k with Some o => Some (TOp o) | None => None end
  end.

Fixpoint coins_eqb (a b : list (denom * Z)) : bool :=
  match a, b with
  | [], [] => true
  | (d, x) :: r, (d', x') :: r' => String.eqb d d' && (x =? x') && coins_eqb r r'
  | _, _ => false
  end.

Fixpoint nodupb (l : list string) : bool :=
  match l with
  | [] => true
  | x :: r => negb (existsb (String.eqb x) r) && nodupb r
  end.

Definition eobs_ok (strs : list string) (xs : xstate) (o : eobs) : bool :=
  match o with
  | EParams f => coins_eqb (params xs) (coins_at strs f)
  | EIndex cr ds =>
    let model := denoms_of xs (str_at strs cr) in
    let seen := map (str_at strs) ds in
    (Z.of_nat (List.length seen) =? Z.of_nat (List.length model)) && nodupb seen
    && forallb (fun d => existsb (String.eqb d) model) seen
  | EPool d v => pool_of xs (str_at strs d) =? v
  end.

Definition is_create_k (k : xcop) : bool :=
  match k with
  | XK (KCreate _ _) | XKRaw (KCreate _ _) | XKWCreate _ _ _ => true
  | _ => false
  end.

Fixpoint run_xsteps (c : cfg) (str_of : acct -> string) (authority : string) (strs : list string)
  (watch : list Z) (xs : xstate) (l : list xcstep) : option xstate :=
  match l with
  | [] => Some xs
  | XStep k code nd obs ext :: r =>
    match to_top strs k with
    | None => None
    | Some o =>
      let '(xs', out) := tstep_out c str_of authority xs o in
      let ok_out :=
        match out with
        | Ok d => (code =? 0) &&
                  (if is_create_k k then (0 <? nd) && String.eqb d (str_at strs (nd - 1)) else true)
        | Err e => code =? err_code e
        end in
      if ok_out && forallb (obs_ok strs watch (st xs')) obs && forallb (eobs_ok strs xs') ext
      then run_xsteps c str_of authority strs watch xs' r else None
    end
  end.

Definition check (x : case) : bool :=
  match x with
  | CHist strs book modtf moddistr blk fee watch steps final =>
    let bk := mk_book strs book in
    let c := {| addr_of := book_lookup bk; mod_tf := modtf; mod_distr := moddistr;
                blocked := fun a => existsb (Z.eqb a) blk;
                fee := map (fun p => (str_at strs (fst p), snd p)) fee |} in
    (* the one law the theorems assume of AccAddressFromBech32 *)
    match book_lookup bk EmptyString with
    | Some _ => false
    | None =>
      match run_steps c strs watch empty_state steps with
      | None => false
      | Some s => forallb (obs_ok strs watch s) final
      end
    end
  | CHist2 strs book names modtf moddistr blk fee0 auth watch steps final finalx =>
    let bk := mk_book strs book in
    let c := {| addr_of := book_lookup bk; mod_tf := modtf; mod_distr := moddistr;
                blocked := fun a => existsb (Z.eqb a) blk; fee := [] |} in
    let str_of := names_lookup names strs in
    (* the laws assumed of bech32: "" is not an address; String() of an account parses back to it *)
    match book_lookup bk EmptyString with
    | Some _ => false
    | None =>
      forallb (fun p => match book_lookup bk (str_at strs (snd p)) with
                        | Some a => a =? fst p | None => false end) names &&
      match run_xsteps c str_of (str_at strs auth) strs watch (empty_xstate (coins_at strs fee0)) steps with
      | None => false
      | Some xs => forallb (obs_ok strs watch (st xs)) final && forallb (eobs_ok strs xs) finalx
      end
    end
  end.
