(** Correspondence cases for C16: one case = one history driven through the REAL tokenfactory
    msg server over the REAL bank keeper (harness/c16), with the implementation's outcome class and
    the projected observables (supply, balances of every watched account, admin record, metadata
    tag — for the denoms the step concerns) after every step, and of every denom at the end.
    [check] re-runs the model on the same ops, step by step, and compares. *)
From Coq Require Import List ZArith Bool String Ascii.
From Paloma Require Import Base.Corr TokenFactory.Ledger TokenFactory.Denom TokenFactory.Factory.
Import ListNotations.
Open Scope Z_scope.

(** strings that are not printable ASCII are given by their byte codes *)
Definition bytes_str (l : list Z) : string :=
  fold_right (fun b s => String (ascii_of_N (Z.to_N b)) s) EmptyString l.

(** ops refer to strings by index into the case's table *)
Inductive cop :=
| KCreate (sender sub : Z)
| KMint (sender d amt : Z)
| KBurn (sender d amt : Z)
| KChangeAdmin (sender d new_admin : Z)
| KSetMeta (sender base : Z) (md_valid : bool) (tag : Z)
| KXSend (from to d x : Z)
| KXMint (to d x : Z)
| KXBurn (from d x : Z).

(** observation of one denom: denom index, supply, the NON-ZERO balances among the watched accounts
    ([B i v]: the i-th watched account holds v; every other watched account holds 0),
    admin record: 0 = none else string index + 1, metadata tag: 0 = none else tag + 1.
    (Cases files print numbers in hexadecimal: Coq parses a 78-digit decimal literal in ~12 ms.) *)
Inductive sbal := B (i v : Z).
Inductive dobs := DObs (di sup : Z) (bals : list sbal) (adm tag : Z).

(** a step: op, outcome code, returned denom (0 if none else string index + 1), observations
    (plain constructors rather than tuples: much cheaper to elaborate in a big cases file) *)
Inductive cstep := Step (k : cop) (code nd : Z) (obs : list dobs).

Inductive case :=
| CHist (strs : list string)             (* string table *)
        (book : list (Z * Z))            (* AccAddressFromBech32: (string index, account id) of the strings that parse *)
        (modtf moddistr : Z) (blocked : list Z)
        (fee : list (Z * Z))             (* (denom index, amount) *)
        (watch : list Z)                 (* account ids whose balances are observed *)
        (steps : list cstep)
        (final : list dobs).

Definition str_at (strs : list string) (i : Z) : string := nth (Z.to_nat i) strs EmptyString.

Fixpoint book_lookup (b : list (string * Z)) (s : string) : option Z :=
  match b with
  | [] => None
  | (k, a) :: r => if String.eqb s k then Some a else book_lookup r s
  end.
Definition mk_book (strs : list string) (b : list (Z * Z)) : list (string * Z) :=
  map (fun p => (str_at strs (fst p), snd p)) b.

Definition err_code (e : err) : Z :=
  match e with
  | EValidate => 1 | ENotExist => 2 | EUnauthorized => 3 | EInvalidDenom => 4 | EExists => 5
  | EHasSupply => 6 | ENaming => 7 | EFunds => 8 | EBlocked => 9 | EAddr => 10 | EMeta => 11
  | EPanic => 12
  end.

Definition to_op (strs : list string) (k : cop) : op :=
  let S := str_at strs in
  match k with
  | KCreate c sub => OMsg (MCreate (S c) (S sub))
  | KMint c d x => OMsg (MMint (S c) (S d) x)
  | KBurn c d x => OMsg (MBurn (S c) (S d) x)
  | KChangeAdmin c d na => OMsg (MChangeAdmin (S c) (S d) (S na))
  | KSetMeta c b ok tag => OMsg (MSetMeta (S c) (S b) ok tag)
  | KXSend f t d x => OXSend f t (S d) x
  | KXMint t d x => OXMint t (S d) x
  | KXBurn f d x => OXBurn f (S d) x
  end.

Fixpoint sparse_get (l : list sbal) (i : Z) : Z :=
  match l with
  | [] => 0
  | B j v :: r => if i =? j then v else sparse_get r i
  end.

Fixpoint bals_ok (l : ledger) (d : denom) (sp : list sbal) (watch : list Z) (i : Z) : bool :=
  match watch with
  | [] => true
  | a :: r => (bal l a d =? sparse_get sp i) && bals_ok l d sp r (i + 1)
  end.

Definition obs_ok (strs : list string) (watch : list Z) (s : state) (o : dobs) : bool :=
  let '(DObs di sup bals adm tag) := o in
  let d := str_at strs di in
  (supply (led s) d =? sup)
  && bals_ok (led s) d bals watch 0
  && forallb (fun b => match b with B i v => (0 <=? i) && (i <? Z.of_nat (List.length watch)) && negb (v =? 0) end) bals
  && match admin_rec s d with
     | None => adm =? 0
     | Some a => (0 <? adm) && String.eqb a (str_at strs (adm - 1))
     end
  && match meta_of s d with
     | None => tag =? 0
     | Some t => t + 1 =? tag
     end.

Fixpoint run_steps (c : cfg) (strs : list string) (watch : list Z) (s : state) (l : list cstep)
  : option state :=
  match l with
  | [] => Some s
  | Step k code nd obs :: r =>
    let '(s', out) := step_out c s (to_op strs k) in
    let ok_out :=
      match out with
      | Ok d => (code =? 0) &&
                match k with
                | KCreate _ _ => (0 <? nd) && String.eqb d (str_at strs (nd - 1))
                | _ => true
                end
      | Err e => code =? err_code e
      end in
    if ok_out && forallb (obs_ok strs watch s') obs then run_steps c strs watch s' r else None
  end.

Definition check (x : case) : bool :=
  match x with
  | CHist strs book modtf moddistr blk fee watch steps final =>
    let bk := mk_book strs book in
    let c := {| addr_of := book_lookup bk; mod_tf := modtf; mod_distr := moddistr;
                blocked := fun a => existsb (Z.eqb a) blk;
                fee := map (fun p => (str_at strs (fst p), snd p)) fee |} in
    (* the one law the theorems assume of AccAddressFromBech32 *)
    match book_lookup bk EmptyString with
    | Some _ => false
    | None =>
      match run_steps c strs watch empty_state steps with
      | None => false
      | Some s => forallb (obs_ok strs watch s) final
      end
    end
  end.
