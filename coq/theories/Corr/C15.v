(** Correspondence cases for C15: the harness drives the real msg server / keeper on a history,
    records the projected observables after every step; [check] re-runs the model on the same
    history and compares step by step. *)
From Coq Require Import List ZArith Bool.
From Paloma Require Import Base.Corr Skyway.TaxLimit.
Import ListNotations.
Open Scope Z_scope.

(** What is observed on the real state after one step, for the token [so_tok] the step is about. *)
Record stepobs := {
  so_tx : bool;               (* true: delivered inside a transaction; false: handler called on the bare context *)
  so_out : Z;                 (* outcome class *)
  so_tok : Z;
  so_acct : Z;                (* the account the step is about (sender / canceller) *)
  so_bal : Z;                 (* its balance in [so_tok] *)
  so_escrow : Z;              (* skyway module balance in [so_tok] *)
  so_burned : Z;              (* initial supply - current supply of [so_tok] *)
  so_usage : option (Z * Z)   (* BridgeTransferUsage(so_tok): (total, start height) *)
}.

Record finalobs := {
  fo_pool : list (Z * Z * Z * Z * Z);                 (* id, sender, token, amount, tax *)
  fo_batches : list (Z * Z * list (Z * Z * Z * Z * Z)); (* nonce, token, transfers *)
  fo_bals : list (list Z);                            (* per token, per account *)
  fo_usages : list (option (Z * Z));                  (* per token *)
  (* what the real store returns for BridgeTax(denom) / BridgeTransferLimit(denom) with the exact denom of
     each token: (num, den) of the stored rate string, exempt accounts in stored order; (limit, period code) *)
  fo_taxes : list (option (Z * Z * list Z));
  fo_limits : list (option (Z * Z * list Z))
}.

Inductive case :=
| CHist (accts toks : list Z) (bals : list (Z * Z * Z)) (mp : list Z)
        (steps : list (op * stepobs)) (fin : finalobs).

Definition err_code (e : err) : Z :=
  match e with
  | EInvalid => 10 | EDenom => 11 | ELimit => 12 | EFunds => 13 | ECoins => 14
  | EUnknownTx => 15 | ENotSender => 16 | ENoBatch => 17 | ERate => 18
  end.
Definition out_code (o : outcome) : Z :=
  match o with Ok => 0 | Panic => 1 | Err e => err_code e end.

Definition usage_obs (u : option usage) : option (Z * Z) :=
  match u with None => None | Some u => Some (u_total u, u_start u) end.
Definition zz_eqb (a b : Z * Z) : bool := (fst a =? fst b) && (snd a =? snd b).
Definition tx_obs (t : transfer) : Z * Z * Z * Z * Z := (t_id t, t_sender t, t_tok t, t_amount t, t_tax t).
Definition tx_eqb (a b : Z * Z * Z * Z * Z) : bool :=
  let '(a1, a2, a3, a4, a5) := a in let '(b1, b2, b3, b4, b5) := b in
  (a1 =? b1) && (a2 =? b2) && (a3 =? b3) && (a4 =? b4) && (a5 =? b5).

(** equality of lists up to order (ids are unique) *)
Definition same_set {A} (eqb : A -> A -> bool) (l1 l2 : list A) : bool :=
  (Nat.eqb (length l1) (length l2)) && forallb (fun x => existsb (eqb x) l2) l1
  && forallb (fun x => existsb (eqb x) l1) l2.

Definition batch_eqb (a b : Z * Z * list (Z * Z * Z * Z * Z)) : bool :=
  let '(n1, t1, l1) := a in let '(n2, t2, l2) := b in
  (n1 =? n2) && (t1 =? t2) && same_set tx_eqb l1 l2.

Definition step_ok (accts : list Z) (s : state) (o : outcome) (ob : stepobs) : bool :=
  (out_code o =? so_out ob)
  && (bal s (so_acct ob) (so_tok ob) =? so_bal ob)
  && (escrow s (so_tok ob) =? so_escrow ob)
  && (burned s (so_tok ob) =? so_burned ob)
  && option_eqb zz_eqb (usage_obs (usages s (so_tok ob))) (so_usage ob).

Fixpoint replay (accts : list Z) (s : state) (steps : list (op * stepobs)) : option state :=
  match steps with
  | [] => Some s
  | (o, ob) :: r =>
      let '(s', out) := if so_tx ob then deliver o s else raw o s in
      if step_ok accts s' out ob then replay accts s' r else None
  end.

Definition period_code (p : period) : Z :=
  match p with PNone => 0 | PDaily => 1 | PWeekly => 2 | PMonthly => 3 | PYearly => 4 end.
Definition taxcfg_obs (c : option taxcfg) : option (Z * Z * list Z) :=
  match c with None => None | Some c => Some (tc_num c, tc_den c, tc_exempt c) end.
Definition limcfg_obs (c : option limcfg) : option (Z * Z * list Z) :=
  match c with None => None | Some c => Some (lc_limit c, period_code (lc_period c), lc_exempt c) end.
Definition cfg_eqb (a b : Z * Z * list Z) : bool :=
  let '(a1, a2, a3) := a in let '(b1, b2, b3) := b in (a1 =? b1) && (a2 =? b2) && list_eqb Z.eqb a3 b3.

Definition final_ok (accts toks : list Z) (s : state) (f : finalobs) : bool :=
  same_set tx_eqb (map tx_obs (pool s)) (fo_pool f)
  && same_set batch_eqb (map (fun b => (b_nonce b, b_tok b, map tx_obs (b_txs b))) (batches s)) (fo_batches f)
  && list_eqb (list_eqb Z.eqb) (map (fun t => map (fun a => bal s a t) accts) toks) (fo_bals f)
  && list_eqb (option_eqb zz_eqb) (map (fun t => usage_obs (usages s t)) toks) (fo_usages f)
  && list_eqb (option_eqb cfg_eqb) (map (fun t => taxcfg_obs (taxes s t)) toks) (fo_taxes f)
  && list_eqb (option_eqb cfg_eqb) (map (fun t => limcfg_obs (limits s t)) toks) (fo_limits f).

Definition check (c : case) : bool :=
  match c with
  | CHist accts toks bals mp steps fin =>
      match replay accts (init bals mp) steps with
      | None => false
      | Some s => final_ok accts toks s fin
      end
  end.
