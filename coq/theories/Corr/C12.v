(** Correspondence cases for C12: one case = one history driven on the real valset / staking /
    slashing keepers; every op carries what the implementation answered or what was observed
    after it; [check] re-runs the model on the same ops and compares step by step.
    Versions are instantiated by their rank in semver's preorder (computed by the harness with
    the real semver.Compare). *)
From Coq Require Import List ZArith Bool.
From Paloma Require Import Base.Corr Valset.KeepAlive.
From Paloma Require Gen.C12.
Import ListNotations.
Open Scope Z_scope.

Inductive op :=
| OAddVal (i : Z)
| OEnv (l : list (Z * Z * Z))                 (* index, status, consensus power — as read from staking *)
| OBegin
| OKeepAlive (i : Z) (ver : Z) (ok : bool)
| OSetMin (ver : Z) (ok : bool)
| OSchedule (ver target : Z) (ok : bool)
| OUnjail (i : Z)
| OExtJail (i : Z)
| OJail (i : Z) (ok : bool)
| OTick (dh dt : Z)                           (* clock advance after an [OEnd 0 0 …] followed by jailings of later end-blockers *)
| OEnd (dh dt : Z) (obs : option (list (bool * option Z * Z * Z)))
         (* per validator: jailed, grace start, log duration, jailed until; None = same as at the previous end-block *)
       (minver : Z) (blob : option (option (list Z))) (* stored v2 blob; None = same as before *)
       (has_legacy : bool).

Inductive case :=
| CHist (addrs : list (list Z)) (legacy : option (list Z)) (h0 : Z) (min0 : Z) (ops : list op)
| CSentence (d next thr : Z)
| CTable (t : list Z).

Definition st := state Z.

Definition addr_of (addrs : list (list Z)) (i : Z) : addr := nth (Z.to_nat i) addrs [].

Definition zlist_eqb := list_eqb Z.eqb.

Definition obs_ok (s : st) (a : addr) (o : bool * option Z * Z * Z) : bool :=
  let '(j, g, d, u) := o in
  match find_val a (vals s) with
  | None => false
  | Some v => Bool.eqb (v_jailed v) j
  end
  && option_eqb Z.eqb (lookup a (grace s)) g
  && (match lookup a (jlog s) with Some (d', _) => d' | None => 0 end =? d)
  && (match lookup a (until s) with Some u' => u' | None => 0 end =? u).

Fixpoint obs_all (s : st) (addrs : list (list Z)) (obs : list (bool * option Z * Z * Z)) : bool :=
  match obs with
  | [] => true
  | o :: r => match addrs with
              | [] => false
              | a :: ar => obs_ok s a o && obs_all s ar r
              end
  end.

(** checker state: model state, number of validators created, last observations, last blob *)
Definition cst : Type := st * Z * list (bool * option Z * Z * Z) * option (list Z).

Definition cstep (addrs : list (list Z)) (acc : option cst) (o : op) : option cst :=
  match acc with
  | None => None
  | Some (s, n, lo, lb) =>
    let ret (s' : st) := Some (s', n, lo, lb) in
    match o with
    | OAddVal i => if i =? n then Some (step Z.ltb s (AddVal (addr_of addrs i)), n + 1, lo, lb) else None
    | OEnv l => ret (fold_left (fun s t => let '(i, stt, pw) := t in step Z.ltb s (SetEnv (addr_of addrs i) stt pw)) l s)
    | OBegin => ret (step Z.ltb s BeginBlock)
    | OKeepAlive i ver ok =>
        let '(s', r) := keep_alive Z.ltb s (addr_of addrs i) ver in
        if Bool.eqb r ok then ret s' else None
    | OSetMin ver ok =>
        let '(s', r) := set_min Z.ltb s ver in if Bool.eqb r ok then ret s' else None
    | OSchedule ver t ok =>
        let '(s', r) := schedule Z.ltb s ver t in if Bool.eqb r ok then ret s' else None
    | OUnjail i => ret (step Z.ltb s (Unjail (addr_of addrs i)))
    | OExtJail i => ret (step Z.ltb s (ExtJail (addr_of addrs i)))
    | OJail i ok =>
        let '(s', r) := jail s (addr_of addrs i) in if Bool.eqb r ok then ret s' else None
    | OTick dh dt => ret (step Z.ltb s (Tick dh dt))
    | OEnd dh dt obs mv blob hl =>
        let '(s1, r) := end_block s in
        let obs' := match obs with Some x => x | None => lo end in
        let blob' := match blob with Some x => x | None => lb end in
        if r && obs_all s1 addrs obs' && (Z.of_nat (length obs') =? n) && (minver s1 =? mv)
           && option_eqb zlist_eqb (snap s1) blob'
           && Bool.eqb (match snap_legacy s1 with Some _ => true | None => false end) hl
        then Some (step Z.ltb s (EndBlock dh dt), n, obs', blob') else None
    end
  end.

Definition check (c : case) : bool :=
  match c with
  | CHist addrs legacy h0 min0 ops =>
      match fold_left (cstep addrs) ops (Some (init h0 1000000000 legacy min0, 0, [], None)) with
      | Some _ => true
      | None => false
      end
  | CSentence d next thr => (next_sentence d =? next) && (reset_threshold d =? thr)
  | CTable t => zlist_eqb t Gen.C12.jail_sentences
  end.

(** index of the first op at which model and implementation part (for diagnosis) *)
Fixpoint first_bad (addrs : list (list Z)) (ops : list op) (acc : option cst) (k : Z) : Z :=
  match ops with
  | [] => -1
  | o :: r => match cstep addrs acc o with
              | None => k
              | acc' => first_bad addrs r acc' (k + 1)
              end
  end.
