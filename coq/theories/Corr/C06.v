(** Correspondence cases for C06: the harness records histories driven through the real consensus
    keeper (real valset keeper, real EVM queue verifier, secp256k1 keys) and the real skyway msg
    server, with the outcome class of every operation and the stored signatures after every step;
    [check] re-runs the models on the same histories and compares step by step.

    Signatures are real in the harness; here they are described by WHO signed WHAT (private key id and
    the item version whose bytes were signed), and the model is run with the ideal scheme
    [iverify]/[icverify].  That the real bytes of two versions differ exactly when the model's
    [sign_bytes] tuples differ is thereby part of what is compared. *)
From Coq Require Import List ZArith Bool.
From Paloma Require Import Base.Corr Cons.Queue Skyway.Confirms.
Import ListNotations.
Open Scope Z_scope.

Definition kind_of_code (z : Z) : kind :=
  if z =? 1 then KUpdateValset else if z =? 2 then KSubmitLogicCall else if z =? 3 then KUploadSmartContract
  else if z =? 4 then KUploadUserSmartContract else if z =? 5 then KCompassHandover else KOther.

(** signature by private key [key] over the bytes of the item version (kind, body, id, est, fees, relayer) *)
Inductive sspec :=
| SOver (key k body id est : Z) (f : option (Z * Z * Z)) (relayer : Z)
| SJunk.

Definition version (k body id est : Z) (f : option (Z * Z * Z)) (relayer : Z) : item isig :=
  {| it_id := id; it_chain := 0; it_kind := kind_of_code k; it_body := body; it_relayer := relayer;
     it_needs_est := false; it_estimates := []; it_est := est; it_fees := f; it_sigs := [] |}.

Definition to_isig (s : sspec) : isig :=
  match s with
  | SOver key k body id est f rel => Some (key, sign_bytes (version k body id est f rel))
  | SJunk => None
  end.

(** (chain, address string id, Pubkey blob id, parsed 20-byte address id) *)
Definition mk_acct (t : Z * Z * Z * Z) : acct :=
  let '(c, a, k, e) := t in {| ac_chain := c; ac_addr := a; ac_key := k; ac_eth := e |}.

Inductive qop :=
| QRegister (v : Z) (accts : list (Z * Z * Z * Z))
| QPut (chain k body relayer : Z) (needs : bool)
| QSign (v chain id addr : Z) (s : sspec)
| QEstimate (v chain id value : Z)
| QElect (chain id est : Z) (f : Z * Z * Z)
| QRemove (chain id : Z)
| QReassign (chain id relayer : Z)
| QReplace (chain id body : Z).

Definition to_op (o : qop) : op isig :=
  match o with
  | QRegister v l => OpRegister v (map mk_acct l)
  | QPut c k b r n => OpPut c (kind_of_code k) b r n
  | QSign v c id a s => OpSign v c id a (to_isig s)
  | QEstimate v c id x => OpEstimate v c id x
  | QElect c id e f => OpElect c id e f
  | QRemove c id => OpRemove c id
  | QReassign c id r => OpReassign c id r
  | QReplace c id b => OpReplace c id b
  end.

Definition res_code (r : res) : Z :=
  match r with
  | ROk => 0 | RNoKey => 1 | RNoMsg => 2 | RDupKey => 3 | RDupVal => 4 | RBadSig => 5 | RNoEstNeeded => 6
  | RDupEstimate => 7 | RAlreadyElected => 8 | RCollision => 9 | RNotEligible => 10
  end.

(** observed item: id, chain, kind, relayer, elected estimate, fees, estimates (validator, value),
    stored signatures (validator, named address, key) *)
Definition iobs := (Z * Z * Z * Z * Z * option (Z * Z * Z) * list (Z * Z) * list (Z * Z * Z))%type.

Definition obs_item (it : item isig) : iobs :=
  (it_id it, it_chain it, kind_code (it_kind it), it_relayer it, it_est it, it_fees it, it_estimates it,
   map (fun e => (se_val e, se_addr e, se_key e)) (it_sigs it)).

Definition z3_eqb (a b : Z * Z * Z) : bool :=
  let '(a1, a2, a3) := a in let '(b1, b2, b3) := b in (a1 =? b1) && (a2 =? b2) && (a3 =? b3).
Definition z2_eqb (a b : Z * Z) : bool := (fst a =? fst b) && (snd a =? snd b).

Definition iobs_eqb (a b : iobs) : bool :=
  let '(i1, c1, k1, r1, e1, f1, es1, s1) := a in
  let '(i2, c2, k2, r2, e2, f2, es2, s2) := b in
  (i1 =? i2) && (c1 =? c2) && (k1 =? k2) && (r1 =? r2) && (e1 =? e2) && option_eqb z3_eqb f1 f2
  && list_eqb z2_eqb es1 es2 && list_eqb z3_eqb s1 s2.

Inductive qstepc :=
| QStep (o : qop) (r : Z) (after : list iobs)
| QStepNoObs (o : qop) (r : Z).   (* inside one end-block: the state is observed after the last election only *)

(** The verifier of the EVM queues looks at the LAST 20 BYTES of the registered Pubkey blob; the harness numbers a blob
    1000 * (id of those 20 bytes) + encoding variant, a signature is described by the id of the EVM key that made it. *)
Definition qverify (b : sbytes) (sg : isig) (k : Z) : bool := iverify b sg (k / 1000).

Definition qcheck_step (acc : option (state isig)) (st : qstepc) : option (state isig) :=
  match acc, st with
  | None, _ => None
  | Some s, QStep o r after =>
      let '(s', r') := step isig qverify s (to_op o) in
      if (res_code r' =? r) && list_eqb iobs_eqb (map obs_item (st_items s')) after then Some s' else None
  | Some s, QStepNoObs o r =>
      let '(s', r') := step isig qverify s (to_op o) in
      if res_code r' =? r then Some s' else None
  end.

(** every stored signature verifies against the item's current bytes (the model-side twin of the oracle) *)
Definition all_valid (s : state isig) : bool :=
  forallb (fun it => forallb (fun e => qverify (sign_bytes it) (se_sig e) (se_key e)) (it_sigs it)) (st_items s).

(** ** batches *)

Inductive cspec :=
| COver (key contract body nonce timeout relayer est : Z)
| CJunk.

Definition to_icsig (s : cspec) : icsig :=
  match s with
  | COver key ct body n t rel est =>
      Some (key, checkpoint {| b_nonce := n; b_contract := ct; b_chain := 0; b_body := body; b_timeout := t;
                               b_relayer := rel; b_est := est |})
  | CJunk => None
  end.

Inductive bop :=
| BReg (v : Z) (accts : list (Z * Z * Z * Z))
| BStat (v st : Z)
| BBld (contract chain body timeout relayer : Z)
| BCnf (v nonce contract signer : Z) (s : cspec)
| BUpd (nonce contract est : Z)
| BRem (nonce contract : Z)
| BRbd (nonce contract body : Z).

Definition to_cop (o : bop) : cop icsig :=
  match o with
  | BReg v l => BRegister v (map mk_acct l)
  | BStat v st => BSetStatus v st
  | BBld ct ch b t r => BBuild ct ch b t r
  | BCnf v n ct sg s => BConfirm v n ct sg (to_icsig s)
  | BUpd n ct e => BUpdateEstimate n ct e
  | BRem n ct => BRemove n ct
  | BRbd n ct b => BRebody n ct b
  end.

Definition cres_code (r : cres) : Z :=
  match r with
  | COk => 0 | CNoBatch => 1 | CNoKey => 2 | CWrongSigner => 3 | CBadSig => 4 | CDupVal => 5 | CDupKey => 6
  | CAlreadySet => 7 | CCollision => 8 | CNotValidator => 9 | CUnbonded => 10 | CNotBonded => 11
  end.

Definition z4_eqb (a b : Z * Z * Z * Z) : bool :=
  let '(a1, a2, a3, a4) := a in let '(b1, b2, b3, b4) := b in (a1 =? b1) && (a2 =? b2) && (a3 =? b3) && (a4 =? b4).

(** Set comparison of the confirmations (the store iterates them by orchestrator address). *)
Definition subset4 (a b : list (Z * Z * Z * Z)) : bool := forallb (fun x => existsb (z4_eqb x) b) a.

(** observed: batches (nonce, contract, estimate, relayer) in creation order; confirmations
    (nonce, contract, validator, signer) as a set *)
Inductive bstepc :=
| BStep (o : bop) (r : Z) (batches : list (Z * Z * Z * Z)) (confirms : list (Z * Z * Z * Z))
| BStepNoObs (o : bop) (r : Z).

Definition bcheck_step (acc : option (cstate icsig)) (st : bstepc) : option (cstate icsig) :=
  match acc, st with
  | None, _ => None
  | Some s, BStep o r bs cs =>
      let '(s', r') := cstep icsig icverify s (to_cop o) in
      let mb := map (fun b => (b_nonce b, b_contract b, b_est b, b_relayer b)) (cs_batches s') in
      let mc := map (fun c => (cf_nonce c, cf_contract c, cf_val c, cf_signer c)) (cs_confirms s') in
      if (cres_code r' =? r) && list_eqb z4_eqb mb bs && subset4 mc cs && subset4 cs mc
         && (Z.of_nat (length mc) =? Z.of_nat (length cs))
      then Some s' else None
  | Some s, BStepNoObs o r =>
      let '(s', r') := cstep icsig icverify s (to_cop o) in
      if cres_code r' =? r then Some s' else None
  end.

Inductive case :=
| CQueue (steps : list qstepc)
| CBatch (steps : list bstepc).

Definition check (c : case) : bool :=
  match c with
  | CQueue steps => match fold_left qcheck_step steps (Some init) with Some _ => true | None => false end
  | CBatch steps => match fold_left bcheck_step steps (Some cinit) with Some _ => true | None => false end
  end.
