(** Correspondence cases for C03: the harness delivers real messages through the real
    VerifyAuthorisedSignatureDecorator (with the real feegrant keeper) and the real msg servers and
    records who signed, who was named, what was accepted and whose state moved; [check] re-runs the
    model over the table generated from the Go sources and compares. *)
From Coq Require Import List ZArith Bool String.
From Paloma Require Import Base.Corr Auth.Discipline Auth.Ante Auth.Objects.
From Paloma Require Gen.C03.
Import ListNotations.
Open Scope Z_scope.

Inductive case :=
(** full delivery: ValidateBasic ;; decorator ;; msg server. [biz]: the message is valid apart from
    who signs / is named (by construction of the scenario). Observed: decorator verdict, handler
    success, principals (other than the creator) whose attributed state changed. *)
| CDeliver (kind : string) (auth : Z) (g : list (Z * Z)) (signers : list Z) (creator : Z)
           (fields : list (string * Z)) (ext : list Z) (biz : bool)
           (o_ante o_ok : bool) (o_touched : list Z)
(** a multi-message transaction: (kind, signers, creator, fields, ext, biz) per message, in the
    order the decorator sees them (messages nested in authz.MsgExec flattened in, the wrapper left
    out); observed: decorator verdict over the whole tx, whether the whole tx went through, touched *)
| CTx (auth : Z) (g : list (Z * Z))
      (msgs : list (string * list Z * Z * list (string * Z) * list Z * bool))
      (o_ante o_ok : bool) (o_touched : list Z)
(** an object history (second round): correctly self-signed messages of several principals over token
    denoms, ERC20 bindings and pending transfers, interleaved with genesis round trips of modules;
    per step the model operation and whether the real delivery was accepted; at the end the real
    stores' projection: (denom creator, sub, admin), (erc20, bound denom creator, sub), (pending id, sender) *)
| CHist (env : Z) (steps : list (oop * bool)) (admins : list (Z * Z * Z)) (binds : list (Z * Z * Z)) (pending : list (Z * Z))
(** one message wrapped in [depth] levels of authz.MsgExec (grantee = its signer at every level), the
    whole as the single top-level message of a transaction; fields as CDeliver *)
| CNest (depth : Z) (kind : string) (auth : Z) (g : list (Z * Z)) (signers : list Z) (creator : Z)
        (fields : list (string * Z)) (ext : list Z) (biz : bool) (o_ante o_ok : bool) (o_touched : list Z)
(** decorator only, any message type *)
| CAnte (kind : string) (g : list (Z * Z)) (signers : list Z) (creator : Z) (o_ante : bool)
(** shape of the message type as the real codec sees it: 0 = signers resolved from metadata,
    1 = from authority; whether it implements MsgWithMetadata *)
| CShape (kind : string) (signer_kind : Z) (has_meta : bool).

Fixpoint find_spec (kind : string) (l : list msgspec) : option msgspec :=
  match l with
  | [] => None
  | s :: r => if String.eqb (ms_name s) kind then Some s else find_spec kind r
  end.

Definition subset (a b : list Z) : bool := forallb (fun x => memz x b) a.
Definition same_set (a b : list Z) : bool := subset a b && subset b a.

Fixpoint targets (auth : Z) (m : msg) (rows : list (string * discipline)) : list Z :=
  match rows with
  | [] => []
  | r :: rest => match target auth m r with
                 | Some (_, p) => p :: targets auth m rest
                 | None => targets auth m rest
                 end
  end.

(** the creator's and the tx signers' own attributed state may always move (sequence of stored
    messages carry their addresses): they signed. *)
Definition minus (xs : list Z) (l : list Z) : list Z := filter (fun y => negb (memz y xs)) l.

(** id the harness gives to a field value that is not an address of any actor: nobody's state *)
Definition nobody : Z := 99.

Definition is_other (op : oop) : bool := match op with OOther => true | _ => false end.

Fixpoint run_hist (sh : shape) (s : ost) (steps : list (oop * bool)) : option ost :=
  match steps with
  | [] => Some s
  | (op, ok) :: r =>
    if is_other op then run_hist sh s r
    else let (s', b) := ostep sh s op in
         if Bool.eqb b ok then run_hist sh s' r else None
  end.

Definition opt_z_eqb (a : option Z) (b : Z) : bool := match a with Some x => x =? b | None => false end.

Definition check_hist (env : Z) (steps : list (oop * bool)) (admins binds : list (Z * Z * Z)) (pending : list (Z * Z)) : bool :=
  match run_hist Gen.C03.code_shape (if env =? 2 then init_env2 else init_env1) steps with
  | None => false
  | Some s =>
    forallb (fun x => let '(dc, ds, a) := x in opt_z_eqb (admin_of s (dc, ds)) a) admins
    && forallb (fun x => let '(e, dc, ds) := x in match e2d s e with Some d => denom_eqb d (dc, ds) | None => false end) binds
    && (if env =? 2 then true
        else forallb (fun e => match e2d s e with
                               | Some _ => existsb (fun x => fst (fst x) =? e) binds
                               | None => true end) [1; 2; 3])
    && forallb (fun x => match pend s (fst x) with Some (p, _) => p =? snd x | None => false end) pending
    && (Z.of_nat (List.length (o_pend s)) =? Z.of_nat (List.length pending))
  end.

Definition check (c : case) : bool :=
  match c with
  | CHist env steps admins binds pending => check_hist env steps admins binds pending
  | CNest depth kind auth g signers creator fields ext biz o_ante o_ok o_touched =>
    match find_spec kind Gen.C03.specs with
    | None => false
    | Some spec =>
      let m := MkMsg signers creator fields ext in
      if negb (ante_nested Gen.C03.ante_lookup_carried Gen.C03.max_nested_depth g [wrap (Z.to_nat depth) (NLeaf (spec, m))])
      then negb o_ante && negb o_ok && same_set o_touched []
      else match deliver auth g spec m empty_state with
           | RejectedAnte => false
           | RejectedGuard => o_ante && negb o_ok && same_set o_touched []
           | Done _ =>
             o_ante &&
             (if biz then o_ok && same_set (minus (creator :: signers) o_touched) (minus (nobody :: creator :: signers) (targets auth m (ms_rows spec)))
              else negb o_ok && same_set o_touched [])
           end
    end
  | CDeliver kind auth g signers creator fields ext biz o_ante o_ok o_touched =>
    match find_spec kind (Gen.C03.specs ++ Gen.C03.wasm_specs) with
    | None => false
    | Some spec =>
      let m := MkMsg signers creator fields ext in
      match deliver auth g spec m empty_state with
      | RejectedAnte => negb o_ante && negb o_ok && same_set o_touched []
      | RejectedGuard => o_ante && negb o_ok && same_set o_touched []
      | Done _ =>
        o_ante &&
        (if biz then o_ok && same_set (minus (creator :: signers) o_touched) (minus (nobody :: creator :: signers) (targets auth m (ms_rows spec)))
         else negb o_ok && same_set o_touched [])
      end
    end
  | CTx auth g msgs o_ante o_ok o_touched =>
    let resolved := map (fun x => let '(kind, signers, creator, fields, ext, biz) := x in
                                  (find_spec kind Gen.C03.specs, MkMsg signers creator fields ext, biz)) msgs in
    if negb (forallb (fun x => match fst (fst x) with Some _ => true | None => false end) resolved) then false
    else
      let tx := flat_map (fun x => match fst (fst x) with Some sp => [(sp, snd (fst x))] | None => [] end) resolved in
      let allbiz := forallb (fun x => snd x) resolved in
      let own := flat_map (fun sm => m_creator (snd sm) :: m_meta_signers (snd sm)) tx in
      let tg := flat_map (fun sm => targets auth (snd sm) (ms_rows (fst sm))) tx in
      match deliver_tx Gen.C03.ante_lookup_carried auth g tx empty_state with
      | RejectedAnte => negb o_ante && negb o_ok && same_set o_touched []
      | RejectedGuard => o_ante && negb o_ok && same_set o_touched []
      | Done _ =>
        o_ante && (if allbiz then o_ok && same_set (minus own o_touched) (minus (nobody :: own) tg)
                   else negb o_ok && same_set o_touched [])
      end
  | CAnte kind g signers creator o_ante =>
    match find_spec kind Gen.C03.specs with
    | None => false
    | Some spec => Bool.eqb (ante_msg g spec (MkMsg signers creator [] [])) o_ante
    end
  | CShape kind sk hm =>
    match find_spec kind Gen.C03.specs with
    | None => false
    | Some spec => Bool.eqb (ms_has_meta spec) hm
                   && (match ms_signer spec with SignMetadata => sk =? 0 | SignAuthority => sk =? 1 end)
    end
  end.
