(** Correspondence cases for C13.  The harness drives the real skyway keeper / msg server (real
    secp256k1 keys) and the real consensus keeper's PruneJob, and records what it did and saw;
    [check] re-runs the models of Skyway/Evidence.v and Cons/Prune.v on the same inputs.

    Idealisation used only here: a checkpoint is identified with the triple (deployment id, body,
    packed estimate) it was computed from, [ccp] being an injective encoding of the triple (the
    harness itself verifies on every run that the real checkpoint bytes are in bijection with these
    triples); a signature is (key index, triple signed), and recovering it under another
    checkpoint gives an address nobody registered (what ecrecover does, short of a collision). *)
From Coq Require Import List ZArith Bool.
From Paloma Require Import Base.Corr Base.Num Skyway.Evidence Cons.Quorum Cons.Prune.
Import ListNotations.
Open Scope Z_scope.

Definition csig : Type := Z * (Z * Z * Z).

(** tid < 2^31, body < 2^32, estimate < 2^64 *)
Definition ccp (t b e : Z) : Z := (t * 4294967296 + b) * 18446744073709551616 + e.

(** key < 0: not decodable / too short.  tid < 0 in the signed triple: the signed bytes are not a
    checkpoint of any subject used in the history. *)
Definition crecover (c : Z) (sg : csig) : option addr :=
  let '(k, (t, b, e)) := sg in
  if k <? 0 then None
  else if (0 <=? t) && (c =? ccp t b e) then Some k else Some (-1).

Definition res_code (r : res) : Z :=
  match r with
  | ROk => 0 | RErrChain => 1 | RErrExists => 2 | RErrNotFound => 3 | RErrAlreadySet => 4
  | RErrArchived => 5 | RErrSig => 6 | RErrNoVal => 7
  end.

(** one step of a history: the operation, the outcome class observed, the jailed validators after it *)
Inductive estep :=
| EStep (o : op csig) (r : Z) (jailed : list Z)
  (** a batch query of the real query server returned, for batch [key], BytesToSign = checkpoint of [c] *)
| EServed (key : Z) (c : Z * Z * Z)
  (** MsgConfirmBatch for batch [key] with a signature by the orchestrator's registered key over the
      checkpoint of [c]: did the signature check pass *)
| EConfirm (key : Z) (c : Z * Z * Z) (sig_ok : bool).

Inductive case :=
| CEvid (steps : list estep) (arch : list (Z * Z * Z * bool))
  (** [ops]: the message's history as driven through the real keeper, in order: (0, v, tag, bytes, bad)
      = MsgAddEvidence accepted, (1, ..) = SetMessageErrorData, (2, ..) = SetMessagePublicAccessData;
      [public] [error] [evs]: the flags and the evidence list read back from the real queue before pruning *)
| CPrune (sn : list (Z * Z)) (total : Z) (public error : bool) (ops : list (Z * Z * Z * Z * bool)) (evs : list (Z * Z * Z * bool))
         (refuse : list Z) (calls : list Z) (jailed : list Z).

Definition same_set (a b : list Z) : bool :=
  forallb (fun x => memz x b) a && forallb (fun x => memz x a) b.

Definition estep_ok (s : option state) (e : estep) : option state :=
  match s, e with
  | None, _ => None
  | Some s, EStep o r j =>
    let '(s', r') := exec ccp crecover code_cfg s o in
    if (res_code r' =? r) && same_set (st_jailed s') j then Some s' else None
  | Some s, EServed key (t, b, e) =>
    match served_bts ccp code_cfg s key with
    | Some c => if c =? ccp t b e then Some s else None
    | None => None
    end
  | Some s, EConfirm key (t, b, e) ok =>
    match confirm_checks_against ccp code_cfg s key with
    | Some c => if Bool.eqb (c =? ccp t b e) ok then Some s else None
    | None => None
    end
  end.

Definition ikey (tag data : Z) : Z * Z := (tag, data).
Definition ikeqb (a b : Z * Z) : bool := (fst a =? fst b) && (snd a =? snd b).
Definition mk_ev (t : Z * Z * Z * bool) : evidence :=
  let '(v, tag, d, bad) := t in {| ev_val := v; ev_tag := tag; ev_data := d; ev_bad := bad |}.

Definition mk_mop (t : Z * Z * Z * Z * bool) : mop :=
  let '(k, v, tag, d, bad) := t in
  if k =? 0 then MEvidence {| ev_val := v; ev_tag := tag; ev_data := d; ev_bad := bad |}
  else if k =? 1 then MSetError else MSetPublic.

Definition zlist_eqb := list_eqb Z.eqb.
Definition ev_eqb (a b : evidence) : bool :=
  (ev_val a =? ev_val b) && (ev_tag a =? ev_tag b) && (ev_data a =? ev_data b) && Bool.eqb (ev_bad a) (ev_bad b).

Definition check (c : case) : bool :=
  match c with
  | CEvid steps arch =>
    match fold_left estep_ok steps (Some init) with
    | None => false
    | Some s => forallb (fun '(t, b, e, a) => Bool.eqb (memz (ccp t b e) (st_archive s)) a) arch
    end
  | CPrune sn total public error ops evs refuse calls jailed =>
    let snap := {| sn_vals := sn; sn_total := total |} in
    let m := msg_of_history (map mk_mop ops) in
    let cs := prune_calls ikeqb ikey (fun g => g) snap m in
    Bool.eqb (pm_public m) public && Bool.eqb (pm_error m) error &&
    list_eqb ev_eqb (pm_evs m) (map mk_ev evs) &&
    zlist_eqb cs calls &&
    same_set (prune_job ikeqb ikey (fun g => g) (fun _ v => negb (memz v refuse)) snap [] m) jailed
  end.
