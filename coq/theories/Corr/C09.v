(** C09 correspondence: histories of real msg-server / keeper calls and real consensus end-blocks,
    with what the implementation answered at every step; [check] re-runs Sys/EndBlock on them. *)
From Coq Require Import List ZArith Bool.
From Paloma Require Import Base.Corr Base.Dec Gen.C09 Sys.EndBlock Sys.EndBlockAttest Sys.EndBlockMods.
Import ListNotations.
Open Scope Z_scope.

Definition obs := list (Z * Z * option (Z * Z * Z)).

Inductive hop :=
| HUpsert (v : Z) (fees : list (Z * option Z)) (ok : bool)
| HGovC (f : option Z)
| HGovS (f : option Z)
| HSnapshot (snap : list (Z * Z))
| HPut (chain : Z) (res : option (Z * Z))          (* Some (id, assignee) or rejected *)
| HEstimate (v id value : Z) (ok : bool)
| HEndBlock (outcome : Z) (o : obs).                 (* 0 completed, 1 error returned, 2 panic *)

(** second round: histories of the attestation / pruning steps (Sys/EndBlockAttest.v) *)
Inductive xop :=
| XSnapshot (snap : list (Z * Z))
| XPut (id rank : Z) (kind : akind) (height : Z) (pad : bool)
| XElect (id : Z)
| XEvidence (val id : Z) (p : proof) (ok : bool)          (* through the msg server: accepted? *)
| XStored (val id : Z) (p : proof)                         (* written through the queue object, as code before the submission check did *)
| XPublicData (id : Z) (ok : bool)
| XErrorData (id : Z) (ok : bool)
| XEndBlock (height outcome : Z) (ids jailed : list Z).    (* outcome 0 completed / 1 error / 2 panic; queue ids left; validators found jailed *)

(** the skyway end-blocker: claims voted by every validator, then the real EndBlocker *)
Inductive yop :=
| YClaim (chain nonce : Z) (c : claim)
| YEndBlock (outcome : Z) (cursors : list Z) (effects : Z). (* outcome 0 = nothing escaped; per-chain cursor; applied deposits *)

Inductive case :=
| CHist (ops : list hop)
| CMulCeil (d n : Z) (res : option Z)                (* mulCeilUint64: Some r or error *)
| CBlocks (outcomes : list Z)                        (* every module's real Begin/EndBlock at every height class: 0 = completed *)
| CAttest (ops : list xop)
| CSkyway (chains : Z) (ops : list yop)
| CWorthy (cur new : list Z) (tcur tnew : Z) (res : Z)  (* isNewSnapshotWorthy on equal-order snapshots: 0 not worthy / 1 worthy / 2 panic *)
| CGovBlocks (hostile_weights_accepted : bool) (outcomes : list Z) (* end-blocks on a governance-configured state; the flag: the
                                                                     RelayWeightsProposal handler stored un-rankable weights for the active chain *)
| CGate (running : option semver) (required : option (option semver)) (outcome : Z). (* the real paloma BeginBlock: 0 completed / 2 panic *)

Definition fees_eqb (a b : option (Z * Z * Z)) : bool :=
  option_eqb (fun x y => let '(a1, a2, a3) := x in let '(b1, b2, b3) := y in (a1 =? b1) && (a2 =? b2) && (a3 =? b3)) a b.

Definition obs_eqb (a b : obs) : bool :=
  list_eqb (fun x y => let '(i, e, f) := x in let '(j, g, h) := y in (i =? j) && (e =? g) && fees_eqb f h) a b.

(** some validator of the snapshot has a fee entry for the chain *)
Definition any_eligible (chain : Z) (s : state) : bool :=
  match st_snapshot s with
  | None => false
  | Some snap => existsb (fun e => put_ok chain (fst e) s) snap
  end.

Fixpoint replay (ops : list hop) (s : state) : bool :=
  match ops with
  | [] => true
  | h :: r =>
    match h with
    | HUpsert v fees ok =>
      Bool.eqb (upsert_ok v fees) ok && replay r (if ok then upsert v fees s else s)
    | HGovC f => replay r (apply (OGovCommunity f) s)
    | HGovS f => replay r (apply (OGovSecurity f) s)
    | HSnapshot snap => replay r (apply (OSnapshot snap) s)
    | HPut chain (Some (id, a)) =>
      put_ok chain a s && (st_next s =? id) && replay r (put chain a true true s)
    | HPut chain None =>
      (* the ranking may refuse for reasons of its own (C14); it must refuse when nobody is eligible,
         and it did refuse, so the state is unchanged *)
      replay r s
    | HEstimate v id value ok =>
      Bool.eqb (estimate_ok v id value s) ok && replay r (if ok then add_estimate v id value s else s)
    | HEndBlock outcome o =>
      match consensus_end_block s with
      | Ok s' => (outcome =? 0) && obs_eqb (observe s') o && replay r s'
      | Err _ => false
      | Panic _ => (outcome =? 2)
      end
    end
  end.

(** an accepted Put needs an eligible validator (the converse direction of HPut None) *)
Fixpoint puts_need_eligible (ops : list hop) (s : state) : bool :=
  match ops with
  | [] => true
  | h :: r =>
    match h with
    | HUpsert v fees ok => puts_need_eligible r (if ok then upsert v fees s else s)
    | HGovC f => puts_need_eligible r (apply (OGovCommunity f) s)
    | HGovS f => puts_need_eligible r (apply (OGovSecurity f) s)
    | HSnapshot snap => puts_need_eligible r (apply (OSnapshot snap) s)
    | HPut chain (Some (id, a)) => any_eligible chain s && puts_need_eligible r (put chain a true true s)
    | HPut chain None => puts_need_eligible r s
    | HEstimate v id value ok => puts_need_eligible r (if ok then add_estimate v id value s else s)
    | HEndBlock _ _ => match consensus_end_block s with Ok s' => puts_need_eligible r s' | _ => true end
    end
  end.

Definition zlist_eqb (a b : list Z) : bool := list_eqb Z.eqb a b.
Definition subset (a b : list Z) : bool := forallb (fun x => existsb (Z.eqb x) b) a.

Fixpoint xreplay (ops : list xop) (s : astate) : bool :=
  match ops with
  | [] => true
  | o :: r =>
    match o with
    | XSnapshot snap => xreplay r (aapply (ASnapshot snap) s)
    | XPut id rank kind h pad =>
      aaccept current (APut id rank kind h pad) s && xreplay r (aapply (APut id rank kind h pad) s)
    | XElect id => xreplay r (aapply (AElect id) s)
    | XEvidence val id p ok =>
      Bool.eqb (aaccept current (AEvidence val id p) s) ok && xreplay r (if ok then aapply (AEvidence val id p) s else s)
    | XStored val id p => has_msg id s && xreplay r (aapply (AEvidence val id p) s)
    | XPublicData id ok =>
      Bool.eqb (aaccept current (APublicData id) s) ok && xreplay r (if ok then aapply (APublicData id) s else s)
    | XErrorData id ok =>
      Bool.eqb (aaccept current (AErrorData id) s) ok && xreplay r (if ok then aapply (AErrorData id) s else s)
    | XEndBlock h outcome ids jailed =>
      match aend_block current h s with
      | AOk s' =>
        (outcome =? 0) && zlist_eqb (queue_ids s') ids &&
        (* Jail may refuse (already jailed, last validator, share protection): found jailed => called *)
        subset jailed (as_jail_calls s') && xreplay r s'
      | APanic _ => (outcome =? 2)
      end
    end
  end.

Fixpoint yreplay (ops : list yop) (s : sky) : bool :=
  match ops with
  | [] => true
  | o :: r =>
    match o with
    | YClaim ch n c => sky_claim_ok (Z.to_nat ch) n s && yreplay r (sky_add_claim (Z.to_nat ch) n c s)
    | YEndBlock outcome cursors effects =>
      let s' := sky_end_block s in
      (outcome =? 0) && zlist_eqb (k_cursor s') cursors && (k_effects s' =? effects) && yreplay r s'
    end
  end.

Definition check (c : case) : bool :=
  match c with
  | CHist ops => replay ops init && puts_need_eligible ops init
  | CMulCeil d n res =>
    match mul_ceil_u64 d n, res with
    | Ok r, Some r' => r =? r'
    | Err _, None => true
    | _, _ => false
    end
  | CBlocks outcomes => forallb (fun x => x =? 0) outcomes
  | CAttest ops => xreplay ops ainit
  | CSkyway chains ops => yreplay ops (sky_init (Z.to_nat chains))
  | CWorthy cur new tcur tnew res =>
    match worthy_powers cur new tcur tnew with
    | WOk false => res =? 0
    | WOk true => res =? 1
    | WDivByZero => res =? 2
    end
  | CGovBlocks hostile outcomes =>
    (* a tree that validates relay weights never stores hostile ones, and then every block completes;
       a tree that does not (known finding until fix f8776774 is merged) may overflow while ranking *)
    if Gen.C09.relay_weights_validated_when_set then negb hostile && forallb (fun x => x =? 0) outcomes
    else if hostile then forallb (fun x => (x =? 0) || (x =? 2)) outcomes else forallb (fun x => x =? 0) outcomes
  | CGate running required outcome => if gate_open running required then outcome =? 0 else outcome =? 2
  end.
