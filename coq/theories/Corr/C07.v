(** Correspondence cases for C07.  The abstract model of Evm/Attest.v is instantiated with a
    SYMBOLIC call data: the method and the positional list of the values that are packed, in the
    order in which the source packs them (Gen/C07.v, regenerated from eth_txable.go on every
    check).  The harness builds the real call data with go-ethereum from the compass ABI out of the
    same symbolic description (its own table of what each compass method takes), feeds the real
    VerifyAgainstTX / attestRouter / CheckAndProcessAttestedMessages, and records what they did. *)
From Coq Require Import List ZArith Bool.
From Paloma Require Import Base.Corr Cons.Quorum Evm.Attest Evm.AttestSym Evm.AttestEvidence Evm.UserDeployments.
Import ListNotations.
Open Scope Z_scope.

(** transaction = (hash id, call data) *)
Definition tx := (Z * calldata)%type.

(** the other stores, as far as verification and the modelled follow-ups read and write them:
    stored snapshots already projected to this chain's compass valset, whether a compass contract
    is known, the deployment records of the user contracts, the current block height *)
Record wstate := {
  wsnaps : list (Z * valset);   (* stored snapshots the messages may name, projected to the compass valset *)
  wcompass : bool;              (* a compass contract is known *)
  wurecs : list urec;           (* deployment records of the user contracts *)
  wheight : Z;                  (* current block height *)
  wlive : list (Z * Z);         (* (snapshot id, chain): the chain is listed in that snapshot's Chains (with repetitions) *)
  wactive : list (Z * Z);       (* (chain, id of the chain's active compass contract) *)
  wcurrent : Z                  (* id of the current (= last stored) snapshot; ids 1 .. wcurrent are stored *)
}.
Definition set_urecs (w : wstate) (l : list urec) : wstate :=
  {| wsnaps := wsnaps w; wcompass := wcompass w; wurecs := l; wheight := wheight w; wlive := wlive w; wactive := wactive w; wcurrent := wcurrent w |}.
Definition set_height (h : Z) (w : wstate) : wstate :=
  {| wsnaps := wsnaps w; wcompass := wcompass w; wurecs := wurecs w; wheight := h; wlive := wlive w; wactive := wactive w; wcurrent := wcurrent w |}.
Definition set_chain_facts (live active : list (Z * Z)) (cur : Z) (w : wstate) : wstate :=
  {| wsnaps := wsnaps w; wcompass := wcompass w; wurecs := wurecs w; wheight := wheight w; wlive := live; wactive := active; wcurrent := cur |}.
Fixpoint set_assoc (k v : Z) (l : list (Z * Z)) : list (Z * Z) :=
  match l with
  | [] => [(k, v)]
  | (k', v') :: r => if k' =? k then (k, v) :: r else (k', v') :: set_assoc k v r
  end.
(** k.Valset.GetLatestSnapshotOnChain(chain) finds a snapshot: SOME stored snapshot lists the chain *)
Definition live_on (w : wstate) (chain : Z) : bool := existsb (fun p => snd p =? chain) (wlive w).
(** FindSnapshotByID succeeds *)
Definition snapshot_stored (w : wstate) (id : Z) : bool := (1 <=? id) && (id <=? wcurrent w).
Fixpoint vs_lookup (id : Z) (l : list (Z * valset)) : valset :=
  match l with
  | [] => empty_valset
  | (k, v) :: r => if k =? id then v else vs_lookup id r
  end.
Definition valset_at (w : wstate) (id : Z) : valset := if id =? 0 then empty_valset else vs_lookup id (wsnaps w).

(** what the action's follow-up did, as observed: None = it failed, Some l = it succeeded and
    enqueued the messages l *)
Definition envt := option (list body).

Definition cmsg := msg body sigd tx.
Definition astate := state body sigd valset Z tx wstate.
Definition cwinner := @winner tx.

(** the follow-up of an accepted transaction: for submit_logic_call (nothing follows) and
    update_valset (SetSnapshotOnChain's error is only logged, older updates are pruned) it cannot
    fail and queues nothing -- PREDICTED; for the deployments and the handover it is the observed input *)
(** body fields the harness files for the follow-ups: 100 the store key (contract id, user contract
    id, new valset id), 102 UploadUserSmartContract.BlockHeight, 103 Retries, 104 the chain (0 = the
    history's first chain) *)
Definition bfield (b : body) (i : Z) : Z := hd 0 (lookup i (b_vals b)).

Definition apply_effect (e : envt) (m : cmsg) (t : tx) (w : wstate) : option (wstate * list body) :=
  let b := m_body _ _ _ m in
  let chain := bfield b 104 in
  match b_kind b with
  | KSubmitLogicCall => Some (w, [])
  | KUpdateValset =>
    (* SetSnapshotOnChain(new valset id, chain): the chain is appended to that snapshot's Chains; an
       unknown snapshot is only logged *)
    Some (if snapshot_stored w (bfield b 100)
          then set_chain_facts (wlive w ++ [(bfield b 100, chain)]) (wactive w) (wcurrent w) w else w, [])
  | KUploadCompass =>
    (* the deployment record is checked and updated (observed: e = None when that fails); then the
       DECISION: no stored snapshot lists the chain (GetLatestSnapshotOnChain = ErrNotFound) => first
       deployment: the current snapshot is listed on the chain and the contract becomes the active
       compass at once; otherwise the deployment waits and a handover is scheduled (what that
       queues: observed) -- activation then needs the handover's own transaction *)
    match e with
    | None => None
    | Some l =>
      if live_on w chain then Some (w, l)
      else Some (set_chain_facts (wlive w ++ [(wcurrent w, chain)]) (set_assoc chain (bfield b 100) (wactive w)) (wcurrent w) w, l)
    end
  | KHandover =>
    (* SetSmartContractAsActive (fails unless the deployment waits for the handover: observed) *)
    match e with
    | None => None
    | Some l => Some (set_chain_facts (wlive w) (set_assoc chain (bfield b 100) (wactive w)) (wcurrent w) w, l)
    end
  | KUploadUser =>
    (* SetUserSmartContractDeploymentActive: the record of THIS message (contract id, chain, the
       height at which its deployment was put in flight) becomes ACTIVE; no such record: error *)
    match e with
    | None => None
    | Some l =>
      match finish (wurecs w) (bfield b 100) chain (bfield b 102) 1 (wheight w) with
      | Some recs => Some (set_urecs w recs, l)
      | None => None
      end
    end
  end.
(** the follow-up of an error proof: update_valset and the handover only emit an event -- PREDICTED;
    a user contract upload beyond the retry limit marks its own record ERROR (a failure to find it
    is only logged); the retrying actions queue what the harness saw appear (at most the retry) *)
Definition on_error_proof (e : envt) (m : cmsg) (w : wstate) : wstate * list body :=
  let b := m_body _ _ _ m in
  match b_kind b with
  | KUpdateValset | KHandover => (w, [])
  | KUploadUser =>
    if 2 <=? bfield b 103 then
      (match finish (wurecs w) (bfield b 100) (bfield b 104) (bfield b 102) 2 (wheight w) with
       | Some recs => set_urecs w recs
       | None => w
       end, [])
    else (w, match e with None => [] | Some l => l end)
  | _ => (w, match e with None => [] | Some l => l end)
  end.

Definition c_verify := verify body sigd valset calldata tx b_kind b_fees_present expected_calldata expected_deploy calldata_eqb.
Definition c_step := step body sigd valset calldata Z tx wstate envt b_kind code_guards b_fees_present expected_calldata expected_deploy
  calldata_eqb Z.eqb fst snd valset_at wcompass apply_effect on_error_proof.
Definition c_attest := attest body sigd valset calldata Z tx wstate envt b_kind code_guards b_fees_present expected_calldata expected_deploy
  calldata_eqb Z.eqb fst snd valset_at wcompass apply_effect on_error_proof.

(* ---------- second round: the validators' reports and the election of the winner ---------- *)

(** group key: the (type, bytes) pair itself — the collision-free idealisation of sha256 *)
Definition ckey := (Z * Z)%type.
Definition ckeqb (a b : ckey) : bool := (fst a =? fst b) && (snd a =? snd b).
Definition chash (t d : Z) : ckey := (t, d).

(** serialisation of what BytesToHash covers: injective on what the harness produces (every
    component is the id of an interned byte string or a number below 2^64 - 1; a transaction is
    identified by the id of its hash) *)
Definition enc_list (l : list Z) : Z := fold_left (fun acc x => acc * 18446744073709551616 + (x + 1)) l 1.
Definition c_enc (p : payload tx) : Z :=
  match p with
  | HTx t r => enc_list ([1; match t with Some (h, _) => h + 1 | None => 0 end] ++
                         match r with None => [0] | Some l => 1 :: l end)
  | HErr m => enc_list [2; m]
  | HOther d => enc_list [3; d]
  end.

(** the history's state: Evm/Attest.v's state plus the reports stored with each message.  The
    current snapshot [sn] (validator ids with their shares, recorded total) is fixed per history. *)
Definition cstate := @rstate body sigd valset Z tx wstate.
Definition crop := @rop body sigd tx wstate envt ckey.
Definition c_rstep (sn : snapshot) : cstate -> crop -> cstate :=
  rstep body sigd valset calldata Z tx wstate envt b_kind code_guards b_fees_present expected_calldata expected_deploy
    calldata_eqb Z.eqb fst snd valset_at wcompass apply_effect on_error_proof ckeqb chash c_enc (fun _ => sn).
Definition c_elected (sn : snapshot) : cstate -> Z -> (list (@group ckey) -> list (@group ckey)) -> option cwinner :=
  elected body sigd valset Z tx wstate ckeqb chash c_enc (fun _ => sn).
Definition c_rendblock (sn : snapshot) : cstate -> (Z -> envt) -> (Z -> list (@group ckey) -> list (@group ckey)) -> cstate :=
  rendblock body sigd valset calldata Z tx wstate envt b_kind code_guards b_fees_present expected_calldata expected_deploy
    calldata_eqb Z.eqb fst snd valset_at wcompass apply_effect on_error_proof ckeqb chash c_enc (fun _ => sn).
(** Go's map order: at most one group can hold 2/3 (C04 winner_unique), any order will do *)
Definition c_ord (gs : list (@group ckey)) : list (@group ckey) := gs.

(* ---------- recorded operations ---------- *)

(** a report: transaction proof (hash id, call data, receipt = [type; post state; status;
    cumulative gas; bloom; logs] or absent), error proof (message), any other registered proof type *)
Inductive cproof :=
| XPTx (h : Z) (d : calldata) (rc : option (list Z))
| XPErr (m : Z)
| XPOther (tg d : Z).

Definition receipt_of (l : list Z) : receipt :=
  {| r_type := nth 0 l 0; r_post := nth 1 l 0; r_status := nth 2 l 0; r_gas := nth 3 l 0; r_bloom := nth 4 l 0; r_logs := nth 5 l 0 |}.
Definition proof_of (p : cproof) : proof tx :=
  match p with
  | XPTx h d rc => PTx (h, d) (option_map receipt_of rc)
  | XPErr m => PErr m
  | XPOther tg d => POther tg d
  end.

Inductive cop :=
| XEnqueue (b : Z * Z * list (Z * val))
| XReplace (id : Z) (b : Z * Z * list (Z * val))
| XSign (id : Z) (s : sigd)
| XGas (id g : Z)
| XValset (id v : Z)
| XAddEv (id : Z) (vals : list Z) (p : cproof) (* AddMessageEvidence by each of these validators, in this order *)
| XRemove (id : Z)
| XRemoveMany (ids : list Z)             (* pruning by the consensus end-blocker *)
| XSkip (k : Z)                          (* k ids of the shared counter went to other queues *)
| XCompass (present : bool)
| XHeight (h : Z)                                   (* the block height moved *)
| XUserDeploy (cid chain : Z)                       (* CreateUserSmartContractDeployment succeeded *)
| XUserSync (recs : list (Z * Z * Z * Z * Z))       (* an end-blocker purged stale user contracts: the records as they are now *)
| XChainSync (live active : list (Z * Z)) (cur : Z)  (* set-up / snapshots built meanwhile: which snapshots list which chain, the active
                                                      compass per chain, the id of the current snapshot -- as they are now *)
| XAttest (id : Z) (spawned : option (list (Z * Z * list (Z * val))))
| XEndBlock (spawned : list (Z * option (list (Z * Z * list (Z * val))))).

(** result classes: 0 nil (incl. nothing to do), 1 ErrEthTxNotVerified, 2 ErrEthTxFailed,
    3 already processed, 4 any other error *)
Definition res_class (r : result) : Z :=
  match r with
  | RSkipped | RNil => 0 | RNotVerified => 1 | RTxFailed => 2 | RAlreadyProcessed => 3 | ROther => 4
  end.

Record obs := {
  o_res : Z;                 (* class for XAttest; 0 otherwise (the end-blocker loop returns nil) *)
  o_queue : list Z;          (* ids in the turnstone queue, ascending *)
  o_processed : list Z;      (* hash ids of the transactions of this history that are marked processed, ascending *)
  o_relay : list (Z * bool); (* metrix records (message id, success), by message id *)
  o_effects : list (Z * Z);  (* committed success follow-ups seen in the stores: (kind, key), sorted *)
  o_urecs : list (Z * Z * Z * Z * Z); (* user contract deployment records (contract, chain, created, updated, status), by contract *)
  o_live : list (Z * Z);     (* (snapshot id, chain) for every listing of a chain in a stored snapshot, sorted *)
  o_active : list (Z * Z)    (* (chain, active compass contract id) of every chain with an active compass, by chain *)
}.
Definition obs_t := (Z * list Z * list Z * list (Z * bool) * list (Z * Z) * list (Z * Z * Z * Z * Z) * list (Z * Z) * list (Z * Z))%type.
Definition mk_obs (t : obs_t) : obs :=
  let '(r, q, p, l, e, u, lv, ac) := t in
  {| o_res := r; o_queue := q; o_processed := p; o_relay := l; o_effects := e; o_urecs := u; o_live := lv; o_active := ac |}.

Definition env_of (o : option (list (Z * Z * list (Z * val)))) : envt := option_map (map mk_body) o.
Fixpoint env_lookup (l : list (Z * option (list (Z * Z * list (Z * val))))) (id : Z) : envt :=
  match l with
  | [] => Some []
  | (k, e) :: r => if k =? id then env_of e else env_lookup r id
  end.

Definition mk_urec (t : Z * Z * Z * Z * Z) : urec :=
  let '(c, ch, cr, up, st) := t in {| u_cid := c; u_chain := ch; u_created := cr; u_updated := up; u_status := st |}.
Definition set_compass (b : bool) (w : wstate) : wstate :=
  {| wsnaps := wsnaps w; wcompass := b; wurecs := wurecs w; wheight := wheight w; wlive := wlive w; wactive := wactive w; wcurrent := wcurrent w |}.

(** an id handed to another queue: the turnstone queue never shows it *)
Fixpoint skip_ids (sn : snapshot) (s : cstate) (k : nat) : cstate :=
  match k with
  | O => s
  | Datatypes.S j =>
    let id := next_id _ _ _ _ _ _ (abs s) in
    skip_ids sn (c_rstep sn (c_rstep sn s (REnqueue (mk_body (3, 0, [])))) (RRemove id)) j
  end.

Definition apply_cop (sn : snapshot) (s : cstate) (o : cop) : cstate * Z :=
  match o with
  | XEnqueue b => (c_rstep sn s (REnqueue (mk_body b)), 0)
  | XReplace id b => (c_rstep sn s (RReplaceBody id (mk_body b)), 0)
  | XSign id sg => (c_rstep sn s (RSign id sg), 0)
  | XGas id g => (c_rstep sn s (RSetGas id g), 0)
  | XValset id v => (c_rstep sn s (RSetValset id v), 0)
  | XAddEv id vals p => (fold_left (fun s' v => c_rstep sn s' (RAddEvidence id v (proof_of p))) vals s, 0)
  | XRemove id => (c_rstep sn s (RRemove id), 0)
  | XRemoveMany l => (fold_left (fun s' id => c_rstep sn s' (RRemove id)) l s, 0)
  | XSkip k => (skip_ids sn s (Z.to_nat k), 0)
  | XCompass b => (c_rstep sn s (RWorld (set_compass b)), 0)
  | XHeight h => (c_rstep sn s (RWorld (set_height h)), 0)
  | XUserDeploy cid chain => (c_rstep sn s (RWorld (fun w => set_urecs w (create (wurecs w) cid chain (wheight w)))), 0)
  | XUserSync recs => (c_rstep sn s (RWorld (fun w => set_urecs w (map mk_urec recs))), 0)
  | XChainSync live active cur => (c_rstep sn s (RWorld (set_chain_facts live active cur)), 0)
  | XAttest id e =>
    (* = c_rstep sn s (RAttest id (env_of e) c_ord), keeping attestRouter's result *)
    let s1 := c_step (abs s) (OpEvidence _ _ _ _ _ id (c_elected sn s id c_ord)) in
    let '(s2, r) := c_attest s1 id (env_of e) in
    ({| abs := s2; evid := evid s |}, res_class r)
  | XEndBlock l => (c_rendblock sn s (env_lookup l) (fun _ => c_ord), 0)
  end.

(* ---------- projections of the model state ---------- *)

Fixpoint insert_z (x : Z) (l : list Z) : list Z :=
  match l with
  | [] => [x]
  | y :: r => if x <=? y then x :: l else y :: insert_z x r
  end.
Definition sort_z (l : list Z) : list Z := fold_right insert_z [] l.

Definition pair_leb (a b : Z * Z) : bool :=
  (fst a <? fst b) || ((fst a =? fst b) && (snd a <=? snd b)).
Fixpoint insert_p (x : Z * Z) (l : list (Z * Z)) : list (Z * Z) :=
  match l with
  | [] => [x]
  | y :: r => if pair_leb x y then x :: l else y :: insert_p x r
  end.
Definition sort_p (l : list (Z * Z)) : list (Z * Z) := fold_right insert_p [] l.

Fixpoint insert_r (x : Z * bool) (l : list (Z * bool)) : list (Z * bool) :=
  match l with
  | [] => [x]
  | y :: r => if fst x <=? fst y then x :: l else y :: insert_r x r
  end.
Definition sort_r (l : list (Z * bool)) : list (Z * bool) := fold_right insert_r [] l.

Fixpoint dedup_sorted (l : list Z) : list Z :=
  match l with
  | x :: ((y :: _) as r) => if x =? y then dedup_sorted r else x :: dedup_sorted r
  | _ => l
  end.

(** which store entry an accepted transaction's follow-up touches, per kind: (kind, key) with the
    key = first integer of the value the harness files under index 100 (contract id, user contract
    id, new valset id); submit_logic_call has no follow-up in the stores *)
Definition kind_z (k : kind) : Z :=
  match k with KUploadCompass => 0 | KUploadUser => 1 | KUpdateValset => 2 | KSubmitLogicCall => 3 | KHandover => 4 end.
Definition effect_key (w : wstate) (e : effect body sigd valset tx) : list (Z * Z) :=
  let b := m_body _ _ _ (e_msg _ _ _ _ e) in
  let key := bfield b 100 + 1000 * bfield b 104 in
  match b_kind b with
  | KSubmitLogicCall => []
  | KUpdateValset => (* SetSnapshotOnChain on an unknown snapshot fails and is only logged *)
    if snapshot_stored w (bfield b 100) then [(2, key)] else []
  | k => [(kind_z k, key)]
  end.

(** the user deployment records, by contract id (stable: per contract in order of creation) *)
Fixpoint insert_u (x : urec) (l : list urec) : list urec :=
  match l with
  | [] => [x]
  | y :: r => if u_cid x <? u_cid y then x :: l else y :: insert_u x r
  end.
Definition sort_u (l : list urec) : list urec := fold_left (fun acc x => insert_u x acc) l [].
Definition urec_eqb (a : urec) (b : Z * Z * Z * Z * Z) : bool :=
  let '(c, ch, cr, up, st) := b in
  (u_cid a =? c) && (u_chain a =? ch) && (u_created a =? cr) && (u_updated a =? up) && (u_status a =? st).
Fixpoint urecs_eqb (l : list urec) (o : list (Z * Z * Z * Z * Z)) : bool :=
  match l, o with
  | [], [] => true
  | a :: r, b :: t => urec_eqb a b && urecs_eqb r t
  | _, _ => false
  end.

Definition bool_eqb (a b : bool) : bool := if a then b else negb b.
Definition relay_eqb (a b : Z * bool) : bool := (fst a =? fst b) && bool_eqb (snd a) (snd b).
Definition zz_eqb (a b : Z * Z) : bool := (fst a =? fst b) && (snd a =? snd b).

Definition obs_ok (rs : cstate) (r : Z) (o : obs) : bool :=
  let s := abs rs in
  (r =? o_res o)
  && list_eqb Z.eqb (map (m_id _ _ _) (queue _ _ _ _ _ _ s)) (o_queue o)
  && list_eqb Z.eqb (dedup_sorted (sort_z (processed _ _ _ _ _ _ s))) (o_processed o)
  && list_eqb relay_eqb (sort_r (relay_log _ _ _ _ _ _ s)) (o_relay o)
  && list_eqb zz_eqb (sort_p (flat_map (effect_key (world _ _ _ _ _ _ s)) (effects _ _ _ _ _ _ s))) (o_effects o)
  && urecs_eqb (sort_u (wurecs (world _ _ _ _ _ _ s))) (o_urecs o)
  && list_eqb zz_eqb (sort_p (wlive (world _ _ _ _ _ _ s))) (o_live o)
  && list_eqb zz_eqb (sort_p (filter (fun p => negb (snd p =? 0)) (wactive (world _ _ _ _ _ _ s)))) (o_active o).

Fixpoint run_steps (sn : snapshot) (s : cstate) (l : list (cop * obs_t)) : bool :=
  match l with
  | [] => true
  | (o, ob) :: r => let '(s', res) := apply_cop sn s o in obs_ok s' res (mk_obs ob) && run_steps sn s' r
  end.

Definition c_init (snaps : list (Z * valset)) (n0 : Z) : cstate :=
  rinit body sigd valset Z tx wstate
    {| wsnaps := snaps; wcompass := true; wurecs := []; wheight := 0; wlive := []; wactive := []; wcurrent := 0 |} n0.
Definition mk_snapshot (shares : list (Z * Z)) (total : Z) : snapshot := {| sn_vals := shares; sn_total := total |}.

Inductive case :=
(** real VerifyAgainstTX on one message and one transaction: got = 0 nil, 1 ErrEthTxNotVerified *)
| CVerify (b : Z * Z * list (Z * val)) (id gas : Z) (v : valset) (sigs : list sigd) (d : calldata) (got : Z)
(** a history on the real keepers: stored snapshots (projected), first message id, the current
    snapshot's (validator id, share) list and recorded total, steps *)
| CHistory (snaps : list (Z * valset)) (n0 : Z) (shares : list (Z * Z)) (total : Z)
           (steps : list (cop * obs_t)).

Definition check (c : case) : bool :=
  match c with
  | CVerify b id gas v sigs d got =>
    let m := {| m_id := id; m_body := mk_body b; m_gas := gas; m_pad := None; m_sigs := sigs; m_winner := None |} in
    match c_verify m v d with
    | Some _ => got =? 0
    | None => got =? 1
    end
  | CHistory snaps n0 shares total steps =>
    run_steps (mk_snapshot shares total) (c_init snaps n0) steps
  end.

(** debugging aid: index of the first step whose observation differs, with the five component
    verdicts (result, queue, processed, relay, effects) and the model's own values *)
Fixpoint first_bad (sn : snapshot) (rs : cstate) (l : list (cop * obs_t)) (i : Z) :=
  match l with
  | [] => None
  | (o, ob) :: r =>
    let '(rs', res) := apply_cop sn rs o in
    let s' := abs rs' in
    let ob' := mk_obs ob in
    if obs_ok rs' res ob' then first_bad sn rs' r (i + 1)
    else Some (i, res, map (m_id _ _ _) (queue _ _ _ _ _ _ s'), dedup_sorted (sort_z (processed _ _ _ _ _ _ s')),
               sort_r (relay_log _ _ _ _ _ _ s'), sort_p (flat_map (effect_key (world _ _ _ _ _ _ s')) (effects _ _ _ _ _ _ s')),
               sort_u (wurecs (world _ _ _ _ _ _ s')), sort_p (wlive (world _ _ _ _ _ _ s')), sort_p (wactive (world _ _ _ _ _ _ s')))
  end.
Definition diagnose (c : case) :=
  match c with
  | CHistory snaps n0 shares total steps => first_bad (mk_snapshot shares total) (c_init snaps n0) steps 0
  | _ => None
  end.
