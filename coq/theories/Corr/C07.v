(** Correspondence cases for C07.  The abstract model of Evm/Attest.v is instantiated with a
    SYMBOLIC call data: the method and the positional list of the values that are packed, in the
    order in which the source packs them (Gen/C07.v, regenerated from eth_txable.go on every
    check).  The harness builds the real call data with go-ethereum from the compass ABI out of the
    same symbolic description (its own table of what each compass method takes), feeds the real
    VerifyAgainstTX / attestRouter / CheckAndProcessAttestedMessages, and records what they did. *)
From Coq Require Import List ZArith Bool.
From Paloma Require Import Base.Corr Evm.Attest Evm.AttestSym.
Import ListNotations.
Open Scope Z_scope.

(** transaction = (hash id, call data) *)
Definition tx := (Z * calldata)%type.

(** the other stores, as far as verification reads them: stored snapshots already projected to
    this chain's compass valset, and whether a compass contract is known *)
Definition wstate := (list (Z * valset) * bool)%type.
Fixpoint vs_lookup (id : Z) (l : list (Z * valset)) : valset :=
  match l with
  | [] => empty_valset
  | (k, v) :: r => if k =? id then v else vs_lookup id r
  end.
Definition valset_at (w : wstate) (id : Z) : valset := if id =? 0 then empty_valset else vs_lookup id (fst w).

(** what the action's follow-up did, as observed: None = it failed, Some l = it succeeded and
    enqueued the messages l *)
Definition envt := option (list body).

Definition cmsg := msg body sigd tx.
Definition cstate := state body sigd valset Z tx wstate.
Definition cwinner := @winner tx.

Definition apply_effect (e : envt) (m : cmsg) (t : tx) (w : wstate) : option (wstate * list body) :=
  match e with None => None | Some l => Some (w, l) end.
Definition on_error_proof (e : envt) (m : cmsg) (w : wstate) : wstate * list body :=
  (w, match e with None => [] | Some l => l end).

Definition c_verify := verify body sigd valset calldata tx b_kind b_fees_present expected_calldata expected_deploy calldata_eqb.
Definition c_step := step body sigd valset calldata Z tx wstate envt b_kind b_fees_present expected_calldata expected_deploy
  calldata_eqb Z.eqb fst snd valset_at snd apply_effect on_error_proof.
Definition c_attest := attest body sigd valset calldata Z tx wstate envt b_kind b_fees_present expected_calldata expected_deploy
  calldata_eqb Z.eqb fst snd valset_at snd apply_effect on_error_proof.
Definition c_endblock := endblock body sigd valset calldata Z tx wstate envt b_kind b_fees_present expected_calldata expected_deploy
  calldata_eqb Z.eqb fst snd valset_at snd apply_effect on_error_proof.

(* ---------- recorded operations ---------- *)

Inductive cwin :=
| XNone                                  (* no evidence / no consensus *)
| XTx (h : Z) (d : calldata) (status : Z) (* status -1: receipt bytes absent *)
| XErr
| XOther.

Definition win_of (w : cwin) : option cwinner :=
  match w with
  | XNone => None
  | XTx h d st => Some (WTx (h, d) (if st =? (-1) then None else Some st))
  | XErr => Some WErr
  | XOther => Some WOther
  end.

Inductive cop :=
| XEnqueue (b : Z * Z * list (Z * val))
| XReplace (id : Z) (b : Z * Z * list (Z * val))
| XSign (id : Z) (s : sigd)
| XGas (id g : Z)
| XValset (id v : Z)
| XEvidence (id : Z) (w : cwin)
| XRemove (id : Z)
| XRemoveMany (ids : list Z)             (* pruning by the consensus end-blocker *)
| XSkip (k : Z)                          (* k ids of the shared counter went to other queues *)
| XCompass (present : bool)
| XAttest (id : Z) (spawned : option (list (Z * Z * list (Z * val))))
| XEndBlock (spawned : list (Z * option (list (Z * Z * list (Z * val))))).

(** result classes: 0 nil (incl. nothing to do), 1 ErrEthTxNotVerified, 2 ErrEthTxFailed,
    3 already processed, 4 any other error *)
Definition res_class (r : result) : Z :=
  match r with
  | RSkipped | RNil => 0 | RNotVerified => 1 | RTxFailed => 2 | RAlreadyProcessed => 3 | ROther => 4
  end.

Record obs := {
  o_res : Z;                 (* class for XAttest; 0 otherwise (the end-blocker loop returns nil) *)
  o_queue : list Z;          (* ids in the turnstone queue, ascending *)
  o_processed : list Z;      (* hash ids of the transactions of this history that are marked processed, ascending *)
  o_relay : list (Z * bool); (* metrix records (message id, success), by message id *)
  o_effects : list (Z * Z)   (* committed success follow-ups seen in the stores: (kind, key), sorted *)
}.
Definition mk_obs (t : Z * list Z * list Z * list (Z * bool) * list (Z * Z)) : obs :=
  let '(r, q, p, l, e) := t in {| o_res := r; o_queue := q; o_processed := p; o_relay := l; o_effects := e |}.

Definition env_of (o : option (list (Z * Z * list (Z * val)))) : envt := option_map (map mk_body) o.
Fixpoint env_lookup (l : list (Z * option (list (Z * Z * list (Z * val))))) (id : Z) : envt :=
  match l with
  | [] => Some []
  | (k, e) :: r => if k =? id then env_of e else env_lookup r id
  end.

Definition set_compass (b : bool) (w : wstate) : wstate := (fst w, b).

(** an id handed to another queue: the turnstone queue never shows it *)
Fixpoint skip_ids (s : cstate) (k : nat) : cstate :=
  match k with
  | O => s
  | Datatypes.S j =>
    let id := next_id _ _ _ _ _ _ s in
    skip_ids (c_step (c_step s (OpEnqueue _ _ _ _ _ (mk_body (3, 0, [])))) (OpRemove _ _ _ _ _ id)) j
  end.

Definition apply_cop (s : cstate) (o : cop) : cstate * Z :=
  match o with
  | XEnqueue b => (c_step s (OpEnqueue _ _ _ _ _ (mk_body b)), 0)
  | XReplace id b => (c_step s (OpReplaceBody _ _ _ _ _ id (mk_body b)), 0)
  | XSign id sg => (c_step s (OpSign _ _ _ _ _ id sg), 0)
  | XGas id g => (c_step s (OpSetGas _ _ _ _ _ id g), 0)
  | XValset id v => (c_step s (OpSetValset _ _ _ _ _ id v), 0)
  | XEvidence id w => (c_step s (OpEvidence _ _ _ _ _ id (win_of w)), 0)
  | XRemove id => (c_step s (OpRemove _ _ _ _ _ id), 0)
  | XRemoveMany l => (fold_left (fun s' id => c_step s' (OpRemove _ _ _ _ _ id)) l s, 0)
  | XSkip k => (skip_ids s (Z.to_nat k), 0)
  | XCompass b => (c_step s (OpWorld _ _ _ _ _ (set_compass b)), 0)
  | XAttest id e => let '(s', r) := c_attest s id (env_of e) in (s', res_class r)
  | XEndBlock l => (c_endblock s (env_lookup l), 0)
  end.

(* ---------- projections of the model state ---------- *)

Fixpoint insert_z (x : Z) (l : list Z) : list Z :=
  match l with
  | [] => [x]
  | y :: r => if x <=? y then x :: l else y :: insert_z x r
  end.
Definition sort_z (l : list Z) : list Z := fold_right insert_z [] l.

Definition pair_leb (a b : Z * Z) : bool :=
  (fst a <? fst b) || ((fst a =? fst b) && (snd a <=? snd b)).
Fixpoint insert_p (x : Z * Z) (l : list (Z * Z)) : list (Z * Z) :=
  match l with
  | [] => [x]
  | y :: r => if pair_leb x y then x :: l else y :: insert_p x r
  end.
Definition sort_p (l : list (Z * Z)) : list (Z * Z) := fold_right insert_p [] l.

Fixpoint insert_r (x : Z * bool) (l : list (Z * bool)) : list (Z * bool) :=
  match l with
  | [] => [x]
  | y :: r => if fst x <=? fst y then x :: l else y :: insert_r x r
  end.
Definition sort_r (l : list (Z * bool)) : list (Z * bool) := fold_right insert_r [] l.

Fixpoint dedup_sorted (l : list Z) : list Z :=
  match l with
  | x :: ((y :: _) as r) => if x =? y then dedup_sorted r else x :: dedup_sorted r
  | _ => l
  end.

(** which store entry an accepted transaction's follow-up touches, per kind: (kind, key) with the
    key = first integer of the value the harness files under index 100 (contract id, user contract
    id, new valset id); submit_logic_call has no follow-up in the stores *)
Definition kind_z (k : kind) : Z :=
  match k with KUploadCompass => 0 | KUploadUser => 1 | KUpdateValset => 2 | KSubmitLogicCall => 3 | KHandover => 4 end.
Definition effect_key (w : wstate) (e : effect body sigd valset tx) : list (Z * Z) :=
  let b := m_body _ _ _ (e_msg _ _ _ _ e) in
  let key := hd 0 (lookup 100 (b_vals b)) in
  match b_kind b with
  | KSubmitLogicCall => []
  | KUpdateValset => (* SetSnapshotOnChain on an unknown snapshot fails and is only logged *)
    if existsb (fun p => fst p =? key) (fst w) then [(2, key)] else []
  | k => [(kind_z k, key)]
  end.

Definition known_hashes (ops : list cop) : list Z :=
  flat_map (fun o => match o with XEvidence _ (XTx h _ _) => [h] | _ => [] end) ops.

Definition bool_eqb (a b : bool) : bool := if a then b else negb b.
Definition relay_eqb (a b : Z * bool) : bool := (fst a =? fst b) && bool_eqb (snd a) (snd b).
Definition zz_eqb (a b : Z * Z) : bool := (fst a =? fst b) && (snd a =? snd b).

Definition obs_ok (s : cstate) (r : Z) (o : obs) : bool :=
  (r =? o_res o)
  && list_eqb Z.eqb (map (m_id _ _ _) (queue _ _ _ _ _ _ s)) (o_queue o)
  && list_eqb Z.eqb (dedup_sorted (sort_z (processed _ _ _ _ _ _ s))) (o_processed o)
  && list_eqb relay_eqb (sort_r (relay_log _ _ _ _ _ _ s)) (o_relay o)
  && list_eqb zz_eqb (sort_p (flat_map (effect_key (world _ _ _ _ _ _ s)) (effects _ _ _ _ _ _ s))) (o_effects o).

Fixpoint run_steps (s : cstate) (l : list (cop * (Z * list Z * list Z * list (Z * bool) * list (Z * Z)))) : bool :=
  match l with
  | [] => true
  | (o, ob) :: r => let '(s', res) := apply_cop s o in obs_ok s' res (mk_obs ob) && run_steps s' r
  end.

Inductive case :=
(** real VerifyAgainstTX on one message and one transaction: got = 0 nil, 1 ErrEthTxNotVerified *)
| CVerify (b : Z * Z * list (Z * val)) (id gas : Z) (v : valset) (sigs : list sigd) (d : calldata) (got : Z)
(** a history on the real keepers: stored snapshots (projected), first message id, steps *)
| CHistory (snaps : list (Z * valset)) (n0 : Z)
           (steps : list (cop * (Z * list Z * list Z * list (Z * bool) * list (Z * Z)))).

Definition check (c : case) : bool :=
  match c with
  | CVerify b id gas v sigs d got =>
    let m := {| m_id := id; m_body := mk_body b; m_gas := gas; m_pad := None; m_sigs := sigs; m_winner := None |} in
    match c_verify m v d with
    | Some _ => got =? 0
    | None => got =? 1
    end
  | CHistory snaps n0 steps =>
    run_steps (init body sigd valset Z tx wstate (snaps, true) n0) steps
  end.

(** debugging aid: index of the first step whose observation differs, with the five component
    verdicts (result, queue, processed, relay, effects) and the model's own values *)
Fixpoint first_bad (s : cstate) (l : list (cop * (Z * list Z * list Z * list (Z * bool) * list (Z * Z)))) (i : Z) :=
  match l with
  | [] => None
  | (o, ob) :: r =>
    let '(s', res) := apply_cop s o in
    let ob' := mk_obs ob in
    if obs_ok s' res ob' then first_bad s' r (i + 1)
    else Some (i, res, map (m_id _ _ _) (queue _ _ _ _ _ _ s'), dedup_sorted (sort_z (processed _ _ _ _ _ _ s')),
               sort_r (relay_log _ _ _ _ _ _ s'), sort_p (flat_map (effect_key (world _ _ _ _ _ _ s')) (effects _ _ _ _ _ _ s')))
  end.
Definition diagnose (c : case) :=
  match c with
  | CHistory snaps n0 steps => first_bad (init body sigd valset Z tx wstate (snaps, true) n0) steps 0
  | _ => None
  end.
